(* Kernel/Recompute.v -- C12 / C01: re-enabling a bottom-up incidence kind computes, from the stored
   definitions of the not-deleted entities alone, exactly the incidences: the recomputed cache is the exact
   inverse of the definitions (membership, and duplicate-freeness), for EVERY state. *)
From Coq Require Import ZArith Lia Bool Arith List ZifyNat ZifyBool.
From OVM Require Import Base.ListX Base.ListLemmas Base.ListLemmas2 Kernel.State Kernel.Ops Kernel.Mirror.
Import ListNotations.
Ltac Zify.zify_post_hook ::= Z.div_mod_to_equations.
Local Open Scope nat_scope.

Lemma nth_push_at i x ll v : v < length ll ->
  nth v (push_at i x ll) [] = if i =? v then nth v ll [] ++ [x] else nth v ll [].
Proof.
  intros Hv. unfold push_at. rewrite nth_upd.
  destruct (Nat.eqb_spec i v) as [->|N]; simpl; [|reflexivity].
  replace (v <? length ll) with true by (symmetry; apply Nat.ltb_lt; exact Hv). reflexivity.
Qed.

Lemma push_at_length i x ll : length (push_at i x ll) = length ll.
Proof. unfold push_at. apply upd_length. Qed.

Lemma In_live_edges s e : In e (live_edges s) <-> e < ne s /\ e_deleted s e = false.
Proof. unfold live_edges. rewrite filter_In, in_seq, negb_true_iff. intuition lia. Qed.
Lemma In_live_faces s f : In f (live_faces s) <-> f < nf s /\ f_deleted s f = false.
Proof. unfold live_faces. rewrite filter_In, in_seq, negb_true_iff. intuition lia. Qed.
Lemma In_live_cells s c : In c (live_cells s) <-> c < nc s /\ c_deleted s c = false.
Proof. unfold live_cells. rewrite filter_In, in_seq, negb_true_iff. intuition lia. Qed.

Lemma NoDup_filter {A} (p : A -> bool) l : NoDup l -> NoDup (filter p l).
Proof.
  induction 1 as [|x l Hx Hl IH]; simpl; [constructor|]. destruct (p x); [|exact IH].
  constructor; [|exact IH]. rewrite filter_In. tauto.
Qed.
Lemma NoDup_live_edges s : NoDup (live_edges s).
Proof. apply NoDup_filter. apply seq_NoDup. Qed.
Lemma NoDup_live_faces s : NoDup (live_faces s).
Proof. apply NoDup_filter. apply seq_NoDup. Qed.
Lemma NoDup_live_cells s : NoDup (live_cells s).
Proof. apply NoDup_filter. apply seq_NoDup. Qed.

Lemma he_from_even s e : he_from s (2 * e) = fst (edge_at s e).
Proof.
  unfold he_from. replace (2 * e / 2) with e by lia. destruct (edge_at s e).
  replace (Nat.even (2 * e)) with true by (symmetry; rewrite even_mod2; apply Nat.eqb_eq; lia). reflexivity.
Qed.
Lemma he_from_odd s e : he_from s (2 * e + 1) = snd (edge_at s e).
Proof.
  unfold he_from. replace ((2 * e + 1) / 2) with e by lia. destruct (edge_at s e).
  replace (Nat.even (2 * e + 1)) with false by (symmetry; rewrite even_mod2; apply Nat.eqb_neq; lia). reflexivity.
Qed.

(* ================================================================ vertex -> outgoing halfedges *)

Definition vstep (s : mesh) (ll : list (list nat)) (e : nat) : list (list nat) :=
  let '(a, b) := edge_at s e in push_at b (2 * e + 1) (push_at a (2 * e) ll).

Definition vP (s : mesh) (L : list nat) (ll : list (list nat)) : Prop :=
  length ll = nv s /\ forall v, v < nv s ->
    NoDup (nth v ll []) /\ forall h, In h (nth v ll []) <-> (In (h / 2) L /\ he_from s h = v).

Lemma vstep_spec s ll e v : v < length ll ->
  nth v (vstep s ll e) [] = nth v ll [] ++ (if fst (edge_at s e) =? v then [2 * e] else [])
                                        ++ (if snd (edge_at s e) =? v then [2 * e + 1] else []).
Proof.
  intros Hv. unfold vstep. destruct (edge_at s e) as [a b]. cbn [fst snd].
  rewrite nth_push_at by (rewrite push_at_length; exact Hv). rewrite nth_push_at by exact Hv.
  destruct (a =? v); destruct (b =? v); rewrite <- ?app_assoc, ?app_nil_r; reflexivity.
Qed.

Lemma vstep_length s ll e : length (vstep s ll e) = length ll.
Proof. unfold vstep. destruct (edge_at s e). rewrite !push_at_length. reflexivity. Qed.

Lemma vP_step s done e ll : ~ In e done -> vP s done ll -> vP s (done ++ [e]) (vstep s ll e).
Proof.
  intros Hnew [HL HP]. split; [rewrite vstep_length; exact HL|].
  intros v Hv. specialize (HP v Hv). destruct HP as [ND HI].
  rewrite vstep_spec by lia.
  pose proof (he_from_even s e) as Fe. pose proof (he_from_odd s e) as Fo.
  set (a := fst (edge_at s e)) in *. set (b := snd (edge_at s e)) in *.
  assert (Hnot : forall h, In h (nth v ll []) -> h / 2 <> e).
  { intros h Hh E. apply HI in Hh. rewrite E in Hh. tauto. }
  split.
  - apply NoDup_app_intro; [exact ND| |].
    + destruct (a =? v); destruct (b =? v); simpl; repeat constructor; simpl; try tauto; lia.
    + intros h Hh Hin. specialize (Hnot h Hh).
      destruct (a =? v); destruct (b =? v); simpl in Hin; intuition lia.
  - intros h. rewrite !in_app_iff, HI. split.
    + intros [[H1 H2]|[H|H]].
      * tauto.
      * destruct (Nat.eqb_spec a v); [|destruct H]. destruct H as [<-|[]].
        split; [right; left; lia|]. rewrite Fe. assumption.
      * destruct (Nat.eqb_spec b v); [|destruct H]. destruct H as [<-|[]].
        split; [right; left; lia|]. rewrite Fo. assumption.
    + intros [[H|[H|[]]] Hf]; [left; tauto|].
      assert (h = 2 * e \/ h = 2 * e + 1) as [->| ->] by lia.
      * right; left. rewrite Fe in Hf. rewrite Hf, Nat.eqb_refl. left; reflexivity.
      * right; right. rewrite Fo in Hf. rewrite Hf, Nat.eqb_refl. left; reflexivity.
Qed.

Lemma compute_vbu_eq s : compute_vbu s = fold_left (vstep s) (live_edges s) (repeat [] (nv s)).
Proof. reflexivity. Qed.

Theorem compute_vbu_exact s :
  length (compute_vbu s) = nv s /\ forall v, v < nv s ->
    NoDup (nth v (compute_vbu s) []) /\ forall h, In h (nth v (compute_vbu s) []) <-> (h / 2 < ne s /\ e_deleted s (h / 2) = false /\ he_from s h = v).
Proof.
  rewrite compute_vbu_eq.
  assert (P : vP s (live_edges s) (fold_left (vstep s) (live_edges s) (repeat [] (nv s)))).
  { apply (fold_left_prefix_inv (vstep s) (vP s)).
    - split; [apply repeat_length|]. intros v Hv. rewrite nth_repeat. split; [constructor|]. intros h. simpl. tauto.
    - intros done x acc [rest E] HP. apply vP_step; [|exact HP].
      pose proof (NoDup_live_edges s) as ND. rewrite E in ND. apply NoDup_app_inv in ND. destruct ND as (_ & _ & D).
      intros Hin. exact (D x Hin (or_introl eq_refl)). }
  destruct P as [HL HP]. split; [exact HL|]. intros v Hv. destruct (HP v Hv) as [ND HI]. split; [exact ND|].
  intros h. rewrite HI, In_live_edges. tauto.
Qed.

(* ================================================================ halfface -> incident cell *)

Definition fstep_in (c : nat) (l : list (option nat)) (hf : nat) : list (option nat) :=
  match nth hf l None with None => upd hf (Some c) l | Some _ => l end.
Definition fstep (s : mesh) (l : list (option nat)) (c : nat) : list (option nat) := fold_left (fstep_in c) (cell_at s c) l.

Lemma fstep_in_length c l hf : length (fstep_in c l hf) = length l.
Proof. unfold fstep_in. destruct (nth hf l None); [reflexivity|apply upd_length]. Qed.

Lemma fold_fstep_in_spec c hfs : forall l x, x < length l ->
  length (fold_left (fstep_in c) hfs l) = length l /\
  nth x (fold_left (fstep_in c) hfs l) None =
    match nth x l None with Some y => Some y | None => if memb x hfs then Some c else None end.
Proof.
  induction hfs as [|hf hfs IH]; intros l x Hx; simpl.
  - split; [reflexivity|]. destruct (nth x l None); reflexivity.
  - destruct (IH (fstep_in c l hf) x ltac:(rewrite fstep_in_length; exact Hx)) as [L N].
    rewrite L, N, fstep_in_length. split; [reflexivity|].
    unfold fstep_in. destruct (nth hf l None) eqn:E.
    + destruct (nth x l None) eqn:E2; [reflexivity|].
      destruct (Nat.eqb_spec x hf) as [->|]; [congruence|]. simpl. reflexivity.
    + rewrite nth_upd. destruct (Nat.eqb_spec hf x) as [->|Nq]; simpl.
      * replace (x <? length l) with true by (symmetry; apply Nat.ltb_lt; exact Hx). rewrite E.
        rewrite Nat.eqb_refl. reflexivity.
      * destruct (nth x l None); [reflexivity|]. destruct (Nat.eqb_spec x hf); [lia|]. reflexivity.
Qed.

Definition fP (s : mesh) (L : list nat) (l : list (option nat)) : Prop :=
  length l = 2 * nf s /\ forall hf, hf < 2 * nf s -> nth hf l None = find (fun c => memb hf (cell_at s c)) L.

Theorem compute_fbu_first_live_cell s :
  length (compute_fbu s) = 2 * nf s /\ forall hf, hf < 2 * nf s ->
    nth hf (compute_fbu s) None = find (fun c => memb hf (cell_at s c)) (live_cells s).
Proof.
  change (compute_fbu s) with (fold_left (fstep s) (live_cells s) (repeat None (2 * nf s))).
  apply (fold_left_prefix_inv (fstep s) (fP s)).
  - split; [apply repeat_length|]. intros hf Hhf. rewrite nth_repeat. reflexivity.
  - intros done c acc _ [HL HP]. unfold fstep. split.
    + destruct (Nat.eq_dec (nf s) 0) as [Z|NZ].
      * clear HP. revert acc HL. induction (cell_at s c) as [|h t IH]; intros acc HL; simpl; [exact HL|]. apply IH. rewrite fstep_in_length. exact HL.
      * destruct (fold_fstep_in_spec c (cell_at s c) acc 0 ltac:(lia)) as [L _]. lia.
    + intros hf Hhf. destruct (fold_fstep_in_spec c (cell_at s c) acc hf ltac:(lia)) as [_ N].
      rewrite N, (HP hf Hhf), find_app. destruct (find _ done); [reflexivity|]. simpl. destruct (memb hf (cell_at s c)); reflexivity.
Qed.

(* if no halfface belongs to two live cells, the recomputed entry is THE incident live cell *)
Corollary compute_fbu_exact s :
  (forall c1 c2 hf, In c1 (live_cells s) -> In c2 (live_cells s) -> In hf (cell_at s c1) -> In hf (cell_at s c2) -> c1 = c2) ->
  forall hf c, hf < 2 * nf s ->
    (nth hf (compute_fbu s) None = Some c <-> (c < nc s /\ c_deleted s c = false /\ In hf (cell_at s c))).
Proof.
  intros U hf c Hhf. destruct (compute_fbu_first_live_cell s) as [_ H]. rewrite (H hf Hhf). split.
  - intros F. apply find_some in F. destruct F as [Hin M]. apply memb_In in M. apply In_live_cells in Hin. tauto.
  - intros (H1 & H2 & H3). assert (Lc : In c (live_cells s)) by (apply In_live_cells; tauto).
    destruct (find (fun c0 => memb hf (cell_at s c0)) (live_cells s)) as [c'|] eqn:F.
    + apply find_some in F. destruct F as [Hin M]. apply memb_In in M. f_equal. apply (U c' c hf); assumption.
    + exfalso. pose proof (find_none _ _ F c Lc) as N. simpl in N. apply (proj2 (memb_In hf (cell_at s c))) in H3. congruence.
Qed.

(* ================================================================ halfedge -> incident halffaces (membership) *)

Definition estep_in (f : nat) (ll : list (list nat)) (he : nat) : list (list nat) :=
  push_at (opp he) (2 * f + 1) (push_at he (2 * f) ll).

Lemma add_face_inc_eq f hes ll : add_face_inc f hes ll = fold_left (estep_in f) hes ll.
Proof. reflexivity. Qed.

Lemma estep_in_length f ll he : length (estep_in f ll he) = length ll.
Proof. unfold estep_in. rewrite !push_at_length. reflexivity. Qed.

Lemma fold_estep_in_length f hes : forall ll, length (fold_left (estep_in f) hes ll) = length ll.
Proof. induction hes as [|h t IH]; intros ll; simpl; [reflexivity|]. rewrite IH. apply estep_in_length. Qed.

Lemma fold_estep_in_spec f hes : forall ll h x, h < length ll ->
  (In x (nth h (fold_left (estep_in f) hes ll) []) <->
   (In x (nth h ll []) \/ (x = 2 * f /\ In h hes) \/ (x = 2 * f + 1 /\ In (opp h) hes))).
Proof.
  induction hes as [|he hes IH]; intros ll h x Hh; simpl; [tauto|].
  rewrite IH by (rewrite estep_in_length; exact Hh).
  unfold estep_in. rewrite nth_push_at by (rewrite push_at_length; exact Hh). rewrite nth_push_at by exact Hh.
  assert (O : opp he = h <-> he = opp h).
  { split; intros E; [rewrite <- E; symmetry; apply opp_involutive | rewrite E; apply opp_involutive]. }
  destruct (Nat.eqb_spec (opp he) h) as [E1|E1]; destruct (Nat.eqb_spec he h) as [E2|E2]; rewrite ?in_app_iff; simpl;
    intuition (subst; try tauto; try lia; try congruence).
Qed.

Definition eP (s : mesh) (L : list nat) (ll : list (list nat)) : Prop :=
  length ll = 2 * ne s /\ forall h, h < 2 * ne s -> forall x,
    In x (nth h ll []) <-> (In (x / 2) L /\ In h (halfface s x)).

Lemma In_halfface s x h : In h (halfface s x) <-> (if Nat.even x then In h (face_at s (x / 2)) else In (opp h) (face_at s (x / 2))).
Proof.
  unfold halfface. destruct (Nat.even x); [tauto|]. rewrite <- in_rev, in_map_iff. split.
  - intros [y [<- Hy]]. rewrite opp_involutive. exact Hy.
  - intros H. exists (opp h). split; [apply opp_involutive|exact H].
Qed.

Theorem compute_ebu_membership s :
  length (compute_ebu s) = 2 * ne s /\ forall h, h < 2 * ne s -> forall x,
    In x (nth h (compute_ebu s) []) <-> (x / 2 < nf s /\ f_deleted s (x / 2) = false /\ In h (halfface s x)).
Proof.
  assert (P : eP s (live_faces s) (compute_ebu s)).
  { change (compute_ebu s) with (fold_left (fun ll f => add_face_inc f (face_at s f) ll) (live_faces s) (repeat [] (2 * ne s))).
    apply (fold_left_prefix_inv (fun ll f => add_face_inc f (face_at s f) ll) (eP s)).
    - split; [apply repeat_length|]. intros h Hh x. rewrite nth_repeat. simpl. tauto.
    - intros done f acc _ [HL HP]. rewrite add_face_inc_eq. split; [rewrite fold_estep_in_length; exact HL|].
      intros h Hh x. rewrite fold_estep_in_spec by lia. rewrite (HP h Hh x), in_app_iff.
      split.
      + intros [[H1 H2]|[[-> H]|[-> H]]].
        * split; [left; exact H1|exact H2].
        * replace (2 * f / 2) with f by lia. split; [right; left; reflexivity|]. apply In_halfface.
          replace (2 * f / 2) with f by lia.
          replace (Nat.even (2 * f)) with true by (symmetry; rewrite even_mod2; apply Nat.eqb_eq; lia). exact H.
        * replace ((2 * f + 1) / 2) with f by lia. split; [right; left; reflexivity|]. apply In_halfface.
          replace ((2 * f + 1) / 2) with f by lia.
          replace (Nat.even (2 * f + 1)) with false by (symmetry; rewrite even_mod2; apply Nat.eqb_neq; lia). exact H.
      + intros [[H1|[H1|[]]] H2].
        * left. split; [exact H1|exact H2].
        * right. apply In_halfface in H2. rewrite even_mod2 in H2. destruct (Nat.eqb_spec (x mod 2) 0).
          -- left. split; [lia|]. rewrite H1. exact H2.
          -- right. split; [lia|]. rewrite H1. exact H2. }
  destruct P as [HL HP]. split; [exact HL|]. intros h Hh x. rewrite (HP h Hh x), In_live_faces. tauto.
Qed.
