(* Props/Properties_C07.v -- C07 (OVMB half): the reader is memory-safe and terminates on any bytes; success means a valid
   mesh.  Statements only; proofs are `exact <lemma of IO/OvmbProofs.v>`.
   In the model every container access the kernel performs WITHOUT a check (edges_[h/2], faces_[h/2] inside the topology checks of
   add_face / add_cell, incl. the tetrahedral / hexahedral overrides and the hexahedral re-ordering) is checked and yields `RUB`;
   the chunk loop and the directory loop carry fuel and yield `RUB UB_fuel` if it runs out; all Decoder primitives are the
   need()-guarded ones of the current source. *)
From Coq Require Import ZArith List Bool.
From OVM Require Import Base.Int32 Gen.OvmbFormat IO.Bytes IO.OvmbWriterModel IO.OvmbReaderModel IO.OvmbProofs.
Import ListNotations.
Local Open Scope Z_scope.

(* For EVERY byte string and EVERY reader configuration (polyhedral / tetrahedral / hexahedral mesh object, topology check
   on or off, incidences on or off): no out-of-range access is reached and the loops terminate within their fuel
   (fuel = number of bytes left; every chunk consumes at least 16). *)
Theorem C07_total : forall o bytes w, bytes_ok bytes -> decode_impl o bytes <> RUB w.
Proof. exact decode_never_ub. Qed.
Print Assumptions C07_total.

(* The same when the stream stops delivering after k bytes. *)
Theorem C07_total_failing_stream : forall o k bytes w, bytes_ok bytes -> decode_impl_failing o k bytes <> RUB w.
Proof. exact decode_failing_never_ub. Qed.
Print Assumptions C07_total_failing_stream.

(* One chunk never leaves the state in which every handle read so far was checked against what the mesh really holds
   (n_edges_read_ <= |edges|, n_faces_read_ <= |faces|, every props_ entry with a decoder points at an existing storage). *)
Theorem C07_invariant : forall o h st eof s,
  Inv st -> no_ub (read_chunk o h st eof s) /\
  (forall st' eof' s', read_chunk o h st eof s = Ret (st', eof', s') -> Inv st').
Proof. exact read_chunk_spec. Qed.
Print Assumptions C07_invariant.

(* Success means: every property has exactly one element per entity of its kind. *)
Theorem C07_valid_props : forall o bytes m, bytes_ok bytes -> decode_impl o bytes = ROk m ->
  Forall (fun p => len (p_vals p) = ent_count m (p_ent p)) (m_props m).
Proof. exact ok_props_sized. Qed.
Print Assumptions C07_valid_props.

(* Success means: the file was framed correctly (C18_framing_file) - in particular the whole input was consumed. *)
Theorem C07_valid_framing : forall o bytes m, bytes_ok bytes -> decode_impl o bytes = ROk m -> chunk_file (skipn 48 bytes).
Proof. intros o bytes m H1 H2. exact (proj2 (proj2 (proj2 (proj2 (proj2 (proj2 (ok_implies_framing o bytes m H1 H2))))))). Qed.
Print Assumptions C07_valid_framing.

(* Success means a valid mesh: every vertex handle stored in an edge is below n_vertices, every halfedge handle stored in a face
   below 2 n_edges, every halfface handle stored in a cell below 2 n_faces, and every property has one element per entity -
   for files whose four header counts are below 2^30 (every half-entity handle representable as int) and every reader
   configuration except the hexahedral class with the topology check on (`plain_cells`). *)
Theorem C07_valid : forall o bytes m,
  bytes_ok bytes -> small_counts bytes -> plain_cells o -> decode_impl o bytes = ROk m -> mesh_valid m.
Proof. exact ok_mesh_valid. Qed.
Print Assumptions C07_valid.

(* C07_valid_hex_check (`_partial`, NOT proved): the same for o_mesh = MHex with o_check = true.  There the re-ordering path of
   HexahedralMeshTopologyKernel::add_cell builds a list that can contain InvalidHalfFaceHandle slots and passes it to
   TopologyKernel::add_cell; whether such a list can pass the manifoldness check (and so be stored) is a property of the
   hexahedral kernel (C16), not of the reader.  What IS proved for that configuration: C07_total (no out-of-range access),
   C07_valid_props, C07_valid_framing, and that every handle handed to add_face / add_cell is in range (C07_invariant +
   C18_framing_handle).  The C++ oracle mesh_valid (harness/run_io.cc) checks the full statement on every Ok result of every
   generated input, hexahedral class with the check on included. *)

(* non-vacuity: the theorems speak about a reader that does accept files *)
Example C07_nonvacuous :
  decode_impl ex_opts (encode 3 1 ex_tet) = ROk ex_tet /\ plain_cells ex_opts /\
  (exists r s, decode_impl ex_opts (firstn 100 (encode 3 1 ex_tet)) = RErr r s) /\
  bytes_ok (encode 3 1 ex_tet).
Proof. split; [exact ex_tet_roundtrip|]. split; [exact I|]. split; [vm_compute; eauto|]. exact (proj1 ex_tet_small). Qed.
