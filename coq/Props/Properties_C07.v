(* Props/Properties_C07.v -- C07 (OVMB half): the reader is memory-safe and terminates on any bytes; success means a valid
   mesh.  Statements only; proofs are `exact <lemma of IO/OvmbProofs.v>`.
   In the model every container access the kernel performs WITHOUT a check (edges_[h/2], faces_[h/2] inside the topology checks of
   add_face / add_cell, incl. the tetrahedral / hexahedral overrides and the hexahedral re-ordering) is checked and yields `RUB`;
   the chunk loop and the directory loop carry fuel and yield `RUB UB_fuel` if it runs out; all Decoder primitives are the
   need()-guarded ones of the current source. *)
From Coq Require Import ZArith List Bool.
From OVM Require Import Base.Int32 Gen.OvmbFormat IO.Bytes IO.OvmbWriterModel IO.OvmbReaderModel IO.OvmbProofs.
Import ListNotations.
Local Open Scope Z_scope.

(* For EVERY byte string and EVERY reader configuration (polyhedral / tetrahedral / hexahedral mesh object, topology check
   on or off, incidences on or off): no out-of-range access is reached and the loops terminate within their fuel
   (fuel = number of bytes left; every chunk consumes at least 16). *)
Theorem C07_total : forall o bytes w, bytes_ok bytes -> decode_impl o bytes <> RUB w.
Proof. exact decode_never_ub. Qed.
Print Assumptions C07_total.

(* The same when the stream stops delivering after k bytes. *)
Theorem C07_total_failing_stream : forall o k bytes w, bytes_ok bytes -> decode_impl_failing o k bytes <> RUB w.
Proof. exact decode_failing_never_ub. Qed.
Print Assumptions C07_total_failing_stream.

(* One chunk never leaves the state in which every handle read so far was checked against what the mesh really holds
   (n_edges_read_ <= |edges|, n_faces_read_ <= |faces|, every props_ entry with a decoder points at an existing storage). *)
Theorem C07_invariant : forall o h st eof s,
  Inv st -> no_ub (read_chunk o h st eof s) /\
  (forall st' eof' s', read_chunk o h st eof s = Ret (st', eof', s') -> Inv st').
Proof. exact read_chunk_spec. Qed.
Print Assumptions C07_invariant.

(* Success means: every property has exactly one element per entity of its kind. *)
Theorem C07_valid_props : forall o bytes m, bytes_ok bytes -> decode_impl o bytes = ROk m ->
  Forall (fun p => len (p_vals p) = ent_count m (p_ent p)) (m_props m).
Proof. exact ok_props_sized. Qed.
Print Assumptions C07_valid_props.

(* Success means: the file was framed correctly (C18_framing_file) - in particular the whole input was consumed. *)
Theorem C07_valid_framing : forall o bytes m, bytes_ok bytes -> decode_impl o bytes = ROk m -> chunk_file (skipn 48 bytes).
Proof. intros o bytes m H1 H2. exact (proj2 (proj2 (proj2 (proj2 (proj2 (proj2 (ok_implies_framing o bytes m H1 H2))))))). Qed.
Print Assumptions C07_valid_framing.

(* C07_valid for the stored topology handles (every vertex handle of an edge < n_vertices, every halfedge handle of a face
   < 2 n_edges, every halfface handle of a cell < 2 n_faces, for entity counts below 2^30):
     Theorem C07_valid_handles : decode_impl o bytes = ROk m -> counts below 2^30 -> mesh_valid m.
   is NOT proved here (`_partial`): what is proved is the guard (C18_framing_handle: a handle is stored only if
   handle + handle_offset < 2 * entities-read-so-far, and C07_invariant: entities-read-so-far never exceeds what the mesh holds);
   assembling them into an invariant over the stored lists is missing.  For the hexahedral class with the topology check on,
   the re-ordering path of HexahedralMeshTopologyKernel::add_cell can store InvalidHalfFaceHandle slots that it then passes to
   TopologyKernel::add_cell; whether such a cell can pass the check is a property of the hexahedral kernel (C16), not of the reader.
   The C++ oracle mesh_valid (harness/run_io.cc) checks the statement on every Ok result of every generated input. *)

(* non-vacuity: the theorems speak about a reader that does accept files *)
Example C07_nonvacuous :
  decode_impl ex_opts (encode 3 1 ex_tet) = ROk ex_tet /\
  (exists r s, decode_impl ex_opts (firstn 100 (encode 3 1 ex_tet)) = RErr r s) /\
  bytes_ok (encode 3 1 ex_tet).
Proof. split; [exact ex_tet_roundtrip|]. split; [vm_compute; eauto|]. exact (proj1 ex_tet_small). Qed.
