(* Props/Properties_C07.v -- C07 (OVMB half): the reader is memory-safe and terminates on any bytes; success means a valid
   mesh.  Statements only; proofs are `exact <lemma of IO/OvmbProofs.v>`.
   In the model every container access the kernel performs WITHOUT a check (edges_[h/2], faces_[h/2] inside the topology checks of
   add_face / add_cell, incl. the tetrahedral / hexahedral overrides and the hexahedral re-ordering) is checked and yields `RUB`;
   the chunk loop and the directory loop carry fuel and yield `RUB UB_fuel` if it runs out; all Decoder primitives are the
   need()-guarded ones of the current source. *)
From Coq Require Import ZArith List Bool.
From OVM Require Import Base.Int32 Gen.OvmbFormat IO.Bytes IO.OvmbWriterModel IO.OvmbReaderModel IO.OvmbProofs IO.Ovmb2Hex.
Import ListNotations.
Local Open Scope Z_scope.

(* For EVERY byte string and EVERY reader configuration (polyhedral / tetrahedral / hexahedral mesh object, topology check
   on or off, incidences on or off): no out-of-range access is reached and the loops terminate within their fuel
   (fuel = number of bytes left; every chunk consumes at least 16). *)
Theorem C07_total : forall o bytes w, bytes_ok bytes -> decode_impl o bytes <> RUB w.
Proof. exact decode_never_ub. Qed.
Print Assumptions C07_total.

(* The same when the stream stops delivering after k bytes. *)
Theorem C07_total_failing_stream : forall o k bytes w, bytes_ok bytes -> decode_impl_failing o k bytes <> RUB w.
Proof. exact decode_failing_never_ub. Qed.
Print Assumptions C07_total_failing_stream.

(* One chunk never leaves the state in which every handle read so far was checked against what the mesh really holds
   (n_edges_read_ <= |edges|, n_faces_read_ <= |faces|, every props_ entry with a decoder points at an existing storage). *)
Theorem C07_invariant : forall o h st eof s,
  Inv st -> no_ub (read_chunk o h st eof s) /\
  (forall st' eof' s', read_chunk o h st eof s = Ret (st', eof', s') -> Inv st').
Proof. exact read_chunk_spec. Qed.
Print Assumptions C07_invariant.

(* Success means: every property has exactly one element per entity of its kind. *)
Theorem C07_valid_props : forall o bytes m, bytes_ok bytes -> decode_impl o bytes = ROk m ->
  Forall (fun p => len (p_vals p) = ent_count m (p_ent p)) (m_props m).
Proof. exact ok_props_sized. Qed.
Print Assumptions C07_valid_props.

(* Success means: the file was framed correctly (C18_framing_file) - in particular the whole input was consumed. *)
Theorem C07_valid_framing : forall o bytes m, bytes_ok bytes -> decode_impl o bytes = ROk m -> chunk_file (skipn 48 bytes).
Proof. intros o bytes m H1 H2. exact (proj2 (proj2 (proj2 (proj2 (proj2 (proj2 (ok_implies_framing o bytes m H1 H2))))))). Qed.
Print Assumptions C07_valid_framing.

(* Success means a valid mesh: every vertex handle stored in an edge is below n_vertices, every halfedge handle stored in a face
   below 2 n_edges, every halfface handle stored in a cell below 2 n_faces (and none is negative), and every property has one
   element per entity - for files whose four header counts are below 2^30 (every half-entity handle representable as int) and
   EVERY reader configuration: polyhedral / tetrahedral / hexahedral mesh object, topology check on or off, incidences on or off.
   For the hexahedral class with the check on this rests on the two checks HexahedralMeshTopologyKernel::add_cell performs
   after its re-ordering attempt (every slot is_valid(), second check_halfface_ordering): the re-ordering can leave
   InvalidHalfFaceHandle in a slot, and TopologyKernel::add_cell would read it as halfface 1 (IO/Ovmb2Hex.v has the file). *)
Theorem C07_valid : forall o bytes m,
  bytes_ok bytes -> small_counts bytes -> decode_impl o bytes = ROk m -> mesh_valid m.
Proof. exact ok_mesh_valid. Qed.
Print Assumptions C07_valid.

(* the kernel-side fact behind it: whatever add_cell stores, in any configuration, designates existing halffaces *)
Theorem C07_add_cell_valid : forall o edges faces hs s,
  Forall (in_lim (2 * len faces)) hs -> mesh_add_cell o edges faces hs = Ret (Some s) -> Forall (in_lim (2 * len faces)) s.
Proof. exact mesh_add_cell_valid. Qed.
Print Assumptions C07_add_cell_valid.

(* non-vacuity: the theorems speak about a reader that does accept files *)
Example C07_nonvacuous :
  decode_impl ex_opts (encode 3 1 ex_tet) = ROk ex_tet /\
  (exists r s, decode_impl ex_opts (firstn 100 (encode 3 1 ex_tet)) = RErr r s) /\
  bytes_ok (encode 3 1 ex_tet) /\ small_counts (encode 3 1 ex_tet).
Proof.
  split; [exact ex_tet_roundtrip|]. split; [vm_compute; eauto|]. split; [exact (proj1 ex_tet_small)|].
  unfold small_counts. vm_compute. repeat split; reflexivity.
Qed.

(* the hexahedral class with the check on: a cube is read (through check_halfface_ordering), a cube whose cell needs
   re-ordering is read re-ordered, and the cube with a wrongly oriented halfface - whose re-ordering leaves an invalid slot - is
   refused *)
Example C07_nonvacuous_hex :
  decode_impl hex_check_opts (encode 3 2 ex_hex) = ROk ex_hex /\
  hex_reorder (m_faces ex_hex) [5; 0; 3; 7; 9; 11] = Ret (Some [5; 7; 9; 11; 3; -1]) /\
  decode_impl hex_check_opts (encode 3 2 ex_hexbad) = RErr RR_InvalidFile S_ErrorInvalidFile.
Proof. split; [apply ex_hex_roundtrip|]. split; [exact hexbad_reorder|apply hexbad_rejected]. Qed.
