(* Props/Properties_C16.v -- C16: hexahedral kernel (shape, halfface-order convention, orientation helpers, checked
   add_cell, hex_vertices, sheet circulators).  Statements only; proofs are `exact <lemma>` (Mesh/HexProofs.v); Print
   Assumptions under each theorem.  Honest scope:

   * hex_shape (valences 4 / 6): invariant over the same class of histories as C15's tet_shape (`_partial`: everything
     except physical removal in slow immediate mode and set_face / set_cell).
   * the checked add_cell (after the fix "checked hex add_cell must reject what the re-ordering could not bring into
     order"): C16_checked_add_cell_stores_ordered_or_rejects - for every state and list it returns the invalid handle with
     the mesh unchanged, or appends one cell whose stored list passes the ordering check (neighbours of the first halfface
     2,4,3,5, of the second 3,4,2,5) in the new state and touches no face.  The documented `layout` additionally says that
     halffaces 2k / 2k+1 share no vertex: that clause is decided for all 720 orderings of the canonical cube
     (C16_every_ordering_of_a_cube_is_reordered) and carried by the lock step + the definition-based oracle on every
     proper cube otherwise.  The two former counterexamples (invalid handle stored / indexed; a closed six-quad surface
     that is not a cube accepted) are rejected now: Examples C16_invalid_handle_list_rejected, C16_non_cube_surface_rejected.
   * since the fix "checked hex add_cell must reject cells without eight distinct vertices" both topology-checked forms of add_cell
     additionally require exactly eight distinct vertices (HexModel.v hex_add_cell / hex_add_cell_v); the theorems about it and the
     full hex_vertices / layout statements are in Props/Properties_C15_C16_full.v.
   * hex_vertices: first four proved for every cell whose first halfface has four different halfedges; the full cube
     pattern is decided on the canonical cube and carried by the correspondence + oracle otherwise (`_partial`). *)
From Coq Require Import ZArith List.
From OVM Require Import Base.ListX Base.ListLemmas Gen.HexOrient Kernel.State Kernel.Ops Mesh.TetModel Mesh.HexModel Mesh.HexIterModel
                        Mesh.TetProofs Mesh.HexProofs.
Import ListNotations.

(* ---- shape *)
Theorem C16_hex_shape_invariant_partial : forall ops : list hop, inside_along_hex empty_mesh ops -> hex_shape (hex_run ops).
Proof. exact hex_shape_run. Qed.
Print Assumptions C16_hex_shape_invariant_partial.

Theorem C16_hex_shape_step_partial : forall s o s' r,
  hex_shape s -> outside_partial_hex s o = false -> hex_step s o = HROk s' r -> hex_shape s'.
Proof. exact hex_shape_step. Qed.
Print Assumptions C16_hex_shape_step_partial.

Theorem C16_hex_shape_is_four_and_six : forall s : mesh, hex_shape s ->
  (forall f, f < nf s -> length (face_at s f) = 4) /\ (forall c, c < nc s -> length (cell_at s c) = 6).
Proof. exact (kshape_live 4 6). Qed.
Print Assumptions C16_hex_shape_is_four_and_six.

(* ---- the topology-checked add_cell *)
Theorem C16_checked_add_cell_stores_ordered_or_rejects : forall s hfs s' r, hex_add_cell s hfs true = (s', r) ->
  (r = None /\ s' = s) \/
  (exists l, r = Some (nc s) /\ cells s' = cells s ++ [l] /\ faces s' = faces s /\ cell_at s' (nc s) = l /\ length l = 6 /\
             check_halfface_ordering s' l = true /\
             (l = hfs \/ exists b, reorder_bottom s hfs = Some b /\ all_some (upd 1 (Some b) (reorder_top s hfs)) = Some l)).
Proof. exact hex_add_cell_checked. Qed.
Print Assumptions C16_checked_add_cell_stores_ordered_or_rejects.

Theorem C16_reordering_places_neighbours : forall s hfs e0 e1 e2 e3 a0 a1 a2 a3,
  halfface s (hx hfs 0) = [e0; e1; e2; e3] ->
  get_adjacent_halfface s (Some (hx hfs 0)) (Some e0) hfs = Some a0 ->
  get_adjacent_halfface s (Some (hx hfs 0)) (Some e1) hfs = Some a1 ->
  get_adjacent_halfface s (Some (hx hfs 0)) (Some e2) hfs = Some a2 ->
  get_adjacent_halfface s (Some (hx hfs 0)) (Some e3) hfs = Some a3 ->
  reorder_top s hfs = [Some (hx hfs 0); None; Some a0; Some a2; Some a1; Some a3].
Proof. exact reorder_top_four. Qed.
Print Assumptions C16_reordering_places_neighbours.

Theorem C16_every_ordering_of_a_cube_is_reordered : forall p, In p (perms [0; 2; 4; 6; 8; 10]) ->
  exists s', hex_add_cell cube_faces p true = (s', Some 0) /\
             hex_layout s' (cell_at s' 0) = true /\ check_halfface_ordering s' (cell_at s' 0) = true /\
             nth 0 (cell_at s' 0) 0 = nth 0 p 0.
Proof. exact checked_add_cell_reorders_every_permutation. Qed.
Print Assumptions C16_every_ordering_of_a_cube_is_reordered.

(* ---- orientation(), front/back accessors, opposite_halfface_handle_in_cell agree with the stored positions *)
Theorem C16_orientation_is_stored_position : forall s c l, cell_at s c = l -> length l = 6 -> NoDup l ->
  forall i, i < 6 -> orientation s (nth i l 0) c = Z.of_nat i.
Proof. exact orientation_is_position. Qed.
Print Assumptions C16_orientation_is_stored_position.

Theorem C16_orientation_of_foreign_halfface_invalid : forall s c l, cell_at s c = l ->
  forall hf, ~ In hf l -> orientation s hf c = HEX_INVALID.
Proof. exact orientation_invalid. Qed.
Print Assumptions C16_orientation_of_foreign_halfface_invalid.

Theorem C16_accessors_read_stored_position : forall s c l, cell_at s c = l -> length l = 6 ->
  forall i, i < 6 -> oriented_slot s (Z.of_nat i) c = Some (nth i l 0) /\
                     get_oriented_halfface s (Z.of_nat i) c = Some (Some (nth i l 0)).
Proof. exact accessor_is_position. Qed.
Print Assumptions C16_accessors_read_stored_position.

Theorem C16_opposite_in_cell_is_opposite_position : forall s c l, cell_at s c = l -> length l = 6 -> NoDup l ->
  forall i, i < 6 ->
  opposite_halfface_in_cell s (nth i l 0) c = Some (Some (nth (Z.to_nat (HEX_opposite_orientation (Z.of_nat i))) l 0)).
Proof. exact opposite_in_cell_is_opposite_position. Qed.
Print Assumptions C16_opposite_in_cell_is_opposite_position.

(* ---- the orientation tables (regenerated from HexahedralMeshTopologyKernel.hh): all 36 cases *)
Theorem C16_orthogonal_orientation_right_handed : forall a b : Z, In a orientations -> In b orientations ->
  (cross (axis_vec a) (axis_vec b) = (0, 0, 0)%Z -> HEX_orthogonal_orientation a b = HEX_INVALID) /\
  (cross (axis_vec a) (axis_vec b) <> (0, 0, 0)%Z ->
     In (HEX_orthogonal_orientation a b) orientations /\
     axis_vec (HEX_orthogonal_orientation a b) = cross (axis_vec a) (axis_vec b)).
Proof. exact orthogonal_orientation_is_cross_product. Qed.
Print Assumptions C16_orthogonal_orientation_right_handed.

Theorem C16_opposite_orientation_negates : forall a : Z, In a orientations ->
  In (HEX_opposite_orientation a) orientations /\ axis_vec (HEX_opposite_orientation a) = neg_vec (axis_vec a) /\
  HEX_opposite_orientation (HEX_opposite_orientation a) = a /\ HEX_opposite_orientation a <> a /\
  Z.div (HEX_opposite_orientation a) 2 = Z.div a 2.
Proof. exact opposite_orientation_is_negation. Qed.
Print Assumptions C16_opposite_orientation_negates.

(* ---- hex_vertices *)
Theorem C16_hex_vertices_first_four_partial : forall s c hfs hf0 e0 e1 e2 e3 l,
  nth_error (cells s) c = Some hfs -> nth_error hfs 0 = Some hf0 -> halfface s hf0 = [e0; e1; e2; e3] -> NoDup [e0; e1; e2; e3] ->
  hex_vertices s c = Some l -> firstn 4 l = [he_from s e0; he_from s e3; he_from s e2; he_from s e1].
Proof. exact hex_vertices_first_four. Qed.
Print Assumptions C16_hex_vertices_first_four_partial.

(* ---- sheet circulators *)
Theorem C16_cell_sheet_cells_are_orthogonal_neighbours : forall s c d n, fbu s = true ->
  (In n (cell_sheet_cells s c d) <->
   exists hf, In hf (cell_at s c) /\ orientation s hf c <> d /\ orientation s hf c <> HEX_opposite_orientation d /\
              cell_of s (opp hf) = Some n).
Proof. exact cell_sheet_cells_spec. Qed.
Print Assumptions C16_cell_sheet_cells_are_orthogonal_neighbours.

Theorem C16_cell_sheet_cells_ascending : forall s c d, strictly_sorted (cell_sheet_cells s c d).
Proof. exact cell_sheet_cells_sorted. Qed.
Print Assumptions C16_cell_sheet_cells_ascending.

Theorem C16_halfface_sheet_halffaces_are_matching_halffaces : forall s hf hf' e, fbu s = true ->
  (In (hf', e) (halfface_sheet_halffaces s hf) <->
   exists ch n he, cell_of s hf = Some ch /\ In n (cell_sheet_cells s ch (orientation s hf ch)) /\ In hf' (cell_at s n) /\
                   find (fun h => memb h (halfface s (opp hf))) (halfface s hf') = Some he /\ e = he / 2).
Proof. exact halfface_sheet_spec. Qed.
Print Assumptions C16_halfface_sheet_halffaces_are_matching_halffaces.

(* ---- non-vacuity / the canonical cube *)
Example C16_cube_from_eight_vertices_has_layout :
  cell_at cube_mesh 0 = [0; 2; 4; 6; 8; 10] /\ hex_layout cube_mesh (cell_at cube_mesh 0) = true /\
  check_halfface_ordering cube_mesh (cell_at cube_mesh 0) = true /\
  hex_vertices cube_mesh 0 = Some [3; 0; 1; 2; 5; 6; 7; 4] /\ nc cube_faces = 0 /\ nf cube_faces = 6.
Proof. exact cube_mesh_layout. Qed.

Example C16_invalid_handle_list_rejected :
  let s := hex_run ub_witness in
  hex_valid s (HK (AddCell [5; 7; 9; 11; 3; 12] true)) = true /\ hex_step s (HK (AddCell [5; 7; 9; 11; 3; 12] true)) = HROk s None.
Proof. exact invalid_handle_list_rejected. Qed.

Example C16_non_cube_surface_rejected :
  let s := hex_run weird_sphere in
  hex_step s (HK (AddCell [0; 2; 4; 6; 8; 10] true)) = HROk s None /\ cell_check s [0; 10; 2; 6; 4; 8] = true.
Proof. exact non_cube_surface_rejected. Qed.

Example C16_all_720 : length (perms [0; 2; 4; 6; 8; 10]) = 720.
Proof. exact (proj1 all_720_permutations_ok). Qed.

Example C16_right_handed : HEX_orthogonal_orientation HEX_XF HEX_YF = HEX_ZF /\ HEX_orthogonal_orientation HEX_YF HEX_XF = HEX_ZB /\
  HEX_orthogonal_orientation HEX_XF HEX_XB = HEX_INVALID.
Proof. exact right_handed. Qed.
