(* Props/Properties_C03.v -- C03: property values stay attached to their entities through every renumbering. *)
From Coq Require Import ZArith List Arith.
From OVM Require Import Base.ListX Kernel.State Kernel.Ops Kernel.SwapEffects Kernel.SwapInvol Kernel.Sizes Kernel.PropLaws Kernel.Construct Kernel.DeleteEffects Kernel.DeferredDelete.
Import ListNotations.

(* exactly one element per entity slot: every deletion-flag array and every property array (all seven kinds) of EVERY
   reachable state - any history of additions, deletions in any mode, garbage collection, swaps, clear, toggles, property
   creation/removal, including rejected calls - has exactly `count` elements.  (Proving this exposed the clear(true) defect
   fixed in /repo commit 386511c: the model of the unfixed clear() refutes the invariant.) *)
Theorem C03_one_element_per_entity_slot_in_every_reachable_state : forall ops : list op,
  let s := run ops in
  length (vdel s) = nv s /\ length (edel s) = ne s /\ length (fdel s) = nf s /\ length (cdel s) = nc s /\
  (forall k p, In p (props k s) -> length (pdata p) = count k s).
Proof. exact sized_reachable. Qed.
Print Assumptions C03_one_element_per_entity_slot_in_every_reachable_state.

(* the three notifications, slot by slot *)
Theorem C03_swap_elements_exchanges_two_slots : forall i j p k, i < length (pdata p) -> j < length (pdata p) ->
  pval (pswap i j p) k = pval p (swap_idx i j k).
Proof. exact pval_pswap. Qed.
Print Assumptions C03_swap_elements_exchanges_two_slots.

Theorem C03_delete_element_shifts_later_slots_down : forall i p k,
  pval (pdelete i p) k = pval p (if k <? i then k else S k).
Proof. exact pval_pdelete. Qed.
Print Assumptions C03_delete_element_shifts_later_slots_down.

Theorem C03_resize_keeps_old_values_and_new_slots_get_the_default : forall n p k, k < n ->
  pval (presize n p) k = if k <? length (pdata p) then pval p k else pdef p.
Proof. exact pval_presize. Qed.
Print Assumptions C03_resize_keeps_old_values_and_new_slots_get_the_default.

(* halfedge / halfface values stay on the correct side *)
Theorem C03_half_entity_values_move_pairwise_and_keep_their_side : forall a b h p k n,
  (pval (pdelete (2 * h) (pdelete (2 * h + 1) p)) k = pval p (if k <? 2 * h then k else k + 2)) /\
  (length (pdata p) = 2 * n -> a < n -> b < n -> a <> b ->
   pval (pswap (2 * a + 1) (2 * b + 1) (pswap (2 * a) (2 * b) p)) k = pval p (swap_half a b k)) /\
  swap_half a b k mod 2 = k mod 2.
Proof. intros a b h p k n. exact (conj (pval_pdelete_half h p k) (conj (pval_half_swap a b p k n) (swap_half_side a b k))). Qed.
Print Assumptions C03_half_entity_values_move_pairwise_and_keep_their_side.

(* index swaps apply exactly these notifications, in every mode, to the properties of the swapped kind only,
   at the same two slots as the definition array and the deletion flags *)
Theorem C03_swaps_move_values_with_definitions_and_flags : forall a b s, a <> b ->
  (let s' := swap_vertex_indices a b s in vdel s' = swap_nth a b false (vdel s) /\ pv s' = map (pswap a b) (pv s) /\
     pe s' = pe s /\ phe s' = phe s /\ pf s' = pf s /\ phf s' = phf s /\ pc s' = pc s /\ pm s' = pm s) /\
  (let s' := swap_edge_indices a b s in edges s' = swap_nth a b (0, 0) (edges s) /\ edel s' = swap_nth a b false (edel s) /\
     pe s' = map (pswap a b) (pe s) /\ phe s' = half_swap_props a b (phe s) /\
     pv s' = pv s /\ pf s' = pf s /\ phf s' = phf s /\ pc s' = pc s /\ pm s' = pm s) /\
  (let s' := swap_face_indices a b s in faces s' = swap_nth a b [] (faces s) /\ fdel s' = swap_nth a b false (fdel s) /\
     pf s' = map (pswap a b) (pf s) /\ phf s' = half_swap_props a b (phf s) /\
     pv s' = pv s /\ pe s' = pe s /\ phe s' = phe s /\ pc s' = pc s /\ pm s' = pm s) /\
  (let s' := swap_cell_indices a b s in cells s' = swap_nth a b [] (cells s) /\ cdel s' = swap_nth a b false (cdel s) /\
     pc s' = map (pswap a b) (pc s) /\
     pv s' = pv s /\ pe s' = pe s /\ phe s' = phe s /\ pf s' = pf s /\ phf s' = phf s /\ pm s' = pm s).
Proof.
  intros a b s N.
  pose proof (swap_vertex_effect a b s N) as V. pose proof (swap_edge_effect a b s N) as E.
  pose proof (swap_face_effect a b s N) as F. pose proof (swap_cell_effect a b s N) as C. cbv zeta in *.
  repeat split; tauto.
Qed.
Print Assumptions C03_swaps_move_values_with_definitions_and_flags.

(* deletion, immediate modes: every delete_*_core applies exactly "optional swap-with-last (fast mode), then delete-element at the
   victim slot" to the deletion-flag array AND to every property array of the deleted kind (for edges/faces also to the two
   half-entity slots), and touches no flag and no property of any other kind.  Together with the slot laws above: each surviving
   entity keeps its values, on the correct side. *)
Theorem C03_immediate_deletion_moves_flags_and_values_together : forall h0 s, deferred s = false ->
  (let h := victim (nc s) h0 s in let s_ := if fast s then swap_cell_indices h0 h s else s in let s' := delete_cell_core h0 s in
     cdel s' = remove_nth h (cdel s_) /\ pc s' = map (pdelete h) (pc s_) /\
     vdel s' = vdel s_ /\ edel s' = edel s_ /\ fdel s' = fdel s_ /\
     pv s' = pv s_ /\ pe s' = pe s_ /\ phe s' = phe s_ /\ pf s' = pf s_ /\ phf s' = phf s_ /\ pm s' = pm s_) /\
  (let h := victim (nf s) h0 s in let s_ := if fast s then swap_face_indices h0 h s else s in let s' := delete_face_core h0 s in
     fdel s' = remove_nth h (fdel s_) /\ pf s' = map (pdelete h) (pf s_) /\
     phf s' = map (pdelete (2 * h)) (map (pdelete (2 * h + 1)) (phf s_)) /\
     vdel s' = vdel s_ /\ edel s' = edel s_ /\ cdel s' = cdel s_ /\
     pv s' = pv s_ /\ pe s' = pe s_ /\ phe s' = phe s_ /\ pc s' = pc s_ /\ pm s' = pm s_) /\
  (let h := victim (ne s) h0 s in let s_ := if fast s then swap_edge_indices h0 h s else s in let s' := delete_edge_core h0 s in
     edel s' = remove_nth h (edel s_) /\ pe s' = map (pdelete h) (pe s_) /\
     phe s' = map (pdelete (2 * h)) (map (pdelete (2 * h + 1)) (phe s_)) /\
     vdel s' = vdel s_ /\ fdel s' = fdel s_ /\ cdel s' = cdel s_ /\
     pv s' = pv s_ /\ pf s' = pf s_ /\ phf s' = phf s_ /\ pc s' = pc s_ /\ pm s' = pm s_) /\
  (let h := victim (nv s) h0 s in let s_ := if fast s then swap_vertex_indices h0 h s else s in let s' := delete_vertex_core h0 s in
     vdel s' = remove_nth h (vdel s_) /\ pv s' = map (pdelete h) (pv s_) /\
     edel s' = edel s_ /\ fdel s' = fdel s_ /\ cdel s' = cdel s_ /\
     pe s' = pe s_ /\ phe s' = phe s_ /\ pf s' = pf s_ /\ phf s' = phf s_ /\ pc s' = pc s_ /\ pm s' = pm s_).
Proof.
  intros h0 s D.
  exact (conj (delete_cell_core_props h0 s D) (conj (delete_face_core_props h0 s D) (conj (delete_edge_core_props h0 s D) (delete_vertex_core_props h0 s D)))).
Qed.
Print Assumptions C03_immediate_deletion_moves_flags_and_values_together.

(* deletion, deferred mode: no property value moves at all (dstep: definitions and every property array are equal) *)
Theorem C03_deferred_deletion_touches_no_property : forall s v, deferred s = true -> forall k, props k (delete_vertex v s) = props k s.
Proof.
  intros s v D. pose proof (delete_vertex_deferred v s D) as H. cbv zeta in H.
  destruct H as (_&_&_&_&_&_&_&_&_&_&_&_&_&P). exact P.
Qed.
Print Assumptions C03_deferred_deletion_touches_no_property.

(* growth: an accepted addition gives every property of the grown kind(s) one (two) new default element(s) and touches no other value *)
Theorem C03_growth_appends_default_elements : forall s a b hes hfs,
  (let '(s', _) := append_edge s a b in pe s' = map (presize (S (ne s))) (pe s) /\ phe s' = map (presize (2 * S (ne s))) (phe s) /\
     pv s' = pv s /\ pf s' = pf s /\ phf s' = phf s /\ pc s' = pc s /\ pm s' = pm s) /\
  (let '(s', _) := append_face s hes in pf s' = map (presize (S (nf s))) (pf s) /\ phf s' = map (presize (2 * S (nf s))) (phf s) /\
     pv s' = pv s /\ pe s' = pe s /\ phe s' = phe s /\ pc s' = pc s /\ pm s' = pm s) /\
  (let '(s', _) := append_cell s hfs in pc s' = map (presize (S (nc s))) (pc s) /\
     pv s' = pv s /\ pe s' = pe s /\ phe s' = phe s /\ pf s' = pf s /\ phf s' = phf s /\ pm s' = pm s).
Proof.
  intros s a b hes hfs.
  pose proof (append_edge_effect s a b) as E. pose proof (append_face_effect s hes) as F. pose proof (append_cell_effect s hfs) as C.
  destruct (append_edge s a b), (append_face s hes), (append_cell s hfs). repeat split; tauto.
Qed.
Print Assumptions C03_growth_appends_default_elements.

(* non-vacuity: a history with deletions in fast immediate mode and a bool-like halfface property *)
Example C03_concrete :
  let s := run [EnableDeferred false; AddVertices 4; AddFaceV [0; 1; 2]; AddFaceV [0; 2; 3]; AddFaceV [0; 3; 1]; AddFaceV [1; 3; 2];
                PropCreate KHF 0%Z; PropSet KHF 0 6 1%Z; PropSet KHF 0 7 2%Z; DelFace 0] in
  nf s = 3 /\ map pdata (phf s) = [[1; 2; 0; 0; 0; 0]%Z].
Proof. vm_compute. repeat split. Qed.
