(* Props/Properties_C01_all.v -- C01 over ONE history class that mixes every mode (and with it C02 / C04 / C08 / C12 / C17 on every
   reachable state).  Statements only; every proof is `exact <lemma>` or a few assembling lines; Print Assumptions under each theorem.
   Definitions: Kernel4/AllDefs.v; proofs: Kernel4/All*.v (they reuse the per-step lemmas of the three older history theorems:
   Kernel2/Exact*.v - deferred mode, Kernel3/Fast*.v + Kernel/Shift*.v - immediate modes, Kernel3/Gc*.v - collection).

   THE CLASS  all_ok ops  (a boolean computed by running the model; every call is valid or skipped):
     add_vertex / add_vertices / add_edge / add_face / add_face(vertices)  (new faces simple: no halfedge twice, none with its opposite);
     topology-checked add_cell on free live halffaces, with ANY incidence kinds enabled ("free": the halfface->cell cache says so -
     valid_op2 - when the face incidences are on; no live cell lists the halfface - free_scan_b - when they are off);
     delete_vertex / delete_edge / delete_face / delete_cell of live entities in ALL FOUR (deferred x fast) modes;
     collect_garbage;  enable_deferred_deletion both ways (leaving deferred mode collects);  enable_fast_deletion both ways;
     vertex / edge / face incidences OFF and ON again, from any state (the re-enabled kind is recomputed; edge incidences with the
     face incidences on, and face incidences with the edge incidences on, also re-order every halfedge->halfface list);
     clear;  property creation / writes / drops;
     the four index swaps - ALSO with deletions pending, even when a deferred-deleted entity mentions a swapped handle (its stored
     definition goes stale: known finding D13; the invariant does not read it, and collect_garbage removes it correctly).
     (add_cell may also be called WITHOUT its topology check when the check would pass: valid_op3);
   NOT in the class:  set_edge / set_face / set_cell;  add_cell without topology check of a cell the check would REJECT (the invariant
     is FALSE there: known finding nonmanifold-cells-reorder, Kernel2/ReorderExact.v reorder_permutation_refuted);  StatusAttrib::garbage_collection is not an
     operation of Kernel/Ops.v (it is a composition of class operations; Kernel3/GcStatus.v treats it).

   THE INVARIANT  full_inv s = all_inv s /\ cells_topo s /\ lists_nodup s /\ counts_ok s:
     all_inv s    = ginv s (enabled caches list EXACTLY the live referrers; stored handles of live entities in range; one cache slot and
                    one flag per entity; flagged set upward closed; with edge AND face incidences on: duplicate-free
                    halfedge->halfface lists and closed live cells)
                    /\ one element per slot in every flag / property array /\ live faces simple /\ no deleted-counter undercounts its
                    flags /\ (deferred deletion off -> nothing flagged, all counters zero);
     cells_topo s = live cells topologically closed /\ no halfface in two live cells (what re-enabling needs; no cache carries it
                    while an incidence kind is off);
     lists_nodup s = every enabled vertex->halfedge list and every enabled halfedge->halfface list is duplicate-free (the former is
                    in none of the older history theorems, the latter only while the face incidences are on);
     counts_ok s  = each of the four deleted-counters is EXACTLY the number of set deletion flags of its kind. *)
From Coq Require Import ZArith List Arith Bool.
From OVM Require Import Base.ListX Kernel.State Kernel.Ops Kernel.StatusGC Kernel.Mirror Kernel.Closure Kernel.ExactInv Kernel.InvB Kernel.Sizes Kernel.SwapInvol Kernel.DeferredDelete
                        Kernel.Reenable Kernel.ShiftFace Kernel.ShiftEdge Kernel.ShiftVertex Kernel.ShiftCompose
                        Kernel2.LookupModel Kernel2.ReorderExact Kernel2.ExactBase Kernel2.ExactHistory
                        Kernel3.FastDefs Kernel3.FastMany Kernel3.FastDeferred Kernel3.FastHistory Kernel3.GcDefs Kernel3.GcHist Kernel3.GcTrack Kernel3.GcStatus
                        Iter.Builders Iter.BuildersProofs
                        Kernel4.AllDefs Kernel4.AllBridges Kernel4.AllFaces Kernel4.AllCells Kernel4.AllStaleFace Kernel4.AllStaleEdge Kernel4.AllStaleVertex
                        Kernel4.AllReenable Kernel4.AllReenable2 Kernel4.AllNoDupBase Kernel4.AllHistory Kernel4.AllStatus Kernel4.AllClosed Kernel4.AllCorollaries Kernel4.AllExample
                        Props.Properties_C01_queries Props.Properties_C02 Props.Properties_C02_fast Props.Properties_C04_gc.
Import ListNotations.
Local Open Scope nat_scope.

(* ================================================================== the invariant and its bridges *)

Theorem C01_all_invariant_unfold : forall s,
  full_inv s <-> ((ginv s /\ szd s /\ faces_simple s /\ cnt_inv s /\ (deferred s = false -> no_flags s /\ no_pending s)) /\
                  ((forall c, c < nc s -> c_deleted s c = false -> topo_cell s c) /\ no_shared_halfface s) /\
                  ((vbu s = true -> forall v, NoDup (nth v (out_hes s) [])) /\ (ebu s = true -> forall h, NoDup (nth h (inc_hfs s) []))) /\
                  (ndv s = ntrue (vdel s) /\ nde s = ntrue (edel s) /\ ndf s = ntrue (fdel s) /\ ndc s = ntrue (cdel s))).
Proof. intros s. reflexivity. Qed.
Print Assumptions C01_all_invariant_unfold.

(* the decidable checker of the invariant is sound *)
Theorem C01_all_invariant_checker_sound : forall s, full_inv_b s = true -> full_inv s.
Proof. exact full_inv_b_sound. Qed.
Print Assumptions C01_all_invariant_checker_sound.

(* deferred mode: the hypothesis of the collection theorems (C04) *)
Theorem C01_all_invariant_gives_gc_ready : forall s, all_inv s -> deferred s = true -> gc_ready s.
Proof. exact all_inv_gc_ready. Qed.
Print Assumptions C01_all_invariant_gives_gc_ready.

(* nothing flagged: the invariant of the immediate modes (C02) *)
Theorem C01_all_invariant_gives_shift_inv2 : forall s, all_inv s -> no_flags s -> shift_inv2 s.
Proof. exact all_inv_shift_inv2. Qed.
Print Assumptions C01_all_invariant_gives_shift_inv2.

Theorem C01_shift_inv2_gives_all_invariant : forall s, shift_inv2 s -> szd s -> faces_simple s -> no_pending s -> all_inv s.
Proof. exact all_inv_of_shift_inv2. Qed.
Print Assumptions C01_shift_inv2_gives_all_invariant.

(* deferred mode, edge and face incidences on: exactly the invariant of the deferred-history theorem *)
Theorem C01_all_invariant_is_the_deferred_invariant : forall s, deferred s = true -> ebu s = true -> fbu s = true ->
  (all_inv s <-> Hinv s).
Proof. intros s D E F. split; [intros H; exact (all_inv_Hinv s H D E F)|exact (Hinv_all_inv s)]. Qed.
Print Assumptions C01_all_invariant_is_the_deferred_invariant.

(* with both incidence kinds on the cell-topology part follows from the cache part *)
Theorem C01_cell_topology_follows_with_both_incidences : forall s, all_inv s -> ebu s = true -> fbu s = true -> cells_topo s.
Proof. intros s H. exact (cells_topo_of_ginv s (all_inv_ginv s H)). Qed.
Print Assumptions C01_cell_topology_follows_with_both_incidences.

(* ================================================================== THE THEOREM *)

(* one call *)
Theorem C01_all_invariant_step : forall s o,
  full_inv s -> all_op s o = true -> (valid_op s o = true -> valid_op3 s o = true) -> full_inv (next s o).
Proof. exact full_inv_step. Qed.
Print Assumptions C01_all_invariant_step.

Theorem C01_invariant_along_all_histories : forall ops, all_ok ops = true -> full_inv (run ops).
Proof. exact full_inv_along_histories. Qed.
Print Assumptions C01_invariant_along_all_histories.

Theorem C01_cache_invariant_along_all_histories : forall ops, all_ok ops = true -> all_inv (run ops).
Proof. exact all_inv_along_histories. Qed.
Print Assumptions C01_cache_invariant_along_all_histories.

(* the classes of the two older history theorems (C01_invariant_along_deferred_histories, C02_fast_invariant_along_histories)
   are sub-classes *)
Theorem C01_deferred_histories_are_all_histories : forall ops, hist_ok ops = true -> all_ok ops = true.
Proof. exact hist_ok_all_ok. Qed.
Print Assumptions C01_deferred_histories_are_all_histories.

Theorem C01_immediate_histories_are_all_histories : forall ops, fhist_ok ops = true -> all_ok ops = true.
Proof. exact fhist_ok_all_ok. Qed.
Print Assumptions C01_immediate_histories_are_all_histories.

(* ================================================================== swaps with deletions pending (C17 / D13) *)

(* FULL STATEMENT asked for: the invariant survives EVERY index swap, also when a deferred-deleted cell / face / edge mentions one
   of the two handles.  It holds (no _refuted): the cache-guided loops do not find the deleted referrer, its stored definition
   goes stale (D13, C17_relabel_of_deleted_definitions_refuted), but ginv does not read definitions of flagged entities; every
   LIVE referrer is renamed. *)
Theorem C17_swaps_keep_the_invariant_with_deletions_pending : forall a b s, ginv s ->
  (a < nf s -> b < nf s ->
     ginv (swap_face_indices a b s) /\
     forall c, c < nc s -> c_deleted s c = false -> cell_at (swap_face_indices a b s) c = map (swap_half a b) (cell_at s c)) /\
  (a < ne s -> b < ne s ->
     ginv (swap_edge_indices a b s) /\
     forall f, f < nf s -> f_deleted s f = false -> face_at (swap_edge_indices a b s) f = map (swap_half a b) (face_at s f)) /\
  (a < nv s -> b < nv s ->
     ginv (swap_vertex_indices a b s) /\
     forall e, e < ne s -> e_deleted s e = false -> edge_at (swap_vertex_indices a b s) e = SwapEffects.swap_ends a b (edge_at s e)).
Proof.
  intros a b s I. split; [|split]; intros Ha Hb.
  - destruct (ginv_swap_face_any a b s I Ha Hb) as (A & B & _). exact (conj A B).
  - destruct (ginv_swap_edge_any a b s I Ha Hb) as (A & B & _). exact (conj A B).
  - exact (ginv_swap_vertex_any a b s I Ha Hb).
Qed.
Print Assumptions C17_swaps_keep_the_invariant_with_deletions_pending.

(* the D13 situation: a deleted cell lists the swapped faces 0 and 3; its stored definition is NOT renamed, the invariant holds, and the
   collection that follows yields a state satisfying the invariant again *)
Example C17_swap_with_a_stale_deleted_cell :
  let ops := firstn 21 all_example ++ [SwapF 0 3] in let s := run ops in
  all_ok ops = true /\ cdel s = [true; false; false] /\ cell_at s 0 = cell_at (run (firstn 21 all_example)) 0 /\ cell_at s 0 = [0; 2; 4; 6] /\
  cell_at s 1 = [1; 9; 11; 13] /\ cell_at (run (firstn 21 all_example)) 1 = [7; 9; 11; 13] /\
  full_inv_b s = true /\ full_inv_b (collect_garbage s) = true.
Proof. vm_compute. repeat split. Qed.

(* ================================================================== re-enabling incidences (C12 completed) *)

(* enable_edge_bottom_up_incidences(true) re-establishes the invariant from ANY state of the class - with the face incidences on
   this includes the re-ordering of every recomputed list (the step C12_reenabled_edge_incidences_are_exact_partial left out) *)
Theorem C12_reenabled_edge_incidences_are_exact : forall s, all_inv s -> cells_topo s -> ebu s = false ->
  all_inv (enable_ebu true s) /\ cells_topo (enable_ebu true s).
Proof. intros s H T E. destruct (reenable_ebu s H T E) as (A & B & _). exact (conj A B). Qed.
Print Assumptions C12_reenabled_edge_incidences_are_exact.

(* enable_face_bottom_up_incidences(true): with the edge incidences off ... *)
Theorem C12_reenabled_face_incidences_keep_the_invariant : forall s, all_inv s -> cells_topo s -> fbu s = false -> ebu s = false ->
  all_inv (enable_fbu true s) /\ cells_topo (enable_fbu true s).
Proof. intros s H T F E. destruct (reenable_fbu s H T F E) as (A & B & _). exact (conj A B). Qed.
Print Assumptions C12_reenabled_face_incidences_keep_the_invariant.

(* ... and with the edge incidences ON: the existing halfedge->halfface lists (exact and, by lists_nodup, duplicate-free) are
   re-ordered around the recomputed halfface->cell map *)
Theorem C12_reenabled_face_incidences_with_edge_incidences_on : forall s, all_inv s -> cells_topo s -> hfs_nd s ->
  ebu s = true -> fbu s = false ->
  all_inv (enable_fbu true s) /\ cells_topo (enable_fbu true s) /\ all_nd (inc_hfs (enable_fbu true s)).
Proof. intros s H T N E F. destruct (reenable_fbu_reorder s H T N E F) as (A & B & _ & _ & _ & _ & C). exact (conj A (conj B C)). Qed.
Print Assumptions C12_reenabled_face_incidences_with_edge_incidences_on.

(* the recomputed halfedge->halfface lists are duplicate-free when the faces are simple *)
Theorem C12_recomputed_edge_lists_duplicate_free : forall s, faces_simple s -> forall k, k < 2 * ne s -> NoDup (nth k (compute_ebu s) []).
Proof. exact compute_ebu_nodup. Qed.
Print Assumptions C12_recomputed_edge_lists_duplicate_free.

(* ================================================================== (i) C01: exact caches in every reachable state *)

Theorem C01_caches_exact_in_every_reachable_state : forall ops, all_ok ops = true -> let s := run ops in
  vbu_ok s /\ ebu_ok s /\ fbu_ok s /\ refs_ok s /\ lens_ok s /\ up_closed s /\
  (ebu s = true -> fbu s = true -> slots_nodup s /\ live_cells_closed s) /\ faces_simple s /\ sized s.
Proof. exact reach_caches_exact. Qed.
Print Assumptions C01_caches_exact_in_every_reachable_state.

(* ... and every enabled cache list duplicate-free: the vertex -> outgoing halfedges lists and the halfedge -> halfface lists *)
Theorem C01_cache_lists_duplicate_free_in_every_reachable_state : forall ops, all_ok ops = true -> let s := run ops in
  (vbu s = true -> forall v, NoDup (out_at s v)) /\ (ebu s = true -> forall h, NoDup (hfs_at s h)).
Proof. exact reach_lists_nodup. Qed.
Print Assumptions C01_cache_lists_duplicate_free_in_every_reachable_state.

(* ... and the logical entity counts n_vertices() / n_edges() / n_faces() / n_cells() (size minus deleted-counter) are the numbers of
   live entities *)
Theorem C01_logical_counts_in_every_reachable_state : forall ops, all_ok ops = true -> let s := run ops in
  n_logical KV s = length (live_vertices s) /\ n_logical KE s = length (live_edges s) /\
  n_logical KF s = length (live_faces s) /\ n_logical KC s = length (live_cells s).
Proof. exact reach_counts. Qed.
Print Assumptions C01_logical_counts_in_every_reachable_state.

(* the hypotheses of EVERY derived-query theorem of Props/Properties_C01_queries.v: bu_exact (exact, duplicate-free caches), wf_iter,
   flags_sized - no checker needs to be evaluated (compare C01q_hypotheses_reachable) *)
Theorem C01q_hypotheses_in_every_reachable_state : forall ops, all_ok ops = true ->
  bu_exact (run ops) /\ wf_iter (run ops) /\ flags_sized (run ops).
Proof. exact reach_query_hypotheses. Qed.
Print Assumptions C01q_hypotheses_in_every_reachable_state.

(* composition with three derived-query theorems *)
Theorem C01q_vertex_halfedges_in_every_reachable_state : forall ops v, all_ok ops = true -> let s := run ops in
  vbu s = true -> v < nv s ->
  ((forall h, In h (l_voh s v) <-> inc_voh s v h) /\ NoDup (l_voh s v)) /\
  ((forall h, In h (l_vih s v) <-> inc_vih s v h) /\ NoDup (l_vih s v)) /\
  (forall e, In e (l_ve s v) <-> inc_ve s v e) /\
  (forall w, In w (l_vv s v) <-> inc_vv s v w).
Proof.
  intros ops v F. cbv zeta. intros V Hv. destruct (C01q_vertex_halfedges (run ops) (proj1 (reach_query_hypotheses ops F)) v V Hv) as (A & B & C & D & _).
  exact (conj A (conj B (conj C D))).
Qed.
Print Assumptions C01q_vertex_halfedges_in_every_reachable_state.

Theorem C01q_cell_cells_in_every_reachable_state : forall ops c, all_ok ops = true -> let s := run ops in
  fbu s = true -> live_c s c = true -> (forall c', In c' (l_cc s c) <-> inc_cc s c c') /\ NoDup (l_cc s c).
Proof.
  intros ops c F. cbv zeta. intros Fb L. destruct (reach_query_hypotheses ops F) as (BU & W & _). exact (C01q_cell_cells (run ops) BU W c Fb L).
Qed.
Print Assumptions C01q_cell_cells_in_every_reachable_state.

Theorem C01q_is_boundary_in_every_reachable_state : forall ops, all_ok ops = true -> let s := run ops in fbu s = true ->
  (forall hf, hf < 2 * nf s -> exists b, isb_hf s hf = Some b /\ (b = true <-> bnd_hf s hf)) /\
  (forall f, f < nf s -> exists b, isb_f s f = Some b /\ (b = true <-> bnd_f s f)) /\
  (ebu s = true -> forall e, e < ne s -> exists b, isb_e s e = Some b /\ (b = true <-> bnd_e s e)) /\
  (full_bu s = true -> forall v, v < nv s -> exists b, isb_v s v = Some b /\ (b = true <-> bnd_v s v)) /\
  (forall c, live_c s c = true -> exists b, isb_c s c = Some b /\ (b = true <-> bnd_c s c)).
Proof.
  intros ops F. cbv zeta. intros Fb. destruct (reach_query_hypotheses ops F) as (BU & W & _).
  destruct (C01q_is_boundary (run ops) BU W Fb) as (A & B & _ & C & D & E). exact (conj A (conj B (conj C (conj D E)))).
Qed.
Print Assumptions C01q_is_boundary_in_every_reachable_state.

Theorem C01q_valence_in_every_reachable_state : forall ops, all_ok ops = true -> let s := run ops in
  (vbu s = true -> forall v, v < nv s -> valence_v s v = Some (length (brute_out s v))) /\
  (ebu s = true -> forall e, e < ne s -> valence_e s e = Some (length (brute_hfs s (2 * e)))).
Proof.
  intros ops F. cbv zeta. destruct (reach_query_hypotheses ops F) as (BU & W & _).
  destruct (C01q_valence (run ops) BU W) as (A & B & _). exact (conj A B).
Qed.
Print Assumptions C01q_valence_in_every_reachable_state.

(* ================================================================== (ii) C08: closedness through every renumbering *)

(* loops_ok ops: every add_face call of the history is topology-checked or passes a loop that closes.  Then every live face is a
   closed loop of halfedges in every reachable state - through index shifting, swap-with-last, swaps, both collections. *)
Theorem C08_faces_stay_closed_along_all_histories : forall ops, all_ok ops = true -> loops_ok ops = true ->
  forall f, f < nf (run ops) -> f_deleted (run ops) f = false ->
    closed_cycle (run ops) (face_at (run ops) f) /\ loop_ok (run ops) (face_at (run ops) f) = true /\
    closed_cycle (run ops) (halfface (run ops) (2 * f + 1)).
Proof. exact faces_closed_both_sides. Qed.
Print Assumptions C08_faces_stay_closed_along_all_histories.

(* add_face from vertices always stores a closed loop *)
Theorem C08_add_face_from_vertices_builds_a_closed_loop : forall s f t, bu_inv s -> (forall v, In v (f :: t) -> v < nv s) ->
  let acc := add_face_v_edges f (f :: t) (s, []) in closed_cycle (fst acc) (snd acc).
Proof. intros s f t B Hv. exact (proj1 (add_face_v_closed s f t B Hv)). Qed.
Print Assumptions C08_add_face_from_vertices_builds_a_closed_loop.

(* ================================================================== (iii) the hypotheses of C02 and C04 in every reachable state *)

Theorem C02_hypotheses_in_every_reachable_state : forall ops, all_ok ops = true -> deferred (run ops) = false ->
  shift_inv2 (run ops) /\ no_pending (run ops) /\ sized (run ops).
Proof. exact reach_immediate. Qed.
Print Assumptions C02_hypotheses_in_every_reachable_state.

Theorem C04_hypotheses_in_every_reachable_state : forall ops, all_ok ops = true -> deferred (run ops) = true ->
  gc_ready (run ops) /\ faces_simple (run ops) /\ sized (run ops).
Proof. exact reach_deferred. Qed.
Print Assumptions C04_hypotheses_in_every_reachable_state.

(* C02_fast_public_deletions applies to every reachable state in immediate fast mode *)
Theorem C02_fast_public_deletions_in_every_reachable_state : forall ops x, all_ok ops = true -> let s := run ops in
  deferred s = false -> fast s = true ->
  (x < nc s ->
     let s' := delete_cell x s in
     shift_inv2 s' /\ deferred s' = false /\ fast s' = true /\
     nv s' = nv s /\ edges s' = edges s /\ faces s' = faces s /\ cells s' = fast_remove [] x (cells s)) /\
  (x < nf s ->
     let cs := cells_at_faces s [x] in let s' := delete_face x s in
     shift_inv2 s' /\ deferred s' = false /\ fast s' = true /\
     nv s' = nv s /\ edges s' = edges s /\ faces s' = fast_remove [] x (faces s) /\
     cells s' = map (map (tr2 x (nf s - 1))) (fast_remove_many [] cs (cells s))) /\
  (x < ne s ->
     let fs := faces_at_edges s [x] in let cs := cells_at_faces s fs in let s' := delete_edge x s in
     shift_inv2 s' /\ deferred s' = false /\ fast s' = true /\
     nv s' = nv s /\ edges s' = fast_remove (0, 0) x (edges s) /\
     faces s' = map (map (tr2 x (ne s - 1))) (fast_remove_many [] fs (faces s)) /\
     cells s' = map (map (fren2 (nf s) fs)) (fast_remove_many [] cs (cells s))) /\
  (x < nv s ->
     let es := edges_at_vertex s x in let fs := faces_at_edges s es in let cs := cells_at_faces s fs in let s' := delete_vertex x s in
     shift_inv2 s' /\ deferred s' = false /\ fast s' = true /\
     nv s' = nv s - 1 /\ edges s' = map (trp x (nv s - 1)) (fast_remove_many (0, 0) es (edges s)) /\
     faces s' = map (map (fren2 (ne s) es)) (fast_remove_many [] fs (faces s)) /\
     cells s' = map (map (fren2 (nf s) fs)) (fast_remove_many [] cs (cells s))).
Proof. intros ops x F. cbv zeta. intros D Fa. exact (C02_fast_public_deletions x (run ops) D Fa (proj1 (reach_immediate ops F D))). Qed.
Print Assumptions C02_fast_public_deletions_in_every_reachable_state.

(* C02_immediate_public_deletions applies to every reachable state in immediate index-shifting mode *)
Theorem C02_immediate_public_deletions_in_every_reachable_state : forall ops x, all_ok ops = true -> let s := run ops in
  deferred s = false -> fast s = false ->
  (x < nf s ->
     let cs := cells_at_faces s [x] in let s' := delete_face x s in
     shift_inv2 s' /\ deferred s' = false /\ fast s' = false /\
     nv s' = nv s /\ edges s' = edges s /\ faces s' = remove_nth x (faces s) /\
     cells s' = map (map (cor2 (2 * x + 1))) (keep_slots [] cs (cells s))) /\
  (x < ne s ->
     let fs := faces_at_edges s [x] in let cs := cells_at_faces s fs in let s' := delete_edge x s in
     shift_inv2 s' /\ deferred s' = false /\ fast s' = false /\
     nv s' = nv s /\ edges s' = remove_nth x (edges s) /\
     faces s' = map (map (cor2 (2 * x + 1))) (keep_slots [] fs (faces s)) /\
     cells s' = map (map (shift_many fs)) (keep_slots [] cs (cells s))) /\
  (x < nv s ->
     let es := edges_at_vertex s x in let fs := faces_at_edges s es in let cs := cells_at_faces s fs in let s' := delete_vertex x s in
     shift_inv2 s' /\ deferred s' = false /\ fast s' = false /\
     nv s' = nv s - 1 /\ edges s' = map (cor1p x) (keep_slots (0, 0) es (edges s)) /\
     faces s' = map (map (shift_many es)) (keep_slots [] fs (faces s)) /\
     cells s' = map (map (shift_many fs)) (keep_slots [] cs (cells s))).
Proof. intros ops x F. cbv zeta. intros D Fa. exact (C02_immediate_public_deletions x (run ops) D Fa (proj1 (reach_immediate ops F D))). Qed.
Print Assumptions C02_immediate_public_deletions_in_every_reachable_state.

(* C04_collect_garbage_yields_logical_mesh applies to every reachable state in deferred mode (index shifting) *)
Theorem C04_collect_garbage_yields_logical_mesh_in_every_reachable_state : forall ops, all_ok ops = true -> let s := run ops in
  deferred s = true -> fast s = false ->
  let t := collect_garbage s in
  nv t = logical_nv s /\ edges t = logical_edges s /\ faces t = logical_faces s /\ cells t = logical_cells s /\
  vdel t = repeat false (nv t) /\ edel t = repeat false (ne t) /\ fdel t = repeat false (nf t) /\ cdel t = repeat false (nc t) /\
  no_flags t /\ needs_gc t = false /\
  (forall k, props k t = logical_props k s) /\
  deferred t = true /\ fast t = false /\ (vbu t = vbu s /\ ebu t = ebu s /\ fbu t = fbu s) /\
  gc_ready t /\ shift_inv t /\ shift_inv2 t.
Proof.
  intros ops F. cbv zeta. intros D Fa. destruct (reach_deferred ops F D) as (R & FS & _).
  pose proof (C04_collect_garbage_yields_logical_mesh (run ops) R Fa) as C. cbv zeta in C.
  destruct C as (c1 & c2 & c3 & c4 & c5 & c6 & c7 & c8 & c9 & c10 & c11 & c12 & c13 & c14 & c15 & c16 & c17).
  exact (conj c1 (conj c2 (conj c3 (conj c4 (conj c5 (conj c6 (conj c7 (conj c8 (conj c9 (conj c10 (conj c11 (conj c12 (conj c13 (conj c14 (conj c15 (conj c16 (c17 FS))))))))))))))))).
Qed.
Print Assumptions C04_collect_garbage_yields_logical_mesh_in_every_reachable_state.

(* ... and in fast mode the collection renumbers by bijections (C04_collect_garbage_fast_mode_renumbers_by_a_bijection) *)
Theorem C04_collect_garbage_fast_in_every_reachable_state : forall ops, all_ok ops = true -> let s := run ops in
  deferred s = true -> fast s = true ->
  let t := collect_garbage s in
  exists rv re rf rc : nat -> nat,
    GcFastChain.gc_fast_post s t rv re rf rc /\ no_flags t /\ needs_gc t = false /\ deferred t = true /\ fast t = true /\ ginv t /\ sized t.
Proof.
  intros ops F. cbv zeta. intros D Fa. destruct (reach_deferred ops F D) as (R & _ & Z).
  exact (GcFastMain.collect_garbage_fast_post (run ops) R Z Fa).
Qed.
Print Assumptions C04_collect_garbage_fast_in_every_reachable_state.

(* StatusAttrib::garbage_collection called in ANY reachable state (any mode, any incidences): the state it collects - deferred mode
   forced, marked live entities deleted, optionally the manifoldness pass - satisfies the invariant, so in index-shifting mode
   C04_status_gc_tracks_handles_nonfast applies: the mesh handed back is the logical mesh and the tracked handles are mapped by rank *)
Theorem C04_status_gc_in_every_reachable_state : forall ops pm mv me mf mc tv the thf tc, all_ok ops = true -> let s := run ops in
  let s2 := status_pre pm mv me mf mc s in
  full_inv s2 /\ gc_ready s2 /\ sized s2 /\
  (fast s2 = false ->
   let r := status_gc pm mv me mf mc tv the thf tc s in
   status_result s2 (deferred s) (fst r) /\
   (tracking_on tv the thf tc = true ->
    snd r = (map (track_v s2) tv, map (track_he s2) the, map (track_hf s2) thf, map (track_c s2) tc)) /\
   (tracking_on tv the thf tc = false -> snd r = ([], [], [], []))).
Proof.
  intros ops pm mv me mf mc tv the thf tc F. cbv zeta. destruct (reach_status_pre ops pm mv me mf mc F) as (R & Z & H).
  split; [exact H|]. split; [exact R|]. split; [exact Z|]. intros Fa. exact (status_gc_tracking pm mv me mf mc tv the thf tc (run ops) R Fa).
Qed.
Print Assumptions C04_status_gc_in_every_reachable_state.

(* ================================================================== non-vacuity *)

(* Kernel4/AllExample.v: 51 operations through all four deletion modes, both collections, all four swaps (with deletions pending,
   one in the D13 situation), a cell re-added on the faces of a deleted one, face and edge incidences switched off and recomputed *)
Example C01_all_history_example :
  length all_example = 51 /\ all_ok all_example = true /\ loops_ok all_example = true /\
  full_inv_b (run all_example) = true /\ full_inv (run all_example) /\
  (* the modes (deferred, fast) in which the five deletions happen, and the incidences (vertex, edge, face) at that moment *)
  (let m k := let s := run (firstn k all_example) in (deferred s, fast s, (vbu s, ebu s, fbu s)) in
   m 20 = (true, true, (true, true, true)) /\ m 25 = (true, false, (true, true, true)) /\ m 31 = (false, false, (true, true, false)) /\
   m 39 = (false, true, (true, true, true)) /\ m 44 = (true, true, (true, true, true))) /\
  (* the cell added on the faces of the deleted one is accepted *)
  cdel (run (firstn 24 all_example)) = [false; false; true; false] /\
  (* one cell survives, renumbered *)
  cells (run all_example) = [[3; 9; 11; 5]] /\ cdel (run all_example) = [false] /\ nv (run all_example) = 7 /\ nf (run all_example) = 6.
Proof.
  assert (F : all_ok all_example = true) by (vm_compute; reflexivity).
  split; [reflexivity|]. split; [exact F|]. split; [vm_compute; reflexivity|]. split; [vm_compute; reflexivity|].
  split; [exact (full_inv_along_histories all_example F)|]. vm_compute. repeat split.
Qed.

(* add_cell with the incidences off: a second cell on the halffaces of the first is outside the class (not free, by scan); without
   it the history is in the class, and re-enabling the face incidences computes the exact halfface->cell map of both cells *)
Example C01_all_add_cell_with_incidences_off :
  let h := [EnableFBU false; AddVertices 5;
            AddFaceV [0;1;2]; AddFaceV [0;2;3]; AddFaceV [0;3;1]; AddFaceV [1;3;2]; AddCell [0;2;4;6] true;
            AddCell [0;2;4;6] true;
            AddFaceV [1;2;4]; AddFaceV [2;3;4]; AddFaceV [3;1;4]; EnableEBU false; AddCell [7;9;11;13] true;
            EnableFBU true; EnableEBU true; DelVertex 0; CollectGarbage] in
  let h' := firstn 7 h ++ skipn 8 h in
  all_ok h = false /\ all_ok (firstn 7 h) = true /\ all_ok h' = true /\ full_inv_b (run h') = true /\
  inc_cell (run (firstn 14 h')) = [Some 0; None; Some 0; None; Some 0; None; Some 0; Some 1; None; Some 1; None; Some 1; None; Some 1] /\
  cells (run h') = [[7; 1; 3; 5]].
Proof. vm_compute. repeat split. Qed.

(* an unchecked add_cell of a closed cell is in the class, one of an open "cell" (three faces of a tetrahedron) is not *)
Example C01_all_unchecked_add_cell :
  let h := [AddVertices 4; AddFaceV [0;1;2]; AddFaceV [0;2;3]; AddFaceV [0;3;1]; AddFaceV [1;3;2]] in
  all_ok (h ++ [AddCell [0;2;4;6] false]) = true /\ all_ok (h ++ [AddCell [0;2;4] false]) = false /\
  full_inv_b (run (h ++ [AddCell [0;2;4;6] false])) = true.
Proof. vm_compute. repeat split. Qed.

(* why new faces must be SIMPLE (valid_op2): a topology-checked add_face of the closed loop 0 1 0 1 (an edge traversed twice in each
   direction) is accepted by the library and puts each of its halffaces twice into the lists of both halfedges - the duplicate-free
   part of the invariant is false there (degenerate faces) *)
Theorem C01_all_nonsimple_face_refuted : exists ops,
  all_ok ops = false /\ all_ok (removelast ops) = true /\ forallb (fun o => match o with AddFace _ chk => chk | _ => true end) ops = true /\
  loops_ok ops = true /\ inc_hfs (run ops) = [[0; 1; 0; 1]; [1; 0; 1; 0]] /\ ~ lists_nodup (run ops).
Proof.
  exists [AddVertices 2; AddEdge 0 1 false; AddFace [0; 1; 0; 1] true].
  split; [vm_compute; reflexivity|]. split; [vm_compute; reflexivity|]. split; [vm_compute; reflexivity|]. split; [vm_compute; reflexivity|].
  split; [vm_compute; reflexivity|].
  intros [_ Hn]. specialize (Hn eq_refl 0). vm_compute in Hn. inversion Hn as [|x l Hx _]. apply Hx. right. left. reflexivity.
Qed.
Print Assumptions C01_all_nonsimple_face_refuted.

(* the older examples are in the class too *)
Example C01_all_older_examples_in_the_class :
  all_ok example_history = true /\ all_ok Properties_C02_fast.fast_history = true /\ all_ok gc_example_ops = true.
Proof. vm_compute. repeat split. Qed.
