(* Props/Properties_C12_history.v -- C12, first sentence, at the HISTORY level: the same history with every incidence toggle removed
   (all three kinds on throughout: all_on) against the history with toggles at arbitrary points.

   FULL STATEMENT:  forall ops, all_ok ops = true -> core_eq (run (all_on ops)) (run ops)
   is FALSE (confirmed on the library: known finding C12 "parallel-edge-choice"): add_edge(no duplicates) / add_face(vertices) pick
   the FIRST parallel edge in outgoing-list order with the vertex incidences on and in index order with them off.  A second,
   cheaper refutation: swap_vertex_indices with a deletion pending (D13 family).  The _partial theorem covers the class indep_ops
   (Kernel7/IndepHist.v, described there): decidable, evaluated along the history; it excludes exactly the two refuted situations
   (by the checks par_ok / afv_ok and swap_ok) and, for lack of a proof, immediate FAST deletions and the FAST collection. *)
From Coq Require Import ZArith List Arith Bool.
From OVM Require Import Base.ListX Kernel.State Kernel.Ops Kernel.Reenable Kernel2.ExactHistory Kernel4.AllDefs
                        Kernel7.Indep Kernel7.IndepHist.
Import ListNotations.

Theorem C12_histories_independent_of_incidence_toggles_refuted :
  exists ops, all_ok ops = true /\ all_ok (all_on ops) = true /\
              faces (run ops) = [[0; 4; 6]] /\ faces (run (all_on ops)) = [[2; 4; 6]] /\ ~ core_eq (run (all_on ops)) (run ops).
Proof. exact histories_independent_of_incidence_toggles_refuted. Qed.
Print Assumptions C12_histories_independent_of_incidence_toggles_refuted.

Theorem C12_reenabling_changes_later_lookups_refuted :
  exists ops, all_ok ops = true /\ faces (run ops) = [[0; 4; 6]] /\ faces (run (all_on ops)) = [[2; 4; 6]].
Proof. exact reenabling_changes_later_lookups_refuted. Qed.
Print Assumptions C12_reenabling_changes_later_lookups_refuted.

Theorem C12_add_edge_lookup_result_refuted :
  exists ops, all_ok (ops ++ [AddEdge 0 1 false]) = true /\
    (exists s, step (run ops) (AddEdge 0 1 false) = Ok s (Some 0)) /\
    (exists s, step (run (all_on ops)) (AddEdge 0 1 false) = Ok s (Some 1)).
Proof. exact add_edge_lookup_result_refuted. Qed.
Print Assumptions C12_add_edge_lookup_result_refuted.

Theorem C12_swaps_with_pending_deletions_refuted :
  exists ops, all_ok ops = true /\ all_ok (all_on ops) = true /\
              edges (run ops) = [(2, 1)] /\ edges (run (all_on ops)) = [(0, 1)] /\ ~ core_eq (run (all_on ops)) (run ops).
Proof. exact swaps_with_pending_deletions_refuted. Qed.
Print Assumptions C12_swaps_with_pending_deletions_refuted.

(* the positive part: same core (definitions, counts, deletion flags and counters, modes, every property array) and the same result
   of every call, for every history of the class *)
Theorem C12_histories_independent_of_incidence_toggles_partial : forall ops, all_ok ops = true -> indep_ops ops = true ->
  core_eq (run (all_on ops)) (run ops) /\ all_ok (all_on ops) = true /\ indep_ops (all_on ops) = true /\
  results (all_on ops) = results ops.
Proof. exact histories_independent_of_incidence_toggles_partial. Qed.
Print Assumptions C12_histories_independent_of_incidence_toggles_partial.

Theorem C12_all_on_history_is_in_the_class : forall ops, all_ok ops = true -> indep_ops ops = true -> all_ok (all_on ops) = true.
Proof. intros ops A I. exact (proj1 (proj2 (histories_independent_of_incidence_toggles_partial ops A I))). Qed.
Print Assumptions C12_all_on_history_is_in_the_class.

(* non-vacuity: a tetrahedron built by add_face(vertices) while vertex / edge incidences are toggled, a parallel edge created AFTER the
   last lookup between its vertices, the four index swaps, a deferred face deletion (its cell goes too), a collection, and an
   immediate (index-shifting) vertex deletion; all three kinds of toggles in the middle *)
Notation tet_history :=
  [AddVertices 5; EnableVBU false; AddFaceV [0; 1; 2]; AddFaceV [0; 2; 3]; EnableEBU false; AddFaceV [0; 3; 1]; EnableVBU true; AddFaceV [1; 3; 2];
   EnableFBU false; AddCell [0; 2; 4; 6] true; EnableEBU true; PropCreate KF 7%Z; PropSet KF 0 2 9%Z; AddEdge 3 4 false; AddEdge 4 3 false; AddEdge 3 4 true;
   SwapV 0 4; EnableVBU false; SwapE 1 2; SwapF 0 3; SwapC 0 0;
   EnableDeferred true; EnableFast false; DelFace 0; EnableVBU true; EnableFBU true; CollectGarbage;
   EnableDeferred false; EnableEBU false; DelVertex 0; EnableEBU true].

Example C12_history_concrete :
  all_ok tet_history = true /\ indep_ops tet_history = true /\ all_on tet_history <> tet_history /\
  length (all_on tet_history) = 21 /\
  cells (run [AddVertices 5; EnableVBU false; AddFaceV [0; 1; 2]; AddFaceV [0; 2; 3]; EnableEBU false; AddFaceV [0; 3; 1]; EnableVBU true;
              AddFaceV [1; 3; 2]; EnableFBU false; AddCell [0; 2; 4; 6] true]) = [[0; 2; 4; 6]] /\
  nv (run tet_history) = 4 /\ edges (run tet_history) = [(3, 0); (1, 3); (0, 1); (1, 2); (2, 3); (2, 0)] /\
  faces (run tet_history) = [[3; 6; 8]; [9; 10; 1]; [0; 4; 2]] /\ cells (run tet_history) = [] /\
  map pdata (pf (run tet_history)) = [[7; 9; 7]%Z] /\
  results tet_history = [Some None; Some (Some 0); Some (Some 1); Some (Some 2); Some (Some 3); Some (Some 0); Some None; Some None;
                         Some (Some 6); Some (Some 6); Some (Some 7); Some None; Some None; Some None; Some None; Some None; Some None;
                         Some None; Some None; Some None; Some None].
Proof. vm_compute. repeat split. intros X; discriminate X. Qed.
