(* Props/Properties_C09_history.v -- C09 at HISTORY level: halffaces around an edge are in rotational order in EVERY reachable state.
   Statements only; every proof is `exact <lemma>` (or a few lines assembling lemmas); Print Assumptions under each theorem.
   Model: Kernel/Ops.v (in lock step with the library); single-call theorems: Props/Properties_C09.v; proofs: Kernel5/Rot*.v.

     rot_ok s e    the conclusion of C09_reorder_post about the CURRENT state s: the list of halfedge 2e is in rotational order (each
                   non-boundary halfface followed cyclically by the opposite of its neighbour across the edge inside its cell, a
                   boundary halfface only last) and the list of 2e+1 is its mirrored reverse
     rot_inv s     both incidence kinds on -> every live edge with an exact cache that is a single fan satisfies rot_ok
                   (the order is maintained only while reorder_incident_halffaces runs, i.e. while both kinds are on)
     rot_all s     the same without the liveness guard on the edge (what the proofs carry; rot_all s -> rot_inv s)

   History class: all_ok of Kernel4/AllDefs.v (another component; its invariant theorem Kernel4/AllHistory.v full_inv_step is used
   as is): add_vertex / add_vertices / add_edge / add_face / add_face(vertices); add_cell (topology-checked, or unchecked when the
   check would pass) in any incidence configuration; delete_vertex / edge / face / cell of live entities in all four (deferred x
   fast) modes; collect_garbage; enable_deferred / enable_fast both ways; vertex / edge / face incidences off and on again; clear;
   property operations; the four index swaps, also with deletions pending.  (set_edge / set_face / set_cell are excluded: the code
   documents that they do not reorder.)  The older classes hist_ok / fhist_ok are sub-classes.

   Nothing is _partial or _refuted here: every operation of the class keeps the invariant in every mode. *)
From Coq Require Import ZArith List Lia.
From OVM Require Import Kernel.State Kernel.Ops Kernel.Mirror Kernel.Closure Kernel.ExactInv Kernel.ShiftFace Kernel.ShiftEdge
                        Kernel2.LookupModel Kernel2.ListAux Kernel2.AdjacentProofs Kernel2.RotationProofs Kernel2.ReorderExact
                        Kernel2.ExactBase Kernel2.ExactHistory Kernel3.FastHistory Kernel3.GcDefs Kernel3.GcInv
                        Kernel4.AllDefs Kernel4.AllHistory
                        Kernel5.RotDefs Kernel5.RotTransfer Kernel5.RotFrame Kernel5.RotOpsFrame Kernel5.RotExact Kernel5.RotReorder Kernel5.RotStage
                        Kernel5.RotAddCell Kernel5.RotSwap Kernel5.RotCellCore Kernel5.RotFaceCore Kernel5.RotEdgeCore Kernel5.RotDelete
                        Kernel5.RotGc Kernel5.RotAddFace Kernel5.RotEnable Kernel5.RotHistory Kernel5.RotExample.
Import ListNotations.
Local Open Scope nat_scope.

(* ------------------------------------------------------------------ the invariant *)

Theorem C09_rot_all_gives_rot_inv : forall s, rot_all s -> rot_inv s.
Proof. exact rot_all_inv. Qed.
Print Assumptions C09_rot_all_gives_rot_inv.

(* one call of reorder_incident_halffaces on an exact single-fan edge establishes rot_ok (C09_reorder_post restated), for any
   notion P of "face present" (inside delete_face_core the dying face is still stored but has left the lists) *)
Theorem C09_reorder_establishes : forall P s e, exact_on P s e -> fan_on P s e -> rot_ok (reorder_incident_halffaces e s) e.
Proof. exact reorder_post_on. Qed.
Print Assumptions C09_reorder_establishes.

(* after reorder_edges es (es duplicate-free) an exact single-fan edge of es is in order, the other edges keep their lists *)
Theorem C09_reorder_edges_establishes : forall P es s e,
  NoDup es -> In e es -> exact_on P s e -> fan_on P s e -> rot_ok (reorder_edges es s) e.
Proof. exact rot_ok_after_reorder_edges. Qed.
Print Assumptions C09_reorder_edges_establishes.

(* ------------------------------------------------------------------ invariance under a consistent injective renaming *)

(* edge_map: edge e of s and edge e' of s' have the same halffaces around them up to the renaming phi (inverse psi) of halfface
   handles, which commutes with opp, with incidence, with hf_is_open and with the forward / backward links of the walk.
   Then the fan shape, cache exactness and rot_ok move from e to e' (and back: edge_map is symmetric). *)
Theorem C09_rot_ok_renaming_invariant : forall P P' s s' e e' phi psi,
  edge_map P P' s s' e e' phi psi ->
  hfs_at s' (2 * e') = map phi (hfs_at s (2 * e)) -> hfs_at s' (2 * e' + 1) = map phi (hfs_at s (2 * e + 1)) ->
  (fan_on P s e -> fan_on P' s' e') /\
  (exact_on P s e -> exact_on P' s' e') /\
  (exact_on P s e -> rot_ok s e -> rot_ok s' e') /\
  edge_map P' P s' s e' e psi phi.
Proof.
  intros P P' s s' e e' phi psi M L0 L1. split; [exact (fan_transfer P P' s s' e e' phi psi M)|].
  split; [exact (exact_transfer P P' s s' e e' phi psi M L0 L1)|]. split; [|exact (edge_map_sym _ _ _ _ _ _ _ _ M)].
  intros X. apply (rot_transfer P P' s s' e e' phi psi M L0 L1). intros x Hx. apply (proj1 (proj2 X)). exact Hx.
Qed.
Print Assumptions C09_rot_ok_renaming_invariant.

(* an edge_map from what the two states STORE around the edge: g renames halffaces, k halfedges, r cells (injective on the
   domains Dg, Dk: index shifts are not injective at the removed handles) *)
Theorem C09_renaming_from_stored_data : forall (P P' : nat -> Prop) (s s' : mesh) (e e' : nat) (g g' k r : nat -> nat) (Dg Dk : nat -> Prop),
  (forall x, g (opp x) = opp (g x)) -> (forall y, g' (opp y) = opp (g' y)) ->
  (forall x, inc_on P s (2 * e) x -> inc_on P' s' (2 * e') (g x) /\ g' (g x) = x) ->
  (forall y, inc_on P' s' (2 * e') y -> inc_on P s (2 * e) (g' y) /\ g (g' y) = y) ->
  (forall a b, Dg a -> Dg b -> g a = g b -> a = b) -> (forall a, Dg a -> Dg (opp a)) -> (forall x, RotRename.around P s e x -> Dg x) ->
  (forall a b, Dk a -> Dk b -> k a = k b -> a = b) -> (forall a, Dk a -> Dk (opp a) /\ k (opp a) = opp (k a)) ->
  Dk (2 * e) -> k (2 * e) = 2 * e' ->
  (forall x, RotRename.around P s e x -> cell_of s x = None -> cell_of s' (g x) = None) ->
  (forall x c, RotRename.around P s e x -> cell_of s x = Some c ->
     cell_of s' (g x) = Some (r c) /\ c_deleted s' (r c) = c_deleted s c /\
     (c_deleted s c = false ->
        cell_at s' (r c) = map g (cell_at s c) /\ (forall z, In z (cell_at s c) -> Dg z) /\
        (forall z, z = x \/ In z (cell_at s c) -> halfface s' (g z) = map k (halfface s z) /\ forall w, In w (halfface s z) -> Dk w))) ->
  edge_map P P' s s' e e' g g'.
Proof. exact RotRename.edge_map_of_reads. Qed.
Print Assumptions C09_renaming_from_stored_data.

(* ------------------------------------------------------------------ 1. operations that do not touch the lists or the faces / cells *)

Theorem C09_frame_operations : forall s, rot_all s ->
  rot_all (fst (add_vertex s)) /\ (forall n, rot_all (add_n_vertices n s)) /\
  (forall a b dup, lens_ok s -> rot_all (fst (add_edge s a b dup))) /\
  (forall k x, rot_all (set_props k x s)) /\ (forall b, rot_all (enable_fast b s)) /\ (forall b, rot_all (enable_vbu b s)) /\
  (forall a b, rot_all (swap_vertex_indices a b s)) /\ (forall h, rot_all (delete_vertex_core h s)) /\
  (forall cp, rot_all (clear_mesh cp s)).
Proof.
  intros s R. split; [exact (rot_all_add_vertex s R)|]. split; [intros n; exact (rot_all_add_n_vertices n s R)|].
  split; [intros a b dup L; exact (rot_all_add_edge s a b dup L R)|]. split; [intros k x; exact (rot_all_set_props k x s R)|].
  split; [intros b; exact (rot_all_enable_fast b s R)|]. split; [intros b; exact (rot_all_enable_vbu b s R)|].
  split; [intros a b; exact (rot_all_swap_vertex a b s R)|]. split; [intros h; exact (rot_all_delete_vertex_core h s R)|].
  intros cp. exact (rot_all_clear cp s).
Qed.
Print Assumptions C09_frame_operations.

(* ------------------------------------------------------------------ 3. add_cell *)
(* rinv: the part of the cache invariant used (exact caches, handles in range, cells on live faces, duplicate-free lists) *)
Theorem C09_add_cell_preserves : forall s hfs chk, rinv s -> rot_all s -> rot_all (fst (add_cell s hfs chk)).
Proof. exact rot_all_add_cell. Qed.
Print Assumptions C09_add_cell_preserves.

(* for a halfface of another cell nothing that the walk reads changes *)
Theorem C09_add_cell_other_edges : forall s hfs e, fbu s = true -> fbu_ok s -> ~ In e (cell_edges (ac3 s hfs) hfs) ->
  edge_map (livef s) (livef (ac3 s hfs)) s (ac3 s hfs) e e idn idn.
Proof. exact ac3_edge_map. Qed.
Print Assumptions C09_add_cell_other_edges.

(* ------------------------------------------------------------------ 5. the index swaps (pure renamings) *)
Theorem C09_swaps_preserve : forall s, ginv s -> rot_all s ->
  (forall a b, rot_all (swap_vertex_indices a b s)) /\
  (forall a b, a < ne s -> b < ne s -> rot_all (swap_edge_indices a b s)) /\
  (forall a b, a < nf s -> b < nf s -> rot_all (swap_face_indices a b s)) /\
  (forall a b, a < nc s -> b < nc s -> rot_all (swap_cell_indices a b s)).
Proof.
  intros s G R. split; [intros a b; exact (rot_all_swap_vertex a b s R)|].
  split; [intros a b Ha Hb; exact (rot_all_swap_edge a b s G Ha Hb R)|].
  split; [intros a b Ha Hb; exact (rot_all_swap_face a b s G Ha Hb R)|].
  intros a b Ha Hb. exact (rot_all_swap_cell a b s (ginv_rinv s G) Ha Hb R).
Qed.
Print Assumptions C09_swaps_preserve.

(* ------------------------------------------------------------------ 4. the deletion cores and the public deletions *)
(* delete_cell_core, every mode, live or flagged cell *)
Theorem C09_delete_cell_core_preserves : forall h s, rinv s -> h < nc s -> rot_all s -> rot_all (delete_cell_core h s).
Proof. exact rot_all_delete_cell_core. Qed.
Print Assumptions C09_delete_cell_core_preserves.

(* delete_face_core: deferred mode (a simple face), immediate modes (fast and index-shifting) on a face in no cell *)
Theorem C09_delete_face_core_preserves : forall h s, rot_all s ->
  (deferred s = true -> rinv s -> h < nf s -> simple_hes (face_at s h) -> rot_all (delete_face_core h s)) /\
  (deferred s = false -> shift_inv2 s -> h < nf s -> face_free s h -> rot_all (delete_face_core h s)).
Proof.
  intros h s R. split; [intros D G Hh Sim; exact (rot_all_delete_face_core_def h s D G Hh Sim R)|].
  intros D I Hh FF. exact (rot_all_delete_face_core_imm h s D I Hh FF R).
Qed.
Print Assumptions C09_delete_face_core_preserves.

Theorem C09_delete_edge_core_preserves : forall h s, rot_all s ->
  (deferred s = true -> rot_all (delete_edge_core h s)) /\
  (deferred s = false -> shift_inv2 s -> h < ne s -> edge_free s h -> rot_all (delete_edge_core h s)).
Proof.
  intros h s R. split; [intros D; exact (rot_all_delete_edge_core_def h s D R)|].
  intros D I Hh FF. exact (rot_all_delete_edge_core_imm h s D I Hh FF R).
Qed.
Print Assumptions C09_delete_edge_core_preserves.

(* the four public deletions of a live entity, all four (deferred x fast) modes, every incidence configuration *)
Theorem C09_public_deletions_preserve : forall s, all_inv s -> rot_all s ->
  (forall v, v < nv s -> rot_all (delete_vertex v s)) /\
  (forall e, e < ne s -> e_deleted s e = false -> rot_all (delete_edge e s)) /\
  (forall f, f < nf s -> f_deleted s f = false -> rot_all (delete_face f s)) /\
  (forall c, c < nc s -> rot_all (delete_cell c s)).
Proof.
  intros s H R. split; [exact (rot_all_delete_vertex s H R)|]. split; [exact (rot_all_delete_edge s H R)|].
  split; [exact (rot_all_delete_face s H R)|exact (rot_all_delete_cell s H R)].
Qed.
Print Assumptions C09_public_deletions_preserve.

(* ------------------------------------------------------------------ 6. collect_garbage (both fast modes), leaving deferred mode *)
Theorem C09_collect_garbage_preserves : forall s, ginv s -> rot_all s -> rot_all (collect_garbage s).
Proof. exact rot_all_collect_garbage. Qed.
Print Assumptions C09_collect_garbage_preserves.

Theorem C09_enable_deferred_preserves : forall b s, ginv s -> rot_all s -> rot_all (enable_deferred b s).
Proof. exact rot_all_enable_deferred. Qed.
Print Assumptions C09_enable_deferred_preserves.

(* ------------------------------------------------------------------ 2. add_face *)
Theorem C09_add_face_preserves : forall s hes chk, rinv s -> (forall h, In h hes -> h < 2 * ne s) -> rot_all s ->
  rot_all (fst (add_face s hes chk)).
Proof. exact rot_all_add_face. Qed.
Print Assumptions C09_add_face_preserves.

Theorem C09_add_face_v_preserves : forall s vs, rinv s -> bu_inv s -> (forall v, In v vs -> v < nv s) -> rot_all s ->
  rot_all (fst (add_face_v s vs)).
Proof. exact rot_all_add_face_v. Qed.
Print Assumptions C09_add_face_v_preserves.

(* an edge of the new face that had a face before is NOT a single fan afterwards (the new face is in no cell: it cannot be inside a
   fan of cells, and two cell-less faces are two fans); an edge of the new face that is a single fan afterwards has the new face as its
   only face *)
Theorem C09_add_face_breaks_fan : forall s hes, rinv s -> ebu s = true -> fbu s = true -> (forall h, In h hes -> h < 2 * ne s) -> forall he x,
  In he hes -> inc_on (livef s) s (2 * (he / 2)) x ->
  ~ fan_on (livef (fst (append_face s hes))) (fst (append_face s hes)) (he / 2).
Proof. exact add_face_breaks_fan. Qed.
Print Assumptions C09_add_face_breaks_fan.

Theorem C09_add_face_trivial_fan : forall s hes, rinv s -> ebu s = true -> fbu s = true -> (forall h, In h hes -> h < 2 * ne s) -> forall he,
  In he hes -> fan_on (livef (fst (append_face s hes))) (fst (append_face s hes)) (he / 2) ->
  forall x, inc_on (livef (fst (append_face s hes))) (fst (append_face s hes)) (2 * (he / 2)) x ->
  x = (if Nat.even he then 2 * nf s else 2 * nf s + 1).
Proof. exact add_face_fan_is_trivial. Qed.
Print Assumptions C09_add_face_trivial_fan.

(* ------------------------------------------------------------------ 7. switching the edge / face incidences *)
Theorem C09_enable_ebu_preserves : forall b s, ginv s -> faces_simple s -> rot_all s -> rot_all (enable_ebu b s).
Proof. exact rot_all_enable_ebu. Qed.
Print Assumptions C09_enable_ebu_preserves.

Theorem C09_enable_fbu_preserves : forall b s, ginv s -> (ebu s = true -> forall k, NoDup (hfs_at s k)) -> rot_all s ->
  rot_all (enable_fbu b s).
Proof. exact rot_all_enable_fbu. Qed.
Print Assumptions C09_enable_fbu_preserves.

(* re-ordering every live edge of a state with exact lists puts every single fan in order *)
Theorem C09_reorder_all_live_edges : forall s, faces_on_live_edges s -> inc_exact (livef s) s ->
  rot_all (reorder_edges (live_edges s) s).
Proof. exact rot_all_reorder_live. Qed.
Print Assumptions C09_reorder_all_live_edges.

(* ------------------------------------------------------------------ one call of the class; histories *)
Theorem C09_step_preserves : forall s o, full_inv s -> all_op s o = true -> rot_all s -> rot_all (next s o).
Proof. exact rot_all_step. Qed.
Print Assumptions C09_step_preserves.

(* THE history theorem *)
Theorem C09_rotational_order_along_histories : forall ops, all_ok ops = true -> rot_inv (run ops).
Proof. exact rot_inv_along_histories. Qed.
Print Assumptions C09_rotational_order_along_histories.

(* with the exactness of the caches in every reachable state: C09's first sentence, unfolded *)
Theorem C09_first_sentence_every_reachable_state : forall ops, all_ok ops = true -> let s := run ops in
  ebu s = true -> fbu s = true -> forall e, live_e s e = true ->
  edge_cache_exact s e /\
  (single_fan s e ->
   let L := hfs_at s (2 * e) in
   (forall i, i < length L ->
      (hf_is_open s (nth i L 0) = false ->
         adjacent_halfface_in_cell s (nth i L 0) (2 * e) = Some (opp (nth (circ_next (length L) i) L 0))) /\
      (hf_is_open s (nth i L 0) = true -> i = length L - 1)) /\
   hfs_at s (2 * e + 1) = rev (map opp L)).
Proof.
  intros ops F s E Fb e L. split; [exact (reachable_edge_caches_exact ops F E Fb e L)|].
  intros Fan. exact (reachable_rotational_order ops F E Fb e L Fan).
Qed.
Print Assumptions C09_first_sentence_every_reachable_state.

(* C09's second sentence in every reachable state (face incidences on): every live cell is closed, so adjacent_halfface_in_cell
   returns the unique other halfface of the cell at the edge, and applying it twice returns the start *)
Theorem C09_second_sentence_every_reachable_state : forall ops, all_ok ops = true -> let s := run ops in
  fbu s = true -> forall c hf he, live_c s c = true -> In hf (cell_at s c) -> In he (halfface s hf) ->
  closed_cell s c /\
  exists hf',
    adjacent_halfface_in_cell s hf he = Some hf' /\
    (In hf' (cell_at s c) /\ hf' <> hf /\ hf' <> opp hf /\ In (opp he) (halfface s hf')) /\
    (forall x, In x (cell_at s c) -> x <> hf -> x <> opp hf -> In (opp he) (halfface s x) -> x = hf') /\
    adjacent_halfface_in_cell s hf' (opp he) = Some hf.
Proof.
  intros ops F s Fb c hf he L Hhf Hhe. split; [exact (reachable_cells_closed ops F Fb c L)|].
  exact (reachable_adjacent ops F Fb c hf he L Hhf Hhe).
Qed.
Print Assumptions C09_second_sentence_every_reachable_state.

(* the two older history classes are sub-classes *)
Theorem C09_rotational_order_along_deferred_histories : forall ops, hist_ok ops = true -> rot_inv (run ops).
Proof. intros ops F. exact (rot_inv_along_histories ops (hist_ok_all_ok ops F)). Qed.
Print Assumptions C09_rotational_order_along_deferred_histories.

Theorem C09_rotational_order_along_immediate_histories : forall ops, fhist_ok ops = true -> rot_inv (run ops).
Proof. intros ops F. exact (rot_inv_along_histories ops (fhist_ok_all_ok ops F)). Qed.
Print Assumptions C09_rotational_order_along_immediate_histories.

(* ------------------------------------------------------------------ the decidable checker *)
Theorem C09_rot_ok_checker : forall s e, rot_ok_b s e = true <-> rot_ok s e.
Proof. intros s e. split; [exact (rot_ok_b_sound s e)|exact (rot_ok_b_complete s e)]. Qed.
Print Assumptions C09_rot_ok_checker.

(* ------------------------------------------------------------------ non-vacuity *)

(* a closed ring of four tetrahedra around the edge (0,1), attached in the order 3rd, 1st, 4th, 2nd: the history is in the class,
   the axis edge is a single fan (a cycle) and its lists are in rotational order - by the history theorem and by the checker *)
Example C09_ring_of_four_tetrahedra :
  all_ok ring_ops = true /\
  edge_at (run ring_ops) 0 = (0, 1) /\ ebu (run ring_ops) = true /\ fbu (run ring_ops) = true /\ live_e (run ring_ops) 0 = true /\
  hfs_at (run ring_ops) 0 = [4; 6; 0; 2] /\ hfs_at (run ring_ops) 1 = [3; 1; 7; 5] /\
  single_fan (run ring_ops) 0 /\ rot_ok_b (run ring_ops) 0 = true /\ rot_ok (run ring_ops) 0.
Proof. exact (conj (proj1 ring_history_in_class) ring_is_rotational). Qed.

(* then: delete one cell (deferred mode), swap faces 0 and 5, collect garbage (fast mode): three cells are left, the axis edge is an
   open chain ending in two boundary halffaces, the boundary halfface comes last, the opposite list is the mirrored reverse *)
Example C09_open_chain_after_delete_swap_collect :
  all_ok chain_ops = true /\
  edge_at (run chain_ops) 0 = (0, 1) /\ nc (run chain_ops) = 3 /\ needs_gc (run chain_ops) = false /\
  ebu (run chain_ops) = true /\ fbu (run chain_ops) = true /\ live_e (run chain_ops) 0 = true /\
  hfs_at (run chain_ops) 0 = [2; 4; 6; 10] /\ hfs_at (run chain_ops) 1 = [11; 7; 5; 3] /\
  hf_is_open (run chain_ops) 10 = true /\ hf_is_open (run chain_ops) 3 = true /\
  single_fan (run chain_ops) 0 /\ rot_ok_b (run chain_ops) 0 = true /\ rot_ok (run chain_ops) 0.
Proof. exact (conj (proj2 ring_history_in_class) chain_is_rotational). Qed.
