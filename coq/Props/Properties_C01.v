(* Props/Properties_C01.v -- C01: bottom-up incidence queries are the exact inverse of the top-down definitions.
   (The derived queries - every circulator list, valence, is_boundary, boundary iterators - are in Properties_C01_queries.v.) *)
From Coq Require Import ZArith List Arith Bool.
From OVM Require Import Base.ListX Kernel.State Kernel.Ops Kernel.Recompute Kernel.Closure Kernel.DeferredDelete Kernel.Reenable Kernel.InvB Kernel.ExactInv Kernel.ExactDelete Kernel.ExactRun.
Import ListNotations.

(* The invariant (membership form, one clause per incidence kind; Kernel/Closure.v):
     vbu_ok s : for every vertex v, h is in the outgoing-halfedge list of v  <->  edge h/2 exists, is not deleted, and halfedge h starts at v
     ebu_ok s : for every halfedge h, x is in the halfface list of h         <->  face x/2 exists, is not deleted, and halfface x contains h
     fbu_ok s : for every halfface hf, the cached incident cell is c         <->  c exists, is not deleted, and lists hf.
   Deleted-but-not-collected entities are excluded by the `_deleted = false` conjunct: they never appear in an answer. *)

(* 1. computing the caches from scratch (what enabling a kind does) yields exactly the invariant, duplicate-free, for EVERY state *)
Theorem C01_recomputed_outgoing_halfedges_exact : forall s,
  length (compute_vbu s) = nv s /\ forall v, v < nv s ->
    NoDup (nth v (compute_vbu s) []) /\
    forall h, In h (nth v (compute_vbu s) []) <-> (h / 2 < ne s /\ e_deleted s (h / 2) = false /\ he_from s h = v).
Proof. exact compute_vbu_exact. Qed.
Print Assumptions C01_recomputed_outgoing_halfedges_exact.

Theorem C01_recomputed_halffaces_of_halfedge_exact : forall s,
  length (compute_ebu s) = 2 * ne s /\ forall h, h < 2 * ne s -> forall x,
    In x (nth h (compute_ebu s) []) <-> (x / 2 < nf s /\ f_deleted s (x / 2) = false /\ In h (halfface s x)).
Proof. exact compute_ebu_membership. Qed.
Print Assumptions C01_recomputed_halffaces_of_halfedge_exact.

Theorem C01_recomputed_incident_cell_exact : forall s,
  (forall c1 c2 hf, In c1 (live_cells s) -> In c2 (live_cells s) -> In hf (cell_at s c1) -> In hf (cell_at s c2) -> c1 = c2) ->
  forall hf c, hf < 2 * nf s ->
    (nth hf (compute_fbu s) None = Some c <-> (c < nc s /\ c_deleted s c = false /\ In hf (cell_at s c))).
Proof. exact compute_fbu_exact. Qed.
Print Assumptions C01_recomputed_incident_cell_exact.

(* 2. the invariant is decidable, and the decision procedures (which also check list lengths and duplicate-freeness) are sound.
      They are extracted and evaluated on every model state the correspondence run visits; the model state is compared, cache
      for cache and in order, with the real library's after every operation.  So on every explored reachable state the real
      caches satisfy the invariant - by a proof about the checker, not by sampling queries. *)
Theorem C01_invariant_checkers_sound : forall s,
  (vbu_ok_b s = true -> vbu_ok s) /\ (ebu_ok_b s = true -> ebu_ok s) /\ (fbu_ok_b s = true -> fbu_ok s).
Proof. intros s. exact (conj (vbu_ok_b_sound s) (conj (ebu_ok_b_sound s) (fbu_ok_b_sound s))). Qed.
Print Assumptions C01_invariant_checkers_sound.

(* 3. under the invariant the upward closure queries used by deletion are the brute-force scans over the stored definitions *)
Theorem C01_upward_closure_queries_are_brute_force : forall s v es fs,
  (vbu_ok s -> v < nv s -> incident_edges_of_vertex s v = edges_at_vertex s v) /\
  (ebu_ok s -> (forall e, In e es -> e < ne s) -> incident_faces_of_edges s es = faces_at_edges s es) /\
  (fbu_ok s -> (forall f, In f fs -> f < nf s) -> incident_cells_of_faces s fs = cells_at_faces s fs).
Proof.
  intros s v es fs. split; [|split].
  - exact (incident_edges_cache_is_scan s v).
  - exact (incident_faces_cache_is_scan s es).
  - exact (incident_cells_cache_is_scan s fs).
Qed.
Print Assumptions C01_upward_closure_queries_are_brute_force.

(* 4. re-enabling restores the invariant (vertex and face kinds in full; edge kind before the rotational re-ordering) *)
Theorem C01_invariant_restored_by_reenabling : forall s,
  (vbu s = false -> vbu_ok (enable_vbu true s)) /\
  (fbu s = false -> no_shared_halfface s -> fbu_ok (enable_fbu true s)) /\
  (ebu s = false -> fbu s = false -> ebu_ok (enable_ebu true s)).
Proof.
  intros s. exact (conj (reenabled_vertex_incidences_exact s) (conj (reenabled_face_incidences_exact s) (reenabled_edge_incidences_exact_partial s))).
Qed.
Print Assumptions C01_invariant_restored_by_reenabling.

(* 5. the invariant (with the range facts it needs: bu_inv = vbu_ok /\ ebu_ok /\ fbu_ok /\ refs_ok /\ lens_ok) holds after EVERY
      history of growth operations - add_vertex, add_n_vertices, add_edge (duplicates allowed or not), add_face (checked or not),
      add_face from vertices, toggling vertex incidences, rejected calls included - by induction over the history *)
Theorem C01_invariant_holds_along_all_growth_histories : forall ops : list op,
  forallb grow_op ops = true ->
  let s := run ops in vbu_ok s /\ ebu_ok s /\ fbu_ok s /\ refs_ok s /\ lens_ok s.
Proof. exact bu_inv_growth_histories. Qed.
Print Assumptions C01_invariant_holds_along_all_growth_histories.

(* 6. ... and is preserved by deferred deletion of a vertex slot or a live edge slot (the cores that involve no re-ordering) *)
Theorem C01_invariant_preserved_by_deferred_vertex_and_edge_cores : forall h s, deferred s = true -> bu_inv s ->
  bu_inv (delete_vertex_core h s) /\ (h < ne s -> e_deleted s h = false -> bu_inv (delete_edge_core h s)).
Proof.
  intros h s D H. split; [exact (bu_inv_delete_vertex_core_deferred h s D H)|].
  intros Hh Hl. exact (bu_inv_delete_edge_core_deferred h s D H Hh Hl).
Qed.
Print Assumptions C01_invariant_preserved_by_deferred_vertex_and_edge_cores.

(* 7. Properties_C01_history.v (Kernel2/Exact*.v): the invariant, strengthened by duplicate-freeness of every halfface list, closedness
      of every live cell and simplicity of faces, holds after EVERY history of growth operations, topology-checked add_cell on free
      halffaces, and delete_vertex/edge/face/cell in deferred mode (C01_invariant_along_deferred_histories), including the re-ordering
      of halffaces around edges in all its intermediate states.
   STILL NOT A THEOREM: preservation by collect_garbage, swap_*_indices (with incidences on), set_*, immediate-mode deletion (the
   index-shifting paths) and by add_cell without topology check - the last one is FALSE on cells that are not closed surfaces
   (KNOWN_FINDINGS nonmanifold-cells-reorder, Kernel2/ReorderExact.v reorder_permutation_refuted).  For those the invariant on
   reachable states rests on item 2 (sound checkers on every explored state) and on the brute-force oracle on the real library. *)

Example C01_invariant_holds_on_a_state_with_pending_deletions :
  let s := run [AddVertices 5; AddFaceV [0; 1; 2]; AddFaceV [0; 2; 3]; AddFaceV [0; 3; 1]; AddFaceV [1; 3; 2];
                AddCell [0; 2; 4; 6] false; AddFaceV [1; 2; 4]; AddFaceV [2; 3; 4]; AddFaceV [3; 1; 4]; AddCell [7; 8; 10; 12] false; DelVertex 4] in
  vbu_ok_b s = true /\ ebu_ok_b s = true /\ fbu_ok_b s = true /\ valid_b s = true /\ needs_gc s = true.
Proof. vm_compute. repeat split. Qed.
