(* Props/Properties_C17.v -- C17: index swaps are pure relabelings. *)
From Coq Require Import ZArith List Arith.
From OVM Require Import Base.ListX Kernel.State Kernel.Ops Kernel.SwapEffects Kernel.SwapInvol Kernel.Sizes Kernel.SwapCellCache.
Import ListNotations.

Theorem C17_swapping_a_handle_with_itself_is_a_noop : forall a s,
  swap_vertex_indices a a s = s /\ swap_edge_indices a a s = s /\ swap_face_indices a a s = s /\ swap_cell_indices a a s = s.
Proof. intros a s. exact (conj (swap_vertex_self a s) (conj (swap_edge_self a s) (conj (swap_face_self a s) (swap_cell_self a s)))). Qed.
Print Assumptions C17_swapping_a_handle_with_itself_is_a_noop.

(* In EVERY mode (any incidence subset, deferred or not): the own definition array, the deletion flags and every property
   of the kind (and of the half-kind, pairwise, side by side) are exchanged at the two slots; nothing of any other kind changes;
   with the consulted incidence kind off, the referring definitions are exactly the relabeled ones. *)
Theorem C17_swap_cell_exchanges_exactly_the_two_slots : forall a b s, a <> b -> let s' := swap_cell_indices a b s in
  cells s' = swap_nth a b [] (cells s) /\ cdel s' = swap_nth a b false (cdel s) /\ pc s' = map (pswap a b) (pc s) /\
  nv s' = nv s /\ edges s' = edges s /\ faces s' = faces s /\ vdel s' = vdel s /\ edel s' = edel s /\ fdel s' = fdel s /\
  out_hes s' = out_hes s /\ inc_hfs s' = inc_hfs s /\
  pv s' = pv s /\ pe s' = pe s /\ phe s' = phe s /\ pf s' = pf s /\ phf s' = phf s /\ pm s' = pm s /\
  (ndv s' = ndv s /\ nde s' = nde s /\ ndf s' = ndf s /\ ndc s' = ndc s) /\
  (vbu s' = vbu s /\ ebu s' = ebu s /\ fbu s' = fbu s /\ deferred s' = deferred s /\ fast s' = fast s) /\
  (fbu s = false -> inc_cell s' = inc_cell s).
Proof. exact swap_cell_effect. Qed.
Print Assumptions C17_swap_cell_exchanges_exactly_the_two_slots.

Theorem C17_swap_face_exchanges_exactly_the_two_slots : forall a b s, a <> b -> let s' := swap_face_indices a b s in
  faces s' = swap_nth a b [] (faces s) /\ fdel s' = swap_nth a b false (fdel s) /\
  pf s' = map (pswap a b) (pf s) /\ phf s' = half_swap_props a b (phf s) /\
  nv s' = nv s /\ edges s' = edges s /\ vdel s' = vdel s /\ edel s' = edel s /\ cdel s' = cdel s /\
  out_hes s' = out_hes s /\
  pv s' = pv s /\ pe s' = pe s /\ phe s' = phe s /\ pc s' = pc s /\ pm s' = pm s /\
  (ndv s' = ndv s /\ nde s' = nde s /\ ndf s' = ndf s /\ ndc s' = ndc s) /\
  (vbu s' = vbu s /\ ebu s' = ebu s /\ fbu s' = fbu s /\ deferred s' = deferred s /\ fast s' = fast s) /\
  (fbu s = false -> cells s' = map (map (swap_half a b)) (cells s) /\ inc_cell s' = inc_cell s) /\
  (ebu s = false -> inc_hfs s' = inc_hfs s).
Proof. exact swap_face_effect. Qed.
Print Assumptions C17_swap_face_exchanges_exactly_the_two_slots.

Theorem C17_swap_edge_exchanges_exactly_the_two_slots : forall a b s, a <> b -> let s' := swap_edge_indices a b s in
  edges s' = swap_nth a b (0, 0) (edges s) /\ edel s' = swap_nth a b false (edel s) /\
  pe s' = map (pswap a b) (pe s) /\ phe s' = half_swap_props a b (phe s) /\
  nv s' = nv s /\ cells s' = cells s /\ vdel s' = vdel s /\ fdel s' = fdel s /\ cdel s' = cdel s /\
  inc_cell s' = inc_cell s /\
  pv s' = pv s /\ pf s' = pf s /\ phf s' = phf s /\ pc s' = pc s /\ pm s' = pm s /\
  (ndv s' = ndv s /\ nde s' = nde s /\ ndf s' = ndf s /\ ndc s' = ndc s) /\
  (vbu s' = vbu s /\ ebu s' = ebu s /\ fbu s' = fbu s /\ deferred s' = deferred s /\ fast s' = fast s) /\
  (ebu s = false -> faces s' = map (map (swap_half a b)) (faces s) /\ inc_hfs s' = inc_hfs s) /\
  (vbu s = false -> out_hes s' = out_hes s).
Proof. exact swap_edge_effect. Qed.
Print Assumptions C17_swap_edge_exchanges_exactly_the_two_slots.

Theorem C17_swap_vertex_exchanges_exactly_the_two_slots : forall a b s, a <> b -> let s' := swap_vertex_indices a b s in
  nv s' = nv s /\ vdel s' = swap_nth a b false (vdel s) /\ pv s' = map (pswap a b) (pv s) /\
  faces s' = faces s /\ cells s' = cells s /\ edel s' = edel s /\ fdel s' = fdel s /\ cdel s' = cdel s /\
  inc_hfs s' = inc_hfs s /\ inc_cell s' = inc_cell s /\
  pe s' = pe s /\ phe s' = phe s /\ pf s' = pf s /\ phf s' = phf s /\ pc s' = pc s /\ pm s' = pm s /\
  (ndv s' = ndv s /\ nde s' = nde s /\ ndf s' = ndf s /\ ndc s' = ndc s) /\
  (vbu s' = vbu s /\ ebu s' = ebu s /\ fbu s' = fbu s /\ deferred s' = deferred s /\ fast s' = fast s) /\
  (vbu s = false -> edges s' = map (swap_ends a b) (edges s) /\ out_hes s' = out_hes s).
Proof. exact swap_vertex_effect. Qed.
Print Assumptions C17_swap_vertex_exchanges_exactly_the_two_slots.

(* applying the same swap twice restores the EXACT original state - every component - in every reachable state
   (any history) in which the incidence kinds the swap consults are off (the linear-scan implementation) *)
Theorem C17_swap_twice_restores_the_exact_state_scan : forall ops a b, let s := run ops in
  (fbu s = false -> a < nc s -> b < nc s -> swap_cell_indices a b (swap_cell_indices a b s) = s) /\
  (fbu s = false -> ebu s = false -> a < nf s -> b < nf s -> swap_face_indices a b (swap_face_indices a b s) = s) /\
  (ebu s = false -> vbu s = false -> a < ne s -> b < ne s -> swap_edge_indices a b (swap_edge_indices a b s) = s) /\
  (vbu s = false -> a < nv s -> b < nv s -> swap_vertex_indices a b (swap_vertex_indices a b s) = s).
Proof.
  intros ops a b s. pose proof (sized_reachable ops) as Z. fold s in Z. repeat split.
  - intros. apply swap_cell_scan_involutive; assumption.
  - intros. apply swap_face_scan_involutive; assumption.
  - intros. apply swap_edge_scan_involutive; assumption.
  - intros. apply swap_vertex_scan_involutive; assumption.
Qed.
Print Assumptions C17_swap_twice_restores_the_exact_state_scan.

(* cells, EVERY mode (face incidences on or off, deferred-deleted cells present, a live cell sitting on the halffaces of a deleted one):
   the incident-cell cache after the swap is exactly the relabeled cache, and swapping twice restores the exact state, in every
   reachable state whose cache entries for the two cells are sound.  (The unrepaired code refuted this: defect D16, fixed in /repo.) *)
Theorem C17_swap_cell_relabels_the_incidence_cache_in_every_mode : forall a b s, a <> b -> fbu s = true ->
  cell_entries_sound s a -> cell_entries_sound s b ->
  inc_cell (swap_cell_indices a b s) = map (option_map (swap_idx a b)) (inc_cell s).
Proof. exact swap_cell_cache_relabeled. Qed.
Print Assumptions C17_swap_cell_relabels_the_incidence_cache_in_every_mode.

Theorem C17_swap_cell_twice_restores_the_exact_state_in_every_mode : forall ops a b, let s := run ops in
  a < nc s -> b < nc s -> (fbu s = true -> cell_entries_sound s a /\ cell_entries_sound s b) ->
  swap_cell_indices a b (swap_cell_indices a b s) = s.
Proof. intros ops a b s Ha Hb S. exact (swap_cell_involutive_every_mode a b s (sized_reachable ops) Ha Hb S). Qed.
Print Assumptions C17_swap_cell_twice_restores_the_exact_state_in_every_mode.

(* FULL STATEMENT (not provable of the faithful model, see _refuted below):
     forall reachable s, a b in range:  swap_k a b s = relabel k (transposition a b) s   in every mode.
   With incidences ON the implementation finds the referring entities through the caches, and the caches do not list
   deferred-deleted entities: the stored definition of a deleted cell that mentions a swapped face is left stale
   (KNOWN_FINDINGS D13).  The witness below is replayed on the real library by corpus/kernel/known-findings.scripts. *)
Theorem C17_relabel_of_deleted_definitions_refuted : exists ops a b,
  let s := run ops in
  a < nf s /\ b < nf s /\ fbu s = true /\
  cells (swap_face_indices a b s) <> map (map (swap_half a b)) (cells s) /\
  cells (swap_face_indices a b (enable_fbu false s)) = map (map (swap_half a b)) (cells s).
Proof.
  exists [AddVertices 4; AddFaceV [0; 1; 2]; AddFaceV [0; 2; 3]; AddFaceV [0; 3; 1]; AddFaceV [1; 3; 2];
          AddCell [0; 2; 4; 6] false; DelCell 0], 0, 3.
  vm_compute. repeat split; try (repeat constructor); intros H; discriminate H.
Qed.
Print Assumptions C17_relabel_of_deleted_definitions_refuted.

(* ============================================================================================================
   The CACHE-GUIDED branches (incidence kinds ON; deferred-deleted entities may be present).  Each swap finds the
   entities whose stored definition mentions the two handles through the bottom-up caches, with a processed set
   (Base/FoldOnce.v: the loop applies the renaming exactly once at exactly the slots it finds).  Proofs:
   Kernel/SwapFaceCache.v, Kernel/SwapEdgeCache.v, Kernel/SwapVertexCache.v.
   Hypotheses: exactness of the caches consulted (vbu_ok/ebu_ok/fbu_ok, the invariant of C01), one cache slot per
   entity (lens_ok) and "no deferred-deleted entity mentions a or b" - the exact complement of finding D13.
   [face_relabeled]/[edge_relabeled]/[vertex_relabeled] are explicit records: the two slots (and half-slots, side by
   side) exchanged in the own arrays, flags, properties and slot-indexed caches, every stored handle renamed by
   swap_half/swap_idx in the referring definitions and in the handle-valued caches, everything else untouched. *)
From OVM Require Import Kernel.Closure Kernel.ExactInv Kernel.ExactRun Kernel.SwapFaceCache Kernel.SwapEdgeCache Kernel.SwapVertexCache.
Local Open Scope nat_scope.

Theorem C17_swap_face_is_the_exact_relabeling_in_every_mode : forall a b s, a <> b -> a < nf s -> b < nf s ->
  fbu_ok s -> ebu_ok s -> lens_ok s ->
  (forall c, c < nc s -> c_deleted s c = true -> forall hf, In hf (cell_at s c) -> hf / 2 <> a /\ hf / 2 <> b) ->
  let s' := swap_face_indices a b s in
  cells s' = map (map (swap_half a b)) (cells s) /\
  (ebu s = true -> inc_hfs s' = map (map (swap_half a b)) (inc_hfs s)) /\
  (fbu s = true -> inc_cell s' = swap_nth (2 * a + 1) (2 * b + 1) None (swap_nth (2 * a) (2 * b) None (inc_cell s))) /\
  s' = face_relabeled a b s /\
  (* = the linear-scan result (both incidence kinds off) with the two caches relabeled and the flags put back *)
  s' = set_flags (vbu s) (ebu s) (fbu s) (deferred s) (fast s)
         (set_inc_cell (inc_cell (face_relabeled a b s))
           (set_inc_hfs (inc_hfs (face_relabeled a b s)) (swap_face_indices a b (caches_off_f s)))).
Proof. exact swap_face_exact_summary. Qed.
Print Assumptions C17_swap_face_is_the_exact_relabeling_in_every_mode.

Theorem C17_swap_edge_is_the_exact_relabeling_in_every_mode : forall a b s, a <> b -> a < ne s -> b < ne s ->
  ebu_ok s -> vbu_ok s -> lens_ok s ->
  (forall f, f < nf s -> f_deleted s f = true -> forall h, In h (face_at s f) -> h / 2 <> a /\ h / 2 <> b) ->
  let s' := swap_edge_indices a b s in
  faces s' = map (map (swap_half a b)) (faces s) /\
  (vbu s = true -> out_hes s' = map (map (swap_half a b)) (out_hes s)) /\
  (ebu s = true -> inc_hfs s' = swap_nth (2 * a + 1) (2 * b + 1) [] (swap_nth (2 * a) (2 * b) [] (inc_hfs s))) /\
  s' = edge_relabeled a b s /\
  s' = set_flags (vbu s) (ebu s) (fbu s) (deferred s) (fast s)
         (set_inc_hfs (inc_hfs (edge_relabeled a b s))
           (set_out_hes (out_hes (edge_relabeled a b s)) (swap_edge_indices a b (caches_off_e s)))).
Proof. exact swap_edge_exact_summary. Qed.
Print Assumptions C17_swap_edge_is_the_exact_relabeling_in_every_mode.

Theorem C17_swap_vertex_is_the_exact_relabeling_in_every_mode : forall a b s, a <> b -> a < nv s -> b < nv s ->
  vbu_ok s ->
  (forall e, e < ne s -> e_deleted s e = true ->
     ~ (fst (edge_at s e) = a \/ fst (edge_at s e) = b \/ snd (edge_at s e) = a \/ snd (edge_at s e) = b)) ->
  let s' := swap_vertex_indices a b s in
  edges s' = map (swap_ends a b) (edges s) /\
  (vbu s = true -> out_hes s' = swap_nth a b [] (out_hes s)) /\
  s' = vertex_relabeled a b s /\
  s' = set_flags (vbu s) (ebu s) (fbu s) (deferred s) (fast s)
         (set_out_hes (out_hes (vertex_relabeled a b s)) (swap_vertex_indices a b (caches_off_v s))).
Proof. exact swap_vertex_exact_summary. Qed.
Print Assumptions C17_swap_vertex_is_the_exact_relabeling_in_every_mode.

(* the hypotheses above are not only sufficient: with NO assumption on the state, each cache-guided loop yields the relabeled
   array EXACTLY WHEN every entity whose definition mentions a or b is found through the cache (cells_found / faces_found /
   edges_found) resp. every cache list naming a half-handle of a or b belongs to a walked slot (hfs_sound / out_sound).
   D13 is the failure of the "found" side for a deferred-deleted entity. *)
Theorem C17_swap_relabels_exactly_when_every_referrer_is_found : forall a b s, a <> b ->
  (fbu s = true -> (cells (swap_face_indices a b s) = map (map (swap_half a b)) (cells s) <-> cells_found s a b)) /\
  (ebu s = true -> (inc_hfs (swap_face_indices a b s) = map (map (swap_half a b)) (inc_hfs s) <-> hfs_sound s a b)) /\
  (ebu s = true -> (faces (swap_edge_indices a b s) = map (map (swap_half a b)) (faces s) <-> faces_found s a b)) /\
  (vbu s = true -> (out_hes (swap_edge_indices a b s) = map (map (swap_half a b)) (out_hes s) <-> out_sound s a b)) /\
  (vbu s = true -> (edges (swap_vertex_indices a b s) = map (swap_ends a b) (edges s) <-> edges_found s a b)).
Proof.
  intros a b s N. destruct (swap_face_exactly_when a b s N) as [F1 F2]. destruct (swap_edge_exactly_when a b s N) as [E1 E2].
  exact (conj F1 (conj F2 (conj E1 (conj E2 (swap_vertex_exactly_when a b s N))))).
Qed.
Print Assumptions C17_swap_relabels_exactly_when_every_referrer_is_found.

(* swapping twice restores the EXACT state - every component - in EVERY mode (any subset of incidence kinds, deferred-deleted
   entities present), in every reachable state with exact caches in which no deferred-deleted entity mentions a or b.
   (The conditions are re-established by the first swap: cells_found_preserved, hfs_sound_preserved, faces_found_preserved,
   out_sound_preserved, edges_found_preserved.) *)
Theorem C17_swap_twice_restores_the_exact_state_in_every_mode : forall ops a b, let s := run ops in
  vbu_ok s -> ebu_ok s -> fbu_ok s -> lens_ok s ->
  (a < nf s -> b < nf s -> no_deleted_cell_lists s a b -> swap_face_indices a b (swap_face_indices a b s) = s) /\
  (a < ne s -> b < ne s -> no_deleted_face_lists s a b -> swap_edge_indices a b (swap_edge_indices a b s) = s) /\
  (a < nv s -> b < nv s -> no_deleted_edge_at s a b -> swap_vertex_indices a b (swap_vertex_indices a b s) = s) /\
  (a < nc s -> b < nc s -> swap_cell_indices a b (swap_cell_indices a b s) = s).
Proof.
  intros ops a b s VO EO FO L. pose proof (sized_reachable ops) as Z. fold s in Z. repeat split.
  - intros Ha Hb HD. exact (swap_face_exact_involutive a b s Z Ha Hb FO EO L HD).
  - intros Ha Hb HD. exact (swap_edge_exact_involutive a b s Z Ha Hb EO VO L HD).
  - intros Ha Hb HD. exact (swap_vertex_exact_involutive a b s Z Ha Hb VO L HD).
  - intros Ha Hb. apply (swap_cell_involutive_every_mode a b s Z Ha Hb). intros F.
    destruct L as (_ & _ & L3 & _). split; apply cell_entries_sound_of_exact; auto.
Qed.
Print Assumptions C17_swap_twice_restores_the_exact_state_in_every_mode.

(* the same under the weakest conditions (those of C17_swap_relabels_exactly_when_every_referrer_is_found + cache lengths) *)
Theorem C17_swap_twice_restores_the_exact_state_when_every_referrer_is_found : forall ops a b, let s := run ops in
  (a < nf s -> b < nf s -> (fbu s = true -> cells_found s a b /\ length (inc_cell s) = 2 * nf s) -> (ebu s = true -> hfs_sound s a b) ->
   swap_face_indices a b (swap_face_indices a b s) = s) /\
  (a < ne s -> b < ne s -> (ebu s = true -> faces_found s a b /\ length (inc_hfs s) = 2 * ne s) -> (vbu s = true -> out_sound s a b) ->
   swap_edge_indices a b (swap_edge_indices a b s) = s) /\
  (a < nv s -> b < nv s -> (vbu s = true -> edges_found s a b /\ length (out_hes s) = nv s) ->
   swap_vertex_indices a b (swap_vertex_indices a b s) = s).
Proof.
  intros ops a b s. pose proof (sized_reachable ops) as Z. fold s in Z. repeat split.
  - intros. apply swap_face_involutive_every_mode; assumption.
  - intros. apply swap_edge_involutive_every_mode; assumption.
  - intros. apply swap_vertex_involutive_every_mode; assumption.
Qed.
Print Assumptions C17_swap_twice_restores_the_exact_state_when_every_referrer_is_found.

(* and the swapped state again has exact caches (the invariant bu_inv of C01: vbu_ok, ebu_ok, fbu_ok, refs_ok, lens_ok), so swaps
   can be chained and mixed with the other operations that preserve it *)
Theorem C17_swaps_keep_the_caches_exact : forall a b s, bu_inv s ->
  (a < nf s -> b < nf s -> no_deleted_cell_lists s a b -> bu_inv (swap_face_indices a b s)) /\
  (a < ne s -> b < ne s -> no_deleted_face_lists s a b -> bu_inv (swap_edge_indices a b s)) /\
  (a < nv s -> b < nv s -> no_deleted_edge_at s a b -> bu_inv (swap_vertex_indices a b s)).
Proof.
  intros a b s B. split; [|split]; intros Ha Hb HD.
  - exact (bu_inv_swap_face a b s Ha Hb B HD).
  - exact (bu_inv_swap_edge a b s Ha Hb B HD).
  - exact (bu_inv_swap_vertex a b s Ha Hb B HD).
Qed.
Print Assumptions C17_swaps_keep_the_caches_exact.

(* ---- non-vacuity.  Two tetrahedra sharing face 3, ALL incidence kinds on, deferred deletion on, properties present. *)
Definition C17_two_tets : list op :=
  [AddVertices 5; AddFaceV [0; 1; 2]; AddFaceV [0; 2; 3]; AddFaceV [0; 3; 1]; AddFaceV [1; 3; 2];
   AddFaceV [1; 2; 4]; AddFaceV [2; 3; 4]; AddFaceV [3; 1; 4]; AddCell [0; 2; 4; 6] false; AddCell [7; 8; 10; 12] false;
   PropCreate KHF 7%Z; PropSet KHF 0 3 9%Z; PropCreate KHE 1%Z; PropSet KHE 0 5 4%Z; PropCreate KV 0%Z; PropSet KV 0 2 8%Z].

Ltac c17_vm := vm_compute; reflexivity.
Ltac c17_example :=
  cbv zeta; repeat match goal with |- _ /\ _ => split end;
  match goal with
  | |- cells_found _ _ _ => apply cells_foundb_sound; c17_vm
  | |- hfs_sound _ _ _ => apply hfs_soundb_sound; c17_vm
  | |- faces_found _ _ _ => apply faces_foundb_sound; c17_vm
  | |- out_sound _ _ _ => apply out_soundb_sound; c17_vm
  | |- edges_found _ _ _ => apply edges_foundb_sound; c17_vm
  | |- no_deleted_cell_lists _ _ _ => apply no_deleted_cell_listsb_sound; c17_vm
  | |- no_deleted_face_lists _ _ _ => apply no_deleted_face_listsb_sound; c17_vm
  | |- no_deleted_edge_at _ _ _ => apply no_deleted_edge_atb_sound; c17_vm
  | |- _ <> _ => let H := fresh in intros H; vm_compute in H; discriminate H
  | |- _ < _ => vm_compute; repeat constructor
  | |- _ = _ => c17_vm
  | _ => idtac
  end.

(* faces: cell 1 is deferred-DELETED (it stays in the arrays); swapping two faces of the live cell that share an edge *)
Example C17_face_swap_with_a_deleted_cell_present :
  let s := run (C17_two_tets ++ [DelCell 1]) in
  vbu s = true /\ ebu s = true /\ fbu s = true /\ deferred s = true /\ ndc s = 1 /\ nc s = 2 /\ 0 < nf s /\ 1 < nf s /\
  cells_found s 0 1 /\ hfs_sound s 0 1 /\ length (inc_cell s) = 2 * nf s /\
  swap_face_indices 0 1 s = face_relabeled 0 1 s /\ swap_face_indices 0 1 s <> s /\
  swap_face_indices 0 1 (swap_face_indices 0 1 s) = s /\
  (* nothing deleted: the shared face 3 and face 5 of the other cell *)
  cells_found (run C17_two_tets) 3 5 /\ hfs_sound (run C17_two_tets) 3 5 /\
  swap_face_indices 3 5 (run C17_two_tets) = face_relabeled 3 5 (run C17_two_tets) /\
  (* and the condition is sharp: the deleted cell lists face 3, the cache cannot find it (D13) *)
  cells_foundb s 0 3 = false /\ cells (swap_face_indices 0 3 s) <> map (map (swap_half 0 3)) (cells s).
Proof. c17_example. Qed.

(* edges: face 5 (and with it cell 1) deferred-deleted; edges 0 and 1 are not on face 5 and share vertex 1 *)
Example C17_edge_swap_with_a_deleted_face_present :
  let s := run (C17_two_tets ++ [DelFace 5]) in
  vbu s = true /\ ebu s = true /\ fbu s = true /\ ndf s = 1 /\ ndc s = 1 /\ 0 < ne s /\ 1 < ne s /\
  faces_found s 0 1 /\ out_sound s 0 1 /\ length (inc_hfs s) = 2 * ne s /\
  swap_edge_indices 0 1 s = edge_relabeled 0 1 s /\ swap_edge_indices 0 1 s <> s /\
  swap_edge_indices 0 1 (swap_edge_indices 0 1 s) = s /\
  faces_found (run C17_two_tets) 0 8 /\ out_sound (run C17_two_tets) 0 8 /\
  swap_edge_indices 0 8 (run C17_two_tets) = edge_relabeled 0 8 (run C17_two_tets) /\
  (* sharp: the deleted face 5 lists edge 8 *)
  faces_foundb s 0 8 = false /\ faces (swap_edge_indices 0 8 s) <> map (map (swap_half 0 8)) (faces s).
Proof. c17_example. Qed.

(* vertices: edge 8 = (3,4) (with its faces and cell 1) deferred-deleted; vertices 0 and 1 are joined by edge 0 *)
Example C17_vertex_swap_with_a_deleted_edge_present :
  let s := run (C17_two_tets ++ [DelEdge 8]) in
  vbu s = true /\ nde s = 1 /\ 0 < nv s /\ 1 < nv s /\
  edges_found s 0 1 /\ length (out_hes s) = nv s /\
  swap_vertex_indices 0 1 s = vertex_relabeled 0 1 s /\ swap_vertex_indices 0 1 s <> s /\
  swap_vertex_indices 0 1 (swap_vertex_indices 0 1 s) = s /\
  edges_found (run C17_two_tets) 0 4 /\
  swap_vertex_indices 0 4 (run C17_two_tets) = vertex_relabeled 0 4 (run C17_two_tets) /\
  (* sharp: the deleted edge 8 ends at vertex 4 *)
  edges_foundb s 0 4 = false /\ edges (swap_vertex_indices 0 4 s) <> map (swap_ends 0 4) (edges s).
Proof. c17_example. Qed.

(* the exactness hypotheses of the *_in_every_mode theorems are satisfiable: every growth history (C01) satisfies them *)
Example C17_exactness_hypotheses_are_satisfiable :
  let s := run [AddVertices 5; AddFaceV [0; 1; 2]; AddFaceV [0; 2; 3]; AddFaceV [0; 3; 1]; AddFaceV [1; 3; 2];
                AddFaceV [1; 2; 4]; AddFaceV [2; 3; 4]; AddFaceV [3; 1; 4]] in
  vbu_ok s /\ ebu_ok s /\ fbu_ok s /\ lens_ok s /\ vbu s = true /\ ebu s = true /\ fbu s = true /\
  3 < nf s /\ 5 < nf s /\ no_deleted_cell_lists s 3 5 /\
  0 < ne s /\ 8 < ne s /\ no_deleted_face_lists s 0 8 /\
  0 < nv s /\ 4 < nv s /\ no_deleted_edge_at s 0 4 /\
  swap_face_indices 3 5 s <> s /\ swap_edge_indices 0 8 s <> s /\ swap_vertex_indices 0 4 s <> s.
Proof.
  cbv zeta. match goal with |- vbu_ok ?s /\ _ => assert (B : bu_inv s) by (apply bu_inv_growth_histories; vm_compute; reflexivity) end.
  destruct B as (VO & EO & FO & R & L). c17_example; assumption.
Qed.

(* non-vacuity of the scan-mode theorem: a reachable state with incidences off, entities of every kind, properties *)
Example C17_scan_state_exists :
  let s := run [EnableVBU false; EnableEBU false; EnableFBU false; AddVertices 4; AddFaceV [0; 1; 2]; AddFaceV [0; 2; 3];
                AddFaceV [0; 3; 1]; AddFaceV [1; 3; 2]; AddCell [0; 2; 4; 6] false; AddCell [1; 3; 5; 7] false;
                PropCreate KHF 7%Z; PropSet KHF 0 3 9%Z] in
  fbu s = false /\ ebu s = false /\ vbu s = false /\ nc s = 2 /\ nf s = 4 /\
  swap_face_indices 1 3 (swap_face_indices 1 3 s) = s /\ swap_face_indices 1 3 s <> s.
Proof. vm_compute. repeat split. intros H. discriminate H. Qed.
