(* Props/Properties_C17.v -- C17: index swaps are pure relabelings. *)
From Coq Require Import ZArith List Arith.
From OVM Require Import Base.ListX Kernel.State Kernel.Ops Kernel.SwapEffects Kernel.SwapInvol Kernel.Sizes Kernel.SwapCellCache.
Import ListNotations.

Theorem C17_swapping_a_handle_with_itself_is_a_noop : forall a s,
  swap_vertex_indices a a s = s /\ swap_edge_indices a a s = s /\ swap_face_indices a a s = s /\ swap_cell_indices a a s = s.
Proof. intros a s. exact (conj (swap_vertex_self a s) (conj (swap_edge_self a s) (conj (swap_face_self a s) (swap_cell_self a s)))). Qed.
Print Assumptions C17_swapping_a_handle_with_itself_is_a_noop.

(* In EVERY mode (any incidence subset, deferred or not): the own definition array, the deletion flags and every property
   of the kind (and of the half-kind, pairwise, side by side) are exchanged at the two slots; nothing of any other kind changes;
   with the consulted incidence kind off, the referring definitions are exactly the relabeled ones. *)
Theorem C17_swap_cell_exchanges_exactly_the_two_slots : forall a b s, a <> b -> let s' := swap_cell_indices a b s in
  cells s' = swap_nth a b [] (cells s) /\ cdel s' = swap_nth a b false (cdel s) /\ pc s' = map (pswap a b) (pc s) /\
  nv s' = nv s /\ edges s' = edges s /\ faces s' = faces s /\ vdel s' = vdel s /\ edel s' = edel s /\ fdel s' = fdel s /\
  out_hes s' = out_hes s /\ inc_hfs s' = inc_hfs s /\
  pv s' = pv s /\ pe s' = pe s /\ phe s' = phe s /\ pf s' = pf s /\ phf s' = phf s /\ pm s' = pm s /\
  (ndv s' = ndv s /\ nde s' = nde s /\ ndf s' = ndf s /\ ndc s' = ndc s) /\
  (vbu s' = vbu s /\ ebu s' = ebu s /\ fbu s' = fbu s /\ deferred s' = deferred s /\ fast s' = fast s) /\
  (fbu s = false -> inc_cell s' = inc_cell s).
Proof. exact swap_cell_effect. Qed.
Print Assumptions C17_swap_cell_exchanges_exactly_the_two_slots.

Theorem C17_swap_face_exchanges_exactly_the_two_slots : forall a b s, a <> b -> let s' := swap_face_indices a b s in
  faces s' = swap_nth a b [] (faces s) /\ fdel s' = swap_nth a b false (fdel s) /\
  pf s' = map (pswap a b) (pf s) /\ phf s' = half_swap_props a b (phf s) /\
  nv s' = nv s /\ edges s' = edges s /\ vdel s' = vdel s /\ edel s' = edel s /\ cdel s' = cdel s /\
  out_hes s' = out_hes s /\
  pv s' = pv s /\ pe s' = pe s /\ phe s' = phe s /\ pc s' = pc s /\ pm s' = pm s /\
  (ndv s' = ndv s /\ nde s' = nde s /\ ndf s' = ndf s /\ ndc s' = ndc s) /\
  (vbu s' = vbu s /\ ebu s' = ebu s /\ fbu s' = fbu s /\ deferred s' = deferred s /\ fast s' = fast s) /\
  (fbu s = false -> cells s' = map (map (swap_half a b)) (cells s) /\ inc_cell s' = inc_cell s) /\
  (ebu s = false -> inc_hfs s' = inc_hfs s).
Proof. exact swap_face_effect. Qed.
Print Assumptions C17_swap_face_exchanges_exactly_the_two_slots.

Theorem C17_swap_edge_exchanges_exactly_the_two_slots : forall a b s, a <> b -> let s' := swap_edge_indices a b s in
  edges s' = swap_nth a b (0, 0) (edges s) /\ edel s' = swap_nth a b false (edel s) /\
  pe s' = map (pswap a b) (pe s) /\ phe s' = half_swap_props a b (phe s) /\
  nv s' = nv s /\ cells s' = cells s /\ vdel s' = vdel s /\ fdel s' = fdel s /\ cdel s' = cdel s /\
  inc_cell s' = inc_cell s /\
  pv s' = pv s /\ pf s' = pf s /\ phf s' = phf s /\ pc s' = pc s /\ pm s' = pm s /\
  (ndv s' = ndv s /\ nde s' = nde s /\ ndf s' = ndf s /\ ndc s' = ndc s) /\
  (vbu s' = vbu s /\ ebu s' = ebu s /\ fbu s' = fbu s /\ deferred s' = deferred s /\ fast s' = fast s) /\
  (ebu s = false -> faces s' = map (map (swap_half a b)) (faces s) /\ inc_hfs s' = inc_hfs s) /\
  (vbu s = false -> out_hes s' = out_hes s).
Proof. exact swap_edge_effect. Qed.
Print Assumptions C17_swap_edge_exchanges_exactly_the_two_slots.

Theorem C17_swap_vertex_exchanges_exactly_the_two_slots : forall a b s, a <> b -> let s' := swap_vertex_indices a b s in
  nv s' = nv s /\ vdel s' = swap_nth a b false (vdel s) /\ pv s' = map (pswap a b) (pv s) /\
  faces s' = faces s /\ cells s' = cells s /\ edel s' = edel s /\ fdel s' = fdel s /\ cdel s' = cdel s /\
  inc_hfs s' = inc_hfs s /\ inc_cell s' = inc_cell s /\
  pe s' = pe s /\ phe s' = phe s /\ pf s' = pf s /\ phf s' = phf s /\ pc s' = pc s /\ pm s' = pm s /\
  (ndv s' = ndv s /\ nde s' = nde s /\ ndf s' = ndf s /\ ndc s' = ndc s) /\
  (vbu s' = vbu s /\ ebu s' = ebu s /\ fbu s' = fbu s /\ deferred s' = deferred s /\ fast s' = fast s) /\
  (vbu s = false -> edges s' = map (swap_ends a b) (edges s) /\ out_hes s' = out_hes s).
Proof. exact swap_vertex_effect. Qed.
Print Assumptions C17_swap_vertex_exchanges_exactly_the_two_slots.

(* applying the same swap twice restores the EXACT original state - every component - in every reachable state
   (any history) in which the incidence kinds the swap consults are off (the linear-scan implementation) *)
Theorem C17_swap_twice_restores_the_exact_state_scan : forall ops a b, let s := run ops in
  (fbu s = false -> a < nc s -> b < nc s -> swap_cell_indices a b (swap_cell_indices a b s) = s) /\
  (fbu s = false -> ebu s = false -> a < nf s -> b < nf s -> swap_face_indices a b (swap_face_indices a b s) = s) /\
  (ebu s = false -> vbu s = false -> a < ne s -> b < ne s -> swap_edge_indices a b (swap_edge_indices a b s) = s) /\
  (vbu s = false -> a < nv s -> b < nv s -> swap_vertex_indices a b (swap_vertex_indices a b s) = s).
Proof.
  intros ops a b s. pose proof (sized_reachable ops) as Z. fold s in Z. repeat split.
  - intros. apply swap_cell_scan_involutive; assumption.
  - intros. apply swap_face_scan_involutive; assumption.
  - intros. apply swap_edge_scan_involutive; assumption.
  - intros. apply swap_vertex_scan_involutive; assumption.
Qed.
Print Assumptions C17_swap_twice_restores_the_exact_state_scan.

(* cells, EVERY mode (face incidences on or off, deferred-deleted cells present, a live cell sitting on the halffaces of a deleted one):
   the incident-cell cache after the swap is exactly the relabeled cache, and swapping twice restores the exact state, in every
   reachable state whose cache entries for the two cells are sound.  (The unrepaired code refuted this: defect D16, fixed in /repo.) *)
Theorem C17_swap_cell_relabels_the_incidence_cache_in_every_mode : forall a b s, a <> b -> fbu s = true ->
  cell_entries_sound s a -> cell_entries_sound s b ->
  inc_cell (swap_cell_indices a b s) = map (option_map (swap_idx a b)) (inc_cell s).
Proof. exact swap_cell_cache_relabeled. Qed.
Print Assumptions C17_swap_cell_relabels_the_incidence_cache_in_every_mode.

Theorem C17_swap_cell_twice_restores_the_exact_state_in_every_mode : forall ops a b, let s := run ops in
  a < nc s -> b < nc s -> (fbu s = true -> cell_entries_sound s a /\ cell_entries_sound s b) ->
  swap_cell_indices a b (swap_cell_indices a b s) = s.
Proof. intros ops a b s Ha Hb S. exact (swap_cell_involutive_every_mode a b s (sized_reachable ops) Ha Hb S). Qed.
Print Assumptions C17_swap_cell_twice_restores_the_exact_state_in_every_mode.

(* FULL STATEMENT (not provable of the faithful model, see _refuted below):
     forall reachable s, a b in range:  swap_k a b s = relabel k (transposition a b) s   in every mode.
   With incidences ON the implementation finds the referring entities through the caches, and the caches do not list
   deferred-deleted entities: the stored definition of a deleted cell that mentions a swapped face is left stale
   (KNOWN_FINDINGS D13).  The witness below is replayed on the real library by corpus/kernel/known-findings.scripts. *)
Theorem C17_relabel_of_deleted_definitions_refuted : exists ops a b,
  let s := run ops in
  a < nf s /\ b < nf s /\ fbu s = true /\
  cells (swap_face_indices a b s) <> map (map (swap_half a b)) (cells s) /\
  cells (swap_face_indices a b (enable_fbu false s)) = map (map (swap_half a b)) (cells s).
Proof.
  exists [AddVertices 4; AddFaceV [0; 1; 2]; AddFaceV [0; 2; 3]; AddFaceV [0; 3; 1]; AddFaceV [1; 3; 2];
          AddCell [0; 2; 4; 6] false; DelCell 0], 0, 3.
  vm_compute. repeat split; try (repeat constructor); intros H; discriminate H.
Qed.
Print Assumptions C17_relabel_of_deleted_definitions_refuted.

(* non-vacuity of the scan-mode theorem: a reachable state with incidences off, entities of every kind, properties *)
Example C17_scan_state_exists :
  let s := run [EnableVBU false; EnableEBU false; EnableFBU false; AddVertices 4; AddFaceV [0; 1; 2]; AddFaceV [0; 2; 3];
                AddFaceV [0; 3; 1]; AddFaceV [1; 3; 2]; AddCell [0; 2; 4; 6] false; AddCell [1; 3; 5; 7] false;
                PropCreate KHF 7%Z; PropSet KHF 0 3 9%Z] in
  fbu s = false /\ ebu s = false /\ vbu s = false /\ nc s = 2 /\ nf s = 4 /\
  swap_face_indices 1 3 (swap_face_indices 1 3 s) = s /\ swap_face_indices 1 3 s <> s.
Proof. vm_compute. repeat split. intros H. discriminate H. Qed.
