(* Props/Properties_C15_C16_created.v -- C15 / C16: the cells CREATED FROM VERTICES (add_cell(eight vertices) of the hexahedral kernel,
   both add_cell(four vertices) forms of the tetrahedral kernel), the cells ACCEPTED by the topology-checked tet add_cell(halffaces), and
   the invariant after collapse_edge.  Statements only; every proof is `exact <lemma>` (lemmas: Mesh/TH3*.v); Print Assumptions under each
   theorem; `Example`s show that the hypotheses are satisfiable.

   THE HYPOTHESIS  cre_inv s  (Mesh/TH3Base.v) = bu_inv s  (Kernel/ExactInv.v: exact caches, stored handles of live entities in range)
                                             /\ faces_loop s        (every live face is a closed loop of halfedges)
                                             /\ face_edges_live s   (the halfedges of live faces are live)
                                             /\ TH3Base.no_par s            (no two live edges join the same pair of vertices).
   The first three hold in every state of the history class of C01 / C08 (C16_hypothesis_from_the_history_invariant: full_inv + faces_closed);
   TH3Base.no_par is the one extra condition: add_cell(vertices) looks every edge up BY ITS END VERTICES (find_halfedge / add_edge without
   duplicates), parallel edges (legal: add_edge(a, b, true)) make a face found on one edge and a face created on the other fall apart.
   Each part is needed (`_refuted` theorems with computed witnesses, replayed on the real library: build/th3/hexv.scripts,
   build/th3tet/w*.scripts); cre_inv, closed faces and TH3Base.no_par hold again after the call (C16_created_cell_keeps_the_history_invariant).

   1. C16: every cell created by add_cell(eight pairwise distinct vertices), with or without topology check, satisfies hex_cell_wf_b and
      passes check_halfface_ordering (which this form of add_cell never runs): x-front ... z-back convention, cube pattern of
      hex_vertices, and hex_vertices returns EXACTLY the eight given vertices rotated about the first axis by j = the position of the
      vertex at which the first halfface's stored halfedge list starts (hexv_rot; j = 3 when the call creates that face, the stored
      rotation of a face found in the mesh otherwise).
   2. C15: every cell created by add_cell(vertices) (vector form and four-handle form) from four pairwise distinct vertices is
      tet_cell_ok_b / tet_cell_inc_b / tet_wf: all query theorems apply; get_cell_vertices(cell) = the first face's stored rotation of
      (v0, v1, v2), then v3.
   3. C15: the topology-CHECKED add_cell(halffaces) on closed triangles with three distinct vertices: every accepted cell is a well-formed
      tetrahedron (since the fix 814053a; before it two "pillows" on four vertices over a parallel edge were accepted - the defect was
      found by this proof attempt; regression Examples).
   4. C15: collapse_edge(a -> b) in deferred mode under collapse_ready and link_ok (Mesh/TH3ColMain.v; decidable: link_ok_b) - on the state
      BEFORE the call: (1) no two live halfedges with the same ends among the image vertex pairs (follows from TH3Base.no_par), (2) every rebuilt
      tet tet-like (no two halffaces share a directed edge or are mirror images), (3) halffaces of rebuilt tets on pairwise different
      vertex cycles, (4) THE LINK CONDITION: a live halfface on an image cycle is free or belongs to a cell of the star of a -
      the result satisfies bu_inv2, szd, gc_ready, Hinv and full_inv again (histories continue; C15_collapse_immediate_slow/_fast hold
      without their gc_ready hypothesis).  (1) and (4) are needed (`_refuted`, the parallel-edge witness replayed on the library). *)
From Coq Require Import ZArith List Arith Bool.
From OVM Require Import Base.ListX Base.ListLemmas Kernel.State Kernel.Ops Kernel.Closure Kernel.ExactInv Kernel2.ExactBase
                        Kernel3.GcDefs Kernel4.AllDefs
                        Mesh.TetModel Mesh.TetTopoModel Mesh.TetProofs Mesh.HexModel Mesh.HexIterModel Mesh.HexProofs
                        Mesh.TH2CollapseBase Mesh.TH2CollapseLoop Mesh.TH2TopoWf Mesh.TH2HexBase Mesh.TH2HexFrame Mesh.TH2HexMain
                        Mesh.TH3Base Mesh.TH3HexQuad Mesh.TH3HexCube Mesh.TH3HexMain Mesh.TH3HexVerts Mesh.TH3HexSummary Mesh.TH3HexAccept
                        Mesh.TH3HexHist Mesh.TH3HexEx Mesh.TH3HexBlocks
                        Mesh.TH3TetFound Mesh.TH3TetCell Mesh.TH3TetMain Mesh.TH3TetAccept Mesh.TH3TetChecked Mesh.TH3TetEx
                        Mesh.TH3TetFourBase Mesh.TH3TetFour Mesh.TH3TetTopo Mesh.TH3TetHist
                        Kernel.Sizes Kernel.ShiftFace Kernel3.GcHist Kernel3.GcFastChain Mesh.TH2CollapseMain Mesh.TH2CollapseStar Mesh.TH2CollapseFinal Mesh.TH2CollapseEx
                        Mesh.TH3ColBase Mesh.TH3ColLoop Mesh.TH3ColReadd Mesh.TH3ColMain Mesh.TH3ColFinal Mesh.TH3ColBridge.
Import ListNotations.
Local Open Scope nat_scope.

(* ================================================================== 0. the hypothesis *)

Theorem C16_hypothesis_from_the_history_invariant : forall s, full_inv s -> faces_closed s -> TH3Base.no_par s -> cre_inv s.
Proof. exact cre_inv_of_full_inv. Qed.
Print Assumptions C16_hypothesis_from_the_history_invariant.

Theorem C16_hypothesis_checker_sound : forall s, TH3HexEx.cre_inv_b s = true -> cre_inv s.
Proof. exact TH3HexEx.cre_inv_b_sound. Qed.
Print Assumptions C16_hypothesis_checker_sound.

(* under TH3Base.no_par a live halfedge with distinct ends is determined by its ends *)
Theorem C16_no_parallel_edges_halfedge_by_ends : forall s h h', TH3Base.no_par s -> live_he_p s h -> live_he_p s h' ->
  he_from s h = he_from s h' -> he_to s h = he_to s h' -> he_from s h <> he_to s h -> h = h'.
Proof. exact he_unique. Qed.
Print Assumptions C16_no_parallel_edges_halfedge_by_ends.

(* ================================================================== 1. C16: add_cell(eight vertices) *)

(* the created cell: six live halffaces on the six quads of the convention, in convention order (hf_on s' h q: h is a live halfface whose
   vertex cycle is a rotation of q); well formed; ordered *)
Theorem C16_created_cell_is_well_formed_and_ordered : forall s s' a0 a1 a2 a3 a4 a5 a6 a7 chk c,
  cre_inv s -> NoDup [a0; a1; a2; a3; a4; a5; a6; a7] -> (forall v, In v [a0; a1; a2; a3; a4; a5; a6; a7] -> v < nv s) ->
  hex_add_cell_v s [a0; a1; a2; a3; a4; a5; a6; a7] chk = (s', Some c) ->
  exists h0 h1 h2 h3 h4 h5,
    c = nc s /\ nc s' = S (nc s) /\ cell_at s' c = [h0; h1; h2; h3; h4; h5] /\
    hf_on s' h0 [a3; a2; a1; a0] /\ hf_on s' h1 [a7; a6; a5; a4] /\ hf_on s' h2 [a1; a2; a6; a7] /\
    hf_on s' h3 [a4; a5; a3; a0] /\ hf_on s' h4 [a1; a7; a4; a0] /\ hf_on s' h5 [a2; a3; a5; a6] /\
    (find_halfface_extensive s [a3; a2; a1; a0] = None -> hf_vertices s' h0 = [a3; a2; a1; a0]) /\
    hex_cell_wf_b s' c = true /\ check_halfface_ordering s' [h0; h1; h2; h3; h4; h5] = true /\
    TH3Base.no_par s' /\ faces_loop s' /\ face_edges_live s'.
Proof. exact created_cell. Qed.
Print Assumptions C16_created_cell_is_well_formed_and_ordered.

(* hence C16_hex_vertices_cube_pattern / C16_hex_cell_layout / C16_hex_opposite_faces_vertex_disjoint apply to it without hypotheses on the cell *)
Theorem C16_created_cell_is_a_cube_in_the_documented_layout : forall s s' a0 a1 a2 a3 a4 a5 a6 a7 chk c,
  hex_shape s -> cre_inv s -> NoDup [a0; a1; a2; a3; a4; a5; a6; a7] -> (forall v, In v [a0; a1; a2; a3; a4; a5; a6; a7] -> v < nv s) ->
  hex_add_cell_v s [a0; a1; a2; a3; a4; a5; a6; a7] chk = (s', Some c) ->
  c = nc s /\ c < nc s' /\ hex_shape s' /\
  hex_cell_wf_b s' c = true /\ check_halfface_ordering s' (cell_at s' c) = true /\
  hex_cube_pattern s' c /\ hex_layout s' (cell_at s' c) = true /\
  (let l := cell_at s' c in
   disjointb (hf_vertices s' (hx l 0)) (hf_vertices s' (hx l 1)) = true /\
   disjointb (hf_vertices s' (hx l 2)) (hf_vertices s' (hx l 3)) = true /\
   disjointb (hf_vertices s' (hx l 4)) (hf_vertices s' (hx l 5)) = true).
Proof. exact created_cell_is_a_cube. Qed.
Print Assumptions C16_created_cell_is_a_cube_in_the_documented_layout.

(* hex_vertices of the new cell: exactly the given vertices, rotated about the first axis;
     hexv_rot 0 vs = v0 v1 v2 v3 v4 v5 v6 v7     hexv_rot 1 vs = v1 v2 v3 v0 v7 v4 v5 v6
     hexv_rot 2 vs = v2 v3 v0 v1 v6 v7 v4 v5     hexv_rot 3 vs = v3 v0 v1 v2 v5 v6 v7 v4
   j is the position of the vertex at which the first halfface's stored vertex list starts; 3 when the call creates that face *)
Theorem C16_created_cell_hex_vertices_are_the_given_vertices : forall s s' a0 a1 a2 a3 a4 a5 a6 a7 chk c,
  hex_shape s -> cre_inv s -> NoDup [a0; a1; a2; a3; a4; a5; a6; a7] -> (forall v, In v [a0; a1; a2; a3; a4; a5; a6; a7] -> v < nv s) ->
  hex_add_cell_v s [a0; a1; a2; a3; a4; a5; a6; a7] chk = (s', Some c) ->
  exists j, j < 4 /\ hex_vertices s' c = Some (hexv_rot j [a0; a1; a2; a3; a4; a5; a6; a7]) /\
    hd_error (hf_vertices s' (hx (cell_at s' c) 0)) = Some (nth j [a0; a1; a2; a3; a4; a5; a6; a7] 0) /\
    (find_halfface_extensive s [a3; a2; a1; a0] = None -> j = 3).
Proof. exact created_hex_vertices. Qed.
Print Assumptions C16_created_cell_hex_vertices_are_the_given_vertices.

Example C16_the_four_rotations :
  hexv_rot 0 [0; 1; 2; 3; 4; 5; 6; 7] = [0; 1; 2; 3; 4; 5; 6; 7] /\ hexv_rot 1 [0; 1; 2; 3; 4; 5; 6; 7] = [1; 2; 3; 0; 7; 4; 5; 6] /\
  hexv_rot 2 [0; 1; 2; 3; 4; 5; 6; 7] = [2; 3; 0; 1; 6; 7; 4; 5] /\ hexv_rot 3 [0; 1; 2; 3; 4; 5; 6; 7] = [3; 0; 1; 2; 5; 6; 7; 4].
Proof. repeat split. Qed.

(* acceptance: the form without topology check never rejects; the checked form passes its "closed two-manifold" test (and would pass the
   base cell check) and rejects exactly when one of the six halffaces already has an incident cell *)
Theorem C16_unchecked_add_cell_from_vertices_accepts : forall s vs, full_bu s = true -> length vs = 8 ->
  exists s' c, hex_add_cell_v s vs false = (s', Some c).
Proof. exact hex_add_cell_v_unchecked_accepts. Qed.
Print Assumptions C16_unchecked_add_cell_from_vertices_accepts.

Theorem C16_checked_add_cell_from_vertices_acceptance : forall s a0 a1 a2 a3 a4 a5 a6 a7,
  let vs := [a0; a1; a2; a3; a4; a5; a6; a7] in
  cre_inv s -> NoDup vs -> (forall v, In v vs -> v < nv s) -> full_bu s = true ->
  exists s1 hfs, created_from s vs s1 hfs /\ closed_by_sets s1 hfs = true /\ cell_check s1 hfs = true /\
    if existsb (has_cell_b s1) hfs then hex_add_cell_v s vs true = (s1, None)
    else exists s', hex_add_cell_v s vs true = (s', Some (nc s)).
Proof. exact hex_add_cell_v_checked_acceptance. Qed.
Print Assumptions C16_checked_add_cell_from_vertices_acceptance.

(* histories continue: the call is a sequence of operations of the history class of C01 (add_face(vertices) of simple faces, then an
   add_cell whose cell passes the check, on free halffaces); "free" is tested by the call itself when the topology check is on *)
Theorem C16_created_cell_keeps_the_history_invariant : forall s s' a0 a1 a2 a3 a4 a5 a6 a7 chk c,
  full_inv s -> faces_closed s -> TH3Base.no_par s -> NoDup [a0; a1; a2; a3; a4; a5; a6; a7] ->
  (forall v, In v [a0; a1; a2; a3; a4; a5; a6; a7] -> live_v s v = true) ->
  hex_add_cell_v s [a0; a1; a2; a3; a4; a5; a6; a7] chk = (s', Some c) ->
  chk = true \/ (forall hf c', In hf (cell_at s' c) -> c' < c -> c_deleted s' c' = false -> ~ In hf (cell_at s' c')) ->
  full_inv s' /\ faces_closed s' /\ TH3Base.no_par s'.
Proof. exact created_cell_keeps_invariant. Qed.
Print Assumptions C16_created_cell_keeps_the_history_invariant.

(* HISTORY level: in every state of every history of add_vertex / add_vertices / topology-checked add_cell(eight vertices) calls (any
   vertex lists with valid handles - wrong lengths, repetitions and calls rejected after they added faces included) the kernel's history
   invariant, closed faces and "no parallel edges" hold and EVERY cell is a well-formed, ordered cube in the documented layout *)
Theorem C16_blocks_built_from_vertices_all_cells_are_cubes : forall ops : list bop, let s := hex_run (map bop_hop ops) in
  full_inv s /\ faces_closed s /\ TH3Base.no_par s /\ cre_inv s /\ hex_shape s /\
  forall c, c < nc s ->
    live_c s c = true /\ hex_cell_wf_b s c = true /\ check_halfface_ordering s (cell_at s c) = true /\
    hex_cube_pattern s c /\ hex_layout s (cell_at s c) = true.
Proof. exact block_cells_are_cubes. Qed.
Print Assumptions C16_blocks_built_from_vertices_all_cells_are_cubes.

Example C16_the_block_of_four_cells_is_such_a_history :
  th2_four_cells = hex_run (map bop_hop [BVertices 18; BCell [0; 1; 2; 3; 4; 5; 6; 7]; BCell [8; 9; 10; 11; 7; 1; 2; 6];
                                          BCell [12; 13; 14; 15; 2; 3; 5; 6]; BCell [9; 10; 2; 6; 16; 13; 12; 17]]) /\ nc th2_four_cells = 4.
Proof. split; [reflexivity | vm_compute; reflexivity]. Qed.

(* ---- each part of the hypothesis is needed *)

(* full statement (refuted): C16_created_cell_is_well_formed_and_ordered without TH3Base.no_par - a quad found on the second of two parallel
   edges, its neighbour created on the first: add_cell(vertices, false) stores a cell that is not closed (the checked form rejects) *)
Theorem C16_created_cell_with_parallel_edges_refuted :
  exists s vs s' c, bu_inv s /\ faces_loop s /\ face_edges_live s /\ hex_shape s /\ no_par_b s = false /\
    NoDup vs /\ (forall v, In v vs -> v < nv s) /\ hex_add_cell_v s vs false = (s', Some c) /\
    hex_cell_wf_b s' c = false /\ check_halfface_ordering s' (cell_at s' c) = false /\ hex_layout s' (cell_at s' c) = false /\
    snd (hex_add_cell_v s vs true) = None.
Proof. exact created_cell_without_no_par_refuted. Qed.
Print Assumptions C16_created_cell_with_parallel_edges_refuted.

(* ... without faces_loop - two faces added WITHOUT check that are no closed loops but have the right from-vertices (all
   find_halfface_extensive compares) and together the halfedge set of a cube: even the TOPOLOGY-CHECKED add_cell(vertices) accepts *)
Theorem C16_created_cell_with_open_faces_refuted :
  exists s vs s' c, bu_inv s /\ faces_loop_b s = false /\ face_edges_live s /\ TH3Base.no_par s /\ hex_shape s /\
    NoDup vs /\ (forall v, In v vs -> v < nv s) /\ hex_add_cell_v s vs true = (s', Some c) /\
    cell_check s' (cell_at s' c) = true /\
    hex_cell_wf_b s' c = false /\ check_halfface_ordering s' (cell_at s' c) = false /\ hex_layout s' (cell_at s' c) = false.
Proof. exact created_cell_without_faces_loop_refuted. Qed.
Print Assumptions C16_created_cell_with_open_faces_refuted.

(* ... without "pairwise distinct" (only the form without check; the checked one rejects since e0de5bf) *)
Theorem C16_created_cell_with_a_repeated_vertex_refuted :
  exists s vs s' c, cre_inv s /\ hex_shape s /\ (forall v, In v vs -> v < nv s) /\ length vs = 8 /\
    hex_add_cell_v s vs false = (s', Some c) /\ hex_cell_wf_b s' c = false /\ check_halfface_ordering s' (cell_at s' c) = false /\
    hex_vertices s' c = Some [3; 0; 1; 2; 5; 0; 7; 4] /\ snd (hex_add_cell_v s vs true) = None.
Proof. exact created_cell_without_distinct_vertices_refuted. Qed.
Print Assumptions C16_created_cell_with_a_repeated_vertex_refuted.

(* ---- non-vacuity: the fourth cell of a 2 x 2 x 1 block, created on two existing faces (its first and its last halfface are found) *)
Example C16_created_in_a_block_hypotheses_hold :
  cre_inv th3_three /\ hex_shape th3_three /\ NoDup th3_vs4 /\ (forall v, In v th3_vs4 -> v < nv th3_three) /\
  hex_add_cell_v th3_three th3_vs4 true = (th3_block, Some 3) /\
  map (find_halfface_extensive th3_three) (hex_quads th3_vs4) = [Some 15; None; None; None; None; Some 29].
Proof. exact created_in_block_hypotheses. Qed.

Example C16_created_in_a_block_theorems_apply :
  hex_cell_wf_b th3_block 3 = true /\ check_halfface_ordering th3_block (cell_at th3_block 3) = true /\
  exists j, j < 4 /\ hex_vertices th3_block 3 = Some (hexv_rot j th3_vs4).
Proof. exact created_in_block_applies. Qed.

Example C16_created_in_a_block_value :
  hex_vertices th3_block 3 = Some th3_vs4 /\ hexv_rot 0 th3_vs4 = th3_vs4 /\ cell_at th3_block 3 = [15; 32; 34; 36; 38; 29] /\
  TH3HexEx.cre_inv_b th3_block = true.
Proof. exact created_in_block_value. Qed.

(* a cube stacked on an existing face, found as the FIRST halfface (the odd halfface 3, stored starting at the first given vertex: j = 0);
   a cube on fresh vertices (first face created: j = 3) *)
Example C16_created_on_a_found_first_face :
  cre_inv th3_one /\ hex_shape th3_one /\ NoDup th3_vs2 /\ (forall v, In v th3_vs2 -> v < nv th3_one) /\
  hex_add_cell_v th3_one th3_vs2 true = (th3_stack, Some 1) /\
  find_halfface_extensive th3_one [4; 5; 6; 7] = Some 3 /\ hf_vertices th3_stack 3 = [7; 4; 5; 6] /\
  cell_at th3_stack 1 = [3; 12; 14; 16; 18; 20] /\ hex_vertices th3_stack 1 = Some (hexv_rot 0 th3_vs2) /\ hexv_rot 0 th3_vs2 = th3_vs2.
Proof. exact created_on_found_first_face. Qed.

Example C16_created_on_fresh_vertices :
  let s := hex_run [HK (AddVertices 8)] in let vs := [0; 1; 2; 3; 4; 5; 6; 7] in
  cre_inv s /\ find_halfface_extensive s [3; 2; 1; 0] = None /\
  hex_vertices (fst (hex_add_cell_v s vs false)) 0 = Some (hexv_rot 3 vs) /\ hexv_rot 3 vs = [3; 0; 1; 2; 5; 6; 7; 4].
Proof. exact created_first_face_new. Qed.

(* ================================================================== 2. C15: add_cell(four vertices), both forms *)

(* the vector form add_cell(const std::vector<VertexHandle>&, bool) *)
Theorem C15_created_tet_is_well_formed : forall s v0 v1 v2 v3 chk s' c,
  cre_inv s -> tet_shape s -> NoDup [v0; v1; v2; v3] -> (forall v, In v [v0; v1; v2; v3] -> v < nv s) ->
  tet_add_cell_v s [v0; v1; v2; v3] chk = (s', Some c) ->
  c = nc s /\ c < nc s' /\ nc s' = S (nc s) /\ tet_cell_ok_b s' c = true /\ tet_cell_inc_b s' c = true /\
  tet_wf s' c (cell_at s' c) [v0; v1; v2; v3] /\ nth_error (cells s') c = Some (cell_at s' c).
Proof. exact tet_add_cell_v_wf. Qed.
Print Assumptions C15_created_tet_is_well_formed.

(* get_cell_vertices(cell) of the new tet: the first face's vertices - (v0, v1, v2) in the rotation in which that face is stored: as given
   when the call creates it, the rotation stored in the mesh when it is found - and then v3 *)
Theorem C15_created_tet_get_cell_vertices : forall s v0 v1 v2 v3 chk s' c,
  cre_inv s -> tet_shape s -> NoDup [v0; v1; v2; v3] -> (forall v, In v [v0; v1; v2; v3] -> v < nv s) ->
  tet_add_cell_v s [v0; v1; v2; v3] chk = (s', Some c) ->
  exists x y z, TH2CollapseBase.rot3 [v0; v1; v2] [x; y; z] /\ hf_vertices s' (nth 0 (cell_at s' c) 0) = [x; y; z] /\
    gcv_c s' c = Some [x; y; z; v3] /\
    match find_halfface_vs s v0 v1 v2 with
    | Some hf => nth 0 (cell_at s' c) 0 = hf /\ hf_vertices s hf = [x; y; z]
    | None => nth 0 (cell_at s' c) 0 = 2 * nf s /\ [x; y; z] = [v0; v1; v2]
    end.
Proof. exact tet_add_cell_v_order. Qed.
Print Assumptions C15_created_tet_get_cell_vertices.

Theorem C15_created_tet_get_cell_vertices_first_face_new : forall s v0 v1 v2 v3 chk s' c,
  cre_inv s -> tet_shape s -> NoDup [v0; v1; v2; v3] -> (forall v, In v [v0; v1; v2; v3] -> v < nv s) ->
  tet_add_cell_v s [v0; v1; v2; v3] chk = (s', Some c) -> find_halfface_vs s v0 v1 v2 = None -> gcv_c s' c = Some [v0; v1; v2; v3].
Proof. exact tet_add_cell_v_order_fresh. Qed.
Print Assumptions C15_created_tet_get_cell_vertices_first_face_new.

Theorem C15_created_tet_get_cell_vertices_first_face_found : forall s v0 v1 v2 v3 chk s' c,
  cre_inv s -> tet_shape s -> NoDup [v0; v1; v2; v3] -> (forall v, In v [v0; v1; v2; v3] -> v < nv s) ->
  tet_add_cell_v s [v0; v1; v2; v3] chk = (s', Some c) ->
  forall hf, find_halfface_vs s v0 v1 v2 = Some hf -> gcv_c s' c = Some (hf_vertices s hf ++ [v3]).
Proof. exact tet_add_cell_v_order_found. Qed.
Print Assumptions C15_created_tet_get_cell_vertices_first_face_found.

(* all queries on the new tet, no hypothesis on the cell: get_cell_vertices(halfface) = its cycle + the apex, the two opposite maps
   mutually inverse, the tet vertex iterator, get_cell_vertices(cell, vertex) for each of the four vertices *)
Theorem C15_created_tet_queries : forall s v0 v1 v2 v3 chk s' c,
  cre_inv s -> tet_shape s -> NoDup [v0; v1; v2; v3] -> (forall v, In v [v0; v1; v2; v3] -> v < nv s) ->
  tet_add_cell_v s [v0; v1; v2; v3] chk = (s', Some c) ->
  (forall hf, In hf (cell_at s' c) ->
     exists x y z w, hf_vertices s' hf = [x; y; z] /\ In w [v0; v1; v2; v3] /\ ~ In w [x; y; z] /\
       gcv_hf s' hf = Some [x; y; z; w] /\ halfface_opposite_vertex s' hf = Some (Some w) /\ vertex_opposite_halfface s' c w = Some (Some hf)) /\
  (forall v, In v [v0; v1; v2; v3] ->
     exists hf, In hf (cell_at s' c) /\ vertex_opposite_halfface s' c v = Some (Some hf) /\ ~ In v (hf_vertices s' hf) /\
       halfface_opposite_vertex s' hf = Some (Some v)) /\
  (exists x y z, gcv_c s' c = Some [x; y; z; v3] /\ NoDup [x; y; z; v3] /\
     (forall laps, tet_iter s' c laps = Some (concat (repeat [x; y; z; v3] laps))) /\
     gcv_c_v s' c x = Some [x; y; z; v3] /\ gcv_c_v s' c y = Some [y; z; x; v3] /\ gcv_c_v s' c z = Some [z; x; y; v3] /\
     gcv_c_v s' c v3 = Some [v3; y; x; z]).
Proof. exact tet_add_cell_v_queries. Qed.
Print Assumptions C15_created_tet_queries.

(* ... and the five TetTopology constructor statements (tt_all_consistent, Mesh/TH3TetTopo.v) *)
Theorem C15_created_tet_tettopology : forall s v0 v1 v2 v3 chk s' c,
  cre_inv s -> tet_shape s -> NoDup [v0; v1; v2; v3] -> (forall v, In v [v0; v1; v2; v3] -> v < nv s) ->
  tet_add_cell_v s [v0; v1; v2; v3] chk = (s', Some c) -> tt_all_consistent s' c.
Proof. exact tet_add_cell_v_tt. Qed.
Print Assumptions C15_created_tet_tettopology.

Theorem C15_unchecked_add_cell_from_vertices_accepts : forall s v0 v1 v2 v3,
  cre_inv s -> tet_shape s -> NoDup [v0; v1; v2; v3] -> (forall v, In v [v0; v1; v2; v3] -> v < nv s) -> full_bu s = true ->
  exists s', tet_add_cell_v s [v0; v1; v2; v3] false = (s', Some (nc s)).
Proof. exact tet_add_cell_v_unchecked_accepted. Qed.
Print Assumptions C15_unchecked_add_cell_from_vertices_accepts.

(* the checked call passes its closedness test and is rejected exactly when one of the four halffaces is an old halfface with a cell *)
Theorem C15_checked_add_cell_from_vertices_acceptance : forall s v0 v1 v2 v3,
  cre_inv s -> tet_shape s -> NoDup [v0; v1; v2; v3] -> (forall v, In v [v0; v1; v2; v3] -> v < nv s) -> full_bu s = true ->
  exists s4 hf0 hf1 hf2 hf3, grow s s4 /\ tri_on s4 hf0 v0 v1 v2 /\ tri_on s4 hf1 v0 v2 v3 /\ tri_on s4 hf2 v0 v3 v1 /\ tri_on s4 hf3 v1 v3 v2 /\
    closed_by_sets s4 [hf0; hf1; hf2; hf3] = true /\ cell_check s4 [hf0; hf1; hf2; hf3] = true /\
    if existsb (old_with_cell s) [hf0; hf1; hf2; hf3] then tet_add_cell_v s [v0; v1; v2; v3] true = (s4, None)
    else exists s', tet_add_cell_v s [v0; v1; v2; v3] true = (s', Some (nc s)).
Proof. exact tet_add_cell_v_checked_acceptance. Qed.
Print Assumptions C15_checked_add_cell_from_vertices_acceptance.

(* histories continue: full_inv, closed faces, no parallel edges and the tet shape hold again after the call (vector form) *)
Theorem C15_created_tet_keeps_the_history_invariant : forall s v0 v1 v2 v3 chk s' c,
  full_inv s -> faces_closed s -> TH3Base.no_par s -> tet_shape s -> NoDup [v0; v1; v2; v3] ->
  (forall v, In v [v0; v1; v2; v3] -> live_v s v = true) ->
  tet_add_cell_v s [v0; v1; v2; v3] chk = (s', Some c) ->
  chk = true \/ (forall hf c', In hf (cell_at s' c) -> c' < c -> c_deleted s' c' = false -> ~ In hf (cell_at s' c')) ->
  full_inv s' /\ faces_closed s' /\ TH3Base.no_par s' /\ tet_shape s'.
Proof. exact tet_created_keeps_invariant. Qed.
Print Assumptions C15_created_tet_keeps_the_history_invariant.

(* the four-handle form add_cell(vh0, vh1, vh2, vh3, check): never UB, always accepted, same conclusions *)
Theorem C15_created_tet_four_handles_accepted : forall s v0 v1 v2 v3 chk,
  cre_inv s -> tet_shape s -> vbu s = true -> ebu s = true -> NoDup [v0; v1; v2; v3] -> (forall v, In v [v0; v1; v2; v3] -> v < nv s) ->
  exists s', tet_add_cell_4 s v0 v1 v2 v3 chk = Some (s', Some (nc s)).
Proof. exact tet_add_cell_4_accepted. Qed.
Print Assumptions C15_created_tet_four_handles_accepted.

Theorem C15_created_tet_four_handles_is_well_formed : forall s v0 v1 v2 v3 chk s' c,
  cre_inv s -> tet_shape s -> full_bu s = true -> NoDup [v0; v1; v2; v3] -> (forall v, In v [v0; v1; v2; v3] -> v < nv s) ->
  tet_add_cell_4 s v0 v1 v2 v3 chk = Some (s', Some c) ->
  c = nc s /\ c < nc s' /\ nc s' = S (nc s) /\ tet_cell_ok_b s' c = true /\ tet_cell_inc_b s' c = true /\
  tet_wf s' c (cell_at s' c) [v0; v1; v2; v3] /\ nth_error (cells s') c = Some (cell_at s' c).
Proof. exact tet_add_cell_4_wf. Qed.
Print Assumptions C15_created_tet_four_handles_is_well_formed.

Theorem C15_created_tet_four_handles_get_cell_vertices : forall s v0 v1 v2 v3 chk s' c,
  cre_inv s -> tet_shape s -> full_bu s = true -> NoDup [v0; v1; v2; v3] -> (forall v, In v [v0; v1; v2; v3] -> v < nv s) ->
  tet_add_cell_4 s v0 v1 v2 v3 chk = Some (s', Some c) ->
  exists x y z, TH2CollapseBase.rot3 [v0; v1; v2] [x; y; z] /\ hf_vertices s' (nth 0 (cell_at s' c) 0) = [x; y; z] /\
    gcv_c s' c = Some [x; y; z; v3] /\
    match find_halfface_vs s v0 v1 v2 with
    | Some hf => nth 0 (cell_at s' c) 0 = hf /\ hf_vertices s hf = [x; y; z]
    | None => nth 0 (cell_at s' c) 0 = 2 * nf s /\ [x; y; z] = [v0; v1; v2]
    end.
Proof. exact tet_add_cell_4_order. Qed.
Print Assumptions C15_created_tet_four_handles_get_cell_vertices.

Theorem C15_created_tet_four_handles_tettopology : forall s v0 v1 v2 v3 chk s' c,
  cre_inv s -> tet_shape s -> full_bu s = true -> NoDup [v0; v1; v2; v3] -> (forall v, In v [v0; v1; v2; v3] -> v < nv s) ->
  tet_add_cell_4 s v0 v1 v2 v3 chk = Some (s', Some c) -> tt_all_consistent s' c.
Proof. exact tet_add_cell_4_tt. Qed.
Print Assumptions C15_created_tet_four_handles_tettopology.

(* ---- each hypothesis is needed (all witnesses: the form without topology check; the checked form rejects each of them) *)
Theorem C15_created_tet_with_parallel_edges_refuted :
  exists s v0 v1 v2 v3 s' c, bu_inv s /\ faces_loop s /\ face_edges_live s /\ tet_shape s /\ NoDup [v0; v1; v2; v3] /\
    (forall v, In v [v0; v1; v2; v3] -> v < nv s) /\ tet_add_cell_v s [v0; v1; v2; v3] false = (s', Some c) /\
    tet_cell_ok_b s' c = false /\ cell_closed_b s' (cell_at s' c) = false /\ gcv_c s' c = Some [0; 1; 2; 3] /\
    snd (tet_add_cell_v s [v0; v1; v2; v3] true) = None.
Proof. exact tet_add_cell_v_wf_without_no_par_refuted. Qed.
Print Assumptions C15_created_tet_with_parallel_edges_refuted.

Theorem C15_created_tet_with_an_open_face_refuted :
  exists s v0 v1 v2 v3 s' c, bu_inv s /\ face_edges_live s /\ TH3Base.no_par s /\ tet_shape s /\ NoDup [v0; v1; v2; v3] /\
    (forall v, In v [v0; v1; v2; v3] -> v < nv s) /\ tet_add_cell_v s [v0; v1; v2; v3] false = (s', Some c) /\
    tet_cell_ok_b s' c = false /\ gcv_c s' c = Some [0; 1; 4; 2] /\ [v0; v1; v2; v3] = [0; 1; 2; 3] /\
    snd (tet_add_cell_v s [v0; v1; v2; v3] true) = None.
Proof. exact tet_add_cell_v_wf_without_faces_loop_refuted. Qed.
Print Assumptions C15_created_tet_with_an_open_face_refuted.

Theorem C15_created_tet_with_a_repeated_vertex_refuted :
  exists s v0 v1 v2 v3 s' c, cre_inv s /\ tet_shape s /\ (forall v, In v [v0; v1; v2; v3] -> v < nv s) /\
    tet_add_cell_v s [v0; v1; v2; v3] false = (s', Some c) /\ tet_cell_ok_b s' c = false /\ gcv_c s' c = Some [] /\
    halfface_opposite_vertex s' 0 = None /\ tet_iter s' c 1 = None /\ snd (tet_add_cell_v s [v0; v1; v2; v3] true) = None.
Proof. exact tet_add_cell_v_wf_without_nodup_refuted. Qed.
Print Assumptions C15_created_tet_with_a_repeated_vertex_refuted.

Theorem C15_created_tet_on_a_quad_refuted :
  exists s v0 v1 v2 v3 s' c, cre_inv s /\ NoDup [v0; v1; v2; v3] /\ (forall v, In v [v0; v1; v2; v3] -> v < nv s) /\
    tet_add_cell_v s [v0; v1; v2; v3] false = (s', Some c) /\ tet_cell_ok_b s' c = false /\ gcv_c s' c = Some [0; 1; 2; 4; 3] /\
    snd (tet_add_cell_v s [v0; v1; v2; v3] true) = None.
Proof. exact tet_add_cell_v_wf_without_tet_shape_refuted. Qed.
Print Assumptions C15_created_tet_on_a_quad_refuted.

(* the four-handle form relies on find_halfedge, which finds nothing without vertex incidences: add_halfedge then returns an existing
   edge in the wrong direction *)
Theorem C15_created_tet_four_handles_without_vertex_incidences_refuted :
  exists s v0 v1 v2 v3 s' c, vbu s = false /\ faces_loop s /\ face_edges_live s /\ TH3Base.no_par s /\ tet_shape s /\ NoDup [v0; v1; v2; v3] /\
    (forall v, In v [v0; v1; v2; v3] -> v < nv s) /\ tet_add_cell_4 s v0 v1 v2 v3 false = Some (s', Some c) /\ tet_cell_ok_b s' c = false.
Proof. exact tet_add_cell_4_wf_without_vbu_refuted. Qed.
Print Assumptions C15_created_tet_four_handles_without_vertex_incidences_refuted.

(* ---- non-vacuity: a third tet glued on TWO existing faces (found in other rotations / on the other side) *)
Example C15_tet_glued_on_two_faces :
  cre_ready_b two_tets [2; 1; 0; 4] = true /\ full_bu two_tets = true /\
  find_halfface_vs two_tets 2 1 0 = Some 1 /\ hf_vertices two_tets 1 = [0; 2; 1] /\ find_halfface_vs two_tets 2 0 4 = None /\
  find_halfface_vs two_tets 2 4 1 = Some 11 /\ hf_vertices two_tets 11 = [1; 2; 4] /\ find_halfface_vs two_tets 1 4 0 = None /\
  exists s', tet_add_cell_v two_tets [2; 1; 0; 4] true = (s', Some 2) /\ cell_at s' 2 = [1; 14; 11; 16] /\
    gcv_c s' 2 = Some [0; 2; 1; 4] /\ gcv_hf s' 11 = Some [1; 2; 4; 0] /\ gcv_hf s' 14 = Some [2; 0; 4; 1] /\
    tet_cell_ok_b s' 2 = true /\ tet_cell_inc_b s' 2 = true /\ TH3TetEx.cre_inv_b s' = true.
Proof. exact tet_glued_on_two_faces. Qed.

Example C15_tet_glued_on_two_faces_hypotheses : forall s v0 v1 v2 v3, cre_ready_b s [v0; v1; v2; v3] = true ->
  cre_inv s /\ tet_shape s /\ NoDup [v0; v1; v2; v3] /\ (forall v, In v [v0; v1; v2; v3] -> v < nv s).
Proof. exact cre_ready_b_sound. Qed.

Example C15_tet_glued_on_two_faces_theorems_apply : forall s' c, tet_add_cell_v two_tets [2; 1; 0; 4] true = (s', Some c) ->
  c = 2 /\ tet_cell_ok_b s' c = true /\ tet_cell_inc_b s' c = true /\ tet_wf s' c (cell_at s' c) [2; 1; 0; 4] /\
  gcv_c s' c = Some [0; 2; 1; 4].
Proof. exact tet_add_cell_v_wf_applies. Qed.

Example C15_tet_on_a_face_stored_in_another_rotation :
  cre_ready_b face_201 [0; 1; 2; 3] = true /\ full_bu face_201 = true /\ find_halfface_vs face_201 0 1 2 = Some 0 /\
  exists s', tet_add_cell_v face_201 [0; 1; 2; 3] true = (s', Some 0) /\ gcv_c s' 0 = Some [2; 0; 1; 3] /\ tet_cell_ok_b s' 0 = true /\
    tet_iter s' 0 1 = Some [2; 0; 1; 3] /\ gcv_c_v s' 0 0 = Some [0; 1; 2; 3].
Proof. exact tet_on_rotated_face. Qed.

(* ================================================================== 3. C15: the topology-checked add_cell(halffaces) *)

(* every cell accepted by the topology-checked add_cell(halffaces) on closed triangles with three distinct vertices IS a well-formed
   tetrahedron - in every state, no hypothesis on edges (since the fix 814053a "checked tet add_cell must reject four triangles on fewer
   than four vertex triples"; before it this statement was FALSE: two "pillows" [hf; opp hf; x; opp x] on four vertices over a parallel
   edge were accepted - found here, replayed on the library, build/th3tet/w3.scripts = corpus/tethex/tet-two-pillows-parallel-edge.scripts) *)
Theorem C15_checked_add_cell_accepted_tet_is_well_formed : forall s hfs s' c, tet_add_cell s hfs true = (s', Some c) ->
  fbu s = true -> length (inc_cell s) = 2 * nf s -> (forall hf, In hf hfs -> hf < 2 * nf s) ->
  (forall hf, In hf hfs -> TH2TopoWf.tri_ok s hf) ->
  c = nc s /\ cell_at s' c = hfs /\ tet_cell_ok s' c hfs /\ tet_cell_ok_b s' c = true /\ tet_cell_inc_b s' c = true /\
  tet_wf s' c hfs (hfs_vertex_set s' hfs).
Proof. exact tet_add_cell_checked_ok. Qed.
Print Assumptions C15_checked_add_cell_accepted_tet_is_well_formed.

(* what the guards of the checked call establish *)
Theorem C15_checked_add_cell_guards : forall s hfs s' c, tet_add_cell s hfs true = (s', Some c) ->
  length hfs = 4 /\ (forall hf, In hf hfs -> length (face_at s (hf / 2)) = 3) /\ length (hfs_vertex_set s hfs) = 4 /\ NoDup hfs /\
  (forall hf hf', In hf hfs -> In hf' hfs -> hf <> hf' ->
     ~ (incl (hf_vertices s hf) (hf_vertices s hf') /\ incl (hf_vertices s hf') (hf_vertices s hf))) /\
  add_cell s hfs true = (s', Some c).
Proof. exact tet_add_cell_checked_guards. Qed.
Print Assumptions C15_checked_add_cell_guards.

(* regressions: the two former witnesses are rejected, the mesh unchanged (they pass every other test) *)
Example C15_two_pillows_on_a_parallel_edge_rejected :
  let s := tet_run pillow_pre in let hfs := [0; 1; 2; 3] in
  tet_step s (TK (AddCell hfs true)) = TOk s None /\ tet_add_cell s hfs true = (s, None) /\
  fbu s = true /\ length (inc_cell s) = 2 * nf s /\ forallb (fun hf => hf <? 2 * nf s) hfs = true /\
  forallb (TH2TopoWf.tri_ok_b s) hfs = true /\ cell_check s hfs = true /\ length (hfs_vertex_set s hfs) = 4 /\
  hfs_triple_count s hfs = 2 /\ no_par_b s = false.
Proof. exact tet_two_pillows_rejected. Qed.

Example C15_two_pillows_on_duplicate_faces_rejected :
  let s := tet_run pillow_dup_pre in let hfs := [0; 3; 4; 7] in
  tet_step s (TK (AddCell hfs true)) = TOk s None /\ tet_add_cell s hfs true = (s, None) /\
  forallb (TH2TopoWf.tri_ok_b s) hfs = true /\ forallb (fun hf => negb (memb (opp hf) hfs)) hfs = true /\
  cell_check s hfs = true /\ length (hfs_vertex_set s hfs) = 4 /\ hfs_triple_count s hfs = 2.
Proof. exact tet_two_pillows_dup_rejected. Qed.

(* the add_cell WITHOUT topology check still stores the pillows (the queries then have no apex / read out of range) *)
Theorem C15_unchecked_add_cell_stores_two_pillows :
  exists s hfs s' c, tet_step s (TK (AddCell hfs false)) = TOk s' (Some c) /\ tet_add_cell s hfs false = (s', Some c) /\
    forallb (TH2TopoWf.tri_ok_b s) hfs = true /\ hfs = [0; 1; 2; 3] /\ map (hf_vertices s') hfs = [[0; 1; 2]; [0; 2; 1]; [1; 2; 3]; [1; 3; 2]] /\
    tet_cell_ok_b s' c = false /\ tet_cell_inc_b s' c = true /\
    gcv_c s' c = Some [] /\ gcv_hf s' 0 = Some [] /\ gcv_hf s' 2 = Some [1; 2; 3; 0] /\
    halfface_opposite_vertex s' 0 = None /\ tet_iter s' c 1 = None.
Proof. exact tet_add_cell_unchecked_stores_two_pillows. Qed.
Print Assumptions C15_unchecked_add_cell_stores_two_pillows.

(* the forms proved before the fix stay true (now corollaries in spirit) *)
(* true: without parallel edges (and with live halfedges) ... *)
Theorem C15_checked_add_cell_accepted_tet_is_well_formed_partial : forall s hfs s' c, tet_add_cell s hfs true = (s', Some c) ->
  fbu s = true -> length (inc_cell s) = 2 * nf s -> (forall hf, In hf hfs -> hf < 2 * nf s) ->
  (forall hf, In hf hfs -> TH2TopoWf.tri_ok s hf) -> TH3Base.no_par s -> (forall hf h, In hf hfs -> In h (halfface s hf) -> live_he_p s h) ->
  c = nc s /\ cell_at s' c = hfs /\ tet_cell_ok s' c hfs /\ tet_cell_ok_b s' c = true /\ tet_cell_inc_b s' c = true /\
  tet_wf s' c hfs (hfs_vertex_set s' hfs).
Proof. exact tet_add_cell_checked_ok_partial. Qed.
Print Assumptions C15_checked_add_cell_accepted_tet_is_well_formed_partial.

(* ... or, in every state, when no two of the given halffaces have the same vertex set *)
Theorem C15_checked_add_cell_accepted_tet_on_different_vertex_sets_partial : forall s hfs s' c, tet_add_cell s hfs true = (s', Some c) ->
  fbu s = true -> length (inc_cell s) = 2 * nf s -> (forall hf, In hf hfs -> hf < 2 * nf s) ->
  (forall hf, In hf hfs -> TH2TopoWf.tri_ok s hf) ->
  (forall hf hf', In hf hfs -> In hf' hfs -> hf <> hf' -> ~ incl (hf_vertices s hf') (hf_vertices s hf)) ->
  c = nc s /\ cell_at s' c = hfs /\ tet_cell_ok s' c hfs /\ tet_cell_ok_b s' c = true /\ tet_cell_inc_b s' c = true /\
  tet_wf s' c hfs (hfs_vertex_set s' hfs).
Proof. exact tet_add_cell_checked_ok_partial_sets. Qed.
Print Assumptions C15_checked_add_cell_accepted_tet_on_different_vertex_sets_partial.

(* ... in particular under cre_inv, on live halffaces with three distinct vertices *)
Theorem C15_checked_add_cell_accepted_tet_under_the_creation_invariant : forall s hfs s' c, tet_add_cell s hfs true = (s', Some c) ->
  cre_inv s -> fbu s = true -> (forall hf, In hf hfs -> hf / 2 < nf s /\ f_deleted s (hf / 2) = false) ->
  (forall hf, In hf hfs -> NoDup (hf_vertices s hf)) ->
  c = nc s /\ cell_at s' c = hfs /\ tet_cell_ok s' c hfs /\ tet_cell_ok_b s' c = true /\ tet_cell_inc_b s' c = true /\
  tet_wf s' c hfs (hfs_vertex_set s' hfs).
Proof. exact tet_add_cell_checked_ok_cre. Qed.
Print Assumptions C15_checked_add_cell_accepted_tet_under_the_creation_invariant.

(* ================================================================== 4. C15: the invariant after collapse_edge *)

Theorem C15_collapse_link_condition_checker_sound : forall s heh, link_ok_b s heh = true -> link_ok s heh.
Proof. exact link_ok_b_sound. Qed.
Print Assumptions C15_collapse_link_condition_checker_sound.

Theorem C15_collapse_no_parallel_edges_gives_clause_one : forall (Q : nat -> nat -> Prop) s, TH3Base.no_par s ->
  (forall e, e < ne s -> e_deleted s e = false -> fst (edge_at s e) <> snd (edge_at s e)) -> npar Q s.
Proof. exact npar_of_no_par. Qed.
Print Assumptions C15_collapse_no_parallel_edges_gives_clause_one.

(* deferred mode: the deferred-history invariant bu_inv2 of the result *)
Theorem C15_collapse_result_satisfies_the_deferred_invariant : forall s heh, collapse_ready s heh -> link_ok s heh ->
  exists s', collapse_edge s heh = Some (s', he_to s heh) /\ collapse_result s heh s' /\ bu_inv2 s' /\ szd s'.
Proof. exact collapse_edge_deferred_bu_inv2. Qed.
Print Assumptions C15_collapse_result_satisfies_the_deferred_invariant.

(* ... gc_ready (hypothesis of the C04 theorems), Hinv, and the unified history invariant full_inv *)
Theorem C15_collapse_result_satisfies_the_history_invariant : forall s heh, collapse_ready s heh -> link_ok s heh -> full_inv s ->
  exists s', collapse_edge s heh = Some (s', he_to s heh) /\ collapse_result s heh s' /\ bu_inv2 s' /\ szd s' /\ gc_ready s' /\ Hinv s' /\ full_inv s'.
Proof. exact collapse_edge_deferred_full_inv. Qed.
Print Assumptions C15_collapse_result_satisfies_the_history_invariant.

Theorem C15_collapse_result_is_gc_ready : forall s heh, collapse_ready s heh -> link_ok s heh -> GcHist.K s ->
  exists s', collapse_edge s heh = Some (s', he_to s heh) /\ collapse_result s heh s' /\ bu_inv2 s' /\ szd s' /\ gc_ready s' /\ Hinv s' /\ all_inv s'.
Proof. exact collapse_edge_deferred_inv. Qed.
Print Assumptions C15_collapse_result_is_gc_ready.

(* stated on the history invariant alone: tet_hist_inv s = full_inv s, deferred mode, all incidences on, tet shape, faces closed loops *)
Theorem C15_collapse_keeps_the_tet_history_invariant : forall s heh, tet_hist_inv s -> heh / 2 < ne s -> e_deleted s (heh / 2) = false ->
  he_from s heh <> he_to s heh ->
  (forall c, In c (rebuilt_cells s heh) -> forall hf, In hf (cell_at s c) -> TH2CollapseLoop.tri_ok (he_to s heh) s hf) ->
  link_ok s heh ->
  exists s', collapse_edge s heh = Some (s', he_to s heh) /\ collapse_result s heh s' /\ tet_hist_inv s' /\ gc_ready s' /\ bu_inv2 s'.
Proof. exact collapse_edge_history_invariant. Qed.
Print Assumptions C15_collapse_keeps_the_tet_history_invariant.

(* the immediate modes WITHOUT the gc_ready hypothesis of C15_collapse_immediate_slow / _fast *)
Theorem C15_collapse_immediate_slow_unconditional : forall s heh, deferred s = false -> fast s = false -> let d := enable_deferred true s in
  collapse_ready d heh -> link_ok d heh -> GcHist.K d ->
  exists d', collapse_edge d heh = Some (d', he_to d heh) /\ collapse_result d heh d' /\ gc_ready d' /\
  exists s', collapse_edge s heh = Some (s', if he_from d heh <? he_to d heh then he_to d heh - 1 else he_to d heh) /\
     nv s' = logical_nv d' /\ edges s' = logical_edges d' /\ faces s' = logical_faces d' /\ cells s' = logical_cells d' /\
     no_flags s' /\ deferred s' = false /\ fast s' = false /\
     ((forall v, v_deleted s v = false) -> length (vdel s) = nv s ->
      rank (vdel d') (he_to d heh) = (if he_from d heh <? he_to d heh then he_to d heh - 1 else he_to d heh)).
Proof. exact collapse_edge_immediate_slow_inv. Qed.
Print Assumptions C15_collapse_immediate_slow_unconditional.

Theorem C15_collapse_immediate_fast_unconditional : forall s heh, deferred s = false -> fast s = true -> let d := enable_deferred true s in
  collapse_ready d heh -> link_ok d heh -> GcHist.K d ->
  exists d', collapse_edge d heh = Some (d', he_to d heh) /\ collapse_result d heh d' /\ gc_ready d' /\
  exists s' rv re rf rc,
     collapse_edge s heh = Some (s', if he_to d heh =? nv s - 1 then he_from d heh else he_to d heh) /\
     gc_fast_post d' (collect_garbage d') rv re rf rc /\ no_flags s' /\ deferred s' = false /\
     nv s' = nv (collect_garbage d') /\ edges s' = edges (collect_garbage d') /\ faces s' = faces (collect_garbage d') /\
     cells s' = cells (collect_garbage d').
Proof. exact collapse_edge_immediate_fast_inv. Qed.
Print Assumptions C15_collapse_immediate_fast_unconditional.

(* full statement (refuted): the invariant of the result without the link condition (clause 4 of link_ok) - a halfface ends up in two live
   cells; and without clause 1 - two parallel edges 2-3 next to ONE tet: the rebuilt tet is not closed (replayed on the library:
   build/th3col/par.script, model and library agree line by line) *)
Theorem C15_collapse_without_the_link_condition_refuted :
  exists s heh s', collapse_ready s heh /\ link_ok_b s heh = false /\ npar_b (img_pair_b s heh) s = true /\
    forallb (TH3ColReadd.tetc_b s) (rebuilt_cells s heh) = true /\
    pw_nonrot_b (map (hf_vertices s) (rebuilt_halffaces s heh)) = true /\ full_inv_b s = true /\
    collapse_edge s heh = Some (s', he_to s heh) /\ ~ bu_inv2 s' /\ ~ gc_ready s'.
Proof. exact link_condition_needed_refuted. Qed.
Print Assumptions C15_collapse_without_the_link_condition_refuted.

Theorem C15_collapse_with_parallel_edges_refuted :
  exists s heh s', collapse_ready s heh /\ full_inv_b s = true /\ nc s = 1 /\ npar_b (img_pair_b s heh) s = false /\
    forallb (TH3ColReadd.tetc_b s) (rebuilt_cells s heh) = true /\
    pw_nonrot_b (map (hf_vertices s) (rebuilt_halffaces s heh)) = true /\ free_or_star_b s heh = true /\
    collapse_edge s heh = Some (s', he_to s heh) /\ ~ bu_inv2 s' /\ ~ gc_ready s'.
Proof. exact parallel_edges_refuted. Qed.
Print Assumptions C15_collapse_with_parallel_edges_refuted.

(* non-vacuity: five tets (an image face is FOUND: halfface 6 of a collapsing tet becomes the first halfface of a new cell); the theorem
   applied; a second collapse on the result of the first *)
Example C15_collapse_hypotheses_hold_on_five_tets_with_link_condition :
  collapse_ready_b collapse_ex 0 = true /\ link_ok_b collapse_ex 0 = true /\ full_inv_b collapse_ex = true.
Proof. exact collapse_ex_link_ok. Qed.

Example C15_collapse_invariant_on_five_tets :
  exists s', collapse_edge collapse_ex 0 = Some (s', 1) /\ collapse_result collapse_ex 0 s' /\ bu_inv2 s' /\ szd s' /\ gc_ready s' /\ Hinv s' /\ full_inv s'.
Proof. exact collapse_ex_invariant. Qed.

Example C15_collapse_twice :
  exists s1 s2, collapse_edge collapse_ex 0 = Some (s1, 1) /\ collapse_edge s1 2 = Some (s2, 2) /\
    tet_hist_inv s1 /\ tet_hist_inv s2 /\ gc_ready s2 /\ bu_inv2 s2.
Proof. exact collapse_twice. Qed.
