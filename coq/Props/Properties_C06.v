(* Props/Properties_C06.v -- C06 (OVMB half): the native binary format round-trips meshes and persistent properties.
   Statements only; proofs are `exact <lemma of IO/OvmbProofs.v>`.
   `encode` = BinaryFileWriter (byte-exact tie checked on every run), `decode_impl` = BinaryFileReader,
   `decode_spec` = the published description (ovmb.ksy + binary_file_format.docu) only. *)
From Coq Require Import ZArith List Bool.
From OVM Require Import Base.Int32 Gen.OvmbFormat IO.Bytes IO.OvmbWriterModel IO.OvmbReaderModel IO.OvmbSpec IO.OvmbProofs.
Import ListNotations.
Local Open Scope Z_scope.

(* Every registered property codec (bool, 8-64 bit integers, float, double, string, the six handle types, 2-4 vectors of
   double / float / uint32 / int32) decodes what it encodes, for every value of its type, bit for bit. *)
Theorem C06_codecs : forall ty v, value_okb ty v = true -> decode_one ty (encode_value ty v) = Ret v.
Proof. exact codec_roundtrip. Qed.
Print Assumptions C06_codecs.

(* Little-endian integers of every width round-trip (all header, span, count, handle and length fields). *)
Theorem C06_integers : forall n v, 0 <= v < 256 ^ Z.of_nat n -> le_decode (le_encode n v) = v.
Proof. exact le_decode_encode. Qed.
Print Assumptions C06_integers.

(* The regenerated padding arithmetic of write_chunk: 0..7 zero bytes, chunk length = payload + padding, multiple of 8. *)
Theorem C06_padding : forall n, 0 <= n < 4611686018427387904 ->
  0 <= write_chunk_padding_bytes n < 8 /\ write_chunk_file_length n = n + write_chunk_padding_bytes n.
Proof. exact padding_spec. Qed.
Print Assumptions C06_padding.

(* The writer's output is: 48 header bytes, then chunks none of which is an EOF chunk, then exactly one EOF chunk. *)
Theorem C06_layout : forall dim topo m, small (encode_body m) ->
  encode dim topo m = write_file_header dim topo m ++ encode_body m ++ write_chunk ChunkType_EndOfFile [] /\
  noeof_chunks (encode_body m) /\ length (write_file_header dim topo m) = 48%nat.
Proof. intros dim topo m H. split; [apply encode_split|]. split; [apply encode_body_noeof; exact H|apply header_length]. Qed.
Print Assumptions C06_layout.

(* A mesh that still has pending deletions is refused, and nothing is written. *)
Theorem C06_pending : forall dim topo m k, write_result true dim topo m k = (WError, []).
Proof. exact pending_refused. Qed.
Print Assumptions C06_pending.

(* Topology type detection of the writer. *)
Theorem C06_topo_detect : forall m,
  detect_topo 1 m = TopoType_Tetrahedral /\ detect_topo 2 m = TopoType_Hexahedral /\
  detect_topo 0 m = (if mesh_is_tet m then TopoType_Tetrahedral else if mesh_is_hex m then TopoType_Hexahedral else TopoType_Polyhedral).
Proof. intros m. split; [reflexivity|]. split; reflexivity. Qed.
Print Assumptions C06_topo_detect.

(* The round trip itself, for ALL meshes, is proved in Props/Properties_C06_roundtrip.v (IO/Ovmb2*.v):
     C06_roundtrip      : wf_file dim m -> fits dim m -> accepts o dim topo m -> decode_impl o (encode dim topo m) = ROk m
     C06_spec_roundtrip : wf_file dim m -> fits dim m -> 1 <= dim -> stopo_ok topo m -> decode_spec dim (encode dim topo m) = Some m
     C06_reencodings    : every valid `layout` of m (spans, wider integers, variable-valence form, handle offsets, optional
                          chunks) reads to m with decode_impl and with decode_spec
   The examples below evaluate the same statements on three concrete meshes inside Coq, independently of those proofs (a
   tetrahedron with int / bool / string properties read into a polyhedral and a tetrahedral mesh with the topology check on; a
   hexahedron read into a hexahedral mesh through check_halfface_ordering; a mixed-valence mesh with valence-0 cells in the
   variable-valence form).  On every run the driver evaluates decode_impl (encode m) = m and decode_spec (encode m) = m on every
   mesh OBSERVED from the real writer (model_rt / spec_rt) and the real reader reads every generated re-encoding to the same
   mesh (lib/checks_ovmb.py). *)
Example C06_roundtrip_tet :
  wf_file 3 ex_tet /\ decode_impl ex_opts (encode 3 1 ex_tet) = ROk ex_tet /\ decode_spec 3 (encode 3 1 ex_tet) = Some ex_tet /\
  decode_impl {| o_mesh := MTet; o_check := true; o_bu := false; o_dim := 3 |} (encode 3 1 ex_tet) = ROk ex_tet.
Proof. split; [exact ex_tet_wf|]. split; [exact ex_tet_roundtrip|]. split; [exact ex_tet_spec|exact ex_tet_tetmesh]. Qed.

Example C06_roundtrip_hex :
  wf_file 3 ex_hex /\
  decode_impl {| o_mesh := MHex; o_check := true; o_bu := true; o_dim := 3 |} (encode 3 2 ex_hex) = ROk ex_hex /\
  decode_spec 3 (encode 3 2 ex_hex) = Some ex_hex.
Proof. exact ex_hex_roundtrip. Qed.

Example C06_roundtrip_mixed :
  wf_file 3 ex_mixed /\
  decode_impl {| o_mesh := MPoly; o_check := false; o_bu := false; o_dim := 3 |} (encode 3 0 ex_mixed) = ROk ex_mixed /\
  decode_spec 3 (encode 3 0 ex_mixed) = Some ex_mixed.
Proof. exact ex_mixed_roundtrip. Qed.
