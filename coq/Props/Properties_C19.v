(* Props/Properties_C19.v -- C19: vector algebra and geometric queries match their defining formulas.
   Statements only; proofs are `exact <lemma>` or a few lines assembling lemmas of Geo/VecProofs.v and
   Geo/GeoProofs.v; Print Assumptions under each theorem.

   Model: Geo/VecModel.v (VectorT as list functions over a scalar record; Zops = int exact, Uops = unsigned
   mod 2^32, Qops = exact rational reference for float/double), Geo/GeoModel.v (GeometryKernel queries over
   the kernel state).  What is NOT a theorem here: floating-point rounding (the check compares the library
   with the Qops value under an explicit bound), sqrt (norm / normalized are checked through their squares). *)
From Coq Require Import List ZArith QArith Qabs Bool Arith.
From OVM Require Import Base.Int32 Kernel.State Kernel.Ops Kernel.Mirror Geo.VecModel Geo.VecProofs Geo.GeoModel Geo.GeoProofs.
Import ListNotations.
Local Open Scope nat_scope.

(* ------------------------------------------------------------------ component-wise operators, any scalar, any DIM *)

Theorem C19_arith_componentwise : forall (T : Type) (o : sops T) (d : T) (a b : list T) (i : nat),
  i < length a -> length a = length b ->
  nth i (vadd o a b) d = sadd o (nth i a d) (nth i b d) /\
  nth i (vsub o a b) d = ssub o (nth i a d) (nth i b d) /\
  nth i (vmul o a b) d = smul o (nth i a d) (nth i b d) /\
  nth i (vdiv o a b) d = sdiv o (nth i a d) (nth i b d) /\
  length (vadd o a b) = length a /\ length (vsub o a b) = length a /\
  length (vmul o a b) = length a /\ length (vdiv o a b) = length a.
Proof.
  intros T o d a b i Hi L.
  repeat split; [apply vadd_nth | apply vsub_nth | apply vmul_nth | apply vdiv_nth
                | apply vadd_length | apply vsub_length | apply vmul_length | apply vdiv_length]; assumption.
Qed.
Print Assumptions C19_arith_componentwise.

Theorem C19_scalar_neg_vectorize_componentwise : forall (T : Type) (o : sops T) (d : T) (a : list T) (s : T) (i : nat),
  i < length a ->
  nth i (vscale o a s) d = smul o (nth i a d) s /\
  nth i (vscale_left o s a) d = smul o (nth i a d) s /\
  nth i (vsdiv o a s) d = sdiv o (nth i a d) s /\
  nth i (vneg o a) d = sneg o (nth i a d) /\
  nth i (vectorize (length a) s) d = s /\ length (vectorize (length a) s) = length a.
Proof.
  intros T o d a s i Hi.
  repeat split; [apply vscale_nth | apply vscale_left_nth | apply vsdiv_nth | apply vneg_nth
                | apply vectorize_nth | apply vectorize_length]; assumption.
Qed.
Print Assumptions C19_scalar_neg_vectorize_componentwise.

Theorem C19_minmax_componentwise : forall (T : Type) (o : sops T) (d : T) (a b : list T) (i : nat),
  i < length a -> length a = length b ->
  nth i (minimize o a b) d = smin o (nth i a d) (nth i b d) /\
  nth i (maximize o a b) d = smax o (nth i a d) (nth i b d) /\
  nth i (snd (minimized o a b)) d = (if sltb o (nth i a d) (nth i b d) then nth i a d else nth i b d) /\
  nth i (snd (maximized o a b)) d = (if sltb o (nth i b d) (nth i a d) then nth i a d else nth i b d).
Proof.
  intros T o d a b i Hi L.
  repeat split; [apply minimize_nth | apply maximize_nth | apply minimized_vec_nth | apply maximized_vec_nth]; assumption.
Qed.
Print Assumptions C19_minmax_componentwise.

(* == compares every component; < is std::lexicographical_compare: decided by the first position at which
   the components are ordered *)
Theorem C19_eq_lt_specification : forall (T : Type) (o : sops T) (d : T) (a b : list T), length a = length b ->
  (veq o a b = true <-> forall i, i < length a -> seqb o (nth i b d) (nth i a d) = true) /\
  vneq o a b = negb (veq o a b) /\
  (vlt o a b = true <->
   exists k, k < length a /\
     (forall j, j < k -> sltb o (nth j a d) (nth j b d) = false /\ sltb o (nth j b d) (nth j a d) = false) /\
     sltb o (nth k a d) (nth k b d) = true).
Proof.
  intros T o d a b L. split; [apply veq_spec; assumption|]. split; [apply vneq_spec | apply vlt_spec; assumption].
Qed.
Print Assumptions C19_eq_lt_specification.

Theorem C19_cross_components : forall (T : Type) (o : sops T) (d : T) (a b : list T) (i : nat),
  length a = 3 -> length b = 3 -> i < 3 ->
  nth i (cross o a b) d =
  ssub o (smul o (nth ((i + 1) mod 3) a d) (nth ((i + 2) mod 3) b d))
         (smul o (nth ((i + 2) mod 3) a d) (nth ((i + 1) mod 3) b d)).
Proof. exact @cross_nth. Qed.
Print Assumptions C19_cross_components.

Theorem C19_sqrnorm_is_dot_self_and_l8_is_max_abs : forall (T : Type) (o : sops T) (a : list T),
  sqrnorm o a = dot o a a /\ l8_norm o a = max_abs o a.
Proof. intros. split; [apply sqrnorm_dot | apply l8_norm_max_abs]. Qed.
Print Assumptions C19_sqrnorm_is_dot_self_and_l8_is_max_abs.

Theorem C19_conversion_componentwise : forall (A B : Type) (f : A -> B) (da : A) (db : B) (a : list A) (i : nat),
  i < length a -> nth i (vconvert f a) db = f (nth i a da).
Proof. intros A B f da db a i Hi. apply (@vconvert_nth A da B f db a i Hi). Qed.
Print Assumptions C19_conversion_componentwise.

Theorem C19_scalar_conversions_roundtrip :
  (forall x : Z, conv_q_int (conv_int_q x) = x) /\
  (forall x : Z, in_int32 x -> conv_uint_int (conv_int_uint x) = x) /\
  (forall x : Z, (0 <= x < 2 ^ 32)%Z -> conv_int_uint (conv_uint_int x) = x).
Proof. exact (conj conv_int_q_int (conj conv_int_uint_int conv_uint_int_uint)). Qed.
Print Assumptions C19_scalar_conversions_roundtrip.

(* operator<< then operator>> gives the vector back and consumes exactly what was written *)
Theorem C19_stream_roundtrip : forall (T : Type) (a b : list T) (rest : list (tok T)),
  vin (length a) (vout a ++ rest) = Some (a, rest) /\
  (b <> [] -> match vin (length a) (vout a ++ TSp :: vout b ++ rest) with
              | Some (a', r) => a' = a /\ vin (length b) r = Some (b, rest)
              | None => False end) /\
  vin (S (length a)) (vout a) = None.
Proof.
  intros T a b rest. split; [apply stream_roundtrip|]. split; [apply stream_roundtrip2 | apply stream_short].
Qed.
Print Assumptions C19_stream_roundtrip.

(* ------------------------------------------------------------------ int (exact): reductions and algebra *)
Local Open Scope Z_scope.

Theorem C19_reductions_are_the_defining_sums : forall a b : list Z,
  dot Zops a b = zsum (map2 Z.mul a b) /\
  sqrnorm Zops a = zsum (map (fun x => x * x) a) /\
  mean Zops a = Z.quot (zsum a) (Z.of_nat (length a)) /\
  mean_abs Zops a = Z.quot (zsum (map Z.abs a)) (Z.of_nat (length a)).
Proof. intros a b. exact (conj (dot_Z_sum a b) (conj (sqrnorm_Z_sum a) (conj (mean_Z a) (mean_abs_Z a)))). Qed.
Print Assumptions C19_reductions_are_the_defining_sums.

(* l1_norm.  The defining formula (what "L1 (Manhattan) norm" means, Vector11T.hh:494) is the sum of the
   absolute values:
       Theorem C19_l1_norm_is_sum_of_abs : forall a, l1_norm Zops a = zsum (map Z.abs a).
   It is FALSE of the faithful model (the code accumulates the components without std::abs): *)
Theorem C19_l1_norm_refuted : exists a : list Z, length a = 3%nat /\ l1_norm Zops a <> zsum (map Z.abs a).
Proof. exact l1_norm_refuted. Qed.
Print Assumptions C19_l1_norm_refuted.

(* strongest true statement: l1_norm is the plain sum, and equals the defining formula exactly on the
   vectors without a negative component *)
Theorem C19_l1_norm_partial : forall a : list Z,
  l1_norm Zops a = zsum a /\
  (l1_norm Zops a = zsum (map Z.abs a) <-> Forall (fun x => 0 <= x) a).
Proof. intros a. exact (conj (l1_norm_Z_sum a) (l1_norm_partial a)). Qed.
Print Assumptions C19_l1_norm_partial.

Theorem C19_max_min_are_extremal : forall a : list Z, a <> [] ->
  (In (vmax Zops a) a /\ forall y, In y a -> y <= vmax Zops a) /\
  (In (vmin Zops a) a /\ forall y, In y a -> vmin Zops a <= y) /\
  ((exists x, In x a /\ max_abs Zops a = Z.abs x) /\ forall y, In y a -> Z.abs y <= max_abs Zops a) /\
  ((exists x, In x a /\ min_abs Zops a = Z.abs x) /\ forall y, In y a -> min_abs Zops a <= Z.abs y).
Proof. intros a H. exact (conj (vmax_Z a H) (conj (vmin_Z a H) (conj (max_abs_Z a H) (min_abs_Z a H)))). Qed.
Print Assumptions C19_max_min_are_extremal.

Theorem C19_eq_is_equality : forall a b : list Z, length a = length b -> (veq Zops a b = true <-> a = b).
Proof. exact veq_Z. Qed.
Print Assumptions C19_eq_is_equality.

Theorem C19_lt_strict_total_order :
  (forall a, vlt Zops a a = false) /\
  (forall a b c, vlt Zops a b = true -> vlt Zops b c = true -> vlt Zops a c = true) /\
  (forall a b, length a = length b ->
     (vlt Zops a b = true /\ a <> b /\ vlt Zops b a = false) \/
     (vlt Zops a b = false /\ a = b /\ vlt Zops b a = false) \/
     (vlt Zops a b = false /\ a <> b /\ vlt Zops b a = true)) /\
  (forall a x y, vlt Zops (a ++ [x]) (a ++ [y]) = (x <? y)).
Proof. exact (conj vlt_irrefl (conj vlt_trans (conj vlt_trichotomy vlt_last))). Qed.
Print Assumptions C19_lt_strict_total_order.

Theorem C19_dot_symmetric_bilinear :
  (forall a b, dot Zops a b = dot Zops b a) /\
  (forall a a' b, length a = length a' -> dot Zops (vadd Zops a a') b = dot Zops a b + dot Zops a' b) /\
  (forall a b b', length b = length b' -> dot Zops a (vadd Zops b b') = dot Zops a b + dot Zops a b') /\
  (forall a b s, dot Zops (vscale Zops a s) b = s * dot Zops a b) /\
  (forall a b s, dot Zops a (vscale Zops b s) = s * dot Zops a b) /\
  (forall a, 0 <= sqrnorm Zops a) /\
  (forall a, sqrnorm Zops a = 0 <-> Forall (fun x => x = 0) a).
Proof.
  exact (conj dot_sym (conj dot_add_l (conj dot_add_r (conj dot_scale_l (conj dot_scale_r (conj sqrnorm_nonneg sqrnorm_zero)))))).
Qed.
Print Assumptions C19_dot_symmetric_bilinear.

Theorem C19_cross_orthogonal_antisymmetric_lagrange : forall a b : list Z, length a = 3%nat -> length b = 3%nat ->
  dot Zops (cross Zops a b) a = 0 /\
  dot Zops (cross Zops a b) b = 0 /\
  cross Zops a b = vneg Zops (cross Zops b a) /\
  sqrnorm Zops (cross Zops a b) = sqrnorm Zops a * sqrnorm Zops b - dot Zops a b * dot Zops a b.
Proof.
  intros a b Ha Hb.
  exact (conj (cross_orth_l a b Ha Hb) (conj (cross_orth_r a b Ha Hb) (conj (cross_antisym a b Ha Hb) (cross_lagrange a b Ha Hb)))).
Qed.
Print Assumptions C19_cross_orthogonal_antisymmetric_lagrange.

Theorem C19_minmax_lattice :
  (forall a b, vmin2 Zops a b = vmin2 Zops b a) /\ (forall a b, vmax2 Zops a b = vmax2 Zops b a) /\
  (forall a b c, vmin2 Zops a (vmin2 Zops b c) = vmin2 Zops (vmin2 Zops a b) c) /\
  (forall a b c, vmax2 Zops a (vmax2 Zops b c) = vmax2 Zops (vmax2 Zops a b) c) /\
  (forall a, vmin2 Zops a a = a) /\ (forall a, vmax2 Zops a a = a) /\
  (forall a b, length a = length b -> vmin2 Zops a (vmax2 Zops a b) = a) /\
  (forall a b, length a = length b -> vmax2 Zops a (vmin2 Zops a b) = a).
Proof.
  exact (conj vmin2_comm (conj vmax2_comm (conj vmin2_assoc (conj vmax2_assoc (conj vmin2_idem (conj vmax2_idem
        (conj vmin2_absorb vmax2_absorb))))))).
Qed.
Print Assumptions C19_minmax_lattice.

Theorem C19_minimize_maximize_idempotent_and_flags :
  (forall a b, minimize Zops (minimize Zops a b) b = minimize Zops a b) /\
  (forall a b, maximize Zops (maximize Zops a b) b = maximize Zops a b) /\
  (forall a b i, (i < length a)%nat -> length a = length b ->
     nth i (minimize Zops a b) 0 = Z.min (nth i a 0) (nth i b 0) /\ nth i (maximize Zops a b) 0 = Z.max (nth i a 0) (nth i b 0)) /\
  (forall a b, snd (minimized Zops a b) = minimize Zops a b /\ snd (maximized Zops a b) = maximize Zops a b) /\
  (forall a b, length a = length b ->
     (fst (minimized Zops a b) = true <-> exists i, (i < length a)%nat /\ nth i b 0 <= nth i a 0) /\
     (fst (maximized Zops a b) = true <-> exists i, (i < length a)%nat /\ nth i a 0 <= nth i b 0)).
Proof.
  split; [exact minimize_idem|]. split; [exact maximize_idem|]. split.
  - intros a b i Hi L. split; [apply minimize_nth_Z | apply maximize_nth_Z]; assumption.
  - split.
    + intros a b. split; [apply minimized_vec_Z | apply maximized_vec_Z].
    + intros a b L. split; [apply minimized_flag_Z | apply maximized_flag_Z]; assumption.
Qed.
Print Assumptions C19_minimize_maximize_idempotent_and_flags.

(* unsigned: every ring operation and reduction is the exact integer one reduced mod 2^32 *)
Theorem C19_unsigned_is_mod_2_32 : forall a b : list Z,
  vadd Uops a b = map c_uint (vadd Zops a b) /\ vsub Uops a b = map c_uint (vsub Zops a b) /\
  vmul Uops a b = map c_uint (vmul Zops a b) /\ vneg Uops a = map c_uint (vneg Zops a) /\
  dot Uops a b = c_uint (dot Zops a b) /\ sqrnorm Uops a = c_uint (sqrnorm Zops a) /\
  (Forall (fun x => 0 <= x < 2 ^ 32) a -> l1_norm Uops a = c_uint (l1_norm Zops a)).
Proof.
  intros a b. exact (conj (vadd_U a b) (conj (vsub_U a b) (conj (vmul_U a b) (conj (vneg_U a) (conj (dot_U a b) (conj (sqrnorm_U a) (l1_norm_U a))))))).
Qed.
Print Assumptions C19_unsigned_is_mod_2_32.

(* the rational reference used for float/double: same defining sums, up to equality of rationals *)
Theorem C19_rational_reference_sums : forall a b : list Q,
  (dot Qops a b == qsum (map2 Qmult a b))%Q /\
  (sqrnorm Qops a == qsum (map (fun x => x * x) a))%Q /\
  (l1_norm Qops a == qsum a)%Q /\
  (mean Qops a == qsum a / inject_Z (Z.of_nat (length a)))%Q /\
  (a <> [] -> mean_abs Qops a == qsum (map Qabs a) / inject_Z (Z.of_nat (length a)))%Q.
Proof.
  intros a b. exact (conj (dot_Q_sum a b) (conj (sqrnorm_Q_sum a) (conj (l1_norm_Q_sum a) (conj (mean_Q a) (mean_abs_Q a))))).
Qed.
Print Assumptions C19_rational_reference_sums.

(* ------------------------------------------------------------------ GeometryKernel queries *)

Theorem C19_geo_vector_and_length : forall (pos : nat -> list Z), (forall v, length (pos v) = 3%nat) ->
  forall (s : mesh) (h e : nat),
  (forall i, (i < 3)%nat ->
     nth i (g_vector_he Zops pos s h) 0 = nth i (pos (he_to s h)) 0 - nth i (pos (he_from s h)) 0) /\
  g_vector_e Zops pos s e = g_vector_he Zops pos s (2 * e) /\
  g_vector_he Zops pos s (opp h) = vneg Zops (g_vector_he Zops pos s h) /\
  g_sqrlen_he Zops pos s (opp h) = g_sqrlen_he Zops pos s h /\
  g_sqrlen_he Zops pos s h =
    (let d (i : nat) := nth i (pos (he_to s h)) 0 - nth i (pos (he_from s h)) 0 in
     d 0%nat * d 0%nat + d 1%nat * d 1%nat + d 2%nat * d 2%nat).
Proof.
  intros pos P s h e. split; [intros i Hi; apply g_vector_he_nth; assumption|].
  split; [apply g_vector_e_he|]. split; [apply g_vector_he_opp|]. split; [apply g_sqrlen_he_opp|].
  apply g_sqrlen_he_formula. assumption.
Qed.
Print Assumptions C19_geo_vector_and_length.

Theorem C19_geo_barycenters : forall (pos : nat -> list Q), (forall v, length (pos v) = 3%nat) ->
  forall (s : mesh) (e f c i : nat), (i < 3)%nat ->
  (nth i (g_bary_edge Qops (1 # 2) pos s e) 0 ==
     (nth i (pos (he_from s (2 * e))) 0 + nth i (pos (he_to s (2 * e))) 0) / 2)%Q /\
  (nth i (g_bary_face Qops 3 pos s f) 0 ==
     coord_sum pos i (map (he_from s) (face_at s f)) / inject_Z (Z.of_nat (length (face_at s f))))%Q /\
  (nth i (g_bary_cell Qops 3 pos s c) 0 ==
     coord_sum pos i (g_cell_vertices s c) / inject_Z (Z.of_nat (length (g_cell_vertices s c))))%Q.
Proof.
  intros pos P s e f c i Hi.
  exact (conj (g_bary_edge_nth pos P s e i Hi) (conj (g_bary_face_nth pos P s f i Hi) (g_bary_cell_nth pos P s c i Hi))).
Qed.
Print Assumptions C19_geo_barycenters.

Theorem C19_geo_cell_vertex_set : forall (s : mesh) (c : nat),
  NoDup (g_cell_vertices s c) /\ ascending (g_cell_vertices s c) /\
  forall v, In v (g_cell_vertices s c) <->
            exists hf h, In hf (cell_at s c) /\ In h (face_at s (hf / 2)) /\ v = he_from s h.
Proof. exact g_cell_vertices_spec. Qed.
Print Assumptions C19_geo_cell_vertex_set.

(* halfface normal before normalisation = the cross product the code computes at the first corner of the
   halfface's own halfedge list; on triangles the two sides are EXACTLY opposite *)
Theorem C19_normals_opposite_triangle : forall (pos : nat -> list Z), (forall v, length (pos v) = 3%nat) ->
  forall (s : mesh) (f : nat), closed_cycle s (face_at s f) -> length (face_at s f) = 3%nat ->
  g_normal_raw Zops pos s (2 * f + 1) = vneg Zops (g_normal_raw Zops pos s (2 * f)).
Proof.
  intros pos P s f C L. apply normal_raw_opposite_triangle; try assumption. rewrite L. apply le_n.
Qed.
Print Assumptions C19_normals_opposite_triangle.

(* general faces, under the hypothesis GeometryKernel.hh:178 documents ("assuming planarity (just uses first
   2 edges)") made precise as planar AND strictly convex: the two sides are a positive and a negative multiple
   of the same vector *)
Theorem C19_normals_opposite_planar_convex : forall (pos : nat -> list Z), (forall v, length (pos v) = 3%nat) ->
  forall (s : mesh) (f : nat) (N : list Z), closed_cycle s (face_at s f) -> (3 <= length (face_at s f))%nat ->
  planar_convex pos s f N ->
  exists k0 k1, 0 < k0 /\ 0 < k1 /\
    g_normal_raw Zops pos s (2 * f) = vscale Zops N k0 /\
    g_normal_raw Zops pos s (2 * f + 1) = vneg Zops (vscale Zops N k1).
Proof. intros pos P s f N C L PC. apply normal_raw_opposite_planar_convex; assumption. Qed.
Print Assumptions C19_normals_opposite_planar_convex.

(* Without convexity the statement "the normals of the two sides of a face are opposite" is FALSE of the
   faithful model, even for a planar face: *)
Theorem C19_normals_opposite_planar_only_refuted :
  exists (s : mesh) (pos : nat -> list Z) (f : nat),
    closed_cycle s (face_at s f) /\ (forall v, length (pos v) = 3%nat) /\ (forall v, nth 2 (pos v) 0 = 0) /\
    ~ exists k0 k1, 0 < k0 /\ 0 < k1 /\
        vscale Zops (g_normal_raw Zops pos s (2 * f + 1)) k0 = vneg Zops (vscale Zops (g_normal_raw Zops pos s (2 * f)) k1).
Proof. exact normal_opposite_unconditional_refuted. Qed.
Print Assumptions C19_normals_opposite_planar_only_refuted.

(* ------------------------------------------------------------------ non-vacuity *)
Example C19_ex_cross : cross Zops [1; 0; 0] [0; 1; 0] = [0; 0; 1] /\ dot Zops [1; 2; 3] [4; 5; 6] = 32.
Proof. split; reflexivity. Qed.
Example C19_ex_lt : vlt Zops [1; 2; 3] [1; 2; 4] = true /\ vlt Zops [1; 2; 4] [1; 2; 3] = false /\ vlt Zops [0; 9; 9] [1; 0; 0] = true.
Proof. repeat split; reflexivity. Qed.
Example C19_ex_l1_witness : l1_norm Zops [-1; 2; 0] = 1 /\ zsum (map Z.abs [-1; 2; 0]) = 3 /\ mean Zops [-1; 2; 0] = 0.
Proof. repeat split; reflexivity. Qed.
Example C19_ex_unsigned_wraps : vsub Uops [1; 2] [2; 2] = [4294967295; 0].
Proof. reflexivity. Qed.
Example C19_ex_planar_convex_satisfiable : planar_convex square_pos square_mesh 0 [0; 0; 1] /\ closed_cycle square_mesh (face_at square_mesh 0).
Proof. split; [exact square_planar_convex | apply loop_ok_spec; vm_compute; reflexivity]. Qed.
Example C19_ex_dart : g_normal_raw Zops dart_pos dart_mesh 0 = [0; 0; -3] /\ g_normal_raw Zops dart_pos dart_mesh 1 = [0; 0; -9].
Proof. exact dart_same_direction. Qed.
