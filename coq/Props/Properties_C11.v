(* Props/Properties_C11.v -- C11: construction validates (edge dedup, topology checks accept exactly
   valid input, rejected calls change nothing, accepted calls append exactly one entity). *)
From Coq Require Import ZArith List Arith.
From OVM Require Import Kernel.State Kernel.Ops Kernel.Mirror Kernel.Construct Kernel.CellCheck.
Import ListNotations.

(* a rejected or deduplicated call returns the invalid (or existing) handle and the SAME state: every
   component of the mesh record - definitions, flags, counters, caches, every property array *)
Theorem C11_rejected_or_deduplicated_call_changes_nothing : forall (s : mesh),
  (forall hes, loop_ok s hes = false -> add_face s hes true = (s, None)) /\
  (forall hfs, cell_check s hfs = false -> add_cell s hfs true = (s, None)) /\
  (forall a b e, find_dup_edge s a b = Some e -> add_edge s a b false = (s, e)).
Proof. intros s. exact (conj (add_face_rejected s) (conj (add_cell_rejected s) (add_edge_dedup s))). Qed.
Print Assumptions C11_rejected_or_deduplicated_call_changes_nothing.

Theorem C11_face_check_accepts_exactly_closed_loops : forall (s : mesh) (hes : list nat),
  (exists s' f, add_face s hes true = (s', Some f)) <-> closed_cycle s hes.
Proof. intros s hes. rewrite add_face_accepted_iff. exact (loop_ok_spec s hes). Qed.
Print Assumptions C11_face_check_accepts_exactly_closed_loops.

Theorem C11_cell_check_accepts_exactly_closed_surfaces : forall (s : mesh) (hfs : list nat),
  (exists s' c, add_cell s hfs true = (s', Some c)) <->
  (hfs <> [] /\ matched_once (concat (map (halfface s) hfs))).
Proof. intros s hfs. rewrite add_cell_accepted_iff. exact (cell_check_spec s hfs). Qed.
Print Assumptions C11_cell_check_accepts_exactly_closed_surfaces.

(* add_edge without allowDuplicates: the existing LIVE edge between the two vertices (either direction), else a new one.
   With vertex incidences on, the search goes through the outgoing-halfedge cache, hence the exactness hypothesis
   (C01's invariant at vertex a). *)
Theorem C11_add_edge_finds_existing_live_edge : forall (s : mesh) (a b : nat),
  (vbu s = false \/ out_exact_at s a) ->
  (forall e, find_dup_edge s a b = Some e -> e < ne s /\ e_deleted s e = false /\ joins s e a b) /\
  (find_dup_edge s a b = None -> (forall e, e < ne s -> e_deleted s e = false -> ~ joins s e a b) /\
                                 add_edge s a b false = append_edge s a b).
Proof.
  intros s a b H. destruct (vbu s) eqn:V.
  - destruct H as [H|H]; [discriminate|]. split.
    + intros e. exact (find_dup_cached_sound s a b e V H).
    + intros N. exact (conj (find_dup_cached_complete s a b V H N) (add_edge_fresh s a b N)).
  - split.
    + intros e. exact (find_dup_scan_sound s a b e V).
    + intros N. exact (conj (find_dup_scan_complete s a b V N) (add_edge_fresh s a b N)).
Qed.
Print Assumptions C11_add_edge_finds_existing_live_edge.

(* an accepted call appends exactly one entity with exactly the given definition; everything else is untouched and
   every property of the grown kinds gets one (two) new default element(s) *)
Theorem C11_accepted_edge_appends_exactly_one : forall s a b, let '(s', e) := append_edge s a b in
  e = ne s /\ edges s' = edges s ++ [(a, b)] /\ edel s' = edel s ++ [false] /\ topo_eq_except_edges s s' /\
  inc_cell s' = inc_cell s /\
  pv s' = pv s /\ pf s' = pf s /\ phf s' = phf s /\ pc s' = pc s /\ pm s' = pm s /\
  pe s' = map (presize (S (ne s))) (pe s) /\ phe s' = map (presize (2 * S (ne s))) (phe s).
Proof. exact append_edge_effect. Qed.
Print Assumptions C11_accepted_edge_appends_exactly_one.

Theorem C11_accepted_face_appends_exactly_one : forall s hes, let '(s', f) := append_face s hes in
  f = nf s /\ faces s' = faces s ++ [hes] /\ fdel s' = fdel s ++ [false] /\
  nv s' = nv s /\ edges s' = edges s /\ cells s' = cells s /\ vdel s' = vdel s /\ edel s' = edel s /\ cdel s' = cdel s /\
  out_hes s' = out_hes s /\
  pv s' = pv s /\ pe s' = pe s /\ phe s' = phe s /\ pc s' = pc s /\ pm s' = pm s /\
  pf s' = map (presize (S (nf s))) (pf s) /\ phf s' = map (presize (2 * S (nf s))) (phf s).
Proof. exact append_face_effect. Qed.
Print Assumptions C11_accepted_face_appends_exactly_one.

Theorem C11_accepted_cell_appends_exactly_one : forall s hfs, let '(s', c) := append_cell s hfs in
  c = nc s /\ cells s' = cells s ++ [hfs] /\ cdel s' = cdel s ++ [false] /\
  nv s' = nv s /\ edges s' = edges s /\ faces s' = faces s /\ vdel s' = vdel s /\ edel s' = edel s /\ fdel s' = fdel s /\
  out_hes s' = out_hes s /\
  pv s' = pv s /\ pe s' = pe s /\ phe s' = phe s /\ pf s' = pf s /\ phf s' = phf s /\ pm s' = pm s /\
  pc s' = map (presize (S (nc s))) (pc s).
Proof. exact append_cell_effect. Qed.
Print Assumptions C11_accepted_cell_appends_exactly_one.

(* non-vacuity: on a concrete tetrahedron surface the checks accept the closed inputs and reject open / doubled ones *)
Example C11_concrete :
  let s := run [AddVertices 4; AddFaceV [0; 1; 2]; AddFaceV [0; 2; 3]; AddFaceV [0; 3; 1]; AddFaceV [1; 3; 2]] in
  cell_check s [0; 2; 4; 6] = true /\ cell_check s [0; 2; 4] = false /\ cell_check s [0; 2; 4; 6; 6] = false /\
  cell_check s [] = false /\ loop_ok s [0; 2; 4] = true /\ loop_ok s [0; 2] = false /\ loop_ok s [] = false /\
  find_dup_edge s 1 0 = Some 0 /\ find_dup_edge s 0 0 = None.
Proof. vm_compute. repeat split. Qed.
