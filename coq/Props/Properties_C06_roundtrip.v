(* Props/Properties_C06_roundtrip.v -- C06 (OVMB): the round trip itself, for ALL meshes.
   Statements only; proofs are `exact <lemma of IO/Ovmb2*.v>`.  (The C18 and C07 theorems these proofs made possible are in
   Props/Properties_C18.v: C18_encode_small, C18_prefix', and Props/Properties_C07.v: C07_valid for every configuration.)

   `encode` = BinaryFileWriter, `decode_impl` = BinaryFileReader, `decode_spec` = the published description only
   (IO/OvmbWriterModel.v, IO/OvmbReaderModel.v, IO/OvmbSpec.v).

   Hypotheses of the round trip (IO/Ovmb2RoundTrip.v):
   * `wf_file dim m`   the writer's contract (IO/OvmbWriterModel.v);
   * `accepts o dim topo m`  the reader configuration fits the file: dimension of the mesh object (>= 1), mesh class vs. the
     header's topology type, the type's valence restrictions, and the kernel's add_face / add_cell with the configured checks
     store every face / cell as given (trivially true with the check off on a polyhedral mesh: C06_roundtrip_plain);
   * `fits dim m`  explicit size bounds, none of which is a limit of the reader: two are limits of the WRITER (property index
     and length of a serialized default are stored as uint32_t: fewer than 2^32 properties, defaults below 2^32 bytes), the
     others keep every chunk payload below 2^62 bytes, the range on which the model's padding arithmetic is proved exact
     (n_vertices * 8 * dim < 2^61, fewer than 2^59 handles in all faces resp. cells, directory and property values below
     2^62 resp. 2^61 bytes).  The reader's former 32-bit limits (n_vertices * 8 * dim < 2^32, valence * count < 2^32 in a
     fixed-valence chunk) are gone with "fix: OVMB reader computed chunk sizes in 32 bits": C06_roundtrip_beyond_4GB. *)
From Coq Require Import ZArith List Bool.
From OVM Require Import Base.Int32 Gen.OvmbFormat IO.Bytes IO.OvmbWriterModel IO.OvmbReaderModel IO.OvmbSpec IO.OvmbProofs
  IO.Ovmb2Chunk IO.Ovmb2Alt IO.Ovmb2Run IO.Ovmb2PropGroup IO.Ovmb2Layout IO.Ovmb2Writer IO.Ovmb2RoundTrip
  IO.Ovmb2SpecRoundTrip IO.Ovmb2Limits IO.Ovmb2Examples.
Import ListNotations.
Local Open Scope Z_scope.

(* ================================================================================================ C06 *)

(* Reading what the writer wrote gives back exactly the mesh value: entity counts, positions as bit patterns, edges, faces and
   cells handle for handle in order, every persistent property with entity kind, name, type, default and values bit for bit -
   for every mesh, every integer width the writer selects (255/256, 65535/65536 boundaries included), fixed- and
   variable-valence chunks, every registered property codec, every accepting reader configuration. *)
Theorem C06_roundtrip : forall o dim topo m,
  wf_file dim m -> fits dim m -> accepts o dim topo m -> decode_impl o (encode dim topo m) = ROk m.
Proof. exact roundtrip_impl. Qed.
Print Assumptions C06_roundtrip.

Example C06_roundtrip_nonvacuous :
  (wf_file 3 ex_rich /\ fits 3 ex_rich /\ accepts ex_rich_opts 3 0 ex_rich) /\
  (wf_file 3 ex_tet /\ fits 3 ex_tet /\ accepts ex_opts 3 1 ex_tet /\
   accepts {| o_mesh := MTet; o_check := true; o_bu := false; o_dim := 3 |} 3 1 ex_tet) /\
  (wf_file 3 ex_hex /\ fits 3 ex_hex /\ accepts {| o_mesh := MHex; o_check := true; o_bu := true; o_dim := 3 |} 3 2 ex_hex) /\
  (wf_file 3 ex_mixed /\ fits 3 ex_mixed /\ accepts {| o_mesh := MPoly; o_check := false; o_bu := false; o_dim := 3 |} 3 0 ex_mixed).
Proof. split; [exact ex_rich_hyps|]. split; [exact ex_tet_hyps|]. split; [exact ex_hex_hyps|exact ex_mixed_hyps]. Qed.

(* A mesh beyond the reader's former 32-bit limit - 178956971 vertices in dimension 3, 178956971 * 24 = 2^32 + 8 payload bytes,
   which the library used to write Ok and read back as InvalidFile - is an ordinary instance now: it is well-formed and within
   `fits` (shown on the bounds, without evaluating the 4 GB encoding), so it round-trips with the reader and with the description. *)
Theorem C06_roundtrip_beyond_4GB :
  wf_file 3 big_mesh /\ fits 3 big_mesh /\ 4294967296 <= m_nv big_mesh * (8 * 3) /\
  decode_impl (plain_opts 3) (encode 3 TopoType_Polyhedral big_mesh) = ROk big_mesh /\
  decode_spec 3 (encode 3 TopoType_Polyhedral big_mesh) = Some big_mesh.
Proof.
  split; [exact big_mesh_wf|]. split; [exact big_mesh_fits|]. split; [exact big_mesh_beyond_old_limit|exact big_mesh_roundtrip].
Qed.
Print Assumptions C06_roundtrip_beyond_4GB.

(* Polyhedral mesh object, topology check off: no hypothesis about the kernel is left. *)
Theorem C06_roundtrip_plain : forall o dim m,
  o_mesh o = MPoly -> o_check o = false -> o_dim o = dim -> 1 <= dim ->
  wf_file dim m -> fits dim m -> decode_impl o (encode dim TopoType_Polyhedral m) = ROk m.
Proof. intros o dim m H1 H2 H3 H4 W F. apply roundtrip_impl; [exact W|exact F|apply accepts_poly_nocheck; assumption]. Qed.
Print Assumptions C06_roundtrip_plain.

(* The bytes the writer produces decode under the published format description to that same mesh. *)
Theorem C06_spec_roundtrip : forall dim topo m,
  wf_file dim m -> fits dim m -> 1 <= dim -> stopo_ok topo m -> decode_spec dim (encode dim topo m) = Some m.
Proof. exact roundtrip_spec. Qed.
Print Assumptions C06_spec_roundtrip.

Example C06_spec_roundtrip_nonvacuous :
  wf_file 3 ex_rich /\ fits 3 ex_rich /\ stopo_ok 0 ex_rich /\ stopo_ok 1 ex_tet /\ stopo_ok 2 ex_hex.
Proof. split; [apply ex_rich_hyps|]. split; [apply ex_rich_hyps|]. exact ex_rich_stopo. Qed.

(* Every other encoding of the mesh which the description permits - entity lists and property value lists split into any
   spans (`layout`), any valid integer width that holds the values, the variable-valence form where the fixed one would do,
   non-zero handle offsets, optional chunks of unknown type between the groups - reads to that same mesh, with the reader
   and with the description.  (`layout_ok`: IO/Ovmb2Layout.v; `alt_file`, `layout_chunks`: IO/Ovmb2Alt.v, IO/Ovmb2Layout.v.) *)
Theorem C06_reencodings : forall o dim topo m L,
  wf_file dim m -> fits dim m -> accepts o dim topo m -> layout_ok dim m (written_props m) L ->
  decode_impl o (alt_file dim topo m (layout_chunks (written_props m) L)) = ROk m /\
  decode_spec dim (alt_file dim topo m (layout_chunks (written_props m) L)) = Some m.
Proof.
  intros o dim topo m L W F A LO. split; [exact (reencodings_impl o dim topo m L W F A LO)|].
  apply reencodings_spec; try assumption; [exact (ac_dim1 _ _ _ _ A)|exact (accepts_stopo o dim topo m A)].
Qed.
Print Assumptions C06_reencodings.

(* the writer's own file is the member `writer_layout m` of that family *)
Theorem C06_writer_is_a_layout : forall dim topo m, wf_file dim m -> fits dim m -> 1 <= dim ->
  encode dim topo m = alt_file dim topo m (layout_chunks (written_props m) (writer_layout m)) /\
  layout_ok dim m (written_props m) (writer_layout m).
Proof. exact writer_is_layout. Qed.
Print Assumptions C06_writer_is_a_layout.

(* a re-encoding of ex_rich: two VERT chunks, edge chunks of width U16 and U32, a fixed-valence U32 and a variable-valence U8
   face chunk, a variable-valence cell chunk with handle offset 1 and a fixed-valence one, every property in three PROP
   chunks (the bool property split off a byte boundary, one empty span), three optional chunks: 1728 bytes instead of 984 *)
Example C06_reencodings_nonvacuous :
  layout_ok 3 ex_rich (written_props ex_rich) ex_alt /\
  decode_impl ex_rich_opts (alt_file 3 0 ex_rich (layout_chunks (written_props ex_rich) ex_alt)) = ROk ex_rich /\
  decode_spec 3 (alt_file 3 0 ex_rich (layout_chunks (written_props ex_rich) ex_alt)) = Some ex_rich /\
  alt_file 3 0 ex_rich (layout_chunks (written_props ex_rich) ex_alt) <> encode 3 0 ex_rich.
Proof.
  split; [exact ex_alt_ok|]. split; [exact ex_alt_decodes|]. split; [exact ex_alt_spec|].
  intros E. apply (f_equal (@length byte)) in E. vm_compute in E. discriminate E.
Qed.
