(* Props/Properties_C01_queries.v -- the QUERY side of C01: every upward / derived query of the kernel, as coded,
   returns exactly what a brute-force scan over the stored definitions of the not-deleted entities yields, under
   the invariant bu_exact (proved for reachable states in Properties_C01.v by the kernel component) and the
   structural well-formedness wf_iter; deleted entities never appear in an answer.
   Statements only; proofs are `exact <lemma>`; lemmas in Iter/BuildersProofs.v. *)
From Coq Require Import ZArith List.
From OVM Require Import Kernel.State Kernel.Ops Kernel.InvB Kernel.SwapInvol Kernel.Sizes Iter.Builders Iter.CursorProofs Iter.BuildersProofs Iter.Bridge.
Import ListNotations.
Local Open Scope nat_scope.

Theorem C01q_vertex_halfedges : forall s, bu_exact s -> forall v, vbu s = true -> v < nv s ->
  ((forall h, In h (l_voh s v) <-> inc_voh s v h) /\ NoDup (l_voh s v)) /\
  ((forall h, In h (l_vih s v) <-> inc_vih s v h) /\ NoDup (l_vih s v)) /\
  (forall e, In e (l_ve s v) <-> inc_ve s v e) /\
  (forall w, In w (l_vv s v) <-> inc_vv s v w) /\
  ((forall e, live_e s e = true -> fst (edge_at s e) = v -> snd (edge_at s e) = v -> False) -> NoDup (l_ve s v)).
Proof.
  intros s BU v F Hv.
  exact (conj (voh_exact s BU v F Hv) (conj (vih_exact s BU v F Hv) (conj (ve_exact s BU v F Hv) (conj (vv_exact s BU v F Hv) (ve_NoDup s BU v F Hv))))).
Qed.
Print Assumptions C01q_vertex_halfedges.

Theorem C01q_halfedge_edge_faces : forall s, bu_exact s -> ebu s = true ->
  (forall h, h < 2 * ne s ->
     ((forall hf, In hf (l_hehf s h) <-> inc_hehf s h hf) /\ NoDup (l_hehf s h)) /\
     ((forall f, In f (l_hef s h) <-> inc_ef s (h / 2) f) /\ NoDup (l_hef s h))) /\
  (forall e, e < ne s ->
     ((forall f, In f (l_ef s e) <-> inc_ef s e f) /\ NoDup (l_ef s e)) /\
     (forall hf, In hf (l_ehf s e) <-> inc_ehf s e hf)).
Proof.
  intros s BU Fe. split.
  - intros h Hh. exact (conj (hehf_exact s BU h Fe Hh) (hef_exact s BU h Fe Hh)).
  - intros e He. exact (conj (ef_exact s BU e Fe He) (ehf_exact s BU e Fe He)).
Qed.
Print Assumptions C01q_halfedge_edge_faces.

Theorem C01q_cells_of_halfedge_edge : forall s, bu_exact s -> wf_iter s -> ebu s = true -> fbu s = true ->
  (forall h, h < 2 * ne s -> (forall c, In c (l_hec s h) <-> inc_hec s h c) /\ NoDup (l_hec s h)) /\
  (forall e, e < ne s -> (forall c, In c (l_ec s e) <-> inc_hec s (2 * e) c) /\ NoDup (l_ec s e)) /\
  (forall e, e < ne s -> cells_closed s -> forall c, In c (l_ec s e) <-> inc_ec_nat s e c).
Proof.
  intros s BU WF Fe Ff. split; [|split].
  - intros h Hh. exact (hec_exact s BU WF h Fe Ff Hh).
  - intros e He. exact (ec_exact s BU WF e Fe Ff He).
  - intros e He. exact (ec_natural s BU WF e Fe Ff He).
Qed.
Print Assumptions C01q_cells_of_halfedge_edge.

Theorem C01q_vertex_faces_cells : forall s, bu_exact s -> wf_iter s -> forall v, v < nv s ->
  (vbu s = true -> ebu s = true -> (forall hf, In hf (l_vhf s v) <-> inc_vhf s v hf) /\ NoDup (l_vhf s v)) /\
  (full_bu s = true ->
     ((forall f, In f (l_vf s v) <-> inc_vf s v f) /\ NoDup (l_vf s v)) /\
     ((forall c, In c (l_vc s v) <-> inc_vc s v c) /\ NoDup (l_vc s v)) /\
     (faces_closed s -> forall c, In c (l_vc s v) <-> inc_vc_nat s v c)).
Proof.
  intros s BU WF v Hv. split.
  - intros Fv Fe. exact (vhf_exact s BU WF v Fv Fe Hv).
  - intros F. exact (conj (vf_exact s BU WF v F Hv) (conj (vc_exact s BU WF v F Hv) (vc_natural s BU WF v F Hv))).
Qed.
Print Assumptions C01q_vertex_faces_cells.

Theorem C01q_cell_cells : forall s, bu_exact s -> wf_iter s -> forall c, fbu s = true -> live_c s c = true ->
  (forall c', In c' (l_cc s c) <-> inc_cc s c c') /\ NoDup (l_cc s c).
Proof. exact cc_exact. Qed.
Print Assumptions C01q_cell_cells.

(* edge_cells / vertex_cells are NOT the natural incident sets on cells / faces accepted without topology check *)
Theorem C01q_edge_cells_natural_refuted :
  exists s e c, bu_exact s /\ wf_iter s /\ ebu s = true /\ fbu s = true /\ e < ne s /\ inc_ec_nat s e c /\ ~ In c (l_ec s e).
Proof. exact ec_natural_refuted. Qed.
Print Assumptions C01q_edge_cells_natural_refuted.
Theorem C01q_vertex_cells_natural_refuted :
  exists s v c, bu_exact s /\ wf_iter s /\ full_bu s = true /\ v < nv s /\ inc_vc_nat s v c /\ ~ In c (l_vc s v).
Proof. exact vc_natural_refuted. Qed.
Print Assumptions C01q_vertex_cells_natural_refuted.

Theorem C01q_is_boundary : forall s, bu_exact s -> wf_iter s -> fbu s = true ->
  (forall hf, hf < 2 * nf s -> exists b, isb_hf s hf = Some b /\ (b = true <-> bnd_hf s hf)) /\
  (forall f, f < nf s -> exists b, isb_f s f = Some b /\ (b = true <-> bnd_f s f)) /\
  (ebu s = true -> forall h, h < 2 * ne s -> exists b, isb_he s h = Some b /\ (b = true <-> bnd_e s (h / 2))) /\
  (ebu s = true -> forall e, e < ne s -> exists b, isb_e s e = Some b /\ (b = true <-> bnd_e s e)) /\
  (full_bu s = true -> forall v, v < nv s -> exists b, isb_v s v = Some b /\ (b = true <-> bnd_v s v)) /\
  (forall c, live_c s c = true -> exists b, isb_c s c = Some b /\ (b = true <-> bnd_c s c)).
Proof.
  intros s BU WF Ff. repeat apply conj.
  - intros hf H. exact (isb_hf_exact s BU WF hf Ff H).
  - intros f H. exact (isb_f_exact s BU WF f Ff H).
  - intros Fe h H. exact (isb_he_exact s BU WF h Fe Ff H).
  - intros Fe e H. exact (isb_e_exact s BU WF e Fe Ff H).
  - intros F v H. exact (isb_v_exact s BU WF v F H).
  - intros c L. exact (isb_c_exact s BU WF c Ff L).
Qed.
Print Assumptions C01q_is_boundary.

Theorem C01q_valence : forall s, bu_exact s -> wf_iter s ->
  (vbu s = true -> forall v, v < nv s -> valence_v s v = Some (length (brute_out s v))) /\
  (ebu s = true -> forall e, e < ne s -> valence_e s e = Some (length (brute_hfs s (2 * e)))) /\
  (forall f, f < nf s -> valence_f s f = Some (length (face_at s f))) /\
  (forall c, c < nc s -> valence_c s c = Some (length (cell_at s c))) /\
  (forall v h, In h (brute_out s v) <-> inc_voh s v h) /\ (forall h hf, In hf (brute_hfs s h) <-> inc_hehf s h hf).
Proof.
  intros s BU WF. repeat apply conj.
  - intros F v H. exact (valence_v_exact s BU WF v F H).
  - intros F e H. exact (valence_e_exact s BU WF e F H).
  - exact (valence_f_exact s).
  - exact (valence_c_exact s).
  - exact (brute_out_In s).
  - exact (brute_hfs_In s).
Qed.
Print Assumptions C01q_valence.

(* with the incidence kind disabled the public functions read the empty cache out of range (NDEBUG: asserts gone) *)
Theorem C01q_disabled_kinds_undefined : forall s,
  (out_hes s = [] -> forall v, valence_v s v = None) /\
  (inc_hfs s = [] -> forall e, valence_e s e = None) /\
  (inc_cell s = [] -> (forall hf, isb_hf s hf = None) /\ forall c hf t, cell_at s c = hf :: t -> isb_c s c = None).
Proof.
  intros s. repeat apply conj.
  - intros E v. exact (valence_v_disabled s v E).
  - intros E e. exact (valence_e_disabled s e E).
  - intros E. split; [intros hf; exact (isb_hf_disabled s hf E)|intros c hf t C; exact (isb_c_disabled s c hf t E C)].
Qed.
Print Assumptions C01q_disabled_kinds_undefined.

(* C01_no_deleted for the queries: every element of every answer is a live entity *)
Theorem C01q_no_deleted : forall s, bu_exact s -> wf_iter s ->
  (forall v, vbu s = true -> v < nv s ->
     (forall h, In h (l_voh s v) -> live_he s h = true) /\ (forall h, In h (l_vih s v) -> live_he s h = true) /\
     (forall e, In e (l_ve s v) -> live_e s e = true) /\ (forall w, In w (l_vv s v) -> live_v s w = true) /\
     (ebu s = true -> forall hf, In hf (l_vhf s v) -> live_hf s hf = true) /\
     (full_bu s = true -> (forall f, In f (l_vf s v) -> live_f s f = true) /\ (forall c, In c (l_vc s v) -> live_c s c = true))) /\
  (forall h, ebu s = true -> h < 2 * ne s ->
     (forall hf, In hf (l_hehf s h) -> live_hf s hf = true) /\ (forall f, In f (l_hef s h) -> live_f s f = true) /\
     (fbu s = true -> forall c, In c (l_hec s h) -> live_c s c = true)) /\
  (forall e, ebu s = true -> e < ne s ->
     (forall f, In f (l_ef s e) -> live_f s f = true) /\ (forall hf, In hf (l_ehf s e) -> live_hf s hf = true) /\
     (fbu s = true -> forall c, In c (l_ec s e) -> live_c s c = true)) /\
  (forall c, fbu s = true -> live_c s c = true -> forall c', In c' (l_cc s c) -> live_c s c' = true).
Proof.
  intros s BU WF. repeat apply conj.
  - intros v F Hv. repeat apply conj.
    + intros h. exact (voh_live s BU v h F Hv).
    + intros h. exact (vih_live s BU v h F Hv).
    + intros e. exact (ve_live s BU v e F Hv).
    + intros w. exact (vv_live s BU WF v w F Hv).
    + intros Fe hf. exact (vhf_live s BU WF v hf F Fe Hv).
    + intros Ff. split; [intros f; exact (vf_live s BU WF v f Ff Hv)|intros c; exact (vc_live s BU WF v c Ff Hv)].
  - intros h Fe Hh. repeat apply conj.
    + intros hf. exact (hehf_live s BU h hf Fe Hh).
    + intros f. exact (hef_live s BU h f Fe Hh).
    + intros Ff c. exact (hec_live s BU WF h c Fe Ff Hh).
  - intros e Fe He. repeat apply conj.
    + intros f. exact (ef_live s BU e f Fe He).
    + intros hf. exact (ehf_live s BU e hf Fe He).
    + intros Ff c. exact (ec_live s BU WF e c Fe Ff He).
  - intros c Ff L c'. exact (cc_live s BU WF c c' Ff L).
Qed.
Print Assumptions C01q_no_deleted.

Theorem C01q_boundary_iterators : forall (k : kind) (s : mesh), k <> KM -> bu_exact s -> wf_iter s -> flags_sized s ->
  bnd_has_inc k s = true ->
  (exists b e, bnd_begin k s = Some b /\
               b_trace (S (ent_n k s)) (ent_rdel k s) (ent_n k s) (is_boundary k s) b
               = Some (map Z.of_nat (filter (fun i => negb (ent_deleted k s i) && bdry k s i) (seq 0 (ent_n k s))), e) /\
               b_valid e = false) /\
  (forall i, i < ent_n k s -> ent_deleted k s i = false -> (bdry k s i = true <-> bnd_of k s i)).
Proof. exact boundary_iter_exact. Qed.
Print Assumptions C01q_boundary_iterators.

(* a boundary iterator whose incidence guard fails (bc_iter: face incidences, since the D8 repair) is invalid at construction *)
Theorem C01q_boundary_unguarded_invalid : forall (k : kind) (s : mesh), k <> KM -> flags_sized s -> bnd_has_inc k s = false ->
  exists it0, bnd_begin k s = Some (mkB it0 false (-1)%Z).
Proof. exact boundary_iter_unguarded_invalid. Qed.
Print Assumptions C01q_boundary_unguarded_invalid.

(* ---- bridge to the kernel component: the hypotheses of every theorem above hold in every state on which the extracted
   decidable invariants of Kernel/InvB.v return true (they are evaluated by the model driver on every state the C01
   correspondence run visits); `sized` is proved for every reachable state (Kernel/Sizes.v) *)
Theorem C01q_hypotheses_from_checkers : forall s,
  vbu_ok_b s = true /\ ebu_ok_b s = true /\ fbu_ok_b s = true /\ valid_b s = true -> sized s ->
  bu_exact s /\ wf_iter s /\ flags_sized s.
Proof. exact query_hypotheses_of_checkers. Qed.
Print Assumptions C01q_hypotheses_from_checkers.

Theorem C01q_hypotheses_reachable : forall ops,
  vbu_ok_b (run ops) = true /\ ebu_ok_b (run ops) = true /\ fbu_ok_b (run ops) = true /\ valid_b (run ops) = true ->
  bu_exact (run ops) /\ wf_iter (run ops) /\ flags_sized (run ops).
Proof. intros ops H. exact (query_hypotheses_of_checkers (run ops) H (sized_reachable ops)). Qed.
Print Assumptions C01q_hypotheses_reachable.

Example C01q_hypotheses_satisfiable :
  (bu_exact ex_two_tets /\ wf_iter ex_two_tets /\ full_bu ex_two_tets = true) /\
  (bu_exact ex_deleted /\ wf_iter ex_deleted /\ full_bu ex_deleted = true /\ ndv ex_deleted = 2 /\ ndc ex_deleted = 1).
Proof. exact (conj ex_two_tets_ok ex_deleted_ok). Qed.
