(* Props/Properties_C12.v -- C12: bottom-up incidences are optional: safe to disable, transparent to re-enable. *)
From Coq Require Import ZArith List Arith Bool.
From OVM Require Import Base.ListX Kernel.State Kernel.Ops Kernel.Recompute Kernel.Closure Kernel.DeferredDelete Kernel.Reenable
                        Kernel.SwapEffects Kernel.SwapInvol Kernel.Sizes.
Import ListNotations.

(* toggling a kind touches only its cache and its flag: definitions, flags, counters, modes, every property value are unchanged
   (core_eq), the other two caches too *)
Theorem C12_toggling_vertex_incidences_changes_only_that_cache : forall b s, let s' := enable_vbu b s in
  core_eq s s' /\ vbu s' = b /\ ebu s' = ebu s /\ fbu s' = fbu s /\ inc_hfs s' = inc_hfs s /\ inc_cell s' = inc_cell s /\
  out_hes s' = (if b then (if vbu s then out_hes s else compute_vbu s) else []).
Proof. exact enable_vbu_effect. Qed.
Print Assumptions C12_toggling_vertex_incidences_changes_only_that_cache.

Theorem C12_toggling_face_incidences_changes_only_that_cache : forall b s, let s' := enable_fbu b s in
  core_eq s s' /\ fbu s' = b /\ vbu s' = vbu s /\ ebu s' = ebu s /\ out_hes s' = out_hes s /\
  inc_cell s' = (if b then (if fbu s then inc_cell s else compute_fbu s) else []).
Proof. exact enable_fbu_effect. Qed.
Print Assumptions C12_toggling_face_incidences_changes_only_that_cache.

(* re-enabling yields EXACTLY the incidences: the inverse of the stored definitions of the not-deleted entities, i.e. what the
   mesh would hold had the kind never been disabled (C01's invariant), for every state *)
Theorem C12_reenabled_vertex_incidences_are_exact : forall s, vbu s = false -> vbu_ok (enable_vbu true s).
Proof. exact reenabled_vertex_incidences_exact. Qed.
Print Assumptions C12_reenabled_vertex_incidences_are_exact.

Theorem C12_recomputed_vertex_lists_duplicate_free : forall s v, v < nv s -> NoDup (nth v (compute_vbu s) []).
Proof. intros s v Hv. exact (proj1 (proj2 (compute_vbu_exact s) v Hv)). Qed.
Print Assumptions C12_recomputed_vertex_lists_duplicate_free.

Theorem C12_reenabled_face_incidences_are_exact : forall s, fbu s = false -> no_shared_halfface s -> fbu_ok (enable_fbu true s).
Proof. exact reenabled_face_incidences_exact. Qed.
Print Assumptions C12_reenabled_face_incidences_are_exact.

(* edge incidences: exact membership right after recomputation; when face incidences are on, each list is additionally put into
   rotational order (C09: reorder is a permutation on single fans) - that last step is outside this theorem, hence _partial *)
Theorem C12_reenabled_edge_incidences_are_exact_partial : forall s, ebu s = false -> fbu s = false -> ebu_ok (enable_ebu true s).
Proof. exact reenabled_edge_incidences_exact_partial. Qed.
Print Assumptions C12_reenabled_edge_incidences_are_exact_partial.

Theorem C12_recomputed_edge_incidences_membership : forall s,
  length (compute_ebu s) = 2 * ne s /\ forall h, h < 2 * ne s -> forall x,
    In x (nth h (compute_ebu s) []) <-> (x / 2 < nf s /\ f_deleted s (x / 2) = false /\ In h (halfface s x)).
Proof. exact compute_ebu_membership. Qed.
Print Assumptions C12_recomputed_edge_incidences_membership.

(* the same entities are deleted whatever subset of incidences is enabled: the closure is a function of definitions and flags
   alone, and the cache-guided gathering equals it whenever the caches are exact *)
Theorem C12_deleted_closure_independent_of_incidences : forall s t v, core_eq s t ->
  vbu_ok s -> ebu_ok s -> fbu_ok s -> vbu_ok t -> ebu_ok t -> fbu_ok t -> v < nv s ->
  incident_edges_of_vertex t v = incident_edges_of_vertex s v /\
  incident_faces_of_edges t (incident_edges_of_vertex t v) = incident_faces_of_edges s (incident_edges_of_vertex s v) /\
  incident_cells_of_faces t (incident_faces_of_edges t (incident_edges_of_vertex t v))
    = incident_cells_of_faces s (incident_faces_of_edges s (incident_edges_of_vertex s v)).
Proof.
  intros s t v C VS ES FS VT ET FT Hv.
  destruct (closure_depends_on_core s t C v) as (E1 & E2 & E3).
  assert (Hvt : v < nv t) by (destruct C as (c1 & _); rewrite c1; exact Hv).
  assert (NE : ne t = ne s) by (destruct C as (_ & c2 & _); unfold ne; rewrite c2; reflexivity).
  assert (NF : nf t = nf s) by (destruct C as (_ & _ & c3 & _); unfold nf; rewrite c3; reflexivity).
  rewrite (incident_edges_cache_is_scan t v VT Hvt), (incident_edges_cache_is_scan s v VS Hv), E1.
  split; [reflexivity|].
  assert (R1 : forall e, In e (edges_at_vertex s v) -> e < ne s) by (intros e He; apply edges_at_vertex_live in He; tauto).
  rewrite (incident_faces_cache_is_scan t _ ET) by (intros e He; rewrite NE; apply R1; exact He).
  rewrite (incident_faces_cache_is_scan s _ ES R1), E2.
  split; [reflexivity|].
  assert (R2 : forall f, In f (faces_at_edges s (edges_at_vertex s v)) -> f < nf s) by (intros f Hf; apply faces_at_edges_live in Hf; tauto).
  rewrite (incident_cells_cache_is_scan t _ FT) by (intros f Hf; rewrite NF; apply R2; exact Hf).
  rewrite (incident_cells_cache_is_scan s _ FS R2), E3. reflexivity.
Qed.
Print Assumptions C12_deleted_closure_independent_of_incidences.

(* index swaps do not depend on incidences for their own arrays, flags and properties (any mode); see C17 *)
Theorem C12_swaps_move_slots_in_every_incidence_configuration : forall a b s, a <> b ->
  cells (swap_cell_indices a b s) = swap_nth a b [] (cells s) /\ faces (swap_face_indices a b s) = swap_nth a b [] (faces s) /\
  edges (swap_edge_indices a b s) = swap_nth a b (0, 0) (edges s) /\
  cdel (swap_cell_indices a b s) = swap_nth a b false (cdel s) /\ fdel (swap_face_indices a b s) = swap_nth a b false (fdel s) /\
  edel (swap_edge_indices a b s) = swap_nth a b false (edel s) /\ vdel (swap_vertex_indices a b s) = swap_nth a b false (vdel s).
Proof.
  intros a b s N.
  pose proof (swap_vertex_effect a b s N) as V. pose proof (swap_edge_effect a b s N) as E.
  pose proof (swap_face_effect a b s N) as F. pose proof (swap_cell_effect a b s N) as C. cbv zeta in *. repeat split; tauto.
Qed.
Print Assumptions C12_swaps_move_slots_in_every_incidence_configuration.

(* NOT A THEOREM of this development: "no operation reads a disabled cache out of range".  The Gallina model totalises vector
   reads; that half of C12 is decided on the real library by ASan/UBSan/_GLIBCXX_ASSERTIONS on every lock-step run in all
   8 incidence subsets x 4 deletion modes, plus the twin-mesh oracle (same history with all incidences on). *)

Example C12_concrete :
  let s := run [EnableVBU false; EnableFBU false; AddVertices 4; AddFaceV [0; 1; 2]; AddFaceV [0; 2; 3]; AddFaceV [0; 3; 1]; AddFaceV [1; 3; 2];
                AddCell [0; 2; 4; 6] false; DelEdge 5] in
  vbu s = false /\ fbu s = false /\
  out_hes (enable_vbu true s) = [[0; 5; 9]; [1; 2]; [3; 4; 6]; [7; 8]] /\
  inc_cell (enable_fbu true s) = [None; None; None; None; None; None; None; None].
Proof. vm_compute. repeat split. Qed.
