(* Props/Properties_C20.v -- C20: concurrent read-only use is race-free and deterministic (PARTIAL).

   What IS proved here (logic):
     (a) Conc/Sched.v: for any family of threads of read-only steps, EVERY interleaving (any schedule, by
         induction over the schedule) leaves the shared state unchanged and gives each thread exactly the outputs
         of its sequential run; complete schedules exist and cannot be told apart;
     (b) the model's observation functions are pure, so (a) applies to every batch of model queries;
     (c) Gen/ConstWrites.v, REGENERATED from the clang AST of the current sources on every run: no const member of
         TopologyKernel / ResourceManager / GeometryKernel / the tet and hex kernels / the property handle and
         storage classes, and no member of an iterator or circulator class, has hidden shared state (writes through `this` or through a pointer member, mutable
         members other than the registry's tracker set which the property itself excludes, const_casts,
         function-local statics) - decided by computation over the whole table.
   What is NOT proved (and cannot be, by a theorem about a model): absence of data races in the compiled binary
   under the C++ memory model, behaviour of the allocator / standard library, writes through local aliases that
   the four syntactic patterns of translate/constwrites.py do not see.  That part is only OBSERVED, by
   harness/run_conc.cc under ThreadSanitizer. *)
From Coq Require Import String List Bool Arith.
From OVM Require Import Gen.ConstWrites Conc.Sched Kernel.State Kernel.Ops Geo.VecModel Geo.GeoModel.
Import ListNotations.
Local Open Scope string_scope.

(* ------------------------------------------------------------------ (a) the schedule theorem *)
Theorem C20_every_interleaving_is_sequential :
  forall (St Out : Type) (ths : list (list (Sched.step St Out))) (s0 : St) (sch : list nat),
  Forall (Forall read_only) ths ->
  let c := run_sched (init ths s0) sch in
  st c = s0 /\
  (forall t, t < length ths -> exists k, nth t (outs c) [] = firstn k (snd (run_seq (nth t ths []) s0))) /\
  (complete c -> outs c = map (fun th => snd (run_seq th s0)) ths).
Proof. exact interleaving_read_only. Qed.
Print Assumptions C20_every_interleaving_is_sequential.

Theorem C20_complete_schedules_agree :
  forall (St Out : Type) (ths : list (list (Sched.step St Out))) (s0 : St) (sch1 sch2 : list nat),
  Forall (Forall read_only) ths ->
  complete (run_sched (init ths s0) sch1) -> complete (run_sched (init ths s0) sch2) ->
  outs (run_sched (init ths s0) sch1) = outs (run_sched (init ths s0) sch2) /\
  st (run_sched (init ths s0) sch1) = st (run_sched (init ths s0) sch2).
Proof. exact complete_schedules_agree. Qed.
Print Assumptions C20_complete_schedules_agree.

(* not vacuous: for every family of threads there is a complete schedule *)
Theorem C20_complete_schedule_exists :
  forall (St Out : Type) (ths : list (list (Sched.step St Out))) (s0 : St),
  complete (run_sched (init ths s0) (sequential_schedule ths 0)).
Proof. exact complete_schedule_exists. Qed.
Print Assumptions C20_complete_schedule_exists.

(* ------------------------------------------------------------------ (b) model queries are pure *)
Theorem C20_pure_queries_interleave :
  forall (St Out : Type) (fss : list (list (St -> Out))) (s0 : St) (sch : list nat),
  let c := run_sched (init (map (map pure_query) fss) s0) sch in
  st c = s0 /\ (complete c -> outs c = map (map (fun f => f s0)) fss).
Proof. exact pure_queries_interleave. Qed.
Print Assumptions C20_pure_queries_interleave.

(* ------------------------------------------------------------------ (c) the regenerated write-set table *)
Theorem C20_no_hidden_state : Forall clean const_methods.
Proof.
  apply Forall_forall. intros m H. unfold clean.
  apply (proj1 (forallb_forall cleanb const_methods)); [vm_compute; reflexivity | exact H].
Qed.
Print Assumptions C20_no_hidden_state.

(* what `clean` says, spelled out *)
Theorem C20_clean_means : forall m, clean m ->
  m_body m = true /\ m_writes_ptr m = [] /\ m_const_casts m = 0 /\ m_statics m = [] /\ m_ptr_calls m = [] /\
  (forall x, In x (m_mutable m) -> In x allowed_mutable) /\
  (m_kind m = KConst -> m_writes_own m = []).
Proof.
  intros m H. unfold clean, cleanb in H.
  apply andb_true_iff in H. destruct H as [H H7]. apply andb_true_iff in H. destruct H as [H H6].
  apply andb_true_iff in H. destruct H as [H H5]. apply andb_true_iff in H. destruct H as [H H4].
  apply andb_true_iff in H. destruct H as [H H3]. apply andb_true_iff in H. destruct H as [H1 H2].
  assert (N : forall A (l : list A), is_nil l = true -> l = []) by (intros A l; destruct l; [reflexivity | discriminate]).
  split; [exact H1|]. split; [apply N; exact H2|]. split; [apply Nat.eqb_eq; exact H4|].
  split; [apply N; exact H5|]. split; [apply N; exact H6|]. split.
  - intros x Hx. unfold subset in H3. rewrite forallb_forall in H3. specialize (H3 x Hx).
    apply existsb_exists in H3. destruct H3 as (y & Hy & E). apply String.eqb_eq in E. subst. exact Hy.
  - intros K. rewrite K in H7. apply N. exact H7.
Qed.
Print Assumptions C20_clean_means.

(* the only mutable member anywhere in the scanned sources is the registry's tracker set (ResourceManager.hh:105),
   which the property excludes; only ResourceManager::storage_tracker touches it *)
Theorem C20_only_registry_state_is_mutable :
  mutable_members_seen = ["ResourceManager::storage_trackers_"] /\
  allowed_mutable = ["ResourceManager::storage_trackers_"] /\
  forallb (fun m => is_nil (m_mutable m) || (String.eqb (m_class m) "ResourceManager" && String.eqb (m_name m) "storage_tracker"))
          const_methods = true.
Proof. split; [reflexivity|]. split; [reflexivity|]. vm_compute. reflexivity. Qed.
Print Assumptions C20_only_registry_state_is_mutable.

(* ------------------------------------------------------------------ non-vacuity *)
Definition has (c n : string) : bool :=
  existsb (fun m => String.eqb (m_class m) c && String.eqb (m_name m) n && m_body m) const_methods.

Example C20_table_is_populated :
  200 <= n_kernel_const /\ 400 <= n_iter /\ length const_methods = n_kernel_const + n_iter /\
  has "TopologyKernel" "is_boundary" = true /\ has "TopologyKernel" "halfface" = true /\
  has "TopologyKernel" "find_halfedge" = true /\ has "TopologyKernel" "find_halfface" = true /\
  has "TopologyKernel" "valence" = true /\ has "TopologyKernel" "adjacent_halfface_in_cell" = true /\
  has "GeometryKernel" "vertex" = true /\ has "GeometryKernel" "barycenter" = true /\ has "GeometryKernel" "normal" = true /\
  has "HexahedralMeshTopologyKernel" "adjacent_halfface_on_sheet" = true /\ has "TetrahedralMeshTopologyKernel" "get_cell_vertices" = true /\
  has "PropertyStoragePtr" "operator[]" = true /\ has "PropertyStorageT" "operator[]" = true /\
  has "VertexOHalfEdgeIter" "operator++" = true /\ has "HalfEdgeHalfFaceIter" "operator++" = true /\
  has "CellVertexIter" "CellVertexIter" = true /\ has "BoundaryItemIter" "operator++" = true.
Proof. vm_compute. repeat split; try reflexivity; repeat constructor. Qed.

(* the criterion is not trivially true: a const query that fills a mutable cache is rejected *)
Example C20_criterion_rejects_a_cache :
  cleanb (mk "TopologyKernel" "valence" "size_t (VertexHandle) const" KConst true ["valence_cache_"] [] ["TopologyKernel::valence_cache_"] 0 [] []) = false /\
  cleanb (mk "VertexIter" "operator++" "VertexIter &()" KIter true ["cur_handle_"] ["n_vertices_"] [] 0 [] []) = false /\
  cleanb (mk "TopologyKernel" "halfedge" "Edge (HalfEdgeHandle) const" KConst true [] [] [] 0 ["scratch"] []) = false /\
  cleanb (mk "TopologyKernel" "halfedge" "Edge (HalfEdgeHandle) const" KConst true [] [] [] 1 [] []) = false /\
  cleanb (mk "VertexIter" "operator++" "VertexIter &()" KIter true ["cur_handle_"] [] [] 0 [] []) = true.
Proof. vm_compute. repeat split. Qed.

(* an instance of (b) on the kernel model: two threads of geometric / topological observations *)
Example C20_model_instance : forall (s0 : mesh) (sch : list nat),
  let t1 := [ (fun s => geo_vector_he s 0); (fun s => geo_normal_raw s 1) ] in
  let t2 := [ (fun s => geo_normal_raw s 0) ] in
  let c := run_sched (init (map (map pure_query) [t1; t2]) s0) sch in
  st c = s0 /\ (complete c -> outs c = [[geo_vector_he s0 0; geo_normal_raw s0 1]; [geo_normal_raw s0 0]]).
Proof. intros s0 sch. exact (pure_queries_interleave mesh (list Z) _ s0 sch). Qed.
