(* Props/Properties_C10.v -- C10: lookup queries are sound and complete.
   Statements only; every proof is `exact <lemma>` (or a few lines assembling lemmas / a computed witness);
   Print Assumptions under each theorem.  Models: Kernel2/LookupModel.v; proofs: Kernel2/LookupProofs.v.

   Hypotheses (predicates of LookupProofs.v; that they hold in every reachable state is C01's business):
     vbu_exact / ebu_exact / cell_cache_ok   each cache holds exactly the live incident entities
     wf_faces / wf_cells                     live entities reference live, in-range sub-entities
   Preconditions: the vertex tuple has >= 3 entries (v0 :: v1 :: v2 :: rest), the halfedge tuple >= 2;
   closed cell for the completeness of find_halfface_in_cell.

   What is REFUTED (and kept visible): completeness of find_halfface(vertices) / find_halfface_extensive on
   meshes with parallel edges; "the prefix relation coincides with the full relation on meshes without
   parallel edges and with simple faces" (it does for triangles; for quads two faces may share two
   consecutive edges). *)
From Coq Require Import ZArith List Lia.
From OVM Require Import Kernel.State Kernel.Ops Kernel.Mirror Kernel2.LookupModel Kernel2.ListAux
                        Kernel2.AdjacentProofs Kernel2.LookupProofs.
Import ListNotations.
Local Open Scope nat_scope.

(* ------------------------------------------------------------------ find_halfedge *)

Theorem C10_find_halfedge_sound : forall s v1 v2 h,
  vbu_exact s -> find_halfedge s v1 v2 = Some h ->
  live_he s h = true /\ he_from s h = v1 /\ he_to s h = v2.
Proof. exact find_halfedge_sound. Qed.
Print Assumptions C10_find_halfedge_sound.

Theorem C10_find_halfedge_complete : forall s v1 v2,
  vbu_exact s -> (exists h, live_he s h = true /\ he_from s h = v1 /\ he_to s h = v2) ->
  find_halfedge s v1 v2 <> None.
Proof. exact find_halfedge_complete. Qed.
Print Assumptions C10_find_halfedge_complete.

(* ------------------------------------------------------------------ find_halfedge_in_cell *)

Theorem C10_find_halfedge_in_cell_sound : forall s v1 v2 c h,
  find_halfedge_in_cell s v1 v2 c = Some h ->
  he_from s h = v1 /\ he_to s h = v2 /\
  exists hf, In hf (cell_at s c) /\ (In h (halfface s hf) \/ In (opp h) (halfface s hf)).
Proof. exact find_halfedge_in_cell_sound. Qed.
Print Assumptions C10_find_halfedge_in_cell_sound.

Theorem C10_find_halfedge_in_cell_complete : forall s v1 v2 c,
  (exists h, R_halfedge_in_cell s v1 v2 c h) -> find_halfedge_in_cell s v1 v2 c <> None.
Proof. exact find_halfedge_in_cell_complete. Qed.
Print Assumptions C10_find_halfedge_in_cell_complete.

Theorem C10_find_halfedge_in_cell_live : forall s v1 v2 c h,
  wf_faces s -> wf_cells s -> live_c s c = true -> find_halfedge_in_cell s v1 v2 c = Some h -> live_he s h = true.
Proof. exact find_halfedge_in_cell_live. Qed.
Print Assumptions C10_find_halfedge_in_cell_live.

(* ------------------------------------------------------------------ find_halfface(halfedges): documented prefix relation *)

Theorem C10_find_halfface_halfedges_sound : forall s he0 he1 rest hf,
  ebu_exact s -> find_halfface_hes s (he0 :: he1 :: rest) = Some hf ->
  live_hf s hf = true /\ In he0 (halfface s hf) /\ In he1 (halfface s hf).
Proof. exact find_halfface_hes_sound. Qed.
Print Assumptions C10_find_halfface_halfedges_sound.

Theorem C10_find_halfface_halfedges_complete : forall s he0 he1 rest,
  ebu_exact s -> (exists hf, live_hf s hf = true /\ In he0 (halfface s hf) /\ In he1 (halfface s hf)) ->
  find_halfface_hes s (he0 :: he1 :: rest) <> None.
Proof. exact find_halfface_hes_complete. Qed.
Print Assumptions C10_find_halfface_halfedges_complete.

(* coincidence with the full relation: exactly when two halfedges determine a halfface *)
Theorem C10_find_halfface_halfedges_full : forall s he0 he1 rest hf,
  ebu_exact s -> two_halfedges_determine_halfface s -> he0 <> he1 ->
  R_halfface_hes_full s (he0 :: he1 :: rest) hf -> find_halfface_hes s (he0 :: he1 :: rest) = Some hf.
Proof. exact find_halfface_hes_full. Qed.
Print Assumptions C10_find_halfface_halfedges_full.

(* ------------------------------------------------------------------ find_halfface(vertices) *)

Theorem C10_find_halfface_sound : forall s v0 v1 v2 rest hf,
  vbu_exact s -> ebu_exact s -> find_halfface_vs s (v0 :: v1 :: v2 :: rest) = Some hf ->
  R_halfface_doc s v0 v1 v2 hf.
Proof. exact find_halfface_vs_sound. Qed.
Print Assumptions C10_find_halfface_sound.

(* FULL STATEMENT (false):  forall s v0 v1 v2 rest, vbu_exact s -> ebu_exact s ->
     (exists hf, R_halfface_doc s v0 v1 v2 hf) -> find_halfface_vs s (v0 :: v1 :: v2 :: rest) <> None.
   find_halfedge returns the FIRST live halfedge v0->v1; a face on another parallel edge is missed. *)
(* witness: LookupProofs.parallel_witness = run [AddVertices 3; AddEdge 0 1 false; AddEdge 0 1 true; AddEdge 1 2 false;
   AddEdge 2 0 false; AddFace [2; 4; 6] true] -- replayed on the real library by lib/checks_lookup.py (KNOWN_SIGNATURES) *)
Theorem C10_find_halfface_complete_refuted :
  exists s vs hf, vbu_exact s /\ ebu_exact s /\ wf_faces s /\ closed_face s hf /\ simple_face s hf /\
    R_halfface_doc s 0 1 2 hf /\ R_halfface_ext s vs hf /\ vs = [0; 1; 2] /\
    find_halfface_vs s vs = None /\ find_halfface_extensive s vs = None.
Proof. exact find_halfface_complete_refuted. Qed.
Print Assumptions C10_find_halfface_complete_refuted.

Theorem C10_find_halfface_complete_partial : forall s v0 v1 v2 rest,
  vbu_exact s -> ebu_exact s -> no_parallel_edges s ->
  (exists hf, R_halfface_doc s v0 v1 v2 hf) -> find_halfface_vs s (v0 :: v1 :: v2 :: rest) <> None.
Proof. exact find_halfface_vs_complete_partial. Qed.
Print Assumptions C10_find_halfface_complete_partial.

(* the documented (halfedge-level) prefix relation is the vertex-level one -- v0, v1, v2 consecutive in the
   vertex cycle of a live halfface -- on closed simple faces *)
Theorem C10_prefix_relation_is_consecutive_vertices : forall s v0 v1 v2 hf,
  wf_faces s -> closed_face s hf -> simple_face s hf ->
  (R_halfface_doc s v0 v1 v2 hf <-> R_halfface_consec s v0 v1 v2 hf).
Proof.
  intros s v0 v1 v2 hf W C S. split.
  - exact (R_halfface_doc_consec s v0 v1 v2 hf C S).
  - exact (R_halfface_consec_doc s v0 v1 v2 hf W C).
Qed.
Print Assumptions C10_prefix_relation_is_consecutive_vertices.

(* ... and for triangles that IS the full relation (the tuple is the whole vertex cycle) *)
Theorem C10_prefix_relation_full_on_triangles : forall s v0 v1 v2 hf,
  length (halfface s hf) = 3 -> R_halfface_consec s v0 v1 v2 hf -> R_halfface_ext s [v0; v1; v2] hf.
Proof. exact R_halfface_consec_ext_triangle. Qed.
Print Assumptions C10_prefix_relation_full_on_triangles.

(* FULL STATEMENT of the design (false beyond triangles): on meshes without parallel edges and with simple
   closed faces, a halfface satisfying the prefix relation for (the first three entries of) a tuple that IS the
   vertex cycle of some live halfface has that vertex cycle.  Witness: two quads sharing two consecutive edges. *)
(* witness: LookupProofs.two_quads = run [AddVertices 5; AddFaceV [0; 1; 2; 3]; AddFaceV [0; 1; 2; 4]] *)
Theorem C10_prefix_relation_full_refuted :
  exists s vs hf hf', vbu_exact s /\ ebu_exact s /\ wf_faces s /\ no_parallel_edges s /\
    closed_face s hf /\ simple_face s hf /\ closed_face s hf' /\ simple_face s hf' /\
    R_halfface_ext s vs hf' /\ find_halfface_vs s vs = Some hf /\ ~ R_halfface_ext s vs hf /\
    find_halfface_extensive s vs = Some hf'.
Proof. exact prefix_relation_full_refuted. Qed.
Print Assumptions C10_prefix_relation_full_refuted.

(* ------------------------------------------------------------------ find_halfface_extensive: the full relation *)

Theorem C10_find_halfface_extensive_sound : forall s v0 v1 v2 rest hf,
  vbu_exact s -> ebu_exact s -> find_halfface_extensive s (v0 :: v1 :: v2 :: rest) = Some hf ->
  R_halfface_ext s (v0 :: v1 :: v2 :: rest) hf.
Proof. exact find_halfface_extensive_sound. Qed.
Print Assumptions C10_find_halfface_extensive_sound.

(* completeness is refuted with parallel edges by C10_find_halfface_complete_refuted (same witness) *)
Theorem C10_find_halfface_extensive_complete_partial : forall s v0 v1 v2 rest,
  vbu_exact s -> ebu_exact s -> wf_faces s -> no_parallel_edges s ->
  (exists hf, R_halfface_ext s (v0 :: v1 :: v2 :: rest) hf /\ closed_face s hf /\ NoDup (halfface s hf)) ->
  find_halfface_extensive s (v0 :: v1 :: v2 :: rest) <> None.
Proof. exact find_halfface_extensive_complete_partial. Qed.
Print Assumptions C10_find_halfface_extensive_complete_partial.

(* ------------------------------------------------------------------ find_halfface_in_cell *)

Theorem C10_find_halfface_in_cell_sound : forall s v0 v1 v2 rest c hf,
  cell_cache_ok s c -> find_halfface_in_cell s (v0 :: v1 :: v2 :: rest) c = Some hf ->
  R_halfface_in_cell s v0 v1 v2 c hf.
Proof. exact find_halfface_in_cell_sound. Qed.
Print Assumptions C10_find_halfface_in_cell_sound.

Theorem C10_find_halfface_in_cell_complete : forall s v0 v1 v2 rest c,
  closed_cell s c -> (forall hf, In hf (cell_at s c) -> NoDup (halfface s hf)) ->
  (exists hf, R_halfface_in_cell s v0 v1 v2 c hf) -> find_halfface_in_cell s (v0 :: v1 :: v2 :: rest) c <> None.
Proof. exact find_halfface_in_cell_complete. Qed.
Print Assumptions C10_find_halfface_in_cell_complete.

(* ------------------------------------------------------------------ get_halfface_vertices x3 *)

Theorem C10_get_halfface_vertices : forall s hf,
  get_halfface_vertices s hf = map (he_from s) (halfface s hf).
Proof. exact get_halfface_vertices_spec. Qed.
Print Assumptions C10_get_halfface_vertices.

Theorem C10_get_halfface_vertices_from_vertex : forall s hf v,
  let vs := map (he_from s) (halfface s hf) in
  (In v vs -> exists k, k < length vs /\ nth k vs 0 = v /\ (forall j, j < k -> nth j vs 0 <> v) /\
                        get_halfface_vertices_v s hf v = skipn k vs ++ firstn k vs) /\
  (~ In v vs -> get_halfface_vertices_v s hf v = vs).
Proof. exact get_halfface_vertices_v_spec. Qed.
Print Assumptions C10_get_halfface_vertices_from_vertex.

Theorem C10_get_halfface_vertices_from_halfedge : forall s hf he,
  get_halfface_vertices_he s hf he = get_halfface_vertices_v s hf (he_from s he).
Proof. exact get_halfface_vertices_he_spec. Qed.
Print Assumptions C10_get_halfface_vertices_from_halfedge.

(* ------------------------------------------------------------------ is_incident, n_vertices_in_cell, next / prev *)

Theorem C10_is_incident : forall s f e,
  is_incident s f e = true <-> exists h, In h (face_at s f) /\ h / 2 = e.
Proof. exact is_incident_spec. Qed.
Print Assumptions C10_is_incident.

Theorem C10_n_vertices_in_cell : forall s c l,
  NoDup l -> (forall v, In v l <-> exists hf he, In hf (cell_at s c) /\ In he (halfface s hf) /\ he_to s he = v) ->
  n_vertices_in_cell s c = length l.
Proof. exact n_vertices_in_cell_spec. Qed.
Print Assumptions C10_n_vertices_in_cell.

Theorem C10_next_halfedge_in_halfface : forall s he hf,
  (forall x, next_halfedge_in_halfface s he hf = Some x ->
     let l := halfface s hf in
     exists i, i < length l /\ nth i l 0 = he /\ (forall j, j < i -> nth j l 0 <> he) /\
               x = nth (circ_next (length l) i) l 0) /\
  (next_halfedge_in_halfface s he hf = None <-> ~ In he (halfface s hf)).
Proof. intros s he hf. split; [intros x; exact (next_Some s he hf x) | exact (next_None s he hf)]. Qed.
Print Assumptions C10_next_halfedge_in_halfface.

Theorem C10_prev_halfedge_in_halfface : forall s he hf,
  (forall x, prev_halfedge_in_halfface s he hf = Some x ->
     let l := halfface s hf in
     exists i, i < length l /\ nth i l 0 = he /\ (forall j, j < i -> nth j l 0 <> he) /\
               x = nth (circ_prev (length l) i) l 0) /\
  (prev_halfedge_in_halfface s he hf = None <-> ~ In he (halfface s hf)).
Proof. intros s he hf. split; [intros x; exact (prev_Some s he hf x) | exact (prev_None s he hf)]. Qed.
Print Assumptions C10_prev_halfedge_in_halfface.

(* ------------------------------------------------------------------ non-vacuity *)

(* a tetrahedron: all hypotheses hold, the cell is closed, and the lookups find what is there *)
Definition tet : mesh :=
  run [AddVertices 4; AddFaceV [0; 1; 2]; AddFaceV [0; 2; 3]; AddFaceV [0; 3; 1]; AddFaceV [1; 3; 2]; AddCell [0; 2; 4; 6] true].

Example C10_hypotheses_satisfiable :
  vbu_exact tet /\ ebu_exact tet /\ wf_faces tet /\ no_parallel_edges tet /\ closed_cell tet 0 /\ cell_cache_ok tet 0 /\
  closed_face tet 0 /\ simple_face tet 0 /\
  find_halfedge tet 1 2 = Some 2 /\ find_halfedge tet 1 1 = None /\
  find_halfface_vs tet [1; 2; 0] = Some 0 /\ find_halfface_vs tet [2; 1; 0] = Some 1 /\ find_halfface_vs tet [0; 1; 1] = None /\
  find_halfface_extensive tet [2; 0; 1] = Some 0 /\ find_halfface_in_cell tet [1; 0; 3] 0 = Some 4 /\
  find_halfface_in_cell tet [0; 1; 3] 0 = None /\ find_halfedge_in_cell tet 3 0 0 = Some 8 /\
  get_halfface_vertices_v tet 0 2 = [2; 0; 1] /\ n_vertices_in_cell tet 0 = 4.
Proof.
  split; [apply vbu_check_sound; vm_compute; reflexivity|].
  split; [apply ebu_check_sound; vm_compute; reflexivity|].
  split; [apply wf_faces_check_sound; vm_compute; reflexivity|].
  split; [apply no_parallel_check_sound; vm_compute; reflexivity|].
  split; [apply closed_cell_b_spec; vm_compute; reflexivity|].
  split; [intros hf Hin; assert (B : closed_cell_b tet 0 = true) by (vm_compute; reflexivity);
          exact (proj1 (proj1 (closed_cell_b_spec tet 0) B hf Hin))|].
  split; [apply loop_ok_spec; vm_compute; reflexivity|].
  split; [vm_compute; repeat constructor; simpl; intuition discriminate|].
  vm_compute. repeat split; reflexivity.
Qed.
