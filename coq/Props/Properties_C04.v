(* Props/Properties_C04.v -- C04: garbage collection preserves the logical mesh and remaps tracked handles. *)
From Coq Require Import ZArith List Arith Bool.
From OVM Require Import Base.ListX Kernel.State Kernel.Ops Kernel.SwapInvol Kernel.Sizes Kernel.GcFacts.
Import ListNotations.

(* after collect_garbage (deferred mode) nothing is pending: all four deleted-counters are zero, needs_garbage_collection()
   is false, and the deletion modes are what they were.  Proved through the whole nest of swap-with-last / index-shifting
   passes: in immediate mode no core ever touches a counter or a mode flag. *)
Theorem C04_collect_garbage_leaves_nothing_pending : forall s, deferred s = true -> let s' := collect_garbage s in
  ndv s' = 0 /\ nde s' = 0 /\ ndf s' = 0 /\ ndc s' = 0 /\ needs_gc s' = false /\ deferred s' = true /\ fast s' = fast s.
Proof. exact collect_garbage_counters_and_mode. Qed.
Print Assumptions C04_collect_garbage_leaves_nothing_pending.

Theorem C04_collect_garbage_is_identity_without_pending_deletions : forall s, needs_gc s = false -> collect_garbage s = s.
Proof. exact collect_garbage_noop_when_nothing_pending. Qed.
Print Assumptions C04_collect_garbage_is_identity_without_pending_deletions.

Theorem C04_leaving_deferred_mode_collects : forall s, deferred s = true -> let s' := enable_deferred false s in
  deferred s' = false /\ ndv s' = 0 /\ nde s' = 0 /\ ndf s' = 0 /\ ndc s' = 0 /\ needs_gc s' = false.
Proof. exact leaving_deferred_mode_collects. Qed.
Print Assumptions C04_leaving_deferred_mode_collects.

(* every array keeps exactly one element per slot across collection, in every reachable state (so the entity counts after the call
   are the lengths of the compacted arrays and every property is compacted with them) *)
Theorem C04_collection_keeps_one_element_per_slot : forall ops, sized (collect_garbage (run ops)) /\ sized (enable_deferred false (run ops)).
Proof.
  intros ops. pose proof (szd_reachable ops) as Z. split; apply szd_sized.
  - apply szd_collect_garbage. exact Z.
  - apply szd_enable_deferred. exact Z.
Qed.
Print Assumptions C04_collection_keeps_one_element_per_slot.

(* in immediate mode the deleted-counters and the modes are untouched by every delete_*_core (so the counters zeroed pass by pass
   stay zero to the end) *)
Theorem C04_immediate_cores_keep_counters_and_modes : forall h s, deferred s = false ->
  cv (delete_cell_core h s) = cv s /\ cv (delete_face_core h s) = cv s /\ cv (delete_edge_core h s) = cv s /\ cv (delete_vertex_core h s) = cv s.
Proof.
  intros h s D. exact (conj (cv_delete_cell_core h s D) (conj (cv_delete_face_core h s D) (conj (cv_delete_edge_core h s D) (cv_delete_vertex_core h s D)))).
Qed.
Print Assumptions C04_immediate_cores_keep_counters_and_modes.

(* NOT YET THEOREMS (stated; tied by lock step on GC / EnDef 0 and decided on the real library by the identity-token oracle):
     C04_collect      : the logical mesh (definitions of the not-deleted entities in ghost identities, property values) is unchanged;
     C04_equiv_immediate : collecting after deferred deletions = performing the same deletions immediately, up to renumbering;
     C04_track / C04_manifold : StatusAttrib::garbage_collection remaps tracked handles / removes exactly the unbounded entities.
   They need the relabeling invariants of the index-shifting and swap-with-last paths (see C02, C17). *)

Example C04_concrete :
  let s := run [AddVertices 5; AddFaceV [0; 1; 2]; AddFaceV [0; 2; 3]; AddFaceV [0; 3; 1]; AddFaceV [1; 3; 2]; AddCell [0; 2; 4; 6] false;
                PropCreate KV 7%Z; PropSet KV 0 4 9%Z; DelVertex 0] in
  needs_gc s = true /\ ndv s = 1 /\
  (let s' := collect_garbage s in needs_gc s' = false /\ nv s' = 4 /\ ne s' = 3 /\ nf s' = 1 /\ nc s' = 0 /\ map pdata (pv s') = [[9; 7; 7; 7]%Z]).
Proof. vm_compute. repeat split. Qed.
