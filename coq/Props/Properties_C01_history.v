(* Props/Properties_C01_history.v -- C01 along HISTORIES with cells and deferred deletion.
   Statements only; every proof is `exact <lemma>`; Print Assumptions under each theorem.
   Proofs: Kernel2/ExactBase.v (invariant, reorder keeps any fed list specification), ExactAddCell.v, ExactDelCell.v,
   ExactDelFace.v, ExactDeletions.v, ExactHistory.v; they rest on Kernel2/ReorderExact.v (local form) and on
   Kernel/ExactInv.v, ExactRun.v, ExactDelete.v, Closure.v, CellCheck.v, DeferredDelete.v.

   bu_inv2 s = bu_inv s (the three caches exact, handles in range, lengths) /\ all three-but-vertex incidence kinds on /\
   deferred deletion on /\ the halfedge->halfface lists duplicate-free /\ live cells reference live faces /\ live cells
   closed (closed_cell) /\ live faces simple (no halfedge twice, none with its opposite).

   OUT of the operation set (not attempted: index shifts / no reorder): collect_garbage, swap_*, set_*, clear, immediate
   deletion, enable_edge/face_bottom_up_incidences, enable_deferred_deletion, add_cell WITHOUT topology check. *)
From Coq Require Import ZArith List Lia.
From OVM Require Import Kernel.State Kernel.Ops Kernel.Mirror Kernel.Closure Kernel.ExactInv
                        Kernel2.LookupModel Kernel2.AdjacentProofs Kernel2.ReorderExact
                        Kernel2.ExactBase Kernel2.ExactAddCell Kernel2.ExactDelCell Kernel2.ExactDelFace Kernel2.ExactDeletions
                        Kernel2.ExactHistory.
Import ListNotations.
Local Open Scope nat_scope.

(* the invariant, in the coordinator's shape *)
Theorem C01_bu_inv2_unfold : forall s,
  bu_inv2 s <-> (bu_inv s /\ ebu s = true /\ fbu s = true /\ deferred s = true /\
                 slots_nodup s /\ cells_ref_live s /\ live_cells_closed s /\ faces_simple s).
Proof. intros s. reflexivity. Qed.
Print Assumptions C01_bu_inv2_unfold.

Theorem C01_invariant_initial : bu_inv2 empty_mesh.
Proof. exact bu_inv2_empty. Qed.
Print Assumptions C01_invariant_initial.

(* reorder_edges (any edge list) *)
Theorem C01_invariant_reorder_edges : forall es s, bu_inv2 s -> bu_inv2 (reorder_edges es s).
Proof. exact bu_inv2_reorder_edges. Qed.
Print Assumptions C01_invariant_reorder_edges.

(* (2) add_cell with topology check *)
Theorem C01_invariant_add_cell : forall s hfs,
  bu_inv2 s ->
  cell_check s hfs = true ->
  (forall hf, In hf hfs -> hf / 2 < nf s /\ f_deleted s (hf / 2) = false /\ cell_of s hf = None /\ ~ In (opp hf) hfs) ->
  bu_inv2 (fst (add_cell s hfs true)).
Proof. intros s hfs H C N. exact (bu_inv2_add_cell s hfs H (conj C N)). Qed.
Print Assumptions C01_invariant_add_cell.

(* (3) the deletion cores and the public deletions, deferred mode, live handles *)
Theorem C01_invariant_delete_cell_core : forall h s,
  bu_inv2 s -> h < nc s -> c_deleted s h = false -> bu_inv2 (delete_cell_core h s).
Proof. exact bu_inv2_delete_cell_core. Qed.
Print Assumptions C01_invariant_delete_cell_core.

Theorem C01_invariant_delete_face_core : forall h s,
  bu_inv2 s -> h < nf s -> f_deleted s h = false -> cell_of s (2 * h) = None -> cell_of s (2 * h + 1) = None ->
  bu_inv2 (delete_face_core h s).
Proof. exact bu_inv2_delete_face_core. Qed.
Print Assumptions C01_invariant_delete_face_core.

Theorem C01_invariant_delete_edge_core : forall h s,
  bu_inv2 s -> h < ne s -> e_deleted s h = false -> bu_inv2 (delete_edge_core h s).
Proof. exact bu_inv2_delete_edge_core. Qed.
Print Assumptions C01_invariant_delete_edge_core.

Theorem C01_invariant_delete_cell : forall c s, bu_inv2 s -> c < nc s -> c_deleted s c = false -> bu_inv2 (delete_cell c s).
Proof. exact bu_inv2_delete_cell. Qed.
Print Assumptions C01_invariant_delete_cell.

Theorem C01_invariant_delete_face : forall f s, bu_inv2 s -> f < nf s -> f_deleted s f = false -> bu_inv2 (delete_face f s).
Proof. exact bu_inv2_delete_face. Qed.
Print Assumptions C01_invariant_delete_face.

Theorem C01_invariant_delete_edge : forall e s, bu_inv2 s -> e < ne s -> e_deleted s e = false -> bu_inv2 (delete_edge e s).
Proof. exact bu_inv2_delete_edge. Qed.
Print Assumptions C01_invariant_delete_edge.

Theorem C01_invariant_delete_vertex : forall v s, bu_inv2 s -> v < nv s -> bu_inv2 (delete_vertex v s).
Proof. exact bu_inv2_delete_vertex. Qed.
Print Assumptions C01_invariant_delete_vertex.

(* (1) growth *)
Theorem C01_invariant_add_face : forall s hes c,
  bu_inv2 s -> (forall h, In h hes -> h < 2 * ne s) -> simple_hes hes -> bu_inv2 (fst (add_face s hes c)).
Proof. exact bu_inv2_add_face. Qed.
Print Assumptions C01_invariant_add_face.

Theorem C01_invariant_add_face_from_vertices : forall s vs,
  bu_inv2 s -> (forall v, In v vs -> v < nv s) ->
  (forall f t, vs = f :: t -> simple_hes (snd (add_face_v_edges f vs (s, [])))) ->
  bu_inv2 (fst (add_face_v s vs)).
Proof. exact bu_inv2_add_face_v. Qed.
Print Assumptions C01_invariant_add_face_from_vertices.

Theorem C01_invariant_add_edge : forall s a b d, bu_inv2 s -> a < nv s -> b < nv s -> bu_inv2 (fst (add_edge s a b d)).
Proof. exact bu_inv2_add_edge. Qed.
Print Assumptions C01_invariant_add_edge.

(* one step of a history: Ops.step with rejected calls skipped *)
Theorem C01_invariant_step : forall s o,
  bu_inv2 s -> hist_op o = true -> (valid_op s o = true -> valid_op2 s o = true) -> bu_inv2 (next s o).
Proof. exact bu_inv2_step. Qed.
Print Assumptions C01_invariant_step.

(* THE THEOREM.  hist_ok ops (a boolean computed by running the model) says: every operation is one of
   add_vertex / add_n_vertices / add_edge / add_face / add_face(vertices) / add_cell / delete_vertex / delete_edge /
   delete_face / delete_cell / enable_vertex_bottom_up_incidences / enable_fast_deletion (so deferred deletion is never
   switched off), and every call that Ops.valid_op accepts also satisfies valid_op2 at its point of the history. *)
Theorem C01_invariant_along_deferred_histories : forall ops, hist_ok ops = true -> bu_inv2 (run ops).
Proof. exact bu_inv2_along_histories. Qed.
Print Assumptions C01_invariant_along_deferred_histories.

(* in particular the coordinator's bu_inv (and with it vbu_ok / ebu_ok / fbu_ok) *)
Theorem C01_caches_exact_along_deferred_histories : forall ops, hist_ok ops = true ->
  vbu_ok (run ops) /\ ebu_ok (run ops) /\ fbu_ok (run ops).
Proof. intros ops H. destruct (bu_inv2_along_histories ops H) as ((A & B & C & _) & _). auto. Qed.
Print Assumptions C01_caches_exact_along_deferred_histories.

(* non-vacuity: two tetrahedra sharing a face, a vertex deleted (its closure: 3 edges, 3 faces, one cell), vertex
   incidences switched off, a third cell attached, a face / an edge / a cell deleted, vertex incidences recomputed *)
Example C01_history_example :
  hist_ok example_history = true /\ bu_inv2 (run example_history) /\
  cdel (run (firstn 10 example_history)) = [false; false] /\
  cdel (run (firstn 11 example_history)) = [true; false] /\
  cdel (run (firstn 16 example_history)) = [true; false; false] /\
  cdel (run example_history) = [true; true; true].
Proof. exact example_history_ok. Qed.
