(* Props/Properties_C09.v -- C09: halffaces around an edge in rotational order; in-cell adjacency involutive.
   Statements only; every proof is `exact <lemma>` (or a few lines assembling lemmas);
   Print Assumptions under each theorem.  Model: Kernel/Ops.v (adjacent_halfface_in_cell,
   reorder_incident_halffaces -- in lock step with the library including the cache order);
   proofs: Kernel2/AdjacentProofs.v, Kernel2/RotationProofs.v.

   Proved in full: C09_adjacent (closed cells), C09_reorder_post (one call of reorder on a single fan).
   NOT proved (checked by the lock step and the per-operation oracle of harness/run_lookup.cc only):
   C09_invariant -- "in every reachable state every single-fan edge is in rotational order", which needs that every
   operation changing sigma at an edge re-runs reorder on it and that the order survives the index shifts of
   deletion / garbage collection / swaps.  The step that IS proved towards it is C09_reorder_keeps_cache_partial. *)
From Coq Require Import ZArith List Lia Permutation.
From OVM Require Import Kernel.State Kernel.Ops Kernel.Mirror Kernel2.LookupModel Kernel2.ListAux
                        Kernel2.AdjacentProofs Kernel2.RotationProofs Kernel.Closure Kernel.InvB Kernel2.ReorderExact.
Import ListNotations.
Local Open Scope nat_scope.

(* ------------------------------------------------------------------ adjacent_halfface_in_cell *)

(* every state: whatever is returned is a halfface of the incident cell, different from the argument and its
   opposite, containing the opposite of the halfedge the function settled on *)
Theorem C09_adjacent_result_is_candidate : forall s hf he hf',
  adjacent_halfface_in_cell s hf he = Some hf' ->
  exists c he1, cell_of s hf = Some c /\ resolve_he s hf he = Some he1 /\
                In hf' (cell_at s c) /\ hf' <> hf /\ hf' <> opp hf /\ In (opp he1) (halfface s hf').
Proof. exact adjacent_result_spec. Qed.
Print Assumptions C09_adjacent_result_is_candidate.

(* inside a closed cell (every halfedge of its halffaces matched exactly once by its opposite within the cell,
   also when the cell contains both halffaces of a face): the result is the unique other halfface of the cell at
   that edge, and applying the function twice returns the start *)
Theorem C09_adjacent : forall s c hf he,
  closed_cell s c -> In hf (cell_at s c) -> In he (halfface s hf) ->
  exists hf',
    adjacent_halfface_in_cell s hf he = Some hf' /\
    (In hf' (cell_at s c) /\ hf' <> hf /\ hf' <> opp hf /\ In (opp he) (halfface s hf')) /\
    (forall x, In x (cell_at s c) -> x <> hf -> x <> opp hf -> In (opp he) (halfface s x) -> x = hf') /\
    adjacent_halfface_in_cell s hf' (opp he) = Some hf.
Proof. exact adjacent_closed_cell. Qed.
Print Assumptions C09_adjacent.

(* either orientation of the halfedge is accepted when unambiguous *)
Theorem C09_adjacent_either_orientation : forall s hf he,
  In he (halfface s hf) -> ~ In (opp he) (halfface s hf) ->
  adjacent_halfface_in_cell s hf (opp he) = adjacent_halfface_in_cell s hf he.
Proof.
  intros s hf he H1 H2. apply adjacent_flip. apply memb_In in H1. apply memb_false in H2. rewrite H1, H2. reflexivity.
Qed.
Print Assumptions C09_adjacent_either_orientation.

(* the executable contract used by the harness is the Prop *)
Theorem C09_closed_cell_decidable : forall s c, closed_cell_b s c = true <-> closed_cell s c.
Proof. exact closed_cell_b_spec. Qed.
Print Assumptions C09_closed_cell_decidable.

(* ------------------------------------------------------------------ reorder_incident_halffaces *)

(* if edge e is a single fan (its incident halffaces form one sigma-cycle, or one sigma-chain ending at a boundary
   halfface) then after reorder_incident_halffaces the list of halfedge 2e is in rotational order: each non-boundary
   halfface is followed cyclically by sigma of it (= the opposite of its neighbour across the edge inside its cell),
   a boundary halfface only comes last; and the list of 2e+1 is the mirrored reverse *)
Theorem C09_reorder_post : forall s e,
  edge_cache_exact s e -> single_fan s e ->
  let s' := reorder_incident_halffaces e s in
  let L := hfs_at s' (2 * e) in
  (forall i, i < length L ->
     (hf_is_open s' (nth i L 0) = false ->
        adjacent_halfface_in_cell s' (nth i L 0) (2 * e) = Some (opp (nth (circ_next (length L) i) L 0))) /\
     (hf_is_open s' (nth i L 0) = true -> i = length L - 1)) /\
  hfs_at s' (2 * e + 1) = rev (map opp L).
Proof.
  intros s e H1 H2. destruct (reorder_post s e H1 H2) as [A [B _]]. exact (conj A B).
Qed.
Print Assumptions C09_reorder_post.

(* reorder only permutes the list (so the cache stays exact), and the result is again the fan *)
Theorem C09_reorder_keeps_cache_partial : forall s e,
  edge_cache_exact s e -> single_fan s e ->
  let s' := reorder_incident_halffaces e s in
  Permutation (hfs_at s' (2 * e)) (hfs_at s (2 * e)) /\
  (fan_cycle s (2 * e) (hfs_at s' (2 * e)) \/ fan_chain s (2 * e) (hfs_at s' (2 * e))).
Proof.
  intros s e H1 H2. destruct (reorder_post s e H1 H2) as [_ [_ [C D]]]. exact (conj C D).
Qed.
Print Assumptions C09_reorder_keeps_cache_partial.

(* re-running reorder on an edge that has just been reordered changes nothing (so the additional reorder calls
   of delete_face_core / delete_cell_core / enable_*_bottom_up_incidences cannot destroy an established order) *)
Theorem C09_reorder_idempotent_partial : forall s e,
  edge_cache_exact s e -> single_fan s e ->
  let s' := reorder_incident_halffaces e s in
  hfs_at (reorder_incident_halffaces e s') (2 * e) = hfs_at s' (2 * e) /\
  hfs_at (reorder_incident_halffaces e s') (2 * e + 1) = hfs_at s' (2 * e + 1).
Proof. exact reorder_idempotent. Qed.
Print Assumptions C09_reorder_idempotent_partial.

(* sigma as a function: the forward link is "sigma s h x = Some y" *)
Theorem C09_link_is_sigma : forall s h x y,
  fwd_link s h x y <-> (hf_is_open s x = false /\ sigma s h x = Some y).
Proof. exact fwd_link_sigma. Qed.
Print Assumptions C09_link_is_sigma.

(* the backward links demanded of an open chain follow from the forward links when the cells along the chain
   are closed (C09_adjacent, involution) *)
Theorem C09_chain_backward_links_from_closed_cells : forall s h l,
  (forall x, In x l -> In h (halfface s x)) ->
  (forall x c, In x l -> cell_of s x = Some c -> closed_cell s c /\ In x (cell_at s c)) ->
  linked (fwd_link s h) l -> linked (bwd_link s h) l.
Proof. exact linked_bwd_of_closed. Qed.
Print Assumptions C09_chain_backward_links_from_closed_cells.

(* ------------------------------------------------------------------ reorder never loses or duplicates a halfface *)
(* (Kernel2/ReorderExact.v; used by C01: cache exactness is preserved by reorder_incident_halffaces) *)

(* R1: at most the two slots 2e, 2e+1 of the halfedge->halfface cache change *)
Theorem C09_reorder_frame : forall e s,
  (exists x, reorder_incident_halffaces e s = set_inc_hfs x s) /\
  length (inc_hfs (reorder_incident_halffaces e s)) = length (inc_hfs s) /\
  (forall k, k <> 2 * e -> k <> 2 * e + 1 -> hfs_at (reorder_incident_halffaces e s) k = hfs_at s k).
Proof.
  intros e s. split; [exact (reorder_frame e s)|]. split; [exact (reorder_inc_hfs_length e s)|].
  intros k. exact (reorder_other_slots e s k).
Qed.
Print Assumptions C09_reorder_frame.

(* R2, local form: if the list L at 2e is duplicate-free, closed under the forward and the backward walk step, the two
   steps are inverse to each other on L, and the list at 2e+1 is a permutation of the mirrored L, then the new lists
   are permutations of the old ones (and the new list at 2e+1 is the mirrored reverse of the new list at 2e
   whenever anything is written) *)
Theorem C09_reorder_permutes_local : forall s e,
  let L := hfs_at s (2 * e) in
  NoDup L -> walk_closed s (2 * e) L -> adj_involutive_on s (2 * e) L ->
  Permutation (hfs_at s (2 * e + 1)) (map opp L) ->
  let s' := reorder_incident_halffaces e s in
  Permutation (hfs_at s' (2 * e)) L /\
  Permutation (hfs_at s' (2 * e + 1)) (map opp L) /\
  Permutation (hfs_at s' (2 * e + 1)) (hfs_at s (2 * e + 1)) /\
  (hfs_at s' (2 * e) = L /\ hfs_at s' (2 * e + 1) = hfs_at s (2 * e + 1) \/
   hfs_at s' (2 * e + 1) = rev (map opp (hfs_at s' (2 * e)))).
Proof. exact reorder_permutes_local. Qed.
Print Assumptions C09_reorder_permutes_local.

(* where the local hypotheses come from: closure under the steps from what the READ cells contribute to the edge (or
   from completeness of the list), the involution from closedness of the READ cells *)
Theorem C09_walk_closed_from_cells : forall s h L,
  slot_sound s h L -> cells_feed_slot s h L -> walk_closed s h L.
Proof. exact walk_closed_of_cells. Qed.
Print Assumptions C09_walk_closed_from_cells.

Theorem C09_cells_feed_slot_from_completeness : forall s h L,
  cell_read_ok s -> slot_complete s h L -> cells_feed_slot s h L.
Proof. exact cells_feed_slot_of_complete. Qed.
Print Assumptions C09_cells_feed_slot_from_completeness.

Theorem C09_involution_from_closed_cells : forall s h L,
  cell_read_closed s -> slot_sound s h L -> adj_involutive_on s h L.
Proof. exact adj_involutive_of_read_closed. Qed.
Print Assumptions C09_involution_from_closed_cells.

(* R2, global form *)
Theorem C09_reorder_permutes : forall s e,
  fbu s = true -> fbu_ok s -> cells_ref_live s -> live_cells_closed s ->
  slot_exact s (2 * e) -> slot_exact s (2 * e + 1) ->
  Permutation (hfs_at (reorder_incident_halffaces e s) (2 * e)) (hfs_at s (2 * e)) /\
  Permutation (hfs_at (reorder_incident_halffaces e s) (2 * e + 1)) (hfs_at s (2 * e + 1)).
Proof. exact reorder_permutes. Qed.
Print Assumptions C09_reorder_permutes.

(* FULL STATEMENT without "live cells are closed" (false, also in reachable states): the same conclusion from exact,
   duplicate-free caches alone.  Witness: five triangles around one edge and two cells, accepted by add_cell without
   topology check, that contain three of their halffaces each; the second add_cell writes [6;2;0;2;4] over
   [0;2;4;6;8]: halfface 8 is lost, halfface 2 doubled (replayed on the real library: identical). *)
Theorem C09_reorder_permutes_refuted :
  ebu_ok_b nonmanifold_before = true /\ fbu_ok_b nonmanifold_before = true /\
  ebu_ok_b nonmanifold_mid = true /\ slots_nodup_b nonmanifold_mid = true /\ fbu_ok_b nonmanifold_mid = true /\
  cells_ref_live_b nonmanifold_mid = true /\
  closed_cell_b nonmanifold_mid 0 = false /\ closed_cell_b nonmanifold_mid 1 = false /\
  hfs_at nonmanifold_mid 0 = [0; 2; 4; 6; 8] /\
  hfs_at (reorder_incident_halffaces 0 nonmanifold_mid) 0 = [6; 2; 0; 2; 4] /\
  ~ Permutation (hfs_at (reorder_incident_halffaces 0 nonmanifold_mid) 0) (hfs_at nonmanifold_mid 0) /\
  hfs_at nonmanifold_after 0 = [6; 2; 0; 2; 4] /\ ebu_ok_b nonmanifold_after = false.
Proof. exact reorder_permutation_refuted. Qed.
Print Assumptions C09_reorder_permutes_refuted.

(* R3: the bundle (both incidence kinds on, exact duplicate-free caches, live cells closed and referencing live faces)
   is preserved by reorder_incident_halffaces e and reorder_edges es for ANY e, es *)
Theorem C09_reorder_inv_preserved : forall es s, reorder_inv s -> reorder_inv (reorder_edges es s).
Proof. exact reorder_edges_inv_preserved. Qed.
Print Assumptions C09_reorder_inv_preserved.

Theorem C09_reorder_edges_keeps_caches_exact : forall es s,
  ebu_ok s -> fbu_ok s -> vbu_ok s ->
  (ebu s = true -> fbu s = true /\ slots_nodup s /\ cells_ref_live s /\ live_cells_closed s) ->
  let s' := reorder_edges es s in
  ebu_ok s' /\ fbu_ok s' /\ vbu_ok s' /\ (ebu s = true -> slots_nodup s').
Proof. exact reorder_edges_keeps_caches_exact. Qed.
Print Assumptions C09_reorder_edges_keeps_caches_exact.

Example C09_reorder_inv_satisfiable :
  reorder_inv ring3_state /\ reorder_inv (reorder_edges [0; 1; 2; 3; 4; 5; 6; 7; 8; 9] ring3_state).
Proof. exact reorder_inv_satisfiable. Qed.

(* ------------------------------------------------------------------ non-vacuity *)

(* three tetrahedra closing a ring around edge 0 = (0,1), attached in the order 2nd, 3rd, 1st *)
Definition ring3 : mesh :=
  run [AddVertices 5; AddFaceV [0; 1; 3]; AddFaceV [0; 3; 4]; AddFaceV [0; 4; 1]; AddFaceV [1; 4; 3]; AddCell [2; 0; 6; 4] true;
       AddFaceV [0; 4; 2]; AddFaceV [0; 2; 1]; AddFaceV [1; 2; 4]; AddCell [10; 12; 5; 8] false;
       AddFaceV [0; 2; 3]; AddFaceV [1; 3; 2]; AddCell [14; 1; 16; 11] false].

(* two tetrahedra forming an open chain around edge 0 *)
Definition open2 : mesh :=
  run [AddVertices 5; AddFaceV [0; 1; 3]; AddFaceV [0; 3; 4]; AddFaceV [0; 4; 1]; AddFaceV [1; 4; 3]; AddCell [4; 0; 6; 2] false;
       AddFaceV [0; 1; 2]; AddFaceV [0; 2; 3]; AddFaceV [1; 3; 2]; AddCell [10; 8; 12; 1] true].

(* the same mesh with the two lists of edge 0 in insertion order (what add_face leaves before add_cell reorders) *)
Definition open2_unordered : mesh :=
  set_inc_hfs (upd 0 [0; 5; 8] (upd 1 [1; 4; 9] (inc_hfs open2))) open2.

Ltac nodup_list := repeat constructor; simpl; intuition discriminate.
Ltac links := repeat constructor; vm_compute; reflexivity.

Example C09_ring_is_single_fan :
  edge_cache_exact ring3 0 /\ single_fan ring3 0 /\ closed_cell ring3 0 /\ closed_cell ring3 1 /\ closed_cell ring3 2 /\
  hfs_at (reorder_incident_halffaces 0 ring3) 0 = [0; 5; 11] /\
  hfs_at (reorder_incident_halffaces 0 ring3) 1 = [10; 4; 1].
Proof.
  split.
  { split; [split; [vm_compute; nodup_list | apply incident_list_check; vm_compute; reflexivity]|].
    split; [apply incident_list_check; vm_compute; reflexivity | vm_compute; reflexivity]. }
  split.
  { exists [0; 5; 11]. split; [discriminate|]. split; [nodup_list|].
    split; [apply incident_list_check; vm_compute; reflexivity|].
    left. split; [links | vm_compute; auto]. }
  split; [apply closed_cell_b_spec; vm_compute; reflexivity|].
  split; [apply closed_cell_b_spec; vm_compute; reflexivity|].
  split; [apply closed_cell_b_spec; vm_compute; reflexivity|].
  split; vm_compute; reflexivity.
Qed.

Example C09_open_chain_is_reordered :
  edge_cache_exact open2_unordered 0 /\ single_fan open2_unordered 0 /\
  hfs_at open2_unordered 0 = [0; 5; 8] /\
  hfs_at (reorder_incident_halffaces 0 open2_unordered) 0 = [8; 0; 5] /\
  hfs_at (reorder_incident_halffaces 0 open2_unordered) 1 = [4; 1; 9] /\
  hf_is_open open2_unordered 5 = true /\ hf_is_open open2_unordered (opp 8) = true.
Proof.
  split.
  { split; [split; [vm_compute; nodup_list | apply incident_list_check; vm_compute; reflexivity]|].
    split; [apply incident_list_check; vm_compute; reflexivity | vm_compute; reflexivity]. }
  split.
  { exists [8; 0; 5]. split; [discriminate|]. split; [nodup_list|].
    split; [apply incident_list_check; vm_compute; reflexivity|].
    right. split; [links|]. split; [links|]. vm_compute. auto. }
  vm_compute. repeat split; reflexivity.
Qed.
