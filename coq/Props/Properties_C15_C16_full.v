(* Props/Properties_C15_C16_full.v -- C15 / C16: what Props/Properties_C15.v and Properties_C16.v left `_partial`, in full -
   or, where the full statement is false of the model (and of the library, replays in the final report), refuted with a
   computed witness and proved under the exact extra hypothesis.  Statements only; every proof is `exact <lemma>` (lemmas in
   Mesh/TH2*.v); Print Assumptions under each theorem.

   1. SHAPE (tet: 3 / 4, hex: 4 / 6) as an invariant of histories in ALL FOUR deletion modes: every deletion, collect_garbage,
      enable_deferred both ways, swaps, clear, additions in every form, collapse_edge in every mode, property operations; only
      set_face / set_cell are outside (they store any list).  The UNCONDITIONAL statement is FALSE (C15_/C16_shape_invariant_
      unconditional_refuted: a halfface used by two cells - accepted by add_cell without topology check, documented by the
      library as an intended non-manifold configuration - makes delete_face miss a cell, and the slow physical removal of the
      face then filters its halfface out of the survivor, which is left with 3 (hex: 5) halffaces).  True: the steps that remove
      entities physically in the SLOW mode need the hypothesis of the polyhedral kernel's C02 / C04 theorems at that step
      (shift_inv2 for immediate delete_vertex/edge/face, gc_ready for a collection; decidable sound versions thyp_b / hhyp_b);
      delete_cell and every step in deferred or fast mode need nothing.
   2. collapse_edge(a -> b): the cell-set characterisation in deferred mode (handles stable), on stored definitions and through
      get_cell_vertices, under `collapse_ready` (decidable: collapse_ready_b) - the kernel's deferred-mode invariant, triangles
      that are closed loops of live halfedges, and "simplicial at the edge": every REBUILT tet has its faces on three distinct
      vertices none of which is b.  The link condition proper is needed only for the clause "get_cell_vertices of the untouched
      tets is unchanged" (it makes the halfface -> cell cache of the result exact: hypothesis fbu_ok s'), refuted without it.
      Immediate modes: the call IS the deferred collapse of the same mesh followed by the switch back; with C04 the result is
      the logical mesh of the deferred result (slow) resp. a renumbering of it by bijections (fast).
   3. hex_vertices / layout for EVERY stored cell that passes check_halfface_ordering, under hex_cell_wf_b (closed cell with
      exact cache entries, faces closed loops, first two halffaces on 8 distinct vertices); each conjunct is needed (refuted).
      After the fix "checked hex add_cell must reject cells without eight distinct vertices" (e0de5bf, modelled in HexModel.v):
      every cell accepted by a topology-checked add_cell has exactly eight distinct vertices (both forms); the two former
      witnesses are regression Examples.  After the fix "hex halfface ordering check must require vertex-disjoint top and bottom
      faces" (de91a3d, modelled in check_halfface_ordering) the third witness (top and bottom sharing two vertices on eight vertices
      in all) is rejected too (regression Example).  hex_cell_wf_b of an accepted cell follows when its faces are quads on four
      distinct vertices (see section 3); with faces that are merely closed loops it does not (a top quad (0,1,0,2) on a duplicate
      edge, replay build/th2/hex9.scripts; a face stored out of cyclic order by an unchecked add_face).
   4. The TetTopology constructor for every cell satisfying tet_cell_ok_b (tet_wf without the cache clause + closed loops +
      halfedge-level closure); both additions are needed (refuted). *)
From Coq Require Import ZArith List Arith.
From OVM Require Import Base.ListX Base.ListLemmas Gen.TetLabels Kernel.State Kernel.Ops Kernel.Closure Kernel.SwapInvol Kernel.ShiftFace Kernel.ExactInv
                        Kernel3.GcDefs Kernel3.GcFastChain
                        Mesh.TetModel Mesh.TetTopoModel Mesh.TetProofs Mesh.TetTopoProofs Mesh.HexModel Mesh.HexIterModel Mesh.HexProofs
                        Mesh.TH2Shape Mesh.TH2ShapeHist
                        Mesh.TH2CollapseBase Mesh.TH2CollapseLoop Mesh.TH2CollapseFold Mesh.TH2CollapseStar Mesh.TH2CollapseMain
                        Mesh.TH2CollapseTuple Mesh.TH2CollapseFinal Mesh.TH2CollapseModes Mesh.TH2CollapseSummary Mesh.TH2CollapseEx
                        Mesh.TH2TopoWf Mesh.TH2TopoMain
                        Mesh.TH2HexBase Mesh.TH2HexFrame Mesh.TH2HexVerts Mesh.TH2HexMain Mesh.TH2HexRefute Mesh.TH2HexChecked Mesh.TH2HexEight Mesh.TH2HexAccepted Mesh.TH2HexWf.
Import ListNotations.
Local Open Scope nat_scope.

(* ================================================================== 1. shape, every deletion mode *)

Theorem C15_tet_shape_invariant_all_modes : forall ops : list top, all_along empty_mesh ops -> tet_shape (tet_run ops).
Proof. exact tet_shape_run_all. Qed.
Print Assumptions C15_tet_shape_invariant_all_modes.

Theorem C15_tet_shape_step_all_modes : forall s o s' r,
  tet_shape s -> tet_setfc o = false -> (tslow s o = true -> thyp s o) -> tet_step s o = TOk s' r -> tet_shape s'.
Proof. exact tet_shape_step_all. Qed.
Print Assumptions C15_tet_shape_step_all_modes.

Theorem C15_shape_history_checker_sound : forall ops s, all_along_b s ops = true -> all_along s ops.
Proof. exact all_along_b_sound. Qed.
Print Assumptions C15_shape_history_checker_sound.

Theorem C15_old_history_class_is_included : forall ops s, inside_along s ops -> all_along s ops.
Proof. exact inside_along_all_along. Qed.
Print Assumptions C15_old_history_class_is_included.

(* full statement (refuted):  forall ops, all_executed empty_mesh ops = true -> tet_shape (tet_run ops) *)
Theorem C15_tet_shape_invariant_unconditional_refuted :
  (exists ops, all_executed empty_mesh ops = true /\ deferred (tet_run ops) = false /\
               exists c, live_c (tet_run ops) c = true /\ length (cell_at (tet_run ops) c) = 3) /\
  (exists ops, all_executed empty_mesh ops = true /\ deferred (tet_run ops) = true /\
               exists c, live_c (tet_run ops) c = true /\ length (cell_at (tet_run ops) c) = 3).
Proof. exact tet_shape_unconditional_refuted. Qed.
Print Assumptions C15_tet_shape_invariant_unconditional_refuted.

Theorem C16_hex_shape_invariant_all_modes : forall ops : list hop, all_along_hex empty_mesh ops -> hex_shape (hex_run ops).
Proof. exact hex_shape_run_all. Qed.
Print Assumptions C16_hex_shape_invariant_all_modes.

Theorem C16_hex_shape_step_all_modes : forall s o s' r,
  hex_shape s -> hex_setfc o = false -> (hslow s o = true -> hhyp s o) -> hex_step s o = HROk s' r -> hex_shape s'.
Proof. exact hex_shape_step_all. Qed.
Print Assumptions C16_hex_shape_step_all_modes.

Theorem C16_old_history_class_is_included : forall ops s, inside_along_hex s ops -> all_along_hex s ops.
Proof. exact inside_along_hex_all_along. Qed.
Print Assumptions C16_old_history_class_is_included.

Theorem C16_hex_shape_invariant_unconditional_refuted :
  exists ops, hex_all_executed empty_mesh ops = true /\
              exists c, live_c (hex_run ops) c = true /\ length (cell_at (hex_run ops) c) = 5.
Proof. exact hex_shape_unconditional_refuted. Qed.
Print Assumptions C16_hex_shape_invariant_unconditional_refuted.

(* non-vacuity: histories with slow removals of every kind, hypotheses checked by computation *)
Example C15_slow_history_satisfies_the_hypotheses :
  all_along_b empty_mesh slow_history = true /\
  existsb (fun n => tslow (tet_run (firstn n slow_history)) (nth n slow_history (TK AddVertex))) (seq 0 (length slow_history)) = true /\
  length (filter (fun n => tslow (tet_run (firstn n slow_history)) (nth n slow_history (TK AddVertex))) (seq 0 (length slow_history))) = 6.
Proof. exact slow_history_all_along. Qed.

Example C15_hypothesis_fails_at_the_witness :
  thyp_b (tet_run (firstn 5 shape_witness_immediate)) (TK (DelFace 0)) = false /\
  thyp_b (tet_run (firstn 5 shape_witness_gc)) (TK CollectGarbage) = false.
Proof. exact shape_witness_hypothesis_fails. Qed.

Example C16_slow_history_satisfies_the_hypotheses :
  all_along_hex_b empty_mesh slow_history_hex = true /\
  length (filter (fun n => hslow (hex_run (firstn n slow_history_hex)) (nth n slow_history_hex (HK AddVertex))) (seq 0 (length slow_history_hex))) = 4.
Proof. exact slow_history_hex_all_along. Qed.

(* ================================================================== 2. collapse_edge *)

Theorem C15_collapse_ready_checker_sound : forall s heh, collapse_ready_b s heh = true -> collapse_ready s heh.
Proof. exact collapse_ready_b_sound. Qed.
Print Assumptions C15_collapse_ready_checker_sound.

(* deferred mode: the call succeeds, returns b, removes nothing physically, appends one cell per rebuilt tet, flags exactly the
   cells of the star of a (and a), and the k-th appended cell is the k-th rebuilt tet, halfface by halfface, on the substituted
   vertices in the same cyclic order (collapse_result, Mesh/TH2CollapseMain.v) *)
Theorem C15_collapse_cell_set_deferred : forall s heh, collapse_ready s heh ->
  exists s', collapse_edge s heh = Some (s', he_to s heh) /\ collapse_result s heh s'.
Proof. exact collapse_edge_deferred_cells. Qed.
Print Assumptions C15_collapse_cell_set_deferred.

(* ... through get_cell_vertices: the tuple of the new cell is the old tuple with a replaced by b, up to a cyclic rotation of the
   first three entries (orientation preserved) *)
Theorem C15_collapse_rebuilt_tets_get_cell_vertices : forall s heh, collapse_ready s heh -> rebuilt_tets_ok_b s heh = true ->
  exists s', collapse_edge s heh = Some (s', he_to s heh) /\ collapse_result s heh s' /\
    forall k, k < length (rebuilt_cells s heh) ->
      let c := nth k (rebuilt_cells s heh) 0 in let c' := nc s + k in
      live_c s c = true /\ live_c s' c' = true /\
      exists x y z w x' y' z',
        gcv_c s c = Some [x; y; z; w] /\
        TH2CollapseBase.rot3 [sub (he_from s heh) (he_to s heh) x; sub (he_from s heh) (he_to s heh) y; sub (he_from s heh) (he_to s heh) z] [x'; y'; z'] /\
        gcv_c s' c' = Some [x'; y'; z'; sub (he_from s heh) (he_to s heh) w].
Proof. exact collapse_edge_deferred_tets. Qed.
Print Assumptions C15_collapse_rebuilt_tets_get_cell_vertices.

(* the sets of the statement through the stored definitions *)
Theorem C15_collapse_star_is_vertex_incidence : forall s heh, collapse_ready s heh -> forall c,
  In c (star s (he_from s heh)) <->
  c < nc s /\ c_deleted s c = false /\ exists hf, In hf (cell_at s c) /\ In (he_from s heh) (hf_vertices s hf).
Proof. exact star_is_vertex_incidence. Qed.
Print Assumptions C15_collapse_star_is_vertex_incidence.

Theorem C15_collapse_rebuilt_cells_brute_force : forall s heh, collapse_ready s heh ->
  strictly_sorted (rebuilt_cells s heh) /\
  forall c, In c (rebuilt_cells s heh) <->
    In c (star s (he_from s heh)) /\ ~ (exists hf, In hf (cell_at s c) /\ In heh (halfface s hf)).
Proof. exact rebuilt_cells_brute_force. Qed.
Print Assumptions C15_collapse_rebuilt_cells_brute_force.

(* everything not incident to a is untouched: stored definitions, flags, tuples of the stored definitions *)
Theorem C15_collapse_untouched : forall s heh, collapse_ready s heh -> forall s', collapse_edge s heh = Some (s', he_to s heh) ->
  (forall c, c < nc s -> cell_at s' c = cell_at s c /\ (In c (star s (he_from s heh)) \/ c_deleted s' c = c_deleted s c)) /\
  (forall f, f < nf s -> face_at s' f = face_at s f) /\ (forall e, e < ne s -> edge_at s' e = edge_at s e) /\
  (forall c, c < nc s -> c_deleted s c = false -> cell_tuple s' c = cell_tuple s c).
Proof. exact collapse_edge_untouched. Qed.
Print Assumptions C15_collapse_untouched.

Theorem C15_collapse_untouched_get_cell_vertices : forall s heh, collapse_ready s heh -> forall s',
  collapse_edge s heh = Some (s', he_to s heh) -> fbu s' = true -> fbu_ok s' ->
  forall c, c < nc s -> c_deleted s c = false -> ~ In c (star s (he_from s heh)) -> gcv_c s' c = gcv_c s c.
Proof. exact collapse_edge_untouched_gcv. Qed.
Print Assumptions C15_collapse_untouched_get_cell_vertices.

(* full statement (refuted): the previous theorem without `fbu_ok s'` - the link condition is what makes the cache exact *)
Theorem C15_collapse_untouched_without_link_condition_refuted :
  exists s heh s' c, collapse_ready s heh /\ rebuilt_tets_ok_b s heh = true /\ collapse_edge s heh = Some (s', he_to s heh) /\
    c < nc s /\ c_deleted s c = false /\ ~ In c (star s (he_from s heh)) /\ fbu s' = true /\ InvB.fbu_ok_b s' = false /\
    gcv_c s c = Some [1; 2; 3; 5] /\ gcv_c s' c = Some [1; 2; 3; 4].
Proof. exact untouched_gcv_without_link_condition_refuted. Qed.
Print Assumptions C15_collapse_untouched_without_link_condition_refuted.

(* the immediate modes *)
Theorem C15_collapse_immediate_is_deferred_then_switch_back : forall s heh, deferred s = false ->
  collapse_edge s heh =
  (do (s1, s3) <- collapse_pre (enable_deferred true s) heh;
   Some (enable_deferred false s3,
         collapse_survivor false s1 (he_from (enable_deferred true s) heh) (he_to (enable_deferred true s) heh))).
Proof. exact collapse_edge_immediate_is_deferred_then_collect. Qed.
Print Assumptions C15_collapse_immediate_is_deferred_then_switch_back.

Theorem C15_collapse_immediate_slow : forall s heh, deferred s = false -> fast s = false -> let d := enable_deferred true s in
  collapse_ready d heh -> exists d', collapse_edge d heh = Some (d', he_to d heh) /\ collapse_result d heh d' /\
  (gc_ready d' -> exists s', collapse_edge s heh = Some (s', if he_from d heh <? he_to d heh then he_to d heh - 1 else he_to d heh) /\
     nv s' = logical_nv d' /\ edges s' = logical_edges d' /\ faces s' = logical_faces d' /\ cells s' = logical_cells d' /\
     no_flags s' /\ deferred s' = false /\ fast s' = false /\
     ((forall v, v_deleted s v = false) -> length (vdel s) = nv s ->
      rank (vdel d') (he_to d heh) = (if he_from d heh <? he_to d heh then he_to d heh - 1 else he_to d heh))).
Proof. exact collapse_edge_immediate_slow. Qed.
Print Assumptions C15_collapse_immediate_slow.

Theorem C15_collapse_immediate_fast : forall s heh, deferred s = false -> fast s = true -> let d := enable_deferred true s in
  collapse_ready d heh -> exists d' s1, collapse_edge d heh = Some (d', he_to d heh) /\ collapse_result d heh d' /\ nv s1 = nv s /\
  (gc_ready d' -> sized d' -> fast d' = true -> exists s' rv re rf rc,
     collapse_edge s heh = Some (s', if he_to d heh =? nv s - 1 then he_from d heh else he_to d heh) /\
     gc_fast_post d' (collect_garbage d') rv re rf rc /\ no_flags s' /\ deferred s' = false /\
     nv s' = nv (collect_garbage d') /\ edges s' = edges (collect_garbage d') /\ faces s' = faces (collect_garbage d') /\
     cells s' = cells (collect_garbage d')).
Proof. exact collapse_edge_immediate_fast. Qed.
Print Assumptions C15_collapse_immediate_fast.

(* non-vacuity: five tets, two on the edge, two rebuilt, one untouched; every hypothesis holds by computation *)
Example C15_collapse_hypotheses_hold_on_five_tets :
  deferred collapse_ex = true /\ find_halfedge collapse_ex 0 1 = Some 0 /\
  collapse_ready_b collapse_ex 0 = true /\ rebuilt_tets_ok_b collapse_ex 0 = true /\
  star collapse_ex 0 = [0; 1; 2; 3] /\ collapsing_cells collapse_ex 0 = [0; 1] /\ rebuilt_cells collapse_ex 0 = [2; 3] /\
  map (gcv_c collapse_ex) [0; 1; 2; 3; 4] = [Some [0; 1; 2; 3]; Some [0; 1; 3; 4]; Some [0; 3; 2; 5]; Some [0; 4; 3; 5]; Some [1; 2; 3; 6]].
Proof. exact collapse_ex_hypotheses. Qed.

Example C15_collapse_result_on_five_tets :
  collapse_edge collapse_ex 0 = Some (collapse_ex_after, 1) /\
  cells collapse_ex_after = cells collapse_ex ++ [[6; 30; 32; 18]; [12; 33; 34; 22]] /\
  cdel collapse_ex_after = [true; true; true; true; false; false; false] /\
  map (gcv_c collapse_ex_after) [4; 5; 6] = [Some [1; 2; 3; 6]; Some [1; 3; 2; 5]; Some [1; 4; 3; 5]] /\
  bu_inv2_b collapse_ex_after = true /\ gc_ready_b collapse_ex_after = true.
Proof. exact collapse_ex_result. Qed.

Example C15_collapse_untouched_tet_on_five_tets : gcv_c collapse_ex_after 4 = gcv_c collapse_ex 4.
Proof. exact collapse_ex_untouched. Qed.

Example C15_collapse_immediate_slow_hypotheses_hold :
  deferred collapse_ex_slow = false /\ fast collapse_ex_slow = false /\
  collapse_ready_b (enable_deferred true collapse_ex_slow) 0 = true /\
  gc_ready_b (deferred_result collapse_ex_slow 0) = true /\
  (exists s', collapse_edge collapse_ex_slow 0 = Some (s', 0) /\ nv s' = 6 /\
     cells s' = [[1; 8; 10; 12]; [0; 14; 16; 4]; [2; 17; 18; 6]] /\
     map (gcv_c s') [0; 1; 2] = [Some [0; 1; 2; 5]; Some [0; 2; 1; 4]; Some [0; 3; 2; 4]]).
Proof. exact collapse_ex_slow_hypotheses. Qed.

Example C15_collapse_immediate_fast_hypotheses_hold :
  deferred collapse_ex_fast = false /\ fast collapse_ex_fast = true /\
  collapse_ready_b (enable_deferred true collapse_ex_fast) 0 = true /\
  gc_ready_b (deferred_result collapse_ex_fast 0) = true /\ szd_b (deferred_result collapse_ex_fast 0) = true /\
  fast (deferred_result collapse_ex_fast 0) = true /\
  (exists s', collapse_edge collapse_ex_fast 0 = Some (s', 1) /\ nv s' = 6 /\
     map (gcv_c s') [0; 1; 2] = [Some [1; 4; 3; 5]; Some [1; 2; 3; 0]; Some [1; 3; 2; 5]]).
Proof. exact collapse_ex_fast_hypotheses. Qed.

(* ================================================================== 3. hex_vertices and the layout of every ordered cell *)

Theorem C16_hex_vertices_cube_pattern : forall s c,
  hex_shape s -> c < nc s -> check_halfface_ordering s (cell_at s c) = true -> hex_cell_wf_b s c = true -> hex_cube_pattern s c.
Proof. exact TH2_hex_vertices_cube_pattern. Qed.
Print Assumptions C16_hex_vertices_cube_pattern.

Theorem C16_hex_cell_layout : forall s c,
  hex_shape s -> c < nc s -> check_halfface_ordering s (cell_at s c) = true -> hex_cell_wf_b s c = true ->
  hex_layout s (cell_at s c) = true.
Proof. exact TH2_hex_cell_layout. Qed.
Print Assumptions C16_hex_cell_layout.

Theorem C16_hex_opposite_faces_vertex_disjoint : forall s c,
  hex_shape s -> c < nc s -> check_halfface_ordering s (cell_at s c) = true -> hex_cell_wf_b s c = true ->
  let l := cell_at s c in
  disjointb (hf_vertices s (hx l 0)) (hf_vertices s (hx l 1)) = true /\
  disjointb (hf_vertices s (hx l 2)) (hf_vertices s (hx l 3)) = true /\
  disjointb (hf_vertices s (hx l 4)) (hf_vertices s (hx l 5)) = true.
Proof. exact TH2_hex_cell_opposite_faces_disjoint. Qed.
Print Assumptions C16_hex_opposite_faces_vertex_disjoint.

Theorem C16_hex_wf_checker_is_exact : forall s c, hex_cell_wf_b s c = true <-> hex_cell_wf s c.
Proof. exact hex_cell_wf_b_spec. Qed.
Print Assumptions C16_hex_wf_checker_is_exact.

(* full statement (refuted): forall s c, hex_shape s -> c < nc s -> check_halfface_ordering s (cell_at s c) = true -> hex_cube_pattern s c *)
Theorem C16_hex_pattern_from_ordering_alone_refuted :
  ~ (forall s c, hex_shape s -> c < nc s -> check_halfface_ordering s (cell_at s c) = true -> hex_cube_pattern s c).
Proof. exact hex_pattern_from_ordering_alone_refuted. Qed.
Print Assumptions C16_hex_pattern_from_ordering_alone_refuted.

(* each conjunct of hex_cell_wf_b is needed *)
Theorem C16_hex_pattern_without_closedness_refuted :
  exists s c, hex_shape s /\ c < nc s /\ check_halfface_ordering s (cell_at s c) = true /\
              wf_cache s c = true /\ wf_loops s c = true /\ wf_eight s c = true /\
              hex_vertices s c = None /\ ~ hex_cube_pattern s c /\ hex_layout s (cell_at s c) = false.
Proof. exact hex_pattern_without_closedness_refuted. Qed.
Print Assumptions C16_hex_pattern_without_closedness_refuted.

Theorem C16_hex_pattern_without_loops_refuted :
  exists s c, hex_shape s /\ c < nc s /\ check_halfface_ordering s (cell_at s c) = true /\
              wf_closed s c = true /\ wf_eight s c = true /\
              hex_vertices s c = Some [3; 0; 1; 2; 3; 5; 4; 0] /\ ~ hex_cube_pattern s c.
Proof. exact hex_pattern_without_loops_refuted. Qed.
Print Assumptions C16_hex_pattern_without_loops_refuted.

(* a "hexahedron" on SEVEN vertices (a cube pinched in a vertex; built without topology check - both topology-checked forms of
   add_cell reject it since the fix e0de5bf, Examples C16_pinched_cell_rejected_* below) *)
Theorem C16_hex_pattern_without_eight_vertices_refuted :
  exists s c, hex_shape s /\ c < nc s /\ ordering_walk s (cell_at s c) = true /\
              wf_closed s c = true /\ wf_loops s c = true /\
              hex_vertices s c = Some [3; 0; 1; 2; 5; 0; 7; 4] /\ ~ hex_cube_pattern s c /\ hex_layout s (cell_at s c) = false.
Proof. exact hex_pattern_without_eight_vertices_refuted. Qed.
Print Assumptions C16_hex_pattern_without_eight_vertices_refuted.

(* a vertex COUNT cannot replace "the first two halffaces carry eight distinct vertices": six quads in two closed components on ten
   vertices (built without topology check; rejected by the checked add_cell since the fix, Example C16_two_components_rejected) *)
Theorem C16_hex_pattern_with_ten_vertices_refuted :
  exists s0 hfs s c, hex_step s0 (HK (AddCell hfs false)) = HROk s (Some c) /\
              hex_shape s /\ c < nc s /\ ordering_walk s (cell_at s c) = true /\
              wf_closed s c = true /\ wf_loops s c = true /\ 8 <= length (hfs_vertex_set s (cell_at s c)) /\
              hex_vertices s c = Some [0; 3; 2; 1; 4; 2; 3; 5] /\ ~ hex_cube_pattern s c /\ hex_layout s (cell_at s c) = false.
Proof. exact hex_pattern_with_ten_vertices_refuted. Qed.
Print Assumptions C16_hex_pattern_with_ten_vertices_refuted.

(* ---- the topology-checked add_cell after the fix "checked hex add_cell must reject cells without eight distinct vertices" *)

(* from six halffaces, every state and list: an accepted cell has exactly eight distinct vertices, its stored list is
   duplicate-free and consists of the given halffaces *)
Theorem C16_checked_add_cell_eight_distinct_vertices : forall s hfs s' c, hex_add_cell s hfs true = (s', Some c) ->
  length (hfs_vertex_set s' (cell_at s' c)) = 8 /\ NoDup (cell_at s' c) /\ (forall x, In x (cell_at s' c) <-> In x hfs).
Proof. exact hex_add_cell_checked_eight. Qed.
Print Assumptions C16_checked_add_cell_eight_distinct_vertices.

(* from eight vertices (under the kernel's cache invariant bu_inv, valid vertex handles): an accepted cell stores six halffaces
   on exactly the eight given, pairwise distinct, vertices *)
Theorem C16_checked_add_cell_from_vertices_eight_distinct_vertices : forall s vs s' c,
  bu_inv s -> (forall v, In v vs -> v < nv s) -> hex_add_cell_v s vs true = (s', Some c) ->
  length (hfs_vertex_set s' (cell_at s' c)) = 8 /\ same_elems (hfs_vertex_set s' (cell_at s' c)) vs /\ length (cell_at s' c) = 6.
Proof. exact hex_add_cell_v_checked_eight. Qed.
Print Assumptions C16_checked_add_cell_from_vertices_eight_distinct_vertices.

(* for an accepted cell the ordering hypothesis of the pattern / layout theorems comes from the acceptance *)
Theorem C16_accepted_cell_pattern_and_layout : forall s hfs s' c,
  hex_shape s -> hex_add_cell s hfs true = (s', Some c) -> hex_cell_wf_b s' c = true ->
  hex_cube_pattern s' c /\ hex_layout s' (cell_at s' c) = true /\ length (hfs_vertex_set s' (cell_at s' c)) = 8.
Proof. exact accepted_cell_pattern. Qed.
Print Assumptions C16_accepted_cell_pattern_and_layout.

(* EVERY cell accepted by the topology-checked add_cell(halffaces) whose faces are quads = closed loops on four distinct vertices
   (with the face incidences on and the given handles designating faces) is well formed, hence hex_vertices reports the cube pattern,
   the cell is in the documented layout and its opposite faces are vertex-disjoint - no hypothesis on the ordering or the cell *)
Theorem C16_accepted_cell_is_well_formed : forall s hfs s' c, hex_add_cell s hfs true = (s', Some c) ->
  fbu s = true -> length (inc_cell s) = 2 * nf s -> (forall hf, In hf hfs -> hf < 2 * nf s) ->
  (forall hf, In hf (cell_at s' c) -> loop_ok s' (halfface s' hf) = true /\ NoDup (hf_vertices s' hf)) ->
  hex_cell_wf_b s' c = true.
Proof. exact accepted_cell_wf. Qed.
Print Assumptions C16_accepted_cell_is_well_formed.

Theorem C16_accepted_cell_is_a_cube : forall s hfs s' c, hex_shape s -> hex_add_cell s hfs true = (s', Some c) ->
  fbu s = true -> length (inc_cell s) = 2 * nf s -> (forall hf, In hf hfs -> hf < 2 * nf s) ->
  (forall hf, In hf (cell_at s' c) -> loop_ok s' (halfface s' hf) = true /\ NoDup (hf_vertices s' hf)) ->
  hex_cell_wf_b s' c = true /\ hex_cube_pattern s' c /\ hex_layout s' (cell_at s' c) = true /\
  (let l := cell_at s' c in
   disjointb (hf_vertices s' (hx l 0)) (hf_vertices s' (hx l 1)) = true /\
   disjointb (hf_vertices s' (hx l 2)) (hf_vertices s' (hx l 3)) = true /\
   disjointb (hf_vertices s' (hx l 4)) (hf_vertices s' (hx l 5)) = true).
Proof. exact accepted_cell_is_a_cube. Qed.
Print Assumptions C16_accepted_cell_is_a_cube.

(* full statement (refuted): the same with "closed loop" instead of "closed loop on four distinct vertices" - a top quad on the vertex
   cycle (0,1,0,2) over a duplicate edge (a non-simple face: out of contract) is accepted by model and library *)
Theorem C16_accepted_cell_without_distinct_face_vertices_refuted :
  exists s0 hfs s c, hex_step s0 (HK (AddCell hfs true)) = HROk s (Some c) /\
    (forall hf, In hf (cell_at s c) -> loop_ok s (halfface s hf) = true) /\
    length (hfs_vertex_set s (cell_at s c)) = 8 /\ hf_vertices s (hx (cell_at s c) 0) = [0; 1; 0; 2] /\
    hex_cell_wf_b s c = false /\ hex_vertices s c = None.
Proof. exact accepted_cell_wf_without_distinct_face_vertices_refuted. Qed.
Print Assumptions C16_accepted_cell_without_distinct_face_vertices_refuted.

Example C16_accepted_cell_is_a_cube_applies :
  let s := hex_run [HK (AddVertices 12); HAddCellV [0; 1; 2; 3; 4; 5; 6; 7] true; HAddCellV [8; 9; 10; 11; 7; 1; 2; 6] true;
                    HK (EnableDeferred false); HK (DelCell 1)] in
  let hfs := [20; 14; 5; 18; 12; 16] in
  exists s', hex_add_cell s hfs true = (s', Some 1) /\ cell_at s' 1 <> hfs /\
    fbu s = true /\ length (inc_cell s) = 2 * nf s /\ forallb (fun hf => hf <? 2 * nf s) hfs = true /\
    forallb (fun hf => loop_ok s' (halfface s' hf) && nodup_b (hf_vertices s' hf)) (cell_at s' 1) = true /\
    hex_cell_wf_b s' 1 = true.
Proof. exact accepted_cell_is_a_cube_applies. Qed.

(* the two ordering walks, closedness, loops and exactly eight vertices do not give the layout: top (0,1,2,3) and bottom (0,4,2,5)
   share two vertices, in every side face the edge to the top and the edge to the bottom are adjacent.  After e0de5bf the checked
   add_cell (and the library) still accepted this cell; since the fix "hex halfface ordering check must require vertex-disjoint top
   and bottom faces" (de91a3d, modelled in check_halfface_ordering) it is rejected: Example C16_twisted_cell_rejected *)
Theorem C16_hex_pattern_with_shared_top_and_bottom_refuted :
  exists s0 hfs s c, hex_step s0 (HK (AddCell hfs false)) = HROk s (Some c) /\
              hex_shape s /\ c < nc s /\ ordering_walk s (cell_at s c) = true /\
              wf_closed s c = true /\ wf_loops s c = true /\ length (hfs_vertex_set s (cell_at s c)) = 8 /\
              wf_eight s c = false /\ hex_layout s (cell_at s c) = false.
Proof. exact hex_pattern_with_shared_top_and_bottom_refuted. Qed.
Print Assumptions C16_hex_pattern_with_shared_top_and_bottom_refuted.

Example C16_twisted_cell_rejected :
  let s := hex_run refute_twisted_pre in
  hex_valid s (HK (AddCell [0; 2; 4; 6; 8; 10] true)) = true /\ hex_step s (HK (AddCell [0; 2; 4; 6; 8; 10] true)) = HROk s None /\
  cell_check s [0; 2; 4; 6; 8; 10] = true /\ ordering_walk s [0; 2; 4; 6; 8; 10] = true /\ check_halfface_ordering s [0; 2; 4; 6; 8; 10] = false /\
  length (hfs_vertex_set s [0; 2; 4; 6; 8; 10]) = 8.
Proof. exact twisted_cell_rejected. Qed.

(* regressions of the fix: the two former witnesses are rejected, the mesh unchanged *)
Example C16_pinched_cell_rejected_from_vertices :
  let s := hex_run [HK (AddVertices 8)] in
  hex_valid s (HAddCellV [0; 1; 2; 3; 4; 5; 0; 7] true) = true /\ hex_step s (HAddCellV [0; 1; 2; 3; 4; 5; 0; 7] true) = HROk s None.
Proof. exact pinched_cell_rejected_from_vertices. Qed.

Example C16_pinched_cell_rejected_from_halffaces :
  let s := hex_run (removelast refute_pinched_ops') in
  hex_valid s (HK (AddCell [0; 2; 4; 6; 8; 10] true)) = true /\ hex_step s (HK (AddCell [0; 2; 4; 6; 8; 10] true)) = HROk s None /\
  cell_check s [0; 2; 4; 6; 8; 10] = true /\ ordering_walk s [0; 2; 4; 6; 8; 10] = true /\
  length (hfs_vertex_set s [0; 2; 4; 6; 8; 10]) = 7.
Proof. exact pinched_cell_rejected_from_halffaces. Qed.

Example C16_two_components_rejected :
  let s := hex_run refute_two_components_pre in
  hex_valid s (HK (AddCell [0; 2; 4; 6; 8; 10] true)) = true /\ hex_step s (HK (AddCell [0; 2; 4; 6; 8; 10] true)) = HROk s None /\
  cell_check s [0; 2; 4; 6; 8; 10] = true /\ ordering_walk s [0; 2; 4; 6; 8; 10] = true /\
  length (hfs_vertex_set s [0; 2; 4; 6; 8; 10]) = 10.
Proof. exact two_components_rejected. Qed.

Example C16_checked_add_cell_accepts_a_cell_with_a_non_loop_face :
  let s0 := hex_run (removelast refute_loop_ops) in
  exists s, hex_step s0 (HK (AddCell [0; 2; 4; 6; 8; 12] true)) = HROk s (Some 0) /\
            loop_ok s (halfface s 12) = false /\ hex_vertices s 0 = Some [3; 0; 1; 2; 3; 5; 4; 0].
Proof. exact checked_add_cell_accepts_a_cell_with_a_non_loop_face. Qed.

Theorem C16_checked_add_cell_stores_checked_and_ordered : forall s hfs s' c, hex_add_cell s hfs true = (s', Some c) ->
  c = nc s /\ faces s' = faces s /\ length (cell_at s' c) = 6 /\
  cell_check s' (cell_at s' c) = true /\ check_halfface_ordering s' (cell_at s' c) = true.
Proof. exact hex_add_cell_checked_stored. Qed.
Print Assumptions C16_checked_add_cell_stores_checked_and_ordered.

(* non-vacuity: the second cell of two glued cubes (its second halfface is the ODD halfface of a face of the first cube, found in
   another rotation), and all four cells of a 2x2x1 block *)
Example C16_two_cells_hypotheses_hold :
  hex_shape th2_two_cells /\ 1 < nc th2_two_cells /\ cell_at th2_two_cells 1 = [12; 5; 14; 16; 18; 20] /\
  check_halfface_ordering th2_two_cells (cell_at th2_two_cells 1) = true /\ hex_cell_wf_b th2_two_cells 1 = true /\
  hex_vertices th2_two_cells 1 = Some [11; 8; 9; 10; 1; 2; 6; 7].
Proof. exact th2_two_cells_hyps. Qed.

Example C16_two_cells_pattern : hex_cube_pattern th2_two_cells 1.
Proof. exact th2_two_cells_pattern. Qed.

Example C16_four_cells_hypotheses_hold :
  hex_shape th2_four_cells /\ nc th2_four_cells = 4 /\
  forallb (fun c => check_halfface_ordering th2_four_cells (cell_at th2_four_cells c) && hex_cell_wf_b th2_four_cells c) [0; 1; 2; 3] = true.
Proof. exact th2_four_cells_hyps. Qed.

(* ================================================================== 4. the TetTopology constructor, every well-formed tet *)

Theorem C15_tettopology_constructor_consistent : forall s c, tet_cell_ok_b s c = true ->
  forall abc a, In abc (cell_at s c) -> In a (hf_vertices s abc) ->
  exists t, tt_make s c abc (Some a) = Some t /\ tt_consistent s c t = true /\
            tt_vh_l t VL_A = Some a /\ tt_hfh_l t HFL_ABC = Some abc.
Proof. exact tt_make_consistent. Qed.
Print Assumptions C15_tettopology_constructor_consistent.

Theorem C15_tettopology_constructor_default_start : forall s c, tet_cell_ok_b s c = true ->
  forall abc, In abc (cell_at s c) ->
  exists t, tt_make s c abc None = Some t /\ tt_consistent s c t = true /\
            tt_vh_l t VL_A = Some (he_from s (nth 0 (halfface s abc) 0)) /\ tt_hfh_l t HFL_ABC = Some abc.
Proof. exact tt_make_default_consistent. Qed.
Print Assumptions C15_tettopology_constructor_default_start.

Theorem C15_tettopology_constructor_from_halfface : forall s c, tet_cell_ok_b s c = true -> tet_cell_inc_b s c = true ->
  forall abc a, In abc (cell_at s c) -> In a (hf_vertices s abc) ->
  exists t, tt_make_hf s abc (Some a) = Some t /\ tt_consistent s c t = true /\
            tt_vh_l t VL_A = Some a /\ tt_hfh_l t HFL_ABC = Some abc.
Proof. exact tt_make_hf_consistent. Qed.
Print Assumptions C15_tettopology_constructor_from_halfface.

Theorem C15_tettopology_constructor_from_cell : forall s c, tet_cell_ok_b s c = true ->
  exists t, tt_make_c s c = Some t /\ tt_consistent s c t = true /\ tt_hfh_l t HFL_ABC = Some (nth 0 (cell_at s c) 0).
Proof. exact tt_make_c_consistent. Qed.
Print Assumptions C15_tettopology_constructor_from_cell.

Theorem C15_tettopology_constructor_from_cell_and_vertex : forall s c, tet_cell_ok_b s c = true ->
  forall a, In a (hfs_vertex_set s (cell_at s c)) ->
  exists t abc, tt_make_c_v s c a = Some t /\ tt_consistent s c t = true /\
                tt_vh_l t VL_A = Some a /\ tt_hfh_l t HFL_ABC = Some abc /\
                find (fun hf => memb a (hf_vertices s hf)) (cell_at s c) = Some abc.
Proof. exact tt_make_c_v_consistent. Qed.
Print Assumptions C15_tettopology_constructor_from_cell_and_vertex.

Theorem C15_tettopology_all_choices_of_every_ok_cell : forall s,
  forallb (tet_cell_ok_b s) (live_cells s) = true -> all_tt_consistent s = true.
Proof. exact all_tt_consistent_of_ok. Qed.
Print Assumptions C15_tettopology_all_choices_of_every_ok_cell.

Theorem C15_tettopology_on_tet_wf_with_loops_and_closure : forall s c hfs V, tet_wf s c hfs V ->
  (forall hf, In hf hfs -> loop_ok s (halfface s hf) = true) ->
  (forall hf h, In hf hfs -> In h (halfface s hf) -> exists hf', In hf' hfs /\ In (opp h) (halfface s hf')) ->
  forall abc a, In abc hfs -> In a (hf_vertices s abc) ->
  exists t, tt_make s c abc (Some a) = Some t /\ tt_consistent s c t = true /\
            tt_vh_l t VL_A = Some a /\ tt_hfh_l t HFL_ABC = Some abc.
Proof. exact tt_make_consistent_wf. Qed.
Print Assumptions C15_tettopology_on_tet_wf_with_loops_and_closure.

(* full statement (refuted): the same for every tet_wf cell - one face stored flipped / one face on a duplicate edge (tet_wf and
   closed loops, no halfedge-level closure); a face whose halfedges are listed out of order (tet_wf and closure, no loop) *)
Theorem C15_tettopology_without_closure_refuted :
  exists s c hfs V abc a, tet_wf s c hfs V /\ (forall hf, In hf hfs -> loop_ok s (halfface s hf) = true) /\
    In abc hfs /\ In a (hf_vertices s abc) /\ ~ (exists t, tt_make s c abc (Some a) = Some t /\ tt_consistent s c t = true).
Proof. exact tt_make_without_closure_refuted. Qed.
Print Assumptions C15_tettopology_without_closure_refuted.

Theorem C15_tettopology_on_a_duplicate_edge_refuted :
  exists s c hfs V abc a, tet_wf s c hfs V /\ (forall hf, In hf hfs -> loop_ok s (halfface s hf) = true) /\
    In abc hfs /\ In a (hf_vertices s abc) /\ ~ (exists t, tt_make s c abc (Some a) = Some t /\ tt_consistent s c t = true).
Proof. exact tt_make_without_closure_dup_refuted. Qed.
Print Assumptions C15_tettopology_on_a_duplicate_edge_refuted.

Theorem C15_tettopology_without_loops_refuted :
  exists s c hfs V abc a, tet_wf s c hfs V /\
    (forall hf h, In hf hfs -> In h (halfface s hf) -> exists hf', In hf' hfs /\ In (opp h) (halfface s hf')) /\
    In abc hfs /\ In a (hf_vertices s abc) /\ ~ (exists t, tt_make s c abc (Some a) = Some t /\ tt_consistent s c t = true).
Proof. exact tt_make_without_loops_refuted. Qed.
Print Assumptions C15_tettopology_without_loops_refuted.

Example C15_tettopology_hypothesis_holds_on_glued_tets :
  tet_cell_ok_b tt_mesh_1 0 = true /\ tet_cell_ok_b tt_mesh_2 0 = true /\ tet_cell_ok_b tt_mesh_2 1 = true /\
  tet_cell_inc_b tt_mesh_2 1 = true /\ cell_at tt_mesh_2 1 = [0; 8; 10; 12] /\ halfface tt_mesh_2 0 = [0; 2; 4] /\
  hf_vertices tt_mesh_2 0 = [3; 2; 1] /\ all_cells_ok tt_mesh_fan = true /\ length (live_cells tt_mesh_fan) = 4.
Proof. exact tet_cell_ok_on_glued_tets. Qed.

Example C15_tettopology_theorem_applies :
  exists t, tt_make tt_mesh_2 1 0 (Some 1) = Some t /\ tt_consistent tt_mesh_2 1 t = true /\
            tt_vh_l t VL_A = Some 1 /\ tt_hfh_l t HFL_ABC = Some 0.
Proof. exact tt_make_consistent_applies. Qed.
