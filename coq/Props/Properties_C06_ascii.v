(* Props/Properties_C06_ascii.v -- ASCII (.ovm) half of C06: round trip of the native text format.
   Models: IO/AsciiWriterModel.v (write_ascii = FileManager::writeStream, byte for byte) and IO/AsciiReaderModel.v (read_ascii =
   FileManager::readStream), both tied to the real library in lock step (lib/checks_ascii.py).
   Floating point: [print_d] (operator<<(double): "%g", precision 6) and [conv_d] (strtod + libstdc++'s overflow rule) are
   parameters; what is assumed about them is stated in each theorem.

   THE FULL STATEMENT (C06, ASCII):
     for every mesh file m without pending deletions whose values lie inside the format's limits (finite floating point,
     no whitespace char values, property names without newline and not ending in a quote) - with persistent properties of
     every serializable type on every entity kind, for polyhedral / tetrahedral / hexahedral meshes, topology check on
     (for meshes that pass it) and off, bottom-up incidences on and off -
        read_ascii (write_ascii m) = RTrue m1,  m1 = m up to the printed precision of floating point values,
        read_ascii (write_ascii m1) = RTrue m1                      (the second round trip changes nothing)
     under the single assumption  parse_d (print_d (parse_d (print_d x))) = parse_d (print_d x);
     a mesh WITH pending deletions is refused or written as its logical content.
   PROVED here: the statement for the topology (entity counts, every edge / face / cell definition handle for handle) and
   the vertex positions, for polyhedral meshes read without topology check (any bottom-up setting): C06_ascii_roundtrip_partial.
   The property sections (28 types x 7 kinds) and the tet / hex / topology-check configurations are covered by the lock step
   and the write->read->write oracle on generated meshes, not by a theorem.
   REFUTED (recorded findings, KNOWN_FINDINGS.json): the last sentence (C06_ascii_pending_refuted, D7) and the round trip of
   values outside the format's limits (C06_ascii_format_limits_refuted, ascii-format-limits). *)
From Coq Require Import ZArith Lia List String.
From OVM Require Import Kernel.Ops.
From OVM Require Import IO.AsciiStream IO.AsciiReaderModel IO.AsciiWriterModel IO.AsciiProofs.
Import ListNotations.
Local Open Scope Z_scope.

(* Round trip, topology and positions.  [okf] is the set of bit patterns the printer prints as a numeral (the finite
   values); the hypotheses say: a printed numeral is one blank-free token that does not start with '#', num_get's scanner
   accepts exactly it, converting it does not set failbit, a reparsed value is printable again, and the recorded assumption
   parse (print (parse (print x))) = parse (print x).  [wfw o w]: no pending deletions, finite coordinates, no properties,
   polyhedral mesh read without topology check, every handle in range, valences >= 1, counts below 2^31 and allocatable.
   Conclusion: both reads succeed; the first returns the topology of w handle for handle and the reparsed coordinates; the
   second - of what the first returned - returns exactly the same topology and the same coordinates. *)
Theorem C06_ascii_roundtrip_partial :
  forall (conv_d conv_f : list byte -> Z * bool) (print_d print_f : Z -> list byte) (okf : Z -> Prop),
  (forall b, okf b -> tokp (print_d b) /\ hd 0 (print_d b) <> 35) ->
  (forall b r, okf b -> endsp r -> float_scan (print_d b ++ r) = (print_d b, r)) ->
  (forall b, okf b -> snd (conv_d (print_d b)) = false) ->
  (forall b, okf b -> okf (reparse conv_d print_d b)) ->
  (forall b, okf b -> reparse conv_d print_d (reparse conv_d print_d b) = reparse conv_d print_d b) ->
  forall (o : opts) (w : wmesh), wfw okf o w ->
  exists f1 f2,
    read_ascii conv_d conv_f o (write_ascii print_d print_f w) = RTrue f1 /\
    read_ascii conv_d conv_f o (write_ascii print_d print_f (reread conv_d print_d w f1)) = RTrue f2 /\
    topo (f_mesh f1) = topo (w_mesh w) /\
    f_props f1 = [pos_entry (map (rp3 conv_d print_d) (w_pos w))] /\
    topo (f_mesh f2) = topo (f_mesh f1) /\ f_props f2 = f_props f1.
Proof. intros. eapply read_write_twice; eauto. Qed.
Print Assumptions C06_ascii_roundtrip_partial.

(* the mesh read back never has pending deletions (so it can be written again as it is) *)
Theorem C06_ascii_read_has_no_deletions : forall conv_d conv_f (o : opts) (bytes : list byte) (f : fin),
  read_ascii conv_d conv_f o bytes = RTrue f -> nodel (f_mesh f).
Proof. intros. exact (read_stream_nodel conv_d conv_f o (of_bytes bytes) f H). Qed.
Print Assumptions C06_ascii_read_has_no_deletions.

(* integers: what operator<< prints, operator>> reads back, for every value of an unsigned type of width w, whatever
   follows (the end of the line or a non-digit) *)
Theorem C06_ascii_integer_roundtrip : forall (w n : Z) (r : list byte), 0 < w -> 0 <= n < 2 ^ w ->
  (r = [] \/ exists c r', r = c :: r' /\ is_digit c = false) ->
  extract_int w false (print_Z n ++ r) = (n, false, r).
Proof. intros. apply extract_int_print; auto. Qed.
Print Assumptions C06_ascii_integer_roundtrip.

(* the size-capped map loop of the model is the literal `for (i < size)` loop *)
Theorem C06_ascii_map_loop_cap : forall n s acc, 0 <= n -> deser_map_loop (Z.to_nat n) s acc = deser_map_loop (map_iters n s) s acc.
Proof. exact deser_map_loop_cap. Qed.
Print Assumptions C06_ascii_map_loop_cap.

(* ------------------------------------------------------------------ refutations (computed witnesses) *)

Definition ex_conv (l : list byte) : Z * bool := (0, false).
Definition ex_print (b : Z) : list byte := [48].
Definition ex_opts : opts := {| o_mesh := MPoly; o_check := false; o_bu := false; o_alloc := 4294967296 |}.

(* one vertex, deferred-deleted, not collected *)
Definition m_pending : mesh :=
  {| nv := 1; edges := []; faces := []; cells := []; vdel := [true]; edel := []; fdel := []; cdel := [];
     ndv := 1; nde := 0; ndf := 0; ndc := 0; vbu := true; ebu := true; fbu := true; deferred := true; fast := true;
     out_hes := [[]]; inc_hfs := []; inc_cell := []; pv := []; pe := []; phe := []; pf := []; phf := []; pc := []; pm := [] |}.
Definition w_pending : wmesh := {| w_mesh := m_pending; w_pos := [(0, 0, 0)]; w_props := [] |}.

(* C06 last sentence ("a mesh with pending deletions is refused or written as its logical content") - the writer has no
   way to refuse (writeStream is void), and what it writes does not read back: REFUTED (KNOWN_FINDINGS D7) *)
Theorem C06_ascii_pending_refuted :
  exists w, needs_gc (w_mesh w) = true /\
            exists f, read_ascii ex_conv ex_conv ex_opts (write_ascii ex_print ex_print w) = RFalse f.
Proof. exists w_pending. split; [reflexivity|]. eexists. vm_compute. reflexivity. Qed.
Print Assumptions C06_ascii_pending_refuted.

(* a char property holding a blank: written "A", " ", "B"; read back 'A', 'B', <default> *)
Definition m_3v : mesh :=
  {| nv := 3; edges := []; faces := []; cells := []; vdel := [false; false; false]; edel := []; fdel := []; cdel := [];
     ndv := 0; nde := 0; ndf := 0; ndc := 0; vbu := true; ebu := true; fbu := true; deferred := true; fast := true;
     out_hes := [[]; []; []]; inc_hfs := []; inc_cell := []; pv := []; pe := []; phe := []; pf := []; phf := []; pc := []; pm := [] |}.
Definition w_charws : wmesh :=
  {| w_mesh := m_3v; w_pos := [(0, 0, 0); (0, 0, 0); (0, 0, 0)];
     w_props := [ {| p_kind := KV; p_name := [99]; p_type := TChar; p_persistent := true; p_vals := [VInt 65; VInt 32; VInt 66] |} ] |}.

Theorem C06_ascii_format_limits_refuted :
  exists w f, needs_gc (w_mesh w) = false /\
    read_ascii ex_conv ex_conv ex_opts (write_ascii ex_print ex_print w) = RTrue f /\
    (exists p, nth_error (f_props f) 1 = Some p /\ p_vals p = [VInt 65; VInt 66; VInt 0]) /\
    (exists q, nth_error (w_props w) 0 = Some q /\ p_vals q = [VInt 65; VInt 32; VInt 66]).
Proof.
  exists w_charws. eexists. split; [reflexivity|]. split; [vm_compute; reflexivity|].
  split; eexists; (split; [reflexivity|reflexivity]).
Qed.
Print Assumptions C06_ascii_format_limits_refuted.

(* ------------------------------------------------------------------ non-vacuity of the round-trip theorem *)

(* a printer/parser pair satisfying every hypothesis (on the single value 0), and a triangle satisfying wfw *)
Definition ex_okf (b : Z) : Prop := b = 0.
Definition m_tri : mesh :=
  {| nv := 3; edges := [(0, 1); (1, 2); (2, 0)]%nat; faces := [[0; 2; 4]%nat]; cells := [];
     vdel := [false; false; false]; edel := [false; false; false]; fdel := [false]; cdel := [];
     ndv := 0; nde := 0; ndf := 0; ndc := 0; vbu := false; ebu := false; fbu := false; deferred := true; fast := true;
     out_hes := []; inc_hfs := []; inc_cell := []; pv := []; pe := []; phe := []; pf := []; phf := []; pc := []; pm := [] |}.
Definition w_tri : wmesh := {| w_mesh := m_tri; w_pos := [(0, 0, 0); (0, 0, 0); (0, 0, 0)]; w_props := [] |}.

Example C06_ascii_roundtrip_hypotheses_satisfiable :
  (forall b, ex_okf b -> tokp (ex_print b) /\ hd 0 (ex_print b) <> 35) /\
  (forall b r, ex_okf b -> endsp r -> float_scan (ex_print b ++ r) = (ex_print b, r)) /\
  (forall b, ex_okf b -> snd (ex_conv (ex_print b)) = false) /\
  (forall b, ex_okf b -> ex_okf (reparse ex_conv ex_print b)) /\
  (forall b, ex_okf b -> reparse ex_conv ex_print (reparse ex_conv ex_print b) = reparse ex_conv ex_print b) /\
  wfw ex_okf ex_opts w_tri.
Proof.
  split; [|split; [|split; [|split; [|split]]]].
  - intros b _. split; [split; [discriminate|repeat constructor]|discriminate].
  - intros b r _ [->|(r' & ->)]; reflexivity.
  - intros b _. reflexivity.
  - intros b _. reflexivity.
  - intros b _. reflexivity.
  - constructor; try reflexivity.
    + repeat constructor.
    + split; cbn; lia.
    + split; cbn; lia.
    + split; cbn; lia.
    + split; cbn; lia.
    + repeat constructor; cbn; lia.
    + repeat constructor; cbn; try lia; discriminate.
    + constructor.
Qed.
