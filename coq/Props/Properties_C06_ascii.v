(* Props/Properties_C06_ascii.v -- ASCII half of C06 (placeholder while the lock step is being brought up). *)
From Coq Require Import ZArith List.
From OVM Require Import IO.AsciiStream IO.AsciiReaderModel IO.AsciiWriterModel IO.AsciiProofs.
Theorem C06_ascii_skipws_consumes : forall l, (length (skipws l) <= length l)%nat.
Proof. exact skipws_length. Qed.
Print Assumptions C06_ascii_skipws_consumes.
