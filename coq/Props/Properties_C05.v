(* Props/Properties_C05.v -- C05: iterators and circulators enumerate exactly the live / incident entities.
   Statements only; every proof is `exact <lemma>` (or a few lines assembling lemmas); Print Assumptions
   under each theorem.  Models: Iter/Cursor.v (machines), Iter/Builders.v (the list each class walks).

   Reading guide.  A circulator of class k on centre x in state s walks the list  clist k s x  with the
   ++ / -- / constructor forms  nextv_of k / prevv_of k / ctorv_of k.  A step result None is an out-of-range
   read of the C++ (undefined behaviour); every theorem below exhibits the defined outcome explicitly. *)
From Coq Require Import ZArith List.
From OVM Require Import Kernel.State Kernel.Ops Iter.Builders Iter.CursorProofs Iter.BuildersProofs.
Import ListNotations.
Local Open Scope nat_scope.

(* ---- forward enumeration: l repeated max_laps times, then invalid (every class, every list, every max_laps >= 1) *)
Theorem C05_forward : forall (k : ckind) (l : list nat) (M : nat) x t fuel,
  l = x :: t -> 1 <= M -> M * length l <= fuel ->
  exists b, circ_begin k l = Some b /\ c_valid b = true /\ c_cur b = Some x /\
            c_trace fuel (circ_next k l (Z.of_nat M)) b
            = Some (concat (repeat l M), mkC 0 (Z.of_nat M) false (Some x)).
Proof. intros k. exact (forward_trace_any (nextv_of k) (ctorv_of k)). Qed.
Print Assumptions C05_forward.

(* ---- the end circulator (make_end_circulator) is the begin circulator advanced max_laps * |l| times *)
Theorem C05_end : forall (k : ckind) (l : list nat) (M : nat) x t,
  l = x :: t -> 1 <= M ->
  exists b, circ_begin k l = Some b /\
            c_iter (M * length l) (circ_next k l (Z.of_nat M)) b = Some (c_make_end (Z.of_nat M) b).
Proof. intros k. exact (end_is_advanced_begin_any (nextv_of k) (ctorv_of k)). Qed.
Print Assumptions C05_end.

(* ---- inside the valid range stepping backward undoes stepping forward, and conversely.
   c_wf (position inside the list, handle read from it, valid => 0 <= lap < max_laps) holds at begin and is
   preserved by every step (C05_invariant), i.e. in every state reachable by any ++/-- sequence. *)
Theorem C05_back : forall (k : ckind) l m c c',
  c_wf l m c -> c_valid c = true ->
  (circ_next k l m c = Some c' -> c_valid c' = true -> circ_prev k l c' = Some c) /\
  (circ_prev k l c = Some c' -> c_valid c' = true -> circ_next k l m c' = Some c).
Proof.
  intros k l m c c' W V. split.
  - exact (prev_next_any (nextv_of k) (prevv_of k) l m c c' W V).
  - exact (next_prev_any (nextv_of k) (prevv_of k) l m c c' W V).
Qed.
Print Assumptions C05_back.

Theorem C05_invariant : forall (k : ckind) l m,
  (forall x t, l = x :: t -> (1 <= m)%Z -> c_wf l m (mkC 0 0%Z true (Some x))) /\
  (forall c c', c_wf l m c -> circ_next k l m c = Some c' -> c_wf l m c') /\
  (forall c, c_wf l m c -> exists c', c_next NextEq l m c = Some c') /\
  (forall c, c_wf l m c -> exists c', c_prev PrevWrap l c = Some c').
Proof.
  intros k l m. split; [|split; [|split]].
  - intros x t E Hm. exact (begin_wf l m x t E Hm).
  - exact (next_wf_any (nextv_of k) l m).
  - exact (next_defined l m).
  - exact (prev_defined l m).
Qed.
Print Assumptions C05_invariant.

(* "stepping backward undoes stepping forward" WITHOUT the restriction to the valid range is false of the
   code: from the last valid position, ++ then -- comes back to the same handle with valid() == false
   (operator-- never sets valid back to true) *)
Theorem C05_back_across_end_refuted :
  exists l m c c' c'', c_wf l m c /\ c_valid c = true /\ c_next NextEq l m c = Some c' /\
                       c_prev PrevWrap l c' = Some c'' /\ c'' <> c /\ c_cur c'' = c_cur c /\ c_valid c'' = false.
Proof. exact back_from_end_refuted. Qed.
Print Assumptions C05_back_across_end_refuted.

Theorem C05_steps_never_validate : forall nx pv l m c c',
  (c_next nx l m c = Some c' -> c_valid c' = true -> c_valid c = true) /\
  (c_prev pv l c = Some c' -> c_valid c' = true -> c_valid c = true).
Proof. intros. split; [exact (next_never_validates nx l m c c')|exact (prev_never_validates pv l c c')]. Qed.
Print Assumptions C05_steps_never_validate.

(* ---- nothing incident => immediately invalid (and not dereferenceable: the handle is the invalid handle).
   Exception as coded: FaceHalfEdgeIter / FaceEdgeIter do not test for emptiness (a face without halfedges is
   outside the valid histories: add_face/set_face reject or are not called with an empty list). *)
Theorem C05_empty : forall k : ckind, ctorv_of k = CtorChecked ->
  circ_begin k [] = Some c_invalid /\ c_valid c_invalid = false /\ c_cur c_invalid = None.
Proof. intros k E. unfold circ_begin. rewrite E. exact empty_invalid. Qed.
Print Assumptions C05_empty.

Theorem C05_empty_face_circulators_partial :
  (forall k, ctorv_of k = CtorUnchecked -> k = FHE \/ k = FE) /\
  circ_begin FHE [] = None /\ circ_begin FE [] = None /\
  (forall x t, circ_begin FHE (x :: t) = Some (mkC 0 0%Z true (Some x))).
Proof.
  split; [intros k; destruct k; simpl; intros H; try discriminate; auto|].
  split; [reflexivity|]. split; reflexivity.
Qed.
Print Assumptions C05_empty_face_circulators_partial.

(* a disabled incidence kind makes the guarded circulators empty, hence invalid at construction *)
Theorem C05_guards : forall s x,
  (vbu s = false -> l_voh s x = [] /\ l_vv s x = [] /\ l_vih s x = [] /\ l_ve s x = [] /\ l_vhf s x = [] /\ l_vf s x = [] /\ l_vc s x = []) /\
  (ebu s = false -> l_hehf s x = [] /\ l_hef s x = [] /\ l_hec s x = [] /\ l_ehf s x = [] /\ l_ef s x = [] /\ l_ec s x = [] /\ l_vf s x = [] /\ l_vc s x = []) /\
  (fbu s = false -> l_hec s x = [] /\ l_ec s x = [] /\ l_cc s x = [] /\ l_bhfhf s x = [] /\ l_vf s x = [] /\ l_vc s x = []).
Proof. exact guards_off. Qed.
Print Assumptions C05_guards.

(* ---- the wrappers (vih_iter, ve_iter) behave as the plain machine on the mapped list *)
Theorem C05_wrapper_sim : forall f l m w,
  (exists w0, w_begin f l = Some w0 /\ w_ok f w0 /\ c_begin CtorChecked (map f l) = Some (cmap f (w_in w0))) /\
  match w_next f l m w with
  | Some w' => w_ok f w' /\ c_next NextEq (map f l) m (cmap f (w_in w)) = Some (cmap f (w_in w'))
  | None => c_next NextEq (map f l) m (cmap f (w_in w)) = None
  end /\
  match w_prev f l w with
  | Some w' => w_ok f w' /\ c_prev PrevWrap (map f l) (cmap f (w_in w)) = Some (cmap f (w_in w'))
  | None => c_prev PrevWrap (map f l) (cmap f (w_in w)) = None
  end.
Proof. intros f l m w. exact (conj (wrapper_begin f l) (conj (wrapper_next f l m w) (wrapper_prev f l w))). Qed.
Print Assumptions C05_wrapper_sim.

(* ---- entity iterators: every not-deleted entity exactly once, ascending, nothing else; then == end() *)
Theorem C05_entities : forall (k : kind) (s : mesh), k <> KM -> flags_sized s ->
  exists b, ent_begin k s 0 = Some b /\
            e_trace (S (ent_n k s)) (ent_rdel k s) (ent_n k s) b
            = Some (map Z.of_nat (filter (fun i => negb (ent_deleted k s i)) (seq 0 (ent_n k s))), e_end (ent_n k s))
            /\ ent_begin k s (ent_n k s) = Some (e_end (ent_n k s)).
Proof. exact entity_iter_exact. Qed.
Print Assumptions C05_entities.

Theorem C05_entities_back : forall n del rdel, (forall i, i < n -> rdel i = Some (del i)) ->
  forall c c', e_wf n del c -> e_valid c = true ->
  (e_next rdel n c = Some c' -> e_valid c' = true -> e_prev rdel c' = Some c) /\
  (e_prev rdel c = Some c' -> e_valid c' = true -> e_next rdel n c' = Some c).
Proof.
  intros n del rdel Hr c c' W V. split.
  - exact (entity_prev_next n del rdel Hr c c' W V).
  - exact (entity_next_prev n del rdel Hr c c' W V).
Qed.
Print Assumptions C05_entities_back.

(* ---- D11: backward stepping and the valid() protocol.  Stepping back from end() (or from the state reached
   by ++ past the last entity) lands on the last not-deleted entity but valid() stays false, for all six
   entity iterators: operator-- never sets valid back to true. *)
Theorem C05_D11_back_from_end : forall n del rdel, (forall i, i < n -> rdel i = Some (del i)) ->
  forall i, i < n -> del i = false -> (forall k, i < k < n -> del k = true) ->
  e_prev rdel (e_end n) = Some (mkE (Z.of_nat i) false).
Proof. exact entity_back_from_end. Qed.
Print Assumptions C05_D11_back_from_end.

Theorem C05_D11_protocol_refuted :
  (exists n del rdel i, (forall k, k < n -> rdel k = Some (del k)) /\ i < n /\ del i = false /\
                        (forall k, i < k < n -> del k = true) /\
                        forall c, e_prev rdel (e_end n) = Some c -> e_valid c = false) /\
  (exists n rdel b e c, e_begin rdel n 0 = Some b /\ e_valid b = true /\ e_next rdel n b = Some e /\ e_valid e = false /\
                        e_prev rdel e = Some c /\ e_idx c = e_idx b /\ e_valid c = false).
Proof. exact (conj D11_back_from_end_refuted D11_forward_then_back_refuted). Qed.
Print Assumptions C05_D11_protocol_refuted.

(* ---- stepping back from begin and then forward again is defined for EVERY class and comes back invalid on the
   first element.  (For cf_iter this used to read past the end of the cell's halfface vector - lead D15, repaired in
   /repo by "fix: CellFaceIter::operator-- must not leave its position at end()"; corpus/iter keeps the replay.) *)
Theorem C05_back_then_forward : forall (k : ckind) l m x t, l = x :: t -> (1 <= m)%Z ->
  exists c' c'', circ_prev k l (mkC 0 0%Z true (Some x)) = Some c' /\ c_valid c' = false /\
                 circ_next k l m c' = Some c'' /\ c_valid c'' = false.
Proof. intros k. exact (back_then_forward_defined (nextv_of k) (prevv_of k)). Qed.
Print Assumptions C05_back_then_forward.

(* ---- a boundary iterator whose incidence guard fails is invalid at construction, holds the invalid handle and has
   read nothing.  For bc_iter() the guard is "face incidences" (lead D8: has_incidences() used to return true and the
   constructor indexed the empty incident-cell cache; repaired in /repo by "fix: boundary cell iterator needs face
   bottom-up incidences"; corpus/iter keeps the replay). *)
Theorem C05_boundary_unguarded_invalid : forall (k : kind) (s : mesh), k <> KM -> flags_sized s -> bnd_has_inc k s = false ->
  exists it0, bnd_begin k s = Some (mkB it0 false (-1)%Z).
Proof. exact boundary_iter_unguarded_invalid. Qed.
Print Assumptions C05_boundary_unguarded_invalid.

Theorem C05_bc_iter_guard : forall s, bnd_has_inc KC s = fbu s.
Proof. reflexivity. Qed.
Print Assumptions C05_bc_iter_guard.

(* ---- builders: the list each class walks = the incident set computed from the definitions of the
   not-deleted entities; NoDup where the relation is a set; no deleted entity (see also Properties_C01_queries) *)
Theorem C05_builders_vertex : forall s, bu_exact s -> wf_iter s -> forall v, v < nv s ->
  (vbu s = true ->
     ((forall h, In h (clist VOH s v) <-> inc_voh s v h) /\ NoDup (clist VOH s v)) /\
     ((forall h, In h (clist VIH s v) <-> inc_vih s v h) /\ NoDup (clist VIH s v)) /\
     (forall e, In e (clist VE s v) <-> inc_ve s v e) /\
     (forall w, In w (clist VV s v) <-> inc_vv s v w)) /\
  (vbu s = true -> ebu s = true -> (forall hf, In hf (clist VHF s v) <-> inc_vhf s v hf) /\ NoDup (clist VHF s v)) /\
  (full_bu s = true ->
     ((forall f, In f (clist VF s v) <-> inc_vf s v f) /\ NoDup (clist VF s v)) /\
     ((forall c, In c (clist VC s v) <-> inc_vc s v c) /\ NoDup (clist VC s v))).
Proof.
  intros s BU WF v Hv. split; [|split].
  - intros F. exact (conj (voh_exact s BU v F Hv) (conj (vih_exact s BU v F Hv) (conj (ve_exact s BU v F Hv) (vv_exact s BU v F Hv)))).
  - intros Fv Fe. exact (vhf_exact s BU WF v Fv Fe Hv).
  - intros F. exact (conj (vf_exact s BU WF v F Hv) (vc_exact s BU WF v F Hv)).
Qed.
Print Assumptions C05_builders_vertex.

Theorem C05_builders_edge : forall s, bu_exact s -> wf_iter s -> ebu s = true ->
  (forall h, h < 2 * ne s ->
     ((forall hf, In hf (clist HEHF s h) <-> inc_hehf s h hf) /\ NoDup (clist HEHF s h)) /\
     ((forall f, In f (clist HEF s h) <-> inc_ef s (h / 2) f) /\ NoDup (clist HEF s h)) /\
     (fbu s = true -> (forall c, In c (clist HEC s h) <-> inc_hec s h c) /\ NoDup (clist HEC s h))) /\
  (forall e, e < ne s ->
     ((forall f, In f (clist EF s e) <-> inc_ef s e f) /\ NoDup (clist EF s e)) /\
     (forall hf, In hf (clist EHF s e) <-> inc_ehf s e hf) /\
     (fbu s = true -> (forall c, In c (clist EC s e) <-> inc_hec s (2 * e) c) /\ NoDup (clist EC s e))).
Proof.
  intros s BU WF Fe. split.
  - intros h Hh. exact (conj (hehf_exact s BU h Fe Hh) (conj (hef_exact s BU h Fe Hh) (fun Ff => hec_exact s BU WF h Fe Ff Hh))).
  - intros e He. exact (conj (ef_exact s BU e Fe He) (conj (ehf_exact s BU e Fe He) (fun Ff => ec_exact s BU WF e Fe Ff He))).
Qed.
Print Assumptions C05_builders_edge.

Theorem C05_builders_cell_and_topdown : forall s, bu_exact s -> wf_iter s ->
  (forall c, fbu s = true -> live_c s c = true -> (forall c', In c' (clist CC s c) <-> inc_cc s c c') /\ NoDup (clist CC s c)) /\
  (forall hf, clist HFHE s hf = halfface s hf /\ clist HFE s hf = map half (halfface s hf) /\ clist HFV s hf = map (he_from s) (halfface s hf)) /\
  (forall f, clist FV s f = map (he_from s) (face_at s f) /\ clist FHE s f = face_at s f /\ clist FE s f = map half (face_at s f)) /\
  (forall c, clist CHF s c = cell_at s c /\ clist CF s c = map half (cell_at s c) /\
             (forall h, In h (clist CHE s c) <-> exists hf, In hf (cell_at s c) /\ In h (halfface s hf)) /\
             ((forall e, In e (clist CE s c) <-> exists hf h, In hf (cell_at s c) /\ In h (face_at s (hf / 2)) /\ h / 2 = e) /\ NoDup (clist CE s c)) /\
             ((forall v, In v (clist CV s c) <-> exists hf h, In hf (cell_at s c) /\ In h (face_at s (hf / 2)) /\ he_from s h = v) /\ NoDup (clist CV s c))).
Proof.
  intros s BU WF. split; [|split; [|split]].
  - intros c Ff L. exact (cc_exact s BU WF c Ff L).
  - intros hf. exact (conj (hfhe_exact s hf) (conj (hfe_exact s hf) (hfv_exact s hf))).
  - intros f. exact (conj (fv_exact s f) (conj eq_refl eq_refl)).
  - intros c. exact (conj eq_refl (conj eq_refl (conj (che_exact s c) (conj (ce_exact s c) (cv_exact s c))))).
Qed.
Print Assumptions C05_builders_cell_and_topdown.

(* ---- boundary iterators (bv/bhe/be/bhf/bf/bc_iter): exactly the not-deleted boundary entities, ascending, once;
   whenever the incidence guard of the kind holds (otherwise C05_boundary_unguarded_invalid) *)
Theorem C05_boundary_iterators : forall (k : kind) (s : mesh), k <> KM -> bu_exact s -> wf_iter s -> flags_sized s ->
  bnd_has_inc k s = true ->
  (exists b e, bnd_begin k s = Some b /\
               b_trace (S (ent_n k s)) (ent_rdel k s) (ent_n k s) (is_boundary k s) b
               = Some (map Z.of_nat (filter (fun i => negb (ent_deleted k s i) && bdry k s i) (seq 0 (ent_n k s))), e) /\
               b_valid e = false) /\
  (forall i, i < ent_n k s -> ent_deleted k s i = false -> (bdry k s i = true <-> bnd_of k s i)).
Proof. exact boundary_iter_exact. Qed.
Print Assumptions C05_boundary_iterators.

(* ---- BoundaryItemIter: between two valid positions -- undoes ++ and ++ undoes --  (b_at i = the valid iterator on the
   not-deleted boundary entity i; is_boundary defined on every not-deleted entity, i.e. the incidence guard holds) *)
Theorem C05_boundary_back : forall n del rdel, (forall i, i < n -> rdel i = Some (del i)) ->
  forall bd isb, (forall i, i < n -> del i = false -> isb i = Some (bd i)) ->
  (forall i b', i < n -> negb (del i) && bd i = true ->
     b_next rdel n isb (b_at n i) = Some b' -> b_valid b' = true -> b_prev rdel n isb b' = Some (b_at n i)) /\
  (forall j b', j < n -> negb (del j) && bd j = true ->
     b_prev rdel n isb (b_at n j) = Some b' -> b_valid b' = true -> b_next rdel n isb b' = Some (b_at n j)).
Proof.
  intros n del rdel Hr bd isb Hb. split.
  - exact (boundary_prev_next n del rdel Hr bd isb Hb).
  - exact (boundary_next_prev n del rdel Hr bd isb Hb).
Qed.
Print Assumptions C05_boundary_back.

Theorem C05_builders_bhfhf : forall s, bu_exact s -> wf_iter s -> ebu s = true -> fbu s = true ->
  forall hf, live_f s (hf / 2) = true ->
  forall x, In x (clist BHFHF s hf) <-> exists he, In he (halfface s hf) /\ inc_hehf s (opp he) x /\ bnd_hf s x.
Proof. exact bhfhf_exact. Qed.
Print Assumptions C05_builders_bhfhf.

(* ---- non-vacuity: reachable states (two glued tetrahedra + debris; the same with deferred-deleted entities at
   the front and at the end) satisfy every hypothesis used above *)
Example C05_hypotheses_satisfiable :
  (bu_exact ex_two_tets /\ wf_iter ex_two_tets /\ full_bu ex_two_tets = true) /\
  (bu_exact ex_deleted /\ wf_iter ex_deleted /\ full_bu ex_deleted = true /\ ndv ex_deleted = 2 /\ ndc ex_deleted = 1) /\
  flags_sized ex_deleted.
Proof. exact (conj ex_two_tets_ok (conj ex_deleted_ok (proj1 entity_iter_example))). Qed.
