(* Props/Properties_C07_ascii.v -- ASCII (.ovm) half of C07: the reader is memory-safe and terminates on ANY bytes; success
   means a valid mesh.  Model: IO/AsciiReaderModel.v (read_ascii), validated in lock step against FileManager::readStream /
   readFile.  [conv_d] / [conv_f] are the floating-point conversions (strtod / strtof): arbitrary functions here - nothing
   about them is assumed. *)
From Coq Require Import ZArith List String.
From OVM Require Import Kernel.Ops.
From OVM Require Import IO.AsciiStream IO.AsciiReaderModel IO.AsciiProofs.
Local Open Scope Z_scope.
Local Open Scope string_scope.

(* For every byte string, every mesh type, both topology-check settings, both bottom-up settings: reading never runs out
   of fuel in any loop (getCleanLine, the property loop, the valence loops) and never uses a handle that does not fit an
   int - provided the memory that can be allocated (o_alloc, bytes) is below 2^33, so that every count that passes its
   reserve() is below 2^30. *)
Theorem C07_ascii_total : forall conv_d conv_f (o : opts) (bytes : list byte),
  o_alloc o < 8589934592 ->
  match read_ascii conv_d conv_f o bytes with RSpin | RUB _ => False | _ => True end.
Proof. intros. apply (read_stream_safe conv_d conv_f o (of_bytes bytes)). assumption. Qed.
Print Assumptions C07_ascii_total.

(* Success means a valid mesh: every stored handle designates an existing entity (edges -> vertices, faces -> halfedges,
   cells -> halffaces, against the ACTUAL entity counts of the mesh returned) and every property the caller can reach -
   the position property and every persistent property created from the file - has exactly one element per entity of
   its kind.  No hypothesis: any bytes, any options, any allocation limit, any float conversion. *)
Theorem C07_ascii_valid : forall conv_d conv_f (o : opts) (bytes : list byte) (f : fin),
  read_ascii conv_d conv_f o bytes = RTrue f ->
  mesh_valid (f_mesh f) /\ props_sized f.
Proof. intros conv_d conv_f o bytes f H. exact (read_stream_valid conv_d conv_f o (of_bytes bytes) f H). Qed.
Print Assumptions C07_ascii_valid.

(* what mesh_valid / props_sized say, spelled out *)
Theorem C07_ascii_valid_unfolded : forall conv_d conv_f (o : opts) (bytes : list byte) (f : fin),
  read_ascii conv_d conv_f o bytes = RTrue f ->
  (forall a b, List.In (a, b) (edges (f_mesh f)) -> (a < nv (f_mesh f) /\ b < nv (f_mesh f))%nat) /\
  (forall fc h, List.In fc (faces (f_mesh f)) -> List.In h fc -> (h < 2 * List.length (edges (f_mesh f)))%nat) /\
  (forall c h, List.In c (cells (f_mesh f)) -> List.In h c -> (h < 2 * List.length (faces (f_mesh f)))%nat) /\
  (forall p, List.In p (f_props f) -> List.length (p_vals p) = count (p_kind p) (f_mesh f)).
Proof.
  intros conv_d conv_f o bytes f H. destruct (read_stream_valid conv_d conv_f o (of_bytes bytes) f H) as [(A & B & C) D].
  repeat split; auto; apply A in H0; tauto.
Qed.
Print Assumptions C07_ascii_valid_unfolded.

(* getCleanLine terminates on every stream with fuel |remaining input| + 2 and only consumes *)
Theorem C07_ascii_getCleanLine_terminates : forall (s : istream) (line : list byte),
  exists s' l b, get_clean_line (gcl_fuel s) s line = Some (s', l, b) /\ (length (rest s') <= length (rest s))%nat.
Proof. intros. destruct (gcl_total (gcl_fuel s) s line (gcl_fuel_ok s)) as (s' & l & b & E & L & _). exists s', l, b. auto. Qed.
Print Assumptions C07_ascii_getCleanLine_terminates.

(* non-vacuity: a valid tetrahedron file is read successfully under the hypothesis of the theorem *)
Definition ex_lines (l : list string) : list byte := List.concat (List.map (fun s => bs s ++ (10 :: nil))%list l).
Definition ex_tet : list byte := ex_lines
  ("OVM ASCII" :: "Vertices" :: "4" :: "0 0 0" :: "1 0 0" :: "0 1 0" :: "0 0 1" :: "Edges" :: "6" :: "0 1" :: "1 2" :: "2 0" :: "0 3" :: "1 3" :: "2 3" ::
   "Faces" :: "4" :: "3 0 2 4" :: "3 0 8 7" :: "3 2 10 9" :: "3 4 6 11" :: "Polyhedra" :: "1" :: "4 1 2 4 6" ::
   "VProp int ""x""" :: "5" :: "6" :: "7" :: "8" :: nil).
Definition ex_conv (l : list byte) : Z * bool := (0, false).
Definition ex_opts : opts := {| o_mesh := MPoly; o_check := true; o_bu := true; o_alloc := 4294967296 |}.

Example C07_ascii_total_nonvacuous :
  o_alloc ex_opts < 8589934592 /\
  match read_ascii ex_conv ex_conv ex_opts ex_tet with
  | RTrue f => nv (f_mesh f) = 4%nat /\ length (cells (f_mesh f)) = 1%nat /\ length (f_props f) = 2%nat
  | _ => False
  end.
Proof. vm_compute. repeat split; discriminate || reflexivity. Qed.
