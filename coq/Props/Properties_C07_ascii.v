(* Props/Properties_C07_ascii.v -- ASCII half of C07 (placeholder while the lock step is being brought up). *)
From Coq Require Import ZArith List.
From OVM Require Import IO.AsciiStream IO.AsciiReaderModel IO.AsciiProofs.
Theorem C07_ascii_skipws_consumes : forall l, (length (skipws l) <= length l)%nat.
Proof. exact skipws_length. Qed.
Print Assumptions C07_ascii_skipws_consumes.
