(* Props/Properties_C02_fast.v -- C02, the immediate FAST mode (deferred = false, fast = true: every delete_*_core h first calls
   swap_*_indices h last and then removes the LAST slot) and C02_mode_independent.
   Proofs: coq/Kernel3/Fast*.v.  Notation (Kernel3/FastDefs.v, FastMany.v, FastModes.v):
     tr a b / tr2 a b / trp a b    the transposition (a b) on entity handles / half-handles (2x+side) / edge definitions
     fast_remove d h l             slot h receives the last element, the last slot is dropped;  fast_remove2: the same on a half-entity array
     pfast h / pfast2 h            the same on a property array
     fast_remove_many d cs l, fren n cs, fren2 n cs      a descending run over the ascending victim list cs and the composed renaming
     shift_inv2 (Kernel/ShiftFace.v)   no deletion flag set + caches exact for every enabled subset + in-range references + array lengths
                                       (+ with ebu and fbu on: duplicate-free lists, closed cells, simple faces)
     renumbered s s' vs es fs cs sv se sf sc             s' = the survivors of s outside the victim lists, renamed by the BIJECTIONS sv..sc *)
From Coq Require Import ZArith List Arith Bool Lia.
From OVM Require Import Base.ListX Base.ListLemmas Kernel.State Kernel.Ops Kernel.SwapInvol Kernel.Sizes Kernel.PropLaws Kernel.Closure Kernel.DeferredDelete
                        Kernel.ShiftFace Kernel.ShiftEdge Kernel.ShiftVertex Kernel.ShiftCompose
                        Kernel3.FastDefs Kernel3.FastBase Kernel3.FastCell Kernel3.FastFace Kernel3.FastEdge Kernel3.FastVertex
                        Kernel3.FastMany Kernel3.FastPhases Kernel3.FastArrays Kernel3.FastModes Kernel3.FastModes2 Kernel3.FastDeferred Kernel3.FastPublic Kernel3.FastPublic2
                        Kernel3.FastHistory.
Import ListNotations.
Local Open Scope nat_scope.

(* ------------------------------------------------------------------------------------------------------------------ the slot view *)

(* fast_remove IS what the model does to an array (std::swap(v[h], v[last]); v.erase(last)), with its slot laws *)
Theorem C02_fast_slot_view : forall (A : Type) (d : A) h (l : list A), h < length l ->
  remove_nth (length l - 1) (swap_nth h (length l - 1) d l) = fast_remove d h l /\
  length (fast_remove d h l) = length l - 1 /\
  (forall k, k < length l - 1 -> nth k (fast_remove d h l) d = if k =? h then nth (length l - 1) l d else nth k l d).
Proof.
  intros A d h l H. split; [exact (fast_remove_swap d h l H)|]. split; [exact (fast_remove_length d h l)|].
  intros k Hk. exact (nth_fast_remove d h l k Hk).
Qed.
Print Assumptions C02_fast_slot_view.

(* ------------------------------------------------------------------------------------------------------------------ structure of a core *)

(* every core in fast mode is: the swap with the last handle, then the fast-mode core on the last handle *)
Theorem C02_fast_core_is_swap_then_remove_last : forall h s, deferred s = false -> fast s = true ->
  delete_cell_core h s = delete_cell_core (nc s - 1) (swap_cell_indices h (nc s - 1) s) /\
  delete_face_core h s = delete_face_core (nf s - 1) (swap_face_indices h (nf s - 1) s) /\
  delete_edge_core h s = delete_edge_core (ne s - 1) (swap_edge_indices h (ne s - 1) s) /\
  delete_vertex_core h s = delete_vertex_core (nv s - 1) (swap_vertex_indices h (nv s - 1) s).
Proof.
  intros h s D F. exact (conj (fast_cell_split h s D F) (conj (fast_face_split h s D F) (conj (fast_edge_split h s D F) (fast_vertex_split h s D F)))).
Qed.
Print Assumptions C02_fast_core_is_swap_then_remove_last.

(* the swaps keep the FULL invariant (C17 gave the exact caches; here also no_flags and the re-ordering part; the cell swap is new) *)
Theorem C02_fast_swaps_keep_the_full_invariant : forall a b s, shift_inv2 s ->
  (a < nc s -> b < nc s -> shift_inv2 (swap_cell_indices a b s)) /\
  (a < nf s -> b < nf s -> shift_inv2 (swap_face_indices a b s)) /\
  (a < ne s -> b < ne s -> shift_inv2 (swap_edge_indices a b s)) /\
  (a < nv s -> b < nv s -> shift_inv2 (swap_vertex_indices a b s)).
Proof.
  intros a b s I. exact (conj (shift_inv2_swap_cell a b s I) (conj (shift_inv2_swap_face a b s I) (conj (shift_inv2_swap_edge a b s I) (shift_inv2_swap_vertex a b s I)))).
Qed.
Print Assumptions C02_fast_swaps_keep_the_full_invariant.

(* removing the LAST slot in fast mode is the index-shifting removal of the last slot (Kernel/Shift*.v) up to the fast flag: the handle
   corrections the fast code skips are the identity there *)
Theorem C02_fast_removal_of_the_last_slot_is_the_shifting_removal : forall t, deferred t = false -> fast t = true -> shift_inv2 t ->
  (0 < nc t -> delete_cell_core (nc t - 1) t = set_fast true (delete_cell_core (nc t - 1) (set_fast false t))) /\
  (0 < nf t -> face_free t (nf t - 1) -> delete_face_core (nf t - 1) t = set_fast true (delete_face_core (nf t - 1) (set_fast false t))) /\
  (0 < ne t -> edge_free t (ne t - 1) -> delete_edge_core (ne t - 1) t = set_fast true (delete_edge_core (ne t - 1) (set_fast false t))) /\
  delete_vertex_core (nv t - 1) t = set_fast true (delete_vertex_core (nv t - 1) (set_fast false t)).
Proof.
  intros t D F I. exact (conj (fast_cell_last t D F I) (conj (fast_face_last t D F I) (conj (fast_edge_last t D F I) (fast_vertex_last t D F)))).
Qed.
Print Assumptions C02_fast_removal_of_the_last_slot_is_the_shifting_removal.

(* ------------------------------------------------------------------------------------------------------------------ the single-core steps *)

Theorem C02_fast_cell_core_step : forall h s, deferred s = false -> fast s = true -> shift_inv2 s -> sized s -> h < nc s ->
  let s' := delete_cell_core h s in
  shift_inv2 s' /\ sized s' /\ deferred s' = false /\ fast s' = true /\
  nv s' = nv s /\ edges s' = edges s /\ faces s' = faces s /\ cells s' = fast_remove [] h (cells s) /\
  (vbu s' = vbu s /\ ebu s' = ebu s /\ fbu s' = fbu s) /\ cell_arrays_fast h s s'.
Proof. exact fast_cell_step_full. Qed.
Print Assumptions C02_fast_cell_core_step.

Theorem C02_fast_face_core_step : forall h s, deferred s = false -> fast s = true -> shift_inv2 s -> sized s -> h < nf s -> face_free s h ->
  let s' := delete_face_core h s in let l := nf s - 1 in
  shift_inv2 s' /\ sized s' /\ deferred s' = false /\ fast s' = true /\
  nv s' = nv s /\ edges s' = edges s /\ faces s' = fast_remove [] h (faces s) /\ cells s' = map (map (tr2 h l)) (cells s) /\
  (vbu s' = vbu s /\ ebu s' = ebu s /\ fbu s' = fbu s) /\ face_arrays_fast h s s'.
Proof. exact fast_face_step_full. Qed.
Print Assumptions C02_fast_face_core_step.

Theorem C02_fast_edge_core_step : forall h s, deferred s = false -> fast s = true -> shift_inv2 s -> sized s -> h < ne s -> edge_free s h ->
  let s' := delete_edge_core h s in let l := ne s - 1 in
  shift_inv2 s' /\ sized s' /\ deferred s' = false /\ fast s' = true /\
  nv s' = nv s /\ edges s' = fast_remove (0, 0) h (edges s) /\ faces s' = map (map (tr2 h l)) (faces s) /\ cells s' = cells s /\
  (vbu s' = vbu s /\ ebu s' = ebu s /\ fbu s' = fbu s) /\ edge_arrays_fast h s s'.
Proof. exact fast_edge_step_full. Qed.
Print Assumptions C02_fast_edge_core_step.

Theorem C02_fast_vertex_core_step : forall h s, deferred s = false -> fast s = true -> shift_inv2 s -> sized s -> h < nv s -> vertex_free s h ->
  let s' := delete_vertex_core h s in let l := nv s - 1 in
  shift_inv2 s' /\ sized s' /\ deferred s' = false /\ fast s' = true /\
  nv s' = nv s - 1 /\ edges s' = map (trp h l) (edges s) /\ faces s' = faces s /\ cells s' = cells s /\
  (vbu s' = vbu s /\ ebu s' = ebu s /\ fbu s' = fbu s) /\ vertex_arrays_fast h s s'.
Proof. exact fast_vertex_step_full. Qed.
Print Assumptions C02_fast_vertex_core_step.

(* with nobody referring to h, the transposition (h last) is "the old last handle becomes h" (2*h + side for half-handles) *)
Theorem C02_fast_renaming_is_last_to_h : forall h l x,
  (x <> h -> tr h l x = ren_last h l x) /\ (x / 2 <> h -> tr2 h l x = ren_last2 h l x).
Proof. intros h l x. exact (conj (tr_free h l x) (tr2_free h l x)). Qed.
Print Assumptions C02_fast_renaming_is_last_to_h.

(* the cache-guided variant (incidences on, exact) and the scan variant (off) of each core give the same definitions *)
Theorem C02_fast_core_variants_agree : forall h s t, deferred s = false -> fast s = true -> shift_inv2 s ->
  deferred t = false -> fast t = true -> shift_inv2 t -> nv t = nv s -> edges t = edges s -> faces t = faces s -> cells t = cells s ->
  (h < nf s -> face_free s h -> let s' := delete_face_core h s in let t' := delete_face_core h t in
     nv t' = nv s' /\ edges t' = edges s' /\ faces t' = faces s' /\ cells t' = cells s') /\
  (h < ne s -> edge_free s h -> let s' := delete_edge_core h s in let t' := delete_edge_core h t in
     nv t' = nv s' /\ edges t' = edges s' /\ faces t' = faces s' /\ cells t' = cells s') /\
  (h < nv s -> vertex_free s h -> let s' := delete_vertex_core h s in let t' := delete_vertex_core h t in
     nv t' = nv s' /\ edges t' = edges s' /\ faces t' = faces s' /\ cells t' = cells s').
Proof.
  intros h s t D F I D' F' I' e0 e1 e2 e3. split; [|split]; intros Hh FF.
  - exact (fast_face_step_cache_is_scan h s t D F I Hh FF D' F' I' e0 e1 e2 e3).
  - exact (fast_edge_step_cache_is_scan h s t D F I Hh FF D' F' I' e0 e1 e2 e3).
  - exact (fast_vertex_step_cache_is_scan h s t D F I Hh FF D' F' I' e0 e1 e2 e3).
Qed.
Print Assumptions C02_fast_core_variants_agree.

(* ------------------------------------------------------------------------------------------------------------------ descending runs *)

(* a descending run of fast removals over a strictly ascending victim list: exactly |cs| slots go, and fren n cs is a BIJECTION from the
   surviving old indices onto [0, n - |cs|) under which every survivor keeps its content -- for every array of the kind *)
Theorem C02_fast_runs_are_bijections_of_the_survivors : forall (A : Type) (d : A) cs l, strictly_sorted cs -> (forall c, In c cs -> c < length l) ->
  length (fast_remove_many d cs l) = length l - length cs /\
  (forall i, i < length l -> ~ In i cs -> nth (fren (length l) cs i) (fast_remove_many d cs l) d = nth i l d) /\
  (forall j, j < length l - length cs -> exists i, i < length l /\ ~ In i cs /\ fren (length l) cs i = j) /\
  (forall i i', i < length l -> i' < length l -> ~ In i cs -> ~ In i' cs -> fren (length l) cs i = fren (length l) cs i' -> i = i').
Proof. exact @fast_run_survivors. Qed.
Print Assumptions C02_fast_runs_are_bijections_of_the_survivors.

(* ------------------------------------------------------------------------------------------------------------------ public deletions *)

(* C02 for the four public deletions in immediate fast mode, for EVERY state satisfying the invariant and every in-range handle, with
   any subset of incidences enabled: exactly the brute-force upward closure goes away, every survivor keeps its definition read through
   the composed transpositions, the invariant - hence cache exactness, C01 - holds again (so the statement composes along histories) *)
Theorem C02_fast_public_deletions : forall x s, deferred s = false -> fast s = true -> shift_inv2 s ->
  (x < nc s ->
     let s' := delete_cell x s in
     shift_inv2 s' /\ deferred s' = false /\ fast s' = true /\
     nv s' = nv s /\ edges s' = edges s /\ faces s' = faces s /\ cells s' = fast_remove [] x (cells s)) /\
  (x < nf s ->
     let cs := cells_at_faces s [x] in let s' := delete_face x s in
     shift_inv2 s' /\ deferred s' = false /\ fast s' = true /\
     nv s' = nv s /\ edges s' = edges s /\ faces s' = fast_remove [] x (faces s) /\
     cells s' = map (map (tr2 x (nf s - 1))) (fast_remove_many [] cs (cells s))) /\
  (x < ne s ->
     let fs := faces_at_edges s [x] in let cs := cells_at_faces s fs in let s' := delete_edge x s in
     shift_inv2 s' /\ deferred s' = false /\ fast s' = true /\
     nv s' = nv s /\ edges s' = fast_remove (0, 0) x (edges s) /\
     faces s' = map (map (tr2 x (ne s - 1))) (fast_remove_many [] fs (faces s)) /\
     cells s' = map (map (fren2 (nf s) fs)) (fast_remove_many [] cs (cells s))) /\
  (x < nv s ->
     let es := edges_at_vertex s x in let fs := faces_at_edges s es in let cs := cells_at_faces s fs in let s' := delete_vertex x s in
     shift_inv2 s' /\ deferred s' = false /\ fast s' = true /\
     nv s' = nv s - 1 /\ edges s' = map (trp x (nv s - 1)) (fast_remove_many (0, 0) es (edges s)) /\
     faces s' = map (map (fren2 (ne s) es)) (fast_remove_many [] fs (faces s)) /\
     cells s' = map (map (fren2 (nf s) fs)) (fast_remove_many [] cs (cells s))).
Proof.
  intros x s D F I. split; [|split; [|split]].
  - exact (fast_delete_cell x s D F I).
  - exact (fast_delete_face x s D F I).
  - exact (fast_delete_edge x s D F I).
  - exact (fast_delete_vertex x s D F I).
Qed.
Print Assumptions C02_fast_public_deletions.

(* ... hence the surviving definitions do not depend on which incidences the mesh keeps *)
Theorem C02_fast_delete_vertex_incidence_independent : forall v s t,
  deferred s = false -> fast s = true -> shift_inv2 s -> deferred t = false -> fast t = true -> shift_inv2 t -> v < nv s ->
  nv t = nv s -> edges t = edges s -> faces t = faces s -> cells t = cells s ->
  let s' := delete_vertex v s in let t' := delete_vertex v t in
  nv t' = nv s' /\ edges t' = edges s' /\ faces t' = faces s' /\ cells t' = cells s'.
Proof. exact fast_delete_vertex_incidence_independent. Qed.
Print Assumptions C02_fast_delete_vertex_incidence_independent.

(* the form of the property text: there EXIST bijections from the surviving old indices of each kind onto the new index ranges such that
   every survivor has its old definition renamed through them (renumbered), and every flag and every property value of a survivor
   follows the same maps (values_follow; halfedge/halfface properties through the lifted maps, side preserved); counters and mesh
   properties untouched; invariant and size invariant hold again *)
Theorem C02_fast_delete_vertex_renumbers_the_survivors : forall v s, deferred s = false -> fast s = true -> shift_inv2 s -> sized s -> v < nv s ->
  let es := edges_at_vertex s v in let fs := faces_at_edges s es in let cs := cells_at_faces s fs in
  let s' := delete_vertex v s in
  exists sv se sf sc,
    renumbered s s' [v] es fs cs sv se sf sc /\ values_follow s s' [v] es fs cs sv se sf sc /\
    shift_inv2 s' /\ sized s' /\ deferred s' = false /\ fast s' = true.
Proof.
  intros v s D F I Z Hv. cbv zeta.
  destruct (fast_delete_vertex_survivors v s D F I Hv) as (R & I' & D' & F').
  destruct (fast_delete_vertex_values v s D F I Z Hv) as (V & Z').
  eexists _, _, _, _. exact (conj R (conj V (conj I' (conj Z' (conj D' F'))))).
Qed.
Print Assumptions C02_fast_delete_vertex_renumbers_the_survivors.

(* the same for delete_edge, delete_face, delete_cell (shorter closure chains) *)
Theorem C02_fast_delete_edge_face_cell_renumber_the_survivors : forall x s, deferred s = false -> fast s = true -> shift_inv2 s -> sized s ->
  (x < ne s ->
     let fs := faces_at_edges s [x] in let cs := cells_at_faces s fs in let s' := delete_edge x s in
     exists sv se sf sc, renumbered s s' [] [x] fs cs sv se sf sc /\ values_follow s s' [] [x] fs cs sv se sf sc /\ shift_inv2 s' /\ sized s') /\
  (x < nf s ->
     let cs := cells_at_faces s [x] in let s' := delete_face x s in
     exists sv se sf sc, renumbered s s' [] [] [x] cs sv se sf sc /\ values_follow s s' [] [] [x] cs sv se sf sc /\ shift_inv2 s' /\ sized s') /\
  (x < nc s ->
     let s' := delete_cell x s in
     exists sv se sf sc, renumbered s s' [] [] [] [x] sv se sf sc /\ values_follow s s' [] [] [] [x] sv se sf sc /\ shift_inv2 s' /\ sized s').
Proof.
  intros x s D F I Z. split; [|split]; intros Hx; cbv zeta.
  - destruct (fast_delete_edge_survivors x s D F I Hx) as (R & I' & _). destruct (fast_delete_edge_values x s D F I Z Hx) as (V & Z').
    eexists _, _, _, _. exact (conj R (conj V (conj I' Z'))).
  - destruct (fast_delete_face_survivors x s D F I Hx) as (R & I' & _). destruct (fast_delete_face_values x s D F I Z Hx) as (V & Z').
    eexists _, _, _, _. exact (conj R (conj V (conj I' Z'))).
  - destruct (fast_delete_cell_survivors x s D F I Hx) as (R & I' & _). destruct (fast_delete_cell_values x s D F I Z Hx) as (V & Z').
    eexists _, _, _, _. exact (conj R (conj V (conj I' Z'))).
Qed.
Print Assumptions C02_fast_delete_edge_face_cell_renumber_the_survivors.

(* flags, all seven property arrays and the counters after delete_vertex: the same slot transformation as the definitions of the kind *)
Theorem C02_fast_delete_vertex_arrays : forall v s, deferred s = false -> fast s = true -> shift_inv2 s -> sized s -> v < nv s ->
  let es := edges_at_vertex s v in let fs := faces_at_edges s es in let cs := cells_at_faces s fs in
  let s' := delete_vertex v s in
  (vdel s', pv s') = (fast_remove false v (vdel s), map (pfast v) (pv s)) /\
  (edel s', pe s', phe s') = (fast_remove_many false es (edel s), map (pfast_many es) (pe s), map (pfast2_many es) (phe s)) /\
  (fdel s', pf s', phf s') = (fast_remove_many false fs (fdel s), map (pfast_many fs) (pf s), map (pfast2_many fs) (phf s)) /\
  (cdel s', pc s') = (fast_remove_many false cs (cdel s), map (pfast_many cs) (pc s)) /\
  (pm s', (ndv s', nde s', ndf s', ndc s')) = (pm s, (ndv s, nde s, ndf s, ndc s)) /\ sized s'.
Proof. exact fast_delete_vertex_arrays. Qed.
Print Assumptions C02_fast_delete_vertex_arrays.

(* ------------------------------------------------------------------------------------------------------------------ C02_mode_independent *)

(* same_survivors s sf sn vs es fs cs:  sf is the renumbering of the survivors of s by fren (fast), sn the renumbering of the SAME survivors
   by shift1_many (index shifting), the four counts agree, and there are permutations pv pe pf pc of the new index ranges with
   def_fast (p j) = rename p (def_shift j)  (isomorphic), p o shift1_many = fren on the survivors.
   From ONE flag-free state with the invariant (only the fast flag set differently), for all four public deletions; the victim lists are the
   brute-force upward closure.  Both results satisfy the invariant again. *)
Theorem C02_mode_independent : forall x s, deferred s = false -> shift_inv2 s ->
  (x < nv s ->
     let es := edges_at_vertex s x in let fs := faces_at_edges s es in let cs := cells_at_faces s fs in
     let sf := delete_vertex x (set_fast true s) in let sn := delete_vertex x (set_fast false s) in
     same_survivors s sf sn [x] es fs cs /\ shift_inv2 sf /\ shift_inv2 sn /\
     (deferred sf = false /\ fast sf = true) /\ (deferred sn = false /\ fast sn = false)) /\
  (x < ne s ->
     let fs := faces_at_edges s [x] in let cs := cells_at_faces s fs in
     let sf := delete_edge x (set_fast true s) in let sn := delete_edge x (set_fast false s) in
     same_survivors s sf sn [] [x] fs cs /\ shift_inv2 sf /\ shift_inv2 sn /\
     (deferred sf = false /\ fast sf = true) /\ (deferred sn = false /\ fast sn = false)) /\
  (x < nf s ->
     let cs := cells_at_faces s [x] in
     let sf := delete_face x (set_fast true s) in let sn := delete_face x (set_fast false s) in
     same_survivors s sf sn [] [] [x] cs /\ shift_inv2 sf /\ shift_inv2 sn /\
     (deferred sf = false /\ fast sf = true) /\ (deferred sn = false /\ fast sn = false)) /\
  (x < nc s ->
     let sf := delete_cell x (set_fast true s) in let sn := delete_cell x (set_fast false s) in
     same_survivors s sf sn [] [] [] [x] /\ shift_inv2 sf /\ shift_inv2 sn /\
     (deferred sf = false /\ fast sf = true) /\ (deferred sn = false /\ fast sn = false)).
Proof.
  intros x s D I. split; [|split; [|split]].
  - exact (mode_independent_vertex x s D I).
  - exact (mode_independent_edge x s D I).
  - exact (mode_independent_face x s D I).
  - exact (mode_independent_cell x s D I).
Qed.
Print Assumptions C02_mode_independent.

(* all three modes: the deferred mode flags exactly the victim lists the immediate modes remove and keeps every definition; its LOGICAL
   counts are the entity counts of both immediate results; needs_garbage_collection holds exactly in the deferred result *)
Theorem C02_mode_independent_with_deferred : forall v s, deferred s = false -> shift_inv2 s -> sized s -> no_pending s -> v < nv s ->
  let es := edges_at_vertex s v in let fs := faces_at_edges s es in let cs := cells_at_faces s fs in
  let sf := delete_vertex v (set_fast true s) in let sn := delete_vertex v (set_fast false s) in
  let sd := delete_vertex v (set_modes true (fast s) s) in
  same_survivors s sf sn [v] es fs cs /\
  (n_logical KV sd = nv sf /\ n_logical KE sd = ne sf /\ n_logical KF sd = nf sf /\ n_logical KC sd = nc sf) /\
  (nv sf = nv sn /\ ne sf = ne sn /\ nf sf = nf sn /\ nc sf = nc sn) /\
  (forall i, i < nv s -> v_deleted sd i = memb i [v]) /\ (forall e, e < ne s -> e_deleted sd e = memb e es) /\
  (forall g, g < nf s -> f_deleted sd g = memb g fs) /\ (forall c, c < nc s -> c_deleted sd c = memb c cs) /\
  (edges sd = edges s /\ faces sd = faces s /\ cells sd = cells s) /\
  needs_gc sd = true /\ needs_gc sf = false /\ needs_gc sn = false.
Proof. exact three_modes_vertex. Qed.
Print Assumptions C02_mode_independent_with_deferred.

(* what "renumbered" and "isomorphic" say, spelled out (definitional) *)
Theorem C02_renumbered_unfolded : forall s s' vs es fs cs sv se sf sc, renumbered s s' vs es fs cs sv se sf sc <->
  (nv s' = nv s - length vs /\ ne s' = ne s - length es /\ nf s' = nf s - length fs /\ nc s' = nc s - length cs) /\
  (bij_on (nv s) vs sv /\ bij_on (ne s) es se /\ bij_on (nf s) fs sf /\ bij_on (nc s) cs sc) /\
  (forall e, e < ne s -> ~ In e es -> edge_at s' (se e) = (sv (fst (edge_at s e)), sv (snd (edge_at s e)))) /\
  (forall f, f < nf s -> ~ In f fs -> face_at s' (sf f) = map (lift2 se) (face_at s f)) /\
  (forall c, c < nc s -> ~ In c cs -> cell_at s' (sc c) = map (lift2 sf) (cell_at s c)).
Proof. intros. reflexivity. Qed.
Print Assumptions C02_renumbered_unfolded.

(* ------------------------------------------------------------------------------------------------------------------ histories *)

(* the invariant holds in EVERY state reachable by a history of additions (vertices, edges, faces, topology-checked cells on free
   halffaces), deletions of live entities in EITHER immediate mode (fast or index shifting, freely switched by enable_fast), vertex-incidence
   toggles and switching edge/face incidences off, index swaps, clear(), property operations, after leaving the deferred mode -- so every
   theorem above applies to every such state *)
Theorem C02_fast_invariant_along_histories : forall ops, fhist_ok ops = true ->
  shift_inv2 (run ops) /\ no_pending (run ops) /\ sized (run ops).
Proof. intros ops H. destruct (fast_inv_along_histories ops H) as [A B]. exact (conj A (conj B (sized_reachable ops))). Qed.
Print Assumptions C02_fast_invariant_along_histories.

(* ... hence, over histories: after any such history, deleting any live vertex in fast mode removes exactly its closure (bijections), and
   the result is again a state of the same kind *)
Theorem C02_fast_deletion_after_any_history : forall ops v, fhist_ok ops = true -> let s := run ops in
  deferred s = false -> fast s = true -> live_v s v = true ->
  let es := edges_at_vertex s v in let fs := faces_at_edges s es in let cs := cells_at_faces s fs in
  let s' := run (ops ++ [DelVertex v]) in
  fhist_ok (ops ++ [DelVertex v]) = true /\
  exists sv se sf sc, renumbered s s' [v] es fs cs sv se sf sc /\ values_follow s s' [v] es fs cs sv se sf sc /\ shift_inv2 s'.
Proof. exact fast_deletion_after_any_history. Qed.
Print Assumptions C02_fast_deletion_after_any_history.

(* ------------------------------------------------------------------------------------------------------------------ non-vacuity *)

(* two properly oriented tetrahedra sharing face 3, all incidences on, immediate FAST mode, properties on vertices, edges, halffaces, cells *)
Definition two_tets_fast : list op :=
  [EnableDeferred false; AddVertices 5; AddFaceV [0; 1; 2]; AddFaceV [0; 2; 3]; AddFaceV [0; 3; 1]; AddFaceV [1; 3; 2];
   AddCell [0; 2; 4; 6] true; AddFaceV [1; 2; 4]; AddFaceV [2; 3; 4]; AddFaceV [3; 1; 4]; AddCell [7; 9; 11; 13] true;
   PropCreate KV 0%Z; PropSet KV 0 4 8%Z; PropCreate KHF 7%Z; PropSet KHF 0 3 9%Z; PropCreate KC 1%Z; PropSet KC 0 1 5%Z;
   PropCreate KE 2%Z; PropSet KE 0 8 6%Z].

(* the hypotheses of the core steps hold in the states in which DelFace 0 / DelEdge 0 / DelVertex 0 call the cores; the transposition is not
   the identity; the invariant holds again after every step *)
Example C02_fast_core_steps_concrete :
  let s := run two_tets_fast in
  let s1 := del_desc delete_cell_core (incident_cells_of_faces s [0]) s in
  let s2 := delete_face_core 0 s1 in
  deferred s = false /\ fast s = true /\ vbu s = true /\ ebu s = true /\ fbu s = true /\ shift_inv2_b s = true /\
  cells s = [[0; 2; 4; 6]; [7; 9; 11; 13]] /\ cells_at_faces s [0] = [0] /\
  (* cell core: removing cell 0 moves cell 1 to slot 0 *)
  cells s1 = [[7; 9; 11; 13]] /\ cells s1 = fast_remove [] 0 (cells s) /\ shift_inv2_b s1 = true /\ pc s1 = [{| pdef := 1%Z; pdata := [5%Z] |}] /\
  (* face core on face 0: face 6 (the last) becomes face 0, halffaces 12, 13 become 0, 1 *)
  face_free_b s1 0 = true /\ nf s1 = 7 /\ cells s2 = [[7; 9; 11; 1]] /\ cells s2 = map (map (tr2 0 6)) (cells s1) /\
  faces s2 = fast_remove [] 0 (faces s1) /\ shift_inv2_b s2 = true /\ run (two_tets_fast ++ [DelFace 0]) = s2.
Proof. vm_compute. repeat split. Qed.

(* the states in which DelVertex 0 calls the edge cores (largest victim first) and the vertex core *)
Example C02_fast_edge_vertex_core_steps_concrete :
  let s := run two_tets_fast in
  let t := del_desc delete_cell_core [0] s in let u := del_desc delete_face_core [0; 1; 2] t in
  let u1 := delete_edge_core 4 u in let w := del_desc delete_edge_core [0; 2; 4] u in
  incident_edges_of_vertex s 0 = [0; 2; 4] /\ incident_faces_of_edges s [0; 2; 4] = [0; 1; 2] /\ incident_cells_of_faces s [0; 1; 2] = [0] /\
  shift_inv2_b u = true /\ deferred u = false /\ fast u = true /\ ne u = 9 /\ edge_free_b u 4 = true /\ edge_free_b u 2 = true /\ edge_free_b u 0 = true /\
  edges u1 = fast_remove (0, 0) 4 (edges u) /\ faces u1 = map (map (tr2 4 8)) (faces u) /\ faces u1 <> faces u /\ shift_inv2_b u1 = true /\
  edge_free_b u1 2 = true /\
  shift_inv2_b w = true /\ nv w = 5 /\ vertex_free_b w 0 = true /\ edges (delete_vertex_core 0 w) = map (trp 0 4) (edges w) /\
  delete_vertex_core 0 w = run (two_tets_fast ++ [DelVertex 0]) /\ sized (run two_tets_fast).
Proof.
  cbv zeta. repeat match goal with |- _ /\ _ => split end; try (vm_compute; reflexivity); try apply sized_reachable.
  vm_compute. intros H. discriminate H.
Qed.

Example C02_fast_public_concrete :
  let s := run two_tets_fast in
  let sv := run (two_tets_fast ++ [DelVertex 0]) in
  let se := run (two_tets_fast ++ [DelEdge 0]) in
  let t := run (EnableVBU false :: EnableEBU false :: EnableFBU false :: two_tets_fast) in
  shift_inv2_b s = true /\ shift_inv2_b t = true /\ ebu t = false /\ fast t = true /\ 0 < nv s /\ 0 < ne s /\
  edges_at_vertex s 0 = [0; 2; 4] /\ faces_at_edges s [0; 2; 4] = [0; 1; 2] /\ cells_at_faces s [0; 1; 2] = [0] /\
  nv sv = 4 /\ edges sv = [(2, 0); (1, 2); (0, 1); (2, 3); (3, 0); (3, 1)] /\ faces sv = [[2; 0; 4]; [6; 8; 1]; [10; 5; 9]; [11; 7; 3]] /\
  cells sv = [[7; 1; 3; 5]] /\ shift_inv2_b sv = true /\
  (* the vertex property value 8 of old vertex 4 is now at vertex 0 = fren 5 [0] 4; the edge value 6 of old edge 8 at edge fren 9 [0;2;4] 8 = 4 *)
  pv sv = [{| pdef := 0%Z; pdata := [8%Z; 0%Z; 0%Z; 0%Z] |}] /\ fren 5 [0] 4 = 0 /\
  pe sv = [{| pdef := 2%Z; pdata := [2%Z; 2%Z; 2%Z; 2%Z; 6%Z; 2%Z] |}] /\ fren 9 [0; 2; 4] 8 = 4 /\
  edges se = [(3, 4); (1, 2); (2, 0); (2, 3); (3, 0); (3, 1); (2, 4); (4, 1)] /\ cells se = [[7; 9; 1; 5]] /\ shift_inv2_b se = true /\
  (* the scan variant (all incidences off) gives the same definitions *)
  (let tv := delete_vertex 0 t in edges tv = edges sv /\ faces tv = faces sv /\ cells tv = cells sv).
Proof. vm_compute. repeat split; repeat constructor. Qed.

(* mode independence on the same state: the fast and the index-shifting result differ as arrays but are renumberings of the same
   survivors (vertex value 8: slot 0 resp. slot 3; the surviving cell: [7;1;3;5] resp. [1;3;5;7]); the deferred result flags the same closure *)
Example C02_mode_independent_concrete :
  let s := run two_tets_fast in
  let sf := delete_vertex 0 (set_fast true s) in let sn := delete_vertex 0 (set_fast false s) in let sd := delete_vertex 0 (set_modes true true s) in
  deferred s = false /\ shift_inv2_b s = true /\ ndv s = 0 /\ nde s = 0 /\ ndf s = 0 /\ ndc s = 0 /\
  cells sf = [[7; 1; 3; 5]] /\ cells sn = [[1; 3; 5; 7]] /\ cells sf <> cells sn /\
  (nv sf, ne sf, nf sf, nc sf) = (4, 6, 4, 1) /\ (nv sn, ne sn, nf sn, nc sn) = (4, 6, 4, 1) /\
  (n_logical KV sd, n_logical KE sd, n_logical KF sd, n_logical KC sd) = (4, 6, 4, 1) /\
  vdel sd = [true; false; false; false; false] /\ edel sd = [true; false; true; false; true; false; false; false; false] /\
  cdel sd = [true; false] /\ cells sd = cells s /\
  pv sf = [{| pdef := 0%Z; pdata := [8%Z; 0%Z; 0%Z; 0%Z] |}] /\ pv sn = [{| pdef := 0%Z; pdata := [0%Z; 0%Z; 0%Z; 8%Z] |}] /\
  shift1_many [0] 4 = 3 /\ fren 5 [0] 4 = 0.
Proof. vm_compute. repeat split. intros H. discriminate H. Qed.

(* a history mixing both immediate modes, additions after deletions, toggles; the checker accepts it, hence the invariant holds at its end *)
Definition fast_history : list op :=
  two_tets_fast ++
  [DelVertex 0; AddVertex; AddFaceV [0; 1; 4]; AddFaceV [1; 3; 4]; AddFaceV [3; 0; 4]; AddCell [4; 8; 10; 12] true;
   DelCell 1; AddCell [4; 8; 10; 12] true; EnableFast false; DelFace 4; EnableFast true; EnableVBU false; DelEdge 2; AddVertex;
   EnableVBU true; SwapV 0 3; SwapE 1 2; DelVertex 1].

Example C02_fast_history_concrete :
  fhist_ok fast_history = true /\ shift_inv2 (run fast_history) /\
  nc (run (firstn 25 fast_history)) = 2 /\ nc (run (firstn 26 fast_history)) = 1 /\ nc (run (firstn 27 fast_history)) = 2 /\   (* added, deleted, re-added *)
  (let t := run (firstn 29 fast_history) in fast t = false /\ nf t = 6 /\ nc t = 1) /\                                       (* an index-shifting deletion *)
  (let t := run fast_history in (nv t, ne t, nf t, nc t) = (5, 5, 2, 0)).
Proof.
  assert (H : fhist_ok fast_history = true) by (vm_compute; reflexivity).
  split; [exact H|]. split; [exact (proj1 (fast_inv_along_histories _ H))|]. vm_compute. repeat split.
Qed.
