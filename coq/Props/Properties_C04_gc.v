(* Props/Properties_C04_gc.v -- C04: collect_garbage yields the LOGICAL mesh (Kernel3/GcDefs.v: the live entities in order,
   every handle renamed through the rank maps, every property array without the slots of the flagged entities), and this is what
   immediate deletion produces.  Definitions: Kernel3/GcDefs.v; proofs: Kernel3/Gc*.v. *)
From Coq Require Import ZArith List Arith Bool.
From OVM Require Import Base.ListX Kernel.State Kernel.Ops Kernel.SwapInvol Kernel.Sizes Kernel.ShiftFace Kernel.ShiftCompose
                        Kernel2.ExactBase Kernel2.ExactHistory
                        Kernel.StatusGC Kernel3.GcDefs Kernel3.GcInv Kernel3.GcMain Kernel3.GcEquiv Kernel3.GcDeferredAny Kernel3.GcHist Kernel3.GcTrack Kernel3.GcStatus
                        Kernel3.GcCommute2 Kernel3.GcMany Kernel3.GcManifold Kernel.PropLaws Kernel3.GcFastBase Kernel3.GcFastChain Kernel3.GcFastMain Kernel3.GcTrackFast.
Import ListNotations.

(* the decidable checker of the hypothesis is sound *)
Theorem C04_gc_ready_checker_sound : forall s, gc_ready_b s = true -> gc_ready s.
Proof. exact gc_ready_b_sound. Qed.
Print Assumptions C04_gc_ready_checker_sound.

(* NON-FAST mode.  Under gc_ready (deferred mode; the caches of the enabled kinds list exactly the live referrers; stored handles of
   live entities in range; one flag / cache slot per entity; the flagged set is upward closed; with both the edge and the face
   incidences on: duplicate-free halfedge->halfface lists and closed live cells; a zero deleted-counter set means nothing is
   flagged), collect_garbage leaves
     - exactly the live entities, in order, with their old definitions read through the rank renumbering,
     - four all-false flag arrays of the new lengths, nothing pending,
     - every property array (all 7 kinds) = the old array without the slots of the flagged entities (keep_slots),
     - the modes restored, the enabled incidences unchanged,
   and the hypothesis holds again; with no flag left it is the invariant of the immediate mode (shift_inv; shift_inv2 when the
   faces were simple). *)
Theorem C04_collect_garbage_yields_logical_mesh : forall s, gc_ready s -> fast s = false ->
  let t := collect_garbage s in
  nv t = logical_nv s /\ edges t = logical_edges s /\ faces t = logical_faces s /\ cells t = logical_cells s /\
  vdel t = repeat false (nv t) /\ edel t = repeat false (ne t) /\ fdel t = repeat false (nf t) /\ cdel t = repeat false (nc t) /\
  no_flags t /\ needs_gc t = false /\
  (forall k, props k t = logical_props k s) /\
  deferred t = true /\ fast t = false /\ (vbu t = vbu s /\ ebu t = ebu s /\ fbu t = fbu s) /\
  gc_ready t /\ shift_inv t /\ (faces_simple s -> shift_inv2 t).
Proof. exact collect_garbage_nonfast_logical. Qed.
Print Assumptions C04_collect_garbage_yields_logical_mesh.

(* EXAMPLE: three tetrahedra around a shared edge region, a dangling edge, properties of six kinds; one vertex, one face and one
   edge deleted in deferred mode: 1 vertex, 4 edges, 4 faces and 2 cells are flagged *)
Definition gc_example_ops : list op :=
  [EnableFast false; AddVertices 7;
   AddFaceV [0; 1; 2]; AddFaceV [0; 2; 3]; AddFaceV [0; 3; 1]; AddFaceV [1; 3; 2]; AddCell [0; 2; 4; 6] true;
   AddFaceV [1; 2; 4]; AddFaceV [2; 3; 4]; AddFaceV [3; 1; 4]; AddCell [7; 9; 11; 13] true;
   AddFaceV [2; 1; 5]; AddFaceV [4; 2; 5]; AddFaceV [1; 4; 5]; AddCell [8; 14; 16; 18] true;
   AddEdge 5 6 false;
   PropCreate KV 7%Z; PropSet KV 0 4 9%Z; PropSet KV 0 5 11%Z; PropCreate KHE 1%Z; PropSet KHE 0 7 5%Z; PropSet KHE 0 20 6%Z;
   PropCreate KF 2%Z; PropSet KF 0 4 8%Z; PropCreate KHF 0%Z; PropSet KHF 0 9 3%Z; PropCreate KC 4%Z; PropSet KC 0 1 12%Z;
   PropCreate KE 0%Z; PropSet KE 0 10 13%Z;
   DelVertex 0; DelFace 9; DelEdge 12].
Definition gc_example : mesh := run gc_example_ops.

Example C04_collect_garbage_yields_logical_mesh_concrete :
  gc_ready_b gc_example = true /\ fast gc_example = false /\
  (vdel gc_example = [true; false; false; false; false; false; false] /\
   edel gc_example = [true; false; true; false; true; false; false; false; false; false; false; false; true] /\
   fdel gc_example = [true; true; true; false; false; false; false; false; false; true] /\ cdel gc_example = [true; false; true]) /\
  (let t := collect_garbage gc_example in
   nv t = 6 /\ nv t = logical_nv gc_example /\
   edges t = [(0, 1); (1, 2); (2, 0); (1, 3); (3, 0); (2, 3); (0, 4); (4, 1); (4, 3)] /\ edges t = logical_edges gc_example /\
   faces t = [[5; 3; 1]; [0; 6; 8]; [2; 10; 7]; [4; 9; 11]; [1; 12; 14]; [7; 15; 16]] /\ faces t = logical_faces gc_example /\
   cells t = [[1; 3; 5; 7]] /\ cells t = logical_cells gc_example /\
   map pdata (pv t) = [[7; 7; 7; 9; 11; 7]%Z] /\ map pdata (pc t) = [[12]%Z] /\
   props KV t = logical_props KV gc_example /\ props KE t = logical_props KE gc_example /\ props KHE t = logical_props KHE gc_example /\
   props KF t = logical_props KF gc_example /\ props KHF t = logical_props KHF gc_example /\ props KC t = logical_props KC gc_example).
Proof. vm_compute. repeat split. Qed.

(* ================================================================== collection = immediate deletion *)

(* NON-FAST mode, ANY subset of incidences enabled.  For a flag-free state s satisfying the invariant of
   C02_immediate_public_deletions (shift_inv2) with one element per slot (sized, C03 - true of every reachable state) and x a
   vertex / edge / face / cell: deleting x in deferred mode and collecting gives the same vertex count, edges, faces, cells and the
   same seven property-array lists as deleting x immediately (dmode s / imode s: s with deferred deletion on / off, fast deletion
   off).  Both sides are the survivors outside the brute-force closure, renumbered by rank.  (With the edge and face incidences both
   on the hypothesis of the collection theorem after the deferred deletion comes from Kernel2/ExactDeletions.v, otherwise from
   Kernel3/GcDeferredAny.v.) *)
Theorem C04_collection_equals_immediate_deletion : forall s, shift_inv2 s -> sized s -> forall x,
  (x < nv s -> same_mesh (collect_garbage (delete_vertex x (dmode s))) (delete_vertex x (imode s))) /\
  (x < ne s -> same_mesh (collect_garbage (delete_edge x (dmode s))) (delete_edge x (imode s))) /\
  (x < nf s -> same_mesh (collect_garbage (delete_face x (dmode s))) (delete_face x (imode s))) /\
  (x < nc s -> same_mesh (collect_garbage (delete_cell x (dmode s))) (delete_cell x (imode s))).
Proof. exact collection_equals_immediate_deletion_any. Qed.
Print Assumptions C04_collection_equals_immediate_deletion.

Definition gc_flagfree_ops : list op :=
  [EnableFast false; AddVertices 7;
   AddFaceV [0; 1; 2]; AddFaceV [0; 2; 3]; AddFaceV [0; 3; 1]; AddFaceV [1; 3; 2]; AddCell [0; 2; 4; 6] true;
   AddFaceV [1; 2; 4]; AddFaceV [2; 3; 4]; AddFaceV [3; 1; 4]; AddCell [7; 9; 11; 13] true;
   AddEdge 5 6 false;
   PropCreate KV 7%Z; PropSet KV 0 4 9%Z; PropCreate KHE 1%Z; PropSet KHE 0 7 5%Z; PropCreate KF 2%Z; PropSet KF 0 4 8%Z;
   PropCreate KHF 0%Z; PropSet KHF 0 9 3%Z; PropCreate KC 4%Z; PropSet KC 0 1 12%Z; PropCreate KE 0%Z; PropSet KE 0 8 13%Z].
Definition gc_flagfree : mesh := run gc_flagfree_ops.

Example C04_collection_equals_immediate_deletion_concrete :
  shift_inv2_b gc_flagfree = true /\ sized gc_flagfree /\ ebu gc_flagfree = true /\ fbu gc_flagfree = true /\
  (let t := collect_garbage (delete_vertex 1 (dmode gc_flagfree)) in let u := delete_vertex 1 (imode gc_flagfree) in
   nv u = 6 /\ edges u = [(1, 0); (1, 2); (2, 0); (1, 3); (2, 3); (4, 5)] /\ faces u = [[1; 2; 4]; [2; 8; 7]] /\ cells u = [] /\
   nv t = nv u /\ edges t = edges u /\ faces t = faces u /\ cells t = cells u /\
   pv t = pv u /\ pe t = pe u /\ phe t = phe u /\ pf t = pf u /\ phf t = phf u /\ pc t = pc u /\ pm t = pm u) /\
  (let t := collect_garbage (delete_edge 2 (dmode gc_flagfree)) in let u := delete_edge 2 (imode gc_flagfree) in
   nv t = nv u /\ edges t = edges u /\ faces t = faces u /\ cells t = cells u /\ cells u = [[3; 5; 7; 9]] /\
   pv t = pv u /\ pe t = pe u /\ phe t = phe u /\ pf t = pf u /\ phf t = phf u /\ pc t = pc u).
Proof. split; [vm_compute; reflexivity|]. split; [apply sized_reachable|]. vm_compute. repeat split. Qed.

Definition gc_flagfree_noebu : mesh := run (gc_flagfree_ops ++ [EnableEBU false; EnableVBU false]).
Example C04_collection_equals_immediate_deletion_concrete_without_edge_incidences :
  shift_inv2_b gc_flagfree_noebu = true /\ sized gc_flagfree_noebu /\ ebu gc_flagfree_noebu = false /\ vbu gc_flagfree_noebu = false /\
  (let t := collect_garbage (delete_vertex 1 (dmode gc_flagfree_noebu)) in let u := delete_vertex 1 (imode gc_flagfree_noebu) in
   nv u = 6 /\ nv t = nv u /\ edges t = edges u /\ faces t = faces u /\ cells t = cells u /\
   pv t = pv u /\ pe t = pe u /\ phe t = phe u /\ pf t = pf u /\ phf t = phf u /\ pc t = pc u /\ pm t = pm u).
Proof. split; [vm_compute; reflexivity|]. split; [apply sized_reachable|]. vm_compute. repeat split. Qed.

(* ---- the same for ANY state with pending deletions, and for LISTS of deletions *)

(* NON-FAST mode.  For every state d satisfying the hypothesis of the collection theorem (pending deletions allowed), with one
   element per slot and simple faces, and x a LIVE vertex / edge / face / cell of d: deleting x in deferred mode and collecting
   gives the same mesh as collecting first and then deleting - immediately - the entity under its new handle rank x. *)
Theorem C04_collection_commutes_with_deletion : forall d, gc_ready d -> fast d = false -> sized d -> faces_simple d -> forall x,
  (x < nv d -> v_deleted d x = false ->
     same_mesh (collect_garbage (delete_vertex x d)) (delete_vertex (rank (vdel d) x) (imode (collect_garbage d)))) /\
  (x < ne d -> e_deleted d x = false ->
     same_mesh (collect_garbage (delete_edge x d)) (delete_edge (rank (edel d) x) (imode (collect_garbage d)))) /\
  (x < nf d -> f_deleted d x = false ->
     same_mesh (collect_garbage (delete_face x d)) (delete_face (rank (fdel d) x) (imode (collect_garbage d)))) /\
  (x < nc d -> c_deleted d x = false ->
     same_mesh (collect_garbage (delete_cell x d)) (delete_cell (rank (cdel d) x) (imode (collect_garbage d)))).
Proof.
  intros d R F Z FS x. split; [exact (commute_vertex d R F Z FS x)|]. split; [exact (commute_edge d R F Z FS x)|].
  split; [exact (commute_face d R F Z FS x)|exact (commute_cell d R F Z FS x)].
Qed.
Print Assumptions C04_collection_commutes_with_deletion.

(* a LIST of deletions: run_def performs them in deferred mode; run_imm performs them immediately on the collected start state,
   each handle translated (del_rank) to the rank it has among the live entities of the deferred run at that moment.  Collecting
   at the end gives the mesh of the immediate run (which satisfies the invariant of the immediate mode). *)
Theorem C04_collection_equals_immediate_deletions_list : forall ops d, def_ok d -> all_live ops d = true ->
  same_mesh (collect_garbage (run_def ops d)) (run_imm ops d (imode (collect_garbage d))) /\
  shift_inv2 (run_imm ops d (imode (collect_garbage d))).
Proof. exact gc_many. Qed.
Print Assumptions C04_collection_equals_immediate_deletions_list.

Example C04_collection_equals_immediate_deletions_list_concrete :
  let d := run (firstn 30 gc_example_ops) in
  let ops := [DV 0; DF 9; DE 12; DC 1; DV 4] in
  hist_ok (firstn 16 gc_example_ops) = true /\ fast d = false /\ all_live ops d = true /\
  (let t := collect_garbage (run_def ops d) in let u := run_imm ops d (imode (collect_garbage d)) in
   nv u = 5 /\ ne u = 5 /\ nf u = 2 /\ nc u = 0 /\
   nv t = nv u /\ edges t = edges u /\ faces t = faces u /\ cells t = cells u /\
   pv t = pv u /\ pe t = pe u /\ phe t = phe u /\ pf t = pf u /\ phf t = phf u /\ pc t = pc u /\ pm t = pm u).
Proof. vm_compute. repeat split. Qed.

(* ================================================================== the hypothesis holds along deferred-mode histories *)

(* after EVERY history of add_vertex / add_n_vertices / add_edge / add_face / add_face(vertices) / topology-checked add_cell on
   free halffaces / delete_vertex / delete_edge / delete_face / delete_cell / enable_vertex_bottom_up_incidences / enable_fast_deletion
   in deferred mode (hist_ok: Kernel2/ExactHistory.v - every call valid or skipped, new faces simple, new cells checked) the
   hypothesis gc_ready of the collection theorem holds (and the faces are simple, every array has one element per slot) *)
Theorem C04_gc_ready_along_deferred_histories : forall ops, hist_ok ops = true ->
  gc_ready (run ops) /\ faces_simple (run ops) /\ sized (run ops).
Proof. exact gc_ready_along_histories. Qed.
Print Assumptions C04_gc_ready_along_deferred_histories.

(* hence collect_garbage after any such history (fast deletion off at that moment) yields the logical mesh, and the result satisfies
   the full invariant of the immediate mode *)
Theorem C04_collect_after_any_deferred_history : forall ops, hist_ok ops = true -> fast (run ops) = false ->
  let s := run ops in let t := collect_garbage s in
  nv t = logical_nv s /\ edges t = logical_edges s /\ faces t = logical_faces s /\ cells t = logical_cells s /\
  vdel t = repeat false (nv t) /\ edel t = repeat false (ne t) /\ fdel t = repeat false (nf t) /\ cdel t = repeat false (nc t) /\
  no_flags t /\ needs_gc t = false /\
  (forall k, props k t = logical_props k s) /\
  deferred t = true /\ fast t = false /\ (vbu t = vbu s /\ ebu t = ebu s /\ fbu t = fbu s) /\
  gc_ready t /\ shift_inv2 t.
Proof.
  intros ops H F. cbv zeta. destruct (gc_ready_along_histories ops H) as (R & FS & _).
  pose proof (collect_garbage_nonfast_logical (run ops) R F) as C. cbv zeta in C.
  destruct C as (c1 & c2 & c3 & c4 & c5 & c6 & c7 & c8 & c9 & c10 & c11 & c12 & c13 & c14 & c15 & _ & c17).
  repeat (split; [assumption|]). exact (c17 FS).
Qed.
Print Assumptions C04_collect_after_any_deferred_history.

Example C04_collect_after_any_deferred_history_concrete :
  hist_ok (firstn 16 gc_example_ops ++ skipn 30 gc_example_ops) = true /\
  (let s := run (firstn 16 gc_example_ops ++ skipn 30 gc_example_ops) in
   fast s = false /\ ndv s = 1 /\ nde s = 4 /\ ndf s = 4 /\ ndc s = 2 /\
   nv (collect_garbage s) = 6 /\ ne (collect_garbage s) = 9 /\ nf (collect_garbage s) = 6 /\ nc (collect_garbage s) = 1).
Proof. vm_compute. repeat split. Qed.

(* ================================================================== StatusAttrib::garbage_collection: tracked handles *)

(* NON-FAST mode.  status_gc (Kernel/StatusGC.v) forces deferred mode, deletes the status-marked entities, optionally runs the
   manifoldness pass - call the state reached s2 = status_pre ... -, and collects with four temporary index properties.
   Under gc_ready s2:
     - the mesh handed back is the logical mesh of s2 (entities, definitions, all property arrays; no flag; caches exact) with the
       caller's deferred-deletion mode restored;
     - with tracking, every tracked vertex / halfedge / halfface / cell handle is mapped to the rank renumbering of its entity if
       that entity is live in s2 (the SAME entity: the logical mesh lists it at that rank), and to None (invalid) if it was removed;
     - without tracked handles the four result lists are empty.
   Which entities the manifoldness pass flags is C04_manifold_pass_flags_exactly_the_unbounded below; status_gc with fast
   deletion on is C04_status_gc_tracks_handles_fast. *)
Theorem C04_status_gc_tracks_handles_nonfast : forall pm mv me mf mc tv the thf tc s,
  let s2 := status_pre pm mv me mf mc s in
  gc_ready s2 -> fast s2 = false ->
  let r := status_gc pm mv me mf mc tv the thf tc s in
  status_result s2 (deferred s) (fst r) /\
  (tracking_on tv the thf tc = true ->
   snd r = (map (track_v s2) tv, map (track_he s2) the, map (track_hf s2) thf, map (track_c s2) tc)) /\
  (tracking_on tv the thf tc = false -> snd r = ([], [], [], [])).
Proof. exact status_gc_tracking. Qed.
Print Assumptions C04_status_gc_tracks_handles_nonfast.

(* the hypothesis gc_ready s2 holds whenever the call is made after a deferred-mode history (both values of the manifoldness
   option: the marks and the manifoldness pass are deferred deletions of live entities) *)
Theorem C04_status_gc_after_any_deferred_history : forall ops pm mv me mf mc tv the thf tc, hist_ok ops = true -> fast (run ops) = false ->
  let s := run ops in let s2 := status_pre pm mv me mf mc s in
  let r := status_gc pm mv me mf mc tv the thf tc s in
  status_result s2 true (fst r) /\
  (tracking_on tv the thf tc = true ->
   snd r = (map (track_v s2) tv, map (track_he s2) the, map (track_hf s2) thf, map (track_c s2) tc)) /\
  (tracking_on tv the thf tc = false -> snd r = ([], [], [], [])).
Proof. exact status_gc_after_history. Qed.
Print Assumptions C04_status_gc_after_any_deferred_history.

Example C04_status_gc_tracks_handles_concrete :
  let s := run (firstn 16 gc_example_ops) in
  hist_ok (firstn 16 gc_example_ops) = true /\ fast s = false /\
  (let r := status_gc false [0] [12] [9] [] [0; 1; 6] [0; 3; 25] [0; 6; 19] [0; 1; 2] s in
   let s2 := status_pre false [0] [12] [9] [] s in
   snd r = ([None; Some 0; Some 5], [None; Some 1; None], [None; Some 0; None], [None; Some 0; None]) /\
   snd r = (map (track_v s2) [0; 1; 6], map (track_he s2) [0; 3; 25], map (track_hf s2) [0; 6; 19], map (track_c s2) [0; 1; 2]) /\
   nv (fst r) = 6 /\ ne (fst r) = 9 /\ nf (fst r) = 6 /\ nc (fst r) = 1 /\ edges (fst r) = logical_edges s2 /\ cells (fst r) = logical_cells s2) /\
  (let r := status_gc true [0] [12] [9] [] [0; 1; 6] [] [] [0; 1; 2] s in
   let s2 := status_pre true [0] [12] [9] [] s in
   snd r = (map (track_v s2) [0; 1; 6], [], [], map (track_c s2) [0; 1; 2]) /\ snd r = ([None; Some 0; None], [], [], [None; Some 0; None]) /\
   nv (fst r) = 4 /\ ne (fst r) = 6 /\ nf (fst r) = 4 /\ nc (fst r) = 1).
Proof. vm_compute. repeat split. Qed.

(* ================================================================== the manifoldness pass *)

(* sgc_manifold (the manifoldness option of StatusAttrib::garbage_collection), called in deferred mode on a state satisfying the
   history invariant Hinv (exact caches; it holds after every deferred-mode history and after the deletion of the marked entities,
   C04_status_gc_after_any_deferred_history): no definition, no property and no cell flag changes; flagged IN ADDITION are
   exactly the live faces no live cell lists a halfface of, then exactly the live edges no face that is still live lists a
   halfedge of, then exactly the live vertices no edge that is still live has as an endpoint. *)
Theorem C04_manifold_pass_flags_exactly_the_unbounded : forall s, Hinv s -> let m := sgc_manifold s in
  Hinv m /\ fast m = fast s /\
  (nv m = nv s /\ edges m = edges s /\ faces m = faces s /\ cells m = cells s /\ cdel m = cdel s /\ (forall k, props k m = props k s) /\
   (forall f, f < nf s -> (f_deleted m f = true <-> f_deleted s f = true \/ (f_deleted s f = false /\ face_unbounded s f))) /\
   (forall e, e < ne s -> (e_deleted m e = true <-> e_deleted s e = true \/ (e_deleted s e = false /\ edge_unbounded m e))) /\
   (forall v, v < nv s -> (v_deleted m v = true <-> v_deleted s v = true \/ (v_deleted s v = false /\ vertex_unbounded m v)))).
Proof. exact sgc_manifold_exact. Qed.
Print Assumptions C04_manifold_pass_flags_exactly_the_unbounded.

Example C04_manifold_pass_concrete :
  let s := run (firstn 16 gc_example_ops ++ [DelCell 0; DelCell 2]) in
  hist_ok (firstn 16 gc_example_ops ++ [DelCell 0; DelCell 2]) = true /\
  cdel s = [true; false; true] /\ fdel s = repeat false 10 /\
  (let m := sgc_manifold s in
   (* the faces of the two deleted tetrahedra that the remaining one does not use, their private edges, the isolated vertices *)
   fdel m = [true; true; true; false; false; false; false; true; true; true] /\
   edel m = [true; false; true; false; true; false; false; false; false; true; true; true; true] /\
   vdel m = [true; false; false; false; false; true; true] /\ cdel m = cdel s /\ cells m = cells s).
Proof. vm_compute. repeat split. Qed.

(* ================================================================== FAST mode *)

(* fast deletion on: every core first exchanges its victim with the LAST slot and then pops it, so the survivors are not kept in
   order.  Under gc_ready and one element per slot, collect_garbage still leaves exactly the live entities: there are maps
   rv re rf rc, injective on the live old indices, into [0, number of live entities) - hence bijections onto it, the counts being
   equal - such that every new definition is the old one of a live entity with its handles renamed through the maps (half-handles
   through r2: 2 * r (h / 2) + h mod 2), and every value of every existing property array moved with its entity.  Nothing is
   flagged or pending afterwards, the modes are restored, the invariant holds again. *)
Theorem C04_collect_garbage_fast_mode_renumbers_by_a_bijection : forall s, gc_ready s -> sized s -> fast s = true ->
  let t := collect_garbage s in
  exists rv re rf rc : nat -> nat,
    nv t = length (live_vertices s) /\ ne t = length (live_edges s) /\ nf t = length (live_faces s) /\ nc t = length (live_cells s) /\
    ((forall i, live_v s i = true -> rv i < nv t) /\ (forall i j, live_v s i = true -> live_v s j = true -> rv i = rv j -> i = j)) /\
    ((forall i, live_e s i = true -> re i < ne t) /\ (forall i j, live_e s i = true -> live_e s j = true -> re i = re j -> i = j)) /\
    ((forall i, live_f s i = true -> rf i < nf t) /\ (forall i j, live_f s i = true -> live_f s j = true -> rf i = rf j -> i = j)) /\
    ((forall i, live_c s i = true -> rc i < nc t) /\ (forall i j, live_c s i = true -> live_c s j = true -> rc i = rc j -> i = j)) /\
    (forall e, live_e s e = true -> edge_at t (re e) = (rv (fst (edge_at s e)), rv (snd (edge_at s e)))) /\
    (forall f, live_f s f = true -> face_at t (rf f) = map (r2 re) (face_at s f)) /\
    (forall c, live_c s c = true -> cell_at t (rc c) = map (r2 rf) (cell_at s c)) /\
    (length (pv t) = length (pv s) /\
     forall j i pd, j < length (pv s) -> live_v s i = true -> pval (nth j (pv t) pd) (rv i) = pval (nth j (pv s) pd) i) /\
    (length (pe t) = length (pe s) /\
     forall j i pd, j < length (pe s) -> live_e s i = true -> pval (nth j (pe t) pd) (re i) = pval (nth j (pe s) pd) i) /\
    (length (phe t) = length (phe s) /\
     forall j h pd, j < length (phe s) -> live_he s h = true -> pval (nth j (phe t) pd) (r2 re h) = pval (nth j (phe s) pd) h) /\
    (length (pf t) = length (pf s) /\
     forall j i pd, j < length (pf s) -> live_f s i = true -> pval (nth j (pf t) pd) (rf i) = pval (nth j (pf s) pd) i) /\
    (length (phf t) = length (phf s) /\
     forall j h pd, j < length (phf s) -> live_hf s h = true -> pval (nth j (phf t) pd) (r2 rf h) = pval (nth j (phf s) pd) h) /\
    (length (pc t) = length (pc s) /\
     forall j i pd, j < length (pc s) -> live_c s i = true -> pval (nth j (pc t) pd) (rc i) = pval (nth j (pc s) pd) i) /\
    pm t = pm s /\
    no_flags t /\ needs_gc t = false /\ deferred t = true /\ fast t = true /\ ginv t.
Proof. exact collect_garbage_fast_renumbers. Qed.
Print Assumptions C04_collect_garbage_fast_mode_renumbers_by_a_bijection.

(* three tetrahedra, properties of six kinds, fast deletion on; 1 vertex, 4 edges, 4 faces, 2 cells flagged: the survivors are
   NOT in their old order (vertex 6 took the slot of the deleted vertex 0), so the result differs from the rank-ordered logical
   mesh of the non-fast mode, but it is the same mesh up to the renumbering *)
Example C04_collect_garbage_fast_mode_concrete :
  gc_ready_b gcfast_example = true /\ sized gcfast_example /\ fast gcfast_example = true /\
  (let t := collect_garbage gcfast_example in
   nv t = 6 /\ edges t = [(1, 5); (1, 2); (5, 2); (2, 3); (5, 4); (3, 1); (2, 4); (4, 1); (3, 4)] /\
   faces t = [[10; 15; 17]; [3; 0; 4]; [13; 5; 8]; [11; 7; 3]; [2; 12; 14]; [6; 16; 13]] /\ cells t = [[7; 9; 11; 1]] /\
   map pdata (pv t) = [[7; 7; 7; 7; 9; 11]%Z] /\ map pdata (pc t) = [[12]%Z] /\ gc_ready_b t = true).
Proof. split; [vm_compute; reflexivity|]. split; [apply sized_reachable|]. vm_compute. repeat split. Qed.

(* ... and after any deferred-mode history that ends with fast deletion on *)
Theorem C04_collect_fast_after_any_deferred_history : forall ops, hist_ok ops = true -> fast (run ops) = true ->
  let s := run ops in let t := collect_garbage s in
  exists rv re rf rc : nat -> nat, gc_fast_post s t rv re rf rc /\ no_flags t /\ needs_gc t = false /\ deferred t = true /\ fast t = true /\ ginv t /\ sized t.
Proof.
  intros ops H F. cbv zeta. destruct (gc_ready_along_histories ops H) as (R & _ & Z).
  destruct (collect_garbage_fast_post (run ops) R Z F) as (rv & re & rf & rc & P). exists rv, re, rf, rc. exact P.
Qed.
Print Assumptions C04_collect_fast_after_any_deferred_history.

(* StatusAttrib::garbage_collection with FAST deletion on: the mesh handed back is the logical mesh of s2 up to the renumbering
   bijections rv re rf rc of the fast collection, and a tracked handle is mapped through the SAME bijection if its entity is live in
   s2, to None (invalid) if it was removed (ftrack liveb r i := if liveb i then Some (r i) else None). *)
Theorem C04_status_gc_tracks_handles_fast : forall pm mv me mf mc tv the thf tc s,
  let s2 := status_pre pm mv me mf mc s in
  gc_ready s2 -> sized s2 -> fast s2 = true ->
  let r := status_gc pm mv me mf mc tv the thf tc s in
  exists rv re rf rc : nat -> nat,
    gc_fast_post s2 (fst r) rv re rf rc /\ no_flags (fst r) /\ ginv (fst r) /\ deferred (fst r) = deferred s /\ fast (fst r) = true /\
    (tracking_on tv the thf tc = true ->
     snd r = (map (ftrack (live_v s2) rv) tv, map (ftrack (live_he s2) (r2 re)) the, map (ftrack (live_hf s2) (r2 rf)) thf, map (ftrack (live_c s2) rc) tc)) /\
    (tracking_on tv the thf tc = false -> snd r = ([], [], [], [])).
Proof. exact status_gc_tracking_fast. Qed.
Print Assumptions C04_status_gc_tracks_handles_fast.

(* its hypotheses hold after every deferred-mode history that ends with fast deletion on *)
Theorem C04_status_gc_fast_after_any_deferred_history : forall ops pm mv me mf mc, hist_ok ops = true -> fast (run ops) = true ->
  let s2 := status_pre pm mv me mf mc (run ops) in gc_ready s2 /\ sized s2 /\ fast s2 = true.
Proof.
  intros ops pm mv me mf mc H F. cbv zeta. destruct (Hinv_status_pre pm mv me mf mc (run ops) (Hinv_along_histories ops H)) as [H2 F2].
  split; [apply Hinv_gc_ready; exact H2|]. split; [apply szd_sized; exact (proj2 (proj2 H2))|congruence].
Qed.
Print Assumptions C04_status_gc_fast_after_any_deferred_history.

Example C04_status_gc_tracks_handles_fast_concrete :
  let s := run (firstn 16 gcfast_example_ops) in
  hist_ok (firstn 16 gcfast_example_ops) = true /\ fast s = true /\
  (let r := status_gc false [0] [12] [9] [] [0; 1; 6] [0; 3; 25] [0; 6; 19] [0; 1; 2] s in
   (* vertex 6 now sits in the slot of the deleted vertex 0; cell 1 (the survivor) took slot 0 *)
   snd r = ([None; Some 1; Some 0], [None; Some 3; None], [None; Some 6; None], [None; Some 0; None]) /\
   nv (fst r) = 6 /\ ne (fst r) = 9 /\ nf (fst r) = 6 /\ nc (fst r) = 1 /\ needs_gc (fst r) = false).
Proof. vm_compute. repeat split. Qed.
