(* Props/Properties_C06_ascii_props.v -- C06, OVM-ASCII: the round trip WITH persistent properties, for every reader
   configuration (polyhedral / tetrahedral / hexahedral mesh class, topology check on or off, bottom-up incidences on or off).
   Models: IO/AsciiWriterModel.v (write_ascii = FileManager::writeStream + writeProps, byte for byte) and
   IO/AsciiReaderModel.v (read_ascii = FileManager::readStream + readProperty + the deserializers), tied to the real library
   in lock step (lib/checks_ascii.py).  Proofs: IO/Ascii2Num.v, Ascii2Val.v, Ascii2Prop.v, Ascii2Topo.v, Ascii2Sort.v,
   Ascii2RoundTrip.v, Ascii2Check.v, Ascii2Examples.v.

   Floating point.  operator<<(double/float) and strtod/strtof are parameters [print_d] / [print_f] (bit pattern ->
   characters) and [conv_d] / [conv_f] (characters -> bit pattern, failbit); [okd] / [okf] are the bit patterns printed as
   a numeral (the finite values).  What is assumed of each pair is [float_io_ok conv print ok]:
     a printed numeral is one whitespace-free token that does not start with '#'; num_get's scanner accepts exactly that
     token when it is followed by whitespace or the end of the input; converting it does not set failbit; the reparsed
     value is printable again; parse (print (parse (print x))) = parse (print x).
   These are explicit premises of every theorem below, never axioms (toy_io_ok shows they are satisfiable by a pair
   for which reparsing really changes values).

   The format's limits are ONE decidable predicate, [wf_meshb okd okf o w = true]:
     no pending deletions; every handle in range; every face / cell with at least one handle; counts below 2^31 and
     allocatable under the reader's memory limit; finite coordinates; for every property: a registered type name (vectors
     of dimension 2, 3, 4), a name that is not empty, has no newline and does not end in a quote, one value per entity,
     every value inside the range of its C++ type (val_okb: integers in range, chars that are not whitespace, finite floating
     point, allocatable strings / vectors, key-sorted maps, vectors of the declared dimension); no two properties with the
     same (entity kind, name, type) and none that is the position property; and - for the mesh class and the topology check
     of the reader configuration o - the kernel accepts every face and cell and stores every cell as given
     (acceptsb: a computation; it is `true` for every mesh when o is polyhedral without topology check).
   What is false without them: C06_ascii_format_limits_refuted (Properties_C06_ascii.v) and
   C06_ascii_name_type_limits_refuted below. *)
From Coq Require Import ZArith Lia List String Permutation.
From OVM Require Import Kernel.Ops.
From OVM Require Import IO.AsciiStream IO.AsciiReaderModel IO.AsciiWriterModel IO.AsciiProofs.
From OVM Require Import IO.Ascii2Num IO.Ascii2Val IO.Ascii2Prop IO.Ascii2Topo IO.Ascii2Sort IO.Ascii2RoundTrip IO.Ascii2Check
  IO.Ascii2Examples.
Import ListNotations.
Local Open Scope Z_scope.

(* ------------------------------------------------------------------ 1. values *)

(* deserialize (serialize v ++ endl ++ R), after any whitespace, for every value type of the typeName list: the value read
   is v with every floating point component reparsed (rp_val), what is left is blank lines, the endl and R *)
Theorem C06_ascii_value_roundtrip :
  forall conv_d conv_f print_d print_f okd okf, float_io_ok conv_d print_d okd -> float_io_ok conv_f print_f okf ->
  forall (o : opts) (t : atype) (v : aval) (lead R : list byte), val_okb okd okf o t v = true -> allws lead ->
  exists ws, nls ws /\
    deser conv_d conv_f o t (st (lead ++ ser print_d print_f t v ++ c_nl :: R)) (default_val t)
    = DOk (st (ws ++ c_nl :: R)) (rp_val conv_d conv_f print_d print_f t v).
Proof.
  intros cd cf pd pf okd okf (D1 & D2 & D3 & _) (F1 & F2 & F3 & _) o t v lead R.
  exact (deser_val cd cf pd pf okd okf D1 D2 D3 F1 F2 F3 o t v lead R).
Qed.
Print Assumptions C06_ascii_value_roundtrip.

(* integral types, bool, char, string, handle vectors, maps, integer vectors: the value read is the value written *)
Theorem C06_ascii_value_exact : forall conv_d conv_f print_d print_f (t : atype) (v : aval),
  float_free t = true -> rp_val conv_d conv_f print_d print_f t v = v.
Proof. exact rp_val_float_free. Qed.
Print Assumptions C06_ascii_value_exact.

(* integers of every width, signed and unsigned: operator>> reads back what operator<< printed *)
Theorem C06_ascii_integer_roundtrip_signed : forall (t : numty) (z : Z) (lead r : list byte),
  in_num t z -> allws lead -> endws r ->
  get_num t (st (lead ++ print_Z z ++ r)) = (mk r (is_nil r) false, Some z).
Proof. exact get_num_print_ws. Qed.
Print Assumptions C06_ascii_integer_roundtrip_signed.

(* PropertyStorageT::deserialize over the lines PropertyStorageT::serialize wrote (one value per line) *)
Theorem C06_ascii_values_roundtrip :
  forall conv_d conv_f print_d print_f okd okf, float_io_ok conv_d print_d okd -> float_io_ok conv_f print_f okf ->
  forall (o : opts) (t : atype) (vs : list aval) (lead R : list byte), forallb (val_okb okd okf o t) vs = true -> allws lead ->
  exists ws, (nls lead -> nls ws) /\
    deser_all conv_d conv_f o t (repeat (default_val t) (length vs)) (st (lead ++ vals_text print_d print_f t vs ++ R))
    = inl (st (ws ++ R), map (rp_val conv_d conv_f print_d print_f t) vs).
Proof.
  intros cd cf pd pf okd okf (D1 & D2 & D3 & _) (F1 & F2 & F3 & _) o t.
  exact (deser_all_print cd cf pd pf okd okf D1 D2 D3 F1 F2 F3 o t).
Qed.
Print Assumptions C06_ascii_values_roundtrip.

(* ------------------------------------------------------------------ 2. property sections *)

(* readProperty on one section written by writeProps (header line `<Entity>Prop <type> "<name>"`, then the values): a new
   persistent property with the same kind, name, type and the reparsed values is appended *)
Theorem C06_ascii_property_section :
  forall conv_d conv_f print_d print_f okd okf, float_io_ok conv_d print_d okd -> float_io_ok conv_f print_f okf ->
  forall (o : opts) (m : mesh) (p : pentry) (lead R : list byte) (props : list pentry),
  prop_okb okd okf o m p = true -> nls lead -> fresh p props ->
  exists ws, nls ws /\
    read_property conv_d conv_f o m (st (lead ++ write_prop print_d print_f p ++ R)) props
    = Go (st (ws ++ R), props ++ [rp_entry conv_d conv_f print_d print_f p]).
Proof.
  intros cd cf pd pf okd okf (D1 & D2 & D3 & _) (F1 & F2 & F3 & _).
  exact (read_property_print cd cf pd pf okd okf D1 D2 D3 F1 F2 F3).
Qed.
Print Assumptions C06_ascii_property_section.

(* writeProps writes the properties entity kind by entity kind: a permutation of the property list *)
Theorem C06_ascii_write_props_order : forall print_d print_f (ps : list pentry),
  write_props print_d print_f ps = concat (map (write_prop print_d print_f) (sorted_props ps)) /\
  Permutation (sorted_props ps) ps.
Proof. intros. split; [apply write_props_sorted|apply sorted_props_perm]. Qed.
Print Assumptions C06_ascii_write_props_order.

(* ------------------------------------------------------------------ 3. the whole file *)

(* C06 (ASCII) with properties.  Both reads succeed; the second - of what the first returned - returns the very same result
   (mesh, properties, stream state): the second round trip changes nothing.  The mesh read is the mesh the kernel builds
   from w's topology (same entity counts, every edge / face / cell handle for handle).  The properties read are the
   position property with the reparsed coordinates followed by every property of w - same entity kind, name, type, values
   reparsed - in the writer's order; a property without floating point components comes back identical. *)
Theorem C06_ascii_roundtrip_props :
  forall conv_d conv_f print_d print_f okd okf, float_io_ok conv_d print_d okd -> float_io_ok conv_f print_f okf ->
  forall (o : opts) (w : wmesh), wf_meshb okd okf o w = true ->
  exists f1 mC,
    read_ascii conv_d conv_f o (write_ascii print_d print_f w) = RTrue f1 /\
    read_ascii conv_d conv_f o (write_ascii print_d print_f (reread_props f1)) = RTrue f1 /\
    built o (w_mesh w) = Some mC /\ f_mesh f1 = with_bu o mC /\ topo (f_mesh f1) = topo (w_mesh w) /\
    f_props f1 = pos_entry (map (rp3 conv_d print_d) (w_pos w))
                 :: map (rp_entry conv_d conv_f print_d print_f) (sorted_props (w_props w)) /\
    Permutation (f_props f1)
                (pos_entry (map (rp3 conv_d print_d) (w_pos w)) :: map (rp_entry conv_d conv_f print_d print_f) (w_props w)) /\
    (forall p, In p (w_props w) -> In (rp_entry conv_d conv_f print_d print_f p) (f_props f1)) /\
    (forall p, In p (w_props w) -> float_free (p_type p) = true -> In p (f_props f1)).
Proof. exact ascii_roundtrip_props. Qed.
Print Assumptions C06_ascii_roundtrip_props.

(* the mesh read back has no pending deletions, so `reread_props f1` is again a file the writer writes in full *)
Theorem C06_ascii_props_read_has_no_deletions : forall conv_d conv_f (o : opts) (bytes : list byte) (f : fin),
  read_ascii conv_d conv_f o bytes = RTrue f -> nodel (f_mesh f).
Proof. intros. exact (read_stream_nodel conv_d conv_f o (of_bytes bytes) f H). Qed.
Print Assumptions C06_ascii_props_read_has_no_deletions.

(* ------------------------------------------------------------------ 4. topology check, tetrahedral / hexahedral classes *)

(* The same statement with the kernel's acceptance as an explicit hypothesis in Prop form: for ANY mesh class and check
   setting, if the checked add_face / add_cell calls accept every face and cell of w and store them as given
   (built o (w_mesh w) = Some mC), the read returns exactly mC (with the requested bottom-up incidences) and the properties *)
Theorem C06_ascii_roundtrip_checked :
  forall conv_d conv_f print_d print_f okd okf, float_io_ok conv_d print_d okd -> float_io_ok conv_f print_f okf ->
  forall (o : opts) (w : wmesh) (mC : mesh), wfp okd okf o w -> built o (w_mesh w) = Some mC ->
  read_ascii conv_d conv_f o (write_ascii print_d print_f w)
  = RTrue {| f_is := mk [] true true; f_mesh := with_bu o mC;
             f_props := pos_entry (map (rp3 conv_d print_d) (w_pos w))
                        :: map (rp_entry conv_d conv_f print_d print_f) (sorted_props (w_props w)) |} /\
  topo mC = topo (w_mesh w).
Proof.
  intros cd cf pd pf okd okf (D1 & D2 & D3 & _) (F1 & F2 & F3 & _) o w mC W HB.
  split; [exact (read_write_props cd cf pd pf okd okf D1 D2 D3 F1 F2 F3 o w mC W HB)|exact (built_some_topo o _ _ HB)].
Qed.
Print Assumptions C06_ascii_roundtrip_checked.

(* polyhedral mesh read without topology check: the kernel accepts every mesh (the unconditional case) *)
Theorem C06_ascii_poly_nocheck_accepts : forall (o : opts) (m : mesh),
  o_mesh o = MPoly -> o_check o = false -> acceptsb o m = true.
Proof. exact acceptsb_poly_nocheck. Qed.
Print Assumptions C06_ascii_poly_nocheck_accepts.

(* the mesh the reader builds only depends on the topology of the mesh written *)
Theorem C06_ascii_built_topology_only : forall (o : opts) (m m' : mesh), topo m' = topo m -> built o m' = built o m.
Proof. exact built_topo. Qed.
Print Assumptions C06_ascii_built_topology_only.

(* two reader configurations under which w is inside the limits (mesh classes, checks, bottom-up settings may all differ)
   read the same topology and the same properties *)
Theorem C06_ascii_configuration_independent :
  forall conv_d conv_f print_d print_f okd okf, float_io_ok conv_d print_d okd -> float_io_ok conv_f print_f okf ->
  forall (o o' : opts) (w : wmesh), wf_meshb okd okf o w = true -> wf_meshb okd okf o' w = true ->
  exists f f',
    read_ascii conv_d conv_f o (write_ascii print_d print_f w) = RTrue f /\
    read_ascii conv_d conv_f o' (write_ascii print_d print_f w) = RTrue f' /\
    topo (f_mesh f') = topo (f_mesh f) /\ f_props f' = f_props f /\ f_is f' = f_is f.
Proof. exact ascii_config_independent. Qed.
Print Assumptions C06_ascii_configuration_independent.

(* ------------------------------------------------------------------ 5. bottom-up incidences *)

(* the writer: the bytes do not depend on the bottom-up incidence settings of the mesh written *)
Theorem C06_ascii_writer_ignores_bottom_up : forall print_d print_f (m : mesh) pos props (bv be bf : bool),
  write_ascii print_d print_f {| w_mesh := enable_fbu bf (enable_ebu be (enable_vbu bv m)); w_pos := pos; w_props := props |}
  = write_ascii print_d print_f {| w_mesh := m; w_pos := pos; w_props := props |}.
Proof. exact write_ascii_bu. Qed.
Print Assumptions C06_ascii_writer_ignores_bottom_up.

(* the reader: the hypotheses do not mention the bottom-up setting, and with it on or off the read returns the same
   stream state, the same properties and the same mesh up to enabling the incidence caches at the end *)
Theorem C06_ascii_reader_bottom_up :
  forall conv_d conv_f print_d print_f okd okf, float_io_ok conv_d print_d okd -> float_io_ok conv_f print_f okf ->
  forall (o : opts) (w : wmesh) (b : bool), wf_meshb okd okf o w = true ->
  exists mC, built o (w_mesh w) = Some mC /\
    read_ascii conv_d conv_f (set_bu b o) (write_ascii print_d print_f w)
    = RTrue {| f_is := mk [] true true;
               f_mesh := if b then enable_fbu true (enable_ebu true (enable_vbu true mC)) else mC;
               f_props := pos_entry (map (rp3 conv_d print_d) (w_pos w))
                          :: map (rp_entry conv_d conv_f print_d print_f) (sorted_props (w_props w)) |}.
Proof. exact ascii_bottom_up_independent. Qed.
Print Assumptions C06_ascii_reader_bottom_up.

(* ------------------------------------------------------------------ 6. outside the limits (computed witnesses) *)

(* a name ending in a quote comes back without it; a name containing a newline makes the read fail; an empty name comes
   back as one quote character; a vector type without a registered type name (vec5d) is silently dropped; a blank char value
   makes the reader take the first letter of the next header line as the value and lose the next property *)
Theorem C06_ascii_name_type_limits_refuted :
  (exists f, toy_read (w_one [Pn KV [97; 34] TInt [VInt 5]]) = RTrue f /\ tl (f_props f) = [Pn KV [97] TInt [VInt 5]]) /\
  (exists f, toy_read (w_one [Pn KV [97; 10; 98] TInt [VInt 5]]) = RFalse f) /\
  (exists f, toy_read (w_one [Pn KV [] TInt [VInt 5]]) = RTrue f /\ tl (f_props f) = [Pn KV [34] TInt [VInt 5]]) /\
  (exists f, toy_read (w_one [Pn KV [97] (TVec 5 SD) [VList (repeat (VFlt 2) 5)]]) = RTrue f /\ tl (f_props f) = []) /\
  (exists f, toy_read (w_one [Pn KV [97] TChar [VInt 32]; Pn KV [98] TInt [VInt 7]]) = RTrue f /\
             tl (f_props f) = [Pn KV [97] TChar [VInt 86]]).
Proof. exact ascii_format_limits_refuted. Qed.
Print Assumptions C06_ascii_name_type_limits_refuted.

(* why "stores every cell as given" is part of the hypotheses: a hexahedron whose halffaces are listed in another order is
   inside the limits for a polyhedral reader and is also read by the hexahedral reader with the topology check on, but
   that reader stores the cell re-ordered - the full statement "every cell definition handle for handle, into every
   compatible mesh type" is false for it, and acceptsb o_hex says so *)
Theorem C06_ascii_hex_into_hex_class_refuted :
  wf_meshb toy_ok toy_ok o_poly w_hex_perm = true /\ acceptsb o_hex (w_mesh w_hex_perm) = false /\
  (exists f, read_ascii toy_conv toy_conv_exact o_hex (write_ascii toy_print toy_print w_hex_perm) = RTrue f /\
             cells (f_mesh f) = [[0; 2; 10; 8; 4; 6]%nat] /\ cells (w_mesh w_hex_perm) = [[0; 2; 8; 10; 4; 6]%nat]).
Proof. exact ascii_hex_reorder_witness. Qed.
Print Assumptions C06_ascii_hex_into_hex_class_refuted.

(* ------------------------------------------------------------------ 7. non-vacuity *)

(* a printer / converter pair satisfying float_io_ok for every printable value, with reparse x = 2 * (x / 2) <> x *)
Example C06_ascii_float_hypotheses_satisfiable :
  float_io_ok toy_conv toy_print toy_ok /\ float_io_ok toy_conv_exact toy_print toy_ok /\
  reparse toy_conv toy_print 7 = 6.
Proof. split; [exact toy_io_ok|]. split; [exact toy_io_exact_ok|reflexivity]. Qed.

(* a triangle with sixteen properties over all seven entity kinds and fifteen value types (polyhedral, check off); a
   tetrahedron read into a tetrahedral and into a polyhedral mesh with the topology check on; a hexahedron read into a
   hexahedral mesh with the topology check on and bottom-up incidences *)
Example C06_ascii_limits_satisfiable :
  wf_meshb toy_ok toy_ok o_poly w_rich = true /\
  wf_meshb toy_ok toy_ok o_tet w_tet = true /\
  wf_meshb toy_ok toy_ok {| o_mesh := MPoly; o_check := true; o_bu := true; o_alloc := 4294967296 |} w_tet = true /\
  wf_meshb toy_ok toy_ok o_hex w_hex = true.
Proof. split; [exact w_rich_wf|]. split; [exact (proj1 w_tet_wf)|]. split; [exact (proj2 w_tet_wf)|exact w_hex_wf]. Qed.

(* the theorem applied to the triangle: the double 7 comes back as 6 (reparsed), the int property identical *)
Example C06_ascii_roundtrip_props_instance :
  exists f1,
    read_ascii toy_conv toy_conv_exact o_poly (write_ascii toy_print toy_print w_rich) = RTrue f1 /\
    read_ascii toy_conv toy_conv_exact o_poly (write_ascii toy_print toy_print (reread_props f1)) = RTrue f1 /\
    In (P KF "fd" TDouble [VFlt 6]) (f_props f1) /\ In (P KV "vi" TInt [VInt (-5); VInt 0; VInt 2147483647]) (f_props f1) /\
    length (f_props f1) = 17%nat.
Proof. exact w_rich_roundtrip. Qed.
Print Assumptions C06_ascii_roundtrip_props_instance.
