(* Props/Properties_C15.v -- C15: tetrahedral kernel (shape invariants, vertex-order contracts, labels, edge collapse).
   Statements only; every proof is `exact <lemma>` (Mesh/TetProofs.v, Mesh/TetTopoProofs.v); Print Assumptions under
   each theorem.  What is NOT proved in full is named `_partial` / `_refuted` and explained where it stands:

   * tet_shape (valences) is proved invariant over every history whose executed steps are: additions in every form
     (accepted or rejected), every deletion / garbage collection / collapse in deferred OR fast mode, index swaps, mode
     switches, clear and property operations.  Outside (TetProofs.outside_partial): physical removal in SLOW immediate
     mode (it filters the removed handles out of the stored lists and keeps the lengths only by C02's closure property,
     which is not proved here) and set_face / set_cell (not tet operations); those steps are carried by the lock-step
     correspondence + the impl-side valence scan.
   * four distinct vertices: proved for every cell accepted by the topology-checked add_cell(halffaces)
     (C15_checked_add_cell_four_distinct_vertices; the former counterexample - two "pillows" - is rejected since the fix
     "checked tet add_cell must reject four triangles that are not a tetrahedron", Example C15_two_pillows_rejected); as an
     invariant of ALL additions it stays refuted, because the UNCHECKED add_cell stores whatever four triangles it is
     given (C15_four_distinct_vertices_unchecked_refuted).
   * property values across collapse_edge: the statement that halfedge values follow is REFUTED (known finding
     "collapse-props-parity", witness = its replay); proved: one element per slot in every property array in every mode,
     vertex / mesh property arrays untouched in deferred mode; the rest is judged by the token oracle of the harness.
   * collapse_edge: shape in deferred and in immediate fast mode, returned handle in deferred mode; the characterisation
     of the resulting cell set (and the slow immediate mode) is carried by the correspondence and the brute-force oracle
     (harness/run_tet.cc). *)
From Coq Require Import ZArith List.
From OVM Require Import Base.ListX Gen.TetLabels Kernel.State Kernel.Ops Kernel.Sizes Mesh.TetModel Mesh.TetTopoModel Mesh.TetProofs Mesh.TetTopoProofs.
Import ListNotations.

(* ---- shape *)
Theorem C15_tet_shape_invariant_partial : forall ops : list top,
  inside_along empty_mesh ops -> tet_shape (tet_run ops).
Proof. exact tet_shape_run. Qed.
Print Assumptions C15_tet_shape_invariant_partial.

Theorem C15_tet_shape_step_partial : forall (s : mesh) (o : top) (s' : mesh) (r : option nat),
  tet_shape s -> outside_partial s o = false -> tet_step s o = TOk s' r -> tet_shape s'.
Proof. exact tet_shape_step. Qed.
Print Assumptions C15_tet_shape_step_partial.

Theorem C15_tet_shape_is_three_and_four : forall s : mesh, tet_shape s ->
  (forall f, f < nf s -> length (face_at s f) = 3) /\ (forall c, c < nc s -> length (cell_at s c) = 4).
Proof. exact (kshape_live 3 4). Qed.
Print Assumptions C15_tet_shape_is_three_and_four.

Theorem C15_checked_add_cell_four_distinct_vertices : forall s hfs s' c, tet_add_cell s hfs true = (s', Some c) ->
  c = nc s /\ cell_at s' c = hfs /\ length hfs = 4 /\ length (cell_vertex_set s' c) = 4.
Proof. exact tet_add_cell_checked_four_vertices. Qed.
Print Assumptions C15_checked_add_cell_four_distinct_vertices.

(* full statement (refuted for unchecked additions):  forall ops, tet_shape_full (tet_run ops) *)
Theorem C15_four_distinct_vertices_unchecked_refuted :
  exists ops, inside_along empty_mesh ops /\ ~ tet_shape_full (tet_run ops).
Proof. exact tet_shape_full_unchecked_refuted. Qed.
Print Assumptions C15_four_distinct_vertices_unchecked_refuted.

(* ---- get_cell_vertices: the given (or first) halfface's vertices in cyclic order from the requested start, then the apex *)
Theorem C15_get_cell_vertices_of_halfface : forall s c hfs V, tet_wf s c hfs V -> forall hf, In hf hfs ->
  exists x y z w, hf_vertices s hf = [x; y; z] /\ is_apex s V hf w /\ gcv_hf s hf = Some [x; y; z; w].
Proof. exact gcv_hf_wf. Qed.
Print Assumptions C15_get_cell_vertices_of_halfface.

Theorem C15_get_cell_vertices_of_cell_is_first_halfface : forall s c hfs h0,
  nth_error (cells s) c = Some hfs -> nth_error hfs 0 = Some h0 -> gcv_c s c = gcv_hf s h0.
Proof. exact gcv_c_first. Qed.
Print Assumptions C15_get_cell_vertices_of_cell_is_first_halfface.

Theorem C15_get_cell_vertices_start_vertex : forall s c x y z w v, gcv_c s c = Some [x; y; z; w] -> NoDup [x; y; z; w] ->
  (v = x -> gcv_c_v s c v = Some [x; y; z; w]) /\ (v = y -> gcv_c_v s c v = Some [y; z; x; w]) /\
  (v = z -> gcv_c_v s c v = Some [z; x; y; w]) /\ (v = w -> gcv_c_v s c v = Some [w; y; x; z]) /\
  (~ In v [x; y; z; w] -> gcv_c_v s c v = Some [x; y; z; w]).
Proof. exact gcv_c_v_spec. Qed.
Print Assumptions C15_get_cell_vertices_start_vertex.

Theorem C15_get_cell_vertices_start_halfedge : forall s hf he x y z w, gcv_hf s hf = Some [x; y; z; w] -> NoDup [x; y; z; w] ->
  (he_from s he = x -> gcv_hf_he s hf he = Some [x; y; z; w]) /\
  (he_from s he = y -> gcv_hf_he s hf he = Some [y; z; x; w]) /\
  (he_from s he = z -> gcv_hf_he s hf he = Some [z; x; y; w]).
Proof. exact gcv_hf_he_spec. Qed.
Print Assumptions C15_get_cell_vertices_start_halfedge.

(* ---- the two opposite maps are mutually inverse on well-formed tetrahedra *)
Theorem C15_opposite_maps_inverse_from_halfface : forall s c hfs V, tet_wf s c hfs V -> forall hf, In hf hfs ->
  exists w, halfface_opposite_vertex s hf = Some (Some w) /\ vertex_opposite_halfface s c w = Some (Some hf).
Proof. exact voh_hov_inverse. Qed.
Print Assumptions C15_opposite_maps_inverse_from_halfface.

Theorem C15_opposite_maps_inverse_from_vertex : forall s c hfs V, tet_wf s c hfs V -> forall v, In v V ->
  exists hf, In hf hfs /\ vertex_opposite_halfface s c v = Some (Some hf) /\ ~ In v (hf_vertices s hf) /\
             halfface_opposite_vertex s hf = Some (Some v).
Proof. exact hov_voh_inverse. Qed.
Print Assumptions C15_opposite_maps_inverse_from_vertex.

(* ---- the tet vertex iterator *)
Theorem C15_tet_vertex_iterator_is_get_cell_vertices : forall s c a b d e laps, gcv_c s c = Some [a; b; d; e] ->
  tet_iter s c laps = Some (concat (repeat [a; b; d; e] laps)).
Proof. exact tet_iter_spec. Qed.
Print Assumptions C15_tet_vertex_iterator_is_get_cell_vertices.

(* ---- TetTopology labels: the WHOLE label domains (regenerated from TetTopology.hh) *)
Theorem C15_halfedge_labels_consistent : forall l : Z, In l HEL_all ->
  In (TT_hel_from l) VL_all /\ In (TT_hel_to l) VL_all /\ TT_hel_from l <> TT_hel_to l /\
  TT_hel (TT_hel_from l) (TT_hel_to l) = l /\
  In (HEL_opposite l) HEL_all /\ HEL_opposite (HEL_opposite l) = l /\
  TT_hel_from (HEL_opposite l) = TT_hel_to l /\ TT_hel_to (HEL_opposite l) = TT_hel_from l /\
  HEL_is_forward l <> HEL_is_forward (HEL_opposite l).
Proof. exact hel_labels_consistent. Qed.
Print Assumptions C15_halfedge_labels_consistent.

Theorem C15_halfedge_label_of_every_vertex_pair : forall a b : Z, In a VL_all -> In b VL_all -> a <> b ->
  In (TT_hel a b) HEL_all /\ TT_hel_from (TT_hel a b) = a /\ TT_hel_to (TT_hel a b) = b.
Proof. exact hel_total. Qed.
Print Assumptions C15_halfedge_label_of_every_vertex_pair.

Theorem C15_halfface_labels_consistent : forall l : Z, In l HFL_all -> HFL_has_start l = true ->
  (forall v, In v (vl3 l) -> In v VL_all /\ v <> opp_vertex l) /\ NoDup (vl3 l) /\
  TT_hfl_vl (HFL_opposite l) 0 = TT_hfl_vl l 0 /\ TT_hfl_vl (HFL_opposite l) 1 = TT_hfl_vl l 2 /\
  TT_hfl_vl (HFL_opposite l) 2 = TT_hfl_vl l 1 /\
  (forall i, In i [0; 1; 2]%Z -> In (TT_hfl_hel l i) HEL_all /\ TT_hel_from (TT_hfl_hel l i) = TT_hfl_vl l i /\
                                 TT_hel_to (TT_hfl_hel l i) = TT_hfl_vl l (Z.rem (i + 1) 3)).
Proof. exact hfl_labels_consistent. Qed.
Print Assumptions C15_halfface_labels_consistent.

Theorem C15_halfface_label_opposite : forall l : Z, In l HFL_all ->
  In (HFL_opposite l) HFL_all /\ HFL_opposite (HFL_opposite l) = l /\ HFL_is_inner l <> HFL_is_inner (HFL_opposite l).
Proof. exact hfl_opposite_involutive. Qed.
Print Assumptions C15_halfface_label_opposite.

Theorem C15_get_label_inverts_vertex_accessor : forall (t : ttopo) a b c d,
  tt_vh t = [Some a; Some b; Some c; Some d] -> NoDup [a; b; c; d] ->
  forall l v, In l VL_all -> tt_vh_l t l = Some v -> tt_label_v t v = Some l.
Proof. exact label_v_inverts. Qed.
Print Assumptions C15_get_label_inverts_vertex_accessor.

Theorem C15_get_label_inverts_halfedge_accessor : forall (t : ttopo) (hs : list nat),
  tt_heh t = map Some hs -> length hs = 6 -> NoDup (map (fun h => h / 2) hs) ->
  forall l h, In l HEL_all -> tt_heh_l t l = Some h -> tt_label_he t h = Some l.
Proof. exact label_he_inverts. Qed.
Print Assumptions C15_get_label_inverts_halfedge_accessor.

(* ---- collapse_edge (partial: see the header) *)
Theorem C15_collapse_partial : forall s he s' r, tet_shape s /\ deferred s = true -> collapse_edge s he = Some (s', r) ->
  (tet_shape s' /\ deferred s' = true) /\ r = he_to s he.
Proof. exact collapse_edge_deferred. Qed.
Print Assumptions C15_collapse_partial.

Theorem C15_collapse_immediate_fast_partial : forall s he s' r, tet_shape s -> deferred s = false -> fast s = true ->
  collapse_edge s he = Some (s', r) -> tet_shape s' /\ deferred s' = false /\ fast s' = true.
Proof. exact collapse_edge_immediate_fast. Qed.
Print Assumptions C15_collapse_immediate_fast_partial.

(* ---- property values across collapse_edge (KNOWN_FINDINGS "collapse-props-parity").
   full statement (refuted): forall s he s' r, collapse_edge s he = Some (s', r) -> he_values_follow s s' he
   ("the halfedge values of the rebuilt tets follow their halfedges"): collapse_edge swaps once per rebuilt tet, so
   the value of a halfedge used by two rebuilt tets is dropped *)
Theorem C15_collapse_props_refuted :
  dshape parity_before /\ collapse_edge parity_before 0 = Some (parity_after, 1) /\
  ~ he_values_follow parity_before parity_after 0 /\
  find_halfedge parity_after 1 3 = Some 20 /\ phe_val parity_after 0 20 = phe_val parity_before 0 2 /\
  find_halfedge parity_after 1 2 = Some 23 /\ phe_val parity_after 0 23 = 0%Z /\ phe_val parity_before 0 7 = 107%Z.
Proof. exact collapse_props_refuted. Qed.
Print Assumptions C15_collapse_props_refuted.

(* what does hold: sizes (every deletion mode) ... *)
Theorem C15_collapse_props_sizes_partial : forall s he s' r,
  szd s -> he_from s he < nv s -> collapse_edge s he = Some (s', r) -> szd s'.
Proof. exact collapse_edge_sizes. Qed.
Print Assumptions C15_collapse_props_sizes_partial.

(* ... and, in deferred mode, vertex and mesh property arrays are not touched at all *)
Theorem C15_collapse_props_vertex_partial : forall s he s' r,
  tet_shape s /\ deferred s = true -> collapse_edge s he = Some (s', r) -> pv s' = pv s /\ pm s' = pm s.
Proof. exact collapse_edge_vertex_props_deferred. Qed.
Print Assumptions C15_collapse_props_vertex_partial.

(* ---- non-vacuity *)
Example C15_inside_history_with_removals :
  let ops := [TK (AddVertices 6); TAddCellV [0; 1; 2; 3] true; TAddCellV [0; 1; 3; 4] true; TAddCell4 0 1 4 5 false;
              TK (SwapF 0 3); TK (SwapC 0 2); TCollapse 0; TK CollectGarbage;
              TK (EnableDeferred false); TAddCellV [0; 1; 2; 3] true; TAddCellV [0; 1; 3; 4] true; TK (DelFace 0); TCollapse 2] in
  inside_along empty_mesh ops /\ nc (tet_run ops) = 1 /\ nf (tet_run ops) = 4.
Proof. exact inside_history_with_removals. Qed.

Example C15_two_pillows_rejected :
  tet_step (tet_run two_pillows) (TK (AddCell [0; 3; 4; 7] true)) = TOk (tet_run two_pillows) None /\
  cell_check (tet_run two_pillows) [0; 3; 4; 7] = true.
Proof. exact two_pillows_rejected. Qed.

Example C15_a_tetrahedron_is_well_formed : tet_wf one_tet 0 [0; 2; 4; 6] [0; 1; 2; 3].
Proof. exact one_tet_wf. Qed.

Example C15_constructor_consistent_on_glued_tets :
  all_tt_consistent tt_mesh_1 = true /\ all_tt_consistent tt_mesh_2 = true /\ all_tt_consistent tt_mesh_fan = true /\
  length (live_cells tt_mesh_2) = 2 /\ length (live_cells tt_mesh_fan) = 4.
Proof. exact tt_constructor_consistent_on_examples. Qed.

Example C15_collapse_hypotheses_satisfiable :
  let s := tet_run [TK (AddVertices 5); TAddCellV [0; 1; 2; 3] true; TAddCellV [0; 1; 3; 4] true] in
  deferred s = true /\ exists s' r, collapse_edge s 0 = Some (s', r) /\ r = 1.
Proof. vm_compute. split; [reflexivity|]. eexists. eexists. split; reflexivity. Qed.
