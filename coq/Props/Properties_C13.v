(* Props/Properties_C13.v -- C13: mesh copy construction and assignment are deep and leave the meshes independent.
   Model: Reg/HeapModel.v, Reg/RegistryModel.v (copy_mesh, assign: ResourceManager.cc:39-86, GeometryKernel.hh:59-103);
   proofs: Reg/CopyProofs.v on top of Reg/RegistryProofs.v.  [reachable] as in Properties_C14.v. *)
From Coq Require Import List ZArith.
From OVM Require Import Reg.RegistryModel Reg.RegistryProofs Reg.CopyProofs.
Import ListNotations.

(* ---- the copy equals the source.
   FULL STATEMENT (refuted, C13_copy_equal_refuted): as below without the hypothesis [pos_key_own].
   PARTIAL (proved): kernel state (entities, definitions, deletion flags, modes, incidences), equal-valued
   persistent properties in the same order, nothing else carried over, all positions of the source copied; the source
   itself is unchanged.  [pos_key_own]: a persistent property of the source with the key of the position property
   (vertex, Vec3d, "ovm:position") is its position property. *)
Theorem C13_copy_equal_partial :
  forall w src rs w' m', reachable w -> get_mesh w src = Some rs -> pos_key_own w rs ->
  rstep w (CopyMesh src) = (w', RMesh m') ->
  get_mesh w' src = Some rs /\
  exists r', get_mesh w' m' = Some r' /\
    m_k r' = m_k rs /\
    map (oview w') (m_pers r') = map (oview w) (m_pers rs) /\
    (forall s, In s (m_tracked r') -> In s (m_pers r') \/ m_pos r' = Some s) /\
    exists p sp a b, m_pos r' = Some p /\ m_pos rs = Some sp /\ get_st w' p = Some a /\ get_st w sp = Some b /\
                     firstn (length (s_data b)) (s_data a) = s_data b /\ s_owner a = Some m'.
Proof. intros w src rs w' m' R. exact (copy_equal w src rs w' m' (reachable_inv w R)). Qed.
Print Assumptions C13_copy_equal_partial.

(* witness: add 2 vertices; clear() (anonymises the position property); add 2 vertices; create a persistent Vec3d vertex
   property named "ovm:position" with default 9; copy: the copy's persistent property holds the positions (0 0), not (9 9) *)
Definition f6_hist : list rop :=
  [NewMesh; Kernel 0 (AddVertices 2); Kernel 0 (Clear true); Kernel 0 (AddVertices 2); CreatePersistent 0 KV TVec 1 9%Z].

Theorem C13_copy_equal_refuted :
  exists w' rs r', all_ok empty_world f6_hist /\
    rstep (rrun f6_hist) (CopyMesh 0) = (w', RMesh 1) /\
    get_mesh (rrun f6_hist) 0 = Some rs /\ get_mesh w' 1 = Some r' /\
    map (oview w') (m_pers r') <> map (oview (rrun f6_hist)) (m_pers rs).
Proof.
  do 3 eexists. split; [vm_compute; tauto|]. split; [vm_compute; reflexivity|].
  split; [vm_compute; reflexivity|]. split; [vm_compute; reflexivity|]. vm_compute. discriminate.
Qed.
Print Assumptions C13_copy_equal_refuted.

(* ---- two meshes never reach a common storage (tracker set, persistent set, position handle), after ANY history: in
   particular right after a copy / assignment and after every later operation on either side *)
Theorem C13_copy_disjoint :
  forall w m1 m2 r1 r2 s, reachable w -> m1 <> m2 -> get_mesh w m1 = Some r1 -> get_mesh w m2 = Some r2 ->
  In s (reach r1) -> In s (reach r2) -> False.
Proof. intros w m1 m2 r1 r2 s R. exact (reach_disjoint w m1 m2 r1 r2 s (reachable_inv w R)). Qed.
Print Assumptions C13_copy_disjoint.

(* ---- frame: an operation on mesh m1 (or through a handle attached to m1, or creating mesh m1) changes no other mesh
   record and no storage attached to another mesh.  For a copy construction m1 is the NEW mesh: the source is untouched;
   for an assignment m1 is the target. *)
Theorem C13_frame :
  forall w o m1, reachable w -> op_ok w o -> (forall t, op_target w o = Some t -> t = m1) ->
  let w' := fst (rstep w o) in
  (forall m2, m2 <> m1 -> get_mesh w' m2 = get_mesh w m2) /\
  (forall s st m2, m2 <> m1 -> get_st w s = Some st -> s_owner st = Some m2 -> get_st w' s = Some st).
Proof. intros w o m1 R Hok Ht. exact (frame_rstep w o m1 (reachable_inv w R) Hok Ht). Qed.
Print Assumptions C13_frame.

(* ---- handles obtained earlier from the assigned-to mesh stay valid: still tracked by it, sized to the new entity
   counts, no longer shared / persistent, not findable by any name *)
Theorem C13_old_handles_safe :
  forall w dst src rs w' h s st, reachable w -> dst <> src -> get_mesh w src = Some rs ->
  rstep w (Assign dst src) = (w', ROk) ->
  get_h w h = Some s -> get_st w s = Some st -> s_owner st = Some dst ->
  get_h w' h = Some s /\
  exists st' r', get_st w' s = Some st' /\ get_mesh w' dst = Some r' /\ In s (m_tracked r') /\
    s_owner st' = Some dst /\ s_shared st' = false /\ s_pers st' = false /\
    s_name st' = s_name st /\ s_type st' = s_type st /\ s_kind st' = s_kind st /\
    length (s_data st') = count (s_kind st) (m_k rs) /\
    (forall k t n, find_prop w' dst k t n <> Some s).
Proof. intros w dst src rs w' h s st R. exact (old_handles_safe w dst src rs w' h s st (reachable_inv w R)). Qed.
Print Assumptions C13_old_handles_safe.

(* ---- self-assignment is the identity *)
Theorem C13_self_assignment_identity :
  forall w m w', rstep w (Assign m m) = (w', ROk) -> w' = w.
Proof. exact self_assign_identity. Qed.
Print Assumptions C13_self_assignment_identity.

(* ---- every world reached through copies and assignments (chains included) satisfies the registry invariant again, so
   all of the above applies to the copies of copies *)
Theorem C13_copies_preserve_invariant :
  forall w o, reachable w -> op_ok w o -> inv (fst (rstep w o)).
Proof. intros w o R. exact (inv_rstep w o (reachable_inv w R)). Qed.
Print Assumptions C13_copies_preserve_invariant.

(* ---- non-vacuity: a mesh with a persistent, a shared and a private property and held handles is copied and assigned *)
Definition ex_src : list rop :=
  [NewMesh; Kernel 0 AddVertex; Kernel 0 AddVertex;
   CreatePersistent 0 KV TInt 2 7%Z; HSet 0 1 70%Z; Request 0 KV TInt 3 1%Z; CreatePrivate 0 KE TInt 0 9%Z;
   PosHandle 0; HSet 3 0 5%Z].

Example ex_src_reachable : reachable (rrun ex_src).
Proof. apply reachable_run. vm_compute. tauto. Qed.

Example ex_copy :
  exists w', rstep (rrun ex_src) (CopyMesh 0) = (w', RMesh 1) /\
             (exists r, get_mesh (rrun ex_src) 0 = Some r /\ pos_key_own (rrun ex_src) r /\ length (m_pers r) = 1) /\
             (exists r', get_mesh w' 1 = Some r' /\ length (m_tracked r') = 2).
Proof.
  eexists. split; [vm_compute; reflexivity|]. split.
  - eexists. split; [vm_compute; reflexivity|]. split; [|reflexivity].
    intros x st Hin. vm_compute in Hin. destruct Hin as [<-|[]]. vm_compute. intros E; inversion E; subst. discriminate.
  - eexists. split; vm_compute; reflexivity.
Qed.

Definition ex_assign_hist : list rop :=
  ex_src ++ [NewMesh; Kernel 1 AddVertex; Request 1 KV TInt 2 4%Z; CreatePersistent 1 KV TBool 5 1%Z].

Example ex_assign :
  exists w', rstep (rrun ex_assign_hist) (Assign 1 0) = (w', ROk) /\
             (exists st, get_h (rrun ex_assign_hist) 4 = Some 5 /\ get_st (rrun ex_assign_hist) 5 = Some st /\
                         s_owner st = Some 1 /\ s_shared st = true /\ length (s_data st) = 1) /\
             (exists st', get_st w' 5 = Some st' /\ s_shared st' = false /\ length (s_data st') = 2).
Proof.
  eexists. split; [vm_compute; reflexivity|]. split; eexists; vm_compute; repeat split.
Qed.
