(* Props/Properties_C19_float.v -- C19, the floating-point clause ("... exactly on integer vectors, WITHIN ROUNDING
   ON FLOATING POINT"): theorems about the IEEE-754 binary64 model Geo/FloatModel.v (VectorT<double,DIM> and
   GeometryKernel<Vec3d> as the algorithms of Geo/VecModel.v / Geo/GeoModel.v instantiated with Flocq's b64_
   operations, round to nearest even, in the evaluation order of Vector11T.hh / GeometryKernel.hh).
   Statements only; proofs are `exact <lemma>` of Geo/FloatProofs.v, FloatError.v, FloatExact.v, FloatGeo.v,
   FloatExamples.v.  The tie to the compiled library is the bit-exact correspondence of lib/checks_geo.py
   (float_leg): the same model, evaluated inside Coq by vm_compute, against run_geo's bit patterns.

   Vocabulary (Geo/FloatProofs.v, Geo/FloatError.v):
     D2R x      the real value of the double x (0 for infinities and NaN)      fin64 x   x is finite
     rnd64 r    r rounded to nearest-even binary64 (Flocq: round radix2 (FLT_exp (-1074) 53) ZnearestE r)
     ovf64      2^1024;  u64 = 2^-53 (unit roundoff);  eta64 = 2^-1075;  tiny64 = 2^-1022 (smallest normal)
     E64 n      (1+u)^n - 1  (<= gamma64 n = n u / (1 - n u));   K64 n = (u + E64 (n+1)) / (1 - E64 (n+1))
     Rsum l     the exact real sum;  pairsR x y = [x_i * y_i];  squaresR x = [x_i^2];  norm2R x = sum x_i^2
     no_underflow l   every listed exact product is 0 or at least 2^-1022 in magnitude
     isint x z  x is finite and its value is the integer z
   "No overflow" is stated as finiteness of the RESULT: a finite result of + - * has finite operands
   (C19f_finite_result_has_finite_operands), so every intermediate value was finite.
   Axioms: the theorems about real numbers depend on the axioms of Coq's standard library of classical reals
   (ClassicalDedekindReals.sig_forall_dec, sig_not_dec, FunctionalExtensionality.functional_extensionality_dep,
   and, through Flocq's rounding theory, Classical_Prop.classic); Print Assumptions names them under each theorem. *)
From Coq Require Import List ZArith Reals Bool.
From Flocq Require Import Core.Core IEEE754.BinarySingleNaN IEEE754.Binary IEEE754.Bits.
From OVM Require Import Kernel.State Geo.VecModel Geo.GeoModel Geo.FloatModel Geo.FloatProofs Geo.FloatError Geo.FloatExact
  Geo.FloatGeo Geo.FloatExamples.
Import ListNotations.
Local Open Scope R_scope.

(* ================================================================== (a) one operation = one correct rounding *)

(* + - * / on finite operands: the result is finite exactly when the rounded exact result is below 2^1024, and is
   then the correctly rounded exact result; sqrt is correctly rounded and never overflows *)
Theorem C19f_scalar_ops_correctly_rounded : forall x y : binary64, fin64 x -> fin64 y ->
  ((Rabs (rnd64 (D2R x + D2R y)) < ovf64 <-> fin64 (sadd Dops x y)) /\
   (fin64 (sadd Dops x y) -> D2R (sadd Dops x y) = rnd64 (D2R x + D2R y))) /\
  ((Rabs (rnd64 (D2R x - D2R y)) < ovf64 <-> fin64 (ssub Dops x y)) /\
   (fin64 (ssub Dops x y) -> D2R (ssub Dops x y) = rnd64 (D2R x - D2R y))) /\
  ((Rabs (rnd64 (D2R x * D2R y)) < ovf64 <-> fin64 (smul Dops x y)) /\
   (fin64 (smul Dops x y) -> D2R (smul Dops x y) = rnd64 (D2R x * D2R y))) /\
  (D2R y <> 0 ->
   (Rabs (rnd64 (D2R x / D2R y)) < ovf64 <-> fin64 (sdiv Dops x y)) /\
   (fin64 (sdiv Dops x y) -> D2R (sdiv Dops x y) = rnd64 (D2R x / D2R y))) /\
  D2R (d_sqrt x) = rnd64 (sqrt (D2R x)).
Proof.
  intros x y Fx Fy.
  exact (conj (d_add_correct x y Fx Fy) (conj (d_sub_correct x y Fx Fy) (conj (d_mul_correct x y Fx Fy)
        (conj (fun N => d_div_correct x y Fx N) (d_sqrt_correct x))))).
Qed.
Print Assumptions C19f_scalar_ops_correctly_rounded.

(* the vector operators, component by component (any dimension) *)
Theorem C19f_componentwise_correctly_rounded : forall (dflt : binary64) (a b : list binary64) (s : binary64) (i : nat),
  (i < length a)%nat -> length a = length b -> fin64 (nth i a dflt) -> fin64 (nth i b dflt) -> fin64 s ->
  let ai := D2R (nth i a dflt) in let bi := D2R (nth i b dflt) in
  (fin64 (nth i (vadd Dops a b) dflt) -> D2R (nth i (vadd Dops a b) dflt) = rnd64 (ai + bi)) /\
  (fin64 (nth i (vsub Dops a b) dflt) -> D2R (nth i (vsub Dops a b) dflt) = rnd64 (ai - bi)) /\
  (fin64 (nth i (vmul Dops a b) dflt) -> D2R (nth i (vmul Dops a b) dflt) = rnd64 (ai * bi)) /\
  (bi <> 0 -> fin64 (nth i (vdiv Dops a b) dflt) -> D2R (nth i (vdiv Dops a b) dflt) = rnd64 (ai / bi)) /\
  (fin64 (nth i (vscale Dops a s) dflt) -> D2R (nth i (vscale Dops a s) dflt) = rnd64 (ai * D2R s)) /\
  (D2R s <> 0 -> fin64 (nth i (vsdiv Dops a s) dflt) -> D2R (nth i (vsdiv Dops a s) dflt) = rnd64 (ai / D2R s)) /\
  (Rabs (rnd64 (ai + bi)) < ovf64 <-> fin64 (nth i (vadd Dops a b) dflt)) /\
  (Rabs (rnd64 (ai - bi)) < ovf64 <-> fin64 (nth i (vsub Dops a b) dflt)) /\
  (Rabs (rnd64 (ai * bi)) < ovf64 <-> fin64 (nth i (vmul Dops a b) dflt)).
Proof.
  intros dflt a b s i Hi L Fa Fb Fs. cbv zeta.
  pose proof (dv_add dflt a b i Hi L Fa Fb) as A. pose proof (dv_sub dflt a b i Hi L Fa Fb) as S.
  pose proof (dv_mul dflt a b i Hi L Fa Fb) as M. cbv zeta in A, S, M.
  repeat split; try (apply A); try (apply S); try (apply M).
  - intros N. exact (proj2 (dv_div dflt a b i Hi L Fa N)).
  - exact (proj2 (dv_scale dflt a i Hi s Fa Fs)).
  - intros N. exact (proj2 (dv_sdiv dflt a i Hi s Fa N)).
Qed.
Print Assumptions C19f_componentwise_correctly_rounded.

(* negation, abs, comparisons, min / max: exact *)
Theorem C19f_exact_operations : forall x y : binary64,
  (D2R (sneg Dops x) = - D2R x /\ (fin64 (sneg Dops x) <-> fin64 x)) /\
  (D2R (sabs Dops x) = Rabs (D2R x) /\ (fin64 (sabs Dops x) <-> fin64 x)) /\
  (fin64 x -> fin64 y ->
     (sltb Dops x y = true <-> D2R x < D2R y) /\ (seqb Dops x y = true <-> D2R x = D2R y) /\
     D2R (smin Dops x y) = Rmin (D2R x) (D2R y) /\ D2R (smax Dops x y) = Rmax (D2R x) (D2R y) /\
     (smin Dops x y = x \/ smin Dops x y = y) /\ (smax Dops x y = x \/ smax Dops x y = y)).
Proof.
  intros x y. split; [apply d_neg_correct|]. split; [apply d_abs_correct|]. intros Fx Fy.
  destruct (d_min_correct x y Fx Fy) as (A & _ & B). destruct (d_max_correct x y Fx Fy) as (C & _ & D).
  exact (conj (d_ltb_correct x y Fx Fy) (conj (d_eqb_correct x y Fx Fy) (conj A (conj C (conj B D))))).
Qed.
Print Assumptions C19f_exact_operations.

(* NaN: every comparison with a NaN is false (so operator== is false, operator!= true, operator< looks at the
   next component only if BOTH x<y and y<x are false - Geo/VecModel.vlt - i.e. a NaN component is skipped like a
   tie), and std::min / std::max return their FIRST argument *)
Theorem C19f_nan_comparisons : forall x y : binary64, is_nan 53 1024 x = true \/ is_nan 53 1024 y = true ->
  sltb Dops x y = false /\ sltb Dops y x = false /\ seqb Dops x y = false /\ seqb Dops y x = false /\
  smin Dops x y = x /\ smax Dops x y = x.
Proof.
  intros x y H. destruct (d_compare_nan x y H) as (A & B & C & D). destruct (d_minmax_nan x y H) as (E & F).
  exact (conj A (conj B (conj C (conj D (conj E F))))).
Qed.
Print Assumptions C19f_nan_comparisons.

(* component-wise min / max (minimize, maximize, min, max) *)
Theorem C19f_minimize_maximize_exact : forall (dflt : binary64) (a b : list binary64) (i : nat),
  (i < length a)%nat -> length a = length b -> fin64 (nth i a dflt) -> fin64 (nth i b dflt) ->
  D2R (nth i (minimize Dops a b) dflt) = Rmin (D2R (nth i a dflt)) (D2R (nth i b dflt)) /\
  D2R (nth i (maximize Dops a b) dflt) = Rmax (D2R (nth i a dflt)) (D2R (nth i b dflt)).
Proof. exact dv_minmax. Qed.
Print Assumptions C19f_minimize_maximize_exact.

(* cross product: three roundings per component, in the order of operator% *)
Theorem C19f_cross_component_roundings : forall (dflt : binary64) (a b : list binary64) (i : nat),
  length a = 3%nat -> length b = 3%nat -> (i < 3)%nat ->
  let j := ((i + 1) mod 3)%nat in let k := ((i + 2) mod 3)%nat in
  fin64 (nth i (cross Dops a b) dflt) ->
  D2R (nth i (cross Dops a b) dflt) =
  rnd64 (rnd64 (D2R (nth j a dflt) * D2R (nth k b dflt)) - rnd64 (D2R (nth k a dflt) * D2R (nth j b dflt))).
Proof. exact dv_cross. Qed.
Print Assumptions C19f_cross_component_roundings.

(* "no overflow" = the result is finite: infinities and NaN are absorbing *)
Theorem C19f_finite_result_has_finite_operands : forall x y : binary64,
  (fin64 (sadd Dops x y) -> fin64 x /\ fin64 y) /\ (fin64 (ssub Dops x y) -> fin64 x /\ fin64 y) /\
  (fin64 (smul Dops x y) -> fin64 x /\ fin64 y) /\ (fin64 (sdiv Dops x y) -> fin64 x) /\ (fin64 (d_sqrt x) -> fin64 x).
Proof.
  intros x y. exact (conj (fin_add_inv x y) (conj (fin_sub_inv x y) (conj (fin_mul_inv x y) (conj (fin_div_inv x y) (fin_sqrt_inv x))))).
Qed.
Print Assumptions C19f_finite_result_has_finite_operands.

(* ================================================================== (b) dot product and squared norm *)

(* operator| (left-to-right accumulation starting from the first product), any dimension n >= 1, result finite:
   |fl(x.y) - x.y| <= ((1+u)^n - 1) sum|x_i y_i| + n (1+u)^(n-1) 2^-1075 *)
Theorem C19f_dot_forward_error : forall x y : list binary64, length x = length y -> x <> [] -> fin64 (dot Dops x y) ->
  Rabs (D2R (dot Dops x y) - Rsum (pairsR x y)) <=
    E64 (length x) * Rsum (map Rabs (pairsR x y)) + INR (length x) * (1 + u64) ^ (length x - 1) * eta64.
Proof. exact dot_error. Qed.
Print Assumptions C19f_dot_forward_error.

(* no product underflows: the standard bound gamma_n * sum|x_i y_i|, gamma_n = n u / (1 - n u) *)
Theorem C19f_dot_forward_error_gamma : forall x y : list binary64, length x = length y -> x <> [] -> fin64 (dot Dops x y) ->
  no_underflow (pairsR x y) -> INR (length x) * u64 < 1 ->
  Rabs (D2R (dot Dops x y) - Rsum (pairsR x y)) <= E64 (length x) * Rsum (map Rabs (pairsR x y)) /\
  Rabs (D2R (dot Dops x y) - Rsum (pairsR x y)) <= gamma64 (length x) * Rsum (map Rabs (pairsR x y)).
Proof.
  intros x y L N F U G. split; [apply dot_error_no_underflow | apply dot_error_gamma]; assumption.
Qed.
Print Assumptions C19f_dot_forward_error_gamma.

Theorem C19f_sqrnorm_forward_error : forall x : list binary64, x <> [] -> fin64 (sqrnorm Dops x) ->
  Rabs (D2R (sqrnorm Dops x) - norm2R x) <= E64 (length x) * norm2R x + INR (length x) * (1 + u64) ^ (length x - 1) * eta64 /\
  (no_underflow (squaresR x) -> Rabs (D2R (sqrnorm Dops x) - norm2R x) <= E64 (length x) * norm2R x).
Proof.
  intros x N F. split; [exact (sqrnorm_error x N F) | exact (sqrnorm_error_no_underflow x N F)].
Qed.
Print Assumptions C19f_sqrnorm_forward_error.

Theorem C19f_gamma_bounds : forall n : nat,
  (INR n * u64 < 1 -> E64 n <= gamma64 n) /\ ((n <= 5)%nat -> E64 n <= (INR n + / 10) * u64 /\ E64 n < 1).
Proof.
  intros n. split; [apply E64_le_gamma|]. intros H. split; [|apply E64_lt_1; exact H].
  apply E_small; [apply Rlt_le, u64_pos | apply u64_small | exact H].
Qed.
Print Assumptions C19f_gamma_bounds.

(* l1_norm() as coded (known finding D12: the plain sum v[0] + v[1] + ..., no std::abs): n - 1 roundings *)
Theorem C19f_l1_norm_plain_sum_error : forall x : list binary64, x <> [] -> fin64 (l1_norm Dops x) ->
  Rabs (D2R (l1_norm Dops x) - Rsum (map D2R x)) <= E64 (length x - 1) * Rsum (map Rabs (map D2R x)).
Proof. exact l1_norm_error. Qed.
Print Assumptions C19f_l1_norm_plain_sum_error.

(* ================================================================== (c) norm and normalized *)

(* norm() = sqrt(sqrnorm()): relative error (1+u)^(n+1) - 1  (about (n+1) u) *)
Theorem C19f_norm_relative_error : forall x : list binary64, x <> [] -> fin64 (sqrnorm Dops x) -> no_underflow (squaresR x) ->
  Rabs (D2R (fnorm Dops d_sqrt x) - sqrt (norm2R x)) <= E64 (S (length x)) * sqrt (norm2R x).
Proof. exact norm_error. Qed.
Print Assumptions C19f_norm_relative_error.

(* normalized() / normalize(): component i within K64 n * |x_i| / ||x|| (+ 2^-1075 if the quotient underflows),
   and K64 n <= (n + 3) u for n = 2, 3, 4: k = DIM + 3 *)
Theorem C19f_normalized_component_error : forall (dflt : binary64) (x : list binary64) (i : nat),
  x <> [] -> (i < length x)%nat -> fin64 (sqrnorm Dops x) -> no_underflow (squaresR x) -> 0 < norm2R x -> E64 (S (length x)) < 1 ->
  let q := D2R (nth i x dflt) / sqrt (norm2R x) in
  let r := nth i (fnormalized Dops d_sqrt x) dflt in
  fin64 (nth i x dflt) -> fin64 r ->
  Rabs (D2R r - q) <= K64 (length x) * Rabs q + eta64 /\
  ((2 <= length x <= 4)%nat -> Rabs (D2R r - q) <= (INR (length x) + 3) * u64 * Rabs q + eta64).
Proof.
  intros dflt x i N Hi F U P E. cbv zeta. intros Fx Fr.
  pose proof (normalized_error dflt x i N Hi F U P E Fx Fr) as B. cbv zeta in B. split; [exact B|].
  intros Hn. eapply Rle_trans; [exact B|]. apply Rplus_le_compat_r. apply Rmult_le_compat_r; [apply Rabs_pos | apply K64_small; exact Hn].
Qed.
Print Assumptions C19f_normalized_component_error.

(* ================================================================== (d) integer-valued doubles are exact *)

(* doubles whose values are integers: + and - (|.| < 2^52), * (|.| <= 2^26), negation, cross (|.| < 2^26) give
   exactly the results of the Z model of Props/Properties_C19.v (value equality; the sign of a zero is not fixed) *)
Theorem C19f_integer_vectors_exact : forall (xs ys : list binary64) (a b : list Z),
  Forall2 isint xs a -> Forall2 isint ys b ->
  (small (2 ^ 52 - 1) a -> small (2 ^ 52 - 1) b -> Forall2 isint (vadd Dops xs ys) (vadd Zops a b) /\ Forall2 isint (vsub Dops xs ys) (vsub Zops a b)) /\
  (small (2 ^ 26) a -> small (2 ^ 26) b -> Forall2 isint (vmul Dops xs ys) (vmul Zops a b)) /\
  Forall2 isint (vneg Dops xs) (vneg Zops a) /\
  (small (2 ^ 26 - 1) a -> small (2 ^ 26 - 1) b -> length a = 3%nat -> length b = 3%nat -> Forall2 isint (cross Dops xs ys) (cross Zops a b)).
Proof.
  intros xs ys a b Hx Hy. split; [intros Sa Sb; split; [apply exact_vadd | apply exact_vsub]; assumption|].
  split; [intros Sa Sb; apply exact_vmul; assumption|]. split; [apply exact_vneg; assumption|].
  intros Sa Sb La Lb. apply exact_cross; assumption.
Qed.
Print Assumptions C19f_integer_vectors_exact.

(* dot product of n components bounded by B with n * B^2 < 2^53 (DIM = 2: B = 2^26 - 1; DIM = 3, 4: B = 2^25) *)
Theorem C19f_integer_dot_exact : forall (B : Z) (xs ys : list binary64) (a b : list Z), (0 <= B)%Z ->
  Forall2 isint xs a -> Forall2 isint ys b -> small B a -> small B b -> length a = length b ->
  (Z.of_nat (length a) * (B * B) < 2 ^ 53)%Z ->
  isint (dot Dops xs ys) (dot Zops a b).
Proof. exact exact_dot. Qed.
Print Assumptions C19f_integer_dot_exact.

(* int -> double conversion is exact, so `map d_of_Z` produces such vectors *)
Theorem C19f_int_to_double_exact : forall zs : list Z, small (2 ^ 53 - 1) zs -> Forall2 isint (map d_of_Z zs) zs.
Proof. exact isint_map_of_Z. Qed.
Print Assumptions C19f_int_to_double_exact.

(* ================================================================== (e) barycenters *)

(* barycenter(FaceHandle) / barycenter(CellHandle): p = 0; p += vertex(v) ...; p /= valence.  Coordinate i of the
   result is within ((1+u)^n - 1) * mean|c_v| + 2^-1075 of the exact mean of the n visited coordinates *)
Theorem C19f_barycenter_error : forall (pos : nat -> list binary64), (forall v, length (pos v) = 3%nat) ->
  forall (dflt : binary64) (verts : list nat) (i : nat), (i < 3)%nat -> verts <> [] -> (Z.of_nat (length verts) < 2 ^ 53)%Z ->
  let r := nth i (g_bary_of Dops 3 pos verts) dflt in
  let c := map (fun v => D2R (nth i (pos v) dflt)) verts in
  let n := INR (length verts) in
  fin64 r -> Rabs (D2R r - Rsum c / n) <= E64 (length verts) * (Rsum (map Rabs c) / n) + eta64.
Proof. exact bary_error. Qed.
Print Assumptions C19f_barycenter_error.

Theorem C19f_face_and_cell_barycenter_error : forall (pos : nat -> list binary64), (forall v, length (pos v) = 3%nat) ->
  forall (dflt : binary64) (s : mesh) (f c i : nat), (i < 3)%nat ->
  (let vs := g_face_vertices s f in vs <> [] -> (Z.of_nat (length vs) < 2 ^ 53)%Z ->
   let r := nth i (g_bary_face Dops 3 pos s f) dflt in
   let cs := map (fun v => D2R (nth i (pos v) dflt)) vs in
   fin64 r -> Rabs (D2R r - Rsum cs / INR (length vs)) <= E64 (length vs) * (Rsum (map Rabs cs) / INR (length vs)) + eta64) /\
  (let vs := g_cell_vertices s c in vs <> [] -> (Z.of_nat (length vs) < 2 ^ 53)%Z ->
   let r := nth i (g_bary_cell Dops 3 pos s c) dflt in
   let cs := map (fun v => D2R (nth i (pos v) dflt)) vs in
   fin64 r -> Rabs (D2R r - Rsum cs / INR (length vs)) <= E64 (length vs) * (Rsum (map Rabs cs) / INR (length vs)) + eta64).
Proof.
  intros pos P dflt s f c i Hi. split; cbv zeta; intros N L F.
  - exact (bary_face_error pos P dflt s f i Hi N L F).
  - exact (bary_cell_error pos P dflt s c i Hi N L F).
Qed.
Print Assumptions C19f_face_and_cell_barycenter_error.

(* barycenter(EdgeHandle) = 0.5 * a + 0.5 * b: the correctly rounded midpoint whenever halving is exact *)
Theorem C19f_edge_barycenter_is_rounded_midpoint : forall (pos : nat -> list binary64), (forall v, length (pos v) = 3%nat) ->
  forall (dflt : binary64) (s : mesh) (e i : nat), (i < 3)%nat ->
  let a := nth i (pos (he_from s (2 * e))) dflt in
  let b := nth i (pos (he_to s (2 * e))) dflt in
  let r := nth i (g_bary_edge Dops d_half pos s e) dflt in
  fin64 r -> format64 (D2R a / 2) -> format64 (D2R b / 2) -> D2R r = rnd64 ((D2R a + D2R b) / 2).
Proof. exact bary_edge_midpoint. Qed.
Print Assumptions C19f_edge_barycenter_is_rounded_midpoint.

(* ================================================================== examples: non-vacuity and tightness *)

(* the hypotheses of (b) and (c) hold for (1,2,3) and (4,5,6); the model computes 32 and the correctly rounded sqrt(14) *)
Example C19f_ex_hypotheses_satisfiable :
  (length ex_a = length ex_b /\ ex_a <> [] /\ fin64 (dot Dops ex_a ex_b) /\ no_underflow (pairsR ex_a ex_b) /\
   D2R (dot Dops ex_a ex_b) = 32 /\ bits_of_d (dot Dops ex_a ex_b) = 0x4040000000000000%Z) /\
  (fin64 (sqrnorm Dops ex_a) /\ no_underflow (squaresR ex_a) /\ 0 < norm2R ex_a /\ E64 (S (length ex_a)) < 1 /\
   bits_of_d (fnorm Dops d_sqrt ex_a) = 0x400deeea11683f49%Z).
Proof. exact (conj ex_dot_hypotheses ex_norm_hypotheses). Qed.

(* one rounding: 1 + 2^-53 (1 - 2^-52) gives 1; the error is within u |exact| and reaches (1 - 2^-51) of it
   (the check of lib/checks_geo.py measured 0.9996 of this bound on its generated inputs) *)
Example C19f_ex_single_rounding_bound_nearly_attained :
  let r := b64_plus mode_NE ex_one ex_small in
  let exact := D2R ex_one + D2R ex_small in
  fin64 ex_one /\ fin64 ex_small /\ fin64 r /\ bits_of_d r = 0x3ff0000000000000%Z /\
  Rabs (D2R r - exact) <= u64 * Rabs exact /\
  (1 - / 2251799813685248) * (u64 * Rabs exact) <= Rabs (D2R r - exact).
Proof. exact ex_single_rounding_tight. Qed.

(* dot product, DIM = 2: a pair of vectors reaching 94% of ((1+u)^2 - 1) sum|x_i y_i| *)
Example C19f_ex_dot_bound_nearly_attained :
  fin64 (dot Dops ex_x ex_y) /\ no_underflow (pairsR ex_x ex_y) /\
  bits_of_d (dot Dops ex_x ex_y) = 0x40103e5c5339f976%Z /\
  94 / 100 * (E64 2 * Rsum (map Rabs (pairsR ex_x ex_y))) <= Rabs (D2R (dot Dops ex_x ex_y) - Rsum (pairsR ex_x ex_y)).
Proof. exact ex_dot_bound_nearly_attained. Qed.

(* integer exactness needs n * B^2 < 2^53: with all components 2^26 - 1 the DIM = 3 dot product is not the integer one *)
Example C19f_ex_integer_dot_bound_needed :
  let v := map d_of_Z [ex_c; ex_c; ex_c] in
  Forall2 isint v [ex_c; ex_c; ex_c] /\ ~ isint (dot Dops v v) (dot Zops [ex_c; ex_c; ex_c] [ex_c; ex_c; ex_c]).
Proof. exact ex_dot_dim3_below_2_26_not_exact. Qed.
