(* Props/Properties_C18.v -- C18: OVMB detects truncation, framing corruption and stream failures.
   Statements only; every proof is `exact <lemma of IO/OvmbProofs.v>`.  `decode_impl` is the model of BinaryFileReader
   (IO/OvmbReaderModel.v), `encode` of BinaryFileWriter (IO/OvmbWriterModel.v); their correspondence with the library is
   checked by lib/checks_ovmb.py on every run. *)
From Coq Require Import ZArith List Bool.
From OVM Require Import Base.Int32 Gen.OvmbFormat IO.Bytes IO.OvmbWriterModel IO.OvmbReaderModel IO.OvmbProofs IO.Ovmb2Small
  IO.Ovmb2Examples.
Import ListNotations.
Local Open Scope Z_scope.

(* Every strict prefix of the writer's output is rejected (any reader configuration, any mesh class).
   `small b` = b is a byte string (every element in [0,256)) shorter than 2^62 bytes. *)
Theorem C18_prefix : forall o dim topo m n r,
  small (encode dim topo m) -> (n < length (encode dim topo m))%nat ->
  decode_impl o (firstn n (encode dim topo m)) <> ROk r.
Proof. exact prefix_rejected. Qed.
Print Assumptions C18_prefix.

(* The assumption `small` follows from the writer's contract and explicit bounds on the mesh alone (`bounded`, IO/Ovmb2Small.v:
   dimension and topology type are bytes, fewer than 2^57 handles in all faces resp. all cells, property names / type names /
   defaults / values below 2^58 bytes together): the writer's output is a byte string shorter than 2^62 bytes ... *)
Theorem C18_encode_small : forall dim topo m, wf_file dim m -> bounded dim topo m -> small (encode dim topo m).
Proof. exact encode_small. Qed.
Print Assumptions C18_encode_small.

(* ... so every strict prefix of the writer's output for a well-formed, bounded mesh is rejected, with no assumption about the
   encoding itself. *)
Theorem C18_prefix' : forall o dim topo m n r,
  wf_file dim m -> bounded dim topo m -> (n < length (encode dim topo m))%nat ->
  decode_impl o (firstn n (encode dim topo m)) <> ROk r.
Proof. exact prefix_rejected'. Qed.
Print Assumptions C18_prefix'.

Example C18_prefix'_nonvacuous : wf_file 3 ex_rich /\ bounded 3 0 ex_rich /\ wf_file 3 ex_tet /\ bounded 3 1 ex_tet.
Proof. split; [apply ex_rich_hyps|]. split; [apply ex_rich_bounded|]. split; [exact ex_tet_wf|apply ex_rich_bounded]. Qed.

(* A stream that reports its full length but delivers only the first k < length bytes never gives Ok. *)
Theorem C18_stream : forall o k bytes m,
  bytes_ok bytes -> 0 <= k < len bytes -> decode_impl_failing o k bytes <> ROk m.
Proof. exact stream_failure_rejected. Qed.
Print Assumptions C18_stream.

(* Framing, file level (magic, header version, reserved bytes, topology type, vertex dimension, chunk lengths, compression
   field, padding bytes, exactly one EOF chunk and nothing after it): whatever reads Ok has all of it. *)
Theorem C18_framing_file : forall o bytes m,
  bytes_ok bytes -> decode_impl o bytes = ROk m ->
  48 <= len bytes /\ firstn 8 bytes = ovmb_magic /\ nth 9 bytes 0 = 1 /\
  forallb (fun c => c =? 0) (firstn 4 (skipn 12 bytes)) = true /\
  is_valid_TopoType (nth 11 bytes 0) = true /\ nth 10 bytes 0 = o_dim o /\
  chunk_file (skipn 48 bytes).
Proof. exact ok_implies_framing. Qed.
Print Assumptions C18_framing_file.

(* Framing, span level: a VERT / TOPO span is accepted only if it starts where the previous span of its kind ended and does
   not exceed the declared total. *)
Theorem C18_framing_span : forall total read first count,
  0 <= read <= total -> total < two64 ->
  validate_span total read first count = Ret tt -> first = read /\ count <= total - read.
Proof. exact validate_span_ok. Qed.
Print Assumptions C18_framing_span.

(* Framing, handle level: a stored handle + handle_offset (uint64 arithmetic) is accepted only below the number of
   sub-entities read so far. *)
Theorem C18_framing_handle : forall off lim x v,
  mk_handle off lim x = Ret v -> wrap64 (x + off) < lim /\ v = from_unsigned (wrap64 (x + off)).
Proof. exact mk_handle_ok. Qed.
Print Assumptions C18_framing_handle.

(* Write side: a mesh with pending deletions, or a stream that accepts fewer bytes than the file has, never yields Ok. *)
Theorem C18_write : forall pending dim topo m k,
  pending = true \/ k < len (encode dim topo m) -> fst (write_result pending dim topo m k) <> WOk.
Proof. exact write_failure_reported. Qed.
Print Assumptions C18_write.

(* non-vacuity: a concrete well-formed mesh whose encoding is `small`, reads back, and whose 631 strict prefixes all fail *)
Example C18_nonvacuous :
  wf_file 3 ex_tet /\ small (encode 3 1 ex_tet) /\ decode_impl ex_opts (encode 3 1 ex_tet) = ROk ex_tet /\
  forallb (fun n => match decode_impl ex_opts (firstn n (encode 3 1 ex_tet)) with ROk _ => false | _ => true end)
          (seq 0 (length (encode 3 1 ex_tet))) = true.
Proof. split; [exact ex_tet_wf|]. split; [exact ex_tet_small|]. split; [exact ex_tet_roundtrip|]. vm_compute. reflexivity. Qed.
