(* Props/Properties_C02.v -- C02: deletion removes exactly the entity's upward closure; survivors are unchanged. *)
From Coq Require Import ZArith List Arith Bool Lia.
From OVM Require Import Base.ListX Kernel.State Kernel.Ops Kernel.SwapInvol Kernel.Sizes Kernel.Recompute Kernel.Closure Kernel.DeferredDelete Kernel.DeleteEffects Kernel.DeleteDefs.
Import ListNotations.

(* The brute-force upward closure over the STORED DEFINITIONS of the not-deleted entities:
     edges_at_vertex s v   = live edges with an endpoint v
     faces_at_edges s es   = live faces listing a halfedge of an edge in es
     cells_at_faces s fs   = live cells listing a halfface of a face in fs                     (Kernel/Closure.v) *)

(* the closure gathered through the incidence caches IS that brute-force closure whenever the caches are exact (C01's
   invariant, membership form); with a kind switched off the code scans, i.e. computes the brute-force closure literally.
   Hence the SAME entities are deleted with any subset of incidences enabled (also used by C12). *)
Theorem C02_closure_gathering_is_brute_force : forall s v es fs,
  (vbu_ok s -> v < nv s -> incident_edges_of_vertex s v = edges_at_vertex s v) /\
  (ebu_ok s -> (forall e, In e es -> e < ne s) -> incident_faces_of_edges s es = faces_at_edges s es) /\
  (fbu_ok s -> (forall f, In f fs -> f < nf s) -> incident_cells_of_faces s fs = cells_at_faces s fs).
Proof.
  intros s v es fs. split; [|split].
  - exact (incident_edges_cache_is_scan s v).
  - exact (incident_faces_cache_is_scan s es).
  - exact (incident_cells_cache_is_scan s fs).
Qed.
Print Assumptions C02_closure_gathering_is_brute_force.

(* deferred mode: delete_vertex flags exactly v and its closure; definitions, all other flags, every property value and the
   modes are untouched; the deleted-counters advance by exactly the number of newly flagged entities *)
Theorem C02_deferred_delete_vertex_flags_exactly_the_closure : forall s v,
  deferred s = true -> sized s -> vbu_ok s -> ebu_ok s -> fbu_ok s -> v < nv s ->
  let es := edges_at_vertex s v in let fs := faces_at_edges s es in let cs := cells_at_faces s fs in
  let s' := delete_vertex v s in
  (nv s' = nv s /\ edges s' = edges s /\ faces s' = faces s /\ cells s' = cells s) /\
  (forall i, i < nv s -> v_deleted s' i = v_deleted s i || (i =? v)) /\
  (forall e, e < ne s -> e_deleted s' e = e_deleted s e || memb e es) /\
  (forall f, f < nf s -> f_deleted s' f = f_deleted s f || memb f fs) /\
  (forall c, c < nc s -> c_deleted s' c = c_deleted s c || memb c cs) /\
  (ndv s' = ndv s + 1 /\ nde s' = nde s + length es /\ ndf s' = ndf s + length fs /\ ndc s' = ndc s + length cs) /\
  (forall k, props k s' = props k s) /\
  (vbu s' = vbu s /\ ebu s' = ebu s /\ fbu s' = fbu s /\ deferred s' = deferred s /\ fast s' = fast s) /\
  needs_gc s' = true.
Proof.
  intros s v D (Lv & Le & Lf & Lc & _) VO EO FO Hv es fs cs s'.
  pose proof (delete_vertex_deferred v s D) as H. cbv zeta in H. fold s' in H.
  assert (E1 : incident_edges_of_vertex s v = es) by (apply incident_edges_cache_is_scan; assumption).
  rewrite E1 in H.
  assert (E2 : incident_faces_of_edges s es = fs).
  { apply incident_faces_cache_is_scan; [assumption|]. intros e He. apply edges_at_vertex_live in He. tauto. }
  rewrite E2 in H.
  assert (E3 : incident_cells_of_faces s fs = cs).
  { apply incident_cells_cache_is_scan; [assumption|]. intros f Hf. apply faces_at_edges_live in Hf. tauto. }
  rewrite E3 in H.
  destruct H as (x1&x2&x3&x4&x5&x6&x7&x8&x9&x10&x11&x12&xf&xp).
  rewrite !rev_length in *. simpl length in x9.
  split; [tauto|]. split; [|split; [|split; [|split]]].
  - intros i Hi. unfold v_deleted. rewrite x5, nth_flag_all by (rewrite Lv; exact Hi).
    unfold memb. simpl. rewrite orb_false_r. reflexivity.
  - intros e He. unfold e_deleted. rewrite x6, nth_flag_all by (rewrite Le; exact He). rewrite memb_rev. reflexivity.
  - intros f Hf. unfold f_deleted. rewrite x7, nth_flag_all by (rewrite Lf; exact Hf). rewrite memb_rev. reflexivity.
  - intros c Hc. unfold c_deleted. rewrite x8, nth_flag_all by (rewrite Lc; exact Hc). rewrite memb_rev. reflexivity.
  - split; [tauto|]. split; [exact xp|]. split; [exact xf|]. unfold needs_gc. rewrite x9.
    replace (0 <? ndv s + 1) with true by (symmetry; apply Nat.ltb_lt; lia). reflexivity.
Qed.
Print Assumptions C02_deferred_delete_vertex_flags_exactly_the_closure.

(* same for the other three kinds, in the relation form of Kernel/DeferredDelete.v:
   dstep s s' dv de df dc  :=  s' is s with exactly dv/de/df/dc additionally flagged, counters advanced by their lengths,
                               definitions, properties and modes equal *)
Theorem C02_deferred_delete_edge_face_cell : forall s x, deferred s = true ->
  (ebu_ok s -> fbu_ok s -> x < ne s ->
     dstep s (delete_edge x s) [] [x] (rev (faces_at_edges s [x])) (rev (cells_at_faces s (faces_at_edges s [x])))) /\
  (fbu_ok s -> x < nf s -> dstep s (delete_face x s) [] [] [x] (rev (cells_at_faces s [x]))) /\
  dstep s (delete_cell x s) [] [] [] [x].
Proof.
  intros s x D. split; [|split].
  - intros EO FO Hx. pose proof (delete_edge_deferred x s D) as H. cbv zeta in H.
    rewrite (incident_faces_cache_is_scan s [x] EO) in H by (intros e [<-|[]]; exact Hx).
    rewrite (incident_cells_cache_is_scan s _ FO) in H by (intros f Hf; apply faces_at_edges_live in Hf; tauto). exact H.
  - intros FO Hx. pose proof (delete_face_deferred x s D) as H.
    rewrite (incident_cells_cache_is_scan s [x] FO) in H by (intros f [<-|[]]; exact Hx). exact H.
  - exact (delete_cell_deferred x s D).
Qed.
Print Assumptions C02_deferred_delete_edge_face_cell.

(* the counters describe exactly the flagged set: preserved by every deferred deletion of a live entity *)
Theorem C02_deferred_delete_vertex_keeps_counters_exact : forall s v,
  deferred s = true -> sized s -> vbu_ok s -> ebu_ok s -> fbu_ok s -> v < nv s -> v_deleted s v = false ->
  counts_ok s -> counts_ok (delete_vertex v s).
Proof.
  intros s v D (Lv & Le & Lf & Lc & _) VO EO FO Hv Hl CO.
  pose proof (delete_vertex_deferred v s D) as H. cbv zeta in H.
  rewrite (incident_edges_cache_is_scan s v VO Hv) in H.
  rewrite (incident_faces_cache_is_scan s _ EO) in H by (intros e He; apply edges_at_vertex_live in He; tauto).
  rewrite (incident_cells_cache_is_scan s _ FO) in H by (intros f Hf; apply faces_at_edges_live in Hf; tauto).
  apply (dstep_counts_ok _ _ _ _ _ _ H CO).
  - repeat constructor. simpl. tauto.
  - apply NoDup_rev, NoDup_edges_at_vertex.
  - apply NoDup_rev, NoDup_faces_at_edges.
  - apply NoDup_rev, NoDup_cells_at_faces.
  - intros x [<-|[]]. rewrite Lv. split; [exact Hv|exact Hl].
  - intros x Hx. apply in_rev in Hx. apply edges_at_vertex_live in Hx. rewrite Le. exact Hx.
  - intros x Hx. apply in_rev in Hx. apply faces_at_edges_live in Hx. rewrite Lf. exact Hx.
  - intros x Hx. apply in_rev in Hx. apply cells_at_faces_live in Hx. rewrite Lc. exact Hx.
Qed.
Print Assumptions C02_deferred_delete_vertex_keeps_counters_exact.

(* immediate modes (index-shifting and swap-with-last): each delete_*_core removes exactly the victim slot of its own definition
   array - after exchanging it with the last slot in fast mode - and changes NO definition of a lower-dimensional kind and not the
   vertex count: survivors of the same kind keep their definitions, under the handle the slot removal gives them *)
Theorem C02_immediate_core_removes_exactly_the_victim_slot : forall h0 s, deferred s = false ->
  (let h := victim (nc s) h0 s in let s_ := if fast s then swap_cell_indices h0 h s else s in let s' := delete_cell_core h0 s in
     cells s' = remove_nth h (cells s_) /\ nv s' = nv s /\ edges s' = edges s /\ faces s' = faces s /\
     cells s_ = (if fast s then swap_nth h0 h [] (cells s) else cells s)) /\
  (let h := victim (nf s) h0 s in let s_ := if fast s then swap_face_indices h0 h s else s in let s' := delete_face_core h0 s in
     faces s' = remove_nth h (faces s_) /\ nv s' = nv s /\ edges s' = edges s /\
     faces s_ = (if fast s then swap_nth h0 h [] (faces s) else faces s)) /\
  (let h := victim (ne s) h0 s in let s_ := if fast s then swap_edge_indices h0 h s else s in let s' := delete_edge_core h0 s in
     edges s' = remove_nth h (edges s_) /\ nv s' = nv s /\ cells s' = cells s /\
     edges s_ = (if fast s then swap_nth h0 h (0, 0) (edges s) else edges s)).
Proof.
  intros h0 s D. exact (conj (delete_cell_core_defs h0 s D) (conj (delete_face_core_defs h0 s D) (delete_edge_core_defs h0 s D))).
Qed.
Print Assumptions C02_immediate_core_removes_exactly_the_victim_slot.

(* NOT YET A THEOREM (stated, tied by lock step + the closure oracle on the real library, all four modes):
     C02_mode_independent: for ghost-identified operands the logical mesh after the same deletions is the same in immediate
     (index-shifting), fast (swap-with-last) and deferred mode, up to renumbering.  The deferred half above is proved in full;
     the slot removal of the own array is proved above for all three non-vertex cores; what is still missing is that the handle
     CORRECTION applied to the referring higher-dimensional definitions (cache-guided or scan) is exactly the shift / transposition. *)

(* ---------------------------------------------------------------------------------------------------------------------------
   IMMEDIATE NON-FAST mode (deferred = false, fast = false): the handle CORRECTION half of the gap described above is closed here
   for the index-shifting mode (Kernel/ShiftFace.v, ShiftEdge.v, ShiftVertex.v, ShiftCompose.v), up to the public deletions
   delete_face / delete_edge / delete_vertex.  Still open: the transposition of the swap-with-last (fast) mode. *)
From OVM Require Import Kernel.ExactInv Kernel2.ReorderExact Kernel2.ExactBase Kernel.ShiftFace Kernel.ShiftEdge Kernel.ShiftVertex Kernel.ShiftCompose.

(* in the immediate non-fast mode no entity is ever flagged: no_flags holds initially and is kept by all four cores *)
Theorem C02_immediate_no_flags_invariant :
  no_flags empty_mesh /\
  forall h s, deferred s = false -> fast s = false -> no_flags s ->
    no_flags (delete_cell_core h s) /\ no_flags (delete_face_core h s) /\ no_flags (delete_edge_core h s) /\ no_flags (delete_vertex_core h s).
Proof.
  split; [exact no_flags_empty|]. intros h s D F N.
  exact (conj (no_flags_delete_cell_core h s D F N) (conj (no_flags_delete_face_core h s D F N)
        (conj (no_flags_delete_edge_core h s D F N) (no_flags_delete_vertex_core h s D F N)))).
Qed.
Print Assumptions C02_immediate_no_flags_invariant.

(* (Fc) delete_face_core h = "remove slot h of the face array, rename every halfface handle above it in the cells":
   fix2 h = drop 2h and 2h+1, then cor2 (2h+1).  One right-hand side for BOTH variants: the cache-guided one (fbu on: only the
   cells found in inc_cell at the slots >= 2h are rewritten) needs the cache to be exact, the scan needs nothing.  When no cell
   lists a halfface of face h (face_free: what delete_face/edge/vertex establish first) every cell is its old definition under
   the shifted handles. *)
Theorem C02_immediate_face_core_is_the_shift : forall h s, deferred s = false -> fast s = false -> no_flags s ->
  (fbu s = true -> fbu_ok s /\ cells_in_range s /\ length (inc_cell s) = 2 * nf s) ->
  let s' := delete_face_core h s in
  nv s' = nv s /\ edges s' = edges s /\ faces s' = remove_nth h (faces s) /\
  cells s' = map (fix2 h) (cells s) /\
  (face_free s h -> cells s' = map (map (cor2 (2 * h + 1))) (cells s)) /\
  inc_cell s' = (if fbu s then remove_nth (2 * h) (remove_nth (2 * h + 1) (inc_cell s)) else inc_cell s) /\
  inc_hfs s' = (if ebu s then map (map (cor2 (2 * h + 1))) (inc_hfs (face_loop h s)) else inc_hfs s) /\
  out_hes s' = out_hes s.
Proof.
  intros h s D F N HC. cbv zeta. pose proof (delete_face_core_view h s D F) as V. cbv zeta in V.
  destruct V as (v1 & v2 & v3 & _ & _ & _ & _ & _ & v9 & v10 & v11 & _).
  repeat split; try assumption.
  - exact (delete_face_core_cells h s D F N HC).
  - exact (delete_face_core_cells_shift h s D F N HC).
Qed.
Print Assumptions C02_immediate_face_core_is_the_shift.

(* (Ec) delete_edge_core h = "remove slot h of the edge array, rename every halfedge handle above it in the faces" *)
Theorem C02_immediate_edge_core_is_the_shift : forall h s, deferred s = false -> fast s = false -> no_flags s ->
  (ebu s = true -> ebu_ok s /\ faces_in_range s /\ length (inc_hfs s) = 2 * ne s) ->
  let s' := delete_edge_core h s in
  nv s' = nv s /\ edges s' = remove_nth h (edges s) /\ cells s' = cells s /\
  faces s' = map (fix2 h) (faces s) /\
  (edge_free s h -> faces s' = map (map (cor2 (2 * h + 1))) (faces s)) /\
  inc_hfs s' = (if ebu s then remove_nth (2 * h) (remove_nth (2 * h + 1) (inc_hfs s)) else inc_hfs s) /\
  out_hes s' = (if vbu s then map (map (cor2 (2 * h + 1))) (edge_out h s) else out_hes s) /\
  inc_cell s' = inc_cell s.
Proof.
  intros h s D F N HC. cbv zeta. pose proof (delete_edge_core_view h s D F) as V. cbv zeta in V.
  destruct V as (v1 & v2 & _ & v4 & _ & _ & _ & _ & v9 & v10 & v11 & _).
  repeat split; try assumption.
  - exact (delete_edge_core_faces h s D F N HC).
  - exact (delete_edge_core_faces_shift h s D F N HC).
Qed.
Print Assumptions C02_immediate_edge_core_is_the_shift.

(* (Vc) delete_vertex_core h = "drop vertex h, decrement every endpoint above it".  The scan variant needs nothing; the
   cache-guided loop (for i in [h, nv): for every outgoing halfedge of i: endpoints equal to i become i-1) needs the cache to be
   exact, endpoints in range and no edge left at vertex h -- without the last hypothesis the two variants DIFFER (second part;
   an internal call, not reachable through delete_vertex, which removes the incident edges first). *)
Theorem C02_immediate_vertex_core_is_the_shift : forall h s, deferred s = false -> fast s = false -> no_flags s ->
  (vbu s = true -> vbu_ok s /\ edges_in_range s /\ vertex_free s h) ->
  let s' := delete_vertex_core h s in
  nv s' = nv s - 1 /\ edges s' = map (cor1p h) (edges s) /\ faces s' = faces s /\ cells s' = cells s /\
  out_hes s' = (if vbu s then remove_nth h (out_hes s) else out_hes s) /\ inc_hfs s' = inc_hfs s /\ inc_cell s' = inc_cell s.
Proof.
  intros h s D F N HC. cbv zeta. pose proof (delete_vertex_core_view h s D F) as V. cbv zeta in V.
  destruct V as (v1 & _ & v3 & v4 & _ & _ & _ & _ & v9 & v10 & v11 & _).
  repeat split; try assumption. exact (delete_vertex_core_edges h s D F N HC).
Qed.
Print Assumptions C02_immediate_vertex_core_is_the_shift.

Theorem C02_vertex_core_variants_differ_without_vertex_free :
  let s := run [EnableDeferred false; EnableFast false; AddVertices 2; AddEdge 0 1 false] in
  let t := run [EnableDeferred false; EnableFast false; EnableVBU false; AddVertices 2; AddEdge 0 1 false] in
  edges s = edges t /\ edges (delete_vertex_core 1 s) = [(0, 0)] /\ edges (delete_vertex_core 1 t) = [(0, 1)].
Proof. exact delete_vertex_core_variants_differ. Qed.
Print Assumptions C02_vertex_core_variants_differ_without_vertex_free.

(* the renumbering half of C01: cache exactness (vbu_ok, ebu_ok, fbu_ok), in-range references, array lengths and no_flags
   (= shift_inv) are PRESERVED by the index shift of each core.  For delete_face_core with BOTH ebu and fbu on the loop over the
   halfedges of the dying face re-orders lists (reorder_incident_halffaces); then duplicate-free lists, closed live cells and
   simple faces are needed (Kernel2/ReorderExact.v: without closed cells re-ordering can lose a halfface). *)
Theorem C02_immediate_cores_keep_the_caches_exact : forall h s, deferred s = false -> fast s = false -> shift_inv s ->
  (h < nv s -> vertex_free s h -> shift_inv (delete_vertex_core h s)) /\
  (h < ne s -> edge_free s h -> shift_inv (delete_edge_core h s)) /\
  (h < nf s -> face_free s h ->
     (ebu s = true -> fbu s = true -> slots_nodup s /\ live_cells_closed s /\ faces_simple s) -> shift_inv (delete_face_core h s)).
Proof.
  intros h s D F I. split; [|split].
  - exact (shift_inv_delete_vertex_core h s D F I).
  - exact (shift_inv_delete_edge_core h s D F I).
  - exact (shift_inv_delete_face_core_full h s D F I).
Qed.
Print Assumptions C02_immediate_cores_keep_the_caches_exact.

(* delete_cell_core h: nothing but the cell array (slot h removed), its flag array, the halfface->cell cache (entries of the dying
   cell cleared, larger cell handles decremented) and the ORDER inside the halfedge->halfface lists changes; the halfface->cell
   cache stays exact *)
Theorem C02_immediate_cell_core_effect : forall h s, deferred s = false -> fast s = false ->
  let s' := delete_cell_core h s in
  nv s' = nv s /\ edges s' = edges s /\ faces s' = faces s /\ cells s' = remove_nth h (cells s) /\
  vdel s' = vdel s /\ edel s' = edel s /\ fdel s' = fdel s /\ cdel s' = remove_nth h (cdel s) /\
  out_hes s' = out_hes s /\
  inc_cell s' = (if fbu s then cell_inc h s else inc_cell s) /\
  length (inc_hfs s') = length (inc_hfs s) /\ (ebu s && fbu s = false -> inc_hfs s' = inc_hfs s) /\
  (fbu_inv s -> h < nc s -> fbu_inv s').
Proof.
  intros h s D F. cbv zeta. pose proof (delete_cell_core_view h s D F) as V. cbv zeta in V.
  destruct V as (v1 & v2 & v3 & v4 & v5 & v6 & v7 & v8 & v9 & v10 & v11 & v12 & _).
  refine (conj v1 (conj v2 (conj v3 (conj v4 (conj v5 (conj v6 (conj v7 (conj v8 (conj v9 (conj v10 (conj v11 (conj v12 _)))))))))))).
  intros I Hh. exact (fbu_inv_delete_cell_core h s D F I Hh).
Qed.
Print Assumptions C02_immediate_cell_core_effect.

(* the public delete_face f in immediate non-fast mode: vertices and edges untouched; the surviving faces are the old ones
   without slot f (same definitions: the edges keep their handles); the surviving cells are EXACTLY the cells outside the closure
   cells_at_faces s [f] (keep_slots: the entries at the indices not in the closure, in their old order), each with its old
   definition read through the shift map; the same with the halfface->cell incidences on (exact) or off *)
Theorem C02_immediate_delete_face_survivors : forall f s, deferred s = false -> fast s = false -> fbu_inv s -> f < nf s ->
  let cs := cells_at_faces s [f] in
  let s' := delete_face f s in
  nv s' = nv s /\ edges s' = edges s /\
  faces s' = remove_nth f (faces s) /\
  cells s' = map (map (cor2 (2 * f + 1))) (keep_slots [] cs (cells s)) /\
  nc s' = nc s - length cs /\
  no_flags s' /\ deferred s' = false /\ fast s' = false.
Proof. exact delete_face_immediate. Qed.
Print Assumptions C02_immediate_delete_face_survivors.

(* the FULL invariant of the immediate non-fast mode, shift_inv2 = shift_inv + (with both ebu and fbu on: duplicate-free lists,
   closed live cells, simple faces -- what reorder_incident_halffaces needs), is kept by all four cores; for delete_cell_core the
   re-ordered lists are the ones the deferred-mode run produces on the same state (Kernel2/ExactDelCell.v), transported *)
Theorem C02_immediate_cores_keep_the_full_invariant : forall h s, deferred s = false -> fast s = false -> shift_inv2 s ->
  (h < nc s -> shift_inv2 (delete_cell_core h s)) /\
  (h < nf s -> face_free s h -> shift_inv2 (delete_face_core h s)) /\
  (h < ne s -> edge_free s h -> shift_inv2 (delete_edge_core h s)) /\
  (h < nv s -> vertex_free s h -> shift_inv2 (delete_vertex_core h s)).
Proof.
  intros h s D F I. split; [|split; [|split]].
  - exact (shift_inv2_delete_cell_core h s D F I).
  - exact (shift_inv2_delete_face_core h s D F I).
  - exact (shift_inv2_delete_edge_core h s D F I).
  - exact (shift_inv2_delete_vertex_core h s D F I).
Qed.
Print Assumptions C02_immediate_cores_keep_the_full_invariant.

(* C02 for the three closure-deleting public operations in immediate non-fast mode, for EVERY state satisfying the invariant and
   every in-range handle, with any subset of incidences enabled: exactly the brute-force upward closure goes away
   (keep_slots d cs l = the entries of l at the indices outside cs, in their old order); every survivor keeps its definition,
   read through the handle shifts (cor1p v: endpoints above v decremented; cor2 (2e+1): halfedges above edge e shifted;
   shift_many fs: the composed shifts for the deleted faces resp. edges, largest first); the invariant - hence cache exactness,
   C01 - holds again afterwards *)
Theorem C02_immediate_public_deletions : forall x s, deferred s = false -> fast s = false -> shift_inv2 s ->
  (x < nf s ->
     let cs := cells_at_faces s [x] in let s' := delete_face x s in
     shift_inv2 s' /\ deferred s' = false /\ fast s' = false /\
     nv s' = nv s /\ edges s' = edges s /\ faces s' = remove_nth x (faces s) /\
     cells s' = map (map (cor2 (2 * x + 1))) (keep_slots [] cs (cells s))) /\
  (x < ne s ->
     let fs := faces_at_edges s [x] in let cs := cells_at_faces s fs in let s' := delete_edge x s in
     shift_inv2 s' /\ deferred s' = false /\ fast s' = false /\
     nv s' = nv s /\ edges s' = remove_nth x (edges s) /\
     faces s' = map (map (cor2 (2 * x + 1))) (keep_slots [] fs (faces s)) /\
     cells s' = map (map (shift_many fs)) (keep_slots [] cs (cells s))) /\
  (x < nv s ->
     let es := edges_at_vertex s x in let fs := faces_at_edges s es in let cs := cells_at_faces s fs in let s' := delete_vertex x s in
     shift_inv2 s' /\ deferred s' = false /\ fast s' = false /\
     nv s' = nv s - 1 /\ edges s' = map (cor1p x) (keep_slots (0, 0) es (edges s)) /\
     faces s' = map (map (shift_many es)) (keep_slots [] fs (faces s)) /\
     cells s' = map (map (shift_many fs)) (keep_slots [] cs (cells s))).
Proof.
  intros x s D F I. split; [|split].
  - exact (delete_face_immediate_full x s D F I).
  - exact (delete_edge_immediate x s D F I).
  - exact (delete_vertex_immediate x s D F I).
Qed.
Print Assumptions C02_immediate_public_deletions.

(* ... hence the surviving definitions do not depend on which incidences the mesh keeps *)
Theorem C02_immediate_delete_vertex_incidence_independent : forall v s t,
  deferred s = false -> fast s = false -> shift_inv2 s -> deferred t = false -> fast t = false -> shift_inv2 t -> v < nv s ->
  nv t = nv s -> edges t = edges s -> faces t = faces s -> cells t = cells s ->
  let s' := delete_vertex v s in let t' := delete_vertex v t in
  nv t' = nv s' /\ edges t' = edges s' /\ faces t' = faces s' /\ cells t' = cells s'.
Proof. exact delete_vertex_immediate_incidence_independent. Qed.
Print Assumptions C02_immediate_delete_vertex_incidence_independent.

(* non-vacuity on reachable states (two properly oriented tetrahedra sharing face 3, all incidences on, immediate non-fast mode):
   every hypothesis of the theorems above holds (decidable forms), the shift is not the identity, and the invariant holds again
   after the step *)
Definition two_tets_immediate : list op :=
  [EnableDeferred false; EnableFast false; AddVertices 5; AddFaceV [0; 1; 2]; AddFaceV [0; 2; 3]; AddFaceV [0; 3; 1]; AddFaceV [1; 3; 2];
   AddCell [0; 2; 4; 6] true; AddFaceV [1; 2; 4]; AddFaceV [2; 3; 4]; AddFaceV [3; 1; 4]; AddCell [7; 9; 11; 13] true].

Example C02_immediate_concrete :
  let s := run two_tets_immediate in
  let closed_b t := forallb (fun c => c_deleted t c || LookupModel.closed_cell_b t c) (seq 0 (nc t)) in
  (* the state in which DelFace 0 calls delete_face_core 0: the incident cell 0 is gone *)
  let s1 := del_desc delete_cell_core (incident_cells_of_faces s [0]) s in
  let s2 := delete_face_core 0 s1 in
  deferred s = false /\ fast s = false /\ ebu s = true /\ fbu s = true /\ shift_inv_b s = true /\
  cells s = [[0; 2; 4; 6]; [7; 9; 11; 13]] /\ cells_at_faces s [0] = [0] /\
  shift_inv_b s1 = true /\ face_free_b s1 0 = true /\ slots_nodup_b s1 = true /\ closed_b s1 = true /\ faces_simple_b s1 = true /\
  cells s1 = [[7; 9; 11; 13]] /\ cells s2 = [[5; 7; 9; 11]] /\ shift_inv_b s2 = true /\
  run (two_tets_immediate ++ [DelFace 0]) = s2 /\
  (let s3 := run (two_tets_immediate ++ [DelFace 3]) in cells_at_faces s [3] = [0; 1] /\ cells s3 = [] /\ nf s3 = 6 /\ shift_inv_b s3 = true).
Proof. vm_compute. repeat split. Qed.

Example C02_immediate_public_concrete :
  let s := run two_tets_immediate in
  let se := run (two_tets_immediate ++ [DelEdge 0]) in
  let sv := run (two_tets_immediate ++ [DelVertex 0]) in
  let t := run (EnableVBU false :: EnableEBU false :: EnableFBU false :: two_tets_immediate) in
  shift_inv2_b s = true /\ shift_inv2_b t = true /\ ebu t = false /\
  faces_at_edges s [0] = [0; 2] /\ cells_at_faces s [0; 2] = [0] /\
  edges se = [(1, 2); (2, 0); (2, 3); (3, 0); (3, 1); (2, 4); (4, 1); (3, 4)] /\
  faces se = [[3; 4; 6]; [9; 5; 1]; [0; 10; 12]; [4; 14; 11]; [8; 13; 15]] /\ cells se = [[3; 5; 7; 9]] /\ shift_inv2_b se = true /\
  edges_at_vertex s 0 = [0; 2; 4] /\ nv sv = 4 /\
  edges sv = [(0, 1); (1, 2); (2, 0); (1, 3); (3, 0); (2, 3)] /\ faces sv = [[5; 3; 1]; [0; 6; 8]; [2; 10; 7]; [4; 9; 11]] /\
  cells sv = [[1; 3; 5; 7]] /\ shift_inv2_b sv = true /\
  (let tv := delete_vertex 0 t in edges tv = edges sv /\ faces tv = faces sv /\ cells tv = cells sv).
Proof. vm_compute. repeat split. Qed.

(* non-vacuity: the two-tetrahedra state satisfies every hypothesis (checked by computation of the decidable versions) *)
Example C02_concrete :
  let s := run [AddVertices 5; AddFaceV [0; 1; 2]; AddFaceV [0; 2; 3]; AddFaceV [0; 3; 1]; AddFaceV [1; 3; 2];
                AddCell [0; 2; 4; 6] false; AddFaceV [1; 2; 4]; AddFaceV [2; 3; 4]; AddFaceV [3; 1; 4]; AddCell [7; 8; 10; 12] false] in
  deferred s = true /\ edges_at_vertex s 4 = [6; 7; 8] /\ faces_at_edges s [6; 7; 8] = [4; 5; 6] /\ cells_at_faces s [4; 5; 6] = [1] /\
  incident_edges_of_vertex s 4 = [6; 7; 8] /\
  (let s' := delete_vertex 4 s in cdel s' = [false; true] /\ ndc s' = 1 /\ nde s' = 3 /\ ndf s' = 3 /\ ndv s' = 1 /\ cells s' = cells s).
Proof. vm_compute. repeat split. Qed.
