(* Props/Properties_C02.v -- C02: deletion removes exactly the entity's upward closure; survivors are unchanged. *)
From Coq Require Import ZArith List Arith Bool Lia.
From OVM Require Import Base.ListX Kernel.State Kernel.Ops Kernel.SwapInvol Kernel.Sizes Kernel.Recompute Kernel.Closure Kernel.DeferredDelete Kernel.DeleteEffects Kernel.DeleteDefs.
Import ListNotations.

(* The brute-force upward closure over the STORED DEFINITIONS of the not-deleted entities:
     edges_at_vertex s v   = live edges with an endpoint v
     faces_at_edges s es   = live faces listing a halfedge of an edge in es
     cells_at_faces s fs   = live cells listing a halfface of a face in fs                     (Kernel/Closure.v) *)

(* the closure gathered through the incidence caches IS that brute-force closure whenever the caches are exact (C01's
   invariant, membership form); with a kind switched off the code scans, i.e. computes the brute-force closure literally.
   Hence the SAME entities are deleted with any subset of incidences enabled (also used by C12). *)
Theorem C02_closure_gathering_is_brute_force : forall s v es fs,
  (vbu_ok s -> v < nv s -> incident_edges_of_vertex s v = edges_at_vertex s v) /\
  (ebu_ok s -> (forall e, In e es -> e < ne s) -> incident_faces_of_edges s es = faces_at_edges s es) /\
  (fbu_ok s -> (forall f, In f fs -> f < nf s) -> incident_cells_of_faces s fs = cells_at_faces s fs).
Proof.
  intros s v es fs. split; [|split].
  - exact (incident_edges_cache_is_scan s v).
  - exact (incident_faces_cache_is_scan s es).
  - exact (incident_cells_cache_is_scan s fs).
Qed.
Print Assumptions C02_closure_gathering_is_brute_force.

(* deferred mode: delete_vertex flags exactly v and its closure; definitions, all other flags, every property value and the
   modes are untouched; the deleted-counters advance by exactly the number of newly flagged entities *)
Theorem C02_deferred_delete_vertex_flags_exactly_the_closure : forall s v,
  deferred s = true -> sized s -> vbu_ok s -> ebu_ok s -> fbu_ok s -> v < nv s ->
  let es := edges_at_vertex s v in let fs := faces_at_edges s es in let cs := cells_at_faces s fs in
  let s' := delete_vertex v s in
  (nv s' = nv s /\ edges s' = edges s /\ faces s' = faces s /\ cells s' = cells s) /\
  (forall i, i < nv s -> v_deleted s' i = v_deleted s i || (i =? v)) /\
  (forall e, e < ne s -> e_deleted s' e = e_deleted s e || memb e es) /\
  (forall f, f < nf s -> f_deleted s' f = f_deleted s f || memb f fs) /\
  (forall c, c < nc s -> c_deleted s' c = c_deleted s c || memb c cs) /\
  (ndv s' = ndv s + 1 /\ nde s' = nde s + length es /\ ndf s' = ndf s + length fs /\ ndc s' = ndc s + length cs) /\
  (forall k, props k s' = props k s) /\
  (vbu s' = vbu s /\ ebu s' = ebu s /\ fbu s' = fbu s /\ deferred s' = deferred s /\ fast s' = fast s) /\
  needs_gc s' = true.
Proof.
  intros s v D (Lv & Le & Lf & Lc & _) VO EO FO Hv es fs cs s'.
  pose proof (delete_vertex_deferred v s D) as H. cbv zeta in H. fold s' in H.
  assert (E1 : incident_edges_of_vertex s v = es) by (apply incident_edges_cache_is_scan; assumption).
  rewrite E1 in H.
  assert (E2 : incident_faces_of_edges s es = fs).
  { apply incident_faces_cache_is_scan; [assumption|]. intros e He. apply edges_at_vertex_live in He. tauto. }
  rewrite E2 in H.
  assert (E3 : incident_cells_of_faces s fs = cs).
  { apply incident_cells_cache_is_scan; [assumption|]. intros f Hf. apply faces_at_edges_live in Hf. tauto. }
  rewrite E3 in H.
  destruct H as (x1&x2&x3&x4&x5&x6&x7&x8&x9&x10&x11&x12&xf&xp).
  rewrite !rev_length in *. simpl length in x9.
  split; [tauto|]. split; [|split; [|split; [|split]]].
  - intros i Hi. unfold v_deleted. rewrite x5, nth_flag_all by (rewrite Lv; exact Hi).
    unfold memb. simpl. rewrite orb_false_r. reflexivity.
  - intros e He. unfold e_deleted. rewrite x6, nth_flag_all by (rewrite Le; exact He). rewrite memb_rev. reflexivity.
  - intros f Hf. unfold f_deleted. rewrite x7, nth_flag_all by (rewrite Lf; exact Hf). rewrite memb_rev. reflexivity.
  - intros c Hc. unfold c_deleted. rewrite x8, nth_flag_all by (rewrite Lc; exact Hc). rewrite memb_rev. reflexivity.
  - split; [tauto|]. split; [exact xp|]. split; [exact xf|]. unfold needs_gc. rewrite x9.
    replace (0 <? ndv s + 1) with true by (symmetry; apply Nat.ltb_lt; lia). reflexivity.
Qed.
Print Assumptions C02_deferred_delete_vertex_flags_exactly_the_closure.

(* same for the other three kinds, in the relation form of Kernel/DeferredDelete.v:
   dstep s s' dv de df dc  :=  s' is s with exactly dv/de/df/dc additionally flagged, counters advanced by their lengths,
                               definitions, properties and modes equal *)
Theorem C02_deferred_delete_edge_face_cell : forall s x, deferred s = true ->
  (ebu_ok s -> fbu_ok s -> x < ne s ->
     dstep s (delete_edge x s) [] [x] (rev (faces_at_edges s [x])) (rev (cells_at_faces s (faces_at_edges s [x])))) /\
  (fbu_ok s -> x < nf s -> dstep s (delete_face x s) [] [] [x] (rev (cells_at_faces s [x]))) /\
  dstep s (delete_cell x s) [] [] [] [x].
Proof.
  intros s x D. split; [|split].
  - intros EO FO Hx. pose proof (delete_edge_deferred x s D) as H. cbv zeta in H.
    rewrite (incident_faces_cache_is_scan s [x] EO) in H by (intros e [<-|[]]; exact Hx).
    rewrite (incident_cells_cache_is_scan s _ FO) in H by (intros f Hf; apply faces_at_edges_live in Hf; tauto). exact H.
  - intros FO Hx. pose proof (delete_face_deferred x s D) as H.
    rewrite (incident_cells_cache_is_scan s [x] FO) in H by (intros f [<-|[]]; exact Hx). exact H.
  - exact (delete_cell_deferred x s D).
Qed.
Print Assumptions C02_deferred_delete_edge_face_cell.

(* the counters describe exactly the flagged set: preserved by every deferred deletion of a live entity *)
Theorem C02_deferred_delete_vertex_keeps_counters_exact : forall s v,
  deferred s = true -> sized s -> vbu_ok s -> ebu_ok s -> fbu_ok s -> v < nv s -> v_deleted s v = false ->
  counts_ok s -> counts_ok (delete_vertex v s).
Proof.
  intros s v D (Lv & Le & Lf & Lc & _) VO EO FO Hv Hl CO.
  pose proof (delete_vertex_deferred v s D) as H. cbv zeta in H.
  rewrite (incident_edges_cache_is_scan s v VO Hv) in H.
  rewrite (incident_faces_cache_is_scan s _ EO) in H by (intros e He; apply edges_at_vertex_live in He; tauto).
  rewrite (incident_cells_cache_is_scan s _ FO) in H by (intros f Hf; apply faces_at_edges_live in Hf; tauto).
  apply (dstep_counts_ok _ _ _ _ _ _ H CO).
  - repeat constructor. simpl. tauto.
  - apply NoDup_rev, NoDup_edges_at_vertex.
  - apply NoDup_rev, NoDup_faces_at_edges.
  - apply NoDup_rev, NoDup_cells_at_faces.
  - intros x [<-|[]]. rewrite Lv. split; [exact Hv|exact Hl].
  - intros x Hx. apply in_rev in Hx. apply edges_at_vertex_live in Hx. rewrite Le. exact Hx.
  - intros x Hx. apply in_rev in Hx. apply faces_at_edges_live in Hx. rewrite Lf. exact Hx.
  - intros x Hx. apply in_rev in Hx. apply cells_at_faces_live in Hx. rewrite Lc. exact Hx.
Qed.
Print Assumptions C02_deferred_delete_vertex_keeps_counters_exact.

(* immediate modes (index-shifting and swap-with-last): each delete_*_core removes exactly the victim slot of its own definition
   array - after exchanging it with the last slot in fast mode - and changes NO definition of a lower-dimensional kind and not the
   vertex count: survivors of the same kind keep their definitions, under the handle the slot removal gives them *)
Theorem C02_immediate_core_removes_exactly_the_victim_slot : forall h0 s, deferred s = false ->
  (let h := victim (nc s) h0 s in let s_ := if fast s then swap_cell_indices h0 h s else s in let s' := delete_cell_core h0 s in
     cells s' = remove_nth h (cells s_) /\ nv s' = nv s /\ edges s' = edges s /\ faces s' = faces s /\
     cells s_ = (if fast s then swap_nth h0 h [] (cells s) else cells s)) /\
  (let h := victim (nf s) h0 s in let s_ := if fast s then swap_face_indices h0 h s else s in let s' := delete_face_core h0 s in
     faces s' = remove_nth h (faces s_) /\ nv s' = nv s /\ edges s' = edges s /\
     faces s_ = (if fast s then swap_nth h0 h [] (faces s) else faces s)) /\
  (let h := victim (ne s) h0 s in let s_ := if fast s then swap_edge_indices h0 h s else s in let s' := delete_edge_core h0 s in
     edges s' = remove_nth h (edges s_) /\ nv s' = nv s /\ cells s' = cells s /\
     edges s_ = (if fast s then swap_nth h0 h (0, 0) (edges s) else edges s)).
Proof.
  intros h0 s D. exact (conj (delete_cell_core_defs h0 s D) (conj (delete_face_core_defs h0 s D) (delete_edge_core_defs h0 s D))).
Qed.
Print Assumptions C02_immediate_core_removes_exactly_the_victim_slot.

(* NOT YET A THEOREM (stated, tied by lock step + the closure oracle on the real library, all four modes):
     C02_mode_independent: for ghost-identified operands the logical mesh after the same deletions is the same in immediate
     (index-shifting), fast (swap-with-last) and deferred mode, up to renumbering.  The deferred half above is proved in full;
     the slot removal of the own array is proved above for all three non-vertex cores; what is still missing is that the handle
     CORRECTION applied to the referring higher-dimensional definitions (cache-guided or scan) is exactly the shift / transposition. *)

(* non-vacuity: the two-tetrahedra state satisfies every hypothesis (checked by computation of the decidable versions) *)
Example C02_concrete :
  let s := run [AddVertices 5; AddFaceV [0; 1; 2]; AddFaceV [0; 2; 3]; AddFaceV [0; 3; 1]; AddFaceV [1; 3; 2];
                AddCell [0; 2; 4; 6] false; AddFaceV [1; 2; 4]; AddFaceV [2; 3; 4]; AddFaceV [3; 1; 4]; AddCell [7; 8; 10; 12] false] in
  deferred s = true /\ edges_at_vertex s 4 = [6; 7; 8] /\ faces_at_edges s [6; 7; 8] = [4; 5; 6] /\ cells_at_faces s [4; 5; 6] = [1] /\
  incident_edges_of_vertex s 4 = [6; 7; 8] /\
  (let s' := delete_vertex 4 s in cdel s' = [false; true] /\ ndc s' = 1 /\ nde s' = 3 /\ ndf s' = 3 /\ ndv s' = 1 /\ cells s' = cells s).
Proof. vm_compute. repeat split. Qed.
