(* Props/Properties_C14.v -- C14: property registry (sharing by name, visibility, persistence, lifetime).
   Model: Reg/HeapModel.v, Reg/RegistryModel.v; proofs: Reg/RegistryProofs.v.

   [reachable w] : w is the world after ANY finite history of registry / handle / mesh operations (rstep) from the empty
   world in which every step satisfies [op_ok]:
     - no set_name on a property that is shared at that moment,
     - set_shared / set_persistent are called on the mesh the property is attached to.
   The library checks neither.  The first is finding D10 (C14_set_name_refuted below); the second is out of contract. *)
From Coq Require Import List ZArith.
From OVM Require Import Reg.RegistryModel Reg.RegistryProofs.
Import ListNotations.

(* ---- persistent -> shared *)
Theorem C14_persistent_implies_shared :
  forall w s st, reachable w -> get_st w s = Some st -> s_pers st = true -> s_shared st = true.
Proof. intros w s st R. exact (iv_pers_shared _ _ (reachable_inv w R) s st). Qed.
Print Assumptions C14_persistent_implies_shared.

(* ---- shared -> named and unique.
   FULL STATEMENT (refuted):  for every history of operations (no condition on set_name),
        shared st -> name st <> "" /\ no other shared storage of the same mesh has the same (kind, type, name).
   PARTIAL (proved): the same for every history without set_name on a shared property. *)
Theorem C14_shared_named_unique_partial :
  forall w, reachable w ->
  (forall s st, get_st w s = Some st -> s_shared st = true -> s_name st <> 0) /\
  (forall s1 s2 st1 st2 m, get_st w s1 = Some st1 -> get_st w s2 = Some st2 ->
      s_owner st1 = Some m -> s_owner st2 = Some m -> s_shared st1 = true -> s_shared st2 = true ->
      key_eq st1 st2 -> s1 = s2).
Proof.
  intros w R. pose proof (reachable_inv w R) as I. split.
  - exact (iv_named _ _ I).
  - exact (iv_unique _ _ I).
Qed.
Print Assumptions C14_shared_named_unique_partial.

(* witness history (D10): NewMesh; request "n2"; request "n3"; set_name(second, "n2")  -- and set_name(p, "") *)
Theorem C14_set_name_refuted :
  (exists ops, let w := rrun ops in
     exists s1 s2 st1 st2, s1 <> s2 /\ get_st w s1 = Some st1 /\ get_st w s2 = Some st2 /\
       s_owner st1 = Some 0 /\ s_owner st2 = Some 0 /\ s_shared st1 = true /\ s_shared st2 = true /\ key_eq st1 st2) /\
  (exists ops, let w := rrun ops in exists s st, get_st w s = Some st /\ s_shared st = true /\ s_name st = 0).
Proof.
  split.
  - exists d10_duplicate. destruct d10_duplicate_witness as [st1 [st2 H]]. exists 1, 2, st1, st2. split; [discriminate|exact H].
  - exists d10_anonymous. destruct d10_anonymous_witness as [st H]. exists 1, st. exact H.
Qed.
Print Assumptions C14_set_name_refuted.

(* ---- the tracker of a mesh = exactly the live storages attached to it *)
Theorem C14_tracked_exact :
  forall w m r, reachable w -> get_mesh w m = Some r ->
  NoDup (m_tracked r) /\
  (forall s, In s (m_tracked r) <-> exists st, get_st w s = Some st /\ s_owner st = Some m) /\
  (forall s, In s (m_pers r) <-> exists st, get_st w s = Some st /\ s_owner st = Some m /\ s_pers st = true).
Proof.
  intros w m r R Hm. pose proof (reachable_inv w R) as I. split; [|split].
  - exact (iv_tracked_nodup _ _ I m r Hm).
  - intros s. exact (iv_tracked _ _ I m r s Hm).
  - intros s. exact (iv_pers _ _ I m r s Hm).
Qed.
Print Assumptions C14_tracked_exact.

(* n_props<kind> / n_persistent_props<kind> count exactly those *)
Theorem C14_n_props_exact :
  forall w m r k s, reachable w -> get_mesh w m = Some r ->
  (In s (tracked_k w r k) <-> exists st, get_st w s = Some st /\ s_owner st = Some m /\ s_kind st = k) /\
  (In s (pers_k w r k) <-> exists st, get_st w s = Some st /\ s_owner st = Some m /\ s_pers st = true /\ s_kind st = k).
Proof.
  intros w m r k s R Hm. pose proof (reachable_inv w R) as I. split.
  - exact (tracked_k_exact w m r k s I Hm).
  - exact (pers_k_exact w m r k s I Hm).
Qed.
Print Assumptions C14_n_props_exact.

(* ---- a storage exists exactly as long as a handle, a persistent set or a position member refers to it *)
Theorem C14_exists_iff_referenced :
  forall w s, reachable w -> ((exists st, get_st w s = Some st) <-> held w s = true).
Proof. intros w s R. exact (exists_iff_held w s (reachable_inv w R)). Qed.
Print Assumptions C14_exists_iff_referenced.

(* ---- request returns the existing shared storage iff one exists, else creates *)
Theorem C14_request_returns_existing :
  forall w m r k t n d s st, reachable w -> get_mesh w m = Some r ->
  get_st w s = Some st -> s_owner st = Some m -> matches k t n st = true -> n <> 0 ->
  let '(w', res) := rstep w (Request m k t n d) in
  res = RHandle (length (handles w)) /\ get_h w' (length (handles w)) = Some s /\ heap w' = heap w /\ meshes w' = meshes w.
Proof. intros w m r k t n d s st R. exact (request_hit w m r k t n d s st (reachable_inv w R)). Qed.
Print Assumptions C14_request_returns_existing.

Theorem C14_request_creates_otherwise :
  forall w m r k t n d, reachable w -> get_mesh w m = Some r ->
  (forall s st, get_st w s = Some st -> s_owner st = Some m -> matches k t n st = false) ->
  let '(w', res) := rstep w (Request m k t n d) in
  let s' := length (heap w) in
  res = RHandle (length (handles w)) /\ get_h w' (length (handles w)) = Some s' /\
  get_st w' s' = Some (mkSt n t k (negb (Nat.eqb n 0)) false d (repeat d (count k (m_k r))) (Some m)) /\
  (forall x y, get_st w x = Some y -> get_st w' x = Some y).
Proof. intros w m r k t n d R. exact (request_miss w m r k t n d (reachable_inv w R)). Qed.
Print Assumptions C14_request_creates_otherwise.

(* ---- create_* refuse duplicates, and change nothing *)
Theorem C14_create_refuses_duplicates :
  forall w m r k t n d s st, reachable w -> get_mesh w m = Some r ->
  get_st w s = Some st -> s_owner st = Some m -> matches k t n st = true ->
  rstep w (CreateShared m k t n d) = (w, RNoHandle) /\ rstep w (CreatePersistent m k t n d) = (w, RNoHandle).
Proof. intros w m r k t n d s st R. exact (create_refuses w m r k t n d s st (reachable_inv w R)). Qed.
Print Assumptions C14_create_refuses_duplicates.

(* ---- private properties are never found by name: every lookup result is shared and carries the requested name *)
Theorem C14_private_never_found :
  forall w m k t n s st, find_prop w m k t n = Some s -> get_st w s = Some st ->
  s_shared st = true /\ s_name st = n /\ n <> 0.
Proof. exact found_is_shared. Qed.
Print Assumptions C14_private_never_found.

(* ---- throwing / refusing transitions change nothing *)
Theorem C14_failing_transition_changes_nothing :
  forall w o w' res, rstep w o = (w', res) ->
  match res with RThrow | RNoHandle | RRejected | RUB _ => w' = w | _ => True end.
Proof. exact failing_step_unchanged. Qed.
Print Assumptions C14_failing_transition_changes_nothing.

(* ---- a handle that outlives its mesh keeps its data and reports being detached *)
Theorem C14_handle_outlives_mesh :
  forall w m h s st, reachable w -> get_h w h = Some s -> get_st w s = Some st -> s_owner st = Some m ->
  snd (rstep w (DelMesh m)) = ROk /\
  let w' := fst (rstep w (DelMesh m)) in
  get_h w' h = Some s /\ get_st w' s = Some (with_owner None st) /\ get_mesh w' m = None.
Proof. intros w m h s st R. exact (detached_keeps_data w m h s st (reachable_inv w R)). Qed.
Print Assumptions C14_handle_outlives_mesh.

(* ---- non-vacuity: a reachable world with a persistent, a shared, a private property, a detached handle *)
Definition ex_hist : list rop :=
  [NewMesh; Kernel 0 AddVertex; Kernel 0 AddVertex;
   CreatePersistent 0 KV TInt 2 7%Z; Request 0 KV TInt 3 1%Z; CreatePrivate 0 KV TInt 3 9%Z;
   SetName 2 4; SetShared 0 2 true; HCopy 1; HDrop 0; NewMesh; DelMesh 0].

Example ex_hist_reachable : reachable (rrun ex_hist).
Proof. apply reachable_run. vm_compute. repeat split; intros; try discriminate;
  repeat match goal with H : Some _ = Some _ |- _ => inversion H; clear H; subst end; reflexivity. Qed.

Example ex_hist_content :
  let w := rrun ex_hist in
  (* the persistent property died with its mesh (its handle had been dropped) ... *)
  get_st w 1 = None /\
  (* ... the two others are kept by their handles, detached, with their data *)
  (exists st, get_st w 2 = Some st /\ s_owner st = None /\ s_data st = [1%Z; 1%Z] /\ s_shared st = true) /\
  (exists st, get_st w 3 = Some st /\ s_owner st = None /\ s_name st = 4 /\ s_shared st = true) /\
  get_mesh w 0 = None /\ (exists r, get_mesh w 1 = Some r).
Proof. vm_compute. repeat split; eexists; repeat split. Qed.
