(* Props/Properties_C05_C10_history.v -- the state hypotheses of the C05 theorems (Props/Properties_C05.v: bu_exact, wf_iter,
   flags_sized) and of the C10 theorems (Props/Properties_C10.v: vbu_exact, ebu_exact, cell_cache_ok, wf_faces, wf_cells, closed_cell,
   "the halffaces of the cell list no halfedge twice") HOLD IN EVERY REACHABLE STATE of the history class all_ok of
   Props/Properties_C01_all.v (C01_invariant_along_all_histories), and with them every C05 / C10 theorem that had a state hypothesis.
   Statements only; every proof is `exact <lemma>` or two assembling lines; Print Assumptions under each theorem.
   Proofs: Kernel6/HistHyps.v  (full_inv s -> <hypothesis> s).

   Premises that remain, and why:
     vbu s = true / ebu s = true   vbu_exact / ebu_exact CONTAIN that conjunct; switching a kind off is an operation of the class
                                   (HistHyps.vbu_exact_unconditional_refuted);
     fbu s = true, live_c s c = true   cell_cache_ok s c / closed_cell s c read the halfface->cell cache, and a deferred-deleted cell
                                   keeps its definition while the cache no longer names it (HistHyps.cell_cache_ok_deleted_refuted);
     no_parallel_edges, two_halfedges_determine_halfface, closed_face, simple_face   shape conditions on the mesh the caller built,
                                   not invariants: each is refuted on a history of the class (HistHyps.*_refuted, restated below). *)
From Coq Require Import ZArith List Lia.
From OVM Require Import Kernel.State Kernel.Ops Kernel4.AllDefs Kernel4.AllHistory Kernel4.AllExample Kernel6.HistHyps.
From OVM Require Kernel.Mirror Kernel2.LookupModel Kernel2.ListAux Kernel2.AdjacentProofs Kernel2.LookupProofs
                 Iter.Builders Iter.CursorProofs Iter.BuildersProofs Props.Properties_C05 Props.Properties_C10.
Import ListNotations.
Local Open Scope nat_scope.

(* ================================================================== C05 *)
Section C05.
Import Iter.Builders Iter.CursorProofs Iter.BuildersProofs Props.Properties_C05.

Theorem C05_hypotheses_in_every_reachable_state : forall ops, all_ok ops = true -> let s := run ops in
  BP.bu_exact s /\ BP.wf_iter s /\ BP.flags_sized s.
Proof. exact reach_C05_hyps. Qed.
Print Assumptions C05_hypotheses_in_every_reachable_state.

Theorem C05_entities_in_every_reachable_state : forall ops (k : kind), all_ok ops = true -> let s := run ops in k <> KM ->
  exists b, ent_begin k s 0 = Some b /\
            e_trace (S (ent_n k s)) (ent_rdel k s) (ent_n k s) b
            = Some (map Z.of_nat (filter (fun i => negb (ent_deleted k s i)) (seq 0 (ent_n k s))), e_end (ent_n k s))
            /\ ent_begin k s (ent_n k s) = Some (e_end (ent_n k s)).
Proof. intros ops k F. cbv zeta. intros K. exact (C05_entities k (run ops) K (proj2 (proj2 (reach_C05_hyps ops F)))). Qed.
Print Assumptions C05_entities_in_every_reachable_state.

Theorem C05_boundary_unguarded_invalid_in_every_reachable_state : forall ops (k : kind), all_ok ops = true -> let s := run ops in
  k <> KM -> bnd_has_inc k s = false -> exists it0, bnd_begin k s = Some (mkB it0 false (-1)%Z).
Proof. intros ops k F. cbv zeta. intros K. exact (C05_boundary_unguarded_invalid k (run ops) K (proj2 (proj2 (reach_C05_hyps ops F)))). Qed.
Print Assumptions C05_boundary_unguarded_invalid_in_every_reachable_state.

Theorem C05_builders_vertex_in_every_reachable_state : forall ops, all_ok ops = true -> let s := run ops in forall v, v < nv s ->
  (vbu s = true ->
     ((forall h, In h (clist VOH s v) <-> inc_voh s v h) /\ NoDup (clist VOH s v)) /\
     ((forall h, In h (clist VIH s v) <-> inc_vih s v h) /\ NoDup (clist VIH s v)) /\
     (forall e, In e (clist VE s v) <-> inc_ve s v e) /\
     (forall w, In w (clist VV s v) <-> inc_vv s v w)) /\
  (vbu s = true -> ebu s = true -> (forall hf, In hf (clist VHF s v) <-> inc_vhf s v hf) /\ NoDup (clist VHF s v)) /\
  (full_bu s = true ->
     ((forall f, In f (clist VF s v) <-> inc_vf s v f) /\ NoDup (clist VF s v)) /\
     ((forall c, In c (clist VC s v) <-> inc_vc s v c) /\ NoDup (clist VC s v))).
Proof. intros ops F. cbv zeta. destruct (reach_C05_hyps ops F) as (BU & W & _). exact (C05_builders_vertex (run ops) BU W). Qed.
Print Assumptions C05_builders_vertex_in_every_reachable_state.

Theorem C05_builders_edge_in_every_reachable_state : forall ops, all_ok ops = true -> let s := run ops in ebu s = true ->
  (forall h, h < 2 * ne s ->
     ((forall hf, In hf (clist HEHF s h) <-> inc_hehf s h hf) /\ NoDup (clist HEHF s h)) /\
     ((forall f, In f (clist HEF s h) <-> inc_ef s (h / 2) f) /\ NoDup (clist HEF s h)) /\
     (fbu s = true -> (forall c, In c (clist HEC s h) <-> inc_hec s h c) /\ NoDup (clist HEC s h))) /\
  (forall e, e < ne s ->
     ((forall f, In f (clist EF s e) <-> inc_ef s e f) /\ NoDup (clist EF s e)) /\
     (forall hf, In hf (clist EHF s e) <-> inc_ehf s e hf) /\
     (fbu s = true -> (forall c, In c (clist EC s e) <-> inc_hec s (2 * e) c) /\ NoDup (clist EC s e))).
Proof. intros ops F. cbv zeta. destruct (reach_C05_hyps ops F) as (BU & W & _). exact (C05_builders_edge (run ops) BU W). Qed.
Print Assumptions C05_builders_edge_in_every_reachable_state.

Theorem C05_builders_cell_and_topdown_in_every_reachable_state : forall ops, all_ok ops = true -> let s := run ops in
  (forall c, fbu s = true -> live_c s c = true -> (forall c', In c' (clist CC s c) <-> inc_cc s c c') /\ NoDup (clist CC s c)) /\
  (forall hf, clist HFHE s hf = halfface s hf /\ clist HFE s hf = map half (halfface s hf) /\ clist HFV s hf = map (he_from s) (halfface s hf)) /\
  (forall f, clist FV s f = map (he_from s) (face_at s f) /\ clist FHE s f = face_at s f /\ clist FE s f = map half (face_at s f)) /\
  (forall c, clist CHF s c = cell_at s c /\ clist CF s c = map half (cell_at s c) /\
             (forall h, In h (clist CHE s c) <-> exists hf, In hf (cell_at s c) /\ In h (halfface s hf)) /\
             ((forall e, In e (clist CE s c) <-> exists hf h, In hf (cell_at s c) /\ In h (face_at s (hf / 2)) /\ h / 2 = e) /\ NoDup (clist CE s c)) /\
             ((forall v, In v (clist CV s c) <-> exists hf h, In hf (cell_at s c) /\ In h (face_at s (hf / 2)) /\ he_from s h = v) /\ NoDup (clist CV s c))).
Proof. intros ops F. cbv zeta. destruct (reach_C05_hyps ops F) as (BU & W & _). exact (C05_builders_cell_and_topdown (run ops) BU W). Qed.
Print Assumptions C05_builders_cell_and_topdown_in_every_reachable_state.

Theorem C05_boundary_iterators_in_every_reachable_state : forall ops (k : kind), all_ok ops = true -> let s := run ops in k <> KM ->
  bnd_has_inc k s = true ->
  (exists b e, bnd_begin k s = Some b /\
               b_trace (S (ent_n k s)) (ent_rdel k s) (ent_n k s) (is_boundary k s) b
               = Some (map Z.of_nat (filter (fun i => negb (ent_deleted k s i) && bdry k s i) (seq 0 (ent_n k s))), e) /\
               b_valid e = false) /\
  (forall i, i < ent_n k s -> ent_deleted k s i = false -> (bdry k s i = true <-> bnd_of k s i)).
Proof.
  intros ops k F. cbv zeta. intros K. destruct (reach_C05_hyps ops F) as (BU & W & FL).
  exact (C05_boundary_iterators k (run ops) K BU W FL).
Qed.
Print Assumptions C05_boundary_iterators_in_every_reachable_state.

Theorem C05_builders_bhfhf_in_every_reachable_state : forall ops, all_ok ops = true -> let s := run ops in
  ebu s = true -> fbu s = true ->
  forall hf, live_f s (hf / 2) = true ->
  forall x, In x (clist BHFHF s hf) <-> exists he, In he (halfface s hf) /\ inc_hehf s (opp he) x /\ bnd_hf s x.
Proof. intros ops F. cbv zeta. destruct (reach_C05_hyps ops F) as (BU & W & _). exact (C05_builders_bhfhf (run ops) BU W). Qed.
Print Assumptions C05_builders_bhfhf_in_every_reachable_state.

End C05.

(* ================================================================== C10 *)
Section C10.
Import Kernel.Mirror Kernel2.LookupModel Kernel2.ListAux Kernel2.AdjacentProofs Kernel2.LookupProofs Props.Properties_C10.

Theorem C10_hypotheses_in_every_reachable_state : forall ops, all_ok ops = true -> let s := run ops in
  wf_faces s /\ wf_cells s /\
  (vbu s = true -> vbu_exact s) /\ (ebu s = true -> ebu_exact s) /\
  (fbu s = true -> forall c, live_c s c = true -> cell_cache_ok s c /\ closed_cell s c) /\
  (forall c, live_c s c = true -> forall hf, In hf (cell_at s c) -> NoDup (halfface s hf)).
Proof. exact reach_C10_hyps. Qed.
Print Assumptions C10_hypotheses_in_every_reachable_state.

(* ---- find_halfedge *)
Theorem C10_find_halfedge_sound_in_every_reachable_state : forall ops v1 v2 h, all_ok ops = true -> let s := run ops in
  vbu s = true -> find_halfedge s v1 v2 = Some h ->
  live_he s h = true /\ he_from s h = v1 /\ he_to s h = v2.
Proof.
  intros ops v1 v2 h F. cbv zeta. intros V.
  exact (C10_find_halfedge_sound (run ops) v1 v2 h (full_inv_vbu_exact _ (full_inv_along_histories ops F) V)).
Qed.
Print Assumptions C10_find_halfedge_sound_in_every_reachable_state.

Theorem C10_find_halfedge_complete_in_every_reachable_state : forall ops v1 v2, all_ok ops = true -> let s := run ops in
  vbu s = true -> (exists h, live_he s h = true /\ he_from s h = v1 /\ he_to s h = v2) ->
  find_halfedge s v1 v2 <> None.
Proof.
  intros ops v1 v2 F. cbv zeta. intros V.
  exact (C10_find_halfedge_complete (run ops) v1 v2 (full_inv_vbu_exact _ (full_inv_along_histories ops F) V)).
Qed.
Print Assumptions C10_find_halfedge_complete_in_every_reachable_state.

(* ---- find_halfedge_in_cell *)
Theorem C10_find_halfedge_in_cell_live_in_every_reachable_state : forall ops v1 v2 c h, all_ok ops = true -> let s := run ops in
  live_c s c = true -> find_halfedge_in_cell s v1 v2 c = Some h -> live_he s h = true.
Proof.
  intros ops v1 v2 c h F. cbv zeta. pose proof (full_inv_along_histories ops F) as H.
  exact (C10_find_halfedge_in_cell_live (run ops) v1 v2 c h (full_inv_wf_faces _ H) (full_inv_wf_cells _ H)).
Qed.
Print Assumptions C10_find_halfedge_in_cell_live_in_every_reachable_state.

(* ---- find_halfface(halfedges) *)
Theorem C10_find_halfface_halfedges_sound_in_every_reachable_state : forall ops he0 he1 rest hf, all_ok ops = true -> let s := run ops in
  ebu s = true -> find_halfface_hes s (he0 :: he1 :: rest) = Some hf ->
  live_hf s hf = true /\ In he0 (halfface s hf) /\ In he1 (halfface s hf).
Proof.
  intros ops he0 he1 rest hf F. cbv zeta. intros E.
  exact (C10_find_halfface_halfedges_sound (run ops) he0 he1 rest hf (full_inv_ebu_exact _ (full_inv_along_histories ops F) E)).
Qed.
Print Assumptions C10_find_halfface_halfedges_sound_in_every_reachable_state.

Theorem C10_find_halfface_halfedges_complete_in_every_reachable_state : forall ops he0 he1 rest, all_ok ops = true -> let s := run ops in
  ebu s = true -> (exists hf, live_hf s hf = true /\ In he0 (halfface s hf) /\ In he1 (halfface s hf)) ->
  find_halfface_hes s (he0 :: he1 :: rest) <> None.
Proof.
  intros ops he0 he1 rest F. cbv zeta. intros E.
  exact (C10_find_halfface_halfedges_complete (run ops) he0 he1 rest (full_inv_ebu_exact _ (full_inv_along_histories ops F) E)).
Qed.
Print Assumptions C10_find_halfface_halfedges_complete_in_every_reachable_state.

(* two_halfedges_determine_halfface is a shape condition, not an invariant (C10_shape_conditions_are_not_invariants): it stays *)
Theorem C10_find_halfface_halfedges_full_in_every_reachable_state : forall ops he0 he1 rest hf, all_ok ops = true -> let s := run ops in
  ebu s = true -> two_halfedges_determine_halfface s -> he0 <> he1 ->
  R_halfface_hes_full s (he0 :: he1 :: rest) hf -> find_halfface_hes s (he0 :: he1 :: rest) = Some hf.
Proof.
  intros ops he0 he1 rest hf F. cbv zeta. intros E.
  exact (C10_find_halfface_halfedges_full (run ops) he0 he1 rest hf (full_inv_ebu_exact _ (full_inv_along_histories ops F) E)).
Qed.
Print Assumptions C10_find_halfface_halfedges_full_in_every_reachable_state.

(* ---- find_halfface(vertices) *)
Theorem C10_find_halfface_sound_in_every_reachable_state : forall ops v0 v1 v2 rest hf, all_ok ops = true -> let s := run ops in
  vbu s = true -> ebu s = true -> find_halfface_vs s (v0 :: v1 :: v2 :: rest) = Some hf ->
  R_halfface_doc s v0 v1 v2 hf.
Proof.
  intros ops v0 v1 v2 rest hf F. cbv zeta. intros V E. pose proof (full_inv_along_histories ops F) as H.
  exact (C10_find_halfface_sound (run ops) v0 v1 v2 rest hf (full_inv_vbu_exact _ H V) (full_inv_ebu_exact _ H E)).
Qed.
Print Assumptions C10_find_halfface_sound_in_every_reachable_state.

Theorem C10_find_halfface_complete_partial_in_every_reachable_state : forall ops v0 v1 v2 rest, all_ok ops = true -> let s := run ops in
  vbu s = true -> ebu s = true -> no_parallel_edges s ->
  (exists hf, R_halfface_doc s v0 v1 v2 hf) -> find_halfface_vs s (v0 :: v1 :: v2 :: rest) <> None.
Proof.
  intros ops v0 v1 v2 rest F. cbv zeta. intros V E. pose proof (full_inv_along_histories ops F) as H.
  exact (C10_find_halfface_complete_partial (run ops) v0 v1 v2 rest (full_inv_vbu_exact _ H V) (full_inv_ebu_exact _ H E)).
Qed.
Print Assumptions C10_find_halfface_complete_partial_in_every_reachable_state.

Theorem C10_prefix_relation_is_consecutive_vertices_in_every_reachable_state : forall ops v0 v1 v2 hf, all_ok ops = true -> let s := run ops in
  closed_face s hf -> simple_face s hf ->
  (R_halfface_doc s v0 v1 v2 hf <-> R_halfface_consec s v0 v1 v2 hf).
Proof.
  intros ops v0 v1 v2 hf F. cbv zeta.
  exact (C10_prefix_relation_is_consecutive_vertices (run ops) v0 v1 v2 hf (full_inv_wf_faces _ (full_inv_along_histories ops F))).
Qed.
Print Assumptions C10_prefix_relation_is_consecutive_vertices_in_every_reachable_state.

(* ---- find_halfface_extensive *)
Theorem C10_find_halfface_extensive_sound_in_every_reachable_state : forall ops v0 v1 v2 rest hf, all_ok ops = true -> let s := run ops in
  vbu s = true -> ebu s = true -> find_halfface_extensive s (v0 :: v1 :: v2 :: rest) = Some hf ->
  R_halfface_ext s (v0 :: v1 :: v2 :: rest) hf.
Proof.
  intros ops v0 v1 v2 rest hf F. cbv zeta. intros V E. pose proof (full_inv_along_histories ops F) as H.
  exact (C10_find_halfface_extensive_sound (run ops) v0 v1 v2 rest hf (full_inv_vbu_exact _ H V) (full_inv_ebu_exact _ H E)).
Qed.
Print Assumptions C10_find_halfface_extensive_sound_in_every_reachable_state.

Theorem C10_find_halfface_extensive_complete_partial_in_every_reachable_state : forall ops v0 v1 v2 rest, all_ok ops = true -> let s := run ops in
  vbu s = true -> ebu s = true -> no_parallel_edges s ->
  (exists hf, R_halfface_ext s (v0 :: v1 :: v2 :: rest) hf /\ closed_face s hf /\ NoDup (halfface s hf)) ->
  find_halfface_extensive s (v0 :: v1 :: v2 :: rest) <> None.
Proof.
  intros ops v0 v1 v2 rest F. cbv zeta. intros V E. pose proof (full_inv_along_histories ops F) as H.
  exact (C10_find_halfface_extensive_complete_partial (run ops) v0 v1 v2 rest (full_inv_vbu_exact _ H V) (full_inv_ebu_exact _ H E) (full_inv_wf_faces _ H)).
Qed.
Print Assumptions C10_find_halfface_extensive_complete_partial_in_every_reachable_state.

(* ... where, in a reachable state, "no halfedge twice" is automatic for the (live) halfface *)
Theorem C10_live_halffaces_duplicate_free_in_every_reachable_state : forall ops hf, all_ok ops = true -> let s := run ops in
  live_hf s hf = true -> NoDup (halfface s hf).
Proof. intros ops hf F. cbv zeta. exact (full_inv_live_halfface_nodup _ hf (full_inv_along_histories ops F)). Qed.
Print Assumptions C10_live_halffaces_duplicate_free_in_every_reachable_state.

(* ---- find_halfface_in_cell: live cell, face incidences on (a deferred-deleted cell is exempt: C10_deleted_cell_cache_refuted) *)
Theorem C10_find_halfface_in_cell_sound_in_every_reachable_state : forall ops v0 v1 v2 rest c hf, all_ok ops = true -> let s := run ops in
  fbu s = true -> live_c s c = true -> find_halfface_in_cell s (v0 :: v1 :: v2 :: rest) c = Some hf ->
  R_halfface_in_cell s v0 v1 v2 c hf.
Proof.
  intros ops v0 v1 v2 rest c hf F. cbv zeta. intros Fb L.
  exact (C10_find_halfface_in_cell_sound (run ops) v0 v1 v2 rest c hf (full_inv_cell_cache_ok_partial _ c (full_inv_along_histories ops F) Fb L)).
Qed.
Print Assumptions C10_find_halfface_in_cell_sound_in_every_reachable_state.

(* every live cell of a reachable state is closed and its halffaces are duplicate-free: completeness needs no shape premise *)
Theorem C10_find_halfface_in_cell_complete_in_every_reachable_state : forall ops v0 v1 v2 rest c, all_ok ops = true -> let s := run ops in
  fbu s = true -> live_c s c = true ->
  (exists hf, R_halfface_in_cell s v0 v1 v2 c hf) -> find_halfface_in_cell s (v0 :: v1 :: v2 :: rest) c <> None.
Proof.
  intros ops v0 v1 v2 rest c F. cbv zeta. intros Fb L. pose proof (full_inv_along_histories ops F) as H.
  exact (C10_find_halfface_in_cell_complete (run ops) v0 v1 v2 rest c (full_inv_closed_cell_partial _ c H Fb L) (full_inv_cell_halffaces_nodup _ c H L)).
Qed.
Print Assumptions C10_find_halfface_in_cell_complete_in_every_reachable_state.

(* ---- the C10 theorems WITHOUT a state hypothesis (find_halfedge_in_cell sound / complete, get_halfface_vertices x3, is_incident,
   n_vertices_in_cell, next / prev_halfedge_in_halfface) hold of every state, reachable or not; two instances for the record *)
Theorem C10_is_incident_in_every_reachable_state : forall ops f e, all_ok ops = true -> let s := run ops in
  is_incident s f e = true <-> exists h, In h (face_at s f) /\ h / 2 = e.
Proof. intros ops f e _. exact (C10_is_incident (run ops) f e). Qed.
Print Assumptions C10_is_incident_in_every_reachable_state.

Theorem C10_get_halfface_vertices_in_every_reachable_state : forall ops hf, all_ok ops = true -> let s := run ops in
  get_halfface_vertices s hf = map (he_from s) (halfface s hf).
Proof. intros ops hf _. exact (C10_get_halfface_vertices (run ops) hf). Qed.
Print Assumptions C10_get_halfface_vertices_in_every_reachable_state.

(* ---- what does NOT hold in every reachable state *)
Theorem C10_unconditional_cache_hypotheses_refuted : exists ops, all_ok ops = true /\ ~ vbu_exact (run ops) /\ ~ ebu_exact (run ops).
Proof. exact vbu_exact_unconditional_refuted. Qed.
Print Assumptions C10_unconditional_cache_hypotheses_refuted.

Theorem C10_deleted_cell_cache_refuted : exists ops c, all_ok ops = true /\ fbu (run ops) = true /\ c < nc (run ops) /\ ~ cell_cache_ok (run ops) c.
Proof. exact cell_cache_ok_deleted_refuted. Qed.
Print Assumptions C10_deleted_cell_cache_refuted.

Theorem C10_shape_conditions_are_not_invariants :
  (exists ops, all_ok ops = true /\ ~ no_parallel_edges (run ops)) /\
  (exists ops, all_ok ops = true /\ ~ two_halfedges_determine_halfface (run ops)) /\
  (exists ops hf, all_ok ops = true /\ live_hf (run ops) hf = true /\ ~ closed_face (run ops) hf) /\
  (exists ops hf, all_ok ops = true /\ live_hf (run ops) hf = true /\ ~ simple_face (run ops) hf).
Proof. exact (conj no_parallel_edges_refuted (conj two_halfedges_determine_halfface_refuted (conj closed_face_refuted simple_face_refuted))). Qed.
Print Assumptions C10_shape_conditions_are_not_invariants.

End C10.

(* ================================================================== non-vacuity *)

(* two tetrahedra glued on a face, then delete_cell 0 in deferred mode: the history is in the class, cell 0 stays in its slot flagged,
   cell 1 is live and all three incidence kinds are on (so every premise above is satisfiable);  and the first 25 operations of
   Kernel4/AllExample.v (three tetrahedra, a deferred fast delete_cell, swaps, a cell re-added, a deferred delete_vertex) *)
Example C05_C10_history_example :
  let ops := [AddVertices 5;
              AddFaceV [0;1;2]; AddFaceV [0;2;3]; AddFaceV [0;3;1]; AddFaceV [1;3;2]; AddCell [0;2;4;6] true;
              AddFaceV [1;2;4]; AddFaceV [2;3;4]; AddFaceV [3;1;4]; AddCell [7;9;11;13] true;
              EnableDeferred true; DelCell 0] in
  all_ok ops = true /\ nc (run ops) = 2 /\ live_c (run ops) 0 = false /\ live_c (run ops) 1 = true /\
  vbu (run ops) = true /\ ebu (run ops) = true /\ fbu (run ops) = true /\
  all_ok (firstn 25 all_example) = true.
Proof. exact reach_example. Qed.
