(* Props/Properties_C08.v -- C08: opposite half-entities are exact mirror images.
   Statements only; every proof is `exact <lemma>`; Print Assumptions under each theorem. *)
From Coq Require Import ZArith List.
From OVM Require Import Base.Int32 Gen.Handles Kernel.State Kernel.Ops Base.HandleBridge Kernel.Mirror.
Import ListNotations.

(* -- conversions edge<->halfedge, face<->halfface, sub-index: mutually inverse for EVERY representable
      index (i < 2^30 so that 2i+1 is an int); stated on the leaves regenerated from Handles.hh *)
Theorem C08_conv_half_full_subidx : forall i s : Z, (0 <= i < 2 ^ 30)%Z -> (0 <= s <= 1)%Z ->
  in_int32 (EH_half i s) /\ HEH_full (EH_half i s) = i /\ HEH_subidx (EH_half i s) = s /\
  HEH_opp (EH_half i s) = EH_half i (1 - s).
Proof.
  intros i s Hi Hs. repeat split.
  - exact (proj1 (proj2 (half_in_range i s Hi Hs))).
  - exact (proj2 (proj2 (half_in_range i s Hi Hs))).
  - exact (full_half i s Hi Hs).
  - exact (subidx_half i s Hi Hs).
  - exact (opp_half i s Hi Hs).
Qed.
Print Assumptions C08_conv_half_full_subidx.

Theorem C08_opp_twice_identity : forall h : Z, (0 <= h < 2 ^ 31)%Z -> HEH_opp (HEH_opp h) = h.
Proof. exact opp_opp. Qed.
Print Assumptions C08_opp_twice_identity.

Theorem C08_face_family_and_statics_agree :
  ((forall i, HFH_full i = HEH_full i) /\ (forall i, HFH_opp i = HEH_opp i) /\
   (forall i, HFH_subidx i = HEH_subidx i) /\ (forall i s, FH_half i s = EH_half i s)) /\
  ((forall h, TK_edge_handle h = HEH_full h) /\ (forall h, TK_face_handle h = HFH_full h) /\
   (forall h, TK_opposite_halfedge_handle h = HEH_opp h) /\ (forall h, TK_opposite_halfface_handle h = HFH_opp h) /\
   (forall e s, (0 <= s <= 1)%Z -> TK_halfedge_handle e s = EH_half e s) /\
   (forall f s, (0 <= s <= 1)%Z -> TK_halfface_handle f s = FH_half f s)).
Proof. exact (conj face_family_same statics_agree). Qed.
Print Assumptions C08_face_family_and_statics_agree.

(* -- the nat arithmetic of the kernel model IS the regenerated leaf on every representable handle *)
Theorem C08_model_uses_the_leaves : forall n : nat, rep n ->
  Z.of_nat (n / 2) = HEH_full (Z.of_nat n) /\ Z.of_nat (n mod 2) = HEH_subidx (Z.of_nat n) /\
  Z.of_nat (opp n) = HEH_opp (Z.of_nat n).
Proof. intros n H. exact (conj (bridge_full n H) (conj (bridge_subidx n H) (bridge_opp n H))). Qed.
Print Assumptions C08_model_uses_the_leaves.

(* -- kernel level, every mesh state *)
Theorem C08_opposite_halfedge_swaps_endpoints : forall (s : mesh) (h : nat),
  he_from s (opp h) = he_to s h /\ he_to s (opp h) = he_from s h /\ opp (opp h) = h /\ opp h <> h.
Proof. intros s h. exact (conj (he_from_opp s h) (conj (he_to_opp s h) (conj (opp_involutive h) (opp_neq h)))). Qed.
Print Assumptions C08_opposite_halfedge_swaps_endpoints.

Theorem C08_opposite_halfface_reversed_opposites : forall (s : mesh) (hf : nat),
  halfface s (opp hf) = rev (map opp (halfface s hf)) /\ halfface s (opp (opp hf)) = halfface s hf.
Proof. intros s hf. exact (conj (halfface_opp s hf) (halfface_opp_opp s hf)). Qed.
Print Assumptions C08_opposite_halfface_reversed_opposites.

(* -- closedness: the topology check accepts exactly closed loops, and the other side of a closed
      face is the same cycle traversed the other way round *)
Theorem C08_topology_check_is_closedness : forall (s : mesh) (hes : list nat),
  loop_ok s hes = true <-> closed_cycle s hes.
Proof. exact loop_ok_spec. Qed.
Print Assumptions C08_topology_check_is_closedness.

Theorem C08_mirror_of_closed_is_closed : forall (s : mesh) (hf : nat),
  closed_cycle s (halfface s hf) -> closed_cycle s (halfface s (opp hf)).
Proof. intros s hf H. rewrite halfface_opp. exact (closed_cycle_mirror s _ H). Qed.
Print Assumptions C08_mirror_of_closed_is_closed.

(* non-vacuity: a concrete triangle satisfies the hypotheses *)
Example C08_triangle_closed :
  let s := run [AddVertices 3; AddFaceV [0; 1; 2]] in
  loop_ok s (halfface s 0) = true /\ loop_ok s (halfface s 1) = true /\ halfface s 1 = [5; 3; 1].
Proof. vm_compute. repeat split. Qed.
