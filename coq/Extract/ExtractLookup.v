(* Extract/ExtractLookup.v -- the kernel model (step) together with the lookup models of
   Kernel2/LookupModel.v, extracted for the lock-step run of ocaml/lookupdriver.ml against
   harness/run_lookup.cc.  ExtrOcamlBasic only; nat/Z stay the extracted inductive types. *)
From Coq Require Import ExtrOcamlBasic.
From OVM Require Import Kernel.Ops Kernel2.LookupModel.
Extraction Language OCaml.
Set Extraction Optimize.
Extraction "lookup_model.ml"
  empty_mesh step valid_op exec props count n_logical needs_gc
  live_v live_e live_f live_c
  he_from he_to halfface opp cell_at face_at cell_of
  adjacent_halfface_in_cell hf_is_open
  find_halfedge find_halfedge_in_cell find_halfface_hes find_halfface_vs find_halfface_in_cell
  find_halfface_extensive next_halfedge_in_halfface prev_halfedge_in_halfface
  get_halfface_vertices get_halfface_vertices_v get_halfface_vertices_he
  is_incident n_vertices_in_cell closed_cell_b.
