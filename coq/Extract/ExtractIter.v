(* Extract/ExtractIter.v -- kernel model + iterator/circulator model, extracted for the lock-step run of
   harness/run_iter.cc against ocaml/iterdriver.ml.  ExtrOcamlBasic only; no Extract Constant. *)
From Coq Require Import ExtrOcamlBasic.
From OVM Require Import Kernel.Ops Iter.Builders.
Extraction Language OCaml.
Set Extraction Optimize.
Extraction "iter_model.ml"
  empty_mesh step valid_op exec props count n_logical
  live_v live_e live_f live_c
  clist centre circ_begin circ_next circ_prev c_make_end c_eqb
  valence is_boundary
  ent_n ent_begin ent_next ent_prev e_eqb
  bnd_has_inc bnd_begin bnd_next bnd_prev.
