(* Extract/ExtractOvmb.v -- extraction of the OVMB models (writer `encode`, reader `decode_impl`, the description-only
   `decode_spec`) for the byte-level correspondence.  ExtrOcamlBasic only; Z/positive/nat stay the extracted inductive
   types; no Extract Constant. *)
From Coq Require Import ExtrOcamlBasic.
From OVM Require Import IO.Bytes IO.OvmbWriterModel IO.OvmbReaderModel IO.OvmbSpec.
Extraction Language OCaml.
Set Extraction Optimize.
Extraction "ovmb_model.ml"
  encode write_result detect_topo wf_fileb codec_of
  decode_impl decode_impl_failing decode_spec f32_to_f64_bits le_encode le_decode.
