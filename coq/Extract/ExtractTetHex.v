(* Extract/ExtractTetHex.v -- extraction of the tet/hex models (C15, C16) for the lock-step
   correspondence, plus the glue that turns query results into canonical "Q" lines: the enumeration of
   the batch queries (which cells / halffaces / halfedges / labels, in which order) is done HERE, in Coq,
   so that the OCaml driver only prints.  ExtrOcamlBasic only; no Extract Constant. *)
From Coq Require Import ExtrOcamlBasic.
From OVM Require Import Kernel.Ops Mesh.TetModel Mesh.TetTopoModel Mesh.HexModel Mesh.HexIterModel.
From OVM Require Import Base.Int32 Gen.TetLabels Gen.HexOrient.
Local Open Scope nat_scope.

(* a query line: tag (name table in ocaml/thdriver.ml and harness/th_common.hh), arguments, result
   (None = UB; entries None = invalid handle / nullopt) *)
Definition qres := ub (list (option nat)).
Definition qline := (nat * list nat * qres)%type.

Definition ol (l : list nat) : list (option nat) := map Some l.
Definition oh (r : ub (option nat)) : qres := option_map (fun o => [o]) r.
Definition zl (o : option Z) : option nat := option_map Z.to_nat o.
Definition b2o (b : bool) : option nat := Some (if b then 1 else 0).

(* ---- tet *)
Definition q_cv s c : qres := option_map ol (gcv_c s c).
Definition q_cvv s c v : qres := option_map ol (gcv_c_v s c v).
Definition q_cvh s hf : qres := option_map ol (gcv_hf s hf).
Definition q_cvhe s hf he : qres := option_map ol (gcv_hf_he s hf he).
Definition q_hov s hf : qres := oh (halfface_opposite_vertex s hf).
Definition q_voh s c v : qres := oh (vertex_opposite_halfface s c v).
Definition q_tvi s c laps : qres := option_map ol (tet_iter s c laps).

Definition lbl_of {A} (acc : option nat) (f : nat -> option A) (g : A -> option nat) : option nat :=
  match acc with Some h => match f h with Some l => g l | None => None end | None => None end.

Definition tri_dump (o : option tritopo) : list (option nat) :=
  match o with Some t => tr_vh t ++ tr_heh t | None => repeat None 6 end.

Definition tt_dump (t : ttopo) : list (option nat) :=
  map (tt_vh_l t) VL_all ++ map (tt_heh_l t) HEL_all ++ map (tt_hfh_l t) HFL_all
  ++ map (fun l => lbl_of (tt_vh_l t l) (tt_label_v t) (fun z => Some (Z.to_nat z))) VL_all
  ++ map (fun l => lbl_of (tt_heh_l t l) (tt_label_he t) (fun z => Some (Z.to_nat z))) HEL_all
  ++ map (fun l => lbl_of (tt_hfh_l t l) (tt_label_hf t) (fun z => Some (Z.to_nat z))) HFL_all
  ++ map (fun l => if HFL_has_start l then
                     match tt_hfh_l t l, tt_vh_l t (TT_hfl_vl l 0) with
                     | Some hf, Some v => zl (tt_label_hf_v t hf v)
                     | _, _ => None
                     end
                   else None) HFL_all
  ++ flat_map (fun l => if HFL_has_start l then tri_dump (tt_triangle t l) else []) HFL_all.

Definition q_tt s c hf (a : option nat) : qres := option_map tt_dump (tt_make s c hf a).
Definition q_tth s hf (a : option nat) : qres := option_map tt_dump (tt_make_hf s hf a).
Definition q_ttcv s c a : qres := option_map tt_dump (tt_make_c_v s c a).
Definition q_ttc s c : qres := option_map tt_dump (tt_make_c s c).
Definition q_ttok s c hf (a : option nat) : qres := option_map (fun t => [b2o (tt_consistent s c t)]) (tt_make s c hf a).
Definition q_tri s hf (a : option nat) : qres :=
  option_map (fun t => tri_dump (Some t)) (match a with Some a => tri_make_v s hf a | None => tri_make s hf end).

(* tags *)
Definition T_cv := 1. Definition T_cvv := 2. Definition T_cvh := 3. Definition T_cvhe := 4.
Definition T_hov := 5. Definition T_voh := 6. Definition T_tvi := 7.
Definition T_tt := 8. Definition T_tth := 9. Definition T_ttcv := 10. Definition T_ttc := 11.
Definition T_ttok := 12. Definition T_tri := 13.
Definition T_hv := 20. Definition T_or := 21. Definition T_opp := 22. Definition T_goh := 23.
Definition T_sheet := 24. Definition T_surf := 25. Definition T_csc := 26. Definition T_hfshf := 27.
Definition T_layout := 28. Definition T_orth := 29.

Definition dedup (l : list nat) : list nat :=
  fold_left (fun acc x => if memb x acc then acc else acc ++ [x]) l [].

(* all tet queries of one cell: the cell, each of its halffaces (and the opposite one), each halfedge and
   vertex of each halfface: all 24 (halfface, start) choices *)
Definition q_tet_cell (s : mesh) (c : nat) : list qline :=
  let hfs := cell_at s c in
  let vs := dedup (flat_map (hf_vertices s) hfs) in
  [(T_cv, [c], q_cv s c); (T_tvi, [c; 2], q_tvi s c 2); (T_ttc, [c], q_ttc s c)]
  ++ flat_map (fun v => [(T_cvv, [c; v], q_cvv s c v); (T_voh, [c; v], q_voh s c v); (T_ttcv, [c; v], q_ttcv s c v)]) vs
  ++ flat_map (fun hf =>
       [(T_cvh, [hf], q_cvh s hf); (T_hov, [hf], q_hov s hf);
        (T_cvh, [opp hf], q_cvh s (opp hf)); (T_hov, [opp hf], q_hov s (opp hf));
        (T_tri, [hf], q_tri s hf None)]
       ++ flat_map (fun he => [(T_cvhe, [hf; he], q_cvhe s hf he)]) (halfface s hf)
       ++ flat_map (fun v => [(T_tt, [c; hf; v], q_tt s c hf (Some v)); (T_ttok, [c; hf; v], q_ttok s c hf (Some v));
                              (T_tth, [hf; v], q_tth s hf (Some v)); (T_tri, [hf; v], q_tri s hf (Some v))])
                   (hf_vertices s hf)) hfs.

Definition q_tet_all (s : mesh) : list qline := flat_map (q_tet_cell s) (live_cells s).

(* ---- hex *)
Definition q_hv s c : qres := option_map ol (hex_vertices s c).
Definition q_or s hf c : qres := Some [Some (Z.to_nat (orientation s hf c))].
Definition q_opp s hf c : qres := oh (opposite_halfface_in_cell s hf c).
Definition q_goh s (o : nat) c : qres := oh (get_oriented_halfface s (Z.of_nat o) c).
Definition q_sheet s hf he : qres := Some [adjacent_halfface_on_sheet s hf he].
Definition q_surf s hf he : qres := Some [adjacent_halfface_on_surface s hf he].
Definition q_csc s c (d : nat) : qres := Some (ol (cell_sheet_cells s c (Z.of_nat d))).
Definition q_hfshf s hf : qres := Some (flat_map (fun p => [Some (fst p); Some (snd p)]) (halfface_sheet_halffaces s hf)).
Definition q_layout s c : qres := Some [b2o (hex_layout s (cell_at s c))].
Definition q_orth (a b : nat) : qres :=
  Some [Some (Z.to_nat (HEX_orthogonal_orientation (Z.of_nat a) (Z.of_nat b))); Some (Z.to_nat (HEX_opposite_orientation (Z.of_nat a)))].

Definition q_hex_cell (s : mesh) (c : nat) : list qline :=
  let hfs := cell_at s c in
  [(T_hv, [c], q_hv s c); (T_layout, [c], q_layout s c)]
  ++ map (fun d => (T_goh, [d; c], q_goh s d c)) (seq 0 7)
  ++ map (fun d => (T_csc, [c; d], q_csc s c d)) (seq 0 7)
  ++ flat_map (fun hf =>
       [(T_or, [hf; c], q_or s hf c); (T_or, [opp hf; c], q_or s (opp hf) c); (T_opp, [hf; c], q_opp s hf c);
        (T_hfshf, [hf], q_hfshf s hf); (T_hfshf, [opp hf], q_hfshf s (opp hf))]
       ++ flat_map (fun he => [(T_sheet, [hf; he], q_sheet s hf he); (T_sheet, [opp hf; he], q_sheet s (opp hf) he);
                               (T_surf, [opp hf; opp he], q_surf s (opp hf) (opp he))])
                   (halfface s hf)) hfs.

Definition q_hex_all (s : mesh) : list qline := flat_map (q_hex_cell s) (live_cells s).

Definition q_orth_all : list qline :=
  flat_map (fun a => map (fun b => (T_orth, [a; b], q_orth a b)) (seq 0 7)) (seq 0 7).

Extraction Language OCaml.
Set Extraction Optimize.
Extraction "th_model.ml"
  empty_mesh step valid_op exec props count
  tet_step hex_step
  q_cv q_cvv q_cvh q_cvhe q_hov q_voh q_tvi q_tt q_tth q_ttcv q_ttc q_ttok q_tri q_tet_all
  q_hv q_or q_opp q_goh q_sheet q_surf q_csc q_hfshf q_layout q_orth q_hex_all q_orth_all
  T_cv T_cvv T_cvh T_cvhe T_hov T_voh T_tvi T_tt T_tth T_ttcv T_ttc T_ttok T_tri
  T_hv T_or T_opp T_goh T_sheet T_surf T_csc T_hfshf T_layout T_orth.
