(* Extract/Extract.v -- extraction of the executable models to OCaml for the lock-step
   correspondence.  ExtrOcamlBasic only (bool, option, list, prod, unit, sumbool -> OCaml's);
   nat, positive, Z stay the extracted inductive types; no Extract Constant. *)
From Coq Require Import ExtrOcamlBasic.
From OVM Require Import Kernel.Ops Kernel.InvB Kernel.StatusGC.
Extraction Language OCaml.
Set Extraction Optimize.
Extraction "ovm_model.ml"
  empty_mesh step valid_op exec props count n_logical needs_gc
  live_v live_e live_f live_c
  he_from he_to halfface opp
  adjacent_halfface_in_cell
  inv_report valid_b status_gc.
