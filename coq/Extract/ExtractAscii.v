(* Extract/ExtractAscii.v -- extraction of the OVM-ASCII models (istream-lite, reader, writer) for the token-level and
   file-level correspondence.  ExtrOcamlBasic only; Z/positive/nat stay the extracted inductive types; no Extract Constant.
   The floating-point conversions (conv_d / conv_f / print_d / print_f) are Section variables of the models and therefore
   ordinary function arguments of the extracted code: ocaml/asciidriver.ml passes strtod / "%g" based implementations. *)
From Coq Require Import ExtrOcamlBasic.
From OVM Require Import IO.AsciiStream IO.AsciiReaderModel IO.AsciiWriterModel Kernel.Ops.
Extraction Language OCaml.
Set Extraction Optimize.
Extraction "ascii_model.ml"
  of_bytes get_num get_char get_word getline read_n get_float float_scan print_Z
  read_ascii write_ascii type_name type_of_name entity_name bs empty_mesh needs_gc.
