(* Extract/ExtractLeaf.v -- the regenerated leaves, extracted for the leaf-level differential run. *)
From Coq Require Import ExtrOcamlBasic.
From OVM Require Import Base.Int32 Gen.Handles.
Extraction Language OCaml.
Extraction "leaf_model.ml"
  HEH_subidx HEH_full HEH_opp HFH_subidx HFH_full HFH_opp EH_half FH_half Handle_is_valid
  TK_halfedge_handle TK_halfface_handle TK_edge_handle TK_face_handle
  TK_opposite_halfedge_handle TK_opposite_halfface_handle
  VCorr_correctValue HECorr_correctValue HFCorr_correctValue CCorr_correctValue.
