(* Extract/ExtractReg.v -- extraction of the registry / copy model (Reg/RegistryModel.v) for the lock-step
   correspondence with harness/run_registry.cc.  ExtrOcamlBasic only; nat and Z stay inductive. *)
From Coq Require Import ExtrOcamlBasic.
From OVM Require Import Reg.RegistryModel.
Extraction Language OCaml.
Set Extraction Optimize.
Extraction "reg_model.ml"
  empty_world rstep get_st get_mesh get_h tracked_k pers_k all_kinds held
  find_prop count props.
