(* Extract/ExtractGeo.v -- extraction of the vector / geometry models (C19) together with the kernel step
   function (mesh states for the geometric queries).  ExtrOcamlBasic only; nat, positive, Z, Q stay the
   extracted inductive types; no Extract Constant. *)
From Coq Require Import ExtrOcamlBasic QArith.
From OVM Require Import Kernel.Ops Geo.VecModel Geo.GeoModel.
Extraction Language OCaml.
Set Extraction Optimize.
Extraction "geo_model.ml"
  Zops Uops Qops Qred
  vadd vsub vmul vdiv vscale vscale_left vsdiv vneg veq vneq vlt dot cross sqrnorm l1_norm l8_norm
  vmax vmin max_abs min_abs mean mean_abs minimize maximize minimized maximized vmin2 vmax2
  vectorize homogenized vout vin vconvert
  conv_int_uint conv_uint_int conv_int_q conv_q_int
  empty_mesh step live_v live_e live_f live_c ne nf nc he_from he_to halfface
  geo_vector_he geo_vector_e geo_sqrlen_he geo_sqrlen_e geo_normal_raw geo_normal_degenerate
  geo_bary_edge geo_bary_face geo_bary_cell geo_face_vertices geo_cell_vertices.
