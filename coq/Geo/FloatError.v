(* Geo/FloatError.v -- forward error bounds for the reductions of the binary64 model (Geo/FloatModel.v) in the
   model's (= the C++ code's) evaluation order: recursive summation of products for dot / sqrnorm, plain sums,
   sqrt, division.  u = 2^-53 (unit roundoff), eta = 2^-1075 (half the smallest subnormal: the absolute error of
   one rounding that underflows).  Built on Flocq's Prop/Relative.v (error_N_FLT, relative_error_N_FLT_ex),
   Prop/Plus_error.v (FLT_plus_error_N_ex: a floating-point ADDITION has a pure relative error, also in the
   subnormal range) and Prop/Div_sqrt_error.v (sqrt_error_N_FLT_ex). *)
From Coq Require Import List ZArith Reals Bool Lia Lra Psatz.
From Flocq Require Import Core.Core Relative Plus_error Div_sqrt_error
  IEEE754.BinarySingleNaN IEEE754.Binary IEEE754.Bits.
From OVM Require Import Geo.VecModel Geo.VecProofs Geo.FloatModel Geo.FloatProofs.
Import ListNotations.
Local Open Scope R_scope.

Definition u64 : R := bpow radix2 (-53).
Definition eta64 : R := bpow radix2 (-1075).
Definition tiny64 : R := bpow radix2 (-1022).          (* smallest positive normal number *)

Lemma u64_pos : 0 < u64.  Proof. apply bpow_gt_0. Qed.
Lemma u64_lt_1 : u64 < 1.  Proof. change 1 with (bpow radix2 0). apply bpow_lt. lia. Qed.
Lemma eta64_pos : 0 < eta64.  Proof. apply bpow_gt_0. Qed.

Lemma half_bpow (e : Z) : / 2 * bpow radix2 (e + 1) = bpow radix2 e.
Proof. rewrite bpow_plus_1. simpl. field. Qed.

Lemma u64_eq : / 2 * bpow radix2 (- (53) + 1) = u64.
Proof. change (- (53) + 1)%Z with (-53 + 1)%Z. apply half_bpow. Qed.
Lemma eta64_eq : / 2 * bpow radix2 (-1074) = eta64.
Proof. change (-1074)%Z with (-1075 + 1)%Z. apply half_bpow. Qed.

Lemma u_ro_u64 : u_ro radix2 53 = u64.
Proof. unfold u_ro. apply u64_eq. Qed.

(* ------------------------------------------------------------------------------ one rounding *)
(* any real: relative error u or absolute error eta *)
Lemma rnd64_error x : exists d e, Rabs d <= u64 /\ Rabs e <= eta64 /\ rnd64 x = x * (1 + d) + e.
Proof.
  destruct (error_N_FLT radix2 (-1074) 53 ltac:(lia) (fun t => negb (Z.even t)) x) as (d & e & Hd & He & _ & Hr).
  exists d, e. rewrite u64_eq in Hd. rewrite eta64_eq in He. auto.
Qed.

(* no underflow: |x| at least the smallest normal number (or x = 0) *)
Lemma rnd64_error_normal x : x = 0 \/ tiny64 <= Rabs x -> exists d, Rabs d <= u64 /\ rnd64 x = x * (1 + d).
Proof.
  intros [H|H].
  - exists 0. rewrite Rabs_R0. split; [apply Rlt_le, u64_pos|]. subst x. rewrite rnd64_0. ring.
  - destruct (relative_error_N_FLT_ex radix2 (-1074) 53 ltac:(lia) (fun t => negb (Z.even t)) x H) as (d & Hd & Hr).
    exists d. rewrite u64_eq in Hd. auto.
Qed.

(* addition of two representable numbers: pure relative error, also when the sum is subnormal *)
Lemma rnd64_error_add x y : format64 x -> format64 y -> exists d, Rabs d <= u64 /\ rnd64 (x + y) = (x + y) * (1 + d).
Proof.
  intros Fx Fy.
  destruct (@FLT_plus_error_N_ex radix2 (-1074) 53 Hprec64 (fun t => negb (Z.even t)) x y Fx Fy) as (d & Hd & Hr).
  exists d. split; [|exact Hr].
  eapply Rle_trans; [exact Hd|]. rewrite <- u_ro_u64. apply (u_rod1pu_ro_le_u_ro radix2 53).
Qed.

(* ------------------------------------------------------------------------------ (1+u)^k - 1 *)
Definition E64 (k : nat) : R := (1 + u64) ^ k - 1.

Lemma pow1u_ge_1 k : 1 <= (1 + u64) ^ k.
Proof. apply pow_R1_Rle. pose proof u64_pos. lra. Qed.
Lemma E64_nonneg k : 0 <= E64 k.
Proof. unfold E64. pose proof (pow1u_ge_1 k). lra. Qed.
Lemma E64_S k : E64 (S k) = E64 k * (1 + u64) + u64.
Proof. unfold E64. simpl. ring. Qed.
Lemma E64_mono k k' : (k <= k')%nat -> E64 k <= E64 k'.
Proof. intros H. unfold E64. apply Rplus_le_compat_r. apply Rle_pow; [pose proof u64_pos; lra | exact H]. Qed.

(* (1+u)^n - 1 <= gamma_n = n u / (1 - n u) *)
Lemma pow1u_gamma k : (1 + u64) ^ k * (1 - INR k * u64) <= 1.
Proof.
  induction k as [|k IH]; [simpl; lra|].
  rewrite S_INR. simpl pow. pose proof u64_pos as U. pose proof (pow1u_ge_1 k) as P.
  assert ((1 + u64) * (1 - (INR k + 1) * u64) <= 1 - INR k * u64) by (pose proof (pos_INR k); nra).
  apply Rle_trans with ((1 + u64) ^ k * (1 - INR k * u64)); [|exact IH].
  rewrite (Rmult_comm (1 + u64)), Rmult_assoc. apply Rmult_le_compat_l; [lra | exact H].
Qed.
Definition gamma64 (k : nat) : R := INR k * u64 / (1 - INR k * u64).
Lemma E64_le_gamma k : INR k * u64 < 1 -> E64 k <= gamma64 k.
Proof.
  intros H. unfold E64, gamma64. pose proof (pow1u_gamma k) as G.
  assert (D : 0 < 1 - INR k * u64) by lra.
  apply Rmult_le_reg_r with (1 - INR k * u64); [exact D|].
  unfold Rdiv. rewrite Rmult_assoc, Rinv_l by lra. lra.
Qed.

(* ------------------------------------------------------------------------------ real sums *)
Definition Rsum (l : list R) : R := fold_right Rplus 0 l.

Lemma Rsum_abs_ge l : Rabs (Rsum l) <= Rsum (map Rabs l).
Proof.
  induction l as [|x l IH]; simpl; [rewrite Rabs_R0; lra|].
  eapply Rle_trans; [apply Rabs_triang|]. lra.
Qed.
Lemma Rsum_abs_nonneg l : 0 <= Rsum (map Rabs l).
Proof. induction l as [|x l IH]; simpl; [lra|]. pose proof (Rabs_pos x). lra. Qed.

(* ------------------------------------------------------------------------------ the two step inequalities *)
Lemma abs_1pd d : Rabs d <= u64 -> Rabs (1 + d) <= 1 + u64.
Proof. intros H. eapply Rle_trans; [apply Rabs_triang|]. rewrite Rabs_R1. lra. Qed.

Lemma abs_mul_le a b x y : Rabs a <= x -> Rabs b <= y -> Rabs (a * b) <= x * y.
Proof. intros Ha Hb. rewrite Rabs_mult. apply Rmult_le_compat; try apply Rabs_pos; assumption. Qed.

(* accumulating one rounded product: acc' = round(acc + round(p)) *)
Lemma step_dot (j : nat) (eta a S p d1 d2 e1 A : R) :
  0 <= eta -> Rabs d1 <= u64 -> Rabs d2 <= u64 -> Rabs e1 <= eta -> Rabs S <= A ->
  Rabs (a - S) <= E64 (Datatypes.S j) * A + INR (Datatypes.S j) * (1 + u64) ^ j * eta ->
  Rabs ((a + (p * (1 + d1) + e1)) * (1 + d2) - (S + p)) <=
    E64 (Datatypes.S (Datatypes.S j)) * (A + Rabs p) + INR (Datatypes.S (Datatypes.S j)) * (1 + u64) ^ (Datatypes.S j) * eta.
Proof.
  intros He Hd1 Hd2 He1 HS Ha.
  pose proof u64_pos as U. pose proof (pow1u_ge_1 j) as X1. pose proof (Rabs_pos p) as P0. pose proof (pos_INR j) as J0.
  assert (A0 : 0 <= A) by (pose proof (Rabs_pos S); lra).
  replace ((a + (p * (1 + d1) + e1)) * (1 + d2) - (S + p))
    with ((a - S) * (1 + d2) + S * d2 + p * (d1 + d2 + d1 * d2) + e1 * (1 + d2)) by ring.
  set (B := E64 (Datatypes.S j) * A + INR (Datatypes.S j) * (1 + u64) ^ j * eta) in *.
  assert (T1 : Rabs ((a - S) * (1 + d2)) <= B * (1 + u64)) by (apply abs_mul_le; [assumption | apply abs_1pd; assumption]).
  assert (T2 : Rabs (S * d2) <= A * u64) by (apply abs_mul_le; assumption).
  assert (T3 : Rabs (p * (d1 + d2 + d1 * d2)) <= Rabs p * (u64 + u64 + u64 * u64)).
  { apply abs_mul_le; [lra|]. eapply Rle_trans; [apply Rabs_triang|]. apply Rplus_le_compat.
    - eapply Rle_trans; [apply Rabs_triang|]. lra.
    - apply abs_mul_le; assumption. }
  assert (T4 : Rabs (e1 * (1 + d2)) <= eta * (1 + u64)) by (apply abs_mul_le; [assumption | apply abs_1pd; assumption]).
  eapply Rle_trans; [apply Rabs_triang|]. eapply Rle_trans; [apply Rplus_le_compat; [apply Rabs_triang | exact T4]|].
  eapply Rle_trans; [apply Rplus_le_compat_r, Rplus_le_compat; [apply Rabs_triang | exact T3]|].
  eapply Rle_trans; [apply Rplus_le_compat_r, Rplus_le_compat_r, Rplus_le_compat; [exact T1 | exact T2]|].
  unfold B, E64. rewrite !S_INR. simpl pow. set (X := (1 + u64) ^ j) in *.
  assert (K : (X * (1 + u64) * (1 + u64) - 1) * (A + Rabs p) + (INR j + 1 + 1) * (X * (1 + u64)) * eta
              - (((X * (1 + u64) - 1) * A + (INR j + 1) * X * eta) * (1 + u64) + A * u64 + Rabs p * (u64 + u64 + u64 * u64) + eta * (1 + u64))
              = Rabs p * ((X - 1) * ((1 + u64) * (1 + u64))) + eta * ((1 + u64) * (X - 1))) by ring.
  assert (0 <= Rabs p * ((X - 1) * ((1 + u64) * (1 + u64)))) by (apply Rmult_le_pos; [assumption|]; apply Rmult_le_pos; [lra|]; apply Rmult_le_pos; lra).
  assert (0 <= eta * ((1 + u64) * (X - 1))) by (apply Rmult_le_pos; [assumption|]; apply Rmult_le_pos; lra).
  replace ((1 + u64) * X) with (X * (1 + u64)) by ring. replace ((1 + u64) * (X * (1 + u64))) with (X * (1 + u64) * (1 + u64)) by ring.
  lra.
Qed.

(* accumulating one summand: acc' = round(acc + x) *)
Lemma step_sum (k : nat) (a S x d A : R) :
  Rabs d <= u64 -> Rabs S <= A -> Rabs (a - S) <= E64 k * A ->
  Rabs ((a + x) * (1 + d) - (S + x)) <= E64 (Datatypes.S k) * (A + Rabs x).
Proof.
  intros Hd HS Ha. pose proof u64_pos as U. pose proof (E64_nonneg k) as E0. pose proof (Rabs_pos x) as P0.
  assert (A0 : 0 <= A) by (pose proof (Rabs_pos S); lra).
  replace ((a + x) * (1 + d) - (S + x)) with ((a - S) * (1 + d) + (S + x) * d) by ring.
  assert (T1 : Rabs ((a - S) * (1 + d)) <= E64 k * A * (1 + u64)) by (apply abs_mul_le; [assumption | apply abs_1pd; assumption]).
  assert (T2 : Rabs ((S + x) * d) <= (A + Rabs x) * u64).
  { apply abs_mul_le; [|assumption]. eapply Rle_trans; [apply Rabs_triang|]. lra. }
  eapply Rle_trans; [apply Rabs_triang|]. rewrite E64_S.
  assert (0 <= E64 k * (1 + u64) * Rabs x) by (apply Rmult_le_pos; [apply Rmult_le_pos; lra | assumption]).
  nra.
Qed.

(* ------------------------------------------------------------------------------ dot product / sqrnorm
   operator| : std::inner_product(data()+1, data()+DIM, rhs+1, a0*b0), i.e. acc = round(a0 b0);
   acc = round(acc + round(a_i b_i)) for i = 1 .. DIM-1 *)
Definition prodR (p : binary64 * binary64) : R := D2R (fst p) * D2R (snd p).
Definition dacc (ps : list (binary64 * binary64)) (acc : binary64) : binary64 :=
  fold_left (fun acc p => sadd Dops acc (smul Dops (fst p) (snd p))) ps acc.

Lemma dot_dacc x y a b : dot Dops (x :: a) (y :: b) = dacc (combine a b) (b64_mult mode_NE x y).
Proof. reflexivity. Qed.

Lemma dacc_fin : forall ps acc, fin64 (dacc ps acc) -> fin64 acc.
Proof.
  induction ps as [|p ps IH]; intros acc H; simpl in *; [exact H|].
  apply IH in H. cbn [sadd smul Dops] in H. apply fin_add_inv in H. tauto.
Qed.

(* the rounding error of one product: relative u plus absolute eta (eta = eta64 always; eta = 0 without underflow) *)
Definition mul_err (eta : R) (p : binary64 * binary64) : Prop :=
  exists d e, Rabs d <= u64 /\ Rabs e <= eta /\ rnd64 (prodR p) = prodR p * (1 + d) + e.

Lemma mul_err_always p : mul_err eta64 p.
Proof. destruct (rnd64_error (prodR p)) as (d & e & H). exists d, e. exact H. Qed.
Lemma mul_err_normal p : prodR p = 0 \/ tiny64 <= Rabs (prodR p) -> mul_err 0 p.
Proof.
  intros H. destruct (rnd64_error_normal _ H) as (d & Hd & Hr). exists d, 0. rewrite Rabs_R0.
  split; [exact Hd|]. split; [lra|]. rewrite Hr. ring.
Qed.

Lemma dacc_bound (eta : R) : 0 <= eta -> forall ps acc S A j,
  fin64 (dacc ps acc) -> Forall (mul_err eta) ps -> Rabs S <= A ->
  Rabs (D2R acc - S) <= E64 (Datatypes.S j) * A + INR (Datatypes.S j) * (1 + u64) ^ j * eta ->
  Rabs (D2R (dacc ps acc) - (S + Rsum (map prodR ps))) <=
    E64 (Datatypes.S j + length ps) * (A + Rsum (map Rabs (map prodR ps)))
    + INR (Datatypes.S j + length ps) * (1 + u64) ^ (j + length ps) * eta.
Proof.
  intros He. induction ps as [|p ps IH]; intros acc S A j F M HS Ha.
  - simpl. rewrite !Nat.add_0_r, !Rplus_0_r. exact Ha.
  - simpl dacc in *. inversion M as [|p' ps' Mp Mps]; subst.
    pose proof (dacc_fin _ _ F) as F1. cbn [sadd smul Dops] in F, F1 |- *.
    destruct (fin_add_inv _ _ F1) as (Facc & Fprod). destruct (fin_mul_inv _ _ Fprod) as (Fp1 & Fp2).
    destruct Mp as (d1 & e1 & Hd1 & He1 & Hr1).
    assert (Eprod : D2R (b64_mult mode_NE (fst p) (snd p)) = prodR p * (1 + d1) + e1).
    { rewrite (proj2 (d_mul_correct _ _ Fp1 Fp2) Fprod). exact Hr1. }
    destruct (rnd64_error_add _ _ (format64_D2R acc) (format64_D2R (b64_mult mode_NE (fst p) (snd p)))) as (d2 & Hd2 & Hr2).
    assert (Eacc : D2R (b64_plus mode_NE acc (b64_mult mode_NE (fst p) (snd p))) = (D2R acc + (prodR p * (1 + d1) + e1)) * (1 + d2)).
    { rewrite (proj2 (d_add_correct _ _ Facc Fprod) F1), Hr2, Eprod. reflexivity. }
    specialize (IH (b64_plus mode_NE acc (b64_mult mode_NE (fst p) (snd p))) (S + prodR p) (A + Rabs (prodR p)) (Datatypes.S j) F Mps).
    simpl map. simpl Rsum. simpl length.
    replace (Datatypes.S j + Datatypes.S (length ps))%nat with (Datatypes.S (Datatypes.S j) + length ps)%nat by lia.
    replace (j + Datatypes.S (length ps))%nat with (Datatypes.S j + length ps)%nat by lia.
    replace (S + (prodR p + Rsum (map prodR ps))) with (S + prodR p + Rsum (map prodR ps)) by ring.
    replace (A + (Rabs (prodR p) + Rsum (map Rabs (map prodR ps)))) with (A + Rabs (prodR p) + Rsum (map Rabs (map prodR ps))) by ring.
    apply IH.
    + eapply Rle_trans; [apply Rabs_triang|]. lra.
    + rewrite Eacc. apply step_dot; assumption.
Qed.

Definition pairsR (x y : list binary64) : list R := map prodR (combine x y).

Theorem dot_error_gen (eta : R) x y : 0 <= eta -> length x = length y -> x <> [] ->
  Forall (mul_err eta) (combine x y) -> fin64 (dot Dops x y) ->
  Rabs (D2R (dot Dops x y) - Rsum (pairsR x y)) <=
    E64 (length x) * Rsum (map Rabs (pairsR x y)) + INR (length x) * (1 + u64) ^ (length x - 1) * eta.
Proof.
  intros He L Nx M F. destruct x as [|x0 x]; [congruence|]. destruct y as [|y0 y]; [discriminate L|].
  rewrite dot_dacc in *. simpl combine in M. inversion M as [|p' ps' Mp Mps]; subst.
  pose proof (dacc_fin _ _ F) as F0. destruct (fin_mul_inv _ _ F0) as (Fx & Fy).
  destruct Mp as (d1 & e1 & Hd1 & He1 & Hr1). unfold prodR in Hr1. simpl fst in Hr1. simpl snd in Hr1.
  pose proof (dacc_bound eta He (combine x y) (b64_mult mode_NE x0 y0) (D2R x0 * D2R y0) (Rabs (D2R x0 * D2R y0)) 0%nat F Mps (Rle_refl _)) as B.
  unfold pairsR. simpl combine. simpl map. simpl Rsum. simpl length.
  assert (Lc : length (combine x y) = length x) by (rewrite combine_length; simpl in L; lia).
  rewrite Lc in B. simpl Nat.add in B.
  replace (Datatypes.S (length x) - 1)%nat with (length x) by lia.
  change (prodR (x0, y0)) with (D2R x0 * D2R y0). apply B.
  rewrite (proj2 (d_mul_correct _ _ Fx Fy) F0), Hr1. simpl pow. simpl INR. unfold E64. simpl pow.
  replace (D2R x0 * D2R y0 * (1 + d1) + e1 - D2R x0 * D2R y0) with (D2R x0 * D2R y0 * d1 + e1) by ring.
  eapply Rle_trans; [apply Rabs_triang|].
  assert (Rabs (D2R x0 * D2R y0 * d1) <= Rabs (D2R x0 * D2R y0) * u64) by (apply abs_mul_le; [lra | assumption]).
  lra.
Qed.

(* always: with the absolute underflow term n (1+u)^(n-1) 2^-1075 *)
Theorem dot_error x y : length x = length y -> x <> [] -> fin64 (dot Dops x y) ->
  Rabs (D2R (dot Dops x y) - Rsum (pairsR x y)) <=
    E64 (length x) * Rsum (map Rabs (pairsR x y)) + INR (length x) * (1 + u64) ^ (length x - 1) * eta64.
Proof.
  intros L Nx F. apply dot_error_gen; try assumption; [apply Rlt_le, eta64_pos|].
  apply Forall_forall. intros p _. apply mul_err_always.
Qed.

(* no product underflows (each exact product is 0 or at least 2^-1022 in magnitude): pure relative bound *)
Definition no_underflow (l : list R) : Prop := Forall (fun p => p = 0 \/ tiny64 <= Rabs p) l.

Theorem dot_error_no_underflow x y : length x = length y -> x <> [] -> fin64 (dot Dops x y) ->
  no_underflow (pairsR x y) ->
  Rabs (D2R (dot Dops x y) - Rsum (pairsR x y)) <= E64 (length x) * Rsum (map Rabs (pairsR x y)).
Proof.
  intros L Nx F NU.
  pose proof (dot_error_gen 0 x y (Rle_refl _) L Nx) as B. rewrite Rmult_0_r, Rplus_0_r in B. apply B; [|exact F].
  unfold no_underflow, pairsR in NU. rewrite Forall_map in NU.
  eapply Forall_impl; [|exact NU]. intros p Hp. apply mul_err_normal. exact Hp.
Qed.

(* gamma_n form (n u < 1: any n below 2^53) *)
Corollary dot_error_gamma x y : length x = length y -> x <> [] -> fin64 (dot Dops x y) ->
  no_underflow (pairsR x y) -> INR (length x) * u64 < 1 ->
  Rabs (D2R (dot Dops x y) - Rsum (pairsR x y)) <= gamma64 (length x) * Rsum (map Rabs (pairsR x y)).
Proof.
  intros L Nx F NU G. eapply Rle_trans; [apply dot_error_no_underflow; assumption|].
  apply Rmult_le_compat_r; [apply Rsum_abs_nonneg | apply E64_le_gamma; exact G].
Qed.

(* sqrnorm = dot with itself (same accumulation); all terms are squares *)
Definition squaresR (x : list binary64) : list R := map (fun c => D2R c * D2R c) x.

Lemma pairsR_self x : pairsR x x = squaresR x.
Proof. unfold pairsR, squaresR. induction x as [|c x IH]; simpl; [reflexivity|]. rewrite IH. reflexivity. Qed.

Lemma squares_abs x : map Rabs (squaresR x) = squaresR x.
Proof.
  unfold squaresR. induction x as [|c x IH]; simpl; [reflexivity|]. rewrite IH. f_equal.
  apply Rabs_pos_eq. apply Rle_0_sqr.
Qed.

Theorem sqrnorm_error x : x <> [] -> fin64 (sqrnorm Dops x) ->
  Rabs (D2R (sqrnorm Dops x) - Rsum (squaresR x)) <=
    E64 (length x) * Rsum (squaresR x) + INR (length x) * (1 + u64) ^ (length x - 1) * eta64.
Proof.
  intros Nx F. rewrite sqrnorm_dot in *. pose proof (dot_error x x eq_refl Nx F) as B.
  rewrite pairsR_self, squares_abs in B. exact B.
Qed.

Theorem sqrnorm_error_no_underflow x : x <> [] -> fin64 (sqrnorm Dops x) -> no_underflow (squaresR x) ->
  Rabs (D2R (sqrnorm Dops x) - Rsum (squaresR x)) <= E64 (length x) * Rsum (squaresR x).
Proof.
  intros Nx F NU. rewrite sqrnorm_dot in *. rewrite <- pairsR_self in NU.
  pose proof (dot_error_no_underflow x x eq_refl Nx F NU) as B.
  rewrite pairsR_self, squares_abs in B. exact B.
Qed.

(* ------------------------------------------------------------------------------ norm = sqrt(sqrnorm) *)
Lemma sqrt_le_self t : 1 <= t -> sqrt t <= t.
Proof.
  intros H. rewrite <- (sqrt_square t) at 2 by lra. apply sqrt_le_1_alt. nra.
Qed.
Lemma sqrt_ge_self t : 0 <= t <= 1 -> t <= sqrt t.
Proof.
  intros H. rewrite <- (sqrt_square t) at 1 by lra. apply sqrt_le_1_alt. nra.
Qed.

(* a relative perturbation eps of the radicand perturbs the square root by at most eps (relative) *)
Lemma sqrt_perturb N s eps : 0 <= N -> 0 <= eps -> Rabs (s - N) <= eps * N -> Rabs (sqrt s - sqrt N) <= eps * sqrt N.
Proof.
  intros HN He H. apply Rabs_le_inv in H. pose proof (sqrt_pos N) as SN. pose proof (sqrt_pos s) as Ss.
  apply Rabs_le. split.
  - destruct (Rle_or_lt eps 1) as [E1|E1].
    + assert (L : sqrt (N * (1 - eps)) <= sqrt s) by (apply sqrt_le_1_alt; lra).
      rewrite sqrt_mult in L by lra. pose proof (sqrt_ge_self (1 - eps) ltac:(lra)). nra.
    + nra.
  - assert (L : sqrt s <= sqrt (N * (1 + eps))) by (apply sqrt_le_1_alt; lra).
    rewrite sqrt_mult in L by lra. pose proof (sqrt_le_self (1 + eps) ltac:(lra)). nra.
Qed.

Lemma rnd64_sqrt_error x : exists d, Rabs d <= u64 /\ rnd64 (sqrt (D2R x)) = sqrt (D2R x) * (1 + d).
Proof.
  destruct (@sqrt_error_N_FLT_ex radix2 53 Hprec64 (fun t => negb (Z.even t)) ltac:(lia) (-1074)%Z ltac:(lia) (D2R x) (format64_D2R x))
    as (d & Hd & Hr).
  exists d. split; [|exact Hr].
  eapply Rle_trans; [exact Hd|]. eapply Rle_trans; [apply om1ds1p2u_ro_le_u_rod1pu_ro|].
  rewrite <- u_ro_u64. apply (u_rod1pu_ro_le_u_ro radix2 53).
Qed.

Definition norm2R (x : list binary64) : R := Rsum (squaresR x).       (* the exact squared norm *)

Lemma norm2R_nonneg x : 0 <= norm2R x.
Proof. unfold norm2R. rewrite <- squares_abs. apply Rsum_abs_nonneg. Qed.

(* norm(): relative error (1+u)^(n+1) - 1 when sqrnorm neither overflows nor has an underflowing square *)
Theorem norm_error x : x <> [] -> fin64 (sqrnorm Dops x) -> no_underflow (squaresR x) ->
  Rabs (D2R (fnorm Dops d_sqrt x) - sqrt (norm2R x)) <= E64 (S (length x)) * sqrt (norm2R x).
Proof.
  intros Nx F NU. unfold fnorm. rewrite d_sqrt_correct.
  destruct (rnd64_sqrt_error (sqrnorm Dops x)) as (d & Hd & Hr). rewrite Hr.
  pose proof (sqrnorm_error_no_underflow x Nx F NU) as B. fold (norm2R x) in B.
  pose proof (sqrt_perturb _ _ _ (norm2R_nonneg x) (E64_nonneg (length x)) B) as P.
  set (s := sqrt (D2R (sqrnorm Dops x))) in *. set (n := sqrt (norm2R x)) in *.
  replace (s * (1 + d) - n) with ((s - n) * (1 + d) + n * d) by ring.
  pose proof (sqrt_pos (norm2R x)) as N0. fold n in N0. pose proof (E64_nonneg (length x)) as E0. pose proof u64_pos.
  assert (T1 : Rabs ((s - n) * (1 + d)) <= E64 (length x) * n * (1 + u64)) by (apply abs_mul_le; [exact P | apply abs_1pd; exact Hd]).
  assert (T2 : Rabs (n * d) <= n * u64) by (apply abs_mul_le; [rewrite Rabs_pos_eq; lra | exact Hd]).
  eapply Rle_trans; [apply Rabs_triang|]. rewrite E64_S. nra.
Qed.

(* ------------------------------------------------------------------------------ normalized() = x / norm() *)
(* relative error factor of one component: (u + eps)/(1 - eps) with eps = (1+u)^(n+1) - 1 *)
Definition K64 (n : nat) : R := (u64 + E64 (S n)) / (1 - E64 (S n)).

Lemma quotient_perturb (xi nrm n d th eps : R) :
  0 < n -> 0 <= eps < 1 -> Rabs th <= eps -> Rabs d <= u64 -> nrm = n * (1 + th) ->
  Rabs (xi / nrm * (1 + d) - xi / n) <= (u64 + eps) / (1 - eps) * (Rabs xi / n).
Proof.
  intros Hn He Hth Hd En. apply Rabs_le_inv in Hth.
  assert (P : 0 < 1 + th) by lra. subst nrm.
  replace (xi / (n * (1 + th)) * (1 + d) - xi / n) with (xi / n * ((d - th) / (1 + th))) by (field; lra).
  rewrite Rabs_mult. rewrite (Rmult_comm ((u64 + eps) / (1 - eps))).
  unfold Rdiv at 1. rewrite Rabs_mult, (Rabs_inv n), (Rabs_pos_eq n) by lra. fold (Rdiv (Rabs xi) n).
  apply Rmult_le_compat_l; [apply Rmult_le_pos; [apply Rabs_pos | apply Rlt_le, Rinv_0_lt_compat; lra]|].
  unfold Rdiv. rewrite Rabs_mult, (Rabs_inv (1 + th)), (Rabs_pos_eq (1 + th)) by lra.
  apply Rmult_le_compat; [apply Rabs_pos | apply Rlt_le, Rinv_0_lt_compat; lra | | apply Rinv_le_contravar; lra].
  apply Rabs_le_inv in Hd. apply Rabs_le. lra.
Qed.

Theorem normalized_error (dflt : binary64) x i : x <> [] -> (i < length x)%nat ->
  fin64 (sqrnorm Dops x) -> no_underflow (squaresR x) -> 0 < norm2R x -> E64 (S (length x)) < 1 ->
  let q := D2R (nth i x dflt) / sqrt (norm2R x) in                   (* the exact component x_i / ||x|| *)
  let r := nth i (fnormalized Dops d_sqrt x) dflt in
  fin64 (nth i x dflt) -> fin64 r ->
  Rabs (D2R r - q) <= K64 (length x) * Rabs q + eta64.
Proof.
  intros Nx Hi F NU Npos E1. cbv zeta. unfold fnormalized. rewrite (vsdiv_nth Dops dflt) by exact Hi.
  cbn [sdiv Dops]. intros Fxi Fr.
  pose proof (norm_error x Nx F NU) as B. set (n := sqrt (norm2R x)) in *.
  assert (Hn : 0 < n) by (apply sqrt_lt_R0; exact Npos).
  set (nrm := D2R (fnorm Dops d_sqrt x)) in *.
  set (th := (nrm - n) / n).
  assert (Enrm : nrm = n * (1 + th)) by (unfold th; field; lra).
  assert (Hth : Rabs th <= E64 (S (length x))).
  { unfold th. unfold Rdiv. rewrite Rabs_mult, (Rabs_inv n), (Rabs_pos_eq n) by lra.
    apply Rmult_le_reg_r with n; [exact Hn|]. rewrite Rmult_assoc, Rinv_l by lra. lra. }
  assert (Nz : nrm <> 0). { rewrite Enrm. apply Rabs_le_inv in Hth. nra. }
  rewrite (proj2 (d_div_correct _ _ Fxi Nz) Fr). fold nrm.
  destruct (rnd64_error (D2R (nth i x dflt) / nrm)) as (d & e & Hd & He & Hr). rewrite Hr.
  set (xi := D2R (nth i x dflt)) in *.
  replace (xi / nrm * (1 + d) + e - xi / n) with ((xi / nrm * (1 + d) - xi / n) + e) by ring.
  eapply Rle_trans; [apply Rabs_triang|]. apply Rplus_le_compat; [|exact He].
  unfold K64. replace (Rabs (xi / n)) with (Rabs xi / n) by (unfold Rdiv; rewrite Rabs_mult, (Rabs_inv n), (Rabs_pos_eq n) by lra; reflexivity).
  apply quotient_perturb with (th := th); try assumption. split; [apply E64_nonneg | exact E1].
Qed.

(* ------------------------------------------------------------------------------ the constants for DIM = 2, 3, 4 *)
Lemma u64_val : u64 = / 9007199254740992.
Proof. unfold u64. change (-53)%Z with (- (53))%Z. rewrite bpow_opp. f_equal. Qed.
Lemma u64_small : u64 <= / 1000.
Proof. rewrite u64_val. lra. Qed.

Lemma E_small (n : nat) (u : R) : 0 <= u -> u <= / 1000 -> (n <= 5)%nat -> (1 + u) ^ n - 1 <= (INR n + / 10) * u.
Proof.
  intros H0 H1 Hn.
  assert (C : (n = 0 \/ n = 1 \/ n = 2 \/ n = 3 \/ n = 4 \/ n = 5)%nat) by lia.
  destruct C as [C|[C|[C|[C|[C|C]]]]]; subst n; simpl; try nra.
Qed.

Lemma E64_lt_1 (n : nat) : (n <= 5)%nat -> E64 n < 1.
Proof.
  intros Hn. unfold E64. pose proof u64_pos as U. pose proof u64_small as Sm.
  pose proof (E_small n u64 ltac:(lra) Sm Hn) as E.
  assert (INR n <= 5) by (replace 5 with (INR 5) by (simpl; lra); apply le_INR; exact Hn).
  pose proof (pos_INR n). nra.
Qed.

(* normalized(): k = DIM + 3 units in the last place of relative error *)
Lemma K64_small (n : nat) : (2 <= n <= 4)%nat -> K64 n <= (INR n + 3) * u64.
Proof.
  intros Hn. unfold K64, E64. pose proof u64_pos as U. pose proof u64_small as Sm.
  pose proof (E_small (S n) u64 ltac:(lra) Sm ltac:(lia)) as E. rewrite S_INR in E.
  pose proof (pow1u_ge_1 (S n)) as P1.
  assert (N : 2 <= INR n <= 4) by (split; [replace 2 with (INR 2) by (simpl; lra) | replace 4 with (INR 4) by (simpl; lra)]; apply le_INR; lia).
  set (X := (1 + u64) ^ S n - 1) in *.
  assert (D : 0 < 1 - X) by nra.
  apply Rmult_le_reg_r with (1 - X); [exact D|]. unfold Rdiv. rewrite Rmult_assoc, Rinv_l by lra.
  assert (X0 : 0 <= X) by (unfold X; lra).
  assert (H1 : X <= 51 / 10 * u64) by nra.
  assert (H2 : u64 * X <= u64 * (51 / 10 * / 1000)) by (apply Rmult_le_compat_l; lra).
  assert (H3 : INR n * (u64 * X) <= 4 * (u64 * (51 / 10 * / 1000))) by (apply Rmult_le_compat; nra).
  nra.
Qed.
