(* Geo/FloatExact.v -- integer-valued doubles: as long as every intermediate integer stays below 2^53 in
   magnitude, the binary64 model of + - * negation, dot and cross (Geo/FloatModel.v, Dops) computes EXACTLY the
   integer results of the Z model (Geo/VecModel.v, Zops) of Props/Properties_C19.v.  This links the
   floating-point leg to the exact theorems. *)
From Coq Require Import List ZArith Reals Bool Lia Lra.
From Flocq Require Import Core.Core IEEE754.BinarySingleNaN IEEE754.Binary IEEE754.Bits.
From OVM Require Import Geo.VecModel Geo.VecProofs Geo.FloatModel Geo.FloatProofs.
Import ListNotations.
Local Open Scope Z_scope.

(* the double x is finite and its value is the integer z *)
Definition isint (x : binary64) (z : Z) : Prop := fin64 x /\ D2R x = IZR z.

Lemma format64_IZR z : Z.abs z < 2 ^ 53 -> format64 (IZR z).
Proof.
  intros H. unfold format64, fexp64. apply generic_format_FLT.
  apply (FLT_spec radix2 (-1074) 53 (IZR z) (Float radix2 z 0)).
  - unfold F2R. simpl. ring.
  - simpl Fnum. exact H.
  - simpl. lia.
Qed.

Lemma IZR_below_ovf z : Z.abs z < 2 ^ 53 -> (Rabs (IZR z) < ovf64)%R.
Proof.
  intros H. rewrite <- abs_IZR. unfold ovf64.
  apply Rlt_trans with (IZR (2 ^ 53)); [apply IZR_lt; exact H|].
  change (IZR (2 ^ 53)) with (bpow radix2 53). apply bpow_lt. lia.
Qed.

Lemma rnd64_IZR z : Z.abs z < 2 ^ 53 -> rnd64 (IZR z) = IZR z.
Proof. intros H. apply rnd64_format, format64_IZR, H. Qed.

Lemma isint_add x y a b : isint x a -> isint y b -> Z.abs (a + b) < 2 ^ 53 -> isint (b64_plus mode_NE x y) (a + b).
Proof.
  intros (Fx & Ex) (Fy & Ey) H. destruct (d_add_correct x y Fx Fy) as (A & B).
  rewrite Ex, Ey, <- plus_IZR, rnd64_IZR in A, B by exact H.
  assert (F : fin64 (b64_plus mode_NE x y)) by (apply A, IZR_below_ovf, H). split; auto.
Qed.

Lemma isint_sub x y a b : isint x a -> isint y b -> Z.abs (a - b) < 2 ^ 53 -> isint (b64_minus mode_NE x y) (a - b).
Proof.
  intros (Fx & Ex) (Fy & Ey) H. destruct (d_sub_correct x y Fx Fy) as (A & B).
  rewrite Ex, Ey, <- minus_IZR, rnd64_IZR in A, B by exact H.
  assert (F : fin64 (b64_minus mode_NE x y)) by (apply A, IZR_below_ovf, H). split; auto.
Qed.

Lemma isint_mul x y a b : isint x a -> isint y b -> Z.abs (a * b) < 2 ^ 53 -> isint (b64_mult mode_NE x y) (a * b).
Proof.
  intros (Fx & Ex) (Fy & Ey) H. destruct (d_mul_correct x y Fx Fy) as (A & B).
  rewrite Ex, Ey, <- mult_IZR, rnd64_IZR in A, B by exact H.
  assert (F : fin64 (b64_mult mode_NE x y)) by (apply A, IZR_below_ovf, H). split; auto.
Qed.

Lemma isint_neg x a : isint x a -> isint (b64_opp x) (- a).
Proof.
  intros (Fx & Ex). destruct (d_neg_correct x) as (A & B). split; [apply B, Fx|]. rewrite A, Ex, opp_IZR. reflexivity.
Qed.

(* static_cast<double>(int): exact *)
Lemma isint_of_Z z : Z.abs z < 2 ^ 53 -> isint (d_of_Z z) z.
Proof.
  intros H. unfold isint, fin64, D2R, d_of_Z.
  generalize (binary_normalize_correct 53 1024 Hprec64 Hemax64 mode_NE z 0 false).
  change (round_mode mode_NE) with ZnearestE. change (SpecFloat.fexp 53 1024) with fexp64.
  assert (E : F2R (Float radix2 z 0) = IZR z) by (unfold F2R; simpl; ring).
  rewrite E. fold (rnd64 (IZR z)). rewrite rnd64_IZR by exact H.
  rewrite Rlt_bool_true by (apply IZR_below_ovf, H). intros (A & B & _). auto.
Qed.

(* ------------------------------------------------------------------------------ vectors *)
Definition small (B : Z) (l : list Z) : Prop := Forall (fun z => Z.abs z <= B) l.

Lemma isint_map2 (f : binary64 -> binary64 -> binary64) (g : Z -> Z -> Z) (B : Z) :
  (forall x y a b, isint x a -> isint y b -> Z.abs a <= B -> Z.abs b <= B -> isint (f x y) (g a b)) ->
  forall xs ys zs ws, Forall2 isint xs zs -> Forall2 isint ys ws -> small B zs -> small B ws ->
  Forall2 isint (map2 f xs ys) (map2 g zs ws).
Proof.
  intros H xs ys zs ws Hx. revert ys ws. induction Hx as [|x z xs zs Hxz Hx IH]; intros ys ws Hy Sz Sw; simpl; [constructor|].
  destruct Hy as [|y w ys ws Hyw Hy]; simpl; [constructor|].
  inversion Sz; inversion Sw; subst. constructor; [apply H; assumption | apply IH; assumption].
Qed.

Lemma isint_map (f : binary64 -> binary64) (g : Z -> Z) :
  (forall x a, isint x a -> isint (f x) (g a)) -> forall xs zs, Forall2 isint xs zs -> Forall2 isint (map f xs) (map g zs).
Proof. intros H xs zs Hx. induction Hx; simpl; constructor; auto. Qed.

Lemma isint_map_of_Z zs : small (2 ^ 53 - 1) zs -> Forall2 isint (map d_of_Z zs) zs.
Proof. intros H. induction H as [|z zs Hz H IH]; simpl; constructor; [apply isint_of_Z; lia | exact IH]. Qed.

Section Exact.
  Variables (xs ys : list binary64) (a b : list Z).
  Hypothesis Hx : Forall2 isint xs a.
  Hypothesis Hy : Forall2 isint ys b.

  (* + - : components below 2^52;  * and cross: components below 2^26 *)
  Lemma exact_vadd : small (2 ^ 52 - 1) a -> small (2 ^ 52 - 1) b -> Forall2 isint (vadd Dops xs ys) (vadd Zops a b).
  Proof. intros Sa Sb. unfold vadd. cbn [sadd Dops Zops]. apply (isint_map2 _ _ (2 ^ 52 - 1)); try assumption. intros. apply isint_add; try assumption. lia. Qed.
  Lemma exact_vsub : small (2 ^ 52 - 1) a -> small (2 ^ 52 - 1) b -> Forall2 isint (vsub Dops xs ys) (vsub Zops a b).
  Proof. intros Sa Sb. unfold vsub. cbn [ssub Dops Zops]. apply (isint_map2 _ _ (2 ^ 52 - 1)); try assumption. intros. apply isint_sub; try assumption. lia. Qed.
  Lemma exact_vmul : small (2 ^ 26) a -> small (2 ^ 26) b -> Forall2 isint (vmul Dops xs ys) (vmul Zops a b).
  Proof. intros Sa Sb. unfold vmul. cbn [smul Dops Zops]. apply (isint_map2 _ _ (2 ^ 26)); try assumption. intros. apply isint_mul; try assumption. nia. Qed.
  Lemma exact_vneg : Forall2 isint (vneg Dops xs) (vneg Zops a).
  Proof. unfold vneg. cbn [sneg Dops Zops]. apply isint_map; [apply isint_neg | assumption]. Qed.

  Lemma exact_cross : small (2 ^ 26 - 1) a -> small (2 ^ 26 - 1) b -> length a = 3%nat -> length b = 3%nat ->
    Forall2 isint (cross Dops xs ys) (cross Zops a b).
  Proof.
    intros Sa Sb La Lb.
    destruct a as [|a0 [|a1 [|a2 [|]]]]; try discriminate La. destruct b as [|b0 [|b1 [|b2 [|]]]]; try discriminate Lb.
    inversion Hx as [|x0 ? xs1 ? I0 Hx1]; subst. inversion Hx1 as [|x1 ? xs2 ? I1 Hx2]; subst. inversion Hx2 as [|x2 ? xs3 ? I2 Hx3]; subst. inversion Hx3; subst.
    inversion Hy as [|y0 ? ys1 ? J0 Hy1]; subst. inversion Hy1 as [|y1 ? ys2 ? J1 Hy2]; subst. inversion Hy2 as [|y2 ? ys3 ? J2 Hy3]; subst. inversion Hy3; subst.
    unfold small in Sa, Sb. rewrite !Forall_cons_iff in Sa, Sb. destruct Sa as (A0 & A1 & A2 & _), Sb as (B0 & B1 & B2 & _).
    cbn [cross ssub smul Dops Zops].
    assert (M : forall p q, Z.abs p <= 2 ^ 26 - 1 -> Z.abs q <= 2 ^ 26 - 1 -> Z.abs (p * q) <= (2 ^ 26 - 1) * (2 ^ 26 - 1))
      by (intros p q Hp Hq; rewrite Z.abs_mul; apply Z.mul_le_mono_nonneg; lia).
    assert (T : forall x y z w p q r t, isint x p -> isint y q -> isint z r -> isint w t ->
                Z.abs p <= 2 ^ 26 - 1 -> Z.abs q <= 2 ^ 26 - 1 -> Z.abs r <= 2 ^ 26 - 1 -> Z.abs t <= 2 ^ 26 - 1 ->
                isint (b64_minus mode_NE (b64_mult mode_NE x y) (b64_mult mode_NE z w)) (p * q - r * t)).
    { intros x y z w p q r t Ix Iy Iz Iw Hp Hq Hr Ht. pose proof (M p q Hp Hq). pose proof (M r t Hr Ht).
      apply isint_sub; [apply isint_mul; try assumption; lia | apply isint_mul; try assumption; lia | lia]. }
    constructor; [apply T; assumption | constructor; [apply T; assumption | constructor; [apply T; assumption | constructor]]].
  Qed.
End Exact.

(* ------------------------------------------------------------------------------ dot product, any dimension:
   n components bounded by B with n * B * B < 2^53 *)
Definition zacc (zs : list (Z * Z)) (s : Z) : Z := fold_left (fun acc p => acc + fst p * snd p) zs s.

Lemma dot_Z_zacc x y a b : dot Zops (x :: a) (y :: b) = zacc (combine a b) (x * y).
Proof. reflexivity. Qed.

Lemma dacc_exact (B : Z) : 0 <= B -> forall ps zs acc s k,
  Forall2 (fun p z => isint (fst p) (fst z) /\ isint (snd p) (snd z) /\ Z.abs (fst z) <= B /\ Z.abs (snd z) <= B) ps zs ->
  isint acc s -> Z.abs s <= k * (B * B) -> 0 <= k -> (k + Z.of_nat (length ps)) * (B * B) < 2 ^ 53 ->
  isint (fold_left (fun acc p => sadd Dops acc (smul Dops (fst p) (snd p))) ps acc) (zacc zs s).
Proof.
  intros HB ps zs acc s k H. revert acc s k. induction H as [|p z ps zs (I1 & I2 & B1 & B2) H IH]; intros acc s k Ia Hs Hk Hn; simpl; [exact Ia|].
  cbn [sadd smul Dops]. change (length (p :: ps)) with (S (length ps)) in Hn. rewrite Nat2Z.inj_succ in Hn.
  assert (P : Z.abs (fst z * snd z) <= B * B) by (rewrite Z.abs_mul; apply Z.mul_le_mono_nonneg; lia).
  apply (IH _ _ (k + 1)); try lia.
  apply isint_add; [exact Ia | apply isint_mul; try assumption; nia | nia].
Qed.

Lemma Forall2_len {A C : Type} (R : A -> C -> Prop) l l' : Forall2 R l l' -> length l = length l'.
Proof. induction 1; simpl; congruence. Qed.

Theorem exact_dot (B : Z) xs ys a b : 0 <= B -> Forall2 isint xs a -> Forall2 isint ys b -> small B a -> small B b ->
  length a = length b -> Z.of_nat (length a) * (B * B) < 2 ^ 53 ->
  isint (dot Dops xs ys) (dot Zops a b).
Proof.
  intros HB Hx Hy Sa Sb L N.
  destruct Hx as [|x z xs a Ix Hx].
  - simpl. split; [reflexivity | unfold D2R; simpl; reflexivity].
  - destruct Hy as [|y w ys b Iy Hy]; [discriminate L|].
    inversion Sa as [|? ? Bz Sa']; inversion Sb as [|? ? Bw Sb']; subst.
    change (dot Dops (x :: xs) (y :: ys)) with (fold_left (fun acc p => sadd Dops acc (smul Dops (fst p) (snd p))) (combine xs ys) (b64_mult mode_NE x y)).
    rewrite dot_Z_zacc. simpl length in N. rewrite Nat2Z.inj_succ in N.
    assert (P : Z.abs (z * w) <= B * B) by (rewrite Z.abs_mul; apply Z.mul_le_mono_nonneg; lia).
    apply (dacc_exact B HB _ _ _ _ 1); try lia.
    + clear - Hx Hy Sa' Sb'. revert ys b Hy Sb'. induction Hx as [|x z xs a Ix Hx IH]; intros ys b Hy Sb; simpl; [constructor|].
      destruct Hy as [|y w ys b Iy Hy]; simpl; [constructor|]. inversion Sa'; inversion Sb; subst.
      constructor; [simpl; auto | apply IH; assumption].
    + apply isint_mul; try assumption. nia.
    + rewrite combine_length. apply Forall2_len in Hx. apply Forall2_len in Hy. simpl in L. nia.
Qed.
