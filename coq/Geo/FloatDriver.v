(* Geo/FloatDriver.v -- evaluation of the floating-point model (Geo/FloatModel.v) INSIDE Coq on the generated
   inputs of the C19 check: lib/checks_geo.py writes a file `build/run/fleg/*.v` that applies [fcases64] /
   [fcases32] / [fmesh] to the generated cases and prints the result of `Eval vm_compute`; the numbers are the
   canonical bit patterns (NaN = -1) that harness/run_geo.cc prints for the real library.
   Definitions only (glue: the order in which results are listed is the order run_geo prints them). *)
From Coq Require Import List ZArith Bool.
From Flocq Require Import Core.Core IEEE754.BinarySingleNaN IEEE754.Binary IEEE754.Bits.
From OVM Require Import Base.ListX Kernel.State Kernel.Ops Geo.VecModel Geo.GeoModel Geo.FloatModel.
Import ListNotations.
Local Open Scope Z_scope.

Inductive fkind := KU | KB | KS.

Definition bz (b : bool) : Z := if b then 1 else 0.

Section Drv.
  Context {T : Type} (o : sops T) (ssqrt : T -> T) (ofb : Z -> T) (cn : T -> Z).
  Definition cv (v : list T) : list Z := map cn v.

  (* run_geo.cc run_unary: max min neg sqrnorm l1_norm mean max_abs min_abs l8_norm mean_abs norm
     normalize_cond normalized [homogenized when DIM = 4] *)
  Definition run_U (a : list T) : list (list Z) :=
    [ [cn (vmax o a)]; [cn (vmin o a)]; cv (vneg o a); [cn (sqrnorm o a)]; [cn (l1_norm o a)]; [cn (mean o a)];
      [cn (max_abs o a)]; [cn (min_abs o a)]; [cn (l8_norm o a)]; [cn (mean_abs o a)]; [cn (fnorm o ssqrt a)];
      cv (fnormalize_cond o ssqrt a); cv (fnormalized o ssqrt a) ]
    ++ (if Nat.eqb (length a) 4 then [cv (homogenized o a)] else []).

  (* run_binary: eq neq lt minimize maximize min2 max2 minimized maximized add sub mul dot div [cross when DIM = 3] *)
  Definition run_B (a b : list T) : list (list Z) :=
    [ [bz (veq o a b)]; [bz (vneq o a b)]; [bz (vlt o a b)];
      cv (minimize o a b); cv (maximize o a b); cv (vmin2 o a b); cv (vmax2 o a b);
      (let '(f, v) := minimized o a b in bz f :: cv v); (let '(f, v) := maximized o a b in bz f :: cv v);
      cv (vadd o a b); cv (vsub o a b); cv (vmul o a b); [cn (dot o a b)]; cv (vdiv o a b) ]
    ++ (if Nat.eqb (length a) 3 then [cv (cross o a b)] else []).

  (* run_scalar: vectorize smul smul_left sdiv *)
  Definition run_S (a : list T) (s : T) : list (list Z) :=
    [ cv (vectorize (length a) s); cv (vscale o a s); cv (vscale_left o s a); cv (vsdiv o a s) ].

  Definition run_fcase (c : fkind * list Z) : list (list Z) :=
    let '(k, vals) := c in
    let v := map ofb vals in
    match k with
    | KU => run_U v
    | KB => let d := Nat.div (length v) 2 in run_B (firstn d v) (skipn d v)
    | KS => let d := Nat.pred (length v) in run_S (firstn d v) (nth d v (s0 o))
    end.
End Drv.

Definition fcases64 (cs : list (fkind * list Z)) : list (list (list Z)) :=
  map (run_fcase Dops d_sqrt d_of_bits canon64) cs.
Definition fcases32 (cs : list (fkind * list Z)) : list (list (list Z)) :=
  map (run_fcase Fops f_sqrt f_of_bits canon32) cs.

(* conversions: VectorT<float,D>(VectorT<double,D>) / <double,D>(<float,D>) / from int *)
Definition fconv_d2f (vals : list Z) : list Z := map (fun z => canon32 (f_of_d (d_of_bits z))) vals.
Definition fconv_f2d (vals : list Z) : list Z := map (fun z => canon64 (d_of_f (f_of_bits z))) vals.
Definition fconv_i2f (vals : list Z) : list Z := map (fun z => canon32 (f_of_Z z)) vals.
Definition fconv_i2d (vals : list Z) : list Z := map (fun z => canon64 (d_of_Z z)) vals.

(* ------------------------------------------------------------------------------ meshes *)

Inductive fcmd := FOp (o : op) | FPos (v : nat) (x y z : Z) | FQ.

(* one output record: (tag, id, values) *)
Definition frec : Type := (Z * Z * list Z)%type.

Definition nz (n : nat) : Z := Z.of_nat n.
Definition c3 (v : list binary64) : list Z := map canon64 v.

Definition dump_edge (s : mesh) (e : nat) : list frec :=
  if live_e s e then
    [ (10, nz e, c3 (geoD_vector_e s e)); (11, nz (2 * e), c3 (geoD_vector_he s (2 * e)));
      (11, nz (2 * e + 1), c3 (geoD_vector_he s (2 * e + 1)));
      (12, nz e, [canon64 (geoD_length_e s e)]); (13, nz (2 * e + 1), [canon64 (geoD_length_he s (2 * e + 1))]);
      (14, nz e, c3 (geoD_bary_edge s e)) ]
  else [].
Definition dump_face (s : mesh) (f : nat) : list frec :=
  if live_f s f then
    let vs := geo_face_vertices s f in
    (20, nz f, map nz vs) ::
    match vs with
    | [] => []
    | _ => [ (21, nz f, c3 (geoD_bary_face s f));
             (22, nz (2 * f), [bz (geo_normal_degenerate s (2 * f))]); (23, nz (2 * f), c3 (geoD_normal s (2 * f)));
             (22, nz (2 * f + 1), [bz (geo_normal_degenerate s (2 * f + 1))]); (23, nz (2 * f + 1), c3 (geoD_normal s (2 * f + 1))) ]
    end
  else [].
Definition dump_cell (s : mesh) (c : nat) : list frec :=
  if live_c s c then
    let vs := geo_cell_vertices s c in
    (30, nz c, map nz vs) :: match vs with [] => [] | _ => [ (31, nz c, c3 (geoD_bary_cell s c)) ] end
  else [].
Definition query_dump (s : mesh) : list frec :=
  flat_map (dump_edge s) (seq 0 (ne s)) ++ flat_map (dump_face s) (seq 0 (nf s)) ++ flat_map (dump_cell s) (seq 0 (nc s)).

Definition step_skip (s : mesh) (o : op) : mesh := match step s o with Ok s' _ => s' | Rejected => s end.
(* three vertex property arrays x, y, z (indices 0, 1, 2), default 0 = the pattern of +0.0 *)
Definition fresh_mesh : mesh := fold_left step_skip [PropCreate KV 0; PropCreate KV 0; PropCreate KV 0] empty_mesh.

Definition fcmd_run (s : mesh) (c : fcmd) : mesh * list frec :=
  match c with
  | FOp o => match step s o with
             | Rejected => (s, [(0, -1, [])])
             | Ok s' None => (s', [(0, -2, [])])
             | Ok s' (Some h) => (s', [(0, nz h, [])])
             end
  | FPos v x y z =>
      if Nat.ltb v (nv s)
      then (step_skip (step_skip (step_skip s (PropSet KV 0 v x)) (PropSet KV 1 v y)) (PropSet KV 2 v z), [(0, -2, [])])
      else (s, [(0, -1, [])])
  | FQ => (s, (1, 0, []) :: query_dump s)
  end.

Fixpoint fmesh_from (s : mesh) (cs : list fcmd) : list frec :=
  match cs with
  | [] => []
  | c :: r => let '(s', out) := fcmd_run s c in out ++ fmesh_from s' r
  end.
Definition fmesh (cs : list fcmd) : list frec := fmesh_from fresh_mesh cs.

(* ------------------------------------------------------------------------------ comparison inside Coq
   Printing tens of thousands of 64-bit numbers is slower than computing them, so the generated file carries, next
   to every input, the values the LIBRARY printed (NaN already mapped to -1) and Coq evaluates the comparison: the
   answer is the number of values compared (checked by the Python side against its own count) and, for every
   case that differs, its index and the model's results. *)
Inductive fany :=
| A64 (k : fkind) (vals : list Z)       (* VectorT<double,D> case *)
| A32 (k : fkind) (vals : list Z)       (* VectorT<float,D> case *)
| Ad2f (vals : list Z)                  (* conv_f of a double vector *)
| Af2d (vals : list Z)                  (* conv_d of a float vector *)
| Ai2fd (vals : list Z).                (* conv_f, conv_d of an int vector *)

Definition run_any (c : fany) : list (list Z) :=
  match c with
  | A64 k vals => run_fcase Dops d_sqrt d_of_bits canon64 (k, vals)
  | A32 k vals => run_fcase Fops f_sqrt f_of_bits canon32 (k, vals)
  | Ad2f vals => [fconv_d2f vals]
  | Af2d vals => [fconv_f2d vals]
  | Ai2fd vals => [fconv_i2f vals; fconv_i2d vals]
  end.

Fixpoint zlist_eqb (a b : list Z) : bool :=
  match a, b with
  | [], [] => true
  | x :: a', y :: b' => Z.eqb x y && zlist_eqb a' b'
  | _, _ => false
  end.
Fixpoint zll_eqb (a b : list (list Z)) : bool :=
  match a, b with
  | [], [] => true
  | x :: a', y :: b' => zlist_eqb x y && zll_eqb a' b'
  | _, _ => false
  end.
Definition count_vals (r : list (list Z)) : Z := fold_left (fun n l => n + Z.of_nat (length l)) r 0.

Fixpoint fcheck_from (i : Z) (cs : list (fany * list (list Z))) (n : Z) (bad : list (Z * list (list Z)))
  : Z * list (Z * list (list Z)) :=
  match cs with
  | [] => (n, rev bad)
  | (c, want) :: r =>
      let got := run_any c in
      fcheck_from (i + 1) r (n + count_vals got) (if zll_eqb got want then bad else (i, got) :: bad)
  end.
(* -> (number of model values compared, [(index of a differing case, the model's results)]) *)
Definition fcheck (cs : list (fany * list (list Z))) : Z * list (Z * list (list Z)) := fcheck_from 0 cs 0 [].

Definition frec_eqb (a b : frec) : bool :=
  let '(t1, i1, v1) := a in let '(t2, i2, v2) := b in Z.eqb t1 t2 && Z.eqb i1 i2 && zlist_eqb v1 v2.
Fixpoint frecs_diff (i : Z) (got want : list frec) : list (Z * option frec) :=
  match got, want with
  | [], [] => []
  | g :: got', w :: want' => (if frec_eqb g w then [] else [(i, Some g)]) ++ frecs_diff (i + 1) got' want'
  | g :: _, [] => [(i, Some g)]
  | [], _ :: _ => [(i, None)]
  end.
(* -> (number of records the model produced, [(index of a differing record, the model's record)]) *)
Definition fmesh_check (cs : list fcmd) (want : list frec) : Z * list (Z * option frec) :=
  let got := fmesh cs in (Z.of_nat (length got), firstn 8 (frecs_diff 0 got want)).
