(* Geo/FloatProofs.v -- scalar facts about the binary64 operations of Geo/FloatModel.v (Dops) and their lifting
   to the component-wise vector operations: every arithmetic operation is the correctly rounded exact operation
   on finite operands whenever the result is finite (no overflow), negation / abs / comparisons / min / max are
   exact.  Built on the correctness theorems of Flocq's IEEE754/Binary.v. *)
From Coq Require Import List ZArith Reals Bool Lia Lra.
From Flocq Require Import Core.Core IEEE754.BinarySingleNaN IEEE754.Binary IEEE754.Bits.
From OVM Require Import Geo.VecModel Geo.VecProofs Geo.FloatModel.
Import ListNotations.
Local Open Scope R_scope.

(* ------------------------------------------------------------------------------ vocabulary *)
Definition fexp64 : Z -> Z := FLT_exp (-1074) 53.
Definition rnd64 (x : R) : R := round radix2 fexp64 ZnearestE x.      (* round to nearest, ties to even, binary64 *)
Definition D2R (x : binary64) : R := B2R 53 1024 x.
Definition fin64 (x : binary64) : Prop := is_finite 53 1024 x = true.
Definition format64 (x : R) : Prop := generic_format radix2 fexp64 x.
Definition ovf64 : R := bpow radix2 1024.                               (* 2^1024: |rounded result| below it = no overflow *)

Lemma fexp64_eq : fexp64 = SpecFloat.fexp 53 1024.  Proof. reflexivity. Qed.

Lemma format64_D2R x : format64 (D2R x).
Proof. apply (generic_format_B2R 53 1024). Qed.

Lemma rnd64_format x : format64 x -> rnd64 x = x.
Proof. intros H. apply round_generic; [apply valid_rnd_N | exact H]. Qed.

Lemma rnd64_0 : rnd64 0 = 0.
Proof. apply round_0. apply valid_rnd_N. Qed.

(* a result that overflowed is an infinity: not finite *)
Lemma overflow_not_finite (z : binary64) s : B2FF 53 1024 z = binary_overflow 53 1024 mode_NE s -> is_finite 53 1024 z = false.
Proof. intros H. rewrite <- is_finite_B2FF, H. reflexivity. Qed.

Ltac fin_contra :=
  exfalso; match goal with E : ?a = false, K : ?b = true |- _ =>
    let X := fresh in assert (X : true = false) by (transitivity a; [symmetry; exact K | exact E]); discriminate X end.

(* ------------------------------------------------------------------------------ + - * / sqrt *)
Lemma d_add_correct x y : fin64 x -> fin64 y ->
  (Rabs (rnd64 (D2R x + D2R y)) < ovf64 <-> fin64 (b64_plus mode_NE x y)) /\
  (fin64 (b64_plus mode_NE x y) -> D2R (b64_plus mode_NE x y) = rnd64 (D2R x + D2R y)).
Proof.
  intros Fx Fy. unfold fin64, D2R, b64_plus, rnd64, ovf64 in *.
  generalize (Bplus_correct 53 1024 (@eq_refl comparison Lt) (@eq_refl comparison Lt) binop_nan_pl64 mode_NE x y Fx Fy).
  change (round_mode mode_NE) with ZnearestE. change (SpecFloat.fexp 53 1024) with fexp64.
  destruct (Rlt_bool_spec (Rabs (round radix2 fexp64 ZnearestE (B2R 53 1024 x + B2R 53 1024 y))) (bpow radix2 1024)) as [H|H].
  - intros (E & F & _). split; [split; auto | auto].
  - intros (E & _). apply overflow_not_finite in E. split; [split; intros K; [lra | fin_contra] | intros K; fin_contra].
Qed.

Lemma d_sub_correct x y : fin64 x -> fin64 y ->
  (Rabs (rnd64 (D2R x - D2R y)) < ovf64 <-> fin64 (b64_minus mode_NE x y)) /\
  (fin64 (b64_minus mode_NE x y) -> D2R (b64_minus mode_NE x y) = rnd64 (D2R x - D2R y)).
Proof.
  intros Fx Fy. unfold fin64, D2R, b64_minus, rnd64, ovf64 in *.
  generalize (Bminus_correct 53 1024 (@eq_refl comparison Lt) (@eq_refl comparison Lt) binop_nan_pl64 mode_NE x y Fx Fy).
  change (round_mode mode_NE) with ZnearestE. change (SpecFloat.fexp 53 1024) with fexp64.
  destruct (Rlt_bool_spec (Rabs (round radix2 fexp64 ZnearestE (B2R 53 1024 x - B2R 53 1024 y))) (bpow radix2 1024)) as [H|H].
  - intros (E & F & _). split; [split; auto | auto].
  - intros (E & _). apply overflow_not_finite in E. split; [split; intros K; [lra | fin_contra] | intros K; fin_contra].
Qed.

Lemma d_mul_correct x y : fin64 x -> fin64 y ->
  (Rabs (rnd64 (D2R x * D2R y)) < ovf64 <-> fin64 (b64_mult mode_NE x y)) /\
  (fin64 (b64_mult mode_NE x y) -> D2R (b64_mult mode_NE x y) = rnd64 (D2R x * D2R y)).
Proof.
  intros Fx Fy. unfold fin64, D2R, b64_mult, rnd64, ovf64 in *.
  generalize (Bmult_correct 53 1024 (@eq_refl comparison Lt) (@eq_refl comparison Lt) binop_nan_pl64 mode_NE x y).
  change (round_mode mode_NE) with ZnearestE. change (SpecFloat.fexp 53 1024) with fexp64.
  destruct (Rlt_bool_spec (Rabs (round radix2 fexp64 ZnearestE (B2R 53 1024 x * B2R 53 1024 y))) (bpow radix2 1024)) as [H|H].
  - rewrite Fx, Fy. intros (E & F & _). split; [split; auto | auto].
  - intros E. apply overflow_not_finite in E. split; [split; intros K; [lra | fin_contra] | intros K; fin_contra].
Qed.

Lemma d_div_correct x y : fin64 x -> D2R y <> 0 ->
  (Rabs (rnd64 (D2R x / D2R y)) < ovf64 <-> fin64 (b64_div mode_NE x y)) /\
  (fin64 (b64_div mode_NE x y) -> D2R (b64_div mode_NE x y) = rnd64 (D2R x / D2R y)).
Proof.
  intros Fx Ny. unfold fin64, D2R, b64_div, rnd64, ovf64 in *.
  generalize (Bdiv_correct 53 1024 (@eq_refl comparison Lt) (@eq_refl comparison Lt) binop_nan_pl64 mode_NE x y Ny).
  change (round_mode mode_NE) with ZnearestE. change (SpecFloat.fexp 53 1024) with fexp64.
  destruct (Rlt_bool_spec (Rabs (round radix2 fexp64 ZnearestE (B2R 53 1024 x / B2R 53 1024 y))) (bpow radix2 1024)) as [H|H].
  - rewrite Fx. intros (E & F & _). split; [split; auto | auto].
  - intros E. apply overflow_not_finite in E. split; [split; intros K; [lra | fin_contra] | intros K; fin_contra].
Qed.

(* std::sqrt: correctly rounded, never overflows *)
Lemma d_sqrt_correct x : D2R (d_sqrt x) = rnd64 (sqrt (D2R x)).
Proof.
  unfold D2R, d_sqrt, b64_sqrt, rnd64.
  exact (proj1 (Bsqrt_correct 53 1024 (@eq_refl comparison Lt) (@eq_refl comparison Lt) unop_nan_pl64 mode_NE x)).
Qed.

Lemma d_sqrt_finite x : fin64 (d_sqrt x) <-> (fin64 x /\ (D2R x = 0 \/ Bsign 53 1024 x = false)).
Proof.
  assert (F : is_finite 53 1024 (d_sqrt x) = match x with B754_zero _ _ _ => true | B754_finite _ _ false _ _ _ => true | _ => false end)
    by exact (proj1 (proj2 (Bsqrt_correct 53 1024 (@eq_refl comparison Lt) (@eq_refl comparison Lt) unop_nan_pl64 mode_NE x))).
  unfold fin64, D2R. rewrite F. clear F.
  destruct x as [s|s|s pl e|s m e e0]; simpl; try (split; [discriminate | intros (H & _); discriminate H]).
  - split; auto.
  - destruct s; split; auto; try discriminate.
    intros (_ & [H|H]); [|discriminate H]. exfalso.
    assert (P : (0 < F2R (Float radix2 (Z.pos m) e))%R) by (apply F2R_gt_0; reflexivity).
    simpl in H. change (Z.neg m) with (- Z.pos m)%Z in H. rewrite F2R_Zopp in H. lra.
Qed.

(* ------------------------------------------------------------------------------ finiteness propagates backwards
   (a finite result of + - * has finite operands: inf and NaN are absorbing) *)
Lemma fin_add_inv x y : fin64 (b64_plus mode_NE x y) -> fin64 x /\ fin64 y.
Proof.
  unfold fin64, b64_plus, Bplus. rewrite is_finite_BSN2B.
  destruct x as [s|s|s pl e|s m e e0], y as [s'|s'|s' pl' e'|s' m' e' e0']; simpl; auto;
    try (destruct s, s'; simpl; auto; intros; discriminate).
Qed.

Lemma fin_sub_inv x y : fin64 (b64_minus mode_NE x y) -> fin64 x /\ fin64 y.
Proof.
  unfold fin64, b64_minus, Bminus. rewrite is_finite_BSN2B.
  destruct x as [s|s|s pl e|s m e e0], y as [s'|s'|s' pl' e'|s' m' e' e0']; simpl; auto;
    try (destruct s, s'; simpl; auto; intros; discriminate).
Qed.

Lemma fin_mul_inv x y : fin64 (b64_mult mode_NE x y) -> fin64 x /\ fin64 y.
Proof.
  unfold fin64, b64_mult, Bmult. rewrite is_finite_BSN2B.
  destruct x as [s|s|s pl e|s m e e0], y as [s'|s'|s' pl' e'|s' m' e' e0']; simpl; auto;
    try (destruct s, s'; simpl; auto; intros; discriminate).
Qed.

Lemma fin_div_inv x y : fin64 (b64_div mode_NE x y) -> fin64 x.
Proof.
  unfold fin64, b64_div, Bdiv. rewrite is_finite_BSN2B.
  destruct x as [s|s|s pl e|s m e e0], y as [s'|s'|s' pl' e'|s' m' e' e0']; simpl; auto;
    try (destruct s, s'; simpl; auto; intros; discriminate).
Qed.

Lemma fin_sqrt_inv x : fin64 (d_sqrt x) -> fin64 x.
Proof. intros H. apply d_sqrt_finite in H. tauto. Qed.

(* ------------------------------------------------------------------------------ exact operations *)
Lemma d_neg_correct x : D2R (b64_opp x) = - D2R x /\ (fin64 (b64_opp x) <-> fin64 x).
Proof.
  unfold D2R, fin64, b64_opp. rewrite B2R_Bopp, is_finite_Bopp. tauto.
Qed.

Lemma d_abs_correct x : D2R (b64_abs x) = Rabs (D2R x) /\ (fin64 (b64_abs x) <-> fin64 x).
Proof.
  unfold D2R, fin64, b64_abs. rewrite B2R_Babs, is_finite_Babs. tauto.
Qed.

Lemma d_compare_finite x y : fin64 x -> fin64 y -> b64_compare x y = Some (Rcompare (D2R x) (D2R y)).
Proof. intros Fx Fy. apply Bcompare_correct; assumption. Qed.

Lemma d_ltb_correct x y : fin64 x -> fin64 y -> (d_ltb x y = true <-> D2R x < D2R y).
Proof.
  intros Fx Fy. unfold d_ltb. rewrite d_compare_finite by assumption.
  destruct (Rcompare_spec (D2R x) (D2R y)); simpl; split; intros; try discriminate; try lra; reflexivity.
Qed.

Lemma d_eqb_correct x y : fin64 x -> fin64 y -> (d_eqb x y = true <-> D2R x = D2R y).
Proof.
  intros Fx Fy. unfold d_eqb. rewrite d_compare_finite by assumption.
  destruct (Rcompare_spec (D2R x) (D2R y)); simpl; split; intros; try discriminate; try lra; reflexivity.
Qed.

(* a NaN operand makes <, > and == false (so != is true) *)
Lemma d_compare_nan x y : is_nan 53 1024 x = true \/ is_nan 53 1024 y = true ->
  d_ltb x y = false /\ d_ltb y x = false /\ d_eqb x y = false /\ d_eqb y x = false.
Proof.
  unfold d_ltb, d_eqb, b64_compare, Bcompare.
  destruct x as [s|s|s pl e|s m e e0], y as [s'|s'|s' pl' e'|s' m' e' e0']; simpl; intros [H|H]; try discriminate H; repeat split.
Qed.

(* std::min(l, r) = (r < l) ? r : l   and   std::max(l, r) = (l < r) ? r : l *)
Lemma d_min_correct l r : fin64 l -> fin64 r ->
  D2R (smin Dops l r) = Rmin (D2R l) (D2R r) /\ fin64 (smin Dops l r) /\ (smin Dops l r = l \/ smin Dops l r = r).
Proof.
  intros Fl Fr. unfold smin. cbn [sltb Dops].
  destruct (d_ltb r l) eqn:E.
  - apply d_ltb_correct in E; try assumption. rewrite Rmin_right by lra. auto.
  - assert (~ D2R r < D2R l) by (intros K; apply d_ltb_correct in K; try assumption; congruence).
    rewrite Rmin_left by lra. auto.
Qed.

Lemma d_max_correct l r : fin64 l -> fin64 r ->
  D2R (smax Dops l r) = Rmax (D2R l) (D2R r) /\ fin64 (smax Dops l r) /\ (smax Dops l r = l \/ smax Dops l r = r).
Proof.
  intros Fl Fr. unfold smax. cbn [sltb Dops].
  destruct (d_ltb l r) eqn:E.
  - apply d_ltb_correct in E; try assumption. rewrite Rmax_right by lra. auto.
  - assert (~ D2R l < D2R r) by (intros K; apply d_ltb_correct in K; try assumption; congruence).
    rewrite Rmax_left by lra. auto.
Qed.

(* NaN: std::min / std::max return their FIRST argument whenever the comparison is false *)
Lemma d_minmax_nan l r : is_nan 53 1024 l = true \/ is_nan 53 1024 r = true -> smin Dops l r = l /\ smax Dops l r = l.
Proof.
  intros H. unfold smin, smax. cbn [sltb Dops].
  destruct (d_compare_nan l r H) as (A & B & _). rewrite A, B. auto.
Qed.

(* ------------------------------------------------------------------------------ vectors, component-wise *)
Section Lift.
  Variable dflt : binary64.
  Variables a b : list binary64.
  Variable i : nat.
  Hypothesis Hi : (i < length a)%nat.
  Hypothesis L : length a = length b.
  Notation ai := (nth i a dflt).
  Notation bi := (nth i b dflt).

  Lemma dv_add : fin64 ai -> fin64 bi ->
    let r := nth i (vadd Dops a b) dflt in
    (Rabs (rnd64 (D2R ai + D2R bi)) < ovf64 <-> fin64 r) /\ (fin64 r -> D2R r = rnd64 (D2R ai + D2R bi)).
  Proof. intros Fa Fb. cbv zeta. rewrite (vadd_nth Dops dflt) by assumption. apply d_add_correct; assumption. Qed.

  Lemma dv_sub : fin64 ai -> fin64 bi ->
    let r := nth i (vsub Dops a b) dflt in
    (Rabs (rnd64 (D2R ai - D2R bi)) < ovf64 <-> fin64 r) /\ (fin64 r -> D2R r = rnd64 (D2R ai - D2R bi)).
  Proof. intros Fa Fb. cbv zeta. rewrite (vsub_nth Dops dflt) by assumption. apply d_sub_correct; assumption. Qed.

  Lemma dv_mul : fin64 ai -> fin64 bi ->
    let r := nth i (vmul Dops a b) dflt in
    (Rabs (rnd64 (D2R ai * D2R bi)) < ovf64 <-> fin64 r) /\ (fin64 r -> D2R r = rnd64 (D2R ai * D2R bi)).
  Proof. intros Fa Fb. cbv zeta. rewrite (vmul_nth Dops dflt) by assumption. apply d_mul_correct; assumption. Qed.

  Lemma dv_div : fin64 ai -> D2R bi <> 0 ->
    let r := nth i (vdiv Dops a b) dflt in
    (Rabs (rnd64 (D2R ai / D2R bi)) < ovf64 <-> fin64 r) /\ (fin64 r -> D2R r = rnd64 (D2R ai / D2R bi)).
  Proof. intros Fa Nb. cbv zeta. rewrite (vdiv_nth Dops dflt) by assumption. apply d_div_correct; assumption. Qed.

  Lemma dv_neg : D2R (nth i (vneg Dops a) dflt) = - D2R ai /\ (fin64 (nth i (vneg Dops a) dflt) <-> fin64 ai).
  Proof. rewrite (vneg_nth Dops dflt) by assumption. apply d_neg_correct. Qed.

  Lemma dv_scale s : fin64 ai -> fin64 s ->
    let r := nth i (vscale Dops a s) dflt in
    (Rabs (rnd64 (D2R ai * D2R s)) < ovf64 <-> fin64 r) /\ (fin64 r -> D2R r = rnd64 (D2R ai * D2R s)).
  Proof. intros Fa Fs. cbv zeta. rewrite (vscale_nth Dops dflt) by assumption. apply d_mul_correct; assumption. Qed.

  Lemma dv_sdiv s : fin64 ai -> D2R s <> 0 ->
    let r := nth i (vsdiv Dops a s) dflt in
    (Rabs (rnd64 (D2R ai / D2R s)) < ovf64 <-> fin64 r) /\ (fin64 r -> D2R r = rnd64 (D2R ai / D2R s)).
  Proof. intros Fa Ns. cbv zeta. rewrite (vsdiv_nth Dops dflt) by assumption. apply d_div_correct; assumption. Qed.

  Lemma dv_minmax : fin64 ai -> fin64 bi ->
    D2R (nth i (minimize Dops a b) dflt) = Rmin (D2R ai) (D2R bi) /\
    D2R (nth i (maximize Dops a b) dflt) = Rmax (D2R ai) (D2R bi).
  Proof.
    intros Fa Fb. rewrite (minimize_nth Dops dflt), (maximize_nth Dops dflt) by assumption.
    split; [apply d_min_correct | apply d_max_correct]; assumption.
  Qed.
End Lift.

(* cross product: every component is round(round(a_j b_k) - round(a_k b_j)) *)
Lemma dv_cross (dflt : binary64) a b i : length a = 3%nat -> length b = 3%nat -> (i < 3)%nat ->
  let j := ((i + 1) mod 3)%nat in let k := ((i + 2) mod 3)%nat in
  let r := nth i (cross Dops a b) dflt in
  fin64 r ->
  D2R r = rnd64 (rnd64 (D2R (nth j a dflt) * D2R (nth k b dflt)) - rnd64 (D2R (nth k a dflt) * D2R (nth j b dflt))).
Proof.
  intros La Lb Hi. cbv zeta. rewrite (cross_nth Dops dflt) by assumption. cbn [ssub smul Dops]. intros F.
  destruct (fin_sub_inv _ _ F) as (F1 & F2).
  destruct (fin_mul_inv _ _ F1) as (Fa & Fb). destruct (fin_mul_inv _ _ F2) as (Fc & Fd).
  rewrite (proj2 (d_sub_correct _ _ F1 F2) F).
  rewrite (proj2 (d_mul_correct _ _ Fa Fb) F1), (proj2 (d_mul_correct _ _ Fc Fd) F2). reflexivity.
Qed.
