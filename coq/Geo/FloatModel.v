(* Geo/FloatModel.v -- the floating-point leg of C19: OpenVolumeMesh::Geometry::VectorT<double,DIM> and
   VectorT<float,DIM> (src/OpenVolumeMesh/Geometry/Vector11T.hh) and the geometric queries of
   GeometryKernel<Vec3d> (src/OpenVolumeMesh/Core/GeometryKernel.hh:137-207) over IEEE-754 binary64 /
   binary32 values of the Flocq library (IEEE754/Binary.v, Bits.v), rounding to nearest-even.
   Definitions only; the theorems are in Geo/FloatProofs*.v and Props/Properties_C19_float.v.

   The ALGORITHMS are those of Geo/VecModel.v and Geo/GeoModel.v (written once, generically over a record of
   scalar operations [sops T], following the std:: algorithm, seed, direction and comparator of every member of
   the header): this file instantiates the record with
     Dops -- `double`:  b64_plus / b64_minus / b64_mult / b64_div (mode_NE), b64_opp, b64_abs, IEEE comparisons,
     Fops -- `float` :  the b32_ operations,
   and adds what needs a square root (norm, length, normalize, normalized, normalize_cond, GeometryKernel::length,
   the final normalisation of GeometryKernel::normal), which is outside Z and Q and therefore absent there.

   Evaluation order is the C++ one: e.g. operator| = std::inner_product(data()+1, data()+DIM, rhs+1, a0*b0) is
   ((a0*b0 + a1*b1) + a2*b2) + a3*b3, every product and every sum rounded once to the scalar type (x86-64 SSE2
   arithmetic: no extended intermediates, no fused multiply-add: baseline x86-64 has no FMA instruction and the
   harness is built without -ffast-math / -march flags).
   NaN: a NaN operand or an invalid operation gives a NaN; the SIGN and PAYLOAD of a NaN result are not part of
   the comparison with the library (canon64 / canon32 map every NaN to -1). *)
From Coq Require Import List ZArith Bool.
From Flocq Require Import Core.Core IEEE754.BinarySingleNaN IEEE754.Binary IEEE754.Bits.
From OVM Require Import Base.ListX Kernel.State Kernel.Ops Geo.VecModel Geo.GeoModel.
Import ListNotations.

(* ------------------------------------------------------------------------------ scalar instances *)

Definition Hprec64 : Prec_gt_0 53 := @eq_refl comparison Lt.
Definition Hemax64 : Prec_lt_emax 53 1024 := @eq_refl comparison Lt.
Definition Hprec32 : Prec_gt_0 24 := @eq_refl comparison Lt.
Definition Hemax32 : Prec_lt_emax 24 128 := @eq_refl comparison Lt.

(* static_cast<double>(int) / the int literals 0, 1, DIM converted to the scalar type: correctly rounded
   (exact below 2^53 resp. 2^24) *)
Definition d_of_Z (z : Z) : binary64 := binary_normalize 53 1024 Hprec64 Hemax64 mode_NE z 0 false.
Definition f_of_Z (z : Z) : binary32 := binary_normalize 24 128 Hprec32 Hemax32 mode_NE z 0 false.

(* `<` and `==` of IEEE-754: false as soon as an operand is a NaN; -0 == +0 *)
Definition fcmp_lt (c : option comparison) : bool := match c with Some Lt => true | _ => false end.
Definition fcmp_eq (c : option comparison) : bool := match c with Some Eq => true | _ => false end.
Definition d_ltb (x y : binary64) : bool := fcmp_lt (b64_compare x y).
Definition d_eqb (x y : binary64) : bool := fcmp_eq (b64_compare x y).
Definition f_ltb (x y : binary32) : bool := fcmp_lt (b32_compare x y).
Definition f_eqb (x y : binary32) : bool := fcmp_eq (b32_compare x y).

Definition d_zero : binary64 := B754_zero 53 1024 false.
Definition f_zero : binary32 := B754_zero 24 128 false.

Definition Dops : sops binary64 := {|
  s0 := d_zero; s1 := d_of_Z 1;
  sadd := b64_plus mode_NE; ssub := b64_minus mode_NE; smul := b64_mult mode_NE; sdiv := b64_div mode_NE;
  sneg := b64_opp; sabs := b64_abs; sltb := d_ltb; seqb := d_eqb;
  sofnat := fun n => d_of_Z (Z.of_nat n) |}.

Definition Fops : sops binary32 := {|
  s0 := f_zero; s1 := f_of_Z 1;
  sadd := b32_plus mode_NE; ssub := b32_minus mode_NE; smul := b32_mult mode_NE; sdiv := b32_div mode_NE;
  sneg := b32_opp; sabs := b32_abs; sltb := f_ltb; seqb := f_eqb;
  sofnat := fun n => f_of_Z (Z.of_nat n) |}.

Definition d_sqrt : binary64 -> binary64 := b64_sqrt mode_NE.      (* std::sqrt(double): correctly rounded *)
Definition f_sqrt : binary32 -> binary32 := b32_sqrt mode_NE.      (* std::sqrt(float) = sqrtf *)

(* ------------------------------------------------------------------------------ what needs sqrt *)
Section FVec.
  Context {T : Type} (o : sops T) (ssqrt : T -> T).

  (* :427  norm() = std::sqrt(sqrnorm()) ;  :436 length() = norm() *)
  Definition fnorm (a : list T) : T := ssqrt (sqrnorm o a).
  (* :457  normalized() = *this / norm() ;  :447 normalize() = *this /= norm()   (x / 0 and 0 / 0 included) *)
  Definition fnormalized (a : list T) : list T := vsdiv o a (fnorm a).
  (* :474  n = norm(); if (n != 0) *this /= n     (NaN != 0 is true) *)
  Definition fnormalize_cond (a : list T) : list T :=
    let n := fnorm a in if seqb o n (s0 o) then a else vsdiv o a n.

  Variable pos : nat -> list T.
  (* GeometryKernel.hh:137-143  length(h) = vector(h).length() *)
  Definition g_length_he (s : mesh) (h : nat) : T := fnorm (g_vector_he o pos s h).
  Definition g_length_e (s : mesh) (e : nat) : T := fnorm (g_vector_e o pos s e).
  (* :180-199  normal(hf): fewer than 3 halfedges -> PointT{0.0, 0.0, 0.0} (NOT normalised);
     else n = (p2 - p1).cross(p3 - p2); return n.normalized() *)
  Definition g_normal (s : mesh) (hf : nat) : list T :=
    if g_normal_degenerate s hf then [s0 o; s0 o; s0 o] else fnormalized (g_normal_raw o pos s hf).
End FVec.

(* ------------------------------------------------------------------------------ bit patterns *)

Definition d_of_bits : Z -> binary64 := b64_of_bits.          (* for 0 <= z < 2^64 *)
Definition bits_of_d : binary64 -> Z := bits_of_b64.
Definition f_of_bits : Z -> binary32 := b32_of_bits.          (* for 0 <= z < 2^32 *)
Definition bits_of_f : binary32 -> Z := bits_of_b32.
(* canonical result: the bit pattern, every NaN mapped to -1 ("is NaN") *)
Definition canon64 (x : binary64) : Z := if is_nan 53 1024 x then (-1)%Z else bits_of_b64 x.
Definition canon32 (x : binary32) : Z := if is_nan 24 128 x then (-1)%Z else bits_of_b32 x.

(* static_cast<float>(double): one rounding to binary32 (NaN -> NaN, infinities kept) *)
Definition f_of_d (x : binary64) : binary32 :=
  match x with
  | B754_zero _ _ s => B754_zero 24 128 s
  | B754_infinity _ _ s => B754_infinity 24 128 s
  | B754_nan _ _ _ _ _ => proj1_sig default_nan_pl32
  | B754_finite _ _ s m e _ => binary_normalize 24 128 Hprec32 Hemax32 mode_NE (cond_Zopp s (Zpos m)) e s
  end.
(* static_cast<double>(float): exact *)
Definition d_of_f (x : binary32) : binary64 :=
  match x with
  | B754_zero _ _ s => B754_zero 53 1024 s
  | B754_infinity _ _ s => B754_infinity 53 1024 s
  | B754_nan _ _ _ _ _ => proj1_sig default_nan_pl64
  | B754_finite _ _ s m e _ => binary_normalize 53 1024 Hprec64 Hemax64 mode_NE (cond_Zopp s (Zpos m)) e s
  end.

(* ------------------------------------------------------------------------------ GeometryKernel<Vec3d>
   positions: the first three vertex property arrays of the kernel model hold the BIT PATTERNS of x, y, z
   (they are resized, swapped and compacted with the vertices like any vertex property, C03); the default 0 is
   the pattern of +0.0 *)
Definition vposD (s : mesh) (v : nat) : list binary64 := map d_of_bits (vpos s v).
Definition d_half : binary64 := d_of_bits 0x3fe0000000000000.      (* the literal 0.5 *)

Definition geoD_vector_he (s : mesh) (h : nat) : list binary64 := g_vector_he Dops (vposD s) s h.
Definition geoD_vector_e (s : mesh) (e : nat) : list binary64 := g_vector_e Dops (vposD s) s e.
Definition geoD_length_he (s : mesh) (h : nat) : binary64 := g_length_he Dops d_sqrt (vposD s) s h.
Definition geoD_length_e (s : mesh) (e : nat) : binary64 := g_length_e Dops d_sqrt (vposD s) s e.
Definition geoD_bary_edge (s : mesh) (e : nat) : list binary64 := g_bary_edge Dops d_half (vposD s) s e.
Definition geoD_bary_face (s : mesh) (f : nat) : list binary64 := g_bary_face Dops 3 (vposD s) s f.
Definition geoD_bary_cell (s : mesh) (c : nat) : list binary64 := g_bary_cell Dops 3 (vposD s) s c.
Definition geoD_normal (s : mesh) (hf : nat) : list binary64 := g_normal Dops d_sqrt (vposD s) s hf.
