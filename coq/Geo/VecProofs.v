(* Geo/VecProofs.v -- theorems about Geo/VecModel.v.
   Part 1 (any scalar record, hence int, unsigned and the rational reference alike): every model
   operator equals its component-wise definition, nth-wise, for EVERY dimension.
   Part 2 (Zops = int, exact): reductions equal their defining sums, the algebra of dot / cross /
   lexicographic order / min / max, and the status of l1_norm. *)
From Coq Require Import List ZArith QArith Qabs Bool Lia Arith ZifyNat ZifyBool.
From OVM Require Import Base.Int32 Geo.VecModel.
Import ListNotations.
Local Open Scope nat_scope.

(* ================================================================== Part 1: generic, nth-wise *)

Section Generic.
  Context {T : Type} (o : sops T).

  Lemma map2_length {A B C} (f : A -> B -> C) : forall a b, length (map2 f a b) = Nat.min (length a) (length b).
  Proof. induction a as [|x a IH]; destruct b as [|y b]; simpl; auto. Qed.

  Lemma map2_length_eq {A B C} (f : A -> B -> C) a b : length a = length b -> length (map2 f a b) = length a.
  Proof. intros H. rewrite map2_length. lia. Qed.

  Lemma map2_nth {A B C} (f : A -> B -> C) da db dc : forall a b i,
    i < length a -> i < length b -> nth i (map2 f a b) dc = f (nth i a da) (nth i b db).
  Proof.
    induction a as [|x a IH]; destruct b as [|y b]; simpl; intros i Ha Hb; try lia.
    destruct i as [|i]; [reflexivity|]. apply IH; lia.
  Qed.

  Lemma map_nth' {A B} (f : A -> B) da db : forall a i, i < length a -> nth i (map f a) db = f (nth i a da).
  Proof.
    induction a as [|x a IH]; simpl; intros i Hi; [lia|]. destruct i as [|i]; [reflexivity|]. apply IH. lia.
  Qed.

  (* ---- component-wise arithmetic: the i-th component of the result is the scalar operation on the
          i-th components, for every dimension n = length a = length b *)
  Variable d : T.

  Lemma vadd_nth a b i : i < length a -> length a = length b -> nth i (vadd o a b) d = sadd o (nth i a d) (nth i b d).
  Proof. intros. unfold vadd. apply map2_nth; lia. Qed.
  Lemma vsub_nth a b i : i < length a -> length a = length b -> nth i (vsub o a b) d = ssub o (nth i a d) (nth i b d).
  Proof. intros. unfold vsub. apply map2_nth; lia. Qed.
  Lemma vmul_nth a b i : i < length a -> length a = length b -> nth i (vmul o a b) d = smul o (nth i a d) (nth i b d).
  Proof. intros. unfold vmul. apply map2_nth; lia. Qed.
  Lemma vdiv_nth a b i : i < length a -> length a = length b -> nth i (vdiv o a b) d = sdiv o (nth i a d) (nth i b d).
  Proof. intros. unfold vdiv. apply map2_nth; lia. Qed.

  Lemma vadd_length a b : length a = length b -> length (vadd o a b) = length a.
  Proof. apply map2_length_eq. Qed.
  Lemma vsub_length a b : length a = length b -> length (vsub o a b) = length a.
  Proof. apply map2_length_eq. Qed.
  Lemma vmul_length a b : length a = length b -> length (vmul o a b) = length a.
  Proof. apply map2_length_eq. Qed.
  Lemma vdiv_length a b : length a = length b -> length (vdiv o a b) = length a.
  Proof. apply map2_length_eq. Qed.

  Lemma vscale_nth a s i : i < length a -> nth i (vscale o a s) d = smul o (nth i a d) s.
  Proof. intros. unfold vscale. apply (map_nth' (fun e => smul o e s)). assumption. Qed.
  Lemma vscale_left_nth a s i : i < length a -> nth i (vscale_left o s a) d = smul o (nth i a d) s.
  Proof. apply vscale_nth. Qed.
  Lemma vsdiv_nth a s i : i < length a -> nth i (vsdiv o a s) d = sdiv o (nth i a d) s.
  Proof. intros. unfold vsdiv. apply (map_nth' (fun e => sdiv o e s)). assumption. Qed.
  Lemma vneg_nth a i : i < length a -> nth i (vneg o a) d = sneg o (nth i a d).
  Proof. intros. unfold vneg. apply map_nth'. assumption. Qed.
  Lemma vscale_length a s : length (vscale o a s) = length a.
  Proof. apply map_length. Qed.
  Lemma vsdiv_length a s : length (vsdiv o a s) = length a.
  Proof. apply map_length. Qed.
  Lemma vneg_length a : length (vneg o a) = length a.
  Proof. apply map_length. Qed.

  Lemma vectorize_nth n s i : i < n -> nth i (vectorize n s) d = s.
  Proof.
    unfold vectorize. revert i. induction n as [|n IH]; intros i Hi; [lia|]. destruct i as [|i]; simpl; [reflexivity|].
    apply IH. lia.
  Qed.
  Lemma vectorize_length n (s : T) : length (vectorize n s) = n.
  Proof. apply repeat_length. Qed.

  Lemma vconvert_nth {B} (f : T -> B) (db : B) a i : i < length a -> nth i (vconvert f a) db = f (nth i a d).
  Proof. intros. unfold vconvert. apply map_nth'. assumption. Qed.

  Lemma minimize_nth a b i : i < length a -> length a = length b ->
    nth i (minimize o a b) d = smin o (nth i a d) (nth i b d).
  Proof. intros. unfold minimize. apply map2_nth; lia. Qed.
  Lemma maximize_nth a b i : i < length a -> length a = length b ->
    nth i (maximize o a b) d = smax o (nth i a d) (nth i b d).
  Proof. intros. unfold maximize. apply map2_nth; lia. Qed.
  Lemma minimized_vec_nth a b i : i < length a -> length a = length b ->
    nth i (snd (minimized o a b)) d = if sltb o (nth i a d) (nth i b d) then nth i a d else nth i b d.
  Proof. intros. unfold minimized. simpl. apply (map2_nth (fun l r => if sltb o l r then l else r)); lia. Qed.
  Lemma maximized_vec_nth a b i : i < length a -> length a = length b ->
    nth i (snd (maximized o a b)) d = if sltb o (nth i b d) (nth i a d) then nth i a d else nth i b d.
  Proof. intros. unfold maximized. simpl. apply (map2_nth (fun l r => if sltb o r l then l else r)); lia. Qed.

  (* ---- the boolean reductions *)
  Lemma all2_spec {A B} (p : A -> B -> bool) da db : forall a b, length a = length b ->
    (all2 p a b = true <-> forall i, i < length a -> p (nth i a da) (nth i b db) = true).
  Proof.
    induction a as [|x a IH]; destruct b as [|y b]; simpl; intros L; try discriminate.
    - split; [intros _ i Hi; lia | reflexivity].
    - rewrite andb_true_iff, IH by lia. split.
      + intros [H0 H] i Hi. destruct i; [exact H0 | apply H; lia].
      + intros H. split; [apply (H 0); lia | intros i Hi; apply (H (S i)); lia].
  Qed.

  Lemma any2_spec {A B} (p : A -> B -> bool) da db : forall a b, length a = length b ->
    (any2 p a b = true <-> exists i, i < length a /\ p (nth i a da) (nth i b db) = true).
  Proof.
    induction a as [|x a IH]; destruct b as [|y b]; simpl; intros L; try discriminate.
    - split; [discriminate | intros [i [Hi _]]; lia].
    - rewrite orb_true_iff, IH by lia. split.
      + intros [H0 | [i [Hi H]]]; [exists 0; split; [lia | exact H0] | exists (S i); split; [lia | exact H]].
      + intros [[|i] [Hi H]]; [left; exact H | right; exists i; split; [lia | exact H]].
  Qed.

  (* operator== : every component of rhs equals (scalar ==) the same component of this *)
  Lemma veq_spec a b : length a = length b ->
    (veq o a b = true <-> forall i, i < length a -> seqb o (nth i b d) (nth i a d) = true).
  Proof. intros L. unfold veq. rewrite (all2_spec (seqb o) d d) by lia. rewrite L. reflexivity. Qed.
  Lemma vneq_spec a b : vneq o a b = negb (veq o a b).
  Proof. reflexivity. Qed.

  Lemma minimized_flag_spec a b : length a = length b ->
    (fst (minimized o a b) = true <-> exists i, i < length a /\ sltb o (nth i a d) (nth i b d) = false).
  Proof.
    intros L. unfold minimized. simpl. rewrite (any2_spec _ d d) by assumption.
    split; intros [i [Hi H]]; exists i; (split; [assumption|]); destruct (sltb o (nth i a d) (nth i b d)); simpl in *; congruence.
  Qed.
  Lemma maximized_flag_spec a b : length a = length b ->
    (fst (maximized o a b) = true <-> exists i, i < length a /\ sltb o (nth i b d) (nth i a d) = false).
  Proof.
    intros L. unfold maximized. simpl. rewrite (any2_spec _ d d) by assumption.
    split; intros [i [Hi H]]; exists i; (split; [assumption|]); destruct (sltb o (nth i b d) (nth i a d)); simpl in *; congruence.
  Qed.

  (* operator< : there is a first position k where a_k < b_k, all earlier positions being unordered
     both ways (neither a_j < b_j nor b_j < a_j) *)
  Lemma vlt_spec : forall a b, length a = length b ->
    (vlt o a b = true <->
     exists k, k < length a /\
       (forall j, j < k -> sltb o (nth j a d) (nth j b d) = false /\ sltb o (nth j b d) (nth j a d) = false) /\
       sltb o (nth k a d) (nth k b d) = true).
  Proof.
    induction a as [|x a IH]; destruct b as [|y b]; simpl; intros L; try discriminate.
    - split; [discriminate | intros [k [Hk _]]; lia].
    - destruct (sltb o x y) eqn:Exy.
      + split; [intros _ | reflexivity]. exists 0. split; [lia|]. split; [intros j Hj; lia | exact Exy].
      + destruct (sltb o y x) eqn:Eyx.
        * split; [discriminate|]. intros [k [Hk [Hpre Hk']]]. destruct k as [|k]; [congruence|].
          destruct (Hpre 0 ltac:(lia)) as [_ H]. simpl in H. congruence.
        * rewrite IH by lia. split.
          -- intros [k [Hk [Hpre Hk']]]. exists (S k). split; [lia|]. split; [|exact Hk'].
             intros j Hj. destruct j as [|j]; [split; assumption | apply Hpre; lia].
          -- intros [k [Hk [Hpre Hk']]]. destruct k as [|k]; [simpl in Hk'; congruence|].
             exists k. split; [lia|]. split; [|exact Hk']. intros j Hj. apply (Hpre (S j)). lia.
  Qed.

  (* ---- cross product (DIM = 3): the three components, written out *)
  Lemma cross_components a0 a1 a2 b0 b1 b2 :
    cross o [a0; a1; a2] [b0; b1; b2] =
    [ ssub o (smul o a1 b2) (smul o a2 b1);
      ssub o (smul o a2 b0) (smul o a0 b2);
      ssub o (smul o a0 b1) (smul o a1 b0) ].
  Proof. reflexivity. Qed.

  Lemma list3 (a : list T) : length a = 3 -> exists x y z, a = [x; y; z].
  Proof. destruct a as [|x [|y [|z [|w a]]]]; simpl; intros H; try discriminate. eauto. Qed.

  (* nth-wise, cyclic: (a x b)_i = a_{i+1} b_{i+2} - a_{i+2} b_{i+1}, indices mod 3 *)
  Lemma cross_nth a b i : length a = 3 -> length b = 3 -> i < 3 ->
    nth i (cross o a b) d =
    ssub o (smul o (nth ((i + 1) mod 3) a d) (nth ((i + 2) mod 3) b d))
           (smul o (nth ((i + 2) mod 3) a d) (nth ((i + 1) mod 3) b d)).
  Proof.
    intros Ha Hb Hi. destruct (list3 a Ha) as [a0 [a1 [a2 ->]]]. destruct (list3 b Hb) as [b0 [b1 [b2 ->]]].
    destruct i as [|[|[|i]]]; try lia; reflexivity.
  Qed.
  Lemma cross_length a b : length a = 3 -> length b = 3 -> length (cross o a b) = 3.
  Proof.
    intros Ha Hb. destruct (list3 a Ha) as [a0 [a1 [a2 ->]]]. destruct (list3 b Hb) as [b0 [b1 [b2 ->]]]. reflexivity.
  Qed.

  (* ---- sqrnorm is the dot product with itself, as computed (same seed, same order) *)
  Lemma sqrnorm_dot a : sqrnorm o a = dot o a a.
  Proof.
    destruct a as [|x a]; [reflexivity|]. simpl. generalize (smul o x x). induction a as [|y a IH]; intros s; simpl; [reflexivity|].
    apply IH.
  Qed.

  (* ---- l8_norm is max_abs ; homogenized written out *)
  Lemma l8_norm_max_abs a : l8_norm o a = max_abs o a.
  Proof. reflexivity. Qed.
  Lemma homogenized_components x y z w :
    homogenized o [x; y; z; w] = [sdiv o x w; sdiv o y w; sdiv o z w; s1 o].
  Proof. reflexivity. Qed.

  (* ---- stream output then input gives the vector back and leaves the rest of the stream *)
  Lemma vin_flat : forall (a : list T) rest,
    vin (length a) (flat_map (fun y => [TSp; TNum y]) a ++ rest) = Some (a, rest).
  Proof.
    induction a as [|x a IH]; intros rest; simpl; [reflexivity|]. rewrite IH. reflexivity.
  Qed.
  Lemma stream_roundtrip (a : list T) rest : vin (length a) (vout a ++ rest) = Some (a, rest).
  Proof.
    destruct a as [|x a]; [reflexivity|]. simpl. rewrite vin_flat. reflexivity.
  Qed.
  (* two vectors written with one separator between them are read back one after the other *)
  Lemma stream_roundtrip2 (a b : list T) rest : b <> [] ->
    match vin (length a) (vout a ++ TSp :: vout b ++ rest) with
    | Some (a', r) => a' = a /\ vin (length b) r = Some (b, rest)
    | None => False
    end.
  Proof.
    intros Hb. rewrite stream_roundtrip. split; [reflexivity|].
    destruct b as [|y b]; [congruence|]. simpl. rewrite vin_flat. reflexivity.
  Qed.
  (* reading more components than were written fails (failbit), e.g. a DIM mismatch *)
  Lemma stream_short (a : list T) : vin (S (length a)) (vout a) = None.
  Proof.
    assert (H : forall l : list T, vin (S (length l)) (flat_map (fun y => [TSp; TNum y]) l) = None).
    { induction l as [|y l IH]; [reflexivity|].
      change (vin (S (length (y :: l))) (flat_map (fun y0 => [TSp; TNum y0]) (y :: l)))
        with (match vin (S (length l)) (flat_map (fun y0 => [TSp; TNum y0]) l) with
              | Some (v, r') => Some (y :: v, r') | None => None end).
      rewrite IH. reflexivity. }
    destruct a as [|x a]; [reflexivity|].
    change (vin (S (length (x :: a))) (vout (x :: a)))
      with (match vin (S (length a)) (flat_map (fun y0 => [TSp; TNum y0]) a) with
            | Some (v, r') => Some (x :: v, r') | None => None end).
    rewrite H. reflexivity.
  Qed.
End Generic.

(* ================================================================== Part 2: int (exact, Z) *)

Local Open Scope Z_scope.

Definition zsum (l : list Z) : Z := fold_right Z.add 0 l.

Lemma fold_left_add_seed {A} (f : A -> Z) : forall l s, fold_left (fun acc x => acc + f x) l s = s + zsum (map f l).
Proof. induction l as [|x l IH]; intros s; simpl; [lia|]. rewrite IH. lia. Qed.

Lemma zsum_app a b : zsum (a ++ b) = zsum a + zsum b.
Proof. induction a; simpl; lia. Qed.

(* ---- reductions equal their defining sums *)
Lemma dot_Z_sum a b : dot Zops a b = zsum (map2 Z.mul a b).
Proof.
  destruct a as [|x a]; destruct b as [|y b]; try reflexivity. simpl.
  rewrite (fold_left_add_seed (fun p => fst p * snd p)). f_equal.
  revert b. induction a as [|x' a IH]; destruct b as [|y' b]; simpl; try reflexivity. rewrite IH. reflexivity.
Qed.

Lemma sqrnorm_Z_sum a : sqrnorm Zops a = zsum (map (fun x => x * x) a).
Proof. destruct a as [|x a]; [reflexivity|]. simpl. rewrite (fold_left_add_seed (fun r => r * r)). reflexivity. Qed.

Lemma l1_norm_Z_sum a : l1_norm Zops a = zsum a.
Proof.
  destruct a as [|x a]; [reflexivity|]. simpl. rewrite (fold_left_add_seed (fun r => r)). rewrite map_id. reflexivity.
Qed.

Lemma mean_Z a : mean Zops a = Z.quot (zsum a) (Z.of_nat (length a)).
Proof. unfold mean. rewrite l1_norm_Z_sum. reflexivity. Qed.

Lemma mean_abs_Z a : mean_abs Zops a = Z.quot (zsum (map Z.abs a)) (Z.of_nat (length a)).
Proof.
  destruct a as [|x a]; [reflexivity|]. unfold mean_abs. cbn [sdiv sadd sabs sofnat Zops].
  rewrite (fold_left_add_seed Z.abs). reflexivity.
Qed.

(* ---- l1_norm: the DEFINING formula is the sum of absolute values *)
Definition l1_def (a : list Z) : Z := zsum (map Z.abs a).

Lemma zsum_abs_ge a : zsum a <= zsum (map Z.abs a).
Proof. induction a as [|x a IH]; simpl; lia. Qed.

(* the model (= the code) agrees with the definition exactly on vectors without a negative component *)
Lemma l1_norm_partial a : l1_norm Zops a = l1_def a <-> Forall (fun x => 0 <= x) a.
Proof.
  rewrite l1_norm_Z_sum. unfold l1_def. induction a as [|x a IH]; simpl.
  - split; [constructor | reflexivity].
  - pose proof (zsum_abs_ge a). split.
    + intros H1. assert (0 <= x) by lia. constructor; [assumption|]. apply IH. lia.
    + intros HF. inversion HF; subst. apply IH in H3. lia.
Qed.

Lemma l1_norm_refuted : exists a, length a = 3%nat /\ l1_norm Zops a <> l1_def a.
Proof. exists [-1; 2; 0]. split; [reflexivity|]. vm_compute. discriminate. Qed.

(* ---- max / min / max_abs / min_abs : extremal elements by a key *)
Lemma max_fold_key (k : Z -> Z) : forall a x0,
  let r := fold_left (fun best y => if k best <? k y then y else best) a x0 in
  In r (x0 :: a) /\ forall y, In y (x0 :: a) -> k y <= k r.
Proof.
  induction a as [|x a IH]; intros x0; simpl.
  - split; [left; reflexivity | intros y [<-|[]]; lia].
  - destruct (Z.ltb_spec (k x0) (k x)) as [H|H].
    + destruct (IH x) as [I M]. split; [simpl in I; tauto|].
      intros y [<-|[<-|Hy]]; [ pose proof (M x (or_introl eq_refl)); lia | apply M; left; reflexivity | apply M; right; assumption ].
    + destruct (IH x0) as [I M]. split; [simpl in I; tauto|].
      intros y [<-|[<-|Hy]]; [ apply M; left; reflexivity | pose proof (M x0 (or_introl eq_refl)); lia | apply M; right; assumption ].
Qed.

Lemma min_fold_key (k : Z -> Z) : forall a x0,
  let r := fold_left (fun best y => if k y <? k best then y else best) a x0 in
  In r (x0 :: a) /\ forall y, In y (x0 :: a) -> k r <= k y.
Proof.
  induction a as [|x a IH]; intros x0; simpl.
  - split; [left; reflexivity | intros y [<-|[]]; lia].
  - destruct (Z.ltb_spec (k x) (k x0)) as [H|H].
    + destruct (IH x) as [I M]. split; [simpl in I; tauto|].
      intros y [<-|[<-|Hy]]; [ pose proof (M x (or_introl eq_refl)); lia | apply M; left; reflexivity | apply M; right; assumption ].
    + destruct (IH x0) as [I M]. split; [simpl in I; tauto|].
      intros y [<-|[<-|Hy]]; [ apply M; left; reflexivity | pose proof (M x0 (or_introl eq_refl)); lia | apply M; right; assumption ].
Qed.

Lemma vmax_Z a : a <> [] -> In (vmax Zops a) a /\ forall y, In y a -> y <= vmax Zops a.
Proof. destruct a as [|x a]; [congruence|]. intros _. exact (max_fold_key (fun z => z) a x). Qed.
Lemma vmin_Z a : a <> [] -> In (vmin Zops a) a /\ forall y, In y a -> vmin Zops a <= y.
Proof. destruct a as [|x a]; [congruence|]. intros _. exact (min_fold_key (fun z => z) a x). Qed.
Lemma max_abs_Z a : a <> [] ->
  (exists x, In x a /\ max_abs Zops a = Z.abs x) /\ forall y, In y a -> Z.abs y <= max_abs Zops a.
Proof.
  destruct a as [|x a]; [congruence|]. intros _. destruct (max_fold_key Z.abs a x) as [I M].
  split; [eexists; split; [exact I | reflexivity] | exact M].
Qed.
Lemma min_abs_Z a : a <> [] ->
  (exists x, In x a /\ min_abs Zops a = Z.abs x) /\ forall y, In y a -> min_abs Zops a <= Z.abs y.
Proof.
  destruct a as [|x a]; [congruence|]. intros _. destruct (min_fold_key Z.abs a x) as [I M].
  split; [eexists; split; [exact I | reflexivity] | exact M].
Qed.

(* ---- component-wise min / max : lattice laws *)
Lemma smin_Z l r : smin Zops l r = Z.min l r.
Proof. unfold smin. cbn [sltb Zops]. destruct (Z.ltb_spec r l); lia. Qed.
Lemma smax_Z l r : smax Zops l r = Z.max l r.
Proof. unfold smax. cbn [sltb Zops]. destruct (Z.ltb_spec l r); lia. Qed.

Lemma minimize_Z a b : minimize Zops a b = map2 Z.min a b.
Proof. unfold minimize. revert b. induction a as [|x a IH]; destruct b as [|y b]; simpl; try reflexivity. rewrite smin_Z, IH. reflexivity. Qed.
Lemma maximize_Z a b : maximize Zops a b = map2 Z.max a b.
Proof. unfold maximize. revert b. induction a as [|x a IH]; destruct b as [|y b]; simpl; try reflexivity. rewrite smax_Z, IH. reflexivity. Qed.

Lemma minimize_nth_Z a b i : (i < length a)%nat -> length a = length b ->
  nth i (minimize Zops a b) 0 = Z.min (nth i a 0) (nth i b 0).
Proof. intros. rewrite minimize_Z. apply map2_nth; lia. Qed.
Lemma maximize_nth_Z a b i : (i < length a)%nat -> length a = length b ->
  nth i (maximize Zops a b) 0 = Z.max (nth i a 0) (nth i b 0).
Proof. intros. rewrite maximize_Z. apply map2_nth; lia. Qed.

Lemma vmin2_comm a b : vmin2 Zops a b = vmin2 Zops b a.
Proof. unfold vmin2. rewrite !minimize_Z. revert b. induction a as [|x a IH]; destruct b as [|y b]; simpl; try reflexivity. rewrite IH, Z.min_comm. reflexivity. Qed.
Lemma vmax2_comm a b : vmax2 Zops a b = vmax2 Zops b a.
Proof. unfold vmax2. rewrite !maximize_Z. revert b. induction a as [|x a IH]; destruct b as [|y b]; simpl; try reflexivity. rewrite IH, Z.max_comm. reflexivity. Qed.
Lemma vmin2_assoc a b c : vmin2 Zops a (vmin2 Zops b c) = vmin2 Zops (vmin2 Zops a b) c.
Proof.
  unfold vmin2. rewrite !minimize_Z. revert b c.
  induction a as [|x a IH]; destruct b as [|y b]; destruct c as [|z c]; simpl; try reflexivity. rewrite IH, Z.min_assoc. reflexivity.
Qed.
Lemma vmax2_assoc a b c : vmax2 Zops a (vmax2 Zops b c) = vmax2 Zops (vmax2 Zops a b) c.
Proof.
  unfold vmax2. rewrite !maximize_Z. revert b c.
  induction a as [|x a IH]; destruct b as [|y b]; destruct c as [|z c]; simpl; try reflexivity. rewrite IH, Z.max_assoc. reflexivity.
Qed.
Lemma vmin2_idem a : vmin2 Zops a a = a.
Proof. unfold vmin2. rewrite minimize_Z. induction a as [|x a IH]; simpl; [reflexivity|]. rewrite IH, Z.min_id. reflexivity. Qed.
Lemma vmax2_idem a : vmax2 Zops a a = a.
Proof. unfold vmax2. rewrite maximize_Z. induction a as [|x a IH]; simpl; [reflexivity|]. rewrite IH, Z.max_id. reflexivity. Qed.
Lemma vmin2_absorb a b : length a = length b -> vmin2 Zops a (vmax2 Zops a b) = a.
Proof.
  unfold vmin2, vmax2. rewrite maximize_Z, minimize_Z. revert b.
  induction a as [|x a IH]; destruct b as [|y b]; simpl; intros L; try discriminate; [reflexivity|].
  rewrite IH by lia. f_equal. lia.
Qed.
Lemma vmax2_absorb a b : length a = length b -> vmax2 Zops a (vmin2 Zops a b) = a.
Proof.
  unfold vmin2, vmax2. rewrite minimize_Z, maximize_Z. revert b.
  induction a as [|x a IH]; destruct b as [|y b]; simpl; intros L; try discriminate; [reflexivity|].
  rewrite IH by lia. f_equal. lia.
Qed.

(* minimize / maximize are idempotent: doing it twice with the same argument changes nothing more *)
Lemma minimize_idem a b : minimize Zops (minimize Zops a b) b = minimize Zops a b.
Proof.
  rewrite !minimize_Z. revert b. induction a as [|x a IH]; destruct b as [|y b]; simpl; try reflexivity.
  rewrite IH. f_equal. lia.
Qed.
Lemma maximize_idem a b : maximize Zops (maximize Zops a b) b = maximize Zops a b.
Proof.
  rewrite !maximize_Z. revert b. induction a as [|x a IH]; destruct b as [|y b]; simpl; try reflexivity.
  rewrite IH. f_equal. lia.
Qed.
(* the result is a lower (upper) bound of both arguments, component-wise *)
Lemma minimize_lower a b i : (i < length a)%nat -> length a = length b ->
  nth i (minimize Zops a b) 0 <= nth i a 0 /\ nth i (minimize Zops a b) 0 <= nth i b 0.
Proof. intros. rewrite minimize_nth_Z by assumption. lia. Qed.
Lemma maximize_upper a b i : (i < length a)%nat -> length a = length b ->
  nth i a 0 <= nth i (maximize Zops a b) 0 /\ nth i b 0 <= nth i (maximize Zops a b) 0.
Proof. intros. rewrite maximize_nth_Z by assumption. lia. Qed.

(* minimized / maximized: same vector as minimize / maximize; the flag says whether some component of
   rhs was taken (b_i <= a_i, resp. a_i <= b_i) *)
Lemma minimized_vec_Z a b : snd (minimized Zops a b) = minimize Zops a b.
Proof.
  rewrite minimize_Z. unfold minimized. cbn [snd sltb Zops]. revert b.
  induction a as [|x a IH]; destruct b as [|y b]; simpl; try reflexivity. rewrite IH. f_equal.
  destruct (Z.ltb_spec x y); lia.
Qed.
Lemma maximized_vec_Z a b : snd (maximized Zops a b) = maximize Zops a b.
Proof.
  rewrite maximize_Z. unfold maximized. cbn [snd sltb Zops]. revert b.
  induction a as [|x a IH]; destruct b as [|y b]; simpl; try reflexivity. rewrite IH. f_equal.
  destruct (Z.ltb_spec y x); lia.
Qed.
Lemma minimized_flag_Z a b : length a = length b ->
  (fst (minimized Zops a b) = true <-> exists i, (i < length a)%nat /\ nth i b 0 <= nth i a 0).
Proof.
  intros L. rewrite (minimized_flag_spec Zops 0) by assumption. cbn [sltb Zops].
  split; intros [i [Hi H]]; exists i; (split; [assumption|]); destruct (Z.ltb_spec (nth i a 0) (nth i b 0)); (lia || congruence).
Qed.
Lemma maximized_flag_Z a b : length a = length b ->
  (fst (maximized Zops a b) = true <-> exists i, (i < length a)%nat /\ nth i a 0 <= nth i b 0).
Proof.
  intros L. rewrite (maximized_flag_spec Zops 0) by assumption. cbn [sltb Zops].
  split; intros [i [Hi H]]; exists i; (split; [assumption|]); destruct (Z.ltb_spec (nth i b 0) (nth i a 0)); (lia || congruence).
Qed.

(* ---- == is equality of lists; < is a strict total order on vectors of one dimension *)
Lemma veq_Z : forall a b, length a = length b -> (veq Zops a b = true <-> a = b).
Proof.
  unfold veq. induction a as [|x a IH]; destruct b as [|y b]; simpl; intros L; try discriminate.
  - tauto.
  - rewrite andb_true_iff, IH by lia. rewrite Z.eqb_eq. split; [intros [-> ->]; reflexivity | intros E; inversion E; auto].
Qed.

Lemma vlt_irrefl a : vlt Zops a a = false.
Proof. induction a as [|x a IH]; simpl; [reflexivity|]. rewrite Z.ltb_irrefl. exact IH. Qed.

Lemma vlt_trans : forall a b c, vlt Zops a b = true -> vlt Zops b c = true -> vlt Zops a c = true.
Proof.
  induction a as [|x a IH]; destruct b as [|y b]; destruct c as [|z c]; simpl; try congruence.
  destruct (Z.ltb_spec x y), (Z.ltb_spec y x), (Z.ltb_spec y z), (Z.ltb_spec z y), (Z.ltb_spec x z), (Z.ltb_spec z x);
    try lia; try congruence.
  apply IH.
Qed.

Lemma vlt_asym a b : vlt Zops a b = true -> vlt Zops b a = false.
Proof.
  intros H. destruct (vlt Zops b a) eqn:E; [|reflexivity].
  pose proof (vlt_trans _ _ _ H E) as F. rewrite vlt_irrefl in F. discriminate.
Qed.

Lemma vlt_total : forall a b, length a = length b -> vlt Zops a b = true \/ a = b \/ vlt Zops b a = true.
Proof.
  induction a as [|x a IH]; destruct b as [|y b]; simpl; intros L; try discriminate; [tauto|].
  destruct (Z.ltb_spec x y), (Z.ltb_spec y x); try lia; try tauto.
  assert (x = y) by lia. subst. destruct (IH b ltac:(lia)) as [K|[K|K]]; [tauto | subst; tauto | tauto].
Qed.

(* exactly one of a < b, a = b, b < a *)
Lemma vlt_trichotomy a b : length a = length b ->
  (vlt Zops a b = true /\ a <> b /\ vlt Zops b a = false) \/
  (vlt Zops a b = false /\ a = b /\ vlt Zops b a = false) \/
  (vlt Zops a b = false /\ a <> b /\ vlt Zops b a = true).
Proof.
  intros L. destruct (vlt_total a b L) as [H|[H|H]].
  - left. split; [assumption|]. split; [|apply vlt_asym; assumption]. intros ->. rewrite vlt_irrefl in H. discriminate.
  - right; left. subst. rewrite vlt_irrefl. tauto.
  - right; right. split; [apply vlt_asym; assumption|]. split; [|assumption]. intros ->. rewrite vlt_irrefl in H. discriminate.
Qed.

(* the first differing component decides, and the LAST component matters when all earlier ones agree *)
Lemma vlt_last a x y : vlt Zops (a ++ [x]) (a ++ [y]) = (x <? y).
Proof.
  induction a as [|z a IH]; simpl.
  - destruct (Z.ltb_spec x y); [reflexivity|]. destruct (y <? x); reflexivity.
  - rewrite Z.ltb_irrefl. exact IH.
Qed.

(* ---- dot: symmetric and bilinear *)
Lemma dot_sym a b : dot Zops a b = dot Zops b a.
Proof.
  rewrite !dot_Z_sum. f_equal. revert b. induction a as [|x a IH]; destruct b as [|y b]; simpl; try reflexivity.
  rewrite IH, Z.mul_comm. reflexivity.
Qed.

Lemma dot_add_l a a' b : length a = length a' -> dot Zops (vadd Zops a a') b = dot Zops a b + dot Zops a' b.
Proof.
  rewrite !dot_Z_sum. unfold vadd. cbn [sadd Zops]. revert a' b.
  induction a as [|x a IH]; destruct a' as [|x' a']; simpl; intros b L; try discriminate; [reflexivity|].
  destruct b as [|y b]; simpl; [reflexivity|]. rewrite IH by lia. lia.
Qed.
Lemma dot_add_r a b b' : length b = length b' -> dot Zops a (vadd Zops b b') = dot Zops a b + dot Zops a b'.
Proof. intros L. rewrite (dot_sym a), dot_add_l by assumption. rewrite (dot_sym b), (dot_sym b'). reflexivity. Qed.
Lemma dot_scale_l a b s : dot Zops (vscale Zops a s) b = s * dot Zops a b.
Proof.
  rewrite !dot_Z_sum. unfold vscale. cbn [smul Zops]. revert b.
  induction a as [|x a IH]; destruct b as [|y b]; simpl; try lia; try (rewrite IH; lia).
Qed.
Lemma dot_scale_r a b s : dot Zops a (vscale Zops b s) = s * dot Zops a b.
Proof. rewrite (dot_sym a), dot_scale_l, (dot_sym b). reflexivity. Qed.
Lemma dot_neg_l a b : dot Zops (vneg Zops a) b = - dot Zops a b.
Proof.
  rewrite !dot_Z_sum. unfold vneg. cbn [sneg Zops]. revert b.
  induction a as [|x a IH]; destruct b as [|y b]; simpl; try lia; try (rewrite IH; lia).
Qed.
Lemma sqrnorm_nonneg a : 0 <= sqrnorm Zops a.
Proof. rewrite sqrnorm_Z_sum. induction a as [|x a IH]; simpl; nia. Qed.
Lemma sqrnorm_zero a : sqrnorm Zops a = 0 <-> Forall (fun x => x = 0) a.
Proof.
  rewrite sqrnorm_Z_sum. induction a as [|x a IH]; simpl.
  - split; [constructor | reflexivity].
  - assert (0 <= zsum (map (fun x => x * x) a)) by (clear; induction a; simpl; nia).
    split.
    + intros E. assert (x = 0) by nia. constructor; [assumption|]. apply IH. nia.
    + intros HF. inversion HF; subst. apply IH in H3. lia.
Qed.

(* ---- cross product: orthogonal to both arguments, anti-symmetric, Lagrange identity *)
Section Cross.
  Variables a b : list Z.
  Hypothesis Ha : length a = 3%nat.
  Hypothesis Hb : length b = 3%nat.

  Lemma cross_orth_l : dot Zops (cross Zops a b) a = 0.
  Proof.
    destruct (list3 a Ha) as [a0 [a1 [a2 ->]]]. destruct (list3 b Hb) as [b0 [b1 [b2 ->]]].
    cbn. ring.
  Qed.
  Lemma cross_orth_r : dot Zops (cross Zops a b) b = 0.
  Proof.
    destruct (list3 a Ha) as [a0 [a1 [a2 ->]]]. destruct (list3 b Hb) as [b0 [b1 [b2 ->]]].
    cbn. ring.
  Qed.
  Lemma cross_antisym : cross Zops a b = vneg Zops (cross Zops b a).
  Proof.
    destruct (list3 a Ha) as [a0 [a1 [a2 ->]]]. destruct (list3 b Hb) as [b0 [b1 [b2 ->]]].
    cbn. repeat f_equal; ring.
  Qed.
  Lemma cross_lagrange :
    sqrnorm Zops (cross Zops a b) = sqrnorm Zops a * sqrnorm Zops b - dot Zops a b * dot Zops a b.
  Proof.
    destruct (list3 a Ha) as [a0 [a1 [a2 ->]]]. destruct (list3 b Hb) as [b0 [b1 [b2 ->]]].
    cbn. ring.
  Qed.
  Lemma cross_self : cross Zops a a = [0; 0; 0].
  Proof. destruct (list3 a Ha) as [a0 [a1 [a2 ->]]]. cbn. repeat f_equal; ring. Qed.
End Cross.

(* cross is bilinear (used by the geometry proofs) *)
Lemma cross_sub_l a a' b : length a = 3%nat -> length a' = 3%nat -> length b = 3%nat ->
  cross Zops (vsub Zops a a') b = vsub Zops (cross Zops a b) (cross Zops a' b).
Proof.
  intros Ha Ha' Hb. destruct (list3 a Ha) as [a0 [a1 [a2 ->]]]. destruct (list3 a' Ha') as [c0 [c1 [c2 ->]]].
  destruct (list3 b Hb) as [b0 [b1 [b2 ->]]]. cbn. f_equal; [ring | f_equal; [ring | f_equal; ring]].
Qed.

(* ---- conversions *)
Lemma conv_int_q_int x : conv_q_int (conv_int_q x) = x.
Proof. unfold conv_q_int, conv_int_q. simpl. apply Z.quot_1_r. Qed.
Lemma conv_int_uint_int x : in_int32 x -> conv_uint_int (conv_int_uint x) = x.
Proof.
  intros H. unfold conv_uint_int, conv_int_uint, c_uint, wrap_u, c_int, wrap_s.
  rewrite Z.mod_mod by (vm_compute; discriminate). fold (wrap_s 32 x). fold (c_int x). apply c_int_id. assumption.
Qed.
Lemma conv_uint_int_uint x : 0 <= x < 2 ^ 32 -> conv_int_uint (conv_uint_int x) = x.
Proof.
  intros H. unfold conv_uint_int, conv_int_uint, c_uint, wrap_u, c_int, wrap_s.
  change (2 ^ 32) with 4294967296 in *. change (2 ^ (32 - 1)) with 2147483648.
  rewrite (Z.mod_small x) by lia.
  destruct (Z.ltb_spec x 2147483648).
  - apply Z.mod_small. lia.
  - symmetry. apply Z.mod_unique with (q := -1); lia.
Qed.

(* ---- unsigned: every operation is the exact integer operation reduced mod 2^32 *)
Lemma c_uint_add_l x y : c_uint (c_uint x + y) = c_uint (x + y).
Proof. unfold c_uint, wrap_u. rewrite Zplus_mod_idemp_l. reflexivity. Qed.
Lemma c_uint_mul_mod x y : c_uint (c_uint x * c_uint y) = c_uint (x * y).
Proof. unfold c_uint, wrap_u. rewrite <- Zmult_mod. reflexivity. Qed.

Lemma vadd_U a b : vadd Uops a b = map c_uint (vadd Zops a b).
Proof. unfold vadd. cbn [sadd Uops Zops]. revert b. induction a as [|x a IH]; destruct b as [|y b]; simpl; try reflexivity. rewrite IH. reflexivity. Qed.
Lemma vsub_U a b : vsub Uops a b = map c_uint (vsub Zops a b).
Proof. unfold vsub. cbn [ssub Uops Zops]. revert b. induction a as [|x a IH]; destruct b as [|y b]; simpl; try reflexivity. rewrite IH. reflexivity. Qed.
Lemma vmul_U a b : vmul Uops a b = map c_uint (vmul Zops a b).
Proof. unfold vmul. cbn [smul Uops Zops]. revert b. induction a as [|x a IH]; destruct b as [|y b]; simpl; try reflexivity. rewrite IH. reflexivity. Qed.
Lemma vneg_U a : vneg Uops a = map c_uint (vneg Zops a).
Proof. unfold vneg. cbn [sneg Uops Zops]. rewrite map_map. reflexivity. Qed.

Lemma c_uint_add_both x y : c_uint (c_uint x + c_uint y) = c_uint (x + y).
Proof. unfold c_uint, wrap_u. rewrite <- Zplus_mod. reflexivity. Qed.

Lemma fold_left_U_mul {A} (f : A -> Z) : forall l s,
  fold_left (fun acc x => c_uint (acc + c_uint (f x))) l (c_uint s) = c_uint (fold_left (fun acc x => acc + f x) l s).
Proof.
  induction l as [|x l IH]; intros s; simpl; [reflexivity|]. rewrite c_uint_add_both. apply IH.
Qed.
Lemma fold_left_U_add : forall l s,
  fold_left (fun acc x => c_uint (acc + x)) l (c_uint s) = c_uint (fold_left Z.add l s).
Proof.
  induction l as [|x l IH]; intros s; simpl; [reflexivity|]. rewrite c_uint_add_l. apply IH.
Qed.

Lemma dot_U a b : dot Uops a b = c_uint (dot Zops a b).
Proof.
  destruct a as [|x a]; destruct b as [|y b]; try reflexivity. unfold dot. cbn [sadd smul Uops Zops].
  apply (fold_left_U_mul (fun p => fst p * snd p)).
Qed.
Lemma sqrnorm_U a : sqrnorm Uops a = c_uint (sqrnorm Zops a).
Proof.
  destruct a as [|x a]; try reflexivity. unfold sqrnorm. cbn [sadd smul Uops Zops].
  apply (fold_left_U_mul (fun r => r * r)).
Qed.
(* l1_norm starts from the raw first component: equal mod 2^32 for components already in range *)
Lemma l1_norm_U a : Forall (fun x => 0 <= x < 2 ^ 32) a -> l1_norm Uops a = c_uint (l1_norm Zops a).
Proof.
  destruct a as [|x a]; intros HF; [reflexivity|]. unfold l1_norm. cbn [sadd Uops Zops].
  inversion HF; subst. rewrite <- fold_left_U_add. f_equal.
  unfold c_uint, wrap_u. symmetry. apply Z.mod_small. assumption.
Qed.

(* ================================================================== Part 3: the rational reference *)
(* The same reductions at Qops (the exact value that float/double results are compared with) equal the
   defining sums, up to equality of rationals. *)
Local Open Scope Q_scope.

Definition qsum (l : list Q) : Q := fold_right Qplus 0 l.

Lemma fold_left_Qadd_seed {A} (f : A -> Q) : forall l s, fold_left (fun acc x => acc + f x) l s == s + qsum (map f l).
Proof. induction l as [|x l IH]; intros s; simpl; [ring|]. rewrite IH. ring. Qed.

Lemma combine_map2_mul : forall a b : list Q, map (fun p => fst p * snd p) (combine a b) = map2 Qmult a b.
Proof. induction a as [|x a IH]; destruct b as [|y b]; simpl; try reflexivity. rewrite IH. reflexivity. Qed.

Lemma dot_Q_sum a b : dot Qops a b == qsum (map2 Qmult a b).
Proof.
  destruct a as [|x a]; destruct b as [|y b]; try reflexivity. simpl.
  rewrite (fold_left_Qadd_seed (fun p => fst p * snd p)). rewrite combine_map2_mul. reflexivity.
Qed.
Lemma sqrnorm_Q_sum a : sqrnorm Qops a == qsum (map (fun x => x * x) a).
Proof. destruct a as [|x a]; [reflexivity|]. simpl. rewrite (fold_left_Qadd_seed (fun r => r * r)). reflexivity. Qed.
Lemma l1_norm_Q_sum a : l1_norm Qops a == qsum a.
Proof.
  destruct a as [|x a]; [reflexivity|]. simpl. rewrite (fold_left_Qadd_seed (fun r => r)). rewrite map_id. reflexivity.
Qed.
Lemma mean_Q a : mean Qops a == qsum a / inject_Z (Z.of_nat (length a)).
Proof. unfold mean. cbn [sdiv sofnat Qops]. rewrite l1_norm_Q_sum. reflexivity. Qed.
Lemma mean_abs_Q a : a <> [] -> mean_abs Qops a == qsum (map Qabs a) / inject_Z (Z.of_nat (length a)).
Proof.
  destruct a as [|x a]; [congruence|]. intros _. unfold mean_abs. cbn [sdiv sadd sabs sofnat Qops].
  rewrite (fold_left_Qadd_seed Qabs). reflexivity.
Qed.
(* at the reference, too, l1_norm is the plain sum: it differs from the sum of absolute values *)
Lemma l1_norm_Q_refuted : exists a, ~ l1_norm Qops a == qsum (map Qabs a).
Proof. exists [-1#1; 2#1; 0#1]. vm_compute. discriminate. Qed.
