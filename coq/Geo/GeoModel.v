(* Geo/GeoModel.v -- the geometric queries of GeometryKernel<VecT, TopologyKernelT>
   (src/OpenVolumeMesh/Core/GeometryKernel.hh:137-207) over the kernel model (Kernel/State.v) and a
   position map `pos : vertex handle -> vector`.  Definitions only (theorems: Geo/GeoProofs.v).
   Written generically over the scalar record of Geo/VecModel.v; used at
     Zops  for vector / squared length / the halfface normal before normalisation (exact on integer positions),
     Qops  for the barycenters (0.5 * p, division by the valence).
   `length()` (= sqrt of the squared length) and the final `normalized()` of `normal()` involve a square
   root and are outside Z and Q; the correspondence check relates them to the squared quantities. *)
From Coq Require Import List ZArith QArith Bool Arith.
From OVM Require Import Base.ListX Kernel.State Geo.VecModel.
Import ListNotations.
Local Open Scope nat_scope.

Section Geo.
  Context {T : Type} (o : sops T).
  Variable half : T.                 (* the literal 0.5 *)
  Variable dim : nat.                (* VecT::size() *)
  Variable pos : nat -> list T.      (* vertex(VertexHandle) = position_[vh] *)

  (* :146  vector(HalfEdgeHandle): e = halfedge(heh); vertex(e.to_vertex()) - vertex(e.from_vertex()) *)
  Definition g_vector_he (s : mesh) (h : nat) : list T := vsub o (pos (he_to s h)) (pos (he_from s h)).
  (* :152  vector(EdgeHandle): the stored edge, i.e. its halfedge 0 *)
  Definition g_vector_e (s : mesh) (e : nat) : list T := g_vector_he s (2 * e).

  (* :137-143  length(h) = vector(h).length() = sqrt(sqrnorm): the model gives the radicand *)
  Definition g_sqrlen_he (s : mesh) (h : nat) : T := sqrnorm o (g_vector_he s h).
  Definition g_sqrlen_e (s : mesh) (e : nat) : T := sqrnorm o (g_vector_e s e).

  (* :158  PointT(0.5 * vertex(from) + 0.5 * vertex(to)) *)
  Definition g_bary_edge (s : mesh) (e : nat) : list T :=
    vadd o (vscale_left o half (pos (he_from s (2 * e)))) (vscale_left o half (pos (he_to s (2 * e)))).

  (* `valence = 0; ...; valence += 1` once per visited vertex *)
  Fixpoint count_up (n : nat) : T :=
    match n with O => s0 o | S k => sadd o (count_up k) (s1 o) end.

  (* the loop `p(0); for (it; it.valid(); ++it, valence += 1) p += vertex( *it ); p /= valence` *)
  Definition g_bary_of (verts : list nat) : list T :=
    vsdiv o (fold_left (fun p v => vadd o p (pos v)) verts (vectorize dim (s0 o))) (count_up (length verts)).

  (* hfv_iter(halfface_handle(f, 0)) : from_vertex of every halfedge of the stored face, in order *)
  Definition g_face_vertices (s : mesh) (f : nat) : list nat := map (he_from s) (face_at s f).
  (* :163 *)
  Definition g_bary_face (s : mesh) (f : nat) : list T := g_bary_of (g_face_vertices s f).

  (* CellVertexIter: for every halfface of the cell the vertices of its FACE (side 0), then sort + unique *)
  Definition g_cell_vertices (s : mesh) (c : nat) : list nat :=
    set_of_list (flat_map (fun hf => g_face_vertices s (hf / 2)) (cell_at s c)).
  (* :175 *)
  Definition g_bary_cell (s : mesh) (c : nat) : list T := g_bary_of (g_cell_vertices s c).

  (* the corner (q - p) x (r - q) *)
  Definition corner (p q r : list T) : list T := cross o (vsub o q p) (vsub o r q).

  (* :189  normal(hf) BEFORE `n.normalized()`: fewer than 3 halfedges -> (0,0,0) (and a warning on cerr);
     else p1 = from(he0), p2 = to(he0), p3 = to(he1) of halfface(hf).halfedges(); n = (p2-p1) x (p3-p2) *)
  Definition g_normal_raw (s : mesh) (hf : nat) : list T :=
    let hes := halfface s hf in
    if length hes <? 3 then [s0 o; s0 o; s0 o]
    else match hes with
         | h0 :: h1 :: _ => corner (pos (he_from s h0)) (pos (he_to s h0)) (pos (he_to s h1))
         | _ => [s0 o; s0 o; s0 o]
         end.
  Definition g_normal_degenerate (s : mesh) (hf : nat) : bool := length (halfface s hf) <? 3.
End Geo.

(* ---- positions stored in the model state: the first three vertex property arrays are x, y, z
   (the driver creates them first; the library keeps "ovm:position" as a vertex property that is resized,
   swapped and compacted with the vertices exactly like any other - C03) *)
Definition pval (s : mesh) (p v : nat) : Z := nth v (pdata (nth p (pv s) {| pdef := 0%Z; pdata := [] |})) 0%Z.
Definition vpos (s : mesh) (v : nat) : list Z := [pval s 0 v; pval s 1 v; pval s 2 v].
Definition vposQ (s : mesh) (v : nat) : list Q := map inject_Z (vpos s v).

(* the instances that are extracted and run against the library *)
Definition geo_vector_he (s : mesh) (h : nat) : list Z := g_vector_he Zops (vpos s) s h.
Definition geo_vector_e (s : mesh) (e : nat) : list Z := g_vector_e Zops (vpos s) s e.
Definition geo_sqrlen_he (s : mesh) (h : nat) : Z := g_sqrlen_he Zops (vpos s) s h.
Definition geo_sqrlen_e (s : mesh) (e : nat) : Z := g_sqrlen_e Zops (vpos s) s e.
Definition geo_normal_raw (s : mesh) (hf : nat) : list Z := g_normal_raw Zops (vpos s) s hf.
Definition geo_normal_degenerate (s : mesh) (hf : nat) : bool := g_normal_degenerate s hf.
Definition geo_bary_edge (s : mesh) (e : nat) : list Q := g_bary_edge Qops (1 # 2) (vposQ s) s e.
Definition geo_bary_face (s : mesh) (f : nat) : list Q := g_bary_face Qops 3 (vposQ s) s f.
Definition geo_bary_cell (s : mesh) (c : nat) : list Q := g_bary_cell Qops 3 (vposQ s) s c.
Definition geo_face_vertices (s : mesh) (f : nat) : list nat := g_face_vertices s f.
Definition geo_cell_vertices (s : mesh) (c : nat) : list nat := g_cell_vertices s c.
