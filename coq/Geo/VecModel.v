(* Geo/VecModel.v -- OpenVolumeMesh::Geometry::VectorT<Scalar,DIM> (src/OpenVolumeMesh/Geometry/Vector11T.hh)
   as dimension-generic functions over `list T`, every operator written as the ALGORITHM the header uses
   (the std:: algorithm it calls, with its seed, its direction and its comparator).  Definitions only;
   the theorems are in Geo/VecProofs.v.

   The scalar type is a record of operations [sops T], instantiated at
     Zops  -- `int` (exact integer semantics; signed overflow is UB in C++, excluded by range hypotheses),
     Uops  -- `unsigned int` (every result reduced mod 2^32, Base/Int32.c_uint),
     Qops  -- exact rationals: the reference for `float` / `double` (every finite float IS a rational;
              the implementation result is compared with this value under an explicit rounding bound).
   A vector of dimension DIM is a list of length DIM (DIM >= 1 is a static_assert of the header); binary
   operators are used on equal lengths. *)
From Coq Require Import List ZArith QArith Qabs Bool.
From OVM Require Import Base.Int32.
Import ListNotations.

Record sops (T : Type) : Type := {
  s0 : T;                       (* Scalar(0) *)
  s1 : T;                       (* Scalar(1) *)
  sadd : T -> T -> T;           (* l + r *)
  ssub : T -> T -> T;           (* l - r *)
  smul : T -> T -> T;           (* l * r *)
  sdiv : T -> T -> T;           (* l / r   (int: truncating; r = 0 is UB and excluded) *)
  sneg : T -> T;                (* -x *)
  sabs : T -> T;                (* std::abs(x) *)
  sltb : T -> T -> bool;        (* l < r *)
  seqb : T -> T -> bool;        (* l == r *)
  sofnat : nat -> T             (* the int DIM converted to Scalar in `x / DIM` *)
}.
Arguments s0 {T}. Arguments s1 {T}. Arguments sadd {T}. Arguments ssub {T}. Arguments smul {T}.
Arguments sdiv {T}. Arguments sneg {T}. Arguments sabs {T}. Arguments sltb {T}. Arguments seqb {T}.
Arguments sofnat {T}.

(* the loops `for (i = 0; i < DIM; ++i) data()[i] op= rhs.data()[i]` and the binary std::transform *)
Fixpoint map2 {A B C : Type} (f : A -> B -> C) (a : list A) (b : list B) : list C :=
  match a, b with
  | x :: a', y :: b' => f x y :: map2 f a' b'
  | _, _ => []
  end.

Fixpoint all2 {A B : Type} (p : A -> B -> bool) (a : list A) (b : list B) : bool :=
  match a, b with
  | x :: a', y :: b' => p x y && all2 p a' b'
  | _, _ => true
  end.

Fixpoint any2 {A B : Type} (p : A -> B -> bool) (a : list A) (b : list B) : bool :=
  match a, b with
  | x :: a', y :: b' => p x y || any2 p a' b'
  | _, _ => false
  end.

(* tokens of the text stream of operator<< / operator>> *)
Inductive tok (T : Type) : Type := TNum (x : T) | TSp.
Arguments TNum {T}. Arguments TSp {T}.

Section Vec.
  Context {T : Type} (o : sops T).

  (* :277-357  operator*=, /=, -=, += with a vector, and the copying forms built on them *)
  Definition vadd (a b : list T) : list T := map2 (sadd o) a b.
  Definition vsub (a b : list T) : list T := map2 (ssub o) a b.
  Definition vmul (a b : list T) : list T := map2 (smul o) a b.
  Definition vdiv (a b : list T) : list T := map2 (sdiv o) a b.

  (* :229-271  `for (auto& e : THIS) e = e * s` and `e = e / s`;  :688 `s * v` returns `v * s` *)
  Definition vscale (a : list T) (s : T) : list T := map (fun e => smul o e s) a.
  Definition vsdiv (a : list T) (s : T) : list T := map (fun e => sdiv o e s) a.
  Definition vscale_left (s : T) (a : list T) : list T := vscale a s.

  (* :360  std::transform with `-s` *)
  Definition vneg (a : list T) : list T := map (sneg o) a.

  (* :218-225  std::equal(rhs.begin, rhs.end, this.begin): compares *rhs_it == *this_it *)
  Definition veq (a b : list T) : bool := all2 (seqb o) b a.
  Definition vneq (a b : list T) : bool := negb (veq a b).

  (* :645  std::lexicographical_compare *)
  Fixpoint vlt (a b : list T) : bool :=
    match a, b with
    | x :: a', y :: b' => if sltb o x y then true else if sltb o y x then false else vlt a' b'
    | [], _ :: _ => true
    | _, [] => false
    end.

  (* :394  std::inner_product(data()+1, data()+DIM, rhs.data()+1, data()[0] * rhs.data()[0]) *)
  Definition dot (a b : list T) : T :=
    match a, b with
    | x :: a', y :: b' => fold_left (fun acc p => sadd o acc (smul o (fst p) (snd p))) (combine a' b') (smul o x y)
    | _, _ => s0 o
    end.

  (* :370  operator% (DIM == 3 only) *)
  Definition cross (a b : list T) : list T :=
    match a, b with
    | [a0; a1; a2], [b0; b1; b2] =>
        [ ssub o (smul o a1 b2) (smul o a2 b1);
          ssub o (smul o a2 b0) (smul o a0 b2);
          ssub o (smul o a0 b1) (smul o a1 b0) ]
    | _, _ => []
    end.

  (* :417  std::accumulate(cbegin()+1, cend(), v[0]*v[0], [](l, r) { return l + r*r; }) *)
  Definition sqrnorm (a : list T) : T :=
    match a with
    | x :: a' => fold_left (fun l r => sadd o l (smul o r r)) a' (smul o x x)
    | [] => s0 o
    end.

  (* :495  std::accumulate(cbegin()+1, cend(), v[0])   -- NOTE: no std::abs anywhere *)
  Definition l1_norm (a : list T) : T :=
    match a with
    | x :: a' => fold_left (sadd o) a' x
    | [] => s0 o
    end.

  (* std::max_element / std::min_element with comparator lt: the FIRST extremal element *)
  Definition max_elem (lt : T -> T -> bool) (a : list T) : T :=
    match a with
    | x :: a' => fold_left (fun best y => if lt best y then y else best) a' x
    | [] => s0 o
    end.
  Definition min_elem (lt : T -> T -> bool) (a : list T) : T :=
    match a with
    | x :: a' => fold_left (fun best y => if lt y best then y else best) a' x
    | [] => s0 o
    end.
  Definition abs_lt (x y : T) : bool := sltb o (sabs o x) (sabs o y).

  (* :513-538 *)
  Definition vmax (a : list T) : T := max_elem (sltb o) a.
  Definition vmin (a : list T) : T := min_elem (sltb o) a.
  Definition max_abs (a : list T) : T := sabs o (max_elem abs_lt a).
  Definition min_abs (a : list T) : T := sabs o (min_elem abs_lt a).
  (* :501 *)
  Definition l8_norm (a : list T) : T := max_abs a.

  (* :541  l1_norm()/DIM ;  :546  accumulate(+1, end, abs(v[0]), l + abs(r)) / DIM *)
  Definition mean (a : list T) : T := sdiv o (l1_norm a) (sofnat o (length a)).
  Definition mean_abs (a : list T) : T :=
    match a with
    | x :: a' => sdiv o (fold_left (fun l r => sadd o l (sabs o r)) a' (sabs o x)) (sofnat o (length a))
    | [] => s0 o
    end.

  (* std::min(l, r) = (r < l) ? r : l ;  std::max(l, r) = (l < r) ? r : l *)
  Definition smin (l r : T) : T := if sltb o r l then r else l.
  Definition smax (l r : T) : T := if sltb o l r then r else l.

  (* :555, :583 *)
  Definition minimize (a b : list T) : list T := map2 smin a b.
  Definition maximize (a b : list T) : list T := map2 smax a b.
  (* :566  `if (l < r) return l; else { result = true; return r; }`  -> (result, new value of the vector) *)
  Definition minimized (a b : list T) : bool * list T :=
    (any2 (fun l r => negb (sltb o l r)) a b, map2 (fun l r => if sltb o l r then l else r) a b).
  (* :594  `if (l > r) return l; else { result = true; return r; }` *)
  Definition maximized (a b : list T) : bool * list T :=
    (any2 (fun l r => negb (sltb o r l)) a b, map2 (fun l r => if sltb o r l then l else r) a b).
  (* :611, :616  a copy of the vector, then minimize(rhs) on the copy *)
  Definition vmin2 (a b : list T) : list T := minimize a b.
  Definition vmax2 (a b : list T) : list T := maximize a b.

  (* :634  std::fill ;  :117 VectorT(const Scalar&) ;  :640 vectorized *)
  Definition vectorize (n : nat) (s : T) : list T := repeat s n.

  (* :143  homogenized() (DIM == 4 only) *)
  Definition homogenized (a : list T) : list T :=
    match a with
    | [x; y; z; w] => [sdiv o x w; sdiv o y w; sdiv o z w; s1 o]
    | _ => a
    end.

  (* :696  operator<< : v[0], then " " v[i] for i = 1 .. DIM-1 *)
  Definition vout (a : list T) : list (tok T) :=
    match a with
    | x :: a' => TNum x :: flat_map (fun y => [TSp; TNum y]) a'
    | [] => []
    end.
End Vec.

(* :186 / :175  conversion from VectorT<OtherScalar,DIM>: std::transform with static_cast *)
Definition vconvert {A B : Type} (f : A -> B) (a : list A) : list B := map f a.

(* :709  operator>> : `for i < DIM: is >> v[i]`; formatted extraction skips leading white space and
   fails (None: failbit, the rest of the vector is left as it was) when no number follows *)
Fixpoint skip_sp {T : Type} (l : list (tok T)) : list (tok T) :=
  match l with TSp :: t => skip_sp t | _ => l end.
Fixpoint vin {T : Type} (n : nat) (l : list (tok T)) : option (list T * list (tok T)) :=
  match n with
  | O => Some ([], l)
  | S k => match skip_sp l with
           | TNum x :: r => match vin k r with
                            | Some (v, r') => Some (x :: v, r')
                            | None => None
                            end
           | _ => None
           end
  end.

(* ------------------------------------------------------------------------------ scalar instances *)

(* int: exact *)
Definition Zops : sops Z := {|
  s0 := 0%Z; s1 := 1%Z;
  sadd := Z.add; ssub := Z.sub; smul := Z.mul; sdiv := Z.quot; sneg := Z.opp; sabs := Z.abs;
  sltb := Z.ltb; seqb := Z.eqb; sofnat := Z.of_nat |}.

(* unsigned int: arithmetic mod 2^32 on values kept in [0, 2^32).  std::abs(unsigned) does not compile
   (ambiguous), so max_abs/min_abs/l8_norm/mean_abs do not exist for this instance; sabs is the identity *)
Definition Uops : sops Z := {|
  s0 := 0%Z; s1 := 1%Z;
  sadd := fun a b => c_uint (a + b); ssub := fun a b => c_uint (a - b); smul := fun a b => c_uint (a * b);
  sdiv := Z.quot; sneg := fun a => c_uint (- a); sabs := fun a => a;
  sltb := Z.ltb; seqb := Z.eqb; sofnat := fun n => c_uint (Z.of_nat n) |}.

(* exact rationals (float / double reference) *)
Definition Qltb (a b : Q) : bool := negb (Qle_bool b a).
Definition Qops : sops Q := {|
  s0 := 0%Q; s1 := 1%Q;
  sadd := Qplus; ssub := Qminus; smul := Qmult; sdiv := Qdiv; sneg := Qopp; sabs := Qabs;
  sltb := Qltb; seqb := Qeq_bool; sofnat := fun n => inject_Z (Z.of_nat n) |}.

(* scalar conversions (static_cast between the instantiated scalar types) *)
Definition conv_int_uint (x : Z) : Z := c_uint x.       (* int -> unsigned: mod 2^32 *)
Definition conv_uint_int (x : Z) : Z := c_int x.        (* unsigned -> int: two's complement *)
Definition conv_int_q (x : Z) : Q := inject_Z x.        (* int -> double: exact *)
Definition conv_q_int (q : Q) : Z := Z.quot (Qnum q) (Zpos (Qden q)).   (* double -> int: toward zero *)
