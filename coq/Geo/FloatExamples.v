(* Geo/FloatExamples.v -- concrete instances for Props/Properties_C19_float.v: the hypotheses of the error
   theorems are satisfiable, the single-rounding bound and the dot-product bound are nearly attained, and the
   integer-exactness bound n * B^2 < 2^53 cannot be relaxed to "components below 2^26" for DIM = 3. *)
From Coq Require Import List ZArith Reals Bool Lia Lra Psatz.
From Flocq Require Import Core.Core IEEE754.BinarySingleNaN IEEE754.Binary IEEE754.Bits.
From OVM Require Import Geo.VecModel Geo.VecProofs Geo.FloatModel Geo.FloatProofs Geo.FloatError Geo.FloatExact.
Import ListNotations.
Local Open Scope R_scope.

(* the value of a concrete finite double as (significand, exponent) *)
Definition d_val (x : binary64) : Z * Z :=
  match x with B754_finite _ _ s m e _ => (cond_Zopp s (Zpos m), e) | _ => (0%Z, 0%Z) end.
Lemma D2R_val x : D2R x = IZR (fst (d_val x)) * bpow radix2 (snd (d_val x)).
Proof. destruct x as [s|s|s pl e|s m e e0]; unfold D2R; simpl; try lra. reflexivity. Qed.

Lemma bpow_neg_val (k : positive) : bpow radix2 (Z.neg k) = / IZR (Z.pow_pos 2 k).
Proof. reflexivity. Qed.
Lemma bpow_pos_val (k : positive) : bpow radix2 (Z.pos k) = IZR (Z.pow_pos 2 k).
Proof. reflexivity. Qed.

(* rewrite D2R of a closed double into a numeral expression *)
Ltac d_num x :=
  rewrite (D2R_val x);
  let v := eval vm_compute in (d_val x) in
  replace (d_val x) with v by (vm_compute; reflexivity);
  cbn [fst snd].
Ltac pow_num :=
  repeat match goal with
  | |- context [bpow radix2 (Z.neg ?k)] =>
      rewrite (bpow_neg_val k); let v := eval vm_compute in (Z.pow_pos 2 k) in change (Z.pow_pos 2 k) with v
  | |- context [bpow radix2 (Z.pos ?k)] =>
      rewrite (bpow_pos_val k); let v := eval vm_compute in (Z.pow_pos 2 k) in change (Z.pow_pos 2 k) with v
  | |- context [bpow radix2 0] => change (bpow radix2 0) with 1
  end.

Ltac abs_num :=
  repeat match goal with |- context [Rabs ?t] => first [rewrite (Rabs_pos_eq t) by lra | rewrite (Rabs_left1 t) by lra] end.

(* ---- 1. hypotheses of the dot / norm theorems are satisfiable: (1,2,3).(4,5,6) = 32, exactly *)
Definition ex_a : list binary64 := map d_of_Z [1; 2; 3]%Z.
Definition ex_b : list binary64 := map d_of_Z [4; 5; 6]%Z.

Lemma tiny64_le_1 : tiny64 <= 1.
Proof. unfold tiny64. change 1 with (bpow radix2 0). apply bpow_le. lia. Qed.

Lemma ex_dot_hypotheses :
  length ex_a = length ex_b /\ ex_a <> [] /\ fin64 (dot Dops ex_a ex_b) /\ no_underflow (pairsR ex_a ex_b) /\
  D2R (dot Dops ex_a ex_b) = 32 /\ bits_of_d (dot Dops ex_a ex_b) = 0x4040000000000000%Z.
Proof.
  split; [reflexivity|]. split; [discriminate|]. split; [reflexivity|].
  assert (V : forall z, (Z.abs z < 2 ^ 53)%Z -> D2R (d_of_Z z) = IZR z) by (intros z H; apply (isint_of_Z z H)).
  split.
  - unfold no_underflow, pairsR, ex_a, ex_b, prodR. cbn [map combine fst snd]. rewrite !V by (simpl; lia).
    pose proof tiny64_le_1. repeat (apply Forall_cons; [right; rewrite Rabs_pos_eq; lra|]). apply Forall_nil.
  - split; [|vm_compute; reflexivity].
    assert (I : isint (dot Dops ex_a ex_b) (dot Zops [1; 2; 3]%Z [4; 5; 6]%Z)).
    { apply (exact_dot 6); try lia; try (apply isint_map_of_Z); repeat constructor; simpl; lia. }
    destruct I as (_ & E). rewrite E. reflexivity.
Qed.

Lemma ex_norm_hypotheses :
  fin64 (sqrnorm Dops ex_a) /\ no_underflow (squaresR ex_a) /\ 0 < norm2R ex_a /\ E64 (S (length ex_a)) < 1 /\
  bits_of_d (fnorm Dops d_sqrt ex_a) = 0x400deeea11683f49%Z.          (* sqrt(14) correctly rounded *)
Proof.
  assert (V : forall z, (Z.abs z < 2 ^ 53)%Z -> D2R (d_of_Z z) = IZR z) by (intros z H; apply (isint_of_Z z H)).
  split; [reflexivity|]. pose proof tiny64_le_1.
  split; [|split; [|split; [apply E64_lt_1; simpl; lia | vm_compute; reflexivity]]].
  - unfold no_underflow, squaresR, ex_a. cbn [map]. rewrite !V by (simpl; lia).
    repeat (apply Forall_cons; [right; rewrite Rabs_pos_eq; lra|]). apply Forall_nil.
  - unfold norm2R, squaresR, ex_a. cbn [map Rsum fold_right]. rewrite !V by (simpl; lia). lra.
Qed.

(* ---- 2. one rounding: the bound u * |exact| is attained up to the factor 1 - 2^-51:
   1 + 2^-53 (1 - 2^-52) rounds to 1 *)
Definition ex_one : binary64 := d_of_bits 0x3ff0000000000000.
Definition ex_small : binary64 := d_of_bits 0x3c9ffffffffffffe.

Lemma ex_single_rounding_tight :
  let r := b64_plus mode_NE ex_one ex_small in
  let exact := D2R ex_one + D2R ex_small in
  fin64 ex_one /\ fin64 ex_small /\ fin64 r /\ bits_of_d r = 0x3ff0000000000000%Z /\
  Rabs (D2R r - exact) <= u64 * Rabs exact /\                          (* the bound of theorem (a) + relative_error *)
  (1 - / 2251799813685248) * (u64 * Rabs exact) <= Rabs (D2R r - exact).   (* 1 - 2^-51 of it is reached *)
Proof.
  cbv zeta. split; [reflexivity|]. split; [reflexivity|]. split; [reflexivity|]. split; [vm_compute; reflexivity|].
  d_num (b64_plus mode_NE ex_one ex_small). d_num ex_one. d_num ex_small. rewrite u64_val. pow_num.
  abs_num. split; lra.
Qed.

(* ---- 3. dot product, DIM = 2: 94.8% of the bound ((1+u)^2 - 1) * sum |x_i y_i| is reached *)
Definition ex_x : list binary64 := map d_of_bits [0xc0091e737288e5fc; 0xbfe3b4d3dbf385aa]%Z.
Definition ex_y : list binary64 := map d_of_bits [0xbfe4a59acc493efc; 0xc00a6fad15e97033]%Z.

Lemma ex_dot_bound_nearly_attained :
  fin64 (dot Dops ex_x ex_y) /\ no_underflow (pairsR ex_x ex_y) /\
  bits_of_d (dot Dops ex_x ex_y) = 0x40103e5c5339f976%Z /\
  94 / 100 * (E64 2 * Rsum (map Rabs (pairsR ex_x ex_y))) <= Rabs (D2R (dot Dops ex_x ex_y) - Rsum (pairsR ex_x ex_y)).
Proof.
  split; [reflexivity|].
  assert (P : pairsR ex_x ex_y = [D2R (d_of_bits 0xc0091e737288e5fc) * D2R (d_of_bits 0xbfe4a59acc493efc);
                                  D2R (d_of_bits 0xbfe3b4d3dbf385aa) * D2R (d_of_bits 0xc00a6fad15e97033)]) by reflexivity.
  rewrite P. clear P. pose proof tiny64_le_1 as T.
  split; [|split; [vm_compute; reflexivity|]].
  - unfold no_underflow. apply Forall_cons; [right|apply Forall_cons; [right|apply Forall_nil]].
    + d_num (d_of_bits 0xc0091e737288e5fc). d_num (d_of_bits 0xbfe4a59acc493efc). pow_num. abs_num. lra.
    + d_num (d_of_bits 0xbfe3b4d3dbf385aa). d_num (d_of_bits 0xc00a6fad15e97033). pow_num. abs_num. lra.
  - d_num (dot Dops ex_x ex_y).
    d_num (d_of_bits 0xc0091e737288e5fc). d_num (d_of_bits 0xbfe4a59acc493efc).
    d_num (d_of_bits 0xbfe3b4d3dbf385aa). d_num (d_of_bits 0xc00a6fad15e97033).
    unfold E64. rewrite u64_val. pow_num. simpl Rsum. simpl map. simpl Rsum.
    simpl pow. abs_num. lra.
Qed.

(* ---- 4. integer-valued doubles: with components 2^26 - 1 (below 2^26) the DIM = 3 dot product is NOT exact
   (the three exact products sum to an odd number above 2^53), so the hypothesis n * B^2 < 2^53 of the exactness
   theorem is needed; + - * and cross are exact for such components *)
Definition ex_c : Z := (2 ^ 26 - 1)%Z.

Lemma ex_dot_dim3_below_2_26_not_exact :
  let v := map d_of_Z [ex_c; ex_c; ex_c] in
  Forall2 isint v [ex_c; ex_c; ex_c] /\ ~ isint (dot Dops v v) (dot Zops [ex_c; ex_c; ex_c] [ex_c; ex_c; ex_c]).
Proof.
  cbv zeta. split; [apply isint_map_of_Z; repeat constructor; vm_compute; discriminate|].
  intros (_ & E). revert E. d_num (dot Dops (map d_of_Z [ex_c; ex_c; ex_c]) (map d_of_Z [ex_c; ex_c; ex_c])).
  replace (dot Zops [ex_c; ex_c; ex_c] [ex_c; ex_c; ex_c]) with 13510798479458307%Z by (vm_compute; reflexivity).
  pow_num. lra.
Qed.
