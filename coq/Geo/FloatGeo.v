(* Geo/FloatGeo.v -- the binary64 model of GeometryKernel's barycenters (Geo/GeoModel.v instantiated with Dops,
   Geo/FloatModel.v): error bound for the sum-then-divide order of barycenter(FaceHandle) / barycenter(CellHandle)
   (p = 0; p += vertex(v) for every visited vertex; valence += 1; p /= valence) and the correctly rounded midpoint
   of barycenter(EdgeHandle) (0.5 * a + 0.5 * b). *)
From Coq Require Import List ZArith Reals Bool Lia Lra Psatz.
From Flocq Require Import Core.Core IEEE754.BinarySingleNaN IEEE754.Binary IEEE754.Bits.
From OVM Require Import Kernel.State Geo.VecModel Geo.VecProofs Geo.GeoModel Geo.FloatModel Geo.FloatProofs Geo.FloatError Geo.FloatExact.
Import ListNotations.
Local Open Scope R_scope.

(* ------------------------------------------------------------------------------ recursive summation *)
Definition sacc (xs : list binary64) (acc : binary64) : binary64 := fold_left (b64_plus mode_NE) xs acc.

Lemma sacc_fin : forall xs acc, fin64 (sacc xs acc) -> fin64 acc.
Proof.
  induction xs as [|x xs IH]; intros acc H; simpl in *; [exact H|]. apply IH in H. apply fin_add_inv in H. tauto.
Qed.

Lemma sacc_bound : forall xs acc S A k, fin64 (sacc xs acc) -> Rabs S <= A -> Rabs (D2R acc - S) <= E64 k * A ->
  Rabs (D2R (sacc xs acc) - (S + Rsum (map D2R xs))) <= E64 (k + length xs) * (A + Rsum (map Rabs (map D2R xs))).
Proof.
  induction xs as [|x xs IH]; intros acc S A k F HS Ha.
  - simpl. rewrite Nat.add_0_r, !Rplus_0_r. exact Ha.
  - simpl sacc in *. pose proof (sacc_fin _ _ F) as F1. destruct (fin_add_inv _ _ F1) as (Facc & Fx).
    destruct (rnd64_error_add _ _ (format64_D2R acc) (format64_D2R x)) as (d & Hd & Hr).
    assert (Eacc : D2R (b64_plus mode_NE acc x) = (D2R acc + D2R x) * (1 + d)).
    { rewrite (proj2 (d_add_correct _ _ Facc Fx) F1). exact Hr. }
    specialize (IH (b64_plus mode_NE acc x) (S + D2R x) (A + Rabs (D2R x)) (Datatypes.S k) F).
    simpl map. simpl Rsum. simpl length.
    replace (k + Datatypes.S (length xs))%nat with (Datatypes.S k + length xs)%nat by lia.
    replace (S + (D2R x + Rsum (map D2R xs))) with (S + D2R x + Rsum (map D2R xs)) by ring.
    replace (A + (Rabs (D2R x) + Rsum (map Rabs (map D2R xs)))) with (A + Rabs (D2R x) + Rsum (map Rabs (map D2R xs))) by ring.
    apply IH.
    + eapply Rle_trans; [apply Rabs_triang|]. lra.
    + rewrite Eacc. apply step_sum; assumption.
Qed.

(* +0.0 + x has the value of x *)
Lemma d_zero_plus x : fin64 (b64_plus mode_NE d_zero x) -> D2R (b64_plus mode_NE d_zero x) = D2R x.
Proof.
  intros F. destruct (fin_add_inv _ _ F) as (F0 & Fx).
  rewrite (proj2 (d_add_correct _ _ F0 Fx) F). change (D2R d_zero) with 0. rewrite Rplus_0_l.
  apply rnd64_format, format64_D2R.
Qed.

(* `valence = 0; valence += 1` n times: exactly n *)
Lemma count_up_exact n : (Z.of_nat n < 2 ^ 53)%Z -> isint (count_up Dops n) (Z.of_nat n).
Proof.
  induction n as [|n IH]; intros H.
  - simpl. split; reflexivity.
  - cbn [count_up sadd s1 Dops]. rewrite Nat2Z.inj_succ. unfold Z.succ.
    apply isint_add; [apply IH; lia | apply isint_of_Z; lia | lia].
Qed.

(* ------------------------------------------------------------------------------ the i-th coordinate of the loop *)
Section Bary.
  Variable pos : nat -> list binary64.
  Hypothesis pos3 : forall v, length (pos v) = 3%nat.
  Variable dflt : binary64.

  Definition coord (i v : nat) : binary64 := nth i (pos v) dflt.

  Lemma fold_vadd_len : forall verts p, length p = 3%nat -> length (fold_left (fun p v => vadd Dops p (pos v)) verts p) = 3%nat.
  Proof.
    induction verts as [|v verts IH]; intros p Hp; simpl; [assumption|].
    apply IH. rewrite vadd_length; rewrite ?pos3; assumption.
  Qed.

  Lemma fold_vadd_coord i : (i < 3)%nat -> forall verts p, length p = 3%nat ->
    nth i (fold_left (fun p v => vadd Dops p (pos v)) verts p) dflt = sacc (map (coord i) verts) (nth i p dflt).
  Proof.
    intros Hi. induction verts as [|v verts IH]; intros p Hp; simpl; [reflexivity|].
    rewrite IH by (rewrite vadd_length; rewrite ?pos3; assumption).
    rewrite (vadd_nth Dops dflt) by (rewrite ?pos3; lia). reflexivity.
  Qed.

  Lemma g_bary_of_coord verts i : (i < 3)%nat ->
    nth i (g_bary_of Dops 3 pos verts) dflt = b64_div mode_NE (sacc (map (coord i) verts) d_zero) (count_up Dops (length verts)).
  Proof.
    intros Hi. unfold g_bary_of.
    rewrite (vsdiv_nth Dops dflt) by (rewrite fold_vadd_len; [lia | reflexivity]).
    cbn [sdiv Dops]. rewrite fold_vadd_coord by (assumption || reflexivity). f_equal. f_equal.
    destruct i as [|[|[|i]]]; try lia; reflexivity.
  Qed.

  (* barycenter of n >= 1 points, coordinate i: the exact mean within ((1+u)^n - 1) * mean|c| + 2^-1075 *)
  Theorem bary_error verts i : (i < 3)%nat -> verts <> [] -> (Z.of_nat (length verts) < 2 ^ 53)%Z ->
    let r := nth i (g_bary_of Dops 3 pos verts) dflt in
    let c := map (fun v => D2R (coord i v)) verts in
    let n := INR (length verts) in
    fin64 r ->
    Rabs (D2R r - Rsum c / n) <= E64 (length verts) * (Rsum (map Rabs c) / n) + eta64.
  Proof.
    intros Hi Nv Hn. cbv zeta. rewrite g_bary_of_coord by exact Hi. intros F.
    destruct (count_up_exact _ Hn) as (Fc & Ec). rewrite <- INR_IZR_INZ in Ec.
    destruct verts as [|v0 verts']; [congruence|]. clear Nv.
    set (n := INR (length (v0 :: verts'))) in *.
    assert (Npos : 0 < n) by (unfold n; apply lt_0_INR; simpl; lia).
    pose proof (fin_div_inv _ _ F) as Fs.
    assert (Nz : D2R (count_up Dops (length (v0 :: verts'))) <> 0) by (rewrite Ec; lra).
    rewrite (proj2 (d_div_correct _ _ Fs Nz) F), Ec.
    simpl map in *. simpl sacc in *.
    pose proof (sacc_fin _ _ Fs) as F0.
    pose proof (sacc_bound (map (coord i) verts') _ (D2R (coord i v0)) (Rabs (D2R (coord i v0))) 0%nat Fs (Rle_refl _)) as B.
    rewrite (d_zero_plus _ F0) in B. unfold Rminus at 1 in B. rewrite Rplus_opp_r, Rabs_R0 in B.
    specialize (B ltac:(unfold E64; simpl; lra)). simpl Nat.add in B. rewrite map_length in B. rewrite !map_map in B.
    set (s := D2R (sacc (map (coord i) verts') (b64_plus mode_NE d_zero (coord i v0)))) in *.
    simpl Rsum. simpl length. rewrite !map_map.
    set (T := D2R (coord i v0) + Rsum (map (fun v => D2R (coord i v)) verts')) in *.
    set (Ta := Rabs (D2R (coord i v0)) + Rsum (map (fun v => Rabs (D2R (coord i v))) verts')) in *.
    destruct (rnd64_error (s / n)) as (d & e & Hd & He & Hr). rewrite Hr.
    replace (s / n * (1 + d) + e - T / n) with ((s - T) / n * (1 + d) + T / n * d + e) by (field; lra).
    assert (TT : Rabs T <= Ta).
    { unfold T, Ta. eapply Rle_trans; [apply Rabs_triang|]. apply Rplus_le_compat_l.
      rewrite <- (map_map (fun v => D2R (coord i v)) Rabs). apply Rsum_abs_ge. }
    pose proof (E64_nonneg (length verts')) as E0. pose proof u64_pos as U.
    assert (Q : forall z, Rabs (z / n) = Rabs z / n) by (intros z; unfold Rdiv; rewrite Rabs_mult, (Rabs_inv n), (Rabs_pos_eq n) by lra; reflexivity).
    assert (T1 : Rabs ((s - T) / n * (1 + d)) <= E64 (length verts') * Ta / n * (1 + u64)).
    { apply abs_mul_le; [|apply abs_1pd; exact Hd]. rewrite Q. apply Rmult_le_compat_r; [apply Rlt_le, Rinv_0_lt_compat; lra | exact B]. }
    assert (T2 : Rabs (T / n * d) <= Ta / n * u64).
    { apply abs_mul_le; [|exact Hd]. rewrite Q. apply Rmult_le_compat_r; [apply Rlt_le, Rinv_0_lt_compat; lra | exact TT]. }
    eapply Rle_trans; [apply Rabs_triang|]. apply Rplus_le_compat; [|exact He].
    eapply Rle_trans; [apply Rabs_triang|]. rewrite E64_S.
    replace ((E64 (length verts') * (1 + u64) + u64) * (Ta / n)) with (E64 (length verts') * Ta / n * (1 + u64) + Ta / n * u64) by (field; lra).
    lra.
  Qed.
End Bary.

(* barycenter(FaceHandle), barycenter(CellHandle): the loop over the face's / the cell's vertices *)
Corollary bary_face_error pos (pos3 : forall v, length (pos v) = 3%nat) dflt s f i :
  (i < 3)%nat -> g_face_vertices s f <> [] -> (Z.of_nat (length (g_face_vertices s f)) < 2 ^ 53)%Z ->
  let r := nth i (g_bary_face Dops 3 pos s f) dflt in
  let c := map (fun v => D2R (nth i (pos v) dflt)) (g_face_vertices s f) in
  let n := INR (length (g_face_vertices s f)) in
  fin64 r -> Rabs (D2R r - Rsum c / n) <= E64 (length (g_face_vertices s f)) * (Rsum (map Rabs c) / n) + eta64.
Proof. intros. apply (bary_error pos pos3 dflt); assumption. Qed.

Corollary bary_cell_error pos (pos3 : forall v, length (pos v) = 3%nat) dflt s c i :
  (i < 3)%nat -> g_cell_vertices s c <> [] -> (Z.of_nat (length (g_cell_vertices s c)) < 2 ^ 53)%Z ->
  let r := nth i (g_bary_cell Dops 3 pos s c) dflt in
  let cs := map (fun v => D2R (nth i (pos v) dflt)) (g_cell_vertices s c) in
  let n := INR (length (g_cell_vertices s c)) in
  fin64 r -> Rabs (D2R r - Rsum cs / n) <= E64 (length (g_cell_vertices s c)) * (Rsum (map Rabs cs) / n) + eta64.
Proof. intros. apply (bary_error pos pos3 dflt); assumption. Qed.

(* ------------------------------------------------------------------------------ barycenter(EdgeHandle):
   0.5 * a + 0.5 * b.  When halving is exact (a_i / 2 and b_i / 2 representable: always, except for subnormal a_i
   with an odd significand) the result is the CORRECTLY ROUNDED midpoint. *)
Lemma d_half_val : D2R d_half = / 2 /\ fin64 d_half.
Proof.
  split; [|reflexivity].
  assert (H : exists pf, d_half = B754_finite 53 1024 false 4503599627370496 (-53) pf) by (vm_compute; eexists; reflexivity).
  destruct H as (pf & H). rewrite H. unfold D2R, B2R, F2R. simpl Fnum. simpl Fexp. simpl cond_Zopp.
  change (-53)%Z with (- (53))%Z. rewrite bpow_opp.
  change (bpow radix2 53) with 9007199254740992. lra.
Qed.

Theorem bary_edge_midpoint pos (pos3 : forall v, length (pos v) = 3%nat) dflt s e i : (i < 3)%nat ->
  let a := nth i (pos (he_from s (2 * e))) dflt in
  let b := nth i (pos (he_to s (2 * e))) dflt in
  let r := nth i (g_bary_edge Dops d_half pos s e) dflt in
  fin64 r -> format64 (D2R a / 2) -> format64 (D2R b / 2) ->
  D2R r = rnd64 ((D2R a + D2R b) / 2).
Proof.
  intros Hi. cbv zeta. unfold g_bary_edge.
  rewrite (vadd_nth Dops dflt) by (unfold vscale_left; rewrite ?vscale_length, ?pos3; lia).
  rewrite !(vscale_left_nth Dops dflt) by (rewrite pos3; lia). cbn [sadd smul Dops].
  intros F Fa Fb. destruct (fin_add_inv _ _ F) as (F1 & F2).
  destruct (fin_mul_inv _ _ F1) as (Fa1 & Fh). destruct (fin_mul_inv _ _ F2) as (Fb1 & _).
  rewrite (proj2 (d_add_correct _ _ F1 F2) F).
  rewrite (proj2 (d_mul_correct _ _ Fa1 Fh) F1), (proj2 (d_mul_correct _ _ Fb1 Fh) F2).
  rewrite (proj1 d_half_val).
  fold (Rdiv (D2R (nth i (pos (he_from s (2 * e))) dflt)) 2). fold (Rdiv (D2R (nth i (pos (he_to s (2 * e))) dflt)) 2).
  rewrite (rnd64_format _ Fa), (rnd64_format _ Fb). f_equal. field.
Qed.

(* ------------------------------------------------------------------------------ l1_norm() (finding D12: the plain
   sum v[0] + v[1] + ... in this order, no std::abs) and mean() = l1_norm() / DIM *)
Theorem l1_norm_error (x : list binary64) : x <> [] -> fin64 (l1_norm Dops x) ->
  Rabs (D2R (l1_norm Dops x) - Rsum (map D2R x)) <= E64 (length x - 1) * Rsum (map Rabs (map D2R x)).
Proof.
  intros Nx F. destruct x as [|x0 x]; [congruence|].
  change (l1_norm Dops (x0 :: x)) with (sacc x x0) in *.
  pose proof (sacc_bound x x0 (D2R x0) (Rabs (D2R x0)) 0%nat F (Rle_refl _)) as B.
  unfold Rminus at 1 in B. rewrite Rplus_opp_r, Rabs_R0 in B. specialize (B ltac:(unfold E64; simpl; lra)).
  replace (length (x0 :: x) - 1)%nat with (0 + length x)%nat by (simpl; lia). exact B.
Qed.
