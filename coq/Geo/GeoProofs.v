(* Geo/GeoProofs.v -- theorems about Geo/GeoModel.v: the geometric queries equal their defining formulas
   on the positions of the entity's vertices, and the relation between the (unnormalised) normals of the
   two sides of a face. *)
From Coq Require Import List ZArith QArith Qabs Bool Lia Arith ZifyNat ZifyBool.
From OVM Require Import Base.ListX Base.Int32 Kernel.State Kernel.Ops Kernel.Mirror Geo.VecModel Geo.VecProofs Geo.GeoModel.
Import ListNotations.
Local Open Scope nat_scope.

(* ================================================================== vector / length *)

Section VecQueries.
  Variable pos : nat -> list Z.
  Hypothesis pos3 : forall v, length (pos v) = 3.

  Lemma g_vector_he_nth s h i : i < 3 ->
    nth i (g_vector_he Zops pos s h) 0%Z = (nth i (pos (he_to s h)) 0 - nth i (pos (he_from s h)) 0)%Z.
  Proof. intros Hi. unfold g_vector_he. rewrite (vsub_nth Zops 0%Z) by (rewrite ?pos3; lia). reflexivity. Qed.

  Lemma g_vector_he_length s h : length (g_vector_he Zops pos s h) = 3.
  Proof. unfold g_vector_he. rewrite vsub_length; rewrite ?pos3; reflexivity. Qed.

  (* the edge's vector is that of its halfedge 0; the opposite halfedge has the negated vector *)
  Lemma g_vector_e_he s e : g_vector_e Zops pos s e = g_vector_he Zops pos s (2 * e).
  Proof. reflexivity. Qed.

  Lemma vsub_swap_neg : forall a b : list Z, vsub Zops a b = vneg Zops (vsub Zops b a).
  Proof.
    unfold vsub, vneg. cbn [ssub sneg Zops].
    induction a as [|x a IH]; destruct b as [|y b]; simpl; try reflexivity. rewrite IH. f_equal. lia.
  Qed.

  Lemma g_vector_he_opp s h : g_vector_he Zops pos s (opp h) = vneg Zops (g_vector_he Zops pos s h).
  Proof. unfold g_vector_he. rewrite he_to_opp, he_from_opp. apply vsub_swap_neg. Qed.

  Lemma sqrnorm_neg (a : list Z) : sqrnorm Zops (vneg Zops a) = sqrnorm Zops a.
  Proof.
    rewrite !sqrnorm_Z_sum. unfold vneg. cbn [sneg Zops]. rewrite map_map. f_equal.
    apply map_ext. intros x. lia.
  Qed.

  (* both halfedges of an edge have the same (squared) length, which is the sum of squared differences *)
  Lemma g_sqrlen_he_opp s h : g_sqrlen_he Zops pos s (opp h) = g_sqrlen_he Zops pos s h.
  Proof. unfold g_sqrlen_he. rewrite g_vector_he_opp. apply sqrnorm_neg. Qed.

  Lemma g_sqrlen_he_formula s h :
    g_sqrlen_he Zops pos s h =
    (let d (i : nat) := (nth i (pos (he_to s h)) 0 - nth i (pos (he_from s h)) 0)%Z in
     d 0%nat * d 0%nat + d 1%nat * d 1%nat + d 2%nat * d 2%nat)%Z.
  Proof.
    unfold g_sqrlen_he, g_vector_he. pose proof (pos3 (he_to s h)) as Ht. pose proof (pos3 (he_from s h)) as Hf.
    destruct (list3 _ Ht) as [t0 [t1 [t2 ->]]]. destruct (list3 _ Hf) as [f0 [f1 [f2 ->]]]. cbn. ring.
  Qed.
End VecQueries.

(* ================================================================== barycenters (rational reference) *)

Local Open Scope Q_scope.

Lemma count_up_Q n : count_up Qops n == inject_Z (Z.of_nat n).
Proof.
  induction n as [|n IH]; [reflexivity|]. cbn [count_up sadd s1 Qops]. rewrite IH.
  rewrite Nat2Z.inj_succ. unfold Z.succ. rewrite inject_Z_plus. reflexivity.
Qed.

Section Bary.
  Variable pos : nat -> list Q.
  Hypothesis pos3 : forall v, length (pos v) = 3%nat.

  (* sum of the i-th coordinates of the listed vertices *)
  Definition coord_sum (i : nat) (verts : list nat) : Q := qsum (map (fun v => nth i (pos v) 0) verts).

  Lemma fold_vadd_length : forall verts p, length p = 3%nat ->
    length (fold_left (fun p v => vadd Qops p (pos v)) verts p) = 3%nat.
  Proof.
    induction verts as [|v verts IH]; intros p Hp; simpl; [assumption|].
    apply IH. rewrite vadd_length; rewrite ?pos3; assumption.
  Qed.

  Lemma fold_vadd_nth i : (i < 3)%nat -> forall verts p, length p = 3%nat ->
    nth i (fold_left (fun p v => vadd Qops p (pos v)) verts p) 0 == nth i p 0 + coord_sum i verts.
  Proof.
    intros Hi. induction verts as [|v verts IH]; intros p Hp; simpl.
    - unfold coord_sum. simpl. ring.
    - rewrite IH by (rewrite vadd_length; rewrite ?pos3; assumption).
      rewrite (vadd_nth Qops 0) by (rewrite ?pos3; lia). cbn [sadd Qops].
      unfold coord_sum. simpl. ring.
  Qed.

  (* every coordinate of the barycenter is the sum of that coordinate over the visited vertices divided
     by their number *)
  Lemma g_bary_of_nth verts i : (i < 3)%nat ->
    nth i (g_bary_of Qops 3 pos verts) 0 == coord_sum i verts / inject_Z (Z.of_nat (length verts)).
  Proof.
    intros Hi. unfold g_bary_of.
    rewrite (vsdiv_nth Qops 0) by (rewrite fold_vadd_length; [lia | reflexivity]).
    cbn [sdiv Qops]. rewrite fold_vadd_nth by (assumption || reflexivity).
    rewrite count_up_Q.
    assert (E : nth i (vectorize 3 (s0 Qops)) 0 == 0).
    { destruct i as [|[|[|i]]]; try lia; reflexivity. }
    rewrite E. rewrite Qplus_0_l. reflexivity.
  Qed.
End Bary.

Section Bary2.
  Variable pos : nat -> list Q.
  Hypothesis pos3 : forall v, length (pos v) = 3%nat.

  (* edge barycenter: every coordinate is half the sum of the two end points' coordinates *)
  Lemma g_bary_edge_nth s e i : (i < 3)%nat ->
    nth i (g_bary_edge Qops (1 # 2) pos s e) 0 ==
    (nth i (pos (he_from s (2 * e))) 0 + nth i (pos (he_to s (2 * e))) 0) / 2.
  Proof.
    intros Hi. unfold g_bary_edge.
    rewrite (vadd_nth Qops 0) by (unfold vscale_left; rewrite ?vscale_length, ?pos3; lia).
    rewrite !(vscale_left_nth Qops 0) by (rewrite pos3; lia). cbn [sadd smul Qops]. field.
  Qed.

  (* face barycenter: mean of the positions of the from-vertices of the face's halfedges *)
  Lemma g_bary_face_nth s f i : (i < 3)%nat ->
    nth i (g_bary_face Qops 3 pos s f) 0 ==
    coord_sum pos i (map (he_from s) (face_at s f)) / inject_Z (Z.of_nat (length (face_at s f))).
  Proof.
    intros Hi. unfold g_bary_face. rewrite (g_bary_of_nth pos pos3) by assumption.
    unfold g_face_vertices. rewrite map_length. reflexivity.
  Qed.

  (* cell barycenter: mean over the cell's vertex SET *)
  Lemma g_bary_cell_nth s c i : (i < 3)%nat ->
    nth i (g_bary_cell Qops 3 pos s c) 0 ==
    coord_sum pos i (g_cell_vertices s c) / inject_Z (Z.of_nat (length (g_cell_vertices s c))).
  Proof. intros Hi. unfold g_bary_cell. apply (g_bary_of_nth pos pos3). assumption. Qed.
End Bary2.

Local Open Scope nat_scope.

(* ---- the vertex set of a cell: duplicate-free, ascending, and exactly the vertices of its faces *)
Fixpoint ascending (l : list nat) : Prop :=
  match l with
  | x :: ((y :: _) as t) => x < y /\ ascending t
  | _ => True
  end.

Lemma set_insert_In x : forall l y, In y (set_insert x l) <-> y = x \/ In y l.
Proof.
  induction l as [|z l IH]; intros y; simpl.
  - intuition.
  - destruct (Nat.ltb_spec x z).
    + simpl. intuition.
    + destruct (Nat.eqb_spec x z).
      * subst. simpl. intuition.
      * simpl. rewrite IH. intuition.
Qed.

Lemma ascending_head_lt : forall l x, ascending (x :: l) -> forall y, In y l -> x < y.
Proof.
  induction l as [|z l IH]; intros x H y Hy; [destruct Hy|].
  destruct H as [Hxz Hr]. destruct Hy as [<-|Hy]; [assumption|].
  pose proof (IH z Hr y Hy). lia.
Qed.

Lemma set_insert_ascending x : forall l, ascending l -> ascending (set_insert x l).
Proof.
  induction l as [|z l IH]; intros H; simpl; [exact I|].
  destruct (Nat.ltb_spec x z).
  - simpl. split; assumption.
  - destruct (Nat.eqb_spec x z); [assumption|].
    assert (Hl : ascending l) by (destruct l; [exact I | apply H]).
    specialize (IH Hl).
    assert (Hz : forall y, In y (set_insert x l) -> z < y).
    { intros y Hy. apply set_insert_In in Hy. destruct Hy as [->|Hy]; [lia|]. apply (ascending_head_lt l z H y Hy). }
    destruct (set_insert x l) as [|w t] eqn:E; [exact I|].
    split; [apply Hz; left; reflexivity | assumption].
Qed.

Lemma set_of_list_spec l : ascending (set_of_list l) /\ forall y, In y (set_of_list l) <-> In y l.
Proof.
  unfold set_of_list.
  assert (G : forall l acc, ascending acc ->
            ascending (fold_left (fun acc x => set_insert x acc) l acc) /\
            forall y, In y (fold_left (fun acc x => set_insert x acc) l acc) <-> In y acc \/ In y l).
  { clear l. induction l as [|x l IH]; intros acc Ha; simpl; [intuition|].
    destruct (IH (set_insert x acc) (set_insert_ascending x acc Ha)) as [A B]. split; [assumption|].
    intros y. rewrite B, set_insert_In. intuition. }
  destruct (G l [] I) as [A B]. split; [assumption|]. intros y. rewrite B. simpl. intuition.
Qed.

Lemma ascending_NoDup : forall l, ascending l -> NoDup l.
Proof.
  induction l as [|x l IH]; intros H; constructor.
  - intros Hin. pose proof (ascending_head_lt l x H x Hin). lia.
  - apply IH. destruct l; [exact I | apply H].
Qed.

Lemma g_cell_vertices_spec s c :
  NoDup (g_cell_vertices s c) /\ ascending (g_cell_vertices s c) /\
  forall v, In v (g_cell_vertices s c) <->
            exists hf h, In hf (cell_at s c) /\ In h (face_at s (hf / 2)) /\ v = he_from s h.
Proof.
  unfold g_cell_vertices. destruct (set_of_list_spec (flat_map (fun hf => g_face_vertices s (hf / 2)) (cell_at s c))) as [A B].
  split; [apply ascending_NoDup; assumption|]. split; [assumption|].
  intros v. rewrite B, in_flat_map. unfold g_face_vertices. split.
  - intros [hf [Hhf Hv]]. apply in_map_iff in Hv. destruct Hv as [h [E Hh]]. exists hf, h. auto.
  - intros [hf [h [Hhf [Hh E]]]]. exists hf. split; [assumption|]. apply in_map_iff. exists h. auto.
Qed.

(* ================================================================== halfface normals *)

Local Open Scope Z_scope.

Section Normals.
  Variable pos : nat -> list Z.
  Hypothesis pos3 : forall v, length (pos v) = 3%nat.

  (* traversing a corner the other way round negates it *)
  Lemma corner_rev p q r : length p = 3%nat -> length q = 3%nat -> length r = 3%nat ->
    corner Zops r q p = vneg Zops (corner Zops p q r).
  Proof.
    intros Hp Hq Hr. destruct (list3 p Hp) as [p0 [p1 [p2 ->]]]. destruct (list3 q Hq) as [q0 [q1 [q2 ->]]].
    destruct (list3 r Hr) as [r0 [r1 [r2 ->]]]. cbn. f_equal; [ring | f_equal; [ring | f_equal; ring]].
  Qed.

  (* in a triangle all three corners are the same vector (twice the area vector) *)
  Lemma corner_triangle p q r : length p = 3%nat -> length q = 3%nat -> length r = 3%nat ->
    corner Zops q r p = corner Zops p q r.
  Proof.
    intros Hp Hq Hr. destruct (list3 p Hp) as [p0 [p1 [p2 ->]]]. destruct (list3 q Hq) as [q0 [q1 [q2 ->]]].
    destruct (list3 r Hr) as [r0 [r1 [r2 ->]]]. cbn. f_equal; [ring | f_equal; [ring | f_equal; ring]].
  Qed.

  Lemma corner_length p q r : length p = 3%nat -> length q = 3%nat -> length r = 3%nat ->
    length (corner Zops p q r) = 3%nat.
  Proof. intros. unfold corner. apply cross_length; rewrite vsub_length; congruence. Qed.

  Lemma head2 (l : list nat) : (2 <= length l)%nat -> l = nth 0 l 0%nat :: nth 1 l 0%nat :: skipn 2 l.
  Proof. destruct l as [|a [|b l]]; simpl; intros; try lia. reflexivity. Qed.

  Variable s : mesh.
  Variable f : nat.
  Let l := face_at s f.
  Let n := length l.
  (* V i : position of the i-th vertex of the face = from-vertex of its i-th halfedge *)
  Let V (i : nat) : list Z := pos (he_from s (nth i l 0%nat)).

  Hypothesis n3 : (3 <= n)%nat.
  Hypothesis closed : closed_cycle s l.

  Lemma even_2f : Nat.even (2 * f) = true.
  Proof. rewrite Nat.even_mul. reflexivity. Qed.
  Lemma odd_2f1 : Nat.even (2 * f + 1) = false.
  Proof. rewrite Nat.add_comm. change (1 + 2 * f)%nat with (S (2 * f)). rewrite Nat.even_succ, <- Nat.negb_even, even_2f. reflexivity. Qed.
  Lemma div_2f : ((2 * f) / 2 = f)%nat.
  Proof. rewrite Nat.mul_comm. apply Nat.div_mul. discriminate. Qed.
  Lemma div_2f1 : ((2 * f + 1) / 2 = f)%nat.
  Proof. rewrite Nat.mul_comm. rewrite Nat.div_add_l by discriminate. simpl. lia. Qed.

  Lemma to_is_next i : (i < n)%nat -> pos (he_to s (nth i l 0%nat)) = V (if (S i =? n)%nat then 0%nat else S i).
  Proof. intros Hi. unfold V. destruct closed as [_ H]. rewrite (H i Hi). reflexivity. Qed.

  (* side 0: the corner at the face's first three vertices *)
  Lemma normal_raw_side0 : g_normal_raw Zops pos s (2 * f) = corner Zops (V 0) (V 1) (V 2).
  Proof.
    unfold g_normal_raw, halfface. rewrite div_2f, even_2f. fold l. fold n.
    destruct (Nat.ltb_spec n 3) as [H|_]; [lia|].
    rewrite (head2 l) by (fold n; lia).
    rewrite (to_is_next 0) by lia. rewrite (to_is_next 1) by lia.
    destruct (Nat.eqb_spec 1 n); [lia|]. destruct (Nat.eqb_spec 2 n); [lia|]. reflexivity.
  Qed.

  (* side 1: the halfedge list is the reversed list of opposites, so the corner used is the one at the
     face's LAST vertex, traversed backwards *)
  Lemma normal_raw_side1 : g_normal_raw Zops pos s (2 * f + 1) = corner Zops (V 0) (V (n - 1)) (V (n - 2)).
  Proof.
    unfold g_normal_raw, halfface. rewrite div_2f1, odd_2f1. fold l.
    rewrite rev_length, map_length. fold n.
    destruct (Nat.ltb_spec n 3) as [H|_]; [lia|].
    assert (Hl : length (rev (map opp l)) = n) by (rewrite rev_length, map_length; reflexivity).
    rewrite (head2 (rev (map opp l))) by lia.
    assert (Hm : forall k, (k < n)%nat -> nth k (map opp l) 0%nat = opp (nth k l 0%nat)).
    { intros k Hk. rewrite (nth_indep _ 0%nat (opp 0)) by (rewrite map_length; exact Hk). apply map_nth. }
    rewrite !(rev_nth (map opp l)) by (rewrite map_length; fold n; lia). rewrite map_length. fold n.
    rewrite !Hm by lia. rewrite he_from_opp, !he_to_opp.
    replace (n - 1)%nat with (n - 1)%nat by lia. replace (n - 2)%nat with (n - 2)%nat by lia.
    rewrite (to_is_next (n - 1)) by lia.
    destruct (Nat.eqb_spec (S (n - 1)) n); [|lia]. reflexivity.
  Qed.

  (* what holds for EVERY closed face: side 1 is minus the corner at the last vertex (forwards) *)
  Lemma normal_raw_side1_neg :
    g_normal_raw Zops pos s (2 * f + 1) = vneg Zops (corner Zops (V (n - 2)) (V (n - 1)) (V 0)).
  Proof. rewrite normal_raw_side1. unfold V. apply corner_rev; apply pos3. Qed.

  (* triangles: exactly opposite, for all positions *)
  Lemma normal_raw_opposite_triangle : n = 3%nat ->
    g_normal_raw Zops pos s (2 * f + 1) = vneg Zops (g_normal_raw Zops pos s (2 * f)).
  Proof.
    intros E. rewrite normal_raw_side1_neg, normal_raw_side0. rewrite E. simpl Nat.sub.
    f_equal. unfold V. apply corner_triangle; apply pos3.
  Qed.

  (* the documented hypothesis, made precise: the face is planar and strictly convex with orientation N,
     i.e. every corner (V i, V i+1, V i+2) (cyclic) is a positive multiple of one vector N *)
  Definition planar_convex (N : list Z) : Prop :=
    forall i, (i < n)%nat -> exists k, 0 < k /\
      corner Zops (V i) (V ((i + 1) mod n)) (V ((i + 2) mod n)) = vscale Zops N k.

  (* then the two sides' unnormalised normals are a positive multiple of N and a negative multiple of N:
     opposite directions (their normalisations are exactly opposite unit vectors) *)
  Lemma normal_raw_opposite_planar_convex N : planar_convex N ->
    exists k0 k1, 0 < k0 /\ 0 < k1 /\
      g_normal_raw Zops pos s (2 * f) = vscale Zops N k0 /\
      g_normal_raw Zops pos s (2 * f + 1) = vneg Zops (vscale Zops N k1).
  Proof.
    intros PC. destruct (PC 0%nat ltac:(lia)) as [k0 [Hk0 E0]]. destruct (PC (n - 2)%nat ltac:(lia)) as [k1 [Hk1 E1]].
    exists k0, k1. split; [assumption|]. split; [assumption|]. split.
    - rewrite normal_raw_side0. rewrite <- E0. rewrite !Nat.mod_small by lia. reflexivity.
    - rewrite normal_raw_side1_neg. f_equal. rewrite <- E1.
      replace ((n - 2 + 1) mod n)%nat with (n - 1)%nat by (rewrite Nat.mod_small; lia).
      replace ((n - 2 + 2) mod n)%nat with 0%nat by (replace (n - 2 + 2)%nat with n by lia; rewrite Nat.mod_same; lia).
      reflexivity.
  Qed.
End Normals.

(* degenerate faces (fewer than three halfedges): the zero vector on both sides *)
Lemma normal_raw_degenerate pos s hf : g_normal_degenerate s hf = true -> g_normal_raw Zops pos s hf = [0; 0; 0].
Proof. unfold g_normal_degenerate, g_normal_raw. intros ->. reflexivity. Qed.

(* ---- the hypothesis is needed: a planar but NON-convex quadrilateral ("dart") whose two sides get
   unnormalised normals pointing the SAME way.  Vertices (0,0,0) (1,1,0) (3,0,0) (1,3,0): counter-clockwise,
   reflex at the second vertex. *)
Definition dart_mesh : mesh := run [AddVertices 4; AddFaceV [0; 1; 2; 3]%nat].
Definition dart_pos (v : nat) : list Z := nth v [[0; 0; 0]; [1; 1; 0]; [3; 0; 0]; [1; 3; 0]] [0; 0; 0].

Lemma dart_closed : closed_cycle dart_mesh (face_at dart_mesh 0).
Proof. apply loop_ok_spec. vm_compute. reflexivity. Qed.

Lemma dart_same_direction :
  g_normal_raw Zops dart_pos dart_mesh 0 = [0; 0; -3] /\ g_normal_raw Zops dart_pos dart_mesh 1 = [0; 0; -9].
Proof. split; vm_compute; reflexivity. Qed.

(* the unconditional statement "the normals of the two sides of a face are opposite" is false of the model *)
Lemma normal_opposite_unconditional_refuted :
  exists (s : mesh) (pos : nat -> list Z) (f : nat),
    closed_cycle s (face_at s f) /\ (forall v, length (pos v) = 3%nat) /\
    (forall v, nth 2 (pos v) 0 = 0) (* planar: all vertices in the plane z = 0 *) /\
    ~ exists k0 k1, 0 < k0 /\ 0 < k1 /\
        vscale Zops (g_normal_raw Zops pos s (2 * f + 1)) k0 = vneg Zops (vscale Zops (g_normal_raw Zops pos s (2 * f)) k1).
Proof.
  exists dart_mesh, dart_pos, 0%nat. split; [exact dart_closed|]. split.
  - intros v. unfold dart_pos. do 4 (destruct v as [|v]; [reflexivity|]). destruct v; reflexivity.
  - split.
    + intros v. unfold dart_pos. do 4 (destruct v as [|v]; [reflexivity|]). destruct v; reflexivity.
    + intros [k0 [k1 [H0 [H1 E]]]]. change (2 * 0 + 1)%nat with 1%nat in E. change (2 * 0)%nat with 0%nat in E.
      destruct dart_same_direction as [E0 E1]. rewrite E0, E1 in E. unfold vscale, vneg in E. cbn [map smul sneg Zops] in E.
      assert (E2 : -9 * k0 = - (-3 * k1)) by (apply (f_equal (fun l => nth 2 l 0)) in E; exact E). lia.
Qed.

(* non-vacuity of planar_convex: the unit square in the plane z = 0 *)
Definition square_mesh : mesh := run [AddVertices 4; AddFaceV [0; 1; 2; 3]%nat].
Definition square_pos (v : nat) : list Z := nth v [[0; 0; 0]; [1; 0; 0]; [1; 1; 0]; [0; 1; 0]] [0; 0; 0].
Lemma square_planar_convex : planar_convex square_pos square_mesh 0 [0; 0; 1].
Proof.
  intros i Hi. exists 1. split; [lia|].
  change (length (face_at square_mesh 0)) with 4%nat in *.
  do 4 (destruct i as [|i]; [vm_compute; reflexivity|]). lia.
Qed.
