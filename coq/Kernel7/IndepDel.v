(* Kernel7/IndepDel.v -- deletions in DEFERRED mode: the closure is gathered through exact caches or by scan (the same lists), and
   each core call only sets a flag and bumps a counter, whatever the caches are. *)
From Coq Require Import ZArith Lia Bool Arith List ZifyNat ZifyBool.
From OVM Require Import Base.ListX Kernel.State Kernel.Ops Kernel.Construct Kernel.Closure Kernel.Reenable Kernel2.ExactHistory Kernel4.AllDefs
                        Kernel7.Indep Kernel7.IndepOps.
Import ListNotations.
Local Open Scope nat_scope.

Lemma core_deferred s t : core t = core s -> deferred t = deferred s.
Proof. intros H. same_core s t H. reflexivity. Qed.
Lemma core_fast s t : core t = core s -> fast t = fast s.
Proof. intros H. same_core s t H. reflexivity. Qed.

Definition flag_c h u := set_cdel (upd h true (cdel u)) (set_counts (ndv u) (nde u) (ndf u) (S (ndc u)) u).
Definition flag_f h u := set_fdel (upd h true (fdel u)) (set_counts (ndv u) (nde u) (S (ndf u)) (ndc u) u).
Definition flag_e h u := set_edel (upd h true (edel u)) (set_counts (ndv u) (S (nde u)) (ndf u) (ndc u) u).
Definition flag_v h u := set_vdel (upd h true (vdel u)) (set_counts (S (ndv u)) (nde u) (ndf u) (ndc u) u).

Lemma core_flag_c h u u' : core u' = core u -> core (flag_c h u') = core (flag_c h u).
Proof. intros H. same_core u u' H. reflexivity. Qed.
Lemma core_flag_f h u u' : core u' = core u -> core (flag_f h u') = core (flag_f h u).
Proof. intros H. same_core u u' H. reflexivity. Qed.
Lemma core_flag_e h u u' : core u' = core u -> core (flag_e h u') = core (flag_e h u).
Proof. intros H. same_core u u' H. reflexivity. Qed.
Lemma core_flag_v h u u' : core u' = core u -> core (flag_v h u') = core (flag_v h u).
Proof. intros H. same_core u u' H. reflexivity. Qed.

Lemma delete_cell_core_def h s : deferred s = true -> exists u, delete_cell_core h s = flag_c h u /\ core u = core s /\ bfl u = bfl s.
Proof.
  intros D. unfold delete_cell_core. rewrite D. cbn [negb]. rewrite andb_false_r. cbv beta iota zeta.
  match goal with |- exists u, (if deferred ?x then _ else _) = _ /\ _ => set (s1 := x) end.
  assert (C1 : core s1 = core s /\ bfl s1 = bfl s).
  { unfold s1. destruct (fbu s); [|split; reflexivity]. destruct (ebu _); [rewrite core_reorder_edges, bfl_reorder_edges|]; split; reflexivity. }
  rewrite (core_deferred _ _ (proj1 C1)), D. exists s1. split; [reflexivity|exact C1].
Qed.

Lemma core_face_fold h l : forall s,
  let r := fold_left (fun s' he =>
                   let s'' := set_inc_hfs (remove_at (opp he) (2 * h + 1) (remove_at he (2 * h) (inc_hfs s'))) s' in
                   if fbu s'' then reorder_incident_halffaces (he / 2) s'' else s'') l s in
  core r = core s /\ bfl r = bfl s.
Proof.
  induction l as [|he l IH]; intros s; [split; reflexivity|]. cbn [fold_left]. cbv zeta in *.
  match goal with |- core (fold_left _ _ ?x) = _ /\ _ => destruct (IH x) as [A B]; rewrite A, B; clear A B end.
  destruct (fbu _); [|split; reflexivity].
  match goal with |- core (reorder_incident_halffaces ?e ?x) = _ /\ _ =>
    change (core (reorder_edges [e] x) = core s /\ bfl (reorder_edges [e] x) = bfl s) end.
  rewrite core_reorder_edges, bfl_reorder_edges. split; reflexivity.
Qed.

Lemma delete_face_core_def h s : deferred s = true -> exists u, delete_face_core h s = flag_f h u /\ core u = core s /\ bfl u = bfl s.
Proof.
  intros D. unfold delete_face_core. rewrite D. cbn [negb]. rewrite andb_false_r. cbv beta iota zeta.
  match goal with |- exists u, (if deferred ?x then _ else _) = _ /\ _ => set (s1 := x) end.
  assert (C1 : core s1 = core s /\ bfl s1 = bfl s).
  { unfold s1. destruct (ebu s); [|split; reflexivity]. apply core_face_fold. }
  rewrite (core_deferred _ _ (proj1 C1)), D. exists s1. split; [reflexivity|exact C1].
Qed.

Lemma delete_edge_core_def h s : deferred s = true -> exists u, delete_edge_core h s = flag_e h u /\ core u = core s /\ bfl u = bfl s.
Proof.
  intros D. unfold delete_edge_core. rewrite D. cbn [negb]. rewrite andb_false_r. cbv beta iota zeta.
  match goal with |- exists u, (if deferred ?x then _ else _) = _ /\ _ => set (s1 := x) end.
  assert (C1 : core s1 = core s /\ bfl s1 = bfl s).
  { unfold s1. destruct (vbu s); [|split; reflexivity]. destruct (edge_at s h). split; reflexivity. }
  rewrite (core_deferred _ _ (proj1 C1)), D. exists s1. split; [reflexivity|exact C1].
Qed.

Lemma delete_vertex_core_def h s : deferred s = true -> delete_vertex_core h s = flag_v h s.
Proof. intros D. unfold delete_vertex_core. rewrite D. cbn [negb]. rewrite andb_false_r. cbv beta iota zeta. rewrite D. reflexivity. Qed.

(* a core call in deferred mode: same core in, same core out, still deferred *)
Definition dcore_ok (f : nat -> mesh -> mesh) : Prop :=
  forall h s t, core t = core s -> deferred s = true -> core (f h t) = core (f h s) /\ deferred (f h s) = true /\ bfl (f h s) = bfl s /\ fast (f h s) = fast s.

Lemma dcore_cell : dcore_ok delete_cell_core.
Proof.
  intros h s t H D. assert (D' : deferred t = true) by (rewrite (core_deferred _ _ H); exact D).
  destruct (delete_cell_core_def h s D) as [u [-> [Cu Bu]]]. destruct (delete_cell_core_def h t D') as [u' [-> [Cu' _]]].
  split; [apply core_flag_c; congruence|]. split; [change (deferred u = true); rewrite (core_deferred _ _ Cu); exact D|]. split; [exact Bu|exact (core_fast _ _ Cu)].
Qed.
Lemma dcore_face : dcore_ok delete_face_core.
Proof.
  intros h s t H D. assert (D' : deferred t = true) by (rewrite (core_deferred _ _ H); exact D).
  destruct (delete_face_core_def h s D) as [u [-> [Cu Bu]]]. destruct (delete_face_core_def h t D') as [u' [-> [Cu' _]]].
  split; [apply core_flag_f; congruence|]. split; [change (deferred u = true); rewrite (core_deferred _ _ Cu); exact D|]. split; [exact Bu|exact (core_fast _ _ Cu)].
Qed.
Lemma dcore_edge : dcore_ok delete_edge_core.
Proof.
  intros h s t H D. assert (D' : deferred t = true) by (rewrite (core_deferred _ _ H); exact D).
  destruct (delete_edge_core_def h s D) as [u [-> [Cu Bu]]]. destruct (delete_edge_core_def h t D') as [u' [-> [Cu' _]]].
  split; [apply core_flag_e; congruence|]. split; [change (deferred u = true); rewrite (core_deferred _ _ Cu); exact D|]. split; [exact Bu|exact (core_fast _ _ Cu)].
Qed.
Lemma dcore_vertex : dcore_ok delete_vertex_core.
Proof.
  intros h s t H D. assert (D' : deferred t = true) by (rewrite (core_deferred _ _ H); exact D).
  rewrite (delete_vertex_core_def h s D), (delete_vertex_core_def h t D'). split; [apply core_flag_v; exact H|]. split; [exact D|split; reflexivity].
Qed.

Lemma dcore_del_desc f l : dcore_ok f -> forall s t, core t = core s -> deferred s = true ->
  core (del_desc f l t) = core (del_desc f l s) /\ deferred (del_desc f l s) = true /\ bfl (del_desc f l s) = bfl s /\
  fast (del_desc f l s) = fast s.
Proof.
  intros F. unfold del_desc. induction (rev l) as [|x r IH]; intros s t H D; [split; [assumption|split; [assumption|split; reflexivity]]|].
  cbn [fold_left]. destruct (F x s t H D) as (A & B & C & E). rewrite <- C, <- E. exact (IH _ _ A B).
Qed.

(* the caches that are on are exact *)
Definition bu3 (s : mesh) : Prop := vbu_ok s /\ ebu_ok s /\ fbu_ok s.

Lemma closure_core s t : core t = core s -> forall v,
  edges_at_vertex t v = edges_at_vertex s v /\
  (forall es, faces_at_edges t es = faces_at_edges s es) /\ (forall fs, cells_at_faces t fs = cells_at_faces s fs).
Proof. intros H. apply closure_depends_on_core. apply core_eq_iff. exact H. Qed.

Lemma core_delete_cell_def c s t : core t = core s -> deferred s = true -> core (delete_cell c t) = core (delete_cell c s).
Proof. intros H D. exact (proj1 (dcore_cell c s t H D)). Qed.

Lemma core_delete_face_def f s t : core t = core s -> bu3 s -> bu3 t -> deferred s = true -> f < nf s ->
  core (delete_face f t) = core (delete_face f s).
Proof.
  intros H (_ & _ & FS) (_ & _ & FT) D Hf. destruct (core_counts s t H) as (NV & NE & NF & NC).
  destruct (closure_core s t H 0) as (_ & _ & E3). unfold delete_face.
  rewrite (incident_cells_cache_is_scan t [f] FT) by (intros x [<-|[]]; lia).
  rewrite (incident_cells_cache_is_scan s [f] FS) by (intros x [<-|[]]; lia). rewrite E3.
  destruct (dcore_del_desc delete_cell_core (cells_at_faces s [f]) dcore_cell s t H D) as (A & B & _ & _).
  exact (proj1 (dcore_face f _ _ A B)).
Qed.

Lemma core_delete_edge_def e s t : core t = core s -> bu3 s -> bu3 t -> deferred s = true -> e < ne s ->
  core (delete_edge e t) = core (delete_edge e s).
Proof.
  intros H (_ & ES & FS) (_ & ET & FT) D He. destruct (core_counts s t H) as (NV & NE & NF & NC).
  destruct (closure_core s t H 0) as (_ & E2 & E3). unfold delete_edge.
  rewrite (incident_faces_cache_is_scan t [e] ET) by (intros x [<-|[]]; lia).
  rewrite (incident_faces_cache_is_scan s [e] ES) by (intros x [<-|[]]; lia). rewrite E2.
  assert (R2 : forall f, In f (faces_at_edges s [e]) -> f < nf s) by (intros f Hf; apply faces_at_edges_live in Hf; tauto).
  rewrite (incident_cells_cache_is_scan t _ FT) by (intros f Hf; rewrite NF; apply R2; exact Hf).
  rewrite (incident_cells_cache_is_scan s _ FS R2). rewrite E3.
  destruct (dcore_del_desc delete_cell_core (cells_at_faces s (faces_at_edges s [e])) dcore_cell s t H D) as (A & B & _ & _).
  destruct (dcore_del_desc delete_face_core (faces_at_edges s [e]) dcore_face _ _ A B) as (A2 & B2 & _ & _).
  exact (proj1 (dcore_edge e _ _ A2 B2)).
Qed.

Lemma core_delete_vertex_def v s t : core t = core s -> bu3 s -> bu3 t -> deferred s = true -> v < nv s ->
  core (delete_vertex v t) = core (delete_vertex v s).
Proof.
  intros H (VS & ES & FS) (VT & ET & FT) D Hv. destruct (core_counts s t H) as (NV & NE & NF & NC).
  destruct (closure_core s t H v) as (E1 & E2 & E3). unfold delete_vertex.
  rewrite (incident_edges_cache_is_scan t v VT) by lia. rewrite (incident_edges_cache_is_scan s v VS Hv). rewrite E1.
  assert (R1 : forall e, In e (edges_at_vertex s v) -> e < ne s) by (intros e He; apply edges_at_vertex_live in He; tauto).
  rewrite (incident_faces_cache_is_scan t _ ET) by (intros e He; rewrite NE; apply R1; exact He).
  rewrite (incident_faces_cache_is_scan s _ ES R1). rewrite E2.
  assert (R2 : forall f, In f (faces_at_edges s (edges_at_vertex s v)) -> f < nf s) by (intros f Hf; apply faces_at_edges_live in Hf; tauto).
  rewrite (incident_cells_cache_is_scan t _ FT) by (intros f Hf; rewrite NF; apply R2; exact Hf).
  rewrite (incident_cells_cache_is_scan s _ FS R2). rewrite E3.
  destruct (dcore_del_desc delete_cell_core (cells_at_faces s (faces_at_edges s (edges_at_vertex s v))) dcore_cell s t H D) as (A & B & _ & _).
  destruct (dcore_del_desc delete_face_core (faces_at_edges s (edges_at_vertex s v)) dcore_face _ _ A B) as (A2 & B2 & _ & _).
  destruct (dcore_del_desc delete_edge_core (edges_at_vertex s v) dcore_edge _ _ A2 B2) as (A3 & B3 & _ & _).
  exact (proj1 (dcore_vertex v _ _ A3 B3)).
Qed.

(* the incidence flags after a deferred deletion *)
Lemma bfl_delete_cell_def c s : deferred s = true -> bfl (delete_cell c s) = bfl s.
Proof. intros D. exact (proj1 (proj2 (proj2 (dcore_cell c s s eq_refl D)))). Qed.
Lemma bfl_delete_face_def f s : deferred s = true -> bfl (delete_face f s) = bfl s.
Proof.
  intros D. unfold delete_face. destruct (dcore_del_desc delete_cell_core (incident_cells_of_faces s [f]) dcore_cell s s eq_refl D) as (_ & B & C & Fa).
  rewrite <- C. exact (proj1 (proj2 (proj2 (dcore_face f _ _ eq_refl B)))).
Qed.
Lemma bfl_delete_edge_def e s : deferred s = true -> bfl (delete_edge e s) = bfl s.
Proof.
  intros D. unfold delete_edge. set (fs := incident_faces_of_edges s [e]).
  destruct (dcore_del_desc delete_cell_core (incident_cells_of_faces s fs) dcore_cell s s eq_refl D) as (_ & B & C & Fa).
  destruct (dcore_del_desc delete_face_core fs dcore_face _ _ eq_refl B) as (_ & B2 & C2 & Fa2).
  rewrite <- C, <- C2. exact (proj1 (proj2 (proj2 (dcore_edge e _ _ eq_refl B2)))).
Qed.
Lemma bfl_delete_vertex_def v s : deferred s = true -> bfl (delete_vertex v s) = bfl s.
Proof.
  intros D. unfold delete_vertex. set (es := incident_edges_of_vertex s v). set (fs := incident_faces_of_edges s es).
  destruct (dcore_del_desc delete_cell_core (incident_cells_of_faces s fs) dcore_cell s s eq_refl D) as (_ & B & C & Fa).
  destruct (dcore_del_desc delete_face_core fs dcore_face _ _ eq_refl B) as (_ & B2 & C2 & Fa2).
  destruct (dcore_del_desc delete_edge_core es dcore_edge _ _ eq_refl B2) as (_ & B3 & C3 & Fa3).
  rewrite <- C, <- C2, <- C3. exact (proj1 (proj2 (proj2 (dcore_vertex v _ _ eq_refl B3)))).
Qed.

(* fast-deletion mode after a deferred deletion *)
Lemma fast_delete_cell_def c s : deferred s = true -> fast (delete_cell c s) = fast s.
Proof. intros D. exact (proj2 (proj2 (proj2 (dcore_cell c s s eq_refl D)))). Qed.
Lemma fast_delete_face_def f s : deferred s = true -> fast (delete_face f s) = fast s.
Proof.
  intros D. unfold delete_face. destruct (dcore_del_desc delete_cell_core (incident_cells_of_faces s [f]) dcore_cell s s eq_refl D) as (_ & B & C & Fa).
  rewrite <- Fa. exact (proj2 (proj2 (proj2 (dcore_face f _ _ eq_refl B)))).
Qed.
Lemma fast_delete_edge_def e s : deferred s = true -> fast (delete_edge e s) = fast s.
Proof.
  intros D. unfold delete_edge. set (fs := incident_faces_of_edges s [e]).
  destruct (dcore_del_desc delete_cell_core (incident_cells_of_faces s fs) dcore_cell s s eq_refl D) as (_ & B & C & Fa).
  destruct (dcore_del_desc delete_face_core fs dcore_face _ _ eq_refl B) as (_ & B2 & C2 & Fa2).
  rewrite <- Fa, <- Fa2. exact (proj2 (proj2 (proj2 (dcore_edge e _ _ eq_refl B2)))).
Qed.
Lemma fast_delete_vertex_def v s : deferred s = true -> fast (delete_vertex v s) = fast s.
Proof.
  intros D. unfold delete_vertex. set (es := incident_edges_of_vertex s v). set (fs := incident_faces_of_edges s es).
  destruct (dcore_del_desc delete_cell_core (incident_cells_of_faces s fs) dcore_cell s s eq_refl D) as (_ & B & C & Fa).
  destruct (dcore_del_desc delete_face_core fs dcore_face _ _ eq_refl B) as (_ & B2 & C2 & Fa2).
  destruct (dcore_del_desc delete_edge_core es dcore_edge _ _ eq_refl B2) as (_ & B3 & C3 & Fa3).
  rewrite <- Fa, <- Fa2, <- Fa3. exact (proj2 (proj2 (proj2 (dcore_vertex v _ _ eq_refl B3)))).
Qed.
