(* Kernel7/IndepFastSearch.v -- FAST deletion modes, which the _partial theorem of Kernel7/IndepHist.v does not cover (immediate
   swap-with-last deletions; collect_garbage / enable_deferred_deletion(false) with fast deletion on).  NOT the general theorem: a
   bounded search, kept as two lemmas decided by vm_compute over explicit finite families of histories (18000 histories, all in
   all_ok): two tetrahedra sharing a face + a dangling edge + properties of six kinds, built under each of the 8 incidence subsets,
   optionally index swaps, then incidence toggles (re-enabling / disabling / off-and-on), then each single deletion (6 vertices, 10
   edges, 7 faces, 2 cells) in immediate-fast mode, or in deferred-fast mode followed by collect_garbage resp.
   enable_deferred_deletion(false), then later lookups (add_face(vertices), add_edge without duplicates) and further deletions.
   In every one of them the all-on twin has the same core.  No counterexample to the fast-mode half of C12 was found. *)
From Coq Require Import ZArith List Arith Bool.
From OVM Require Import Base.ListX Kernel.State Kernel.Ops Kernel.Reenable Kernel2.ExactHistory Kernel4.AllDefs Kernel7.Indep.
Import ListNotations.
Definition parray_dec (a b : parray) : {a = b} + {a <> b}.
Proof. decide equality; [apply (list_eq_dec Z.eq_dec)|apply Z.eq_dec]. Defined.
Definition pair_dec (a b : nat * nat) : {a = b} + {a <> b}.
Proof. decide equality; apply Nat.eq_dec. Defined.
Definition lb {A} (d : forall a b : A, {a = b} + {a <> b}) (x y : list A) : bool := if list_eq_dec d x y then true else false.
Definition core_b (s t : mesh) : bool :=
  (nv s =? nv t) && lb pair_dec (edges s) (edges t) && lb (list_eq_dec Nat.eq_dec) (faces s) (faces t) && lb (list_eq_dec Nat.eq_dec) (cells s) (cells t)
  && lb bool_dec (vdel s) (vdel t) && lb bool_dec (edel s) (edel t) && lb bool_dec (fdel s) (fdel t) && lb bool_dec (cdel s) (cdel t)
  && (ndv s =? ndv t) && (nde s =? nde t) && (ndf s =? ndf t) && (ndc s =? ndc t) && Bool.eqb (deferred s) (deferred t) && Bool.eqb (fast s) (fast t)
  && lb parray_dec (pv s) (pv t) && lb parray_dec (pe s) (pe t) && lb parray_dec (phe s) (phe t) && lb parray_dec (pf s) (pf t)
  && lb parray_dec (phf s) (phf t) && lb parray_dec (pc s) (pc t) && lb parray_dec (pm s) (pm t).
Definition subsets : list (list op) :=
  [[]; [EnableVBU false]; [EnableEBU false]; [EnableFBU false]; [EnableVBU false; EnableEBU false]; [EnableVBU false; EnableFBU false];
   [EnableEBU false; EnableFBU false]; [EnableVBU false; EnableEBU false; EnableFBU false]].
Definition mids : list (list op) :=
  [[]; [EnableVBU true; EnableEBU true; EnableFBU true]; [EnableFBU true; EnableEBU true; EnableVBU true];
   [EnableVBU false; EnableEBU false; EnableFBU false]; [EnableEBU false; EnableEBU true]; [EnableVBU false; EnableVBU true; EnableFBU false; EnableFBU true]].
Definition build : list op :=
  [AddVertices 6; AddFaceV [0; 1; 2]; AddFaceV [0; 2; 3]; AddFaceV [0; 3; 1]; AddFaceV [1; 3; 2]; AddCell [0; 2; 4; 6] true;
   AddFaceV [1; 2; 4]; AddFaceV [2; 3; 4]; AddFaceV [3; 1; 4]; AddCell [7; 9; 11; 13] true; AddEdge 4 5 false;
   PropCreate KV 7%Z; PropSet KV 0 1 9%Z; PropCreate KHE 1%Z; PropSet KHE 0 3 5%Z; PropCreate KF 2%Z; PropSet KF 0 1 8%Z;
   PropCreate KHF 0%Z; PropSet KHF 0 5 3%Z; PropCreate KC 4%Z; PropSet KC 0 0 12%Z; PropCreate KE 0%Z; PropSet KE 0 2 13%Z].
Definition dels : list op :=
  map DelVertex (seq 0 6) ++ map DelEdge (seq 0 10) ++ map DelFace (seq 0 7) ++ map DelCell (seq 0 2).
Definition tails : list (list op) := [[AddFaceV [0; 1; 2]]; [DelEdge 0; AddFaceV [1; 2; 3]]; [DelCell 0; DelFace 1; AddEdge 0 1 false]].
Definition modes : list (list op * list op) :=
  [([EnableDeferred false; EnableFast true], []); ([EnableDeferred true; EnableFast true], [CollectGarbage]);
   ([EnableDeferred true; EnableFast true], [EnableDeferred false])].
Definition cands1 : list (list op) :=
  flat_map (fun m => flat_map (fun p => flat_map (fun mi => flat_map (fun d => map (fun tl =>
    fst m ++ p ++ build ++ mi ++ [d] ++ snd m ++ tl) tails) dels) mids) subsets) modes.
Definition swaps : list (list op) := [[SwapE 0 8; SwapF 1 5]; [SwapV 0 4; SwapC 0 1]; [SwapE 2 3; SwapV 1 2; SwapF 0 6; SwapC 1 0]; []].
Definition cands2 : list (list op) :=
  flat_map (fun m => flat_map (fun p => flat_map (fun sw => flat_map (fun mi => flat_map (fun d => map (fun tl =>
    fst m ++ p ++ build ++ sw ++ mi ++ [d] ++ snd m ++ tl) [[AddFaceV [0; 1; 2]; AddEdge 1 3 false]]) dels) [[]; [EnableVBU true; EnableEBU true; EnableFBU true]; [EnableEBU false; EnableEBU true; EnableVBU false]]) swaps) subsets) modes.
Definition agrees (h : list op) : bool := all_ok h && core_b (run (all_on h)) (run h).

Lemma core_b_sound s t : core_b s t = true -> core_eq s t.
Proof.
  unfold core_b, lb. rewrite !andb_true_iff. intros H.
  repeat match goal with H : _ /\ _ |- _ => destruct H end.
  repeat match goal with H : (if ?d then true else false) = true |- _ => destruct d; [|discriminate H] end.
  repeat match goal with H : (_ =? _) = true |- _ => apply Nat.eqb_eq in H end.
  repeat match goal with H : Bool.eqb _ _ = true |- _ => apply Bool.eqb_prop in H end.
  unfold core_eq. repeat split; try congruence. intros k; destruct k; cbn [props]; congruence.
Qed.

Lemma fast_family1_agrees : length cands1 = 10800 /\ forallb agrees cands1 = true.
Proof. vm_compute. split; reflexivity. Qed.

Lemma fast_family2_agrees : length cands2 = 7200 /\ forallb agrees cands2 = true.
Proof. vm_compute. split; reflexivity. Qed.

Theorem fast_families_independent_of_incidence_toggles : forall h, In h (cands1 ++ cands2) ->
  all_ok h = true /\ core_eq (run (all_on h)) (run h).
Proof.
  intros h Hin. assert (A : agrees h = true).
  { apply in_app_or in Hin. destruct Hin as [Hin|Hin].
    - exact (proj1 (forallb_forall agrees cands1) (proj2 fast_family1_agrees) h Hin).
    - exact (proj1 (forallb_forall agrees cands2) (proj2 fast_family2_agrees) h Hin). }
  unfold agrees in A. apply andb_true_iff in A. destruct A as [A B]. split; [exact A|]. apply core_b_sound. exact B.
Qed.
Print Assumptions fast_families_independent_of_incidence_toggles.
