(* Kernel7/Indep.v -- C12 at the HISTORY level: the same history with every incidence toggle removed (all three kinds on
   throughout) against the history with toggles at arbitrary points.

   FULL STATEMENT (first sentence of C12, history form):
       forall ops, all_ok ops = true -> core_eq (run (all_on ops)) (run ops)
   is FALSE of the model (two _refuted lemmas below, witnesses computed by vm_compute):
     1. add_edge without duplicates / add_face(vertices) look an existing edge up in outgoing_hes_per_vertex_[from] (first hit,
        LIST order) when the vertex incidences are on, and by a scan in INDEX order when they are off.  With two live edges between
        the same vertices and a list order that is not index order (after swap_edge_indices; fast deletion does the same), the two
        ways return different edges, and add_face(vertices) builds a different face.
     2. swap_vertex_indices rewrites the edges found through the two outgoing lists when the vertex incidences are on (a
        deferred-deleted edge is in no list) and EVERY stored edge when they are off: the stored definition of a deleted edge
        differs (known finding D13 family; invisible after the collection).
   The strongest _partial proved here is in Kernel7/IndepHist.v.  This file: definitions, the core tuple, the refutations. *)
From Coq Require Import ZArith Lia Bool Arith List ZifyNat ZifyBool.
From OVM Require Import Base.ListX Kernel.State Kernel.Ops Kernel.Construct Kernel.Reenable Kernel2.ExactHistory Kernel4.AllDefs.
Import ListNotations.
Local Open Scope nat_scope.

(* ---------------------------------------------------------------- the all-on twin of a history *)

Definition strip_toggle (o : op) : option op :=
  match o with
  | EnableVBU _ | EnableEBU _ | EnableFBU _ => None
  | _ => Some o
  end.

Fixpoint all_on (ops : list op) : list op :=
  match ops with
  | [] => []
  | o :: r => match strip_toggle o with Some o' => o' :: all_on r | None => all_on r end
  end.

Lemma empty_mesh_all_on : vbu empty_mesh = true /\ ebu empty_mesh = true /\ fbu empty_mesh = true.
Proof. repeat split. Qed.

(* ---------------------------------------------------------------- the core as one value *)

Definition core (s : mesh) :=
  (nv s, edges s, faces s, cells s, (vdel s, edel s, fdel s, cdel s), (ndv s, nde s, ndf s, ndc s), (deferred s, fast s),
   (pv s, pe s, phe s, pf s, phf s, pc s, pm s)).

Lemma core_eq_iff s t : core_eq s t <-> core t = core s.
Proof.
  unfold core_eq, core. split.
  - intros (c1 & c2 & c3 & c4 & c5 & c6 & c7 & c8 & (n1 & n2 & n3 & n4) & (m1 & m2) & cp).
    pose proof (cp KV) as p1. pose proof (cp KE) as p2. pose proof (cp KHE) as p3. pose proof (cp KF) as p4.
    pose proof (cp KHF) as p5. pose proof (cp KC) as p6. pose proof (cp KM) as p7. cbn [props] in *.
    rewrite c1, c2, c3, c4, c5, c6, c7, c8, n1, n2, n3, n4, m1, m2, p1, p2, p3, p4, p5, p6, p7. reflexivity.
  - intros E. injection E as e1 e2 e3 e4 e5 e6 e7 e8 e9 e10 e11 e12 e13 e14 e15 e16 e17 e18 e19 e20 e21.
    repeat split; try assumption. intros k; destruct k; assumption.
Qed.

Lemma core_eq_sym s t : core_eq s t -> core_eq t s.
Proof. rewrite !core_eq_iff. auto. Qed.
Lemma core_eq_trans s t u : core_eq s t -> core_eq t u -> core_eq s u.
Proof. rewrite !core_eq_iff. congruence. Qed.

(* ---------------------------------------------------------------- the refutations *)

Notation witness1 := [EnableVBU false; AddVertices 3; AddEdge 0 1 true; AddEdge 0 1 true; SwapE 0 1; AddFaceV [0; 1; 2]].

Lemma histories_independent_of_incidence_toggles_refuted :
  exists ops, all_ok ops = true /\ all_ok (all_on ops) = true /\
              faces (run ops) = [[0; 4; 6]] /\ faces (run (all_on ops)) = [[2; 4; 6]] /\ ~ core_eq (run (all_on ops)) (run ops).
Proof.
  exists witness1. split; [vm_compute; reflexivity|]. split; [vm_compute; reflexivity|].
  assert (A : faces (run witness1) = [[0; 4; 6]]) by (vm_compute; reflexivity).
  assert (B : faces (run (all_on witness1)) = [[2; 4; 6]]) by (vm_compute; reflexivity).
  split; [exact A|]. split; [exact B|]. intros (_ & _ & c3 & _). rewrite A, B in c3. discriminate c3.
Qed.

(* toggling alone (off and on again: the recomputed lists are in index order) changes what a later call returns *)
Notation witness1b := [AddVertices 3; AddEdge 0 1 true; AddEdge 0 1 true; SwapE 0 1; EnableVBU false; EnableVBU true; AddFaceV [0; 1; 2]].

Lemma reenabling_changes_later_lookups_refuted :
  exists ops, all_ok ops = true /\ faces (run ops) = [[0; 4; 6]] /\ faces (run (all_on ops)) = [[2; 4; 6]].
Proof. exists witness1b. split; [vm_compute; reflexivity|]. split; vm_compute; reflexivity. Qed.

(* the result handle of add_edge(allow_duplicates = false) differs as well *)
Notation witness1c := [EnableVBU false; AddVertices 2; AddEdge 0 1 true; AddEdge 0 1 true; SwapE 0 1].

Lemma add_edge_lookup_result_refuted :
  exists ops, all_ok (ops ++ [AddEdge 0 1 false]) = true /\
    (exists s, step (run ops) (AddEdge 0 1 false) = Ok s (Some 0)) /\
    (exists s, step (run (all_on ops)) (AddEdge 0 1 false) = Ok s (Some 1)).
Proof.
  exists witness1c. split; [vm_compute; reflexivity|]. split; eexists; vm_compute; reflexivity.
Qed.

(* swap_vertex_indices with a deletion pending *)
Notation witness2 := [EnableVBU false; AddVertices 3; AddEdge 0 1 true; EnableDeferred true; DelEdge 0; SwapV 0 2].

Lemma swaps_with_pending_deletions_refuted :
  exists ops, all_ok ops = true /\ all_ok (all_on ops) = true /\
              edges (run ops) = [(2, 1)] /\ edges (run (all_on ops)) = [(0, 1)] /\ ~ core_eq (run (all_on ops)) (run ops).
Proof.
  exists witness2. split; [vm_compute; reflexivity|]. split; [vm_compute; reflexivity|].
  assert (A : edges (run witness2) = [(2, 1)]) by (vm_compute; reflexivity).
  assert (B : edges (run (all_on witness2)) = [(0, 1)]) by (vm_compute; reflexivity).
  split; [exact A|]. split; [exact B|]. intros (_ & c2 & _). rewrite A, B in c2. discriminate c2.
Qed.
