(* Kernel7/IndepSwap.v -- the index swaps: with exact caches the cache-guided referrer search is the relabeling of EVERY stored
   definition (Kernel/Swap*Cache.v) provided no deferred-deleted referrer mentions a swapped handle (the decidable conditions
   no_deleted_edge_atb / no_deleted_face_listsb / no_deleted_cell_listsb, which read the core only). *)
From Coq Require Import ZArith Lia Bool Arith List ZifyNat ZifyBool.
From OVM Require Import Base.ListX Base.ListLemmas Kernel.State Kernel.Ops Kernel.Construct Kernel.Recompute Kernel.Closure Kernel.ExactInv
                        Kernel.Reenable Kernel.SwapEffects Kernel.SwapFaceCache Kernel.SwapEdgeCache Kernel.SwapVertexCache
                        Kernel7.Indep Kernel7.IndepOps.
Import ListNotations.
Local Open Scope nat_scope.

Definition swap_ok (s : mesh) (o : op) : bool :=
  match o with
  | SwapV a b => no_deleted_edge_atb s a b
  | SwapE a b => no_deleted_face_listsb s a b
  | SwapF a b => no_deleted_cell_listsb s a b
  | _ => true
  end.

Lemma swap_ok_core s t o : core t = core s -> swap_ok t o = swap_ok s o.
Proof. intros H. same_core s t H. reflexivity. Qed.

Lemma core_vertex_relabeled a b s t : core t = core s -> core (vertex_relabeled a b t) = core (vertex_relabeled a b s).
Proof. intros H. same_core s t H. reflexivity. Qed.
Lemma core_edge_relabeled a b s t : core t = core s -> core (edge_relabeled a b t) = core (edge_relabeled a b s).
Proof. intros H. same_core s t H. reflexivity. Qed.
Lemma core_face_relabeled a b s t : core t = core s -> core (face_relabeled a b t) = core (face_relabeled a b s).
Proof. intros H. same_core s t H. reflexivity. Qed.

Lemma swap_vertex_relabels a b s : bu_inv s -> a <> b -> a < nv s -> b < nv s -> no_deleted_edge_atb s a b = true ->
  swap_vertex_indices a b s = vertex_relabeled a b s.
Proof.
  intros (VO & _) N Ha Hb D. apply swap_vertex_is_relabeling; [exact N|]. intros V.
  exact (edges_found_of_exact s a b VO V Ha Hb (no_deleted_edge_atb_sound s a b D)).
Qed.

Lemma swap_edge_relabels a b s : bu_inv s -> a <> b -> a < ne s -> b < ne s -> no_deleted_face_listsb s a b = true ->
  swap_edge_indices a b s = edge_relabeled a b s.
Proof.
  intros (VO & EO & _ & _ & (L1 & _)) N Ha Hb D. apply swap_edge_is_relabeling; [exact N| |].
  - intros E. exact (faces_found_of_exact s a b EO E Ha Hb (no_deleted_face_listsb_sound s a b D)).
  - intros V. exact (out_sound_of_exact s a b VO V (L1 V)).
Qed.

Lemma swap_face_relabels a b s : bu_inv s -> a <> b -> a < nf s -> b < nf s -> no_deleted_cell_listsb s a b = true ->
  swap_face_indices a b s = face_relabeled a b s.
Proof.
  intros (_ & EO & FO & _ & (_ & L2 & _)) N Ha Hb D. apply swap_face_is_relabeling; [exact N| |].
  - intros F. exact (cells_found_of_exact s a b FO F Ha Hb (no_deleted_cell_listsb_sound s a b D)).
  - intros E. exact (hfs_sound_of_exact s a b EO E (L2 E)).
Qed.

Lemma core_swap_cell a b s t : core t = core s ->
  core (swap_cell_indices a b t) = core (swap_cell_indices a b s) /\ bfl (swap_cell_indices a b s) = bfl s.
Proof.
  intros H. unfold swap_cell_indices. destruct (a =? b); [split; [exact H|reflexivity]|]. cbv zeta.
  split; [|destruct (fbu s); reflexivity]. destruct (fbu s), (fbu t); same_core s t H; reflexivity.
Qed.

Lemma core_swap_vertex a b s t : core t = core s -> bu_inv s -> bu_inv t -> a < nv s -> b < nv s -> no_deleted_edge_atb s a b = true ->
  core (swap_vertex_indices a b t) = core (swap_vertex_indices a b s) /\ bfl (swap_vertex_indices a b s) = bfl s.
Proof.
  intros H Bs Bt Ha Hb D. destruct (Nat.eq_dec a b) as [->|N].
  - unfold swap_vertex_indices. rewrite Nat.eqb_refl. split; [exact H|reflexivity].
  - destruct (core_counts s t H) as (NV & NE & NF & NC). pose proof (swap_ok_core s t (SwapV a b) H) as Dt. cbn [swap_ok] in Dt.
    rewrite (swap_vertex_relabels a b s Bs N Ha Hb D), (swap_vertex_relabels a b t Bt N) by (rewrite ?NV, ?Dt; assumption).
    split; [apply core_vertex_relabeled; exact H|reflexivity].
Qed.

Lemma core_swap_edge a b s t : core t = core s -> bu_inv s -> bu_inv t -> a < ne s -> b < ne s -> no_deleted_face_listsb s a b = true ->
  core (swap_edge_indices a b t) = core (swap_edge_indices a b s) /\ bfl (swap_edge_indices a b s) = bfl s.
Proof.
  intros H Bs Bt Ha Hb D. destruct (Nat.eq_dec a b) as [->|N].
  - unfold swap_edge_indices. rewrite Nat.eqb_refl. split; [exact H|reflexivity].
  - destruct (core_counts s t H) as (NV & NE & NF & NC). pose proof (swap_ok_core s t (SwapE a b) H) as Dt. cbn [swap_ok] in Dt.
    rewrite (swap_edge_relabels a b s Bs N Ha Hb D), (swap_edge_relabels a b t Bt N) by (rewrite ?NE, ?Dt; assumption).
    split; [apply core_edge_relabeled; exact H|reflexivity].
Qed.

Lemma core_swap_face a b s t : core t = core s -> bu_inv s -> bu_inv t -> a < nf s -> b < nf s -> no_deleted_cell_listsb s a b = true ->
  core (swap_face_indices a b t) = core (swap_face_indices a b s) /\ bfl (swap_face_indices a b s) = bfl s.
Proof.
  intros H Bs Bt Ha Hb D. destruct (Nat.eq_dec a b) as [->|N].
  - unfold swap_face_indices. rewrite Nat.eqb_refl. split; [exact H|reflexivity].
  - destruct (core_counts s t H) as (NV & NE & NF & NC). pose proof (swap_ok_core s t (SwapF a b) H) as Dt. cbn [swap_ok] in Dt.
    rewrite (swap_face_relabels a b s Bs N Ha Hb D), (swap_face_relabels a b t Bt N) by (rewrite ?NF, ?Dt; assumption).
    split; [apply core_face_relabeled; exact H|reflexivity].
Qed.
