(* Kernel7/IndepOps.v -- per-operation: the core of the result is a function of the core of the argument, whatever the three
   caches and incidence flags are (operations that never read a cache to decide a definition, a flag or a property value). *)
From Coq Require Import ZArith Lia Bool Arith List ZifyNat ZifyBool.
From OVM Require Import Base.ListX Kernel.State Kernel.Ops Kernel.Construct Kernel.Reenable Kernel2.ExactHistory Kernel4.AllDefs
                        Kernel7.Indep.
Import ListNotations.
Local Open Scope nat_scope.

(* two states with the same core, as records sharing their core fields *)
Ltac same_core s t H :=
  destruct s, t; unfold core in H; cbn [nv edges faces cells vdel edel fdel cdel ndv nde ndf ndc deferred fast pv pe phe pf phf pc pm] in H;
  injection H; intros; subst.

Lemma core_set_out_hes x s : core (set_out_hes x s) = core s. Proof. reflexivity. Qed.
Lemma core_set_inc_hfs x s : core (set_inc_hfs x s) = core s. Proof. reflexivity. Qed.
Lemma core_set_inc_cell x s : core (set_inc_cell x s) = core s. Proof. reflexivity. Qed.
Lemma core_set_flags a b c s : core (set_flags a b c (deferred s) (fast s) s) = core s. Proof. reflexivity. Qed.

Lemma core_reorder_edges es s : core (reorder_edges es s) = core s.
Proof.
  pose proof (reorder_edges_frame es s) as R. cbv zeta in R.
  destruct R as (A1&A2&A3&A4&A5&A6&A7&A8&A9&A10&A11&(B1&B2&B3&B4)&(C1&C2&C3&C4&C5)).
  apply core_eq_iff. unfold core_eq. repeat split; auto.
Qed.

Lemma core_counts s t : core t = core s -> nv t = nv s /\ ne t = ne s /\ nf t = nf s /\ nc t = nc s.
Proof. intros H. same_core s t H. repeat split. Qed.

(* ---------------------------------------------------------------- additions *)

Lemma core_add_vertex s t : core t = core s -> core (fst (add_vertex t)) = core (fst (add_vertex s)) /\ snd (add_vertex t) = snd (add_vertex s).
Proof.
  intros H. same_core s t H. unfold add_vertex. cbn. split; [|reflexivity].
  repeat match goal with |- context [if ?b then _ else _] => destruct b end; reflexivity.
Qed.

Ltac ifs := repeat match goal with |- context [if ?b then _ else _] => destruct b end.

Lemma core_add_n_vertices n : forall s t, core t = core s -> core (add_n_vertices n t) = core (add_n_vertices n s).
Proof.
  induction n as [|n IH]; intros s t H; [exact H|]. cbn [add_n_vertices]. apply IH. exact (proj1 (core_add_vertex s t H)).
Qed.

Lemma core_append_edge s t a b : core t = core s ->
  core (fst (append_edge t a b)) = core (fst (append_edge s a b)) /\ snd (append_edge t a b) = snd (append_edge s a b).
Proof.
  intros H. same_core s t H. unfold append_edge. cbn. split; [|reflexivity]. ifs; reflexivity.
Qed.

Lemma core_append_face s t hes : core t = core s ->
  core (fst (append_face t hes)) = core (fst (append_face s hes)) /\ snd (append_face t hes) = snd (append_face s hes).
Proof.
  intros H. same_core s t H. unfold append_face. cbn. split; [|reflexivity]. ifs; reflexivity.
Qed.

Lemma chain_ok_core s t first hes : core t = core s -> chain_ok t first hes = chain_ok s first hes.
Proof.
  intros H. same_core s t H. induction hes as [|h r IH]; [reflexivity|]. cbn [chain_ok]. destruct r as [|h2 r]; [reflexivity|].
  rewrite IH. reflexivity.
Qed.

Lemma loop_ok_core s t hes : core t = core s -> loop_ok t hes = loop_ok s hes.
Proof. intros H. unfold loop_ok. destruct hes as [|h r]; [reflexivity|]. apply chain_ok_core. exact H. Qed.

Lemma core_add_face s t hes chk : core t = core s ->
  core (fst (add_face t hes chk)) = core (fst (add_face s hes chk)) /\ snd (add_face t hes chk) = snd (add_face s hes chk).
Proof.
  intros H. unfold add_face. rewrite (loop_ok_core s t hes H). destruct (chk && negb (loop_ok s hes)); [split; [exact H|reflexivity]|].
  pose proof (core_append_face s t hes H) as [A B]. destruct (append_face t hes), (append_face s hes). cbn [fst snd] in *. split; congruence.
Qed.

Lemma cell_check_core s t hfs : core t = core s -> cell_check t hfs = cell_check s hfs.
Proof. intros H. same_core s t H. reflexivity. Qed.

Lemma core_append_cell s t hfs : core t = core s ->
  core (fst (append_cell t hfs)) = core (fst (append_cell s hfs)) /\ snd (append_cell t hfs) = snd (append_cell s hfs).
Proof.
  intros H. unfold append_cell. cbv zeta.
  assert (G : forall u, core (fst (let u2 := resize_cprops (S (nc u)) (set_cdel (cdel u ++ [false]) (set_cells (cells u ++ [hfs]) u)) in
             if fbu u2 then
               ((if ebu (set_inc_cell (fold_left (fun l hf => upd hf (Some (nc u)) l) hfs (inc_cell u2)) u2)
                 then reorder_edges (set_of_list (concat (map (fun hf => face_edge_handles (set_inc_cell (fold_left (fun l hf => upd hf (Some (nc u)) l) hfs (inc_cell u2)) u2) (hf / 2)) hfs)))
                        (set_inc_cell (fold_left (fun l hf => upd hf (Some (nc u)) l) hfs (inc_cell u2)) u2)
                 else set_inc_cell (fold_left (fun l hf => upd hf (Some (nc u)) l) hfs (inc_cell u2)) u2), nc u)
             else (u2, nc u)))
            = core (resize_cprops (S (nc u)) (set_cdel (cdel u ++ [false]) (set_cells (cells u ++ [hfs]) u)))).
  { intros u. cbv zeta. destruct (fbu _); [|reflexivity]. cbn [fst]. destruct (ebu _); [rewrite core_reorder_edges|]; apply core_set_inc_cell. }
  split.
  - etransitivity; [apply (G t)|]. etransitivity; [|symmetry; apply (G s)]. same_core s t H. reflexivity.
  - destruct (fbu _), (fbu _); cbn [snd]; same_core s t H; reflexivity.
Qed.

Lemma core_add_cell s t hfs chk : core t = core s ->
  core (fst (add_cell t hfs chk)) = core (fst (add_cell s hfs chk)) /\ snd (add_cell t hfs chk) = snd (add_cell s hfs chk).
Proof.
  intros H. unfold add_cell. rewrite (cell_check_core s t hfs H). destruct (chk && negb (cell_check s hfs)); [split; [exact H|reflexivity]|].
  pose proof (core_append_cell s t hfs H) as [A B]. destruct (append_cell t hfs), (append_cell s hfs). cbn [fst snd] in *. split; congruence.
Qed.

(* ---------------------------------------------------------------- modes, clear, properties *)

Lemma core_clear_mesh cp s t : core t = core s -> core (clear_mesh cp t) = core (clear_mesh cp s).
Proof. intros H. same_core s t H. reflexivity. Qed.

Lemma core_enable_fast b s t : core t = core s -> core (enable_fast b t) = core (enable_fast b s).
Proof. intros H. same_core s t H. reflexivity. Qed.

Lemma core_enable_deferred_true s t : core t = core s -> core (enable_deferred true t) = core (enable_deferred true s).
Proof. intros H. unfold enable_deferred. rewrite !andb_false_r. same_core s t H. reflexivity. Qed.

Lemma core_prop_create k d s t : core t = core s ->
  core (set_props k (props k t ++ [{| pdef := d; pdata := repeat d (count k t) |}]) t) =
  core (set_props k (props k s ++ [{| pdef := d; pdata := repeat d (count k s) |}]) s).
Proof. intros H. same_core s t H. destruct k; reflexivity. Qed.

Lemma core_prop_set k p i v s t : core t = core s ->
  core (set_props k (upd p (pset i v (nth p (props k t) {| pdef := 0%Z; pdata := [] |})) (props k t)) t) =
  core (set_props k (upd p (pset i v (nth p (props k s) {| pdef := 0%Z; pdata := [] |})) (props k s)) s).
Proof. intros H. same_core s t H. destruct k; reflexivity. Qed.

Lemma core_prop_drop k p s t : core t = core s ->
  core (set_props k (remove_nth p (props k t)) t) = core (set_props k (remove_nth p (props k s)) s).
Proof. intros H. same_core s t H. destruct k; reflexivity. Qed.

(* ---------------------------------------------------------------- the toggles change no core field (no precondition) *)

Lemma core_enable_vbu b s : core (enable_vbu b s) = core s.
Proof. unfold enable_vbu. destruct b, (vbu s); reflexivity. Qed.

Lemma core_enable_ebu b s : core (enable_ebu b s) = core s.
Proof.
  unfold enable_ebu. destruct b, (ebu s); cbn [andb negb]; try reflexivity.
  destruct (fbu _); [|reflexivity].
  match goal with |- core (set_flags ?a ?b ?c ?d ?e ?x) = _ => change (core x = core s) end.
  rewrite core_reorder_edges. reflexivity.
Qed.

Lemma core_enable_fbu b s : core (enable_fbu b s) = core s.
Proof.
  unfold enable_fbu. cbv zeta. destruct (_ && ebu _); [rewrite core_reorder_edges|]; destruct b, (fbu s); reflexivity.
Qed.

(* ---------------------------------------------------------------- valid_op reads the core only *)

Lemma forallb_ext' {A} (f g : A -> bool) l : (forall x, f x = g x) -> forallb f l = forallb g l.
Proof. intros E. induction l as [|x l IH]; [reflexivity|]. cbn [forallb]. rewrite E, IH. reflexivity. Qed.

Lemma live_core s t : core t = core s ->
  (forall v, live_v t v = live_v s v) /\ (forall e, live_e t e = live_e s e) /\ (forall f, live_f t f = live_f s f) /\
  (forall c, live_c t c = live_c s c).
Proof. intros H. same_core s t H. repeat split. Qed.

Lemma valid_op_core s t o : core t = core s -> valid_op t o = valid_op s o.
Proof.
  intros H. destruct (live_core s t H) as (LV & LE & LF & LC). destruct (core_counts s t H) as (NV & NE & NF & NC).
  assert (LHE : forall l, all_b (live_he t) l = all_b (live_he s) l).
  { intros l. unfold all_b. apply forallb_ext'. intros h. unfold live_he. apply LE. }
  assert (LHF : forall l, all_b (live_hf t) l = all_b (live_hf s) l).
  { intros l. unfold all_b. apply forallb_ext'. intros h. unfold live_hf. apply LF. }
  assert (LVS : forall l, all_b (live_v t) l = all_b (live_v s) l).
  { intros l. unfold all_b. apply forallb_ext'. intros h. apply LV. }
  assert (PR : forall k, props k t = props k s) by (apply core_eq_iff in H; apply H).
  destruct o; cbn [valid_op]; rewrite ?LV, ?LE, ?LF, ?LC, ?LHE, ?LHF, ?LVS, ?NV, ?NE, ?NF, ?NC, ?PR; reflexivity.
Qed.

(* ---------------------------------------------------------------- the three incidence flags are changed by the toggles only *)

Definition bfl (s : mesh) := (vbu s, ebu s, fbu s).

Lemma bfl_reorder_edges es s : bfl (reorder_edges es s) = bfl s.
Proof.
  pose proof (reorder_edges_frame es s) as R. cbv zeta in R.
  destruct R as (A1&A2&A3&A4&A5&A6&A7&A8&A9&A10&A11&(B1&B2&B3&B4)&(C1&C2&C3&C4&C5)). unfold bfl. congruence.
Qed.

Lemma bfl_add_vertex s : bfl (fst (add_vertex s)) = bfl s.
Proof. destruct s. unfold add_vertex. cbn. ifs; reflexivity. Qed.
Lemma bfl_add_n_vertices n : forall s, bfl (add_n_vertices n s) = bfl s.
Proof. induction n as [|n IH]; intros s; [reflexivity|]. cbn [add_n_vertices]. rewrite IH. apply bfl_add_vertex. Qed.
Lemma bfl_append_edge s a b : bfl (fst (append_edge s a b)) = bfl s.
Proof. destruct s. unfold append_edge. cbn. ifs; reflexivity. Qed.
Lemma bfl_append_face s hes : bfl (fst (append_face s hes)) = bfl s.
Proof. destruct s. unfold append_face. cbn. ifs; reflexivity. Qed.
Lemma bfl_add_face s hes chk : bfl (fst (add_face s hes chk)) = bfl s.
Proof.
  unfold add_face. destruct (chk && _); [reflexivity|]. pose proof (bfl_append_face s hes). destruct (append_face s hes). exact H.
Qed.
Lemma bfl_append_cell s hfs : bfl (fst (append_cell s hfs)) = bfl s.
Proof.
  unfold append_cell. cbv zeta. destruct (fbu _) eqn:F; cbn [fst]; [|destruct s; reflexivity].
  destruct (ebu _); [rewrite bfl_reorder_edges|]; destruct s; reflexivity.
Qed.
Lemma bfl_add_cell s hfs chk : bfl (fst (add_cell s hfs chk)) = bfl s.
Proof.
  unfold add_cell. destruct (chk && _); [reflexivity|]. pose proof (bfl_append_cell s hfs). destruct (append_cell s hfs). exact H.
Qed.
Lemma bfl_clear_mesh cp s : bfl (clear_mesh cp s) = bfl s.
Proof. destruct s. reflexivity. Qed.
Lemma bfl_set_props k x s : bfl (set_props k x s) = bfl s.
Proof. reflexivity. Qed.
Lemma bfl_enable_fast b s : bfl (enable_fast b s) = bfl s.
Proof. reflexivity. Qed.
Lemma bfl_enable_deferred_true s : bfl (enable_deferred true s) = bfl s.
Proof. unfold enable_deferred. rewrite andb_false_r. reflexivity. Qed.
