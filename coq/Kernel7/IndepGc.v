(* Kernel7/IndepGc.v -- collect_garbage with fast deletion off: the result is the logical mesh, a function of the core. *)
From Coq Require Import ZArith Lia Bool Arith List ZifyNat ZifyBool.
From OVM Require Import Base.ListX Kernel.State Kernel.Ops Kernel.Construct Kernel.Closure Kernel.Reenable Kernel.ShiftFace Kernel2.ExactHistory
                        Kernel3.GcDefs Kernel3.GcMain Kernel4.AllDefs Kernel4.AllBridges
                        Kernel7.Indep Kernel7.IndepOps Kernel7.IndepDel.
Import ListNotations.
Local Open Scope nat_scope.

Lemma logical_core s t : core t = core s ->
  logical_nv t = logical_nv s /\ logical_edges t = logical_edges s /\ logical_faces t = logical_faces s /\
  logical_cells t = logical_cells s /\ forall k, logical_props k t = logical_props k s.
Proof. intros H. same_core s t H. repeat split. Qed.

Lemma needs_gc_false s : needs_gc s = false -> ndv s = 0 /\ nde s = 0 /\ ndf s = 0 /\ ndc s = 0.
Proof. unfold needs_gc. rewrite !orb_false_iff, !Nat.ltb_ge. lia. Qed.

Lemma needs_gc_core s t : core t = core s -> needs_gc t = needs_gc s.
Proof. intros H. same_core s t H. reflexivity. Qed.

Lemma collect_garbage_immediate s : deferred s = false -> collect_garbage s = s.
Proof. intros D. unfold collect_garbage. rewrite D. reflexivity. Qed.

Lemma core_collect_garbage_nonfast s t : core t = core s -> all_inv s -> all_inv t -> fast s = false ->
  core (collect_garbage t) = core (collect_garbage s) /\ bfl (collect_garbage s) = bfl s.
Proof.
  intros H Is It F. assert (F' : fast t = false) by (same_core s t H; exact F).
  pose proof (core_deferred s t H) as DD. destruct (deferred s) eqn:D.
  - pose proof (collect_garbage_nonfast_logical s (all_inv_gc_ready s Is D) F) as A.
    pose proof (collect_garbage_nonfast_logical t (all_inv_gc_ready t It DD) F') as B. cbv zeta in A, B.
    destruct (logical_core s t H) as (l1 & l2 & l3 & l4 & l5).
    destruct A as (a1 & a2 & a3 & a4 & a5 & a6 & a7 & a8 & _ & a9 & a10 & a11 & a12 & (a13 & a14 & a15) & _).
    destruct B as (b1 & b2 & b3 & b4 & b5 & b6 & b7 & b8 & _ & b9 & b10 & b11 & b12 & _).
    destruct (needs_gc_false _ a9) as (n1 & n2 & n3 & n4). destruct (needs_gc_false _ b9) as (m1 & m2 & m3 & m4).
    split; [|unfold bfl; congruence]. apply core_eq_iff. unfold core_eq.
    assert (E1 : nv (collect_garbage t) = nv (collect_garbage s)) by congruence.
    assert (E2 : edges (collect_garbage t) = edges (collect_garbage s)) by congruence.
    assert (E3 : faces (collect_garbage t) = faces (collect_garbage s)) by congruence.
    assert (E4 : cells (collect_garbage t) = cells (collect_garbage s)) by congruence.
    split; [exact E1|]. split; [exact E2|]. split; [exact E3|]. split; [exact E4|].
    split; [rewrite a5, b5, E1; reflexivity|]. split; [rewrite a6, b6; unfold ne; rewrite E2; reflexivity|].
    split; [rewrite a7, b7; unfold nf; rewrite E3; reflexivity|]. split; [rewrite a8, b8; unfold nc; rewrite E4; reflexivity|].
    split; [repeat split; congruence|]. split; [split; congruence|]. intros k. rewrite a10, b10. apply l5.
  - rewrite (collect_garbage_immediate s D), (collect_garbage_immediate t DD). split; [exact H|reflexivity].
Qed.

Lemma core_enable_deferred_nonfast b s t : core t = core s -> all_inv s -> all_inv t -> fast s = false ->
  core (enable_deferred b t) = core (enable_deferred b s) /\ bfl (enable_deferred b s) = bfl s.
Proof.
  intros H Is It F. unfold enable_deferred. rewrite (core_deferred s t H).
  destruct (deferred s && negb b).
  - destruct (core_collect_garbage_nonfast s t H Is It F) as [A B].
    split; [|exact B]. revert A. generalize (collect_garbage t), (collect_garbage s). intros x y A. same_core y x A. reflexivity.
  - split; [|reflexivity]. same_core s t H. reflexivity.
Qed.
