(* Kernel7/IndepHist.v -- C12 at the history level, the _partial theorem: see the end of the file for the class. *)
From Coq Require Import ZArith Lia Bool Arith List ZifyNat ZifyBool.
From OVM Require Import Base.ListX Base.ListLemmas Kernel.State Kernel.Ops Kernel.Construct Kernel.Recompute Kernel.Closure Kernel.ExactInv
                        Kernel.Reenable Kernel.ExactRun Kernel2.ExactHistory
                        Kernel3.GcDefs Kernel3.GcHist Kernel4.AllDefs Kernel4.AllBridges Kernel4.AllHistory
                        Kernel7.Indep Kernel7.IndepOps Kernel7.IndepDel Kernel7.IndepGc Kernel7.IndepLookup Kernel7.IndepSwap Kernel7.IndepImm.
Import ListNotations.
Local Open Scope nat_scope.

(* ---------------------------------------------------------------- the simulation relation: s = all-on run, t = toggled run *)

Definition R (s t : mesh) : Prop := core t = core s /\ full_inv s /\ full_inv t /\ bfl s = (true, true, true).

Lemma full_inv_all_inv s : full_inv s -> all_inv s. Proof. intros H. exact (proj1 H). Qed.
Lemma full_inv_bu3 s : full_inv s -> bu3 s.
Proof. intros H. destruct (all_inv_bu_inv s (proj1 H)) as (A & B & C & _). exact (conj A (conj B C)). Qed.

(* ---------------------------------------------------------------- "free halffaces" read through an exact cache or by scan *)

Definition free_hf (s : mesh) (hf : nat) : Prop := forall c, c < nc s -> c_deleted s c = false -> ~ In hf (cell_at s c).

Lemma free_hf_core s t hf : core t = core s -> free_hf t hf -> free_hf s hf.
Proof. intros H X. same_core s t H. exact X. Qed.

Lemma free_scan_free s hfs : free_scan_b s hfs = true -> forall hf, In hf hfs -> free_hf s hf.
Proof.
  unfold free_scan_b. rewrite forallb_forall. intros A hf Hhf c Hc Hd Hin. specialize (A hf Hhf). rewrite forallb_forall in A.
  specialize (A c (proj2 (In_live_cells s c) (conj Hc Hd))). apply memb_In in Hin. rewrite Hin in A. discriminate A.
Qed.

Lemma free_free_scan s hfs : (forall hf, In hf hfs -> free_hf s hf) -> free_scan_b s hfs = true.
Proof.
  intros A. unfold free_scan_b. apply forallb_forall. intros hf Hhf. apply forallb_forall. intros c Hc. apply In_live_cells in Hc.
  destruct (memb hf (cell_at s c)) eqn:M; [|reflexivity]. apply memb_In in M. exfalso. exact (A hf Hhf c (proj1 Hc) (proj2 Hc) M).
Qed.

Lemma cache_free s hfs : fbu s = true -> fbu_ok s -> (forall hf, In hf hfs -> hf < 2 * nf s) ->
  forallb (fun hf => match cell_of s hf with None => true | Some _ => false end) hfs = true <-> (forall hf, In hf hfs -> free_hf s hf).
Proof.
  intros F OK L. rewrite forallb_forall. split.
  - intros A hf Hhf c Hc Hd Hin. specialize (A hf Hhf). cbn beta in A.
    rewrite (proj2 (OK F hf (L hf Hhf) c) (conj Hc (conj Hd Hin))) in A. discriminate A.
  - intros A hf Hhf. destruct (cell_of s hf) as [c|] eqn:C; [|reflexivity]. exfalso.
    destruct (proj1 (OK F hf (L hf Hhf) c) C) as (Hc & Hd & Hin). exact (A hf Hhf c Hc Hd Hin).
Qed.

Lemma live_hf_lt s hfs : all_b (live_hf s) hfs = true -> forall hf, In hf hfs -> hf < 2 * nf s.
Proof.
  unfold all_b. rewrite forallb_forall. intros A hf Hhf. specialize (A hf Hhf). unfold live_hf in A. apply live_f_lt in A. lia.
Qed.

(* ---------------------------------------------------------------- add_face(vertices): one edge lookup per side of the polygon *)

(* every lookup of the call finds at most one live edge between its two vertices (checked in the states the call goes through) *)
Fixpoint afv_ok (first : nat) (vs : list nat) (s : mesh) : bool :=
  match vs with
  | [] => true
  | v :: r => match r with
              | [] => par_ok s v first
              | w :: _ => par_ok s v w && afv_ok first r (fst (add_edge s v w false))
              end
  end.

Lemma live_v_add_edge s a b d v : live_v (fst (add_edge s a b d)) v = live_v s v.
Proof.
  unfold add_edge. destruct d; [|destruct (find_dup_edge s a b); [reflexivity|]]; destruct s; unfold append_edge; cbn; ifs; reflexivity.
Qed.

Lemma add_edge_as_next s a b : live_v s a = true -> live_v s b = true -> next s (AddEdge a b false) = fst (add_edge s a b false).
Proof.
  intros A B. rewrite next_valid by (cbn [valid_op]; rewrite A, B; reflexivity). cbn [exec]. destruct (add_edge s a b false). reflexivity.
Qed.

Lemma afv_step_sim s t v w hes : R s t -> live_v s v = true -> live_v s w = true -> par_ok t v w = true ->
  R (fst (add_edge s v w false)) (fst (add_edge t v w false)) /\ snd (add_face_v_step v w (s, hes)) = snd (add_face_v_step v w (t, hes)) /\ par_ok s v w = true /\ fst (add_face_v_step v w (s, hes)) = fst (add_edge s v w false) /\ fst (add_face_v_step v w (t, hes)) = fst (add_edge t v w false).
Proof.
  intros (H & Is & It & B) Lv Lw P. rewrite (par_ok_core s t v w H) in P.
  destruct (live_core s t H) as (LV & _).
  destruct (full_inv_bu3 s Is) as (Os & _). destruct (full_inv_bu3 t It) as (Ot & _).
  destruct (core_add_edge_nodup s t v w H Os Ot (live_v_lt s v Lv) P) as (A & C & F).
  assert (Is' : full_inv (fst (add_edge s v w false))).
  { rewrite <- (add_edge_as_next s v w Lv Lw). apply full_inv_step; [exact Is|reflexivity|reflexivity]. }
  assert (It' : full_inv (fst (add_edge t v w false))).
  { rewrite <- (add_edge_as_next t v w) by (rewrite LV; assumption). apply full_inv_step; [exact It|reflexivity|reflexivity]. }
  split; [split; [exact A|split; [exact Is'|split; [exact It'|rewrite F; exact B]]]|].
  unfold add_face_v_step. destruct (add_edge s v w false) as [s' e] eqn:Es. destruct (add_edge t v w false) as [t' e'] eqn:Et.
  cbn [fst snd] in *. subst e'. split; [|split; [exact P|split; reflexivity]].
  assert (X : edge_at t' e = edge_at s' e) by (same_core s' t' A; reflexivity). rewrite X. reflexivity.
Qed.

Lemma afv_sim first vs : forall s t hes, R s t -> all_b (live_v s) vs = true -> live_v s first = true -> afv_ok first vs t = true ->
  R (fst (add_face_v_edges first vs (s, hes))) (fst (add_face_v_edges first vs (t, hes))) /\ snd (add_face_v_edges first vs (s, hes)) = snd (add_face_v_edges first vs (t, hes)) /\ afv_ok first vs s = true.
Proof.
  induction vs as [|v r IH]; intros s t hes Rst L Lf P; [split; [exact Rst|split; reflexivity]|].
  cbn [all_b forallb] in L. apply andb_true_iff in L. destruct L as [Lv Lr]. cbn [add_face_v_edges afv_ok] in *. destruct r as [|w r'].
  - destruct (afv_step_sim s t v first hes Rst Lv Lf P) as (R' & E & P' & F1 & F2). rewrite F1, F2. exact (conj R' (conj E P')).
  - apply andb_true_iff in P. destruct P as [P1 P2].
    assert (Lw : live_v s w = true) by (cbn [forallb] in Lr; apply andb_true_iff in Lr; exact (proj1 Lr)).
    destruct (afv_step_sim s t v w hes Rst Lv Lw P1) as (R' & E & P' & F1 & F2).
    destruct (add_face_v_step v w (s, hes)) as [s1 h1]. destruct (add_face_v_step v w (t, hes)) as [t1 h2]. cbn [fst snd] in *. subst h2 s1 t1.
    assert (Lr' : all_b (live_v (fst (add_edge s v w false))) (w :: r') = true).
    { unfold all_b in *. rewrite <- Lr. apply forallb_ext'. intros x. apply live_v_add_edge. }
    destruct (IH _ _ h1 R' Lr' ltac:(rewrite live_v_add_edge; exact Lf) P2) as (R2 & E2 & P2').
    split; [exact R2|]. split; [exact E2|]. rewrite P', P2'. reflexivity.
Qed.

(* ---------------------------------------------------------------- the class of the _partial theorem *)

Definition indep_op (s : mesh) (o : op) : bool :=
  match o with
  | AddVertex | AddVertices _ | AddFace _ _ | AddCell _ _ | Clear _ | EnableFast _
  | EnableVBU _ | EnableEBU _ | EnableFBU _ | PropCreate _ _ | PropSet _ _ _ _ | PropDrop _ _ => true
  | AddEdge a b dup => dup || par_ok s a b
  | AddFaceV vs => match vs with [] => true | f :: _ => negb (all_b (live_v s) vs) || afv_ok f vs s end
  | DelVertex _ | DelEdge _ | DelFace _ | DelCell _ => deferred s || negb (fast s)
  | CollectGarbage => negb (fast s)
  | EnableDeferred b => b || negb (fast s)
  | SwapV _ _ | SwapE _ _ | SwapF _ _ | SwapC _ _ => swap_ok s o
  | SetEdge _ _ _ | SetFace _ _ | SetCell _ _ => false
  end.

Fixpoint indep_from (s : mesh) (ops : list op) : bool :=
  match ops with
  | [] => true
  | o :: r => indep_op s o && indep_from (next s o) r
  end.
Definition indep_ops (ops : list op) : bool := indep_from empty_mesh ops.

Lemma all_live_core s t vs : core t = core s -> all_b (live_v t) vs = all_b (live_v s) vs.
Proof. intros H. unfold all_b. apply forallb_ext'. apply (live_core s t H). Qed.

Lemma indep_op_transfer s t o : R s t -> indep_op t o = true -> indep_op s o = true.
Proof.
  intros Rst Ci. pose proof Rst as (H & _). destruct o; try (same_core s t H; exact Ci).
  cbn [indep_op] in *. destruct vs as [|f r]; [reflexivity|]. rewrite (all_live_core s t _ H) in Ci.
    destruct (all_b (live_v s) (f :: r)) eqn:L; [|reflexivity]. cbn [negb orb] in *.
    assert (Lf : live_v s f = true) by (cbn [all_b forallb] in L; apply andb_true_iff in L; exact (proj1 L)).
    exact (proj2 (proj2 (afv_sim f (f :: r) s t [] Rst L Lf Ci))).
Qed.

(* ---------------------------------------------------------------- the call is of the class on the all-on side too *)

Lemma class_transfer s t o : R s t -> indep_op t o = true -> all_op t o = true -> (valid_op t o = true -> valid_op3 t o = true) ->
  all_op s o = true /\ (valid_op s o = true -> valid_op3 s o = true).
Proof.
  intros (H & Is & It & B) Ci G V3. rewrite (valid_op_core s t o H) in V3.
  assert (Fs : fbu s = true) by (unfold bfl in B; congruence).
  destruct o; try (split; [exact G|exact V3]).
  - (* AddFaceV *) split; [reflexivity|]. intros V. specialize (V3 V). cbn [valid_op3 valid_op2 valid_op indep_op] in *.
    destruct vs as [|f r]; [exact V3|]. apply andb_true_iff in V. destruct V as [_ L].
    rewrite (all_live_core s t _ H), L in Ci. cbn [negb orb] in Ci.
    assert (Lf : live_v s f = true) by (cbn [all_b forallb] in L; apply andb_true_iff in L; exact (proj1 L)).
    rewrite (proj1 (proj2 (afv_sim f (f :: r) s t [] (conj H (conj Is (conj It B))) L Lf Ci))). exact V3.
  - (* AddCell *)
    cbn [all_op]. rewrite Fs. split; [reflexivity|]. intros V. specialize (V3 V). cbn [valid_op3 valid_op2] in *.
    rewrite (cell_check_core s t hfs H) in V3. apply andb_true_iff in V3. destruct V3 as [V3 Vopp]. apply andb_true_iff in V3. destruct V3 as [Vchk Vfree].
    rewrite Vchk, Vopp, andb_true_r. cbn [andb]. cbn [valid_op] in V.
    destruct (full_inv_bu3 s Is) as (_ & _ & FS). destruct (full_inv_bu3 t It) as (_ & _ & FT).
    apply (cache_free s hfs Fs FS (live_hf_lt s hfs V)). intros hf Hhf. apply (free_hf_core s t hf H).
    cbn [all_op] in G. destruct (fbu t) eqn:Ft.
    + assert (V' : all_b (live_hf t) hfs = true) by (pose proof (valid_op_core s t (AddCell hfs check) H) as X; cbn [valid_op] in X; rewrite X; exact V).
      exact (proj1 (cache_free t hfs Ft FT (live_hf_lt t hfs V')) Vfree hf Hhf).
    + exact (free_scan_free t hfs G hf Hhf).
Qed.

(* ---------------------------------------------------------------- one non-toggle call: same core, same result, same flags *)

Lemma exec_core s t o : R s t -> strip_toggle o = Some o -> indep_op t o = true -> valid_op s o = true ->
  core (fst (exec t o)) = core (fst (exec s o)) /\ snd (exec t o) = snd (exec s o) /\ bfl (fst (exec s o)) = bfl s.
Proof.
  intros Rst St Ct V. pose proof Rst as (H & Is & It & B). pose proof (indep_op_transfer s t o Rst Ct) as Ci.
  pose proof (full_inv_bu3 s Is) as Bs. pose proof (full_inv_bu3 t It) as Bt.
  assert (Del : match o with DelVertex _ | DelEdge _ | DelFace _ | DelCell _ => true | _ => false end = true -> deferred s = false ->
                core (fst (exec t o)) = core (fst (exec s o)) /\ snd (exec t o) = snd (exec s o) /\ bfl (fst (exec s o)) = bfl s).
  { intros Io D.
    assert (F : fast s = false).
    { destruct o; try discriminate Io; cbn [indep_op] in Ci; rewrite D in Ci; cbn [orb] in Ci; apply negb_true_iff in Ci; exact Ci. }
    destruct (core_delete_immediate s t o H Is It D F V Io) as [A B']. split; [exact A|]. split; [|exact B'].
    destruct o; try discriminate Io; reflexivity. }
  destruct o; try discriminate St; try discriminate Ci; cbn [exec indep_op valid_op] in *.
  - pose proof (core_add_vertex s t H) as [A C]. pose proof (bfl_add_vertex s) as F.
    destruct (add_vertex s), (add_vertex t). cbn [fst snd] in *. split; [exact A|]. split; [congruence|exact F].
  - split; [apply core_add_n_vertices; exact H|]. split; [reflexivity|apply bfl_add_n_vertices].
  - destruct dup.
    + unfold add_edge. pose proof (core_append_edge s t a b H) as [A C]. pose proof (bfl_append_edge s a b) as F.
      destruct (append_edge s a b), (append_edge t a b). cbn [fst snd] in *. split; [exact A|]. split; [congruence|exact F].
    + cbn [orb] in Ci. apply andb_true_iff in V.
      destruct (core_add_edge_nodup s t a b H (proj1 Bs) (proj1 Bt) (live_v_lt s a (proj1 V)) Ci) as (A & C & F).
      destruct (add_edge s a b false), (add_edge t a b false). cbn [fst snd] in *. split; [exact A|]. split; [congruence|exact F].
  - pose proof (core_add_face s t hes check H) as [A C]. split; [exact A|]. split; [exact C|apply bfl_add_face].
  - unfold add_face_v. destruct vs as [|f r]; [cbn [fst snd]; split; [exact H|split; reflexivity]|].
    apply andb_true_iff in V. destruct V as [_ L]. rewrite (all_live_core s t _ H), L in Ct. cbn [negb orb] in Ct.
    assert (Lf : live_v s f = true) by (cbn [all_b forallb] in L; apply andb_true_iff in L; exact (proj1 L)).
    destruct (afv_sim f (f :: r) s t [] Rst L Lf Ct) as (R2 & E2 & _).
    destruct (add_face_v_edges f (f :: r) (s, [])) as [s1 h1]. destruct (add_face_v_edges f (f :: r) (t, [])) as [t1 h2].
    cbn [fst snd] in R2, E2. subst h2. destruct R2 as (H2 & _ & _ & B2).
    pose proof (core_add_face s1 t1 h1 false H2) as [A C]. split; [exact A|]. split; [exact C|]. rewrite bfl_add_face, B2. symmetry. exact B.
  - pose proof (core_add_cell s t hfs check H) as [A C]. split; [exact A|]. split; [exact C|apply bfl_add_cell].
  - destruct (deferred s) eqn:D; [|exact (Del eq_refl eq_refl)].
    cbn [fst snd]. apply live_v_lt in V. split; [exact (core_delete_vertex_def v s t H Bs Bt D V)|]. split; [reflexivity|apply bfl_delete_vertex_def; exact D].
  - destruct (deferred s) eqn:D; [|exact (Del eq_refl eq_refl)].
    cbn [fst snd]. apply live_e_lt in V. split; [exact (core_delete_edge_def e s t H Bs Bt D (proj1 V))|]. split; [reflexivity|apply bfl_delete_edge_def; exact D].
  - destruct (deferred s) eqn:D; [|exact (Del eq_refl eq_refl)].
    cbn [fst snd]. apply live_f_lt in V. split; [exact (core_delete_face_def f s t H Bs Bt D (proj1 V))|]. split; [reflexivity|apply bfl_delete_face_def; exact D].
  - destruct (deferred s) eqn:D; [|exact (Del eq_refl eq_refl)].
    cbn [fst snd]. split; [exact (core_delete_cell_def c s t H D)|]. split; [reflexivity|apply bfl_delete_cell_def; exact D].
  - cbn [fst snd swap_ok] in *. apply andb_true_iff in V. destruct V as [Va Vb]. apply Nat.ltb_lt in Va, Vb.
    destruct (core_swap_vertex a b s t H (all_inv_bu_inv s (proj1 Is)) (all_inv_bu_inv t (proj1 It)) Va Vb Ci) as [A F]. split; [exact A|]. split; [reflexivity|exact F].
  - cbn [fst snd swap_ok] in *. apply andb_true_iff in V. destruct V as [Va Vb]. apply Nat.ltb_lt in Va, Vb.
    destruct (core_swap_edge a b s t H (all_inv_bu_inv s (proj1 Is)) (all_inv_bu_inv t (proj1 It)) Va Vb Ci) as [A F]. split; [exact A|]. split; [reflexivity|exact F].
  - cbn [fst snd swap_ok] in *. apply andb_true_iff in V. destruct V as [Va Vb]. apply Nat.ltb_lt in Va, Vb.
    destruct (core_swap_face a b s t H (all_inv_bu_inv s (proj1 Is)) (all_inv_bu_inv t (proj1 It)) Va Vb Ci) as [A F]. split; [exact A|]. split; [reflexivity|exact F].
  - cbn [fst snd]. destruct (core_swap_cell a b s t H) as [A F]. split; [exact A|]. split; [reflexivity|exact F].
  - cbn [fst snd]. apply negb_true_iff in Ci.
    destruct (core_collect_garbage_nonfast s t H (proj1 Is) (proj1 It) Ci) as [A F]. split; [exact A|]. split; [reflexivity|exact F].
  - cbn [fst snd]. split; [apply core_clear_mesh; exact H|]. split; [reflexivity|apply bfl_clear_mesh].
  - cbn [fst snd]. destruct b.
    + split; [apply core_enable_deferred_true; exact H|]. split; [reflexivity|apply bfl_enable_deferred_true].
    + cbn [orb] in Ci. apply negb_true_iff in Ci.
      destruct (core_enable_deferred_nonfast false s t H (proj1 Is) (proj1 It) Ci) as [A F]. split; [exact A|]. split; [reflexivity|exact F].
  - cbn [fst snd]. split; [apply core_enable_fast; exact H|]. split; reflexivity.
  - cbn [fst snd]. split; [apply core_prop_create; exact H|]. split; reflexivity.
  - cbn [fst snd]. split; [apply core_prop_set; exact H|]. split; reflexivity.
  - cbn [fst snd]. split; [apply core_prop_drop; exact H|]. split; reflexivity.
Qed.

Definition res_of (x : outcome) : option (option nat) := match x with Ok _ r => Some r | Rejected => None end.

Lemma res_of_step s o : res_of (step s o) = if valid_op s o then Some (snd (exec s o)) else None.
Proof. unfold step. destruct (valid_op s o); [|reflexivity]. destruct (exec s o). reflexivity. Qed.

Lemma sim_step s t o : R s t -> strip_toggle o = Some o -> indep_op t o = true -> all_op t o = true ->
  (valid_op t o = true -> valid_op3 t o = true) ->
  R (next s o) (next t o) /\ res_of (step s o) = res_of (step t o) /\
  all_op s o = true /\ (valid_op s o = true -> valid_op3 s o = true).
Proof.
  intros Rst St Ci G V3. destruct (class_transfer s t o Rst Ci G V3) as [Gs V3s].
  pose proof Rst as (H & Is & It & B).
  pose proof (full_inv_step s o Is Gs V3s) as Is'. pose proof (full_inv_step t o It G V3) as It'.
  pose proof (valid_op_core s t o H) as VV. rewrite !res_of_step, VV.
  destruct (valid_op s o) eqn:V.
  - destruct (exec_core s t o Rst St Ci V) as (A & C & F).
    rewrite (next_valid s o V) in *. rewrite (next_valid t o VV) in *.
    split; [|split; [rewrite C; reflexivity|exact (conj Gs V3s)]]. split; [exact A|]. split; [exact Is'|]. split; [exact It'|]. rewrite F. exact B.
  - rewrite (next_invalid s o V), (next_invalid t o VV). split; [exact Rst|]. split; [reflexivity|exact (conj Gs V3s)].
Qed.

(* a toggle on the toggled side only *)
Lemma sim_toggle s t o : R s t -> strip_toggle o = None -> all_op t o = true -> (valid_op t o = true -> valid_op3 t o = true) ->
  R s (next t o).
Proof.
  intros (H & Is & It & B) St G V3. pose proof (full_inv_step t o It G V3) as It'.
  split; [|split; [exact Is|split; [exact It'|exact B]]].
  destruct o; try discriminate St.
  - rewrite (next_valid t (EnableVBU b) eq_refl). cbn [exec fst]. rewrite core_enable_vbu. exact H.
  - rewrite (next_valid t (EnableEBU b) eq_refl). cbn [exec fst]. rewrite core_enable_ebu. exact H.
  - rewrite (next_valid t (EnableFBU b) eq_refl). cbn [exec fst]. rewrite core_enable_fbu. exact H.
Qed.

(* ---------------------------------------------------------------- histories *)

Lemma strip_some o o' : strip_toggle o = Some o' -> o' = o.
Proof. destruct o; cbn; intros E; congruence. Qed.

(* the results of the non-toggle calls of a history, in order (None = the call was rejected / skipped) *)
Fixpoint results_from (s : mesh) (ops : list op) : list (option (option nat)) :=
  match ops with
  | [] => []
  | o :: r => match strip_toggle o with Some _ => [res_of (step s o)] | None => [] end ++ results_from (next s o) r
  end.
Definition results (ops : list op) := results_from empty_mesh ops.

Lemma sim_run ops : forall s t, R s t -> all_ok_from t ops = true -> indep_from t ops = true ->
  R (run_from s (all_on ops)) (run_from t ops) /\ all_ok_from s (all_on ops) = true /\ indep_from s (all_on ops) = true /\
  results_from s (all_on ops) = results_from t ops.
Proof.
  induction ops as [|o r IH]; intros s t Rst A I.
  - cbn [all_on all_ok_from indep_from results_from]. split; [exact Rst|]. split; [reflexivity|]. split; reflexivity.
  - cbn [all_ok_from indep_from] in A, I. apply andb_true_iff in A. destruct A as [A A3]. apply andb_true_iff in A. destruct A as [A1 A2].
    apply andb_true_iff in I. destruct I as [I1 I2].
    assert (V3 : valid_op t o = true -> valid_op3 t o = true) by (intros V; rewrite V in A2; exact A2).
    change (run_from t (o :: r)) with (run_from (next t o) r). cbn [all_on results_from].
    destruct (strip_toggle o) as [o'|] eqn:St.
    + pose proof (strip_some o o' St) as ->.
      destruct (sim_step s t o Rst St I1 A1 V3) as (R' & Res & Gs & V3s).
      change (run_from s (o :: all_on r)) with (run_from (next s o) (all_on r)). cbn [all_ok_from indep_from results_from]. rewrite St.
      destruct (IH _ _ R' A3 I2) as (R2 & A' & I' & Rs).
      split; [exact R2|]. rewrite A', I', Gs, Rs, Res. rewrite (indep_op_transfer s t o Rst I1).
      split; [|split; reflexivity]. destruct (valid_op s o) eqn:V; [rewrite (V3s eq_refl)|]; reflexivity.
    + exact (IH _ _ (sim_toggle s t o Rst St A1 V3) A3 I2).
Qed.

Lemma R_empty : R empty_mesh empty_mesh.
Proof. split; [reflexivity|]. split; [exact full_inv_empty|]. split; [exact full_inv_empty|reflexivity]. Qed.

(* THE _partial THEOREM.  The class indep_ops is decidable and is evaluated along the history itself (indep_op reads the core only, so
   it has the same value on the all-on twin).  It contains every call of all_ok with these restrictions:
     - add_edge(allow_duplicates = false): at most one live edge joins the two vertices at the time of the call (par_ok);
       add_face(vertices): the same for each of its lookups, in the states the call goes through (afv_ok).  Without the restriction
       the statement is FALSE (Kernel7/Indep.v: parallel edges in a list order that is not index order);
     - swap_vertex / swap_edge / swap_face_indices: no deferred-deleted edge / face / cell mentions a swapped handle (swap_ok:
       no_deleted_edge_atb / no_deleted_face_listsb / no_deleted_cell_listsb of Kernel/Swap*Cache.v).  Without the restriction the
       statement is FALSE (Kernel7/Indep.v, D13 family).  swap_cell_indices is unrestricted;
     - delete_vertex / edge / face / cell: in deferred mode (fast or not) and in immediate INDEX-SHIFTING mode; NOT COVERED: the
       immediate swap-with-last (fast) mode.  No counterexample known; the existing fast-mode theorems give the surviving definitions
       (Kernel3/FastPublic*.v) but not the property arrays as a function of the core; not attempted for lack of time;
     - collect_garbage, enable_deferred_deletion(false): with fast deletion off; NOT COVERED with fast deletion on (the fast
       collection is specified up to bijections only, Kernel3/GcFastMain.v); no counterexample known;
     - everything else of all_ok unrestricted: add_vertex/vertices, add_edge(allow_duplicates), add_face, add_cell, clear, property
       creation / writes / drops, enable_fast_deletion, enable_deferred_deletion(true), and the three incidence toggles themselves:
       any kind, off and on again, at any point.
   Conclusion: same core (definitions, counts, deletion flags and counters, modes, all seven property-array lists), the all-on twin
   is again in all_ok and in the class, and every non-toggle call returns the same result (handle / rejected) on both sides. *)
Theorem histories_independent_of_incidence_toggles_partial : forall ops, all_ok ops = true -> indep_ops ops = true ->
  core_eq (run (all_on ops)) (run ops) /\ all_ok (all_on ops) = true /\ indep_ops (all_on ops) = true /\
  results (all_on ops) = results ops.
Proof.
  intros ops A I. destruct (sim_run ops empty_mesh empty_mesh R_empty A I) as ((H & _) & A' & I' & Rs).
  split; [apply core_eq_iff; exact H|]. exact (conj A' (conj I' Rs)).
Qed.
