(* Kernel7/IndepImm.v -- deletions in IMMEDIATE index-shifting mode (deferred off, fast off): the immediate deletion is the deferred
   deletion followed by the collection (Kernel3/GcDeferredAny.v, any incidence subset), both of which are functions of the core;
   flags, counters and modes of the result are fixed by the invariant (nothing flagged, nothing pending, one flag per slot). *)
From Coq Require Import ZArith Lia Bool Arith List ZifyNat ZifyBool.
From OVM Require Import Base.ListX Base.ListLemmas Kernel.State Kernel.Ops Kernel.Construct Kernel.Recompute Kernel.Closure Kernel.ExactInv
                        Kernel.Sizes Kernel.Reenable Kernel.ExactRun Kernel.ShiftFace Kernel.ShiftEdge Kernel.ShiftVertex Kernel.ShiftCompose
                        Kernel2.ExactHistory Kernel3.FastDeferred Kernel3.GcDefs Kernel3.GcHist Kernel3.GcEquiv Kernel3.GcDeferredAny
                        Kernel4.AllDefs Kernel4.AllBridges Kernel4.AllHistory
                        Kernel7.Indep Kernel7.IndepOps Kernel7.IndepDel Kernel7.IndepGc.
Import ListNotations.
Local Open Scope nat_scope.

Lemma imode_id s : deferred s = false -> fast s = false -> imode s = s.
Proof. intros D F. destruct s; cbn in *; subst; reflexivity. Qed.

Lemma full_inv_dmode s : full_inv s -> full_inv (dmode s).
Proof.
  intros (A & T & L & C). split; [apply all_inv_set_modes; [exact A|discriminate]|]. split; [exact T|]. split; [exact L|exact C].
Qed.

Lemma core_dmode s t : core t = core s -> core (dmode t) = core (dmode s).
Proof. intros H. same_core s t H. reflexivity. Qed.

Lemma all_false_eq (l l' : list bool) : length l' = length l -> (forall i, nth i l false = false) -> (forall i, nth i l' false = false) -> l' = l.
Proof. intros L A B. apply (nth_ext l' l false false L). intros i _. rewrite A, B. reflexivity. Qed.

(* two immediate-mode states of the invariant with the same definitions and property arrays have the same core *)
Lemma core_of_same_mesh s t : nv t = nv s -> edges t = edges s -> faces t = faces s -> cells t = cells s ->
  (forall k, props k t = props k s) -> all_inv s -> all_inv t -> deferred s = false -> deferred t = false -> fast t = fast s ->
  core t = core s.
Proof.
  intros e1 e2 e3 e4 ep Is It Ds Dt Fa.
  destruct (all_inv_quiet s Is Ds) as ((v1 & v2 & v3 & v4) & (n1 & n2 & n3 & n4)).
  destruct (all_inv_quiet t It Dt) as ((w1 & w2 & w3 & w4) & (m1 & m2 & m3 & m4)).
  destruct (all_inv_szd s Is) as (a1 & a2 & a3 & a4 & _). destruct (all_inv_szd t It) as (b1 & b2 & b3 & b4 & _).
  apply core_eq_iff. unfold core_eq. split; [exact e1|]. split; [exact e2|]. split; [exact e3|]. split; [exact e4|].
  split; [apply all_false_eq; [congruence|exact v1|exact w1]|]. split; [apply all_false_eq; [congruence|exact v2|exact w2]|].
  split; [apply all_false_eq; [congruence|exact v3|exact w3]|]. split; [apply all_false_eq; [congruence|exact v4|exact w4]|].
  split; [repeat split; congruence|]. split; [split; congruence|exact ep].
Qed.

(* the cores and the closure loops keep flags and modes in immediate index-shifting mode *)
Definition icore_ok (f : nat -> mesh -> mesh) : Prop :=
  forall h s, deferred s = false -> fast s = false -> bfl (f h s) = bfl s /\ deferred (f h s) = false /\ fast (f h s) = false.

Lemma icore_cell : icore_ok delete_cell_core.
Proof. intros h s D F. pose proof (delete_cell_core_view h s D F) as V. cbv zeta in V. unfold bfl. intuition congruence. Qed.
Lemma icore_face : icore_ok delete_face_core.
Proof. intros h s D F. pose proof (delete_face_core_view h s D F) as V. cbv zeta in V. unfold bfl. intuition congruence. Qed.
Lemma icore_edge : icore_ok delete_edge_core.
Proof. intros h s D F. pose proof (delete_edge_core_view h s D F) as V. cbv zeta in V. unfold bfl. intuition congruence. Qed.
Lemma icore_vertex : icore_ok delete_vertex_core.
Proof. intros h s D F. pose proof (delete_vertex_core_view h s D F) as V. cbv zeta in V. unfold bfl. intuition congruence. Qed.

Lemma icore_del_desc f l : icore_ok f -> icore_ok (fun _ => del_desc f l).
Proof.
  intros OK _. unfold del_desc. induction (rev l) as [|x r IH]; intros s D F; [split; [reflexivity|split; assumption]|].
  cbn [fold_left]. destruct (OK x s D F) as (A & B & C). rewrite <- A. exact (IH _ B C).
Qed.

Lemma iframe_delete_cell c s : deferred s = false -> fast s = false ->
  bfl (delete_cell c s) = bfl s /\ deferred (delete_cell c s) = false /\ fast (delete_cell c s) = false.
Proof. exact (icore_cell c s). Qed.
Lemma iframe_delete_face f s : deferred s = false -> fast s = false ->
  bfl (delete_face f s) = bfl s /\ deferred (delete_face f s) = false /\ fast (delete_face f s) = false.
Proof.
  intros D F. unfold delete_face. destruct (icore_del_desc _ (incident_cells_of_faces s [f]) icore_cell 0 s D F) as (A & B & C).
  rewrite <- A. exact (icore_face f _ B C).
Qed.
Lemma iframe_delete_edge e s : deferred s = false -> fast s = false ->
  bfl (delete_edge e s) = bfl s /\ deferred (delete_edge e s) = false /\ fast (delete_edge e s) = false.
Proof.
  intros D F. unfold delete_edge. set (fs := incident_faces_of_edges s [e]).
  destruct (icore_del_desc _ (incident_cells_of_faces s fs) icore_cell 0 s D F) as (A & B & C).
  destruct (icore_del_desc _ fs icore_face 0 _ B C) as (A2 & B2 & C2).
  rewrite <- A, <- A2. exact (icore_edge e _ B2 C2).
Qed.
Lemma iframe_delete_vertex v s : deferred s = false -> fast s = false ->
  bfl (delete_vertex v s) = bfl s /\ deferred (delete_vertex v s) = false /\ fast (delete_vertex v s) = false.
Proof.
  intros D F. unfold delete_vertex. set (es := incident_edges_of_vertex s v). set (fs := incident_faces_of_edges s es).
  destruct (icore_del_desc _ (incident_cells_of_faces s fs) icore_cell 0 s D F) as (A & B & C).
  destruct (icore_del_desc _ fs icore_face 0 _ B C) as (A2 & B2 & C2).
  destruct (icore_del_desc _ es icore_edge 0 _ B2 C2) as (A3 & B3 & C3).
  rewrite <- A, <- A2, <- A3. exact (icore_vertex v _ B3 C3).
Qed.

Lemma imm_generic (del : nat -> mesh -> mesh) (x : nat) s t :
  full_inv (del x s) -> full_inv (del x t) -> full_inv (del x (dmode s)) -> full_inv (del x (dmode t)) ->
  core (del x (dmode t)) = core (del x (dmode s)) -> fast (del x (dmode s)) = false ->
  same_mesh (collect_garbage (del x (dmode s))) (del x s) -> same_mesh (collect_garbage (del x (dmode t))) (del x t) ->
  (deferred (del x s) = false /\ fast (del x s) = false) -> (deferred (del x t) = false /\ fast (del x t) = false) ->
  core (del x t) = core (del x s).
Proof.
  intros Is' It' Isd Itd Cd Fd (a1 & a2 & a3 & a4 & a5) (b1 & b2 & b3 & b4 & b5) (Ds & Fs) (Dt & Ft).
  destruct (core_collect_garbage_nonfast _ _ Cd (proj1 Isd) (proj1 Itd) Fd) as [Cg _].
  apply core_eq_iff in Cg. destruct Cg as (c1 & c2 & c3 & c4 & _ & _ & _ & _ & _ & _ & cp).
  apply core_of_same_mesh; try congruence; try (exact (proj1 Is')); try (exact (proj1 It')).
Qed.

Lemma dmode_step s o : full_inv s -> valid_op s o = true ->
  match o with DelVertex _ | DelEdge _ | DelFace _ | DelCell _ => true | _ => false end = true ->
  full_inv (fst (exec (dmode s) o)) /\ full_inv (fst (exec s o)).
Proof.
  intros Is V Io. split.
  - assert (V' : valid_op (dmode s) o = true) by (destruct o; try discriminate Io; exact V).
    rewrite <- (next_valid _ _ V'). apply full_inv_step; [exact (full_inv_dmode s Is)|destruct o; try discriminate Io; reflexivity|].
    intros _. destruct o; try discriminate Io; reflexivity.
  - rewrite <- (next_valid _ _ V). apply full_inv_step; [exact Is|destruct o; try discriminate Io; reflexivity|].
    intros _. destruct o; try discriminate Io; reflexivity.
Qed.

Lemma bu3_of_full s : full_inv s -> bu3 s.
Proof. intros H. destruct (all_inv_bu_inv s (proj1 H)) as (A & B & C & _). exact (conj A (conj B C)). Qed.

Theorem core_delete_immediate s t o : core t = core s -> full_inv s -> full_inv t -> deferred s = false -> fast s = false ->
  valid_op s o = true -> match o with DelVertex _ | DelEdge _ | DelFace _ | DelCell _ => true | _ => false end = true ->
  core (fst (exec t o)) = core (fst (exec s o)) /\ bfl (fst (exec s o)) = bfl s.
Proof.
  intros H Is It D F V Io.
  assert (Dt : deferred t = false) by (rewrite (core_deferred _ _ H); exact D).
  assert (Ft : fast t = false) by (rewrite (core_fast _ _ H); exact F).
  assert (Vt : valid_op t o = true) by (rewrite (valid_op_core s t o H); exact V).
  destruct (dmode_step s o Is V Io) as [Isd Is']. destruct (dmode_step t o It Vt Io) as [Itd It'].
  pose proof (core_dmode s t H) as Hd.
  pose proof (bu3_of_full _ (full_inv_dmode s Is)) as Bs. pose proof (bu3_of_full _ (full_inv_dmode t It)) as Bt.
  destruct (all_inv_quiet s (proj1 Is) D) as [NFs _]. destruct (all_inv_quiet t (proj1 It) Dt) as [NFt _].
  pose proof (collection_equals_immediate_deletion_any s (all_inv_shift_inv2 s (proj1 Is) NFs) (all_inv_sized s (proj1 Is))) as SMs.
  pose proof (collection_equals_immediate_deletion_any t (all_inv_shift_inv2 t (proj1 It) NFt) (all_inv_sized t (proj1 It))) as SMt.
  rewrite (imode_id s D F) in SMs. rewrite (imode_id t Dt Ft) in SMt.
  destruct (core_counts s t H) as (NV & NE & NF & NC).
  destruct o; try discriminate Io; cbn [exec fst valid_op] in *.
  - apply live_v_lt in V. destruct (iframe_delete_vertex v s D F) as (A & B & C). destruct (iframe_delete_vertex v t Dt Ft) as (_ & B' & C').
    split; [|exact A]. apply (imm_generic delete_vertex v s t Is' It' Isd Itd); try (split; assumption).
    + exact (core_delete_vertex_def v (dmode s) (dmode t) Hd Bs Bt eq_refl V).
    + exact (fast_delete_vertex_def v (dmode s) eq_refl).
    + exact (proj1 (SMs v) V).
    + apply (proj1 (SMt v)). rewrite NV. exact V.
  - apply live_e_lt in V. destruct V as [V _]. destruct (iframe_delete_edge e s D F) as (A & B & C). destruct (iframe_delete_edge e t Dt Ft) as (_ & B' & C').
    split; [|exact A]. apply (imm_generic delete_edge e s t Is' It' Isd Itd); try (split; assumption).
    + exact (core_delete_edge_def e (dmode s) (dmode t) Hd Bs Bt eq_refl V).
    + exact (fast_delete_edge_def e (dmode s) eq_refl).
    + exact (proj1 (proj2 (SMs e)) V).
    + apply (proj1 (proj2 (SMt e))). rewrite NE. exact V.
  - apply live_f_lt in V. destruct V as [V _]. destruct (iframe_delete_face f s D F) as (A & B & C). destruct (iframe_delete_face f t Dt Ft) as (_ & B' & C').
    split; [|exact A]. apply (imm_generic delete_face f s t Is' It' Isd Itd); try (split; assumption).
    + exact (core_delete_face_def f (dmode s) (dmode t) Hd Bs Bt eq_refl V).
    + exact (fast_delete_face_def f (dmode s) eq_refl).
    + exact (proj1 (proj2 (proj2 (SMs f))) V).
    + apply (proj1 (proj2 (proj2 (SMt f)))). rewrite NF. exact V.
  - apply live_c_lt in V. destruct V as [V _]. destruct (iframe_delete_cell c s D F) as (A & B & C). destruct (iframe_delete_cell c t Dt Ft) as (_ & B' & C').
    split; [|exact A]. apply (imm_generic delete_cell c s t Is' It' Isd Itd); try (split; assumption).
    + exact (core_delete_cell_def c (dmode s) (dmode t) Hd eq_refl).
    + exact (fast_delete_cell_def c (dmode s) eq_refl).
    + exact (proj2 (proj2 (proj2 (SMs c))) V).
    + apply (proj2 (proj2 (proj2 (SMt c)))). rewrite NC. exact V.
Qed.
