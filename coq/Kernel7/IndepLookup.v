(* Kernel7/IndepLookup.v -- the edge lookup of add_edge(allow_duplicates = false): through exact vertex incidences or by scan it is
   the FIRST live edge between the two vertices; the two agree when there is at most one such edge (par_ok). *)
From Coq Require Import ZArith Lia Bool Arith List ZifyNat ZifyBool.
From OVM Require Import Base.ListX Base.ListLemmas Kernel.State Kernel.Ops Kernel.Construct Kernel.Recompute Kernel.Closure Kernel.Reenable
                        Kernel7.Indep Kernel7.IndepOps.
Import ListNotations.
Ltac Zify.zify_post_hook ::= Z.div_mod_to_equations.
Local Open Scope nat_scope.

Definition joins (s : mesh) (a b e : nat) : bool :=
  let '(x, y) := edge_at s e in ((x =? a) && (y =? b)) || ((x =? b) && (y =? a)).

(* the live edges between a and b, in index order *)
Definition matches (s : mesh) (a b : nat) : list nat := filter (joins s a b) (live_edges s).

(* at most one live edge between a and b *)
Definition par_ok (s : mesh) (a b : nat) : bool := length (matches s a b) <=? 1.

Lemma matches_core s t a b : core t = core s -> matches t a b = matches s a b.
Proof. intros H. same_core s t H. reflexivity. Qed.
Lemma par_ok_core s t a b : core t = core s -> par_ok t a b = par_ok s a b.
Proof. intros H. unfold par_ok. rewrite (matches_core s t a b H). reflexivity. Qed.

Lemma find_filter {A} (p q : A -> bool) l : find (fun x => q x && p x) l = hd_error (filter p (filter q l)).
Proof.
  induction l as [|x l IH]; [reflexivity|]. cbn [find filter]. destruct (q x); cbn [andb]; [|exact IH].
  cbn [filter]. destruct (p x); [reflexivity|exact IH].
Qed.

Lemma scan_is_first_match s a b : vbu s = false -> find_dup_edge s a b = hd_error (matches s a b).
Proof.
  intros V. unfold find_dup_edge. rewrite V. unfold matches, live_edges. rewrite <- find_filter.
  induction (seq 0 (ne s)) as [|e l IH]; [reflexivity|]. cbn [find]. unfold joins at 1. destruct (edge_at s e). rewrite IH. reflexivity.
Qed.

Lemma In_matches s a b e : In e (matches s a b) <-> e < ne s /\ e_deleted s e = false /\ joins s a b e = true.
Proof. unfold matches. rewrite filter_In, In_live_edges. tauto. Qed.

Lemma cache_is_first_match s a b : vbu s = true -> vbu_ok s -> a < nv s -> par_ok s a b = true ->
  find_dup_edge s a b = hd_error (matches s a b).
Proof.
  intros V OK Ha P. unfold par_ok in P. apply Nat.leb_le in P. unfold find_dup_edge. rewrite V.
  destruct (find (fun h => he_to s h =? b) (out_at s a)) as [h|] eqn:F; cbn [option_map].
  - apply find_some in F. destruct F as [Hin Ht]. apply Nat.eqb_eq in Ht.
    destruct (proj1 (OK V a Ha h) Hin) as (L & D & Fr).
    assert (M : In (h / 2) (matches s a b)).
    { apply In_matches. split; [exact L|]. split; [exact D|]. unfold joins. unfold he_from, he_to in *. destruct (edge_at s (h / 2)) as [x y].
      destruct (Nat.even h); subst; rewrite !Nat.eqb_refl; cbn; rewrite ?orb_true_r; reflexivity. }
    destruct (matches s a b) as [|e [|e2 r]]; [destruct M| |cbn [length] in P; lia].
    destruct M as [->|[]]. reflexivity.
  - destruct (matches s a b) as [|e r] eqn:M; [reflexivity|]. exfalso.
    assert (I : In e (matches s a b)) by (rewrite M; left; reflexivity). apply In_matches in I. destruct I as (L & D & J).
    unfold joins in J. destruct (edge_at s e) as [x y] eqn:E. apply orb_true_iff in J.
    assert (Ev : Nat.even (2 * e) = true) by (rewrite Nat.even_mul; reflexivity).
    assert (Od : Nat.even (2 * e + 1) = false) by (rewrite Nat.add_comm, Nat.even_add_mul_2; reflexivity).
    destruct J as [J|J]; apply andb_true_iff in J; destruct J as [J1 J2]; apply Nat.eqb_eq in J1, J2; subst.
    + assert (I : In (2 * e) (out_at s a)).
      { apply (OK V a Ha). replace (2 * e / 2) with e by lia. split; [exact L|]. split; [exact D|]. unfold he_from. replace (2 * e / 2) with e by lia. rewrite E, Ev. reflexivity. }
      pose proof (find_none _ _ F _ I) as N. cbn beta in N. unfold he_to in N. replace (2 * e / 2) with e in N by lia. rewrite E, Ev, Nat.eqb_refl in N. discriminate N.
    + assert (I : In (2 * e + 1) (out_at s a)).
      { apply (OK V a Ha). replace ((2 * e + 1) / 2) with e by lia. split; [exact L|]. split; [exact D|]. unfold he_from. replace ((2 * e + 1) / 2) with e by lia. rewrite E, Od. reflexivity. }
      pose proof (find_none _ _ F _ I) as N. cbn beta in N. unfold he_to in N. replace ((2 * e + 1) / 2) with e in N by lia. rewrite E, Od, Nat.eqb_refl in N. discriminate N.
Qed.

Lemma lookup_is_first_match s a b : vbu_ok s -> a < nv s -> par_ok s a b = true -> find_dup_edge s a b = hd_error (matches s a b).
Proof.
  intros OK Ha P. destruct (vbu s) eqn:V; [exact (cache_is_first_match s a b V OK Ha P)|exact (scan_is_first_match s a b V)].
Qed.

(* add_edge without duplicates *)
Lemma core_add_edge_nodup s t a b : core t = core s -> vbu_ok s -> vbu_ok t -> a < nv s -> par_ok s a b = true ->
  core (fst (add_edge t a b false)) = core (fst (add_edge s a b false)) /\ snd (add_edge t a b false) = snd (add_edge s a b false) /\
  bfl (fst (add_edge s a b false)) = bfl s.
Proof.
  intros H Os Ot Ha P. destruct (core_counts s t H) as (NV & _). unfold add_edge.
  rewrite (lookup_is_first_match s a b Os Ha P), (lookup_is_first_match t a b Ot) by (rewrite ?NV, ?(par_ok_core s t a b H); assumption).
  rewrite (matches_core s t a b H). destruct (hd_error (matches s a b)); [split; [exact H|split; reflexivity]|].
  pose proof (core_append_edge s t a b H) as [A C]. pose proof (bfl_append_edge s a b) as F.
  destruct (append_edge s a b), (append_edge t a b). cbn [fst snd] in *. split; [exact A|]. split; [congruence|exact F].
Qed.
