(* Kernel4/AllCellsSteps.v -- cells_topo (Kernel4/AllCells.v: live cells topologically closed, no halfface in two live cells) through
   every valid call of the unified class other than a re-enabling of incidences (Kernel4/AllReenable.v).  add_cell (both incidence
   kinds on): from the invariant of the new state; everything else: cells_from. *)
From Coq Require Import ZArith Lia Bool Arith List ZifyNat ZifyBool.
From OVM Require Import Base.ListX Base.ListLemmas Kernel.State Kernel.Ops Kernel.Mirror Kernel.Closure Kernel.ExactInv Kernel.ExactRun Kernel.Sizes
                        Kernel.DeferredDelete Kernel.SwapEffects Kernel.ShiftFace Kernel.ShiftCompose Kernel2.ExactBase Kernel2.ExactHistory
                        Kernel3.FastDeferred Kernel3.FastHistory Kernel3.GcDefs Kernel3.GcInv Kernel3.GcMain Kernel3.GcDeferred Kernel3.GcHist
                        Kernel3.GcFastChain Kernel3.GcFastMain
                        Kernel4.AllDefs Kernel4.AllBridges Kernel4.AllFaces Kernel4.AllFacesSwap Kernel4.AllStepAdd Kernel4.AllStepDel Kernel4.AllStepGc
                        Kernel4.AllStaleFace Kernel4.AllStaleEdge Kernel4.AllStaleVertex Kernel4.AllStepSwap Kernel4.AllStepMisc Kernel4.AllExec
                        Kernel4.AllCells Kernel4.AllCellsOps.
Import ListNotations.
Ltac Zify.zify_post_hook ::= Z.div_mod_to_equations.
Local Open Scope nat_scope.

(* ================================================================== additions that do not add a cell *)

Definition cells_keep (s t : mesh) : Prop := cells t = cells s /\ cdel t = cdel s.

Lemma cells_keep_refl s : cells_keep s s. Proof. split; reflexivity. Qed.
Lemma cells_keep_trans s t u : cells_keep s t -> cells_keep t u -> cells_keep s u.
Proof. intros [A B] [C D]. split; congruence. Qed.

Lemma cells_keep_add_vertex s : cells_keep s (fst (add_vertex s)).
Proof. pose proof (add_vertex_view s) as W. cbv zeta in W. destruct W as (_&_&_&w4&_&_&w7&_). exact (conj w4 w7). Qed.
Lemma cells_keep_add_n_vertices n : forall s, cells_keep s (add_n_vertices n s).
Proof. induction n as [|n IH]; intros s; [apply cells_keep_refl|]. cbn [add_n_vertices]. exact (cells_keep_trans _ _ _ (cells_keep_add_vertex s) (IH _)). Qed.
Lemma cells_keep_append_edge s a b : cells_keep s (fst (append_edge s a b)).
Proof. pose proof (append_edge_view s a b) as W. cbv zeta in W. destruct W as (_&_&_&w4&_&_&w7&_). exact (conj w4 w7). Qed.
Lemma cells_keep_add_edge s a b d : cells_keep s (fst (add_edge s a b d)).
Proof. unfold add_edge. destruct d; [apply cells_keep_append_edge|]. destruct (find_dup_edge s a b); [apply cells_keep_refl|apply cells_keep_append_edge]. Qed.
Lemma cells_keep_append_face s hes : cells_keep s (fst (append_face s hes)).
Proof. pose proof (append_face_view s hes) as W. cbv zeta in W. destruct W as (_&_&_&w4&_&_&w7&_). exact (conj w4 w7). Qed.
Lemma cells_keep_add_face s hes c : cells_keep s (fst (add_face s hes c)).
Proof.
  unfold add_face. destruct (c && negb (loop_ok s hes)); [apply cells_keep_refl|].
  pose proof (cells_keep_append_face s hes) as G. destruct (append_face s hes). exact G.
Qed.
Lemma cells_keep_add_face_v_step v w acc : cells_keep (fst acc) (fst (add_face_v_step v w acc)).
Proof. destruct acc as [s hes]. unfold add_face_v_step. pose proof (cells_keep_add_edge s v w false) as G. destruct (add_edge s v w false). exact G. Qed.
Lemma cells_keep_add_face_v_edges first : forall vs acc, cells_keep (fst acc) (fst (add_face_v_edges first vs acc)).
Proof.
  induction vs as [|v t IH]; intros acc; [apply cells_keep_refl|]. cbn [add_face_v_edges]. destruct t as [|w t'].
  - apply cells_keep_add_face_v_step.
  - exact (cells_keep_trans _ _ _ (cells_keep_add_face_v_step v w acc) (IH _)).
Qed.
Lemma cells_keep_add_face_v s vs : cells_keep s (fst (add_face_v s vs)).
Proof.
  unfold add_face_v. destruct vs as [|first t]; [apply cells_keep_refl|].
  pose proof (cells_keep_add_face_v_edges first (first :: t) (s, [])) as G. destruct (add_face_v_edges first (first :: t) (s, [])) as [s1 hes].
  exact (cells_keep_trans _ _ _ G (cells_keep_add_face s1 hes false)).
Qed.

(* cells kept, old faces kept: cells_topo kept *)
Lemma cells_topo_keep s t (P : mesh -> list nat -> Prop) : all_inv s -> cells_keep s t -> faces_grow s t P -> cells_topo s -> cells_topo t.
Proof.
  intros H [Ce D] (_ & O & _). apply cells_topo_from. apply cells_from_same; [exact Ce| |].
  - intros c _. unfold c_deleted. rewrite D. tauto.
  - intros c hf [Hc Hd] Hhf. destruct (all_inv_ginv s H) as ((_ & _ & _ & (_ & _ & R3) & _) & _). pose proof (R3 c Hc Hd hf Hhf).
    exact (proj1 (O (hf / 2) ltac:(lia))).
Qed.

(* ================================================================== collect_garbage / enable_deferred *)

Theorem cells_from_collect_garbage s : all_inv s -> cells_from s (collect_garbage s).
Proof.
  intros H. destruct (deferred s) eqn:D; [|rewrite (collect_garbage_immediate s D); apply cells_from_same_all; reflexivity].
  pose proof (all_inv_gc_ready s H D) as R. destruct (fast s) eqn:F.
  - destruct (collect_garbage_fast_post s R (all_inv_sized s H) F) as (rv & re & rf & rc & Po & _).
    pose proof (all_inv_ginv s H) as ((_ & _ & _ & Rf & _) & _ & U & _). exact (cells_from_gc_fast_post s _ rv re rf rc Po Rf U).
  - exact (cells_from_gc_nonfast s R F).
Qed.

Theorem cells_from_enable_deferred b s : all_inv s -> cells_from s (enable_deferred b s).
Proof.
  intros H. rewrite enable_deferred_eq.
  assert (M : cells_from s (ed_mid b s)).
  { unfold ed_mid. destruct (deferred s && negb b); [apply cells_from_collect_garbage; exact H|apply cells_from_same_all; reflexivity]. }
  generalize dependent (ed_mid b s). intros m (ge & gf & R & M). exists ge, gf, R. exact M.
Qed.

(* ================================================================== every call but a re-enabling *)

Lemma all_inv_cell_refs s : all_inv s ->
  (forall c, c < nc s -> c_deleted s c = false -> forall hf, In hf (cell_at s c) -> hf < 2 * nf s) /\
  (forall c, c < nc s -> c_deleted s c = false -> forall hf, In hf (cell_at s c) -> hf / 2 < nf s /\ f_deleted s (hf / 2) = false).
Proof.
  intros H. destruct (all_inv_ginv s H) as ((_ & _ & _ & (_ & _ & R3) & _) & _ & (_ & _ & U3) & _). split; [exact R3|].
  intros c Hc Hd hf Hhf. pose proof (R3 c Hc Hd hf Hhf). split; [lia|exact (U3 c Hc Hd hf Hhf)].
Qed.

Theorem cells_topo_exec s o : all_inv s -> cells_topo s -> all_op s o = true -> reenable_case s o = false ->
  valid_op s o = true -> valid_op2 s o = true -> cells_topo (fst (exec s o)).
Proof.
  intros H T G NR V V2. pose proof (proj1 (all_inv_exec s o H G NR V V2)) as H'.
  destruct (all_inv_lens s H) as (Lv & Le & Lf & Lc). destruct (all_inv_cell_refs s H) as [CR CL].
  destruct o; try discriminate G; cbn [exec valid_op valid_op2 all_op reenable_case] in *.
  - (* add_vertex *) pose proof (cells_keep_add_vertex s) as K. pose proof (edges_grow_add_vertex s) as E. destruct (add_vertex s). cbn [fst] in *.
    exact (cells_topo_keep s _ (fun _ _ => True) H K (edges_grow_faces_grow _ _ _ E) T).
  - exact (cells_topo_keep s _ (fun _ _ => True) H (cells_keep_add_n_vertices n s) (edges_grow_faces_grow _ _ _ (edges_grow_add_n_vertices n s)) T).
  - pose proof (cells_keep_add_edge s a b dup) as K. pose proof (edges_grow_add_edge s a b dup) as E. destruct (add_edge s a b dup). cbn [fst] in *.
    exact (cells_topo_keep s _ (fun _ _ => True) H K (edges_grow_faces_grow _ _ _ E) T).
  - pose proof (cells_keep_add_face s hes check) as K. pose proof (faces_grow_add_face s hes check (fun _ _ => True) Lf (fun _ => I)) as E.
    destruct (add_face s hes check). cbn [fst] in *. exact (cells_topo_keep s _ _ H K E T).
  - pose proof (cells_keep_add_face_v s vs) as K. pose proof (faces_grow_add_face_v s vs (fun _ _ => True) Lf (fun _ _ _ => I)) as E.
    destruct (add_face_v s vs). cbn [fst] in *. exact (cells_topo_keep s _ _ H K E T).
  - (* add_cell: both incidence kinds on, before and after *)
    apply negb_false_iff in NR. apply andb_true_iff in NR. destruct NR as [E Fb]. destruct (grows_modes s _ (grows_add_cell s hfs check)) as (_ & Em & Fm).
    destruct (add_cell s hfs check). cbn [fst] in *. apply cells_topo_of_ginv; [exact (all_inv_ginv _ H')|congruence|congruence].
  - (* deletions *) cbn [fst]. apply live_v_lt in V. apply (cells_topo_from s); [|exact T]. destruct (all_inv_exact s H) as (VO & EO & FO).
    destruct (deferred s) eqn:D; [exact (cells_from_dstep _ _ _ _ _ _ (dstep_delete_vertex s v D VO EO FO V) Lc)|].
    exact (cells_from_delete_vertex_imm v s D (proj1 (all_inv_fast_inv s H D)) V).
  - cbn [fst]. apply live_e_lt in V. destruct V as [V _]. apply (cells_topo_from s); [|exact T]. destruct (all_inv_exact s H) as (VO & EO & FO).
    destruct (deferred s) eqn:D; [exact (cells_from_dstep _ _ _ _ _ _ (dstep_delete_edge s e D EO FO V) Lc)|].
    exact (cells_from_delete_edge_imm e s D (proj1 (all_inv_fast_inv s H D)) V).
  - cbn [fst]. apply live_f_lt in V. destruct V as [V _]. apply (cells_topo_from s); [|exact T]. destruct (all_inv_exact s H) as (VO & EO & FO).
    destruct (deferred s) eqn:D; [exact (cells_from_dstep _ _ _ _ _ _ (dstep_delete_face s f D FO V) Lc)|].
    exact (cells_from_delete_face_imm f s D (proj1 (all_inv_fast_inv s H D)) V).
  - cbn [fst]. apply live_c_lt in V. destruct V as [V _]. apply (cells_topo_from s); [|exact T].
    destruct (deferred s) eqn:D; [exact (cells_from_dstep _ _ _ _ _ _ (delete_cell_deferred c s D) Lc)|].
    exact (cells_from_delete_cell_imm c s D (proj1 (all_inv_fast_inv s H D)) V).
  - (* swap vertex *) cbn [fst]. apply (cells_topo_from s); [|exact T]. destruct (Nat.eq_dec a b) as [->|N]; [rewrite swap_vertex_self; apply cells_from_same_all; reflexivity|].
    pose proof (swap_vertex_effect a b s N) as E. cbv zeta in E. destruct E as (_ & _ & _ & e4 & e5 & _ & _ & e8 & _). apply cells_from_same_all; assumption.
  - (* swap edge *) cbn [fst]. apply andb_true_iff in V. destruct V as [Va Vb]. apply Nat.ltb_lt in Va, Vb. apply (cells_topo_from s); [|exact T].
    destruct (Nat.eq_dec a b) as [->|N]; [rewrite swap_edge_self; apply cells_from_same_all; reflexivity|].
    pose proof (swap_edge_effect a b s N) as E. cbv zeta in E. destruct E as (_ & _ & _ & _ & _ & e6 & _ & _ & e9 & _).
    destruct (ginv_swap_edge_any a b s (all_inv_ginv s H) Va Vb) as (_ & LF & _). exact (cells_from_edge_swap s _ a b CL e6 e9 LF).
  - (* swap face *) cbn [fst]. apply andb_true_iff in V. destruct V as [Va Vb]. apply Nat.ltb_lt in Va, Vb. apply (cells_topo_from s); [|exact T].
    destruct (Nat.eq_dec a b) as [->|N]; [rewrite swap_face_self; apply cells_from_same_all; reflexivity|].
    pose proof (swap_face_effect a b s N) as E. cbv zeta in E. destruct E as (e1 & _ & _ & _ & _ & _ & _ & _ & e9 & _).
    destruct (ginv_swap_face_any a b s (all_inv_ginv s H) Va Vb) as (_ & LC & NCt). exact (cells_from_face_swap s _ a b Va Vb CR e1 NCt e9 LC).
  - (* swap cell *) cbn [fst]. apply andb_true_iff in V. destruct V as [Va Vb]. apply Nat.ltb_lt in Va, Vb. apply (cells_topo_from s); [|exact T].
    destruct (Nat.eq_dec a b) as [->|N]; [rewrite swap_cell_self; apply cells_from_same_all; reflexivity|].
    pose proof (swap_cell_effect a b s N) as E. cbv zeta in E. destruct E as (e1 & e2 & _ & _ & _ & e6 & _). exact (cells_from_cell_swap s _ a b Va Vb Lc e6 e1 e2).
  - cbn [fst]. exact (cells_topo_from _ _ (cells_from_collect_garbage s H) T).
  - cbn [fst]. apply (cells_topo_from s); [|exact T]. apply cells_from_empty. reflexivity.
  - (* enable_vbu *) cbn [fst]. apply (cells_topo_from s); [|exact T]. pose proof (kview_enable_vbu b s) as KV. unfold kview in KV.
    injection KV as _ e2 e3 _ _ _ e7 _ _ _ _. apply cells_from_same_all; assumption.
  - (* enable_ebu, not a recomputation *) cbn [fst]. apply (cells_topo_from s); [|exact T]. destruct b; cbn [andb] in NR.
    + apply negb_false_iff in NR. rewrite (enable_ebu_on_noop s NR). apply cells_from_same_all; reflexivity.
    + apply cells_from_same_all; reflexivity.
  - cbn [fst]. apply (cells_topo_from s); [|exact T]. destruct b; cbn [andb] in NR.
    + apply negb_false_iff in NR. rewrite (enable_fbu_on_noop s NR). apply cells_from_same_all; reflexivity.
    + apply cells_from_same_all; reflexivity.
  - cbn [fst]. exact (cells_topo_from _ _ (cells_from_enable_deferred b s H) T).
  - cbn [fst]. apply (cells_topo_from s); [|exact T]. apply cells_from_same_all; reflexivity.
  - cbn [fst]. apply (cells_topo_from s); [|exact T]. apply cells_from_same_all; reflexivity.
  - cbn [fst]. apply (cells_topo_from s); [|exact T]. apply cells_from_same_all; reflexivity.
  - cbn [fst]. apply (cells_topo_from s); [|exact T]. apply cells_from_same_all; reflexivity.
Qed.
