(* Kernel4/AllClosed.v -- C08 "closedness through renumbering": every live face is a closed loop of halfedges (faces_closed,
   Kernel4/AllDefs.v) after EVERY history of the unified class in which each add_face call is topology-checked or passes a loop
   that closes (loops_ok).  Renumbering steps: Kernel4/AllFaces.v faces_closed_from; additions: the old faces keep their edges;
   add_face from vertices builds a closed loop (add_face_v_closed: the halfedge it picks for each consecutive vertex pair runs from
   the first to the second vertex, whether the edge is new or an existing one found in either direction). *)
From Coq Require Import ZArith Lia Bool Arith List ZifyNat ZifyBool.
From OVM Require Import Base.ListX Base.ListLemmas Kernel.State Kernel.Ops Kernel.Mirror Kernel.Construct Kernel.Recompute Kernel.Closure
                        Kernel.ExactInv Kernel.ExactRun Kernel2.ExactBase Kernel2.ExactHistory Kernel3.GcDefs Kernel3.GcHist
                        Kernel4.AllDefs Kernel4.AllBridges Kernel4.AllFaces Kernel4.AllFacesSwap Kernel4.AllStepAdd Kernel4.AllExec Kernel4.AllHistory.
Import ListNotations.
Ltac Zify.zify_post_hook ::= Z.div_mod_to_equations.
Local Open Scope nat_scope.

(* ================================================================== paths of halfedges *)

Fixpoint path (s : mesh) (a : nat) (l : list nat) (b : nat) : Prop :=
  match l with
  | [] => a = b
  | h :: t => he_from s h = a /\ path s (he_to s h) t b
  end.

Lemma path_app s l : forall a b h, path s a l b -> he_from s h = b -> path s a (l ++ [h]) (he_to s h).
Proof.
  induction l as [|x l IH]; intros a b h P Hh; cbn [path app] in *.
  - rewrite P. split; [exact Hh|reflexivity].
  - destruct P as [A P]. split; [exact A|]. exact (IH _ _ _ P Hh).
Qed.

Lemma path_transfer s t l : (forall h, In h l -> he_from t h = he_from s h /\ he_to t h = he_to s h) ->
  forall a b, path s a l b -> path t a l b.
Proof.
  induction l as [|x l IH]; intros E a b P; cbn [path] in *; [exact P|].
  destruct P as [A P]. destruct (E x (or_introl eq_refl)) as [E1 E2]. rewrite E1, E2. split; [exact A|].
  apply IH; [|exact P]. intros h Hh. apply E. right. exact Hh.
Qed.

Lemma chain_of_path s first : forall l a, l <> [] -> path s a l (he_from s first) -> chain_ok s first l = true.
Proof.
  induction l as [|h t IH]; intros a Hne P; [congruence|]. cbn [path] in P. destruct P as [_ P].
  destruct t as [|h2 t'].
  - cbn [path] in P. cbn [chain_ok]. apply Nat.eqb_eq. exact P.
  - change (chain_ok s first (h :: h2 :: t')) with ((he_to s h =? he_from s h2) && chain_ok s first (h2 :: t')).
    pose proof P as P'. cbn [path] in P'. destruct P' as [A _]. apply andb_true_iff. split; [apply Nat.eqb_eq; symmetry; exact A|].
    apply (IH (he_to s h)); [discriminate|exact P].
Qed.

Lemma closed_of_path s l a : l <> [] -> path s a l a -> closed_cycle s l.
Proof.
  intros Hne P. apply loop_ok_spec. unfold loop_ok. destruct l as [|h t]; [congruence|].
  pose proof P as P'. cbn [path] in P'. destruct P' as [A _]. apply (chain_of_path s h (h :: t) a); [discriminate|]. rewrite A. exact P.
Qed.

(* ================================================================== add_face from vertices builds a closed loop *)

Lemma he_ends_same s t h : edge_at t (h / 2) = edge_at s (h / 2) -> he_from t h = he_from s h /\ he_to t h = he_to s h.
Proof. intros E. unfold he_from, he_to. rewrite E. auto. Qed.

(* the halfedge chosen for the pair (v, w) runs from v to w *)
Lemma add_face_v_step_ends v w s hes : bu_inv s -> v < nv s ->
  let acc' := add_face_v_step v w (s, hes) in
  exists h, snd acc' = hes ++ [h] /\ he_from (fst acc') h = v /\ he_to (fst acc') h = w /\ h / 2 < ne (fst acc').
Proof.
  intros B Hv. cbv zeta. unfold add_face_v_step.
  assert (J : joins (fst (add_edge s v w false)) (snd (add_edge s v w false)) v w).
  { unfold add_edge. destruct (find_dup_edge s v w) as [e|] eqn:Fd.
    - cbn [fst snd]. destruct B as (VO & _). destruct (vbu s) eqn:V.
      + assert (OX : out_exact_at s v) by (intros h; apply (VO V v Hv h)). exact (proj2 (proj2 (find_dup_cached_sound s v w e V OX Fd))).
      + exact (proj2 (proj2 (find_dup_scan_sound s v w e V Fd))).
    - pose proof (append_edge_view s v w) as W. cbv zeta in W. destruct W as (_ & w2 & _).
      left. unfold edge_at. rewrite w2. change (snd (append_edge s v w)) with (ne s). unfold ne. apply nth_middle. }
  pose proof (add_edge_result_in_range s v w false B Hv) as (R1 & _ & _).
  destruct (add_edge s v w false) as [s' e]. cbn [fst snd] in *.
  exists (2 * e + (if snd (edge_at s' e) =? v then 1 else 0)). split; [reflexivity|].
  rewrite he_from_cases, he_to_cases.
  destruct J as [J|J]; rewrite J; cbn [fst snd].
  - destruct (Nat.eqb_spec w v) as [->|N].
    + replace ((2 * e + 1) / 2) with e by lia. replace ((2 * e + 1) mod 2 =? 0) with false by (symmetry; apply Nat.eqb_neq; lia).
      rewrite J. cbn [fst snd]. repeat split; lia.
    + replace ((2 * e + 0) / 2) with e by lia. replace ((2 * e + 0) mod 2 =? 0) with true by (symmetry; apply Nat.eqb_eq; lia).
      rewrite J. cbn [fst snd]. repeat split; lia.
  - rewrite Nat.eqb_refl. replace ((2 * e + 1) / 2) with e by lia. replace ((2 * e + 1) mod 2 =? 0) with false by (symmetry; apply Nat.eqb_neq; lia).
    rewrite J. cbn [fst snd]. repeat split; lia.
Qed.

Definition in_range (s : mesh) (l : list nat) : Prop := forall h, In h l -> h / 2 < ne s.

Lemma path_edges_grow s t l a b : edges_grow s t -> in_range s l -> path s a l b -> path t a l b.
Proof.
  intros (E & _) R. apply path_transfer. intros h Hh. apply he_ends_same. apply E. exact (R h Hh).
Qed.

Lemma add_face_v_step_path v w s hes a : bu_inv s -> v < nv s -> w < nv s -> in_range s hes -> path s a hes v ->
  let acc' := add_face_v_step v w (s, hes) in
  bu_inv (fst acc') /\ nv (fst acc') = nv s /\ in_range (fst acc') (snd acc') /\ path (fst acc') a (snd acc') w /\ snd acc' <> [].
Proof.
  intros B Hv Hw R P. cbv zeta.
  destruct (add_face_v_step_ends v w s hes B Hv) as (h & E & Hf & Ht & Hr).
  pose proof (edges_grow_add_face_v_step v w (s, hes)) as G. cbn [fst] in G.
  destruct (add_face_v_step_inv v w (s, hes) B Hv Hw ltac:(intros x Hx; specialize (R x Hx); cbn [fst]; lia)) as (B' & N' & _).
  cbn [fst snd] in *. set (acc' := add_face_v_step v w (s, hes)) in *.
  split; [exact B'|]. split; [exact N'|]. rewrite E. split; [|split].
  - intros x Hx. apply in_app_iff in Hx. destruct Hx as [Hx|[<-|[]]]; [|exact Hr]. destruct G as (_ & G2 & _). specialize (R x Hx). lia.
  - rewrite <- Ht. apply (path_app _ _ _ v); [|exact Hf]. exact (path_edges_grow s _ hes a v G R P).
  - destruct hes; discriminate.
Qed.

Lemma add_face_v_edges_path first : forall vs s hes a v0, bu_inv s -> first < nv s -> (forall v, In v (v0 :: vs) -> v < nv s) ->
  in_range s hes -> path s a hes v0 ->
  let acc' := add_face_v_edges first (v0 :: vs) (s, hes) in
  in_range (fst acc') (snd acc') /\ path (fst acc') a (snd acc') first /\ snd acc' <> [].
Proof.
  induction vs as [|w t IH]; intros s hes a v0 B Hf Hvs R P; cbv zeta.
  - cbn [add_face_v_edges]. destruct (add_face_v_step_path v0 first s hes a B (Hvs v0 (or_introl eq_refl)) Hf R P) as (_ & _ & A1 & A2 & A3). auto.
  - change (add_face_v_edges first (v0 :: w :: t) (s, hes)) with (add_face_v_edges first (w :: t) (add_face_v_step v0 w (s, hes))).
    destruct (add_face_v_step_path v0 w s hes a B (Hvs v0 (or_introl eq_refl)) (Hvs w (or_intror (or_introl eq_refl))) R P) as (B' & N' & A1 & A2 & _).
    destruct (add_face_v_step v0 w (s, hes)) as [s1 h1]. cbn [fst snd] in *.
    apply IH; try assumption; [rewrite N'; exact Hf|]. intros u Hu. rewrite N'. apply Hvs. right. exact Hu.
Qed.

Theorem add_face_v_closed s f t : bu_inv s -> (forall v, In v (f :: t) -> v < nv s) ->
  let acc := add_face_v_edges f (f :: t) (s, []) in closed_cycle (fst acc) (snd acc) /\ in_range (fst acc) (snd acc).
Proof.
  intros B Hvs. cbv zeta.
  destruct (add_face_v_edges_path f t s [] f f B (Hvs f (or_introl eq_refl)) Hvs ltac:(intros h []) eq_refl) as (R & P & Ne).
  split; [exact (closed_of_path _ _ f Ne P)|exact R].
Qed.

(* ================================================================== the additions keep every face closed *)

Lemma closed_after_append_face s hes : in_range s hes -> closed_cycle s hes -> closed_cycle (fst (append_face s hes)) hes.
Proof.
  intros R C. apply (closed_cycle_same_edges s); [|exact C]. intros h _. pose proof (append_face_view s hes) as W. cbv zeta in W.
  destruct W as (_ & w2 & _). unfold edge_at. rewrite w2. reflexivity.
Qed.

Lemma closed_after_add_face s hes c : in_range s hes -> (c = true \/ loop_ok s hes = true) ->
  snd (add_face s hes c) <> None -> closed_cycle (fst (add_face s hes c)) hes.
Proof.
  intros R L. unfold add_face. destruct (c && negb (loop_ok s hes)) eqn:Rej; [cbn [snd]; congruence|].
  assert (Lo : loop_ok s hes = true).
  { destruct L as [->|L]; [|exact L]. cbn [andb] in Rej. apply negb_false_iff in Rej. exact Rej. }
  intros _. pose proof (closed_after_append_face s hes R (proj1 (loop_ok_spec s hes) Lo)) as C. destruct (append_face s hes). exact C.
Qed.

Lemma all_inv_face_range s : all_inv s -> forall f, f < nf s -> f_deleted s f = false -> forall h, In h (face_at s f) -> h / 2 < ne s.
Proof. intros H f Hf Hd h Hh. pose proof (ginv_face_refs s (all_inv_ginv s H) f Hf Hd h Hh). lia. Qed.

Theorem faces_closed_exec s o : full_inv s -> faces_closed s -> all_op s o = true -> valid_op s o = true -> valid_op2 s o = true ->
  loop_op s o = true -> faces_closed (fst (exec s o)).
Proof.
  intros HT FC G V V2 Lo. destruct (is_addition o) eqn:A.
  2: { exact (faces_closed_from _ _ (proj2 (full_inv_exec s o HT G V V2) A) FC). }
  destruct HT as [H _].
  pose proof (all_inv_face_range s H) as R.
  destruct (szd_flag_lens s (all_inv_szd s H)) as (_ & _ & Lf & _).
  destruct o; try discriminate A; cbn [exec valid_op valid_op2 loop_op] in *.
  - apply (faces_closed_grow s); [exact R| |exact FC]. pose proof (edges_grow_add_vertex s) as E. destruct (add_vertex s). apply edges_grow_faces_grow. exact E.
  - apply (faces_closed_grow s); [exact R| |exact FC]. apply edges_grow_faces_grow, edges_grow_add_n_vertices.
  - apply (faces_closed_grow s); [exact R| |exact FC]. pose proof (edges_grow_add_edge s a b dup) as E. destruct (add_edge s a b dup). apply edges_grow_faces_grow. exact E.
  - apply andb_true_iff in V. destruct V as [_ V3].
    assert (Rg : in_range s hes) by (intros h Hh; pose proof (live_he_lt s h (forallb_lt _ _ V3 h Hh)); lia).
    apply (faces_closed_grow s); [exact R| |exact FC].
    assert (T : faces_grow s (fst (add_face s hes check)) closed_cycle).
    { apply faces_grow_add_face; [exact Lf|]. apply closed_after_add_face; [exact Rg|]. apply orb_true_iff in Lo. exact Lo. }
    destruct (add_face s hes check). exact T.
  - apply andb_true_iff in V. destruct V as [_ V3].
    assert (Rg : forall v, In v vs -> v < nv s) by (intros v Hv; exact (live_v_lt s v (forallb_lt _ _ V3 v Hv))).
    apply (faces_closed_grow s); [exact R| |exact FC].
    assert (T : faces_grow s (fst (add_face_v s vs)) closed_cycle).
    { apply faces_grow_add_face_v; [exact Lf|]. intros f t ->. cbv zeta.
      destruct (add_face_v_closed s f t (all_inv_bu_inv s H) Rg) as [C Ri]. cbv zeta in C, Ri.
      destruct (add_face_v_edges f (f :: t) (s, [])) as [s1 hes]. cbn [fst snd] in *.
      apply closed_after_add_face; [exact Ri|right; apply loop_ok_spec; exact C|discriminate]. }
    destruct (add_face_v s vs). exact T.
  - apply (faces_closed_grow s); [exact R| |exact FC]. pose proof (edges_grow_add_cell s hfs check) as E. destruct (add_cell s hfs check). apply edges_grow_faces_grow. exact E.
Qed.

(* ================================================================== histories *)

Theorem faces_closed_exec3 s o : full_inv s -> faces_closed s -> all_op s o = true -> valid_op s o = true -> valid_op3 s o = true ->
  loop_op s o = true -> faces_closed (fst (exec s o)).
Proof.
  intros H FC G V V3 Lo. destruct (valid_op3_reduce s o V3) as (o' & E & Ev & Ea & V2 & _ & El). rewrite <- E.
  apply faces_closed_exec; try assumption; congruence.
Qed.

Lemma faces_closed_run_from ops : forall s, full_inv s -> faces_closed s -> all_ok_from s ops = true -> loops_ok_from s ops = true ->
  faces_closed (run_from s ops).
Proof.
  induction ops as [|o r IH]; intros s H FC F L; [exact FC|]. cbn [all_ok_from loops_ok_from] in F, L.
  apply andb_true_iff in F. destruct F as [F F3]. apply andb_true_iff in F. destruct F as [F1 F2]. apply andb_true_iff in L. destruct L as [L1 L2].
  unfold run_from. cbn [fold_left]. fold (next s o). apply IH; [| |exact F3|exact L2].
  - apply full_inv_step; [exact H|exact F1|]. intros V. rewrite V in F2. exact F2.
  - destruct (valid_op s o) eqn:V; [|rewrite (next_invalid s o V); exact FC]. cbn [negb orb] in F2, L1.
    rewrite (next_valid s o V). exact (faces_closed_exec3 s o H FC F1 V F2 L1).
Qed.

Theorem faces_closed_along_histories ops : all_ok ops = true -> loops_ok ops = true -> faces_closed (run ops).
Proof.
  intros F L. apply faces_closed_run_from; [apply full_inv_empty| |exact F|exact L].
  intros f Hf. unfold nf in Hf. cbn in Hf. lia.
Qed.

(* both orientations of a closed face are closed loops, and the topology check accepts the stored loop *)
Theorem faces_closed_both_sides ops : all_ok ops = true -> loops_ok ops = true ->
  forall f, f < nf (run ops) -> f_deleted (run ops) f = false ->
    closed_cycle (run ops) (face_at (run ops) f) /\ loop_ok (run ops) (face_at (run ops) f) = true /\
    closed_cycle (run ops) (halfface (run ops) (2 * f + 1)).
Proof.
  intros F L f Hf Hd. pose proof (faces_closed_along_histories ops F L f Hf Hd) as C.
  split; [exact C|]. split; [apply loop_ok_spec; exact C|].
  assert (E : 2 * f + 1 = opp (2 * f)) by (rewrite opp_spec; lia). rewrite E, halfface_opp. apply closed_cycle_mirror.
  unfold halfface. replace (2 * f / 2) with f by lia. replace (Nat.even (2 * f)) with true by (symmetry; rewrite even_mod2; apply Nat.eqb_eq; lia).
  exact C.
Qed.
