(* Kernel4/AllNoDupSteps.v -- the cache lists stay duplicate-free (lists_nd) through every valid call of the unified class: additions
   (a fresh handle is pushed; a simple face is threaded into the lists of its halfedges), the toggles (recomputed lists are
   duplicate-free), swaps, deletions, collections (Kernel4/AllNoDup{Base,Cores,Del,Gc}.v). *)
From Coq Require Import ZArith Lia Bool Arith List ZifyNat ZifyBool.
From OVM Require Import Base.ListX Base.ListLemmas Base.ListLemmas2 Kernel.State Kernel.Ops Kernel.Mirror Kernel.Construct Kernel.Recompute Kernel.Closure
                        Kernel.ExactInv Kernel.ExactRun Kernel.Reenable Kernel.ShiftFace Kernel.ShiftCompose
                        Kernel2.ReorderExact Kernel2.ExactBase Kernel2.ExactHistory Kernel3.FastDeferred Kernel3.FastHistory Kernel3.GcDefs Kernel3.GcHist
                        Kernel4.AllDefs Kernel4.AllBridges Kernel4.AllStepAdd Kernel4.AllStepMisc Kernel4.AllExec Kernel4.AllReenable
                        Kernel4.AllNoDupBase Kernel4.AllNoDupCores Kernel4.AllNoDupDel Kernel4.AllNoDupGc.
Import ListNotations.
Ltac Zify.zify_post_hook ::= Z.div_mod_to_equations.
Local Open Scope nat_scope.

(* ================================================================== additions *)

Lemma In_push_at i x ll k y : In y (nth k (push_at i x ll) []) -> In y (nth k ll []) \/ y = x.
Proof.
  unfold push_at. rewrite nth_upd. destruct ((i =? k) && (i <? length ll)) eqn:E; [|tauto].
  apply andb_true_iff in E. destruct E as [E _]. apply Nat.eqb_eq in E. subst k. rewrite in_app_iff. simpl. intuition.
Qed.

Theorem lists_nd_add_vertex s : lists_nd s -> lists_nd (fst (add_vertex s)).
Proof.
  intros [O Hf]. pose proof (add_vertex_view s) as W. cbv zeta in W. destruct W as (_&_&_&_&_&_&_&w8&w9&w10&w11&_&w13). split.
  - intros V. rewrite w8 in V. rewrite w13, V. apply all_nd_resize. exact (O V).
  - intros Fb E. rewrite w11. apply Hf; congruence.
Qed.

Lemma lists_nd_add_n_vertices n : forall s, lists_nd s -> lists_nd (add_n_vertices n s).
Proof. induction n as [|n IH]; intros s L; [exact L|]. cbn [add_n_vertices]. apply IH. apply lists_nd_add_vertex. exact L. Qed.

Theorem lists_nd_append_edge s a b : bu_inv s -> lists_nd s -> lists_nd (fst (append_edge s a b)).
Proof.
  intros (VO & _ & _ & _ & (L1 & _)) [O Hf]. pose proof (append_edge_view s a b) as W. cbv zeta in W.
  destruct W as (_&_&_&_&_&_&_&w8&w9&w10&_&w12&w13).
  assert (Old : vbu s = true -> forall k y, In y (nth k (out_hes s) []) -> y / 2 < ne s).
  { intros V k y Hy. destruct (Nat.lt_ge_cases k (nv s)) as [Hk|Hk]; [exact (proj1 (proj1 (VO V k Hk y) Hy))|].
    rewrite nth_overflow in Hy by (rewrite (L1 V); exact Hk). destruct Hy. }
  split.
  - intros V. rewrite w8 in V. rewrite w12, V. apply all_nd_push_at; [|apply all_nd_push_at; [|exact (O V)]].
    + intros Hin. apply In_push_at in Hin. destruct Hin as [Hin|Hin]; [pose proof (Old V _ _ Hin)|]; lia.
    + intros Hin. pose proof (Old V _ _ Hin). lia.
  - intros Fb E. rewrite w10 in Fb. rewrite w9 in E. rewrite w13, E. apply all_nd_resize. exact (Hf Fb E).
Qed.

Theorem lists_nd_add_edge s a b d : bu_inv s -> lists_nd s -> lists_nd (fst (add_edge s a b d)).
Proof.
  intros B L. unfold add_edge. destruct d; [apply lists_nd_append_edge; assumption|].
  destruct (find_dup_edge s a b); [exact L|apply lists_nd_append_edge; assumption].
Qed.

Lemma all_nd_add_face_inc f hes ll : simple_hes hes -> all_nd ll -> (forall k x, In x (nth k ll []) -> x / 2 <> f) ->
  all_nd (add_face_inc f hes ll).
Proof.
  intros [Nh No] A Fr k. rewrite add_face_inc_eq. destruct (Nat.lt_ge_cases k (length ll)) as [Hk|Hk].
  - apply fold_estep_nodup; [exact Hk|exact Nh|exact (A k)| |]; intros Hin; exfalso; apply (Fr k _ Hin); lia.
  - rewrite nth_overflow by (rewrite fold_estep_in_length; exact Hk). constructor.
Qed.

Theorem lists_nd_append_face s hes : bu_inv s -> simple_hes hes -> lists_nd s -> lists_nd (fst (append_face s hes)).
Proof.
  intros (_ & EO & _ & _ & (_ & L2 & _)) Sh [O Hf]. pose proof (append_face_view s hes) as W. cbv zeta in W.
  destruct W as (_&_&_&_&_&_&_&w8&w9&w10&w11&w12&_). split.
  - intros V. rewrite w11. apply O. congruence.
  - intros Fb E. rewrite w10 in Fb. rewrite w9 in E. rewrite w12, E. apply all_nd_add_face_inc; [exact Sh|exact (Hf Fb E)|].
    intros k x Hx. destruct (Nat.lt_ge_cases k (2 * ne s)) as [Hk|Hk].
    + pose proof (proj1 (proj1 (EO E k Hk x) Hx)). lia.
    + rewrite nth_overflow in Hx by (rewrite (L2 E); exact Hk). destruct Hx.
Qed.

Theorem lists_nd_add_face s hes c : bu_inv s -> simple_hes hes -> lists_nd s -> lists_nd (fst (add_face s hes c)).
Proof.
  intros B Sh L. unfold add_face. destruct (c && negb (loop_ok s hes)); [exact L|].
  pose proof (lists_nd_append_face s hes B Sh L) as T. destruct (append_face s hes). exact T.
Qed.

Lemma lists_nd_add_face_v_step v w acc : bu_inv (fst acc) -> lists_nd (fst acc) -> lists_nd (fst (add_face_v_step v w acc)).
Proof.
  destruct acc as [s hes]. cbn [fst]. intros B L. unfold add_face_v_step. pose proof (lists_nd_add_edge s v w false B L) as T.
  destruct (add_edge s v w false). exact T.
Qed.

Lemma lists_nd_add_face_v_edges first : forall vs acc, bu_inv (fst acc) -> first < nv (fst acc) -> (forall v, In v vs -> v < nv (fst acc)) ->
  (forall h, In h (snd acc) -> h < 2 * ne (fst acc)) -> lists_nd (fst acc) -> lists_nd (fst (add_face_v_edges first vs acc)).
Proof.
  induction vs as [|v t IH]; intros acc B Hf Hvs Hr L; [exact L|]. cbn [add_face_v_edges]. destruct t as [|w t'].
  - apply lists_nd_add_face_v_step; assumption.
  - destruct (add_face_v_step_inv v w acc B (Hvs v (or_introl eq_refl)) (Hvs w (or_intror (or_introl eq_refl))) Hr) as (B' & N' & R').
    apply IH; try assumption; [rewrite N'; exact Hf|intros u Hu; rewrite N'; apply Hvs; right; exact Hu|apply lists_nd_add_face_v_step; assumption].
Qed.

Theorem lists_nd_add_face_v s vs : bu_inv s -> (forall v, In v vs -> v < nv s) ->
  (forall f t, vs = f :: t -> simple_hes (snd (add_face_v_edges f vs (s, [])))) -> lists_nd s -> lists_nd (fst (add_face_v s vs)).
Proof.
  intros B Hvs Sh L. unfold add_face_v. destruct vs as [|f t]; [exact L|].
  pose proof (add_face_v_edges_inv f (f :: t) (s, []) B (Hvs f (or_introl eq_refl)) Hvs ltac:(intros h [])) as (B1 & _).
  pose proof (lists_nd_add_face_v_edges f (f :: t) (s, []) B (Hvs f (or_introl eq_refl)) Hvs ltac:(intros h []) L) as L1.
  specialize (Sh f t eq_refl). destruct (add_face_v_edges f (f :: t) (s, [])) as [s1 hes]. cbn [fst snd] in *.
  apply lists_nd_add_face; assumption.
Qed.

(* add_cell: the class asks for both incidence kinds on; the vertex lists are untouched *)
Theorem lists_nd_add_cell s hfs c : fbu s = true -> lists_nd s -> lists_nd (fst (add_cell s hfs c)).
Proof.
  intros Fb [O _]. destruct (grows_modes s _ (grows_add_cell s hfs c)) as (_ & _ & Fm).
  assert (Oh : out_hes (fst (add_cell s hfs c)) = out_hes s /\ vbu (fst (add_cell s hfs c)) = vbu s).
  { unfold add_cell. destruct (c && negb (cell_check s hfs)); [split; reflexivity|].
    pose proof (append_cell_effect s hfs) as Ef. pose proof (grows_append_cell s hfs) as (_&_&_&_&_&_&_&_&_&(gv&_)).
    destruct (append_cell s hfs) as [t x]. cbn [fst] in *. destruct Ef as (_&_&_&_&_&_&_&_&_&e10&_). auto. }
  destruct Oh as [Oe Ve]. split; [intros V; rewrite Oe; apply O; congruence|]. intros Fb'. congruence.
Qed.

(* ================================================================== toggles *)

Lemma all_nd_compute_vbu s : all_nd (compute_vbu s).
Proof.
  intros k. destruct (compute_vbu_exact s) as [Len X]. destruct (Nat.lt_ge_cases k (nv s)) as [Hk|Hk]; [exact (proj1 (X k Hk))|].
  rewrite nth_overflow by (rewrite Len; exact Hk). constructor.
Qed.

Lemma all_nd_compute_ebu s : faces_simple s -> all_nd (compute_ebu s).
Proof.
  intros FS k. destruct (Nat.lt_ge_cases k (2 * ne s)) as [Hk|Hk]; [exact (compute_ebu_nodup s FS k Hk)|].
  rewrite nth_overflow by (rewrite (proj1 (compute_ebu_membership s)); exact Hk). constructor.
Qed.

Theorem lists_nd_enable_vbu b s : lists_nd s -> lists_nd (enable_vbu b s).
Proof.
  intros [O Hf]. pose proof (enable_vbu_effect b s) as E. cbv zeta in E. destruct E as (_ & e1 & e2 & e3 & e4 & _ & e6). split.
  - intros V. rewrite e1 in V. subst b. rewrite e6. destruct (vbu s) eqn:Vs; [exact (O Vs)|apply all_nd_compute_vbu].
  - intros Fb Eb. rewrite e4. apply Hf; congruence.
Qed.

(* lists_nodup (not only lists_nd) is what the edge / face toggles need and give *)
Theorem lists_nodup_enable_ebu b s : all_inv s -> cells_topo s -> lists_nodup s -> lists_nodup (enable_ebu b s).
Proof.
  intros H T [O Hf]. destruct b.
  - destruct (ebu s) eqn:E; [rewrite (enable_ebu_on_noop s E); split; [exact O|intros _; exact (Hf E)]|].
    destruct (reenable_ebu s H T E) as (H' & _ & _).
    assert (Oe : out_hes (enable_ebu true s) = out_hes s /\ vbu (enable_ebu true s) = vbu s /\ fbu (enable_ebu true s) = fbu s).
    { unfold enable_ebu. rewrite E. cbn [andb negb].
      match goal with |- context [if fbu ?u then reorder_edges ?es ?u else ?u] => set (es0 := es); set (u0 := u) end.
      assert (U : exists x, (if fbu u0 then reorder_edges es0 u0 else u0) = set_inc_hfs x u0).
      { destruct (fbu u0); [destruct (reorder_edges_frame2 es0 u0) as [x [-> _]]; exists x; reflexivity|exists (inc_hfs u0); symmetry; apply set_inc_hfs_self]. }
      destruct U as [x ->]. repeat split; reflexivity. }
    destruct Oe as (Oe & Ve & Fe). split; [intros V; rewrite Oe; apply O; congruence|].
    intros E'. destruct (fbu s) eqn:Fb.
    + (* re-ordered lists: duplicate-free by the invariant of the new state *)
      destruct (all_inv_ginv _ H') as ((_ & _ & _ & _ & (_ & L2 & _)) & _ & _ & X).
      assert (Fb' : fbu (enable_ebu true s) = true) by congruence.
      exact (slots_nodup_all_nd _ (proj1 (X E' Fb')) (L2 E')).
    + pose proof (enable_ebu_effect_without_reorder true s (or_introl Fb)) as Ef. cbv zeta in Ef. destruct Ef as (_&_&_&_&_&_& e6). rewrite E in e6.
      rewrite e6. apply all_nd_compute_ebu. exact (all_inv_faces_simple s H).
  - split; [exact O|]. intros E'. discriminate E'.
Qed.

(* ================================================================== every call but a re-enabling *)

Lemma lists_nd_clear cp s : lists_nd (clear_mesh cp s).
Proof. split; [intros _; apply all_nd_nil|intros _ _; apply all_nd_nil]. Qed.

Theorem lists_nodup_exec s o : all_inv s -> lists_nodup s -> all_op s o = true -> reenable_case s o = false ->
  valid_op s o = true -> valid_op2 s o = true -> lists_nodup (fst (exec s o)).
Proof.
  intros H LN G NR V V2. pose proof (proj1 (all_inv_exec s o H G NR V V2)) as H'.
  apply lists_nodup_of; [exact (all_inv_ginv _ H')|]. clear H'.
  pose proof (lists_nd_of s LN) as L. pose proof (all_inv_bu_inv s H) as B.
  destruct o; try discriminate G; cbn [exec valid_op valid_op2 all_op reenable_case] in *.
  - pose proof (lists_nd_add_vertex s L) as T. destruct (add_vertex s). exact T.
  - apply lists_nd_add_n_vertices. exact L.
  - pose proof (lists_nd_add_edge s a b dup B L) as T. destruct (add_edge s a b dup). exact T.
  - pose proof (lists_nd_add_face s hes check B (simple_b_sound _ V2) L) as T. destruct (add_face s hes check). exact T.
  - apply andb_true_iff in V. destruct V as [_ V3].
    assert (Rg : forall v, In v vs -> v < nv s) by (intros v Hv; exact (live_v_lt s v (forallb_lt _ _ V3 v Hv))).
    assert (Hs : forall f t, vs = f :: t -> simple_hes (snd (add_face_v_edges f vs (s, [])))) by (intros f t ->; apply simple_b_sound; exact V2).
    pose proof (lists_nd_add_face_v s vs B Rg Hs L) as T. destruct (add_face_v s vs). exact T.
  - apply negb_false_iff in NR. apply andb_true_iff in NR. destruct NR as [_ Fb]. pose proof (lists_nd_add_cell s hfs check Fb L) as T. destruct (add_cell s hfs check). exact T.
  - (* deletions *) cbn [fst]. apply live_v_lt in V.
    exact (proj2 (proj2 (proj2 (lists_nd_delete s (fun D => proj1 (all_inv_fast_inv s H D)) L))) v V).
  - cbn [fst]. apply live_e_lt in V. exact (proj1 (proj2 (proj2 (lists_nd_delete s (fun D => proj1 (all_inv_fast_inv s H D)) L))) e (proj1 V)).
  - cbn [fst]. apply live_f_lt in V. exact (proj1 (proj2 (lists_nd_delete s (fun D => proj1 (all_inv_fast_inv s H D)) L)) f (proj1 V)).
  - cbn [fst]. exact (proj1 (lists_nd_delete s (fun D => proj1 (all_inv_fast_inv s H D)) L) c).
  - cbn [fst]. apply lists_nd_swap_vertex. exact L.
  - cbn [fst]. apply lists_nd_swap_edge. exact L.
  - cbn [fst]. apply lists_nd_swap_face. exact L.
  - cbn [fst]. apply lists_nd_swap_cell. exact L.
  - cbn [fst]. apply lists_nd_collect_garbage; [exact (all_inv_gc_ready s H)|exact L].
  - cbn [fst]. apply lists_nd_clear.
  - cbn [fst]. apply lists_nd_enable_vbu. exact L.
  - (* enable_ebu: off, or on while on *) cbn [fst]. destruct b; cbn [andb] in NR.
    + apply negb_false_iff in NR. rewrite (enable_ebu_on_noop s NR). exact L.
    + split; [exact (proj1 L)|]. intros _ E. discriminate E.
  - (* enable_fbu: off, or on while on *) cbn [fst]. destruct b; cbn [andb] in NR.
    + apply negb_false_iff in NR. rewrite (enable_fbu_on_noop s NR). exact L.
    + split; [exact (proj1 LN)|]. intros _. exact (proj2 LN).
  - cbn [fst]. apply lists_nd_enable_deferred; [exact (all_inv_gc_ready s H)|exact L].
  - cbn [fst]. exact L.
  - cbn [fst]. exact L.
  - cbn [fst]. exact L.
  - cbn [fst]. exact L.
Qed.

(* ================================================================== the re-enabling calls *)

Theorem lists_nodup_reenable_ebu s : all_inv s -> cells_topo s -> lists_nodup s -> ebu s = false -> lists_nodup (enable_ebu true s).
Proof. intros H T L _. exact (lists_nodup_enable_ebu true s H T L). Qed.

Theorem lists_nodup_reenable_fbu_plain s : lists_nodup s -> fbu s = false -> ebu s = false -> lists_nodup (enable_fbu true s).
Proof.
  intros [O _] Fb E. pose proof (enable_fbu_effect true s) as Ef. cbv zeta in Ef. destruct Ef as (_ & _ & f2 & f3 & f4 & _).
  split; [intros V; rewrite f4; apply O; congruence|]. intros E'. congruence.
Qed.
