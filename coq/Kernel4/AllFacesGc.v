(* Kernel4/AllFacesGc.v -- faces_from (Kernel4/AllFaces.v) for collect_garbage: in the index-shifting mode the live faces are
   renumbered by rank (Kernel3/GcMain.v, GcCommute.v), in the fast mode by the bijections of Kernel3/GcFastMain.v (onto by counting). *)
From Coq Require Import ZArith Lia Bool Arith List ZifyNat ZifyBool.
From OVM Require Import Base.ListX Base.ListLemmas Kernel.State Kernel.Ops Kernel.Mirror Kernel.Recompute Kernel.Closure Kernel.ExactInv
                        Kernel.SwapInvol Kernel.ShiftFace Kernel.ShiftCompose Kernel2.ExactBase
                        Kernel3.GcDefs Kernel3.GcList Kernel3.GcInv Kernel3.GcMain Kernel3.GcTwoStage Kernel3.GcCommute
                        Kernel3.GcFastBase Kernel3.GcFastChain Kernel3.GcFastMain Kernel4.AllDefs Kernel4.AllFaces.
Import ListNotations.
Ltac Zify.zify_post_hook ::= Z.div_mod_to_equations.
Local Open Scope nat_scope.

(* ================================================================== index-shifting mode: rank *)

Theorem faces_from_gc_nonfast d : gc_ready d -> fast d = false -> faces_from d (collect_garbage d).
Proof.
  intros R F. destruct (col_up d R) as ((_ & U2 & _) & (_ & R2 & _)). destruct (col_counts d R F) as (_ & _ & Nf & _).
  exists (rank (vdel d)), (rank (edel d)). intros f' Hf' _. rewrite Nf in Hf'.
  destruct (unrank_spec (fdel d) (nf d) f' Hf') as (A & B & E). set (f := unrank (fdel d) (nf d) f') in *.
  exists f. split; [exact A|]. split; [exact B|]. split; [rewrite <- E; exact (col_face d R F f A B)|]. split.
  - intros h Hh. pose proof (R2 f A B h Hh) as Rh. pose proof (U2 f A B h Hh) as Lh.
    rewrite (col_edge d R F (h / 2) ltac:(lia) Lh). reflexivity.
  - intros h h' Hh Hh' X. exact (rank_inj_live (edel d) _ _ (U2 f A B h Hh) (U2 f A B h' Hh') X).
Qed.

(* ================================================================== fast mode: bijections *)

Lemma live_f_iff s f : live_f s f = true <-> f < nf s /\ f_deleted s f = false.
Proof. unfold live_f. rewrite andb_true_iff, Nat.ltb_lt, negb_true_iff. tauto. Qed.
Lemma live_e_iff s e : live_e s e = true <-> e < ne s /\ e_deleted s e = false.
Proof. unfold live_e. rewrite andb_true_iff, Nat.ltb_lt, negb_true_iff. tauto. Qed.

(* an injection of a duplicate-free list of n numbers into [0, n) hits every number below n *)
Lemma inj_onto (r : nat -> nat) (L : list nat) : NoDup L -> (forall i, In i L -> r i < length L) ->
  (forall i j, In i L -> In j L -> r i = r j -> i = j) -> forall k, k < length L -> exists i, In i L /\ r i = k.
Proof.
  intros ND Rg Inj k Hk.
  assert (NM : NoDup (map r L)) by (apply NoDup_map_inj_on; assumption).
  assert (Inc : incl (map r L) (seq 0 (length L))).
  { intros x Hx. apply in_map_iff in Hx. destruct Hx as [i [<- Hi]]. apply in_seq. specialize (Rg i Hi). lia. }
  assert (Back : incl (seq 0 (length L)) (map r L)).
  { apply NoDup_length_incl; [exact NM|rewrite map_length, seq_length; lia|exact Inc]. }
  specialize (Back k ltac:(apply in_seq; lia)). apply in_map_iff in Back. destruct Back as [i [E Hi]]. exists i. tauto.
Qed.

Theorem faces_from_gc_fast_post s t rv re rf rc : gc_fast_post s t rv re rf rc -> refs_ok s -> up_closed s -> faces_from s t.
Proof.
  intros (_ & _ & Nf & _ & _ & (_ & Ie) & (Rf & If) & _ & DE & DF & _) (_ & R2 & _) (_ & U2 & _).
  exists rv, re. intros f' Hf' _. rewrite Nf in Hf'.
  destruct (inj_onto rf (live_faces s) (NoDup_live_faces s)) with (k := f') as (f & Lf & <-).
  - intros i Hi. rewrite <- Nf. apply Rf. apply live_f_iff. apply In_live_faces. exact Hi.
  - intros i j Hi Hj. apply If; apply live_f_iff; apply In_live_faces; assumption.
  - exact Hf'.
  - apply In_live_faces in Lf. destruct Lf as [A B]. pose proof (proj2 (live_f_iff s f) (conj A B)) as Lv.
    exists f. split; [exact A|]. split; [exact B|]. split; [exact (DF f Lv)|].
    assert (LE : forall h, In h (face_at s f) -> live_e s (h / 2) = true).
    { intros h Hh. apply live_e_iff. pose proof (R2 f A B h Hh). split; [lia|exact (U2 f A B h Hh)]. }
    split.
    + intros h Hh. exact (DE (h / 2) (LE h Hh)).
    + intros h h' Hh Hh' X. exact (Ie _ _ (LE h Hh) (LE h' Hh') X).
Qed.
