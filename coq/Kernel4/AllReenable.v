(* Kernel4/AllReenable.v -- C12 along histories: RE-ENABLING the face / edge incidences re-establishes the invariant.
     enable_face_bottom_up_incidences(true), edge incidences off:  the recomputed halfface->cell map is exact because no halfface
        belongs to two live cells (cells_topo; Kernel/Reenable.v);
     enable_edge_bottom_up_incidences(true), face incidences off:  the recomputed lists are exact (Kernel/Reenable.v);
     enable_edge_bottom_up_incidences(true), face incidences ON:   the recomputed lists are exact and duplicate-free (faces simple),
        every live cell is closed (cells_topo + exact face incidences), so the re-ordering of every list that follows permutes it
        (Kernel2/ExactBase.v reorder_edges_keeps_slots_spec, resting on Kernel2/ReorderExact.v): exact, duplicate-free lists again.
   This is the _partial of Props/Properties_C12.v completed. *)
From Coq Require Import ZArith Lia Bool Arith List ZifyNat ZifyBool Permutation.
From OVM Require Import Base.ListX Base.ListLemmas Base.ListLemmas2 Kernel.State Kernel.Ops Kernel.Mirror Kernel.Recompute Kernel.Closure Kernel.ExactInv
                        Kernel.Sizes Kernel.Reenable Kernel.ShiftFace Kernel2.LookupModel Kernel2.AdjacentProofs Kernel2.ReorderExact Kernel2.ExactBase
                        Kernel2.ExactHistory Kernel3.GcDefs Kernel3.GcInv Kernel3.GcHist
                        Kernel4.AllDefs Kernel4.AllBridges Kernel4.AllFaces Kernel4.AllStepMisc Kernel4.AllCells.
Import ListNotations.
Ltac Zify.zify_post_hook ::= Z.div_mod_to_equations.
Local Open Scope nat_scope.

Lemma kview_of_core_eq s t : core_eq s t -> kview t = kview s /\ nv t = nv s /\ deferred t = deferred s.
Proof.
  intros (c1 & c2 & c3 & c4 & c5 & c6 & c7 & c8 & (n1 & n2 & n3 & n4) & (m1 & _) & _). unfold kview.
  rewrite c2, c3, c4, c5, c6, c7, c8, n1, n2, n3, n4. auto.
Qed.

Lemma cells_topo_core_eq s t : core_eq s t -> cells_topo s -> cells_topo t.
Proof. intros (_ & _ & c3 & c4 & _ & _ & _ & c8 & _). apply cells_topo_from. apply cells_from_same_all; assumption. Qed.

(* ================================================================== face incidences back on (edge incidences off) *)

Theorem reenable_fbu s : all_inv s -> cells_topo s -> fbu s = false -> ebu s = false ->
  all_inv (enable_fbu true s) /\ cells_topo (enable_fbu true s) /\ faces_from s (enable_fbu true s).
Proof.
  intros H T Fb E. pose proof (enable_fbu_effect true s) as Ef. cbv zeta in Ef. destruct Ef as (CE & f1 & f2 & f3 & f4 & f5). rewrite Fb in f5.
  destruct (kview_of_core_eq _ _ CE) as (KV & N & D). split; [|split; [exact (cells_topo_core_eq _ _ CE T)|exact (faces_from_kview _ _ KV)]].
  destruct (all_inv_bu_inv s H) as (VO & EO & FO & R & (L1 & L2 & L3 & L4 & L5 & L6)).
  pose proof CE as (c1 & c2 & c3 & c4 & c5 & c6 & c7 & c8 & _).
  apply (all_inv_frame s _ H KV N D); [| |apply szd_enable_fbu; exact (all_inv_szd s H)].
  - split; [|split; [|split; [exact (reenabled_face_incidences_exact s Fb (proj2 T))|split]]].
    + intros V v Hv h. unfold out_at, ne, e_deleted, he_from, edge_at. rewrite f4, c2, c6. rewrite f2 in V. rewrite c1 in Hv. exact (VO V v Hv h).
    + intros E'. congruence.
    + unfold refs_ok, ne, nf, nc, e_deleted, f_deleted, c_deleted, edge_at, face_at, cell_at. rewrite c1, c2, c3, c4, c6, c7, c8. exact R.
    + unfold lens_ok, ne, nf, nc. rewrite f2, f3, f4, f5, c1, c2, c3, c4, c6, c7, c8.
      split; [exact L1|]. split; [intros E'; congruence|]. split; [intros _; exact (proj1 (compute_fbu_first_live_cell s))|]. exact (conj L4 (conj L5 L6)).
  - intros E'. congruence.
Qed.

(* ================================================================== edge incidences back on, face incidences off *)

Theorem reenable_ebu_plain s : all_inv s -> cells_topo s -> ebu s = false -> fbu s = false ->
  all_inv (enable_ebu true s) /\ cells_topo (enable_ebu true s) /\ faces_from s (enable_ebu true s).
Proof.
  intros H T E Fb. pose proof (enable_ebu_effect_without_reorder true s (or_introl Fb)) as Ef. cbv zeta in Ef.
  destruct Ef as (CE & f1 & f2 & f3 & f4 & f5 & f6). rewrite E in f6.
  destruct (kview_of_core_eq _ _ CE) as (KV & N & D). split; [|split; [exact (cells_topo_core_eq _ _ CE T)|exact (faces_from_kview _ _ KV)]].
  destruct (all_inv_bu_inv s H) as (VO & EO & FO & R & (L1 & L2 & L3 & L4 & L5 & L6)).
  pose proof CE as (c1 & c2 & c3 & c4 & c5 & c6 & c7 & c8 & _).
  apply (all_inv_frame s _ H KV N D); [| |apply szd_enable_ebu; exact (all_inv_szd s H)].
  - split; [|split; [exact (reenabled_edge_incidences_exact_partial s E Fb)|split; [|split]]].
    + intros V v Hv h. unfold out_at, ne, e_deleted, he_from, edge_at. rewrite f4, c2, c6. rewrite f2 in V. rewrite c1 in Hv. exact (VO V v Hv h).
    + intros F'. congruence.
    + unfold refs_ok, ne, nf, nc, e_deleted, f_deleted, c_deleted, edge_at, face_at, cell_at. rewrite c1, c2, c3, c4, c6, c7, c8. exact R.
    + unfold lens_ok, ne, nf, nc. rewrite f2, f3, f4, f5, f6, c1, c2, c3, c4, c6, c7, c8.
      split; [exact L1|]. split; [intros _; exact (proj1 (compute_ebu_membership s))|]. split; [intros F'; congruence|]. exact (conj L4 (conj L5 L6)).
  - intros _ F'. congruence.
Qed.

(* ================================================================== the recomputed lists are duplicate-free *)

Lemma compute_ebu_nodup s : faces_simple s -> forall k, k < 2 * ne s -> NoDup (nth k (compute_ebu s) []).
Proof.
  intros FS.
  assert (P : eP s (live_faces s) (compute_ebu s) /\ forall k, k < 2 * ne s -> NoDup (nth k (compute_ebu s) [])).
  { change (compute_ebu s) with (fold_left (fun ll f => add_face_inc f (face_at s f) ll) (live_faces s) (repeat [] (2 * ne s))).
    apply (fold_left_prefix_inv (fun ll f => add_face_inc f (face_at s f) ll)
             (fun done ll => eP s done ll /\ forall k, k < 2 * ne s -> NoDup (nth k ll []))).
    - split; [split; [apply repeat_length|]|].
      + intros h Hh x. rewrite nth_repeat. simpl. tauto.
      + intros k Hk. rewrite nth_repeat. constructor.
    - intros done f acc [rest Hrest] [[HL HP] ND].
      assert (Lf : In f (live_faces s)) by (rewrite Hrest; apply in_or_app; right; left; reflexivity).
      assert (Nf : ~ In f done).
      { pose proof (NoDup_live_faces s) as N. rewrite Hrest in N. apply NoDup_remove_2 in N. intros X. apply N. apply in_or_app. left. exact X. }
      apply In_live_faces in Lf. destruct Lf as [Hf Hd]. destruct (FS f Hf Hd) as [Nh No]. rewrite add_face_inc_eq. split.
      + (* membership: as in compute_ebu_membership *)
        split; [rewrite fold_estep_in_length; exact HL|].
        intros h Hh x. rewrite fold_estep_in_spec by lia. rewrite (HP h Hh x), in_app_iff. split.
        * intros [[H1 H2]|[[-> Hx]|[-> Hx]]].
          -- split; [left; exact H1|exact H2].
          -- replace (2 * f / 2) with f by lia. split; [right; left; reflexivity|]. apply In_halfface.
             replace (2 * f / 2) with f by lia. replace (Nat.even (2 * f)) with true by (symmetry; rewrite even_mod2; apply Nat.eqb_eq; lia). exact Hx.
          -- replace ((2 * f + 1) / 2) with f by lia. split; [right; left; reflexivity|]. apply In_halfface.
             replace ((2 * f + 1) / 2) with f by lia. replace (Nat.even (2 * f + 1)) with false by (symmetry; rewrite even_mod2; apply Nat.eqb_neq; lia). exact Hx.
        * intros [[H1|[H1|[]]] H2].
          -- left. split; [exact H1|exact H2].
          -- right. apply In_halfface in H2. rewrite even_mod2 in H2. destruct (Nat.eqb_spec (x mod 2) 0).
             ++ left. split; [lia|]. rewrite H1. exact H2.
             ++ right. split; [lia|]. rewrite H1. exact H2.
      + intros k Hk. apply fold_estep_nodup; [rewrite HL; exact Hk|exact Nh|exact (ND k Hk)| |].
        * intros Hin. exfalso. apply (HP k Hk) in Hin. destruct Hin as [Hin _]. replace (2 * f / 2) with f in Hin by lia. exact (Nf Hin).
        * intros Hin. exfalso. apply (HP k Hk) in Hin. destruct Hin as [Hin _]. replace ((2 * f + 1) / 2) with f in Hin by lia. exact (Nf Hin). }
  exact (proj2 P).
Qed.

(* ================================================================== edge incidences back on, face incidences ON: re-ordering *)

Section ReorderOn.
Context (s : mesh) (H : all_inv s) (T : cells_topo s) (E : ebu s = false) (Fb : fbu s = true).

Let u := set_inc_hfs (compute_ebu s) s.
Let w := reorder_edges (live_edges u) u.

Lemma ro_result : enable_ebu true s = set_flags (vbu w) true (fbu w) (deferred w) (fast w) w.
Proof. unfold enable_ebu. rewrite E. cbn [andb negb]. change (fbu (set_inc_hfs (compute_ebu s) s)) with (fbu s). rewrite Fb. reflexivity. Qed.

Lemma ro_closed : live_cells_closed s.
Proof. destruct (all_inv_bu_inv s H) as (_ & _ & FO & R & _). exact (live_cells_closed_of_topo s Fb FO R T). Qed.

Lemma ro_spec_u : slots_spec u (P_live u).
Proof.
  intros k Hk. change (ne u) with (ne s) in Hk. change (hfs_at u k) with (nth k (compute_ebu s) []). split.
  - exact (compute_ebu_nodup s (all_inv_faces_simple s H) k Hk).
  - intros x. exact (proj2 (compute_ebu_membership s) k Hk x).
Qed.

Lemma ro_read_closed : cell_read_closed u.
Proof.
  intros x c Hx Hc Hd. destruct (all_inv_bu_inv s H) as (_ & _ & FO & _).
  destruct (proj1 (FO Fb x ltac:(change (nf u) with (nf s) in Hx; lia) c) Hc) as (A & B & C). split; [exact C|]. exact (ro_closed c A B).
Qed.

Lemma ro_feed : spec_feed u (P_live u).
Proof.
  intros k z c g Hz Hc Hd Hg. destruct (all_inv_bu_inv s H) as (_ & _ & FO & _).
  destruct (proj1 (FO Fb z ltac:(change (nf u) with (nf s) in Hz; lia) c) Hc) as (A & _).
  destruct (ginv_cells_ref_live s (all_inv_ginv s H) c g A Hd Hg) as [P Q]. split; intros X.
  - repeat split; assumption.
  - unfold P_live. rewrite opp_div2. repeat split; auto. apply In_halfface_opp. rewrite !opp_involutive. exact X.
Qed.

Lemma ro_spec_w : slots_spec w (P_live u).
Proof. exact (reorder_edges_keeps_slots_spec (live_edges u) (P_live u) u ro_spec_u (P_live_sound u) (P_live_sym u) ro_read_closed ro_feed). Qed.

Theorem reenable_ebu_reorder :
  all_inv (enable_ebu true s) /\ cells_topo (enable_ebu true s) /\ faces_from s (enable_ebu true s).
Proof.
  rewrite ro_result. destruct (reorder_edges_frame2 (live_edges u) u) as [x [Ex Lx]]. fold w in Ex.
  pose proof ro_spec_w as S. rewrite Ex in *. clear Ex. clearbody w.
  change (length (inc_hfs u)) with (length (compute_ebu s)) in Lx. rewrite (proj1 (compute_ebu_membership s)) in Lx.
  set (r := set_flags (vbu (set_inc_hfs x u)) true (fbu (set_inc_hfs x u)) (deferred (set_inc_hfs x u)) (fast (set_inc_hfs x u)) (set_inc_hfs x u)).
  assert (KV : kview r = kview s) by reflexivity.
  split; [|split; [apply (cells_topo_from s); [apply cells_from_same_all; reflexivity|exact T]|exact (faces_from_kview _ _ KV)]].
  destruct (all_inv_bu_inv s H) as (VO & EO & FO & R & (L1 & L2 & L3 & L4 & L5 & L6)).
  apply (all_inv_frame s r H KV eq_refl eq_refl).
  - split; [exact VO|]. split; [|split; [exact FO|split; [exact R|]]].
    + intros _ k Hk y. exact (proj2 (S k Hk) y).
    + split; [exact L1|]. split; [intros _; exact Lx|]. exact (conj L3 (conj L4 (conj L5 L6))).
  - intros _ _. split; [intros k Hk; exact (proj1 (S k Hk))|exact ro_closed].
  - unfold r. apply szd_set_flags. apply (szd_len_view s); [reflexivity|exact (all_inv_szd s H)].
Qed.
End ReorderOn.

(* ================================================================== the two re-enabling calls of the class *)

Theorem reenable_ebu s : all_inv s -> cells_topo s -> ebu s = false ->
  all_inv (enable_ebu true s) /\ cells_topo (enable_ebu true s) /\ faces_from s (enable_ebu true s).
Proof.
  intros H T E. destruct (fbu s) eqn:Fb; [exact (reenable_ebu_reorder s H T E Fb)|exact (reenable_ebu_plain s H T E Fb)].
Qed.
