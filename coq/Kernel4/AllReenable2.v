(* Kernel4/AllReenable2.v -- enable_face_bottom_up_incidences(true) while the EDGE incidences are on: the halfface->cell map is
   recomputed (exact: no halfface in two live cells), then every halfedge->halfface list is re-ordered.  The lists were exact
   (invariant) and duplicate-free (lists_nodup, tracked by Kernel4/AllNoDup*.v while the face incidences were off), every live
   cell is closed (cells_topo + exact face incidences), so the re-ordering permutes each list: the invariant holds again. *)
From Coq Require Import ZArith Lia Bool Arith List ZifyNat ZifyBool Permutation.
From OVM Require Import Base.ListX Base.ListLemmas Base.ListLemmas2 Kernel.State Kernel.Ops Kernel.Mirror Kernel.Recompute Kernel.Closure Kernel.ExactInv
                        Kernel.Sizes Kernel.Reenable Kernel.ShiftFace Kernel2.LookupModel Kernel2.AdjacentProofs Kernel2.ReorderExact Kernel2.ExactBase
                        Kernel2.ExactHistory Kernel3.GcDefs Kernel3.GcInv Kernel3.GcHist
                        Kernel4.AllDefs Kernel4.AllBridges Kernel4.AllFaces Kernel4.AllStepMisc Kernel4.AllCells Kernel4.AllReenable Kernel4.AllNoDupBase.
Import ListNotations.
Ltac Zify.zify_post_hook ::= Z.div_mod_to_equations.
Local Open Scope nat_scope.

Section FbuReorder.
Context (s : mesh) (H : all_inv s) (T : cells_topo s) (ND : hfs_nd s) (E : ebu s = true) (Fb : fbu s = false).

(* the state whose lists are re-ordered: face incidences recomputed, flag set *)
Let u := set_flags (vbu s) (ebu s) true (deferred s) (fast s) (set_inc_cell (compute_fbu s) s).
Let w := reorder_edges (live_edges u) u.

Lemma fr_result : enable_fbu true s = w.
Proof. unfold enable_fbu. rewrite Fb. cbn [andb negb]. change (ebu (set_flags _ _ _ _ _ _)) with (ebu s). rewrite E. reflexivity. Qed.

Lemma fr_fbu_ok : fbu_ok u.
Proof.
  intros _ hf Hhf c. change (cell_of u hf) with (nth hf (compute_fbu s) None). change (nf u) with (nf s) in Hhf.
  exact (compute_fbu_exact s (proj2 T) hf c Hhf).
Qed.

Lemma fr_refs : refs_ok u.
Proof. exact (proj1 (proj2 (proj2 (proj2 (all_inv_bu_inv s H))))). Qed.

Lemma fr_closed : live_cells_closed u.
Proof.
  apply (live_cells_closed_of_topo u eq_refl fr_fbu_ok fr_refs). apply (cells_topo_from s); [|exact T]. apply cells_from_same_all; reflexivity.
Qed.

Lemma fr_spec_u : slots_spec u (P_live u).
Proof.
  intros k Hk. change (ne u) with (ne s) in Hk. change (hfs_at u k) with (hfs_at s k). split; [exact (ND E k)|].
  destruct (all_inv_bu_inv s H) as (_ & EO & _). intros x. exact (EO E k Hk x).
Qed.

Lemma fr_read_closed : cell_read_closed u.
Proof.
  intros x c Hx Hc Hd. destruct (proj1 (fr_fbu_ok eq_refl x ltac:(lia) c) Hc) as (A & B & C). split; [exact C|exact (fr_closed c A B)].
Qed.

Lemma fr_feed : spec_feed u (P_live u).
Proof.
  intros k z c g Hz Hc Hd Hg. destruct (proj1 (fr_fbu_ok eq_refl z ltac:(lia) c) Hc) as (A & _).
  destruct (ginv_cells_ref_live s (all_inv_ginv s H) c g A Hd Hg) as [P Q]. split; intros X.
  - repeat split; assumption.
  - unfold P_live. rewrite opp_div2. repeat split; auto. apply In_halfface_opp. rewrite !opp_involutive. exact X.
Qed.

Lemma fr_spec_w : slots_spec w (P_live u).
Proof. exact (reorder_edges_keeps_slots_spec (live_edges u) (P_live u) u fr_spec_u (P_live_sound u) (P_live_sym u) fr_read_closed fr_feed). Qed.

Theorem reenable_fbu_reorder :
  all_inv (enable_fbu true s) /\ cells_topo (enable_fbu true s) /\ faces_from s (enable_fbu true s) /\
  out_hes (enable_fbu true s) = out_hes s /\ vbu (enable_fbu true s) = vbu s /\ ebu (enable_fbu true s) = true /\ all_nd (inc_hfs (enable_fbu true s)).
Proof.
  rewrite fr_result. destruct (reorder_edges_frame2 (live_edges u) u) as [x [Ex Lx]]. fold w in Ex.
  pose proof fr_spec_w as S. rewrite Ex in *. clear Ex. clearbody w.
  change (length (inc_hfs u)) with (length (inc_hfs s)) in Lx.
  destruct (all_inv_bu_inv s H) as (VO & EO & FO & R & (L1 & L2 & L3 & L4 & L5 & L6)). rewrite (L2 E) in Lx.
  set (r := set_inc_hfs x u).
  assert (KV : kview r = kview s) by reflexivity.
  split; [|split; [apply (cells_topo_from s); [apply cells_from_same_all; reflexivity|exact T]|split; [exact (faces_from_kview _ _ KV)|]]].
  - apply (all_inv_frame s r H KV eq_refl eq_refl).
    + split; [exact VO|]. split; [|split; [exact fr_fbu_ok|split; [exact R|]]].
      * intros _ k Hk y. exact (proj2 (S k Hk) y).
      * split; [exact L1|]. split; [intros _; exact Lx|]. split; [intros _; exact (proj1 (compute_fbu_first_live_cell s))|]. exact (conj L4 (conj L5 L6)).
    + intros _ _. split; [intros k Hk; exact (proj1 (S k Hk))|exact fr_closed].
    + unfold r, u. apply (szd_len_view s); [reflexivity|exact (all_inv_szd s H)].
  - split; [reflexivity|]. split; [reflexivity|]. split; [exact E|]. intros k. destruct (Nat.lt_ge_cases k (2 * ne s)) as [Hk|Hk].
    + exact (proj1 (S k Hk)).
    + change (NoDup (nth k x [])). rewrite nth_overflow by (rewrite Lx; exact Hk). constructor.
Qed.
End FbuReorder.
