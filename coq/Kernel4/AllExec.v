(* Kernel4/AllExec.v -- one valid call of the unified class (Kernel4/AllDefs.v all_op) keeps the cache part all_inv of the invariant
   and either appends to (additions) or renumbers (faces_from, Kernel4/AllFaces.v) the live faces.  The calls whose step needs the
   cell-topology part too (reenable_case: re-enabling edge / face incidences, add_cell while an incidence kind is off) are in
   Kernel4/AllReenable.v, AllReenable2.v, AllStepAddCell.v and are put together in Kernel4/AllHistory.v. *)
From Coq Require Import ZArith Lia Bool Arith List ZifyNat ZifyBool.
From OVM Require Import Base.ListX Base.ListLemmas Kernel.State Kernel.Ops Kernel.Mirror Kernel.Closure Kernel.ExactInv Kernel.ExactRun Kernel.Sizes
                        Kernel.SwapFaceCache Kernel.SwapEdgeCache Kernel.SwapVertexCache
                        Kernel.ShiftFace Kernel2.ExactBase Kernel2.ExactHistory Kernel3.FastHistory Kernel3.GcDefs Kernel3.GcHist
                        Kernel4.AllDefs Kernel4.AllBridges Kernel4.AllFaces Kernel4.AllStepAdd Kernel4.AllStepDel Kernel4.AllStepGc
                        Kernel4.AllStepSwap Kernel4.AllStepMisc.
Import ListNotations.
Local Open Scope nat_scope.

Definition is_addition (o : op) : bool :=
  match o with
  | AddVertex | AddVertices _ | AddEdge _ _ _ | AddFace _ _ | AddFaceV _ | AddCell _ _ => true
  | _ => false
  end.

(* ================================================================== one valid call *)

Theorem all_inv_exec s o : all_inv s -> all_op s o = true -> reenable_case s o = false -> valid_op s o = true -> valid_op2 s o = true ->
  all_inv (fst (exec s o)) /\ (is_addition o = false -> faces_from s (fst (exec s o))).
Proof.
  intros H G NR V V2. destruct o; try discriminate G; cbn [exec valid_op valid_op2 all_op reenable_case is_addition] in *.
  - (* add_vertex *) split; [|discriminate]. pose proof (all_inv_add_vertex s H) as T. destruct (add_vertex s). exact T.
  - split; [|discriminate]. apply all_inv_add_n_vertices. exact H.
  - split; [|discriminate]. apply andb_true_iff in V. destruct V as [V1 V3].
    pose proof (all_inv_add_edge s a b dup H V1 V3) as T. destruct (add_edge s a b dup). exact T.
  - split; [|discriminate]. apply andb_true_iff in V. destruct V as [_ V3].
    pose proof (all_inv_add_face s hes check H V3 V2) as T. destruct (add_face s hes check). exact T.
  - split; [|discriminate]. apply andb_true_iff in V. destruct V as [_ V3].
    pose proof (all_inv_add_face_v s vs H V3 V2) as T. destruct (add_face_v s vs). exact T.
  - (* add_cell, both incidence kinds on *) split; [|discriminate]. apply negb_false_iff in NR. apply andb_true_iff in NR. destruct NR as [E Fb].
    apply andb_true_iff in V2. destruct V2 as [V2 Vopp]. apply andb_true_iff in V2. destruct V2 as [Vchk Vfree]. subst check.
    pose proof (all_inv_add_cell s hfs H E Fb V Vfree Vopp) as T. destruct (add_cell s hfs true). exact T.
  - (* deletions *) cbn [fst]. apply live_v_lt in V. split; [apply all_inv_delete_vertex; assumption|intros _; apply (faces_from_delete s H); exact V].
  - cbn [fst]. apply live_e_lt in V. destruct V as [A B]. split; [apply all_inv_delete_edge; assumption|intros _; apply (faces_from_delete s H); exact A].
  - cbn [fst]. apply live_f_lt in V. destruct V as [A B]. split; [apply all_inv_delete_face; assumption|intros _; apply (faces_from_delete s H); exact A].
  - cbn [fst]. apply live_c_lt in V. destruct V as [A B]. split; [apply all_inv_delete_cell; assumption|intros _; apply (faces_from_delete s H); exact A].
  - (* swaps *) cbn [fst]. apply andb_true_iff in V. destruct V as [Va Vb]. apply Nat.ltb_lt in Va, Vb.
    destruct (all_inv_swap_vertex a b s H Va Vb) as [A B]. split; [exact A|intros _; exact B].
  - cbn [fst]. apply andb_true_iff in V. destruct V as [Va Vb]. apply Nat.ltb_lt in Va, Vb.
    destruct (all_inv_swap_edge a b s H Va Vb) as [A B]. split; [exact A|intros _; exact B].
  - cbn [fst]. apply andb_true_iff in V. destruct V as [Va Vb]. apply Nat.ltb_lt in Va, Vb.
    destruct (all_inv_swap_face a b s H Va Vb) as [A B]. split; [exact A|intros _; exact B].
  - cbn [fst]. apply andb_true_iff in V. destruct V as [Va Vb]. apply Nat.ltb_lt in Va, Vb.
    destruct (all_inv_swap_cell a b s H Va Vb) as [A B]. split; [exact A|intros _; exact B].
  - (* collect_garbage *) cbn [fst]. destruct (all_inv_collect_garbage s H) as [A B]. split; [exact A|intros _; exact B].
  - cbn [fst]. destruct (all_inv_clear clear_props s H) as [A B]. split; [exact A|intros _; exact B].
  - cbn [fst]. destruct (all_inv_enable_vbu b s H) as [A B]. split; [exact A|intros _; exact B].
  - (* enable_ebu *) cbn [fst]. destruct b; cbn [andb] in NR.
    + apply negb_false_iff in NR. rewrite (enable_ebu_on_noop s NR). split; [exact H|intros _; apply faces_from_refl].
    + destruct (all_inv_enable_ebu_off s H) as [A B]. split; [exact A|intros _; exact B].
  - cbn [fst]. destruct b; cbn [andb] in NR.
    + apply negb_false_iff in NR. rewrite (enable_fbu_on_noop s NR). split; [exact H|intros _; apply faces_from_refl].
    + destruct (all_inv_enable_fbu_off s H) as [A B]. split; [exact A|intros _; exact B].
  - cbn [fst]. destruct (all_inv_enable_deferred b s H) as [A B]. split; [exact A|intros _; exact B].
  - cbn [fst]. destruct (all_inv_enable_fast b s H) as [A B]. split; [exact A|intros _; exact B].
  - (* properties *) cbn [fst].
    match goal with |- all_inv ?t /\ _ => assert (Z : szd t) by (exact (szd_exec s (PropCreate k def) (all_inv_szd s H) eq_refl)) end.
    destruct (all_inv_set_props _ _ s H Z) as [A B]. split; [exact A|intros _; exact B].
  - cbn [fst].
    match goal with |- all_inv ?t /\ _ => assert (Z : szd t) by (exact (szd_exec s (PropSet k p i v) (all_inv_szd s H) V)) end.
    destruct (all_inv_set_props _ _ s H Z) as [A B]. split; [exact A|intros _; exact B].
  - cbn [fst].
    match goal with |- all_inv ?t /\ _ => assert (Z : szd t) by (exact (szd_exec s (PropDrop k p) (all_inv_szd s H) V)) end.
    destruct (all_inv_set_props _ _ s H Z) as [A B]. split; [exact A|intros _; exact B].
Qed.

