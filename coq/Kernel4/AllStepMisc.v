(* Kernel4/AllStepMisc.v -- the unified invariant all_inv through the operations that do not renumber anything:
   enable_fast_deletion, vertex incidences on/off, edge / face incidences OFF, clear, and the property operations. *)
From Coq Require Import ZArith Lia Bool Arith List ZifyNat ZifyBool.
From OVM Require Import Base.ListX Base.ListLemmas Kernel.State Kernel.Ops Kernel.Mirror Kernel.Closure Kernel.ExactInv Kernel.ExactRun Kernel.Sizes
                        Kernel.GcFacts Kernel.DeferredDelete Kernel.ShiftFace Kernel.ShiftCompose Kernel2.LookupModel Kernel2.ReorderExact Kernel2.ExactBase
                        Kernel3.FastDeferred Kernel3.FastHistory Kernel3.GcDefs Kernel3.GcInv Kernel3.GcHist
                        Kernel4.AllDefs Kernel4.AllBridges Kernel4.AllFaces.
Import ListNotations.
Local Open Scope nat_scope.

(* ================================================================== a frame lemma: definitions, flags, counters, deletion mode kept *)

Lemma faces_simple_kview s t : kview t = kview s -> faces_simple s -> faces_simple t.
Proof.
  unfold kview. intros E. injection E as _ e2 _ _ _ e6 _ _ _ _ _. unfold faces_simple, nf, f_deleted, face_at. rewrite e2, e6. tauto.
Qed.

Lemma no_flags_kview s t : kview t = kview s -> no_flags s /\ no_pending s -> no_flags t /\ no_pending t.
Proof.
  unfold kview. intros E. injection E as _ _ _ e4 e5 e6 e7 e8 e9 e10 e11.
  unfold no_flags, no_pending, v_deleted, e_deleted, f_deleted, c_deleted. rewrite e4, e5, e6, e7, e8, e9, e10, e11. tauto.
Qed.

Theorem all_inv_frame s t : all_inv s -> kview t = kview s -> nv t = nv s -> deferred t = deferred s ->
  bu_inv t -> gext t -> szd t -> all_inv t.
Proof.
  intros H KV N D B X Z. destruct (K_kview s t KV (all_inv_K s H)) as [U Cn].
  split; [exact (conj B (conj (proj1 Z) (conj U X)))|]. split; [exact Z|]. split; [exact (faces_simple_kview s t KV (all_inv_faces_simple s H))|].
  split; [exact Cn|]. intros Df. rewrite D in Df. exact (no_flags_kview s t KV (all_inv_quiet s H Df)).
Qed.

Lemma faces_from_kview s t : kview t = kview s -> faces_from s t.
Proof. unfold kview. intros E. injection E as e1 e2 _ _ _ e6 _ _ _ _ _. apply faces_from_same_flags; assumption. Qed.

(* ================================================================== enable_fast_deletion *)

Theorem all_inv_enable_fast b s : all_inv s -> all_inv (enable_fast b s) /\ faces_from s (enable_fast b s).
Proof.
  intros H. split; [|apply faces_from_same_flags; reflexivity]. unfold enable_fast. apply all_inv_set_modes; [exact H|]. exact (all_inv_quiet s H).
Qed.

(* ================================================================== vertex incidences *)

Lemma gext_out_hes x a s : gext s -> gext (set_flags a (ebu s) (fbu s) (deferred s) (fast s) (set_out_hes x s)).
Proof. intros X. exact X. Qed.

Theorem all_inv_enable_vbu b s : all_inv s -> all_inv (enable_vbu b s) /\ faces_from s (enable_vbu b s).
Proof.
  intros H. pose proof (kview_enable_vbu b s) as KV. split; [|exact (faces_from_kview _ _ KV)].
  pose proof (all_inv_ginv s H) as (_ & _ & _ & X).
  apply (all_inv_frame s _ H KV).
  - unfold enable_vbu. destruct b; destruct (vbu s); reflexivity.
  - unfold enable_vbu. destruct b; destruct (vbu s); reflexivity.
  - apply bu_inv_enable_vbu. exact (all_inv_bu_inv s H).
  - unfold enable_vbu. destruct b; destruct (vbu s); cbn [andb negb]; exact X.
  - apply szd_enable_vbu. exact (all_inv_szd s H).
Qed.

(* ================================================================== edge / face incidences off *)

Theorem all_inv_enable_ebu_off s : all_inv s -> all_inv (enable_ebu false s) /\ faces_from s (enable_ebu false s).
Proof.
  intros H. assert (KV : kview (enable_ebu false s) = kview s) by reflexivity. split; [|exact (faces_from_kview _ _ KV)].
  destruct (all_inv_bu_inv s H) as (VO & EO & FO & R & (L1 & L2 & L3 & L4 & L5 & L6)).
  apply (all_inv_frame s _ H KV); [reflexivity|reflexivity| | |apply szd_enable_ebu; exact (all_inv_szd s H)].
  - unfold enable_ebu. cbn [andb negb]. split; [exact VO|]. split; [intros E; discriminate E|]. split; [exact FO|]. split; [exact R|].
    split; [exact L1|]. split; [intros E; discriminate E|]. split; [exact L3|]. exact (conj L4 (conj L5 L6)).
  - intros E. discriminate E.
Qed.

Theorem all_inv_enable_fbu_off s : all_inv s -> all_inv (enable_fbu false s) /\ faces_from s (enable_fbu false s).
Proof.
  intros H. assert (KV : kview (enable_fbu false s) = kview s) by reflexivity. split; [|exact (faces_from_kview _ _ KV)].
  destruct (all_inv_bu_inv s H) as (VO & EO & FO & R & (L1 & L2 & L3 & L4 & L5 & L6)).
  apply (all_inv_frame s _ H KV); [reflexivity|reflexivity| | |apply szd_enable_fbu; exact (all_inv_szd s H)].
  - unfold enable_fbu. cbn [andb negb]. split; [exact VO|]. split; [exact EO|]. split; [intros E; discriminate E|]. split; [exact R|].
    split; [exact L1|]. split; [exact L2|]. split; [intros E; discriminate E|]. exact (conj L4 (conj L5 L6)).
  - intros _ E. discriminate E.
Qed.

(* ================================================================== clear *)

Theorem all_inv_clear cp s : all_inv s -> all_inv (clear_mesh cp s) /\ faces_from s (clear_mesh cp s).
Proof.
  intros H. split; [|apply faces_from_empty; reflexivity]. apply all_inv_of_fast_inv.
  - apply fast_inv_clear.
  - apply szd_clear. exact (all_inv_szd s H).
  - intros f Hf. unfold nf, clear_mesh in Hf. cbn in Hf. lia.
Qed.

(* ================================================================== property operations *)

Theorem all_inv_set_props k x s : all_inv s -> szd (set_props k x s) -> all_inv (set_props k x s) /\ faces_from s (set_props k x s).
Proof.
  intros (I & _ & FS & Cn & Q) Z. split; [|apply faces_from_same_flags; reflexivity].
  split; [exact I|]. split; [exact Z|]. split; [exact FS|]. split; [exact Cn|exact Q].
Qed.

(* ================================================================== switching on a kind that is on: nothing happens *)

Lemma enable_ebu_on_noop s : ebu s = true -> enable_ebu true s = s.
Proof. destruct s. cbn. intros ->. reflexivity. Qed.

Lemma enable_fbu_on_noop s : fbu s = true -> enable_fbu true s = s.
Proof. destruct s. cbn. intros ->. reflexivity. Qed.
