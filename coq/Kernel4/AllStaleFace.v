(* Kernel4/AllStaleFace.v -- swap_face_indices with deferred-deleted cells that MENTION the swapped faces (the situation of known
   finding D13: the cache-guided loop does not find them, their stored definitions go stale).  The invariant ginv asks nothing of
   the stored definition of a flagged cell, and it survives:
     - ginv does not read the definitions of flagged cells (ginv_cells_ext);
     - swap_face_indices reads the cell definitions only in its first loop, and that loop treats the live cells alike whatever
       the flagged ones contain (sf_cells1_agree);
     - so the swapped state is the swapped state of the mesh with the flagged cells' definitions emptied - where no flagged cell
       mentions anything and Kernel3/GcFastFaceSwap.v applies - up to the definitions of flagged cells. *)
From Coq Require Import ZArith Lia Bool Arith List ZifyNat ZifyBool.
From OVM Require Import Base.ListX Base.ListLemmas Kernel.State Kernel.Ops Kernel.Mirror Kernel.Closure Kernel.ExactInv Kernel.SwapEffects
                        Kernel.SwapFaceCache Kernel.ShiftFace Kernel2.LookupModel Kernel2.AdjacentProofs Kernel2.ReorderExact Kernel2.ExactBase Kernel2.ExactHistory
                        Kernel3.GcDefs Kernel3.GcInv Kernel3.GcFastBase Kernel3.GcFastFaceSwap.
Import ListNotations.
Ltac Zify.zify_post_hook ::= Z.div_mod_to_equations.
Local Open Scope nat_scope.

(* ================================================================== ginv does not read flagged cells *)

Definition cells_agree (t : mesh) (C : list (list nat)) : Prop :=
  length C = nc t /\ forall c, c < nc t -> c_deleted t c = false -> nth c C [] = cell_at t c.

Lemma closed_cell_cells_ext t C c : cells_agree t C -> c < nc t -> c_deleted t c = false -> closed_cell t c -> closed_cell (set_cells C t) c.
Proof.
  intros [L A] Hc Hd Cl. apply (closed_cell_ext t (set_cells C t) c); [exact (A c Hc Hd)| |exact Cl].
  intros g _. split; reflexivity.
Qed.

Theorem ginv_cells_ext t C : cells_agree t C -> ginv t -> ginv (set_cells C t).
Proof.
  intros Ag ((VO & EO & FO & (R1 & R2 & R3) & (L1 & L2 & L3 & L4 & L5 & L6)) & LV & (U1 & U2 & U3) & X). pose proof Ag as [L A].
  set (t' := set_cells C t).
  assert (NC : nc t' = nc t) by exact L.
  assert (CA : forall c, c < nc t -> c_deleted t c = false -> cell_at t' c = cell_at t c) by exact A.
  split; [|split; [exact LV|split]].
  - split; [exact VO|]. split; [exact EO|]. split; [|split; [split; [exact R1|split; [exact R2|]]|]].
    + intros Fb hf Hhf c. change (cell_of t' hf) with (cell_of t hf). change (c_deleted t' c) with (c_deleted t c). rewrite NC.
      rewrite (FO Fb hf Hhf c). split; intros (P & Q & Rr); (split; [exact P|split; [exact Q|]]); [rewrite (CA c P Q)|rewrite <- (CA c P Q)]; exact Rr.
    + intros c Hc Hd hf Hhf. rewrite NC in Hc. change (c_deleted t c = false) in Hd. rewrite (CA c Hc Hd) in Hhf. exact (R3 c Hc Hd hf Hhf).
    + split; [exact L1|]. split; [exact L2|]. split; [exact L3|]. split; [exact L4|]. split; [exact L5|]. change (length (cdel t) = nc t'). rewrite NC. exact L6.
  - split; [exact U1|split; [exact U2|]]. intros c Hc Hd hf Hhf. rewrite NC in Hc. change (c_deleted t c = false) in Hd. rewrite (CA c Hc Hd) in Hhf.
    exact (U3 c Hc Hd hf Hhf).
  - intros E Fb. destruct (X E Fb) as [SN LC]. split; [exact SN|]. intros c Hc Hd. rewrite NC in Hc. change (c_deleted t c = false) in Hd.
    apply closed_cell_cells_ext; [exact Ag|exact Hc|exact Hd|exact (LC c Hc Hd)].
Qed.

(* the mesh with the definitions of the flagged cells emptied *)
Definition scrub_cells (s : mesh) : list (list nat) := map (fun c => if c_deleted s c then [] else cell_at s c) (seq 0 (nc s)).

Lemma nth_scrub_cells s c : nth c (scrub_cells s) [] = if c <? nc s then (if c_deleted s c then [] else cell_at s c) else [].
Proof.
  unfold scrub_cells. destruct (Nat.ltb_spec c (nc s)) as [H|H].
  - rewrite (GcFastBase.nth_map_in _ (seq 0 (nc s)) c 0 []) by (rewrite seq_length; exact H). rewrite seq_nth by exact H. reflexivity.
  - apply nth_overflow. rewrite map_length, seq_length. exact H.
Qed.

Lemma scrub_cells_agree s : cells_agree s (scrub_cells s).
Proof.
  split; [unfold scrub_cells; rewrite map_length, seq_length; reflexivity|].
  intros c Hc Hd. rewrite nth_scrub_cells. replace (c <? nc s) with true by (symmetry; apply Nat.ltb_lt; exact Hc). rewrite Hd. reflexivity.
Qed.

Lemma scrub_no_deleted_cell_lists s a b : no_deleted_cell_lists (set_cells (scrub_cells s) s) a b.
Proof.
  intros c Hc Hd hf Hhf. exfalso. change (c_deleted s c = true) in Hd. unfold cell_at in Hhf. cbn [cells set_cells] in Hhf.
  rewrite nth_scrub_cells, Hd in Hhf. destruct (c <? nc s); destruct Hhf.
Qed.

(* ================================================================== the swap, split at its only read of the cell definitions *)

Definition sf_step (a b : nat) (s : mesh) (acc : list (list nat) * list nat) (hfh : nat) : list (list nat) * list nat :=
  let '(cs, done) := acc in
  match cell_of s hfh with
  | None => acc
  | Some ch => if memb ch done then acc else (upd ch (map (swap_half a b) (nth ch cs [])) cs, ch :: done)
  end.

Definition sf_cells1 (a b : nat) (s : mesh) : list (list nat) :=
  if fbu s then fst (fold_left (sf_step a b s) [2 * a; 2 * a + 1; 2 * b; 2 * b + 1] (cells s, []))
  else map (map (swap_half a b)) (cells s).

Definition sf_rest (a b : nat) (X : list (list nat)) (s : mesh) : mesh :=
  let sw := swap_half a b in
  let s1 := set_cells X s in
  let inc1 :=
    if ebu s1 then
      let step (acc : list (list nat) * list nat) (heh : nat) :=
          let '(ll, done) := acc in
          if memb heh done then acc else (map_at heh sw ll, heh :: done) in
      let hes := halfface s1 (2 * a) ++ halfface s1 (2 * a + 1) ++ halfface s1 (2 * b) ++ halfface s1 (2 * b + 1) in
      fst (fold_left step hes (inc_hfs s1, []))
    else inc_hfs s1 in
  let s2 := set_inc_hfs inc1 s1 in
  let s3 := set_fdel (swap_nth a b false (fdel s2)) (set_faces (swap_nth a b [] (faces s2)) s2) in
  let s4 := if fbu s3 then
              set_inc_cell (swap_nth (2 * a + 1) (2 * b + 1) None (swap_nth (2 * a) (2 * b) None (inc_cell s3))) s3
            else s3 in
  swap_prop_elems KHF (2 * a + 1) (2 * b + 1)
    (swap_prop_elems KHF (2 * a) (2 * b) (swap_prop_elems KF a b s4)).

Lemma swap_face_split a b s : a <> b -> swap_face_indices a b s = sf_rest a b (sf_cells1 a b s) s.
Proof. intros N. unfold swap_face_indices. rewrite (proj2 (Nat.eqb_neq a b) N). reflexivity. Qed.

Lemma sf_rest_set_cells a b X Y s : sf_rest a b X (set_cells Y s) = sf_rest a b X s.
Proof. reflexivity. Qed.

Ltac rsf := cbn [set_nv set_edges set_faces set_cells set_vdel set_edel set_fdel set_cdel set_counts set_flags
                set_out_hes set_inc_hfs set_inc_cell set_props swap_prop_elems props
                nv edges faces cells vdel edel fdel cdel ndv nde ndf ndc vbu ebu fbu deferred fast
                out_hes inc_hfs inc_cell pv pe phe pf phf pc pm].

Lemma sf_rest_cells a b X X' s : sf_rest a b X s = set_cells X (sf_rest a b X' s).
Proof. unfold sf_rest. cbv zeta. rsf. destruct (ebu s); destruct (fbu s); reflexivity. Qed.

Lemma cells_sf_rest a b X s : cells (sf_rest a b X s) = X.
Proof. unfold sf_rest. cbv zeta. rsf. destruct (ebu s); destruct (fbu s); reflexivity. Qed.

(* ================================================================== the first loop treats the live cells alike *)

Definition agree_live (s : mesh) (C D : list (list nat)) : Prop :=
  length C = length D /\ forall c, c_deleted s c = false -> nth c C [] = nth c D [].

Lemma agree_live_upd s C D ch : agree_live s C D -> forall g, agree_live s (upd ch (g (nth ch C [])) C) (upd ch (g (nth ch D [])) D).
Proof.
  intros [L A] g. split; [rewrite !upd_length; exact L|]. intros c Hd. rewrite !nth_upd, L.
  destruct ((ch =? c) && (ch <? length D)) eqn:E; [|exact (A c Hd)].
  apply andb_true_iff in E. destruct E as [E _]. apply Nat.eqb_eq in E. subst ch. rewrite (A c Hd). reflexivity.
Qed.

Lemma sf_fold_agree a b s t l : cell_of t = cell_of s -> forall C D done, agree_live s C D ->
  agree_live s (fst (fold_left (sf_step a b s) l (C, done))) (fst (fold_left (sf_step a b t) l (D, done))) /\
  snd (fold_left (sf_step a b s) l (C, done)) = snd (fold_left (sf_step a b t) l (D, done)).
Proof.
  intros CO. induction l as [|x l IH]; intros C D done Ag; [split; [exact Ag|reflexivity]|]. cbn [fold_left].
  change (sf_step a b s (C, done) x) with (match cell_of s x with None => (C, done) | Some ch => if memb ch done then (C, done) else (upd ch (map (swap_half a b) (nth ch C [])) C, ch :: done) end).
  change (sf_step a b t (D, done) x) with (match cell_of t x with None => (D, done) | Some ch => if memb ch done then (D, done) else (upd ch (map (swap_half a b) (nth ch D [])) D, ch :: done) end).
  rewrite CO. destruct (cell_of s x) as [ch|]; [|apply IH; exact Ag].
  destruct (memb ch done); [apply IH; exact Ag|]. apply IH. exact (agree_live_upd s C D ch Ag (map (swap_half a b))).
Qed.

Lemma sf_cells1_agree a b s Y : agree_live s (cells s) Y -> agree_live s (sf_cells1 a b s) (sf_cells1 a b (set_cells Y s)).
Proof.
  intros Ag. unfold sf_cells1. change (fbu (set_cells Y s)) with (fbu s). destruct (fbu s).
  - exact (proj1 (sf_fold_agree a b s (set_cells Y s) _ eq_refl (cells s) Y [] Ag)).
  - destruct Ag as [L A]. split; [rewrite !map_length; exact L|]. intros c Hd.
    change (@nil nat) with (map (swap_half a b) []). rewrite !map_nth. f_equal. exact (A c Hd).
Qed.

(* ================================================================== ginv through any face swap *)

Theorem ginv_swap_face_any a b s : ginv s -> a < nf s -> b < nf s ->
  ginv (swap_face_indices a b s) /\
  (forall c, c < nc s -> c_deleted s c = false -> cell_at (swap_face_indices a b s) c = map (swap_half a b) (cell_at s c)) /\
  nc (swap_face_indices a b s) = nc s.
Proof.
  intros I Ha Hb. destruct (Nat.eq_dec a b) as [->|N].
  { rewrite swap_face_self. split; [exact I|]. split; [|reflexivity]. intros c _ _. symmetry. apply ShiftFace.map_id_on. intros x _.
    unfold swap_half. destruct (x / 2 =? b) eqn:E; [apply Nat.eqb_eq in E; lia|reflexivity]. }
  set (Y := scrub_cells s). set (sY := set_cells Y s).
  pose proof (scrub_cells_agree s) as AgY. pose proof (ginv_cells_ext s Y AgY I) as IY. fold sY in IY.
  pose proof IY as ((VO & EO & FO & R & L) & _).
  assert (IT : ginv (swap_face_indices a b sY)).
  { rewrite (swap_face_exact_relabeling a b sY N Ha Hb FO EO L (scrub_no_deleted_cell_lists s a b)). apply ginv_face_relabeled; assumption. }
  pose proof (swap_face_exact_relabeling a b sY N Ha Hb FO EO L (scrub_no_deleted_cell_lists s a b)) as Rl.
  assert (E : swap_face_indices a b s = set_cells (sf_cells1 a b s) (swap_face_indices a b sY)).
  { rewrite (swap_face_split a b s N), (swap_face_split a b sY N). unfold sY at 2. rewrite sf_rest_set_cells. apply sf_rest_cells. }
  assert (AL : agree_live s (sf_cells1 a b s) (sf_cells1 a b sY)).
  { apply sf_cells1_agree. destruct AgY as [LY AY]. split; [symmetry; exact LY|]. intros c Hd.
    destruct (Nat.lt_ge_cases c (nc s)) as [Hc|Hc]; [symmetry; exact (AY c Hc Hd)|].
    rewrite (nth_overflow (cells s)) by exact Hc. rewrite (nth_overflow Y) by (unfold Y; rewrite LY; exact Hc). reflexivity. }
  destruct AL as [LL AL].
  assert (CE : cells (swap_face_indices a b sY) = sf_cells1 a b sY) by (rewrite (swap_face_split a b sY N); apply cells_sf_rest).
  assert (CD : cdel (swap_face_indices a b sY) = cdel s).
  { pose proof (swap_face_effect a b sY N) as Ef. cbv zeta in Ef. destruct Ef as (_ & _ & _ & _ & _ & _ & _ & _ & e9 & _). exact e9. }
  assert (NCY : nc (swap_face_indices a b sY) = nc s).
  { rewrite Rl. unfold nc, face_relabeled. cbn [cells]. rewrite map_length. exact (proj1 AgY). }
  rewrite E. split; [|split].
  - apply ginv_cells_ext; [|exact IT]. split.
    + unfold nc. rewrite CE. exact LL.
    + intros c _ Hd. unfold cell_at. rewrite CE. apply AL. unfold c_deleted in *. rewrite CD in Hd. exact Hd.
  - intros c Hc Hd. change (cell_at (set_cells (sf_cells1 a b s) (swap_face_indices a b sY)) c) with (nth c (sf_cells1 a b s) []).
    rewrite (AL c Hd), <- CE. fold (cell_at (swap_face_indices a b sY) c). rewrite Rl. unfold cell_at, face_relabeled. cbn [cells].
    change (@nil nat) with (map (swap_half a b) []) at 1. rewrite map_nth. f_equal.
    change (nth c Y [] = nth c (cells s) []). exact (proj2 AgY c Hc Hd).
  - change (length (sf_cells1 a b s) = nc s). rewrite LL. unfold nc in NCY. rewrite CE in NCY. exact NCY.
Qed.
