(* Kernel4/AllFaces.v -- the two per-face properties of the unified history theorem travel through every renumbering:
     faces_simple  (a live face lists no halfedge twice and none with its opposite)           - part of all_inv,
     faces_closed  (every live face is a closed loop of halfedges: C08's closedness)          - C08 "closedness through renumbering".
   faces_from s t: there are a vertex map gv and an edge map ge such that every LIVE face of t is the image  map (r2 ge)  of a live
   face of s, the edges of that face are carried to edges whose endpoints are the gv-images, and ge is injective on the edges of
   the face.  Both properties are preserved along faces_from (faces_simple_from, faces_closed_from); the instances for the
   individual operations are in Kernel4/AllFacesOps.v. *)
From Coq Require Import ZArith Lia Bool Arith List ZifyNat ZifyBool.
From OVM Require Import Base.ListX Base.ListLemmas Kernel.State Kernel.Ops Kernel.Mirror Kernel.Recompute Kernel.Closure
                        Kernel.ShiftFace Kernel2.ExactBase Kernel3.GcFastBase Kernel4.AllDefs.
Import ListNotations.
Ltac Zify.zify_post_hook ::= Z.div_mod_to_equations.
Local Open Scope nat_scope.

(* ================================================================== one face *)

Lemma he_to_cases s h : he_to s h = if h mod 2 =? 0 then snd (edge_at s (h / 2)) else fst (edge_at s (h / 2)).
Proof. unfold he_to. rewrite even_mod2. destruct (edge_at s (h / 2)). destruct (h mod 2 =? 0); reflexivity. Qed.

Definition edges_follow (s t : mesh) (gv ge : nat -> nat) (l : list nat) : Prop :=
  forall h, In h l -> edge_at t (ge (h / 2)) = (gv (fst (edge_at s (h / 2))), gv (snd (edge_at s (h / 2)))).

Definition inj_on_edges (ge : nat -> nat) (l : list nat) : Prop :=
  forall h h', In h l -> In h' l -> ge (h / 2) = ge (h' / 2) -> h / 2 = h' / 2.

Lemma r2_inj_on ge l h h' : inj_on_edges ge l -> In h l -> In h' l -> r2 ge h = r2 ge h' -> h = h'.
Proof.
  intros I Hh Hh' E. assert (A : ge (h / 2) = ge (h' / 2)) by (rewrite <- !r2_div2; rewrite E; reflexivity).
  assert (B : h mod 2 = h' mod 2) by (rewrite <- (r2_mod2 ge h), <- (r2_mod2 ge h'), E; reflexivity).
  pose proof (I h h' Hh Hh' A). lia.
Qed.

Lemma r2_opp ge h : r2 ge (opp h) = opp (r2 ge h).
Proof. rewrite (opp_spec (r2 ge h)), r2_div2, r2_mod2. unfold r2. rewrite opp_div2, opp_mod2. reflexivity. Qed.

Lemma simple_hes_map ge l : inj_on_edges ge l -> simple_hes l -> simple_hes (map (r2 ge) l).
Proof.
  intros I [ND NO]. split.
  - apply NoDup_map_inj_on; [exact ND|]. intros x y Hx Hy E. exact (r2_inj_on ge l x y I Hx Hy E).
  - intros g Hg Ho. apply in_map_iff in Hg. destruct Hg as [h [<- Hh]]. apply in_map_iff in Ho. destruct Ho as [h' [E Hh']].
    rewrite <- r2_opp in E.
    assert (A : ge (h' / 2) = ge (opp h / 2)) by (rewrite <- !r2_div2; rewrite E; reflexivity).
    assert (B : h' mod 2 = opp h mod 2) by (rewrite <- (r2_mod2 ge h'), <- (r2_mod2 ge (opp h)), E; reflexivity).
    rewrite opp_div2 in A. pose proof (I h' h Hh' Hh A) as C. rewrite opp_mod2 in B.
    assert (h' = opp h) by (rewrite opp_spec; lia). subst h'. exact (NO h Hh Hh').
Qed.

Lemma he_ends_follow s t gv ge l h : edges_follow s t gv ge l -> In h l ->
  he_from t (r2 ge h) = gv (he_from s h) /\ he_to t (r2 ge h) = gv (he_to s h).
Proof.
  intros F Hh. rewrite !he_from_cases, !he_to_cases, r2_div2, r2_mod2, (F h Hh). cbn [fst snd].
  destruct (h mod 2 =? 0); split; reflexivity.
Qed.

Lemma closed_cycle_map s t gv ge l : edges_follow s t gv ge l -> closed_cycle s l -> closed_cycle t (map (r2 ge) l).
Proof.
  intros F [Hne H]. split; [destruct l; [congruence|discriminate]|]. rewrite map_length. intros i Hi.
  set (j := if S i =? length l then 0 else S i).
  assert (Hj : j < length l) by (unfold j; destruct (Nat.eqb_spec (S i) (length l)); lia).
  rewrite (nth_map_in (r2 ge) l i 0 0 Hi), (nth_map_in (r2 ge) l j 0 0 Hj).
  destruct (he_ends_follow s t gv ge l (nth i l 0) F (nth_In l 0 Hi)) as [_ A].
  destruct (he_ends_follow s t gv ge l (nth j l 0) F (nth_In l 0 Hj)) as [B _].
  rewrite A, B. f_equal. exact (H i Hi).
Qed.

(* ================================================================== all live faces *)

Definition face_from (s t : mesh) (gv ge : nat -> nat) (f' : nat) : Prop :=
  exists f, f < nf s /\ f_deleted s f = false /\ face_at t f' = map (r2 ge) (face_at s f) /\
            edges_follow s t gv ge (face_at s f) /\ inj_on_edges ge (face_at s f).

Definition faces_from (s t : mesh) : Prop :=
  exists gv ge, forall f', f' < nf t -> f_deleted t f' = false -> face_from s t gv ge f'.

Theorem faces_simple_from s t : faces_from s t -> faces_simple s -> faces_simple t.
Proof.
  intros (gv & ge & H) FS f' Hf Hd. destruct (H f' Hf Hd) as (f & A & B & C & _ & I). rewrite C.
  apply simple_hes_map; [exact I|exact (FS f A B)].
Qed.

Theorem faces_closed_from s t : faces_from s t -> faces_closed s -> faces_closed t.
Proof.
  intros (gv & ge & H) FC f' Hf Hd. destruct (H f' Hf Hd) as (f & A & B & C & F & _). rewrite C.
  apply (closed_cycle_map s t gv ge); [exact F|exact (FC f A B)].
Qed.

(* ---- the identity instance: definitions of edges and faces untouched, no face revived *)
Lemma map_r2_id l : map (r2 (fun i => i)) l = l.
Proof. apply map_id_on. intros x _. apply r2_id. Qed.

Theorem faces_from_same s t : edges t = edges s -> faces t = faces s ->
  (forall f, f < nf s -> f_deleted t f = false -> f_deleted s f = false) -> faces_from s t.
Proof.
  intros E Fa D. exists (fun v => v), (fun e => e). intros f' Hf Hd. unfold nf in Hf. rewrite Fa in Hf. exists f'.
  split; [exact Hf|]. split; [exact (D f' Hf Hd)|]. split; [unfold face_at; rewrite Fa, map_r2_id; reflexivity|]. split.
  - intros h _. unfold edge_at. rewrite E. destruct (nth (h / 2) (edges s) (0, 0)); reflexivity.
  - intros h h' _ _ X. exact X.
Qed.

Lemma faces_from_same_flags s t : edges t = edges s -> faces t = faces s -> fdel t = fdel s -> faces_from s t.
Proof. intros E Fa D. apply faces_from_same; [exact E|exact Fa|]. intros f _. unfold f_deleted. rewrite D. tauto. Qed.

Lemma faces_from_empty s t : nf t = 0 -> faces_from s t.
Proof. intros N. exists (fun v => v), (fun e => e). intros f' Hf. lia. Qed.

(* ================================================================== growth: the old faces stay, one face may be appended *)

(* t has the edges of s, possibly more; the faces of s, possibly one more (hes); flags of the old faces unchanged *)
Definition faces_grow (s t : mesh) (P : mesh -> list nat -> Prop) : Prop :=
  (forall e, e < ne s -> edge_at t e = edge_at s e) /\
  (forall f, f < nf s -> face_at t f = face_at s f /\ f_deleted t f = f_deleted s f) /\
  (forall f, nf s <= f -> f < nf t -> f_deleted t f = false -> P t (face_at t f)).

Lemma closed_cycle_same_edges s t l : (forall h, In h l -> edge_at t (h / 2) = edge_at s (h / 2)) -> closed_cycle s l -> closed_cycle t l.
Proof.
  intros E C. rewrite <- (map_r2_id l). apply (closed_cycle_map s t (fun v => v) (fun e => e)); [|exact C].
  intros h Hh. rewrite (E h Hh). destruct (edge_at s (h / 2)); reflexivity.
Qed.

Theorem faces_simple_grow s t : faces_grow s t (fun _ l => simple_hes l) -> faces_simple s -> faces_simple t.
Proof.
  intros (_ & O & N) FS f Hf Hd. destruct (Nat.lt_ge_cases f (nf s)) as [Hl|Hg].
  - destruct (O f Hl) as [A B]. rewrite A. apply FS; [exact Hl|congruence].
  - exact (N f Hg Hf Hd).
Qed.

Theorem faces_closed_grow s t : (forall f, f < nf s -> f_deleted s f = false -> forall h, In h (face_at s f) -> h / 2 < ne s) ->
  faces_grow s t closed_cycle -> faces_closed s -> faces_closed t.
Proof.
  intros R (E & O & N) FC f Hf Hd. destruct (Nat.lt_ge_cases f (nf s)) as [Hl|Hg].
  - destruct (O f Hl) as [A B]. rewrite A. rewrite B in Hd. apply (closed_cycle_same_edges s t); [|exact (FC f Hl Hd)].
    intros h Hh. apply E. exact (R f Hl Hd h Hh).
  - exact (N f Hg Hf Hd).
Qed.
