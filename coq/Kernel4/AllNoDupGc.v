(* Kernel4/AllNoDupGc.v -- the cache lists stay duplicate-free through collect_garbage (hence through enable_deferred false).
   Fast mode: every core is unconditional.  Index-shifting mode: the face and edge passes mirror the inductions of
   Kernel3/GcFace.v / GcEdge.v (the invariant ginv of every intermediate state comes from gc_face_step / gc_edge_step); the
   handles of a FLAGGED face / edge are in no list at all, because the caches are exact w.r.t. the live entities. *)
From Coq Require Import ZArith Lia Bool Arith List ZifyNat ZifyBool.
From OVM Require Import Base.ListX Base.ListLemmas Base.ListLemmas2 Kernel.State Kernel.Ops Kernel.Mirror Kernel.Recompute Kernel.Closure Kernel.ExactInv Kernel.ExactDelete
                        Kernel.GcFacts Kernel.DeferredDelete Kernel.ShiftFace Kernel.ShiftEdge Kernel.ShiftVertex Kernel.ShiftCompose
                        Kernel2.ReorderExact Kernel2.ExactBase Kernel3.FastDefs Kernel3.FastBase Kernel3.FastEdge
                        Kernel3.GcDefs Kernel3.GcList Kernel3.GcInv Kernel3.GcCell Kernel3.GcFace Kernel3.GcEdge Kernel3.GcVertex Kernel3.GcMain
                        Kernel4.AllDefs Kernel4.AllNoDupBase Kernel4.AllNoDupCores Kernel4.AllNoDupDel.
Import ListNotations.
Ltac Zify.zify_post_hook ::= Z.div_mod_to_equations.
Local Open Scope nat_scope.

(* ================================================================== passes whose core is unconditional *)

Lemma modes_vertex_core h s : modes (delete_vertex_core h s) = modes s.
Proof. destruct (deferred s) eqn:D; [exact (modes_of_dstep _ _ _ _ _ _ (delete_vertex_core_deferred h s D))|exact (modes_of_cv _ _ (cv_delete_vertex_core h s D))]. Qed.

Lemma lists_nd_pass_c n : forall s, lists_nd s -> lists_nd (pass_c n s).
Proof.
  unfold pass_c. induction n as [|n IH]; intros s L; [exact L|]. rewrite gc_pass_S. apply IH.
  destruct (c_deleted s n); [|exact L]. apply lists_nd_cell_core. exact L.
Qed.

Lemma lists_nd_pass_v n : forall s, lists_nd s -> lists_nd (pass_v n s).
Proof.
  unfold pass_v. induction n as [|n IH]; intros s L; [exact L|]. rewrite gc_pass_S. apply IH.
  destruct (v_deleted s n); [|exact L]. apply lists_nd_vertex_core. exact L.
Qed.

Lemma lists_nd_pass_f_ns n : forall s, not_shifting s -> lists_nd s -> lists_nd (pass_f n s).
Proof.
  unfold pass_f. induction n as [|n IH]; intros s NS L; [exact L|]. rewrite gc_pass_S. destruct (f_deleted s n).
  - apply IH; [exact (not_shifting_modes _ _ (modes_face_core n (clr_f n s)) NS)|]. apply lists_nd_face_core_ns; [exact NS|exact L].
  - apply IH; assumption.
Qed.

Lemma lists_nd_pass_e_ns n : forall s, not_shifting s -> lists_nd s -> lists_nd (pass_e n s).
Proof.
  unfold pass_e. induction n as [|n IH]; intros s NS L; [exact L|]. rewrite gc_pass_S. destruct (e_deleted s n).
  - apply IH; [exact (not_shifting_modes _ _ (modes_edge_core n (clr_e n s)) NS)|]. apply lists_nd_edge_core_ns; [exact NS|exact L].
  - apply IH; assumption.
Qed.

Lemma modes_pass_c n : forall s, modes (pass_c n s) = modes s.
Proof.
  unfold pass_c. induction n as [|n IH]; intros s; [reflexivity|]. rewrite gc_pass_S, IH. destruct (c_deleted s n); [|reflexivity].
  exact (modes_cell_core n (clr_c n s)).
Qed.
Lemma modes_pass_f n : forall s, modes (pass_f n s) = modes s.
Proof.
  unfold pass_f. induction n as [|n IH]; intros s; [reflexivity|]. rewrite gc_pass_S, IH. destruct (f_deleted s n); [|reflexivity].
  exact (modes_face_core n (clr_f n s)).
Qed.
Lemma modes_pass_e n : forall s, modes (pass_e n s) = modes s.
Proof.
  unfold pass_e. induction n as [|n IH]; intros s; [reflexivity|]. rewrite gc_pass_S, IH. destruct (e_deleted s n); [|reflexivity].
  exact (modes_edge_core n (clr_e n s)).
Qed.

(* ================================================================== index-shifting mode: a flagged entity is in no list *)

Lemma flagged_face_absent s h : ginv s -> ebu s = true -> fbu s = false -> f_deleted s h = true -> face_absent h (clr_f h s).
Proof.
  intros ((_ & EO & _ & _ & (_ & L2 & _)) & _) E Fb Hd k x Hx Ex.
  rewrite (face_loop_noreorder h (clr_f h s) Fb) in Hx. cbn [inc_hfs set_inc_hfs] in Hx. change (ebu (clr_f h s)) with (ebu s) in Hx. rewrite E in Hx.
  change (inc_hfs (clr_f h s)) with (inc_hfs s) in Hx. apply fold_rm_step_In in Hx. destruct Hx as (Hin & _).
  assert (Hk : k < 2 * ne s).
  { destruct (Nat.lt_ge_cases k (2 * ne s)) as [A|A]; [exact A|]. rewrite nth_overflow in Hin by (rewrite (L2 E); exact A). destruct Hin. }
  destruct (proj1 (EO E k Hk x) Hin) as (_ & Lv & _). rewrite Ex in Lv. congruence.
Qed.

Lemma flagged_edge_absent s h : ginv s -> vbu s = true -> e_deleted s h = true -> edge_absent h (clr_e h s).
Proof.
  intros ((VO & _ & _ & _ & (L1 & _)) & _) V Hd k x Hx Ex. pose proof (edge_out_entries h (clr_e h s) x k Hx) as Hin.
  change (out_at (clr_e h s) k) with (out_at s k) in Hin.
  assert (Hk : k < nv s).
  { destruct (Nat.lt_ge_cases k (nv s)) as [A|A]; [exact A|]. unfold out_at in Hin. rewrite nth_overflow in Hin by (rewrite (L1 V); exact A). destruct Hin. }
  destruct (proj1 (VO V k Hk x) Hin) as (_ & Lv & _). rewrite Ex in Lv. congruence.
Qed.

Lemma nd_gc_face_pass n : forall s, deferred s = false -> fast s = false -> ginv s -> no_cflags s -> n <= nf s ->
  (forall i, n <= i -> f_deleted s i = false) -> lists_nd s -> lists_nd (pass_f n s).
Proof.
  unfold pass_f. induction n as [|n IH]; intros s D F I NC Hn Hi L; [exact L|]. rewrite gc_pass_S. destruct (f_deleted s n) eqn:Hd.
  - assert (Hlt : n < nf s) by lia.
    pose proof (gc_face_step s n D F I NC Hlt Hd) as St. fold (clr_f n s) in *. set (s1 := delete_face_core n (clr_f n s)) in *.
    destruct St as (I1 & D1 & F1 & NC1 & _ & _ & a3 & _ & _ & _ & a7 & _).
    apply (IH s1 D1 F1 I1 NC1).
    + unfold nf. rewrite a3, remove_nth_length by exact Hlt. fold (nf s). lia.
    + intros i Hge. unfold f_deleted. rewrite a7, flag_after_remove, unshift1_ge by exact Hge. apply (Hi (S i)). lia.
    + apply lists_nd_face_core; [|exact L]. intros _ _ E Fb. exact (flagged_face_absent s n I E Fb Hd).
  - apply (IH s D F I NC); [lia| |exact L]. intros i Hge. destruct (Nat.eq_dec i n) as [->|N]; [exact Hd|apply Hi; lia].
Qed.

Lemma nd_gc_edge_pass n : forall s, deferred s = false -> fast s = false -> ginv s -> no_fflags s -> n <= ne s ->
  (forall i, n <= i -> e_deleted s i = false) -> lists_nd s -> lists_nd (pass_e n s).
Proof.
  unfold pass_e. induction n as [|n IH]; intros s D F I NFf Hn Hi L; [exact L|]. rewrite gc_pass_S. destruct (e_deleted s n) eqn:Hd.
  - assert (Hlt : n < ne s) by lia.
    pose proof (gc_edge_step s n D F I NFf Hlt Hd) as St. fold (clr_e n s) in *. set (s1 := delete_edge_core n (clr_e n s)) in *.
    destruct St as (I1 & D1 & F1 & NF1 & _ & a2 & _ & _ & _ & a6 & _).
    apply (IH s1 D1 F1 I1 NF1).
    + unfold ne. rewrite a2, remove_nth_length by exact Hlt. fold (ne s). lia.
    + intros i Hge. unfold e_deleted. rewrite a6, flag_after_remove, unshift1_ge by exact Hge. apply (Hi (S i)). lia.
    + apply lists_nd_edge_core; [|exact L]. intros _ _ V. exact (flagged_edge_absent s n I V Hd).
  - apply (IH s D F I NFf); [lia| |exact L]. intros i Hge. destruct (Nat.eq_dec i n) as [->|N]; [exact Hd|apply Hi; lia].
Qed.

(* ================================================================== collect_garbage *)

Lemma lists_nd_set_counts a b c d s : lists_nd (set_counts a b c d s) <-> lists_nd s.
Proof. reflexivity. Qed.
Lemma lists_nd_set_modes d f s : lists_nd (set_flags (vbu s) (ebu s) (fbu s) d f s) <-> lists_nd s.
Proof. reflexivity. Qed.

Theorem lists_nd_collect_garbage_fast s : fast s = true -> lists_nd s -> lists_nd (collect_garbage s).
Proof.
  intros F L. destruct (deferred s) eqn:D; [|unfold collect_garbage; rewrite D; exact L].
  destruct (needs_gc s) eqn:G; [|rewrite (collect_garbage_noop_when_nothing_pending s G); exact L].
  destruct (collect_garbage_stages s D G) as (p1 & p2 & p3 & p4 & St). cbv zeta in St. destruct St as (E1 & E2 & E3 & E4 & ->).
  set (s0 := set_flags (vbu s) (ebu s) (fbu s) false (fast s) s) in *.
  assert (NS0 : not_shifting s0) by (unfold not_shifting, modes, s0; cbn [deferred fast set_flags]; rewrite F; discriminate).
  assert (L1 : lists_nd p1) by (rewrite E1; apply lists_nd_pass_c; exact L).
  assert (NS1 : not_shifting p1) by (rewrite E1; exact (not_shifting_modes _ _ (modes_pass_c _ s0) NS0)).
  assert (L2 : lists_nd p2) by (rewrite E2; apply lists_nd_pass_f_ns; [exact NS1|exact L1]).
  assert (NS2 : not_shifting p2) by (rewrite E2; refine (not_shifting_modes _ _ (modes_pass_f _ _) _); exact NS1).
  assert (L3 : lists_nd p3) by (rewrite E3; apply lists_nd_pass_e_ns; [exact NS2|exact L2]).
  assert (L4 : lists_nd p4) by (rewrite E4; apply lists_nd_pass_v; exact L3).
  exact L4.
Qed.

Theorem lists_nd_collect_garbage_nonfast s : gc_ready s -> fast s = false -> lists_nd s -> lists_nd (collect_garbage s).
Proof.
  intros (Dd & _ & I) F L. destruct (needs_gc s) eqn:G; [|rewrite (collect_garbage_noop_when_nothing_pending s G); exact L].
  destruct (collect_garbage_stages s Dd G) as (p1 & p2 & p3 & p4 & St). cbv zeta in St. destruct St as (E1 & E2 & E3 & E4 & ->).
  pose proof I as ((_ & _ & _ & _ & (_ & _ & _ & L4 & L5 & L6)) & LV & _).
  (* cells *)
  set (s0 := set_flags (vbu s) (ebu s) (fbu s) false (fast s) s) in *.
  assert (I0 : ginv s0) by exact I.
  assert (H1 : forall i, nc s0 <= i -> c_deleted s0 i = false) by (intros i Hi; apply flags_beyond_length; change (length (cdel s) <= i); rewrite L6; exact Hi).
  pose proof (gc_cell_pass (nc s0) s0 eq_refl F I0 (le_n _) H1) as P1. cbv zeta in P1. rewrite <- E1 in P1.
  destruct P1 as (I1 & D1 & F1 & NC1 & _).
  assert (N1 : lists_nd p1) by (rewrite E1; apply lists_nd_pass_c; exact L).
  clear E1 H1 I0. clearbody s0.
  (* faces *)
  set (s1 := set_counts (ndv p1) (nde p1) (ndf p1) 0 p1) in *.
  assert (H2 : forall i, nf s1 <= i -> f_deleted s1 i = false).
  { intros i Hi. apply flags_beyond_length. change (length (fdel p1) <= i). change (nf s1) with (nf p1) in Hi.
    destruct I1 as ((_ & _ & _ & _ & (_ & _ & _ & _ & X5 & _)) & _). rewrite X5. exact Hi. }
  pose proof (gc_face_pass (nf s1) s1 D1 F1 I1 NC1 (le_n _) H2) as P2. cbv zeta in P2. rewrite <- E2 in P2.
  destruct P2 as (I2 & D2 & F2 & NC2 & NF2 & _).
  assert (N2 : lists_nd p2) by (rewrite E2; exact (nd_gc_face_pass (nf s1) s1 D1 F1 I1 NC1 (le_n _) H2 N1)).
  clear E2 H2. clearbody s1.
  (* edges *)
  set (s2 := set_counts (ndv p2) (nde p2) 0 (ndc p2) p2) in *.
  assert (H3 : forall i, ne s2 <= i -> e_deleted s2 i = false).
  { intros i Hi. apply flags_beyond_length. change (length (edel p2) <= i). change (ne s2) with (ne p2) in Hi.
    destruct I2 as ((_ & _ & _ & _ & (_ & _ & _ & X4 & _)) & _). rewrite X4. exact Hi. }
  assert (N3 : lists_nd p3) by (rewrite E3; exact (nd_gc_edge_pass (ne s2) s2 D2 F2 I2 NF2 (le_n _) H3 N2)).
  (* vertices *)
  rewrite E4. apply lists_nd_pass_v. exact N3.
Qed.

Theorem lists_nd_collect_garbage s : (deferred s = true -> gc_ready s) -> lists_nd s -> lists_nd (collect_garbage s).
Proof.
  intros R L. destruct (deferred s) eqn:D; [|unfold collect_garbage; rewrite D; exact L].
  destruct (fast s) eqn:F; [exact (lists_nd_collect_garbage_fast s F L)|exact (lists_nd_collect_garbage_nonfast s (R eq_refl) F L)].
Qed.

Theorem lists_nd_enable_deferred b s : (deferred s = true -> gc_ready s) -> lists_nd s -> lists_nd (enable_deferred b s).
Proof.
  intros R L. unfold enable_deferred. destruct (deferred s && negb b); [apply lists_nd_collect_garbage in L; [exact L|exact R]|exact L].
Qed.
