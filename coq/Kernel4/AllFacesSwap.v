(* Kernel4/AllFacesSwap.v -- faces_from (Kernel4/AllFaces.v) for the four index swaps, from what a swap does to the LIVE entities:
   face swap: two face slots exchanged; edge swap: two edge slots exchanged and the halfedges of every live face renamed;
   vertex swap: the endpoints of every live edge renamed; cell swap: nothing. *)
From Coq Require Import ZArith Lia Bool Arith List ZifyNat ZifyBool.
From OVM Require Import Base.ListX Base.ListLemmas Kernel.State Kernel.Ops Kernel.Mirror Kernel.Closure Kernel.ExactInv Kernel.SwapEffects
                        Kernel.ShiftFace Kernel2.ExactBase Kernel3.FastDefs Kernel3.FastBase Kernel3.GcDefs Kernel3.GcFastBase
                        Kernel4.AllDefs Kernel4.AllFaces.
Import ListNotations.
Ltac Zify.zify_post_hook ::= Z.div_mod_to_equations.
Local Open Scope nat_scope.

Lemma swap_half_is_r2 a b x : swap_half a b x = r2 (tr a b) x.
Proof. exact (tr2_is_r2 a b x). Qed.

Lemma swap_idx_is_tr a b x : swap_idx a b x = tr a b x.
Proof. reflexivity. Qed.

(* ---------------------------------------------------------------- face slots exchanged *)
Theorem faces_from_face_swap s t a b : a < nf s -> b < nf s -> length (fdel s) = nf s ->
  edges t = edges s -> faces t = swap_nth a b [] (faces s) -> fdel t = swap_nth a b false (fdel s) -> faces_from s t.
Proof.
  intros Ha Hb L E Fa D. exists (fun v => v), (fun e => e). intros f' Hf' Hd'.
  unfold nf in Hf'. rewrite Fa, swap_nth_length in Hf'. fold (nf s) in Hf'.
  exists (tr a b f'). split; [apply (tr_lt a b (nf s)); assumption|]. split.
  - unfold f_deleted in *. rewrite D in Hd'. rewrite nth_swap_tr in Hd' by (rewrite L; assumption). exact Hd'.
  - split; [unfold face_at; rewrite Fa, nth_swap_tr by assumption; rewrite map_r2_id; reflexivity|]. split.
    + intros h _. unfold edge_at. rewrite E. destruct (nth (h / 2) (edges s) (0, 0)); reflexivity.
    + intros h h' _ _ X. exact X.
Qed.

(* ---------------------------------------------------------------- edge slots exchanged, halfedges of the live faces renamed *)
Theorem faces_from_edge_swap s t a b : a < ne s -> b < ne s ->
  (forall f, f < nf s -> f_deleted s f = false -> forall h, In h (face_at s f) -> h < 2 * ne s) ->
  edges t = swap_nth a b (0, 0) (edges s) -> nf t = nf s -> fdel t = fdel s ->
  (forall f, f < nf s -> f_deleted s f = false -> face_at t f = map (swap_half a b) (face_at s f)) -> faces_from s t.
Proof.
  intros Ha Hb R E N D Fa. exists (fun v => v), (tr a b). intros f Hf Hd. rewrite N in Hf. unfold f_deleted in Hd. rewrite D in Hd.
  exists f. split; [exact Hf|]. split; [exact Hd|]. split.
  - rewrite (Fa f Hf Hd). apply map_ext. intros x. apply swap_half_is_r2.
  - split.
    + intros h Hh. unfold edge_at. rewrite E, nth_swap_tr by assumption. rewrite tr_involutive.
      destruct (nth (h / 2) (edges s) (0, 0)); reflexivity.
    + intros h h' _ _ X. exact (tr_inj a b _ _ X).
Qed.

(* ---------------------------------------------------------------- endpoints of the live edges renamed *)
Theorem faces_from_vertex_swap s t a b :
  (forall f, f < nf s -> f_deleted s f = false -> forall h, In h (face_at s f) -> h / 2 < ne s /\ e_deleted s (h / 2) = false) ->
  faces t = faces s -> fdel t = fdel s ->
  (forall e, e < ne s -> e_deleted s e = false -> edge_at t e = swap_ends a b (edge_at s e)) -> faces_from s t.
Proof.
  intros R Fa D E. exists (swap_idx a b), (fun e => e). intros f Hf Hd. unfold nf in Hf. rewrite Fa in Hf. fold (nf s) in Hf.
  unfold f_deleted in Hd. rewrite D in Hd.
  exists f. split; [exact Hf|]. split; [exact Hd|]. split; [unfold face_at; rewrite Fa, map_r2_id; reflexivity|]. split.
  - intros h Hh. destruct (R f Hf Hd h Hh) as [A B]. rewrite (E _ A B). reflexivity.
  - intros h h' _ _ X. exact X.
Qed.

(* ---------------------------------------------------------------- what ginv gives for these hypotheses *)
Lemma ginv_face_refs s : ginv s -> forall f, f < nf s -> f_deleted s f = false -> forall h, In h (face_at s f) -> h < 2 * ne s.
Proof. intros ((_ & _ & _ & (_ & R2 & _) & _) & _). exact R2. Qed.

Lemma ginv_face_edges_live s : ginv s ->
  forall f, f < nf s -> f_deleted s f = false -> forall h, In h (face_at s f) -> h / 2 < ne s /\ e_deleted s (h / 2) = false.
Proof.
  intros ((_ & _ & _ & (_ & R2 & _) & _) & _ & (_ & U2 & _) & _) f Hf Hd h Hh. split; [pose proof (R2 f Hf Hd h Hh); lia|exact (U2 f Hf Hd h Hh)].
Qed.

Lemma ginv_len_fdel s : ginv s -> length (fdel s) = nf s.
Proof. intros ((_ & _ & _ & _ & (_ & _ & _ & _ & L5 & _)) & _). exact L5. Qed.
