(* Kernel4/AllStepDel.v -- the unified invariant all_inv through the four public DELETIONS of a live entity in all four
   (deferred x fast) modes and every incidence configuration.
     deferred mode  : Kernel3/GcCommute.v ready_after_delete_x (both incidence kinds on: Kernel2/ExactDeletions.v; otherwise
                      Kernel3/GcDeferredAny.v), counters by Kernel3/GcHist.v cnt_inv_dstep;
     immediate modes: Kernel3/FastHistory.v fast_inv_delete_x (fast: Kernel3/FastPhases.v, shifting: Kernel/ShiftCompose.v), the faces
                      by Kernel4/AllFacesDel.v. *)
From Coq Require Import ZArith Lia Bool Arith List ZifyNat ZifyBool.
From OVM Require Import Base.ListX Base.ListLemmas Kernel.State Kernel.Ops Kernel.Mirror Kernel.Closure Kernel.ExactInv Kernel.Sizes
                        Kernel.DeferredDelete Kernel.ShiftFace Kernel.ShiftCompose Kernel2.ExactBase
                        Kernel3.FastDeferred Kernel3.FastHistory Kernel3.GcDefs Kernel3.GcInv Kernel3.GcDeferred Kernel3.GcHist Kernel3.GcCommute
                        Kernel4.AllDefs Kernel4.AllBridges Kernel4.AllFaces Kernel4.AllFacesDel.
Import ListNotations.
Local Open Scope nat_scope.

(* ================================================================== deferred mode *)

Lemma all_inv_after_deferred s t dv de df dc : all_inv s -> dstep s t dv de df dc -> gc_ready t /\ faces_simple t -> szd t -> all_inv t.
Proof.
  intros H DS [(D & _ & I) FS] Z. split; [exact I|]. split; [exact Z|]. split; [exact FS|].
  split; [exact (cnt_inv_dstep _ _ _ _ _ _ DS (all_inv_cnt s H))|]. intros Df. congruence.
Qed.

Lemma all_inv_exact s : all_inv s -> vbu_ok s /\ ebu_ok s /\ fbu_ok s.
Proof. intros H. destruct (all_inv_bu_inv s H) as (VO & EO & FO & _). auto. Qed.

Theorem all_inv_delete_vertex_def v s : all_inv s -> deferred s = true -> v < nv s -> all_inv (delete_vertex v s).
Proof.
  intros H D Hv. destruct (all_inv_exact s H) as (VO & EO & FO).
  apply (all_inv_after_deferred s _ _ _ _ _ H (dstep_delete_vertex s v D VO EO FO Hv)).
  - exact (ready_after_delete_vertex s (all_inv_gc_ready s H D) (all_inv_faces_simple s H) v Hv).
  - apply szd_delete_vertex; [exact (all_inv_szd s H)|exact Hv].
Qed.

Theorem all_inv_delete_edge_def e s : all_inv s -> deferred s = true -> e < ne s -> e_deleted s e = false -> all_inv (delete_edge e s).
Proof.
  intros H D He Hl. destruct (all_inv_exact s H) as (VO & EO & FO).
  apply (all_inv_after_deferred s _ _ _ _ _ H (dstep_delete_edge s e D EO FO He)).
  - exact (ready_after_delete_edge s (all_inv_gc_ready s H D) (all_inv_faces_simple s H) e He Hl).
  - apply szd_delete_edge. exact (all_inv_szd s H).
Qed.

Theorem all_inv_delete_face_def f s : all_inv s -> deferred s = true -> f < nf s -> f_deleted s f = false -> all_inv (delete_face f s).
Proof.
  intros H D Hf Hl. destruct (all_inv_exact s H) as (VO & EO & FO).
  apply (all_inv_after_deferred s _ _ _ _ _ H (dstep_delete_face s f D FO Hf)).
  - exact (ready_after_delete_face s (all_inv_gc_ready s H D) (all_inv_faces_simple s H) f Hf Hl).
  - apply szd_delete_face. exact (all_inv_szd s H).
Qed.

Theorem all_inv_delete_cell_def c s : all_inv s -> deferred s = true -> c < nc s -> c_deleted s c = false -> all_inv (delete_cell c s).
Proof.
  intros H D Hc Hl.
  apply (all_inv_after_deferred s _ _ _ _ _ H (delete_cell_deferred c s D)).
  - exact (ready_after_delete_cell s (all_inv_gc_ready s H D) (all_inv_faces_simple s H) c Hc Hl).
  - apply szd_delete_cell. exact (all_inv_szd s H).
Qed.

(* ================================================================== immediate modes *)

Theorem all_inv_delete_vertex_imm v s : all_inv s -> deferred s = false -> v < nv s -> all_inv (delete_vertex v s).
Proof.
  intros H D Hv. pose proof (all_inv_fast_inv s H D) as J. apply all_inv_of_fast_inv.
  - exact (fast_inv_delete_vertex v s J D Hv).
  - apply szd_delete_vertex; [exact (all_inv_szd s H)|exact Hv].
  - exact (faces_simple_from _ _ (faces_from_delete_vertex_imm v s D (proj1 J) Hv) (all_inv_faces_simple s H)).
Qed.

Theorem all_inv_delete_edge_imm e s : all_inv s -> deferred s = false -> e < ne s -> all_inv (delete_edge e s).
Proof.
  intros H D He. pose proof (all_inv_fast_inv s H D) as J. apply all_inv_of_fast_inv.
  - exact (fast_inv_delete_edge e s J D He).
  - apply szd_delete_edge. exact (all_inv_szd s H).
  - exact (faces_simple_from _ _ (faces_from_delete_edge_imm e s D (proj1 J) He) (all_inv_faces_simple s H)).
Qed.

Theorem all_inv_delete_face_imm f s : all_inv s -> deferred s = false -> f < nf s -> all_inv (delete_face f s).
Proof.
  intros H D Hf. pose proof (all_inv_fast_inv s H D) as J. apply all_inv_of_fast_inv.
  - exact (fast_inv_delete_face f s J D Hf).
  - apply szd_delete_face. exact (all_inv_szd s H).
  - exact (faces_simple_from _ _ (faces_from_delete_face_imm f s D (proj1 J) Hf) (all_inv_faces_simple s H)).
Qed.

Theorem all_inv_delete_cell_imm c s : all_inv s -> deferred s = false -> c < nc s -> all_inv (delete_cell c s).
Proof.
  intros H D Hc. pose proof (all_inv_fast_inv s H D) as J. apply all_inv_of_fast_inv.
  - exact (fast_inv_delete_cell c s J D Hc).
  - apply szd_delete_cell. exact (all_inv_szd s H).
  - exact (faces_simple_from _ _ (faces_from_delete_cell_imm c s D (proj1 J) Hc) (all_inv_faces_simple s H)).
Qed.

(* ================================================================== any mode *)

Theorem all_inv_delete_vertex v s : all_inv s -> v < nv s -> all_inv (delete_vertex v s).
Proof. intros H Hv. destruct (deferred s) eqn:D; [apply all_inv_delete_vertex_def|apply all_inv_delete_vertex_imm]; assumption. Qed.
Theorem all_inv_delete_edge e s : all_inv s -> e < ne s -> e_deleted s e = false -> all_inv (delete_edge e s).
Proof. intros H He Hl. destruct (deferred s) eqn:D; [apply all_inv_delete_edge_def|apply all_inv_delete_edge_imm]; assumption. Qed.
Theorem all_inv_delete_face f s : all_inv s -> f < nf s -> f_deleted s f = false -> all_inv (delete_face f s).
Proof. intros H Hf Hl. destruct (deferred s) eqn:D; [apply all_inv_delete_face_def|apply all_inv_delete_face_imm]; assumption. Qed.
Theorem all_inv_delete_cell c s : all_inv s -> c < nc s -> c_deleted s c = false -> all_inv (delete_cell c s).
Proof. intros H Hc Hl. destruct (deferred s) eqn:D; [apply all_inv_delete_cell_def|apply all_inv_delete_cell_imm]; assumption. Qed.

(* the faces, for the closedness invariant *)
Theorem faces_from_delete s : all_inv s ->
  (forall v, v < nv s -> faces_from s (delete_vertex v s)) /\ (forall e, e < ne s -> faces_from s (delete_edge e s)) /\
  (forall f, f < nf s -> faces_from s (delete_face f s)) /\ (forall c, c < nc s -> faces_from s (delete_cell c s)).
Proof.
  intros H. destruct (all_inv_exact s H) as (VO & EO & FO). assert (Lf : length (fdel s) = nf s) by (destruct (all_inv_szd s H) as (_ & _ & X & _); exact X).
  destruct (deferred s) eqn:D.
  - split; [|split; [|split]]; intros x Hx.
    + exact (faces_from_dstep _ _ _ _ _ _ (dstep_delete_vertex s x D VO EO FO Hx) Lf).
    + exact (faces_from_dstep _ _ _ _ _ _ (dstep_delete_edge s x D EO FO Hx) Lf).
    + exact (faces_from_dstep _ _ _ _ _ _ (dstep_delete_face s x D FO Hx) Lf).
    + exact (faces_from_dstep _ _ _ _ _ _ (delete_cell_deferred x s D) Lf).
  - pose proof (proj1 (all_inv_fast_inv s H D)) as I. split; [|split; [|split]]; intros x Hx.
    + exact (faces_from_delete_vertex_imm x s D I Hx).
    + exact (faces_from_delete_edge_imm x s D I Hx).
    + exact (faces_from_delete_face_imm x s D I Hx).
    + exact (faces_from_delete_cell_imm x s D I Hx).
Qed.
