(* Kernel4/AllStaleEdge.v -- swap_edge_indices with deferred-deleted faces that MENTION the swapped edges (known finding D13:
   their stored definitions go stale).  As for faces (Kernel4/AllStaleFace.v): ginv does not read the definition of a flagged face,
   the swap reads the face definitions only in its first loop, which treats the live faces alike whatever the flagged ones contain;
   so ginv survives EVERY edge swap, and every LIVE face has its halfedges renamed. *)
From Coq Require Import ZArith Lia Bool Arith List ZifyNat ZifyBool.
From OVM Require Import Base.ListX Base.ListLemmas Kernel.State Kernel.Ops Kernel.Mirror Kernel.Closure Kernel.ExactInv Kernel.SwapEffects
                        Kernel.SwapEdgeCache Kernel.ShiftFace Kernel2.LookupModel Kernel2.AdjacentProofs Kernel2.ReorderExact Kernel2.ExactBase Kernel2.ExactHistory
                        Kernel3.GcDefs Kernel3.GcInv Kernel3.GcFastBase Kernel3.GcFastEdge Kernel4.AllStaleFace.
Import ListNotations.
Ltac Zify.zify_post_hook ::= Z.div_mod_to_equations.
Local Open Scope nat_scope.

(* ================================================================== ginv does not read flagged faces *)

Definition faces_agree (t : mesh) (Fa : list (list nat)) : Prop :=
  length Fa = nf t /\ forall f, f < nf t -> f_deleted t f = false -> nth f Fa [] = face_at t f.

Lemma halfface_faces_ext t Fa x : faces_agree t Fa -> x / 2 < nf t -> f_deleted t (x / 2) = false -> halfface (set_faces Fa t) x = halfface t x.
Proof. intros [_ A] Hx Hd. unfold halfface. change (face_at (set_faces Fa t) (x / 2)) with (nth (x / 2) Fa []). rewrite (A _ Hx Hd). reflexivity. Qed.

Theorem ginv_faces_ext t Fa : faces_agree t Fa -> ginv t -> ginv (set_faces Fa t).
Proof.
  intros Ag ((VO & EO & FO & (R1 & R2 & R3) & (L1 & L2 & L3 & L4 & L5 & L6)) & LV & (U1 & U2 & U3) & X). pose proof Ag as [L A].
  set (t' := set_faces Fa t).
  assert (NF : nf t' = nf t) by exact L.
  assert (HF : forall x, x / 2 < nf t -> f_deleted t (x / 2) = false -> halfface t' x = halfface t x) by (intros x; apply halfface_faces_ext; exact Ag).
  split; [|split; [exact LV|split]].
  - split; [exact VO|]. split; [|split; [|split; [split; [exact R1|split]|]]].
    + intros E h Hh x. change (hfs_at t' h) with (hfs_at t h). change (f_deleted t' (x / 2)) with (f_deleted t (x / 2)). rewrite NF.
      rewrite (EO E h Hh x). split; intros (P & Q & Rr); (split; [exact P|split; [exact Q|]]); [rewrite (HF x P Q)|rewrite <- (HF x P Q)]; exact Rr.
    + intros Fb hf Hhf c. rewrite NF in Hhf. exact (FO Fb hf Hhf c).
    + intros f Hf Hd h Hh. rewrite NF in Hf. change (f_deleted t f = false) in Hd. change (face_at t' f) with (nth f Fa []) in Hh. rewrite (A f Hf Hd) in Hh.
      exact (R2 f Hf Hd h Hh).
    + intros c Hc Hd hf Hhf. rewrite NF. exact (R3 c Hc Hd hf Hhf).
    + split; [exact L1|]. split; [exact L2|]. split; [intros Fb; rewrite NF; exact (L3 Fb)|]. split; [exact L4|]. split; [|exact L6].
      change (length (fdel t) = nf t'). rewrite NF. exact L5.
  - split; [exact U1|split; [|exact U3]]. intros f Hf Hd he Hhe. rewrite NF in Hf. change (f_deleted t f = false) in Hd.
    change (face_at t' f) with (nth f Fa []) in Hhe. rewrite (A f Hf Hd) in Hhe. exact (U2 f Hf Hd he Hhe).
  - intros E Fb. destruct (X E Fb) as [SN LC]. split; [exact SN|]. intros c Hc Hd.
    apply (closed_cell_ext t t' c); [reflexivity| |exact (LC c Hc Hd)].
    intros g Hg. split; [reflexivity|]. apply HF; [pose proof (R3 c Hc Hd g Hg); lia|exact (U3 c Hc Hd g Hg)].
Qed.

Definition scrub_faces (s : mesh) : list (list nat) := map (fun f => if f_deleted s f then [] else face_at s f) (seq 0 (nf s)).

Lemma nth_scrub_faces s f : nth f (scrub_faces s) [] = if f <? nf s then (if f_deleted s f then [] else face_at s f) else [].
Proof.
  unfold scrub_faces. destruct (Nat.ltb_spec f (nf s)) as [H|H].
  - rewrite (GcFastBase.nth_map_in _ (seq 0 (nf s)) f 0 []) by (rewrite seq_length; exact H). rewrite seq_nth by exact H. reflexivity.
  - apply nth_overflow. rewrite map_length, seq_length. exact H.
Qed.

Lemma scrub_faces_agree s : faces_agree s (scrub_faces s).
Proof.
  split; [unfold scrub_faces; rewrite map_length, seq_length; reflexivity|].
  intros f Hf Hd. rewrite nth_scrub_faces. replace (f <? nf s) with true by (symmetry; apply Nat.ltb_lt; exact Hf). rewrite Hd. reflexivity.
Qed.

Lemma scrub_no_deleted_face_lists s a b : no_deleted_face_lists (set_faces (scrub_faces s) s) a b.
Proof.
  intros f Hf Hd h Hh. exfalso. change (f_deleted s f = true) in Hd. unfold face_at in Hh. cbn [faces set_faces] in Hh.
  rewrite nth_scrub_faces, Hd in Hh. destruct (f <? nf s); destruct Hh.
Qed.

(* ================================================================== the swap, split at its only read of the face definitions *)

Definition se_step (a b : nat) (acc : list (list nat) * list nat) (hfh : nat) : list (list nat) * list nat :=
  let '(fs, done) := acc in
  let f := hfh / 2 in
  if memb f done then acc else (upd f (map (swap_half a b) (nth f fs [])) fs, f :: done).

Definition se_faces1 (a b : nat) (s : mesh) : list (list nat) :=
  if ebu s then fst (fold_left (se_step a b) (hfs_at s (2 * a) ++ hfs_at s (2 * b)) (faces s, []))
  else map (map (swap_half a b)) (faces s).

Definition se_rest (a b : nat) (X : list (list nat)) (s : mesh) : mesh :=
  let sw := swap_half a b in
  let s1 := set_faces X s in
  let out1 :=
    if vbu s1 then
      let step (acc : list (list nat) * list nat) (v : nat) :=
          let '(ll, done) := acc in
          if memb v done then acc else (map_at v sw ll, v :: done) in
      let '(a0, a1) := edge_at s1 a in
      let '(b0, b1) := edge_at s1 b in
      fst (fold_left step [a0; a1; b0; b1] (out_hes s1, []))
    else out_hes s1 in
  let s2 := set_out_hes out1 s1 in
  let s3 := set_edel (swap_nth a b false (edel s2)) (set_edges (swap_nth a b (0, 0) (edges s2)) s2) in
  let s4 := if ebu s3 then
              set_inc_hfs (swap_nth (2 * a + 1) (2 * b + 1) [] (swap_nth (2 * a) (2 * b) [] (inc_hfs s3))) s3
            else s3 in
  swap_prop_elems KHE (2 * a + 1) (2 * b + 1)
    (swap_prop_elems KHE (2 * a) (2 * b) (swap_prop_elems KE a b s4)).

Lemma swap_edge_split a b s : a <> b -> swap_edge_indices a b s = se_rest a b (se_faces1 a b s) s.
Proof. intros N. unfold swap_edge_indices. rewrite (proj2 (Nat.eqb_neq a b) N). reflexivity. Qed.

Lemma se_rest_set_faces a b X Y s : se_rest a b X (set_faces Y s) = se_rest a b X s.
Proof. reflexivity. Qed.

Lemma se_rest_faces a b X X' s : se_rest a b X s = set_faces X (se_rest a b X' s).
Proof.
  unfold se_rest. cbv zeta. rsf. change (edge_at (set_faces X s)) with (edge_at s). change (edge_at (set_faces X' s)) with (edge_at s).
  destruct (vbu s); destruct (ebu s); destruct (edge_at s a); destruct (edge_at s b); reflexivity.
Qed.

Lemma faces_se_rest a b X s : faces (se_rest a b X s) = X.
Proof.
  unfold se_rest. cbv zeta. rsf. change (edge_at (set_faces X s)) with (edge_at s).
  destruct (vbu s); destruct (ebu s); destruct (edge_at s a); destruct (edge_at s b); reflexivity.
Qed.

(* ================================================================== the first loop treats the live faces alike *)

Definition agree_livef (s : mesh) (C D : list (list nat)) : Prop :=
  length C = length D /\ forall f, f_deleted s f = false -> nth f C [] = nth f D [].

Lemma agree_livef_upd s C D x : agree_livef s C D -> forall g, agree_livef s (upd x (g (nth x C [])) C) (upd x (g (nth x D [])) D).
Proof.
  intros [L A] g. split; [rewrite !upd_length; exact L|]. intros c Hd. rewrite !nth_upd, L.
  destruct ((x =? c) && (x <? length D)) eqn:E; [|exact (A c Hd)].
  apply andb_true_iff in E. destruct E as [E _]. apply Nat.eqb_eq in E. subst x. rewrite (A c Hd). reflexivity.
Qed.

Lemma se_fold_agree a b s l : forall C D done, agree_livef s C D ->
  agree_livef s (fst (fold_left (se_step a b) l (C, done))) (fst (fold_left (se_step a b) l (D, done))).
Proof.
  induction l as [|x l IH]; intros C D done Ag; [exact Ag|]. cbn [fold_left].
  change (se_step a b (C, done) x) with (if memb (x / 2) done then (C, done) else (upd (x / 2) (map (swap_half a b) (nth (x / 2) C [])) C, x / 2 :: done)).
  change (se_step a b (D, done) x) with (if memb (x / 2) done then (D, done) else (upd (x / 2) (map (swap_half a b) (nth (x / 2) D [])) D, x / 2 :: done)).
  destruct (memb (x / 2) done); [apply IH; exact Ag|]. apply IH. exact (agree_livef_upd s C D (x / 2) Ag (map (swap_half a b))).
Qed.

Lemma se_faces1_agree a b s Y : agree_livef s (faces s) Y -> agree_livef s (se_faces1 a b s) (se_faces1 a b (set_faces Y s)).
Proof.
  intros Ag. unfold se_faces1. change (ebu (set_faces Y s)) with (ebu s). change (hfs_at (set_faces Y s)) with (hfs_at s). destruct (ebu s).
  - exact (se_fold_agree a b s _ (faces s) Y [] Ag).
  - destruct Ag as [L A]. split; [rewrite !map_length; exact L|]. intros c Hd.
    change (@nil nat) with (map (swap_half a b) []). rewrite !map_nth. f_equal. exact (A c Hd).
Qed.

(* ================================================================== ginv through any edge swap; the live faces are renamed *)

Theorem ginv_swap_edge_any a b s : ginv s -> a < ne s -> b < ne s ->
  ginv (swap_edge_indices a b s) /\
  (forall f, f < nf s -> f_deleted s f = false -> face_at (swap_edge_indices a b s) f = map (swap_half a b) (face_at s f)) /\
  nf (swap_edge_indices a b s) = nf s.
Proof.
  intros I Ha Hb. destruct (Nat.eq_dec a b) as [->|N].
  { rewrite swap_edge_self. split; [exact I|]. split; [|reflexivity]. intros f _ _. symmetry. apply map_id_on. intros x _.
    unfold swap_half. destruct (x / 2 =? b) eqn:E; [apply Nat.eqb_eq in E; lia|reflexivity]. }
  set (Y := scrub_faces s). set (sY := set_faces Y s).
  pose proof (scrub_faces_agree s) as AgY. pose proof (ginv_faces_ext s Y AgY I) as IY. fold sY in IY.
  pose proof IY as ((VO & EO & FO & R & L) & _).
  pose proof (swap_edge_exact_relabeling a b sY N Ha Hb EO VO L (scrub_no_deleted_face_lists s a b)) as Rl.
  assert (IT : ginv (swap_edge_indices a b sY)) by (rewrite Rl; apply ginv_edge_relabeled; assumption).
  assert (E : swap_edge_indices a b s = set_faces (se_faces1 a b s) (swap_edge_indices a b sY)).
  { rewrite (swap_edge_split a b s N), (swap_edge_split a b sY N). unfold sY at 2. rewrite se_rest_set_faces. apply se_rest_faces. }
  assert (AL : agree_livef s (se_faces1 a b s) (se_faces1 a b sY)).
  { apply se_faces1_agree. destruct AgY as [LY AY]. split; [symmetry; exact LY|]. intros c Hd.
    destruct (Nat.lt_ge_cases c (nf s)) as [Hc|Hc]; [symmetry; exact (AY c Hc Hd)|].
    rewrite (nth_overflow (faces s)) by exact Hc. rewrite (nth_overflow Y) by (unfold Y; rewrite LY; exact Hc). reflexivity. }
  destruct AL as [LL AL].
  assert (CE : faces (swap_edge_indices a b sY) = se_faces1 a b sY) by (rewrite (swap_edge_split a b sY N); apply faces_se_rest).
  assert (CD : fdel (swap_edge_indices a b sY) = fdel s).
  { pose proof (swap_edge_effect a b sY N) as Ef. cbv zeta in Ef. destruct Ef as (_ & _ & _ & _ & _ & _ & _ & e8 & _). exact e8. }
  assert (NFY : nf (swap_edge_indices a b sY) = nf s).
  { rewrite Rl. unfold nf, edge_relabeled. cbn [faces]. rewrite map_length. exact (proj1 AgY). }
  rewrite E. split; [|split].
  - apply ginv_faces_ext; [|exact IT]. split.
    + rewrite NFY. unfold nf in NFY. rewrite CE in NFY. rewrite LL. exact NFY.
    + intros f _ Hd. unfold face_at. rewrite CE. apply AL. unfold f_deleted in *. rewrite CD in Hd. exact Hd.
  - intros f Hf Hd. change (face_at (set_faces (se_faces1 a b s) (swap_edge_indices a b sY)) f) with (nth f (se_faces1 a b s) []).
    rewrite (AL f Hd), <- CE. fold (face_at (swap_edge_indices a b sY) f). rewrite Rl. unfold face_at, edge_relabeled. cbn [faces].
    change (@nil nat) with (map (swap_half a b) []) at 1. rewrite map_nth. f_equal.
    change (nth f Y [] = nth f (faces s) []). exact (proj2 AgY f Hf Hd).
  - change (length (se_faces1 a b s) = nf s). rewrite LL. unfold nf in NFY. rewrite CE in NFY. exact NFY.
Qed.
