(* Kernel4/AllNoDupDel.v -- the cache lists stay duplicate-free through the four PUBLIC deletions in all four modes.  Deferred and
   immediate fast mode: the cores are unconditional (Kernel4/AllNoDupCores.v).  Immediate index-shifting mode: the shifting edge /
   face core needs its victim's handles to be gone from every list, which exactness of the cache at that moment gives
   (edge_absent_of_exact, face_absent_of_exact); exactness at every intermediate state comes from the phase theorems of
   Kernel/ShiftCompose.v applied to the part of the closure already processed. *)
From Coq Require Import ZArith Lia Bool Arith List ZifyNat ZifyBool.
From OVM Require Import Base.ListX Base.ListLemmas Base.ListLemmas2 Kernel.State Kernel.Ops Kernel.Mirror Kernel.Recompute Kernel.Closure Kernel.ExactInv Kernel.ExactDelete
                        Kernel.GcFacts Kernel.DeferredDelete Kernel.ShiftFace Kernel.ShiftEdge Kernel.ShiftVertex Kernel.ShiftCompose
                        Kernel2.ReorderExact Kernel2.ExactBase Kernel3.FastDefs Kernel3.FastBase Kernel3.FastEdge
                        Kernel3.GcDefs Kernel4.AllDefs Kernel4.AllNoDupBase Kernel4.AllNoDupCores.
Import ListNotations.
Ltac Zify.zify_post_hook ::= Z.div_mod_to_equations.
Local Open Scope nat_scope.

(* ================================================================== exact caches: the victim's handles are gone after the removal *)

Lemma edge_absent_of_exact h s : vbu s = true -> vbu_ok s -> length (out_hes s) = nv s -> edge_absent h s.
Proof.
  intros V VO L k x Hx Ex. pose proof (edge_out_entries h s x k Hx) as Hin.
  assert (Hk : k < nv s).
  { destruct (Nat.lt_ge_cases k (nv s)) as [A|A]; [exact A|]. unfold out_at in Hin. rewrite nth_overflow in Hin by (rewrite L; exact A). destruct Hin. }
  destruct (proj1 (VO V k Hk x) Hin) as (_ & _ & Fr). revert Hx. unfold edge_out. rewrite he_from_cases in Fr.
  destruct (edge_at s h) as [v0 v1] eqn:Ea. rewrite nth_remove_at, remove_at_length, nth_remove_at. fold (out_at s k). rewrite Ex, Ea in Fr. cbn [fst snd] in Fr.
  assert (C : x = 2 * h \/ x = 2 * h + 1) by lia. destruct C as [->| ->].
  - replace ((2 * h) mod 2 =? 0) with true in Fr by (symmetry; apply Nat.eqb_eq; lia). subst v0.
    replace ((k =? k) && (k <? length (out_hes s))) with true by (symmetry; rewrite Nat.eqb_refl, L; apply Nat.ltb_lt; exact Hk).
    destruct ((v1 =? k) && (v1 <? length (out_hes s))); rewrite ?remove_val_In; intros Q; [destruct Q as [[_ Q] _]|destruct Q as [_ Q]]; apply Q; reflexivity.
  - replace ((2 * h + 1) mod 2 =? 0) with false in Fr by (symmetry; apply Nat.eqb_neq; lia). subst v1.
    replace ((k =? k) && (k <? length (out_hes s))) with true by (symmetry; rewrite Nat.eqb_refl, L; apply Nat.ltb_lt; exact Hk).
    rewrite remove_val_In. intros [_ Q]. apply Q. reflexivity.
Qed.

Lemma face_absent_of_exact h s : ebu s = true -> fbu s = false -> ebu_ok s -> length (inc_hfs s) = 2 * ne s -> face_absent h s.
Proof.
  intros E Fb EO L k x Hx Ex. rewrite (face_loop_noreorder h s Fb) in Hx. cbn [inc_hfs set_inc_hfs] in Hx. rewrite E in Hx.
  apply fold_rm_step_In in Hx. destruct Hx as (Hin & N0 & N1).
  assert (Hk : k < 2 * ne s).
  { destruct (Nat.lt_ge_cases k (2 * ne s)) as [A|A]; [exact A|]. rewrite nth_overflow in Hin by (rewrite L; exact A). destruct Hin. }
  destruct (proj1 (EO E k Hk x) Hin) as (_ & _ & Hf). apply In_halfface in Hf. rewrite Ex in Hf.
  assert (C : x = 2 * h \/ x = 2 * h + 1) by lia. destruct C as [->| ->].
  - replace (Nat.even (2 * h)) with true in Hf by (symmetry; rewrite even_mod2; apply Nat.eqb_eq; lia). apply N0. auto.
  - replace (Nat.even (2 * h + 1)) with false in Hf by (symmetry; rewrite even_mod2; apply Nat.eqb_neq; lia). apply N1. auto.
Qed.

Lemma shift_inv_absent h s : shift_inv s ->
  (vbu s = true -> edge_absent h s) /\ (ebu s = true -> fbu s = false -> face_absent h s).
Proof.
  intros (_ & VO & EO & _ & _ & (L1 & L2 & _)). split.
  - intros V. exact (edge_absent_of_exact h s V VO (L1 V)).
  - intros E Fb. exact (face_absent_of_exact h s E Fb EO (L2 E)).
Qed.

(* ================================================================== unconditional descending runs *)

Lemma lists_nd_del_desc_cells l : forall s, lists_nd s -> lists_nd (del_desc delete_cell_core l s).
Proof. unfold del_desc. induction (rev l) as [|x r IH]; intros s L; [exact L|]. cbn [fold_left]. apply IH. apply lists_nd_cell_core. exact L. Qed.

(* the two deletion modes are kept by every core *)
Definition modes (s : mesh) := (deferred s, fast s).

Lemma modes_of_dstep s t a b c d : dstep s t a b c d -> modes t = modes s.
Proof. intros (_&_&_&_&_&_&_&_&_&_&_&_&(_&_&_&f4&f5)&_). unfold modes. congruence. Qed.
Lemma modes_of_cv s t : cv t = cv s -> modes t = modes s.
Proof. unfold cv, modes. intros E. injection E as _ _ _ _ e5 e6. congruence. Qed.

Lemma modes_cell_core h s : modes (delete_cell_core h s) = modes s.
Proof. destruct (deferred s) eqn:D; [exact (modes_of_dstep _ _ _ _ _ _ (delete_cell_core_deferred h s D))|exact (modes_of_cv _ _ (cv_delete_cell_core h s D))]. Qed.
Lemma modes_face_core h s : modes (delete_face_core h s) = modes s.
Proof. destruct (deferred s) eqn:D; [exact (modes_of_dstep _ _ _ _ _ _ (delete_face_core_deferred h s D))|exact (modes_of_cv _ _ (cv_delete_face_core h s D))]. Qed.
Lemma modes_edge_core h s : modes (delete_edge_core h s) = modes s.
Proof. destruct (deferred s) eqn:D; [exact (modes_of_dstep _ _ _ _ _ _ (delete_edge_core_deferred h s D))|exact (modes_of_cv _ _ (cv_delete_edge_core h s D))]. Qed.

Lemma modes_del_desc core l : (forall h s, modes (core h s) = modes s) -> forall s, modes (del_desc core l s) = modes s.
Proof. intros H. unfold del_desc. induction (rev l) as [|x r IH]; intros s; [reflexivity|]. cbn [fold_left]. rewrite IH. apply H. Qed.

Definition not_shifting (s : mesh) : Prop := modes s <> (false, false).

Lemma not_shifting_modes s t : modes t = modes s -> not_shifting s -> not_shifting t.
Proof. unfold not_shifting. intros ->. tauto. Qed.

Lemma lists_nd_face_core_ns h s : not_shifting s -> lists_nd s -> lists_nd (delete_face_core h s).
Proof. intros NS. apply lists_nd_face_core. intros D F. exfalso. apply NS. unfold modes. rewrite D, F. reflexivity. Qed.
Lemma lists_nd_edge_core_ns h s : not_shifting s -> lists_nd s -> lists_nd (delete_edge_core h s).
Proof. intros NS. apply lists_nd_edge_core. intros D F. exfalso. apply NS. unfold modes. rewrite D, F. reflexivity. Qed.

Lemma lists_nd_del_desc_faces_ns l : forall s, not_shifting s -> lists_nd s -> lists_nd (del_desc delete_face_core l s).
Proof.
  unfold del_desc. induction (rev l) as [|x r IH]; intros s NS L; [exact L|]. cbn [fold_left].
  apply IH; [exact (not_shifting_modes _ _ (modes_face_core x s) NS)|apply lists_nd_face_core_ns; assumption].
Qed.
Lemma lists_nd_del_desc_edges_ns l : forall s, not_shifting s -> lists_nd s -> lists_nd (del_desc delete_edge_core l s).
Proof.
  unfold del_desc. induction (rev l) as [|x r IH]; intros s NS L; [exact L|]. cbn [fold_left].
  apply IH; [exact (not_shifting_modes _ _ (modes_edge_core x s) NS)|apply lists_nd_edge_core_ns; assumption].
Qed.

(* ---- the four public deletions outside the immediate index-shifting mode *)
Theorem lists_nd_delete_face_ns f s : not_shifting s -> lists_nd s -> lists_nd (delete_face f s).
Proof.
  intros NS L. unfold delete_face. apply lists_nd_face_core_ns; [|apply lists_nd_del_desc_cells; exact L].
  exact (not_shifting_modes _ _ (modes_del_desc _ _ modes_cell_core s) NS).
Qed.

Theorem lists_nd_delete_edge_ns e s : not_shifting s -> lists_nd s -> lists_nd (delete_edge e s).
Proof.
  intros NS L. unfold delete_edge. set (t := del_desc delete_cell_core _ s).
  assert (NSt : not_shifting t) by exact (not_shifting_modes _ _ (modes_del_desc _ _ modes_cell_core s) NS).
  apply lists_nd_edge_core_ns; [exact (not_shifting_modes _ _ (modes_del_desc _ _ modes_face_core t) NSt)|].
  apply lists_nd_del_desc_faces_ns; [exact NSt|apply lists_nd_del_desc_cells; exact L].
Qed.

Theorem lists_nd_delete_vertex_ns v s : not_shifting s -> lists_nd s -> lists_nd (delete_vertex v s).
Proof.
  intros NS L. unfold delete_vertex. set (t := del_desc delete_cell_core _ s).
  assert (NSt : not_shifting t) by exact (not_shifting_modes _ _ (modes_del_desc _ _ modes_cell_core s) NS).
  set (u := del_desc delete_face_core _ t).
  assert (NSu : not_shifting u) by exact (not_shifting_modes _ _ (modes_del_desc _ _ modes_face_core t) NSt).
  apply lists_nd_vertex_core. apply lists_nd_del_desc_edges_ns; [exact NSu|].
  apply lists_nd_del_desc_faces_ns; [exact NSt|apply lists_nd_del_desc_cells; exact L].
Qed.

(* ================================================================== immediate index-shifting mode: the phases *)

Lemma nd_faces_phase fs : forall t, strictly_sorted fs -> (forall f, In f fs -> f < nf t) ->
  deferred t = false -> fast t = false -> shift_inv2 t -> (forall f, In f fs -> face_free t f) ->
  lists_nd t -> lists_nd (del_desc delete_face_core fs t).
Proof.
  induction fs as [|a fs IH]; intros t Ss R D F I FF L; [exact L|]. rewrite del_desc_cons.
  pose proof (faces_phase fs t (sorted_tail _ _ Ss) (fun f Hf => R f (or_intror Hf)) D F I (fun f Hf => FF f (or_intror Hf))) as P. cbv zeta in P.
  destruct P as (Iu & _). apply lists_nd_face_core.
  - intros _ _. exact (proj2 (shift_inv_absent a _ (proj1 Iu))).
  - apply IH; try assumption; [exact (sorted_tail _ _ Ss)|intros f Hf; apply R; right; exact Hf|intros f Hf; apply FF; right; exact Hf].
Qed.

Lemma nd_edges_phase es : forall t, strictly_sorted es -> (forall e, In e es -> e < ne t) ->
  deferred t = false -> fast t = false -> shift_inv2 t -> (forall e, In e es -> edge_free t e) ->
  lists_nd t -> lists_nd (del_desc delete_edge_core es t).
Proof.
  induction es as [|a es IH]; intros t Ss R D F I FF L; [exact L|]. rewrite del_desc_cons.
  pose proof (edges_phase es t (sorted_tail _ _ Ss) (fun f Hf => R f (or_intror Hf)) D F I (fun f Hf => FF f (or_intror Hf))) as P. cbv zeta in P.
  destruct P as (Iu & _). apply lists_nd_edge_core.
  - intros _ _. exact (proj1 (shift_inv_absent a _ (proj1 Iu))).
  - apply IH; try assumption; [exact (sorted_tail _ _ Ss)|intros f Hf; apply R; right; exact Hf|intros f Hf; apply FF; right; exact Hf].
Qed.

Theorem lists_nd_delete_face_shift f s : deferred s = false -> fast s = false -> shift_inv2 s -> f < nf s ->
  lists_nd s -> lists_nd (delete_face f s).
Proof.
  intros D F I Hf L. unfold delete_face. pose proof I as ((_ & _ & _ & FO & _) & _).
  rewrite (incident_cells_cache_is_scan s [f] FO) by (intros x [<-|[]]; exact Hf).
  pose proof (cells_phase [f] s D F I) as P. cbv zeta in P. set (t := del_desc delete_cell_core (cells_at_faces s [f]) s) in *.
  destruct P as (It & _). apply lists_nd_face_core.
  - intros _ _. exact (proj2 (shift_inv_absent f t (proj1 It))).
  - apply lists_nd_del_desc_cells. exact L.
Qed.

Theorem lists_nd_delete_edge_shift e s : deferred s = false -> fast s = false -> shift_inv2 s -> e < ne s ->
  lists_nd s -> lists_nd (delete_edge e s).
Proof.
  intros D F I He L. unfold delete_edge. pose proof I as ((NF & _ & EO & FO & _) & _).
  rewrite (incident_faces_cache_is_scan s [e] EO) by (intros x [<-|[]]; exact He).
  set (fs := faces_at_edges s [e]).
  rewrite (incident_cells_cache_is_scan s fs FO) by (intros x Hx; exact (In_faces_at_edges_lt s [e] x Hx)).
  pose proof (cells_phase fs s D F I) as P. cbv zeta in P. set (t := del_desc delete_cell_core (cells_at_faces s fs) s) in *.
  destruct P as (It & Dt & Ft & t1 & t2 & t3 & t4 & t5 & _ & FFt).
  assert (Sfs : strictly_sorted fs) by (apply strictly_sorted_filter, sorted_live_faces).
  assert (Rfs : forall f, In f fs -> f < nf t) by (intros f Hf; unfold nf; rewrite t3; exact (In_faces_at_edges_lt s [e] f Hf)).
  pose proof (faces_phase fs t Sfs Rfs Dt Ft It FFt) as Q. cbv zeta in Q. destruct Q as (Iu & _).
  apply lists_nd_edge_core.
  - intros _ _. exact (proj1 (shift_inv_absent e _ (proj1 Iu))).
  - apply nd_faces_phase; try assumption. apply lists_nd_del_desc_cells. exact L.
Qed.

Theorem lists_nd_delete_vertex_shift v s : deferred s = false -> fast s = false -> shift_inv2 s -> v < nv s ->
  lists_nd s -> lists_nd (delete_vertex v s).
Proof.
  intros D F I Hv L. unfold delete_vertex. pose proof I as ((NF & VO & EO & FO & _) & _).
  rewrite (incident_edges_cache_is_scan s v VO Hv). set (es := edges_at_vertex s v).
  rewrite (incident_faces_cache_is_scan s es EO) by (intros x Hx; exact (In_edges_at_vertex_lt s v x Hx)).
  set (fs := faces_at_edges s es).
  rewrite (incident_cells_cache_is_scan s fs FO) by (intros x Hx; exact (In_faces_at_edges_lt s es x Hx)).
  pose proof (cells_phase fs s D F I) as P. cbv zeta in P. set (t := del_desc delete_cell_core (cells_at_faces s fs) s) in *.
  destruct P as (It & Dt & Ft & t1 & t2 & t3 & t4 & t5 & _ & FFt).
  assert (Sfs : strictly_sorted fs) by (apply strictly_sorted_filter, sorted_live_faces).
  assert (Rfs : forall f, In f fs -> f < nf t) by (intros f Hf; unfold nf; rewrite t3; exact (In_faces_at_edges_lt s es f Hf)).
  pose proof (faces_phase fs t Sfs Rfs Dt Ft It FFt) as Q. cbv zeta in Q. set (u := del_desc delete_face_core fs t) in *.
  destruct Q as (Iu & Du & Fu & u1 & u2 & u3 & u4 & u5 & _ & _).
  assert (K : faces u = keep_slots [] fs (faces s)).
  { rewrite u3, t3. apply remove_slots_keep; [exact Sfs|]. intros f Hf. exact (In_faces_at_edges_lt s es f Hf). }
  assert (Ses : strictly_sorted es) by (apply strictly_sorted_filter, sorted_live_edges).
  assert (Res : forall e, In e es -> e < ne u) by (intros e He; unfold ne; rewrite u2, t2; exact (In_edges_at_vertex_lt s v e He)).
  assert (FFe : forall e, In e es -> edge_free u e).
  { intros e He f he Hhe Ee. destruct (Nat.lt_ge_cases f (nf u)) as [Hf|Hf]; [|unfold face_at in Hhe; rewrite nth_overflow in Hhe by exact Hf; destruct Hhe].
    assert (J : In (face_at u f) (keep_slots [] fs (faces s))) by (rewrite <- K; apply nth_In; exact Hf).
    apply In_keep_slots in J. destruct J as [i (Hi & Hn & Ei)]. apply Hn. apply (faces_at_edges_spec s es i NF). split; [exact Hi|].
    exists he. split; [unfold face_at at 1; rewrite Ei; exact Hhe|rewrite Ee; exact He]. }
  apply lists_nd_vertex_core. apply nd_edges_phase; try assumption.
  apply nd_faces_phase; try assumption. apply lists_nd_del_desc_cells. exact L.
Qed.

(* ================================================================== the four public deletions, every mode *)

Lemma shifting_or_not s : (deferred s = false /\ fast s = false) \/ not_shifting s.
Proof. unfold not_shifting, modes. destruct (deferred s); destruct (fast s); [right|right|right|left]; try (intros X; discriminate X). auto. Qed.

(* inv: what the immediate index-shifting mode needs - shift_inv2 whenever deferred deletion is off *)
Theorem lists_nd_delete s : (deferred s = false -> shift_inv2 s) -> lists_nd s ->
  (forall c, lists_nd (delete_cell c s)) /\ (forall f, f < nf s -> lists_nd (delete_face f s)) /\
  (forall e, e < ne s -> lists_nd (delete_edge e s)) /\ (forall v, v < nv s -> lists_nd (delete_vertex v s)).
Proof.
  intros I L. split; [intros c; apply lists_nd_cell_core; exact L|].
  destruct (shifting_or_not s) as [[D F]|NS].
  - split; [|split]; intros x Hx; [apply lists_nd_delete_face_shift|apply lists_nd_delete_edge_shift|apply lists_nd_delete_vertex_shift]; auto.
  - split; [|split]; intros x _; [apply lists_nd_delete_face_ns|apply lists_nd_delete_edge_ns|apply lists_nd_delete_vertex_ns]; assumption.
Qed.
