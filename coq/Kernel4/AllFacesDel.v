(* Kernel4/AllFacesDel.v -- faces_from (Kernel4/AllFaces.v) for the deletions:
     - IMMEDIATE deletions, fast or index-shifting: the survivors are renumbered by bijections that the definitions follow
       (renumbered, Kernel3/FastModes.v; both modes from Kernel3/FastModes2.v mode_independent_vertex etc.);
     - DEFERRED deletions: definitions untouched, flags only grow (dstep, Kernel/DeferredDelete.v). *)
From Coq Require Import ZArith Lia Bool Arith List ZifyNat ZifyBool.
From OVM Require Import Base.ListX Base.ListLemmas Kernel.State Kernel.Ops Kernel.Mirror Kernel.Closure Kernel.ExactInv Kernel.DeferredDelete
                        Kernel.ShiftFace Kernel.ShiftCompose Kernel2.ExactBase
                        Kernel3.FastDefs Kernel3.FastBase Kernel3.FastMany Kernel3.FastModes Kernel3.FastModes2 Kernel3.FastPublic2
                        Kernel3.GcFastBase Kernel3.GcDeferred Kernel4.AllDefs Kernel4.AllFaces.
Import ListNotations.
Ltac Zify.zify_post_hook ::= Z.div_mod_to_equations.
Local Open Scope nat_scope.

(* ================================================================== renumbered survivors *)

Theorem faces_from_renumbered s t vs es fs cs sv se sf sc :
  renumbered s t vs es fs cs sv se sf sc -> closed_under s vs es fs -> (forall f, f_deleted s f = false) -> faces_from s t.
Proof.
  intros ((_ & _ & Nf & _) & (_ & Be & Bf & _) & RE & RF & _) (_ & C2 & _) NFf.
  exists sv, se. intros f' Hf' _. destruct Bf as (_ & _ & Sur). rewrite Nf in Hf'. destruct (Sur f' Hf') as (f & Hf & Nin & <-).
  exists f. split; [exact Hf|]. split; [apply NFf|]. split; [exact (RF f Hf Nin)|]. split.
  - intros h Hh. destruct (C2 f Hf Nin h Hh) as [A B]. exact (RE (h / 2) A B).
  - intros h h' Hh Hh' E. destruct (C2 f Hf Nin h Hh) as [A B]. destruct (C2 f Hf Nin h' Hh') as [A' B'].
    destruct Be as (_ & Inj & _). exact (Inj _ _ A A' B B' E).
Qed.

Lemma set_fast_false_self s : fast s = false -> set_fast false s = s.
Proof. intros F. rewrite <- F. apply set_fast_self. Qed.

Lemma no_fflags_of_shift_inv2 s : shift_inv2 s -> forall f, f_deleted s f = false.
Proof. intros [((_ & _ & NFf & _) & _) _]. exact NFf. Qed.

Theorem faces_from_delete_vertex_imm v s : deferred s = false -> shift_inv2 s -> v < nv s -> faces_from s (delete_vertex v s).
Proof.
  intros D I Hv. destruct (mode_independent_vertex v s D I Hv) as ((Rf & Rs & _) & _). destruct (closure_vertex_ok v s I Hv) as (_ & C & _).
  destruct (fast s) eqn:F.
  - rewrite (set_fast_true_self s F) in Rf. exact (faces_from_renumbered _ _ _ _ _ _ _ _ _ _ Rf C (no_fflags_of_shift_inv2 s I)).
  - rewrite (set_fast_false_self s F) in Rs. exact (faces_from_renumbered _ _ _ _ _ _ _ _ _ _ Rs C (no_fflags_of_shift_inv2 s I)).
Qed.

Theorem faces_from_delete_edge_imm e s : deferred s = false -> shift_inv2 s -> e < ne s -> faces_from s (delete_edge e s).
Proof.
  intros D I He. destruct (mode_independent_edge e s D I He) as ((Rf & Rs & _) & _). destruct (closure_edge_ok e s I He) as (_ & C & _).
  destruct (fast s) eqn:F.
  - rewrite (set_fast_true_self s F) in Rf. exact (faces_from_renumbered _ _ _ _ _ _ _ _ _ _ Rf C (no_fflags_of_shift_inv2 s I)).
  - rewrite (set_fast_false_self s F) in Rs. exact (faces_from_renumbered _ _ _ _ _ _ _ _ _ _ Rs C (no_fflags_of_shift_inv2 s I)).
Qed.

Theorem faces_from_delete_face_imm f s : deferred s = false -> shift_inv2 s -> f < nf s -> faces_from s (delete_face f s).
Proof.
  intros D I Hf. destruct (mode_independent_face f s D I Hf) as ((Rf & Rs & _) & _). destruct (closure_face_ok f s I Hf) as (_ & C & _).
  destruct (fast s) eqn:F.
  - rewrite (set_fast_true_self s F) in Rf. exact (faces_from_renumbered _ _ _ _ _ _ _ _ _ _ Rf C (no_fflags_of_shift_inv2 s I)).
  - rewrite (set_fast_false_self s F) in Rs. exact (faces_from_renumbered _ _ _ _ _ _ _ _ _ _ Rs C (no_fflags_of_shift_inv2 s I)).
Qed.

Theorem faces_from_delete_cell_imm c s : deferred s = false -> shift_inv2 s -> c < nc s -> faces_from s (delete_cell c s).
Proof.
  intros D I Hc. destruct (mode_independent_cell c s D I Hc) as ((Rf & Rs & _) & _). destruct (closure_cell_ok c s I Hc) as (_ & C & _).
  destruct (fast s) eqn:F.
  - rewrite (set_fast_true_self s F) in Rf. exact (faces_from_renumbered _ _ _ _ _ _ _ _ _ _ Rf C (no_fflags_of_shift_inv2 s I)).
  - rewrite (set_fast_false_self s F) in Rs. exact (faces_from_renumbered _ _ _ _ _ _ _ _ _ _ Rs C (no_fflags_of_shift_inv2 s I)).
Qed.

(* ================================================================== deferred deletions *)

Theorem faces_from_dstep s t dv de df dc : dstep s t dv de df dc -> length (fdel s) = nf s -> faces_from s t.
Proof.
  intros (_ & x2 & x3 & _ & _ & _ & x7 & _) L. apply faces_from_same; [exact x2|exact x3|].
  intros f Hf Hd. unfold f_deleted in Hd. rewrite x7 in Hd. apply flag_read in Hd; [|rewrite L; exact Hf]. exact (proj1 Hd).
Qed.
