(* Kernel4/AllNoDupCores.v -- the cache lists stay duplicate-free (lists_nd, Kernel4/AllNoDupBase.v) through the four deletion cores
   in every mode.  Deferred mode and immediate fast mode: unconditionally (entries are only removed, slots exchanged or dropped,
   handles renamed injectively).  Immediate index-shifting mode: the edge core shifts the halfedge handles in the vertex lists and
   the face core the halfface handles in the halfedge lists by cor2, which is injective once the two handles of the victim are gone
   from EVERY list - the hypothesis edge_absent / face_absent (discharged from cache exactness by the callers). *)
From Coq Require Import ZArith Lia Bool Arith List ZifyNat ZifyBool.
From OVM Require Import Base.ListX Base.ListLemmas Base.ListLemmas2 Kernel.State Kernel.Ops Kernel.Mirror Kernel.Recompute Kernel.Closure Kernel.ExactInv Kernel.ExactDelete
                        Kernel.DeferredDelete Kernel.SwapEffects Kernel.ShiftFace Kernel.ShiftEdge Kernel.ShiftVertex Kernel.ShiftCompose
                        Kernel2.ReorderExact Kernel2.ExactBase Kernel2.ExactDelCell Kernel2.ExactDelFace
                        Kernel3.FastDefs Kernel3.FastBase Kernel3.FastCell Kernel3.FastFace Kernel3.FastEdge Kernel3.FastVertex
                        Kernel3.GcDefs Kernel3.GcDeferredAny Kernel4.AllDefs Kernel4.AllNoDupBase.
Import ListNotations.
Ltac Zify.zify_post_hook ::= Z.div_mod_to_equations.
Local Open Scope nat_scope.

Ltac rsn := cbn [set_nv set_edges set_faces set_cells set_vdel set_edel set_fdel set_cdel set_counts set_flags
                set_out_hes set_inc_hfs set_inc_cell set_props delete_prop_elem cell_deleted face_deleted edge_deleted vertex_deleted props
                nv edges faces cells vdel edel fdel cdel ndv nde ndf ndc vbu ebu fbu deferred fast
                out_hes inc_hfs inc_cell pv pe phe pf phf pc pm].

Definition same_flags (s t : mesh) : Prop := vbu t = vbu s /\ ebu t = ebu s /\ fbu t = fbu s.

(* a state whose lists are those of s (and whose three flags agree) *)
Lemma lists_nd_same s t : same_flags s t -> out_hes t = out_hes s -> (fbu s = false -> inc_hfs t = inc_hfs s) -> lists_nd s -> lists_nd t.
Proof.
  intros (f1 & f2 & f3) O Hi [A B]. split; [intros V; rewrite O; apply A; congruence|].
  intros Fb E. rewrite f3 in Fb. rewrite (Hi Fb). apply B; congruence.
Qed.

Lemma all_nd_edge_out h s : all_nd (out_hes s) -> all_nd (edge_out h s).
Proof. intros A. unfold edge_out. destruct (edge_at s h). apply all_nd_remove_at, all_nd_remove_at. exact A. Qed.

Lemma all_nd_fold_rm_step h hes : forall ll, all_nd ll -> all_nd (fold_left (rm_step h) hes ll).
Proof. induction hes as [|he hes IH]; intros ll A; [exact A|]. cbn [fold_left]. apply IH. unfold rm_step. apply all_nd_remove_at, all_nd_remove_at. exact A. Qed.

(* ================================================================== deferred mode: views *)

Lemma cell_core_def_lists h s : deferred s = true -> let t := delete_cell_core h s in
  same_flags s t /\ out_hes t = out_hes s /\ (fbu s = false -> inc_hfs t = inc_hfs s).
Proof.
  intros D. cbv zeta. unfold delete_cell_core. rewrite D. cbn [negb]. rewrite andb_false_r. destruct (fbu s) eqn:Fb.
  - cbv zeta. match goal with |- context [if ebu ?u then reorder_edges ?es ?u else ?u] => set (es0 := es); set (u0 := u) end.
    assert (U : exists x, (if ebu u0 then reorder_edges es0 u0 else u0) = set_inc_hfs x u0).
    { destruct (ebu u0); [destruct (reorder_edges_frame2 es0 u0) as [x [-> _]]; exists x; reflexivity|exists (inc_hfs u0); symmetry; apply set_inc_hfs_self]. }
    destruct U as [x ->]. unfold u0. rsn. rewrite D. rsn. unfold same_flags. rsn. repeat split; try reflexivity. discriminate.
  - rewrite D. unfold same_flags. rsn. repeat split; reflexivity.
Qed.

Lemma face_core_def_lists h s : deferred s = true -> let t := delete_face_core h s in
  same_flags s t /\ out_hes t = out_hes s /\
  (fbu s = false -> inc_hfs t = (if ebu s then fold_left (rm_step h) (face_at s h) (inc_hfs s) else inc_hfs s)).
Proof.
  intros D. cbv zeta. destruct (ebu s) eqn:E.
  - rewrite (delete_face_core_eq h s D E). destruct (fold_fstep_frame h (face_at s h) s) as [x [Ex _]].
    split; [rewrite Ex; unfold flagf; rsn; repeat split; reflexivity|]. split; [rewrite Ex; reflexivity|].
    intros Fb. pose proof (face_loop_noreorder h s Fb) as FL. unfold face_loop in FL. rewrite E in FL. change (fstepF h) with (fstep h) in FL. rewrite FL. reflexivity.
  - unfold delete_face_core. rewrite D. cbn [negb]. rewrite andb_false_r, E, D. unfold same_flags. rsn. repeat split; reflexivity.
Qed.

Lemma edge_core_def_lists h s : deferred s = true -> let t := delete_edge_core h s in
  same_flags s t /\ out_hes t = (if vbu s then edge_out h s else out_hes s) /\ inc_hfs t = inc_hfs s.
Proof.
  intros D. cbv zeta. unfold delete_edge_core, edge_out. rewrite D. cbn [negb]. rewrite andb_false_r.
  destruct (edge_at s h) as [v0 v1]. unfold same_flags. destruct (vbu s) eqn:V; rsn; rewrite D; rsn; rewrite ?V; repeat split; reflexivity.
Qed.

Lemma vertex_core_def_lists h s : deferred s = true -> let t := delete_vertex_core h s in
  same_flags s t /\ out_hes t = out_hes s /\ inc_hfs t = inc_hfs s.
Proof. intros D. cbv zeta. unfold delete_vertex_core. rewrite D. cbn [negb]. rewrite andb_false_r, D. unfold same_flags. rsn. repeat split; reflexivity. Qed.

(* ================================================================== the removal of the LAST slot in fast mode, and any slot while shifting *)

(* cell *)
Lemma lists_nd_cell_last t : deferred t = false -> fast t = true -> lists_nd t -> lists_nd (delete_cell_core (nc t - 1) t).
Proof.
  intros D F L. destruct (fast_cell_view t D F) as (o & _ & ih & fl). cbv zeta in o, ih, fl. apply (lists_nd_same t); [exact fl|exact o| |exact L].
  intros Fb. rewrite ih. unfold cell_loop. rewrite Fb. reflexivity.
Qed.

Lemma lists_nd_cell_shift h s : deferred s = false -> fast s = false -> lists_nd s -> lists_nd (delete_cell_core h s).
Proof.
  intros D F L. pose proof (ShiftCompose.delete_cell_core_view h s D F) as V. cbv zeta in V.
  destruct V as (_&_&_&_&_&_&_&_& o &_&_& ih & (f1 & f2 & f3 & _)). apply (lists_nd_same s); [exact (conj f1 (conj f2 f3))|exact o| |exact L].
  intros Fb. apply ih. rewrite Fb. apply andb_false_r.
Qed.

(* face: the halfedge lists after the removal loop (no re-ordering: face incidences off) *)
Lemma inc_hfs_face_loop_nd l t : fbu t = false -> all_nd (inc_hfs t) -> all_nd (inc_hfs (face_loop l t)).
Proof. intros Fb A. rewrite (face_loop_noreorder l t Fb). rsn. destruct (ebu t); [apply all_nd_fold_rm_step; exact A|exact A]. Qed.

Lemma lists_nd_face_last t : deferred t = false -> fast t = true -> lists_nd t -> lists_nd (delete_face_core (nf t - 1) t).
Proof.
  intros D F [O Hf]. destruct (fast_face_view t D F) as (_ & o & _ & ih & (f1 & f2 & f3)). cbv zeta in o, ih, f1, f2, f3. split.
  - intros V. rewrite o. apply O. congruence.
  - intros Fb E. rewrite f3 in Fb. rewrite f2 in E. rewrite ih, E. apply inc_hfs_face_loop_nd; [exact Fb|exact (Hf Fb E)].
Qed.

Definition face_absent (h : nat) (s : mesh) : Prop := forall k x, In x (nth k (inc_hfs (face_loop h s)) []) -> x / 2 <> h.

Lemma lists_nd_face_shift h s : deferred s = false -> fast s = false -> (ebu s = true -> fbu s = false -> face_absent h s) ->
  lists_nd s -> lists_nd (delete_face_core h s).
Proof.
  intros D F Ab [O Hf]. pose proof (ShiftFace.delete_face_core_view h s D F) as V. cbv zeta in V.
  destruct V as (_&_&_&_&_&_&_&_& o &_& ih & (f1 & f2 & f3 & _)). split.
  - intros Vb. rewrite o. apply O. congruence.
  - intros Fb E. rewrite f3 in Fb. rewrite f2 in E. rewrite ih, E. apply cor2_inj_all; [exact (Ab E Fb)|].
    apply inc_hfs_face_loop_nd; [exact Fb|exact (Hf Fb E)].
Qed.

(* edge *)
Lemma lists_nd_edge_last t : deferred t = false -> fast t = true -> lists_nd t -> lists_nd (delete_edge_core (ne t - 1) t).
Proof.
  intros D F [O Hf]. destruct (fast_edge_view t D F) as (_ & o & ih & _ & (f1 & f2 & f3)). cbv zeta in o, ih, f1, f2, f3. split.
  - intros V. rewrite f1 in V. rewrite o, V. apply all_nd_edge_out. exact (O V).
  - intros Fb E. rewrite f3 in Fb. rewrite f2 in E. rewrite ih, E. apply all_nd_remove_nth, all_nd_remove_nth. exact (Hf Fb E).
Qed.

Definition edge_absent (h : nat) (s : mesh) : Prop := forall k x, In x (nth k (edge_out h s) []) -> x / 2 <> h.

Lemma lists_nd_edge_shift h s : deferred s = false -> fast s = false -> (vbu s = true -> edge_absent h s) ->
  lists_nd s -> lists_nd (delete_edge_core h s).
Proof.
  intros D F Ab [O Hf]. pose proof (ShiftEdge.delete_edge_core_view h s D F) as V. cbv zeta in V.
  destruct V as (_&_&_&_&_&_&_&_& o & ih &_& (f1 & f2 & f3 & _)). split.
  - intros Vb. rewrite f1 in Vb. rewrite o, Vb. apply cor2_inj_all; [exact (Ab Vb)|]. apply all_nd_edge_out. exact (O Vb).
  - intros Fb E. rewrite f3 in Fb. rewrite f2 in E. rewrite ih, E. apply all_nd_remove_nth, all_nd_remove_nth. exact (Hf Fb E).
Qed.

(* vertex *)
Lemma lists_nd_vertex_shift h s : deferred s = false -> fast s = false -> lists_nd s -> lists_nd (delete_vertex_core h s).
Proof.
  intros D F [O Hf]. pose proof (ShiftVertex.delete_vertex_core_view h s D F) as V. cbv zeta in V.
  destruct V as (_&_&_&_&_&_&_&_& o & ih &_& (f1 & f2 & f3 & _)). split.
  - intros Vb. rewrite f1 in Vb. rewrite o, Vb. apply all_nd_remove_nth. exact (O Vb).
  - intros Fb E. rewrite f3 in Fb. rewrite f2 in E. rewrite ih. exact (Hf Fb E).
Qed.

Lemma set_fast_lists_nd b s : lists_nd (set_fast b s) <-> lists_nd s.
Proof. reflexivity. Qed.

Lemma lists_nd_vertex_last t : deferred t = false -> fast t = true -> lists_nd t -> lists_nd (delete_vertex_core (nv t - 1) t).
Proof.
  intros D F L. rewrite (fast_vertex_last t D F). apply (proj2 (set_fast_lists_nd true _)).
  apply lists_nd_vertex_shift; [exact D|reflexivity|exact L].
Qed.

(* ================================================================== the four cores, every mode *)

Theorem lists_nd_cell_core h s : lists_nd s -> lists_nd (delete_cell_core h s).
Proof.
  intros L. destruct (deferred s) eqn:D.
  - destruct (cell_core_def_lists h s D) as (fl & o & ih). exact (lists_nd_same s _ fl o ih L).
  - destruct (fast s) eqn:F; [|exact (lists_nd_cell_shift h s D F L)].
    rewrite (fast_cell_split h s D F). set (t := swap_cell_indices h (nc s - 1) s).
    destruct (swap_cell_modes h (nc s - 1) s) as (Dt & Ft & Nt & _). fold t in Dt, Ft, Nt. rewrite <- Nt.
    apply lists_nd_cell_last; [congruence|congruence|apply lists_nd_swap_cell; exact L].
Qed.

Theorem lists_nd_face_core h s : (deferred s = false -> fast s = false -> ebu s = true -> fbu s = false -> face_absent h s) ->
  lists_nd s -> lists_nd (delete_face_core h s).
Proof.
  intros Ab L. destruct (deferred s) eqn:D.
  - destruct (face_core_def_lists h s D) as ((f1 & f2 & f3) & o & ih). destruct L as [O Hf]. split.
    + intros V. rewrite o. apply O. congruence.
    + intros Fb E. rewrite f3 in Fb. rewrite f2 in E. rewrite (ih Fb), E. apply all_nd_fold_rm_step. exact (Hf Fb E).
  - destruct (fast s) eqn:F; [|exact (lists_nd_face_shift h s D F (Ab eq_refl eq_refl) L)].
    rewrite (fast_face_split h s D F). set (t := swap_face_indices h (nf s - 1) s).
    destruct (swap_face_modes h (nf s - 1) s) as (Dt & Ft & Nt & _). fold t in Dt, Ft, Nt. rewrite <- Nt.
    apply lists_nd_face_last; [congruence|congruence|apply lists_nd_swap_face; exact L].
Qed.

Theorem lists_nd_edge_core h s : (deferred s = false -> fast s = false -> vbu s = true -> edge_absent h s) ->
  lists_nd s -> lists_nd (delete_edge_core h s).
Proof.
  intros Ab L. destruct (deferred s) eqn:D.
  - destruct (edge_core_def_lists h s D) as ((f1 & f2 & f3) & o & ih). destruct L as [O Hf]. split.
    + intros V. rewrite f1 in V. rewrite o, V. apply all_nd_edge_out. exact (O V).
    + intros Fb E. rewrite f3 in Fb. rewrite f2 in E. rewrite ih. exact (Hf Fb E).
  - destruct (fast s) eqn:F; [|exact (lists_nd_edge_shift h s D F (Ab eq_refl eq_refl) L)].
    rewrite (fast_edge_split h s D F). set (t := swap_edge_indices h (ne s - 1) s).
    destruct (swap_edge_modes h (ne s - 1) s) as (Dt & Ft & Nt & _). fold t in Dt, Ft, Nt. rewrite <- Nt.
    apply lists_nd_edge_last; [congruence|congruence|apply lists_nd_swap_edge; exact L].
Qed.

Theorem lists_nd_vertex_core h s : lists_nd s -> lists_nd (delete_vertex_core h s).
Proof.
  intros L. destruct (deferred s) eqn:D.
  - destruct (vertex_core_def_lists h s D) as (fl & o & ih). exact (lists_nd_same s _ fl o (fun _ => ih) L).
  - destruct (fast s) eqn:F; [|exact (lists_nd_vertex_shift h s D F L)].
    rewrite (fast_vertex_split h s D F). set (t := swap_vertex_indices h (nv s - 1) s).
    destruct (swap_vertex_modes h (nv s - 1) s) as (Dt & Ft & Nt & _). fold t in Dt, Ft, Nt. rewrite <- Nt.
    apply lists_nd_vertex_last; [congruence|congruence|apply lists_nd_swap_vertex; exact L].
Qed.
