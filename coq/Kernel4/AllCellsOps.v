(* Kernel4/AllCellsOps.v -- cells_from (Kernel4/AllCells.v) for the operations that renumber: immediate deletions (renumbered
   survivors, Kernel3/FastModes.v), deferred deletions (flags only), collect_garbage (rank / the fast bijections), the four swaps. *)
From Coq Require Import ZArith Lia Bool Arith List ZifyNat ZifyBool.
From OVM Require Import Base.ListX Base.ListLemmas Kernel.State Kernel.Ops Kernel.Mirror Kernel.Recompute Kernel.Closure Kernel.ExactInv
                        Kernel.DeferredDelete Kernel.SwapEffects Kernel.SwapInvol Kernel.ShiftFace Kernel.ShiftCompose Kernel2.ExactBase
                        Kernel3.FastDefs Kernel3.FastBase Kernel3.FastMany Kernel3.FastModes Kernel3.FastModes2 Kernel3.FastPublic2
                        Kernel3.GcDefs Kernel3.GcList Kernel3.GcInv Kernel3.GcMain Kernel3.GcDeferred Kernel3.GcTwoStage Kernel3.GcCommute
                        Kernel3.GcFastBase Kernel3.GcFastChain Kernel3.GcFastMain
                        Kernel4.AllDefs Kernel4.AllFaces Kernel4.AllFacesDel Kernel4.AllFacesGc Kernel4.AllFacesSwap Kernel4.AllCells.
Import ListNotations.
Ltac Zify.zify_post_hook ::= Z.div_mod_to_equations.
Local Open Scope nat_scope.

(* ================================================================== renumbered survivors: the immediate deletions *)

Theorem cells_from_renumbered s t vs es fs cs sv se sf sc :
  renumbered s t vs es fs cs sv se sf sc -> closed_under s vs es fs ->
  (forall c, c < nc s -> ~ In c cs -> forall hf, In hf (cell_at s c) -> ~ In (hf / 2) fs) ->
  (forall c, c_deleted s c = false) -> cells_from s t.
Proof.
  intros ((_ & _ & _ & Nc) & (_ & Be & Bf & Bc) & _ & RF & RC) (_ & C2 & C3) C4 NFc.
  exists se, sf, (fun c c' => c < nc s /\ ~ In c cs /\ sc c = c'). split; [|split; [|split; [|split]]].
  - intros c' [Hc' _]. destruct Bc as (_ & _ & Sur). rewrite Nc in Hc'. destruct (Sur c' Hc') as (c & Hc & Nin & E). exists c. auto.
  - intros c c' (Hc & Nin & <-). split; [exact (conj Hc (NFc c))|]. split; [exact (RC c Hc Nin)|].
    intros hf Hhf. exact (RF (hf / 2) (C3 c Hc hf Hhf) (C4 c Hc Nin hf Hhf)).
  - intros c c1 c2 (_ & _ & <-) (_ & _ & <-). reflexivity.
  - intros c1 c1' c2 c2' hf1 hf2 (H1 & N1 & _) (H2 & N2 & _) I1 I2 E. destruct Bf as (_ & Inj & _).
    exact (Inj _ _ (C3 c1 H1 hf1 I1) (C3 c2 H2 hf2 I2) (C4 c1 H1 N1 hf1 I1) (C4 c2 H2 N2 hf2 I2) E).
  - intros c c' hf1 hf2 h1 h2 (Hc & Nin & _) I1 I2 J1 J2 E. destruct Be as (_ & Inj & _).
    destruct (C2 (hf1 / 2) (C3 c Hc hf1 I1) (C4 c Hc Nin hf1 I1) h1 J1) as [A1 B1].
    destruct (C2 (hf2 / 2) (C3 c Hc hf2 I2) (C4 c Hc Nin hf2 I2) h2 J2) as [A2 B2].
    exact (Inj _ _ A1 A2 B1 B2 E).
Qed.

Lemma no_cflags_of_shift_inv2 s : shift_inv2 s -> forall c, c_deleted s c = false.
Proof. intros [((_ & _ & _ & NFc) & _) _]. exact NFc. Qed.

Theorem cells_from_delete_vertex_imm v s : deferred s = false -> shift_inv2 s -> v < nv s -> cells_from s (delete_vertex v s).
Proof.
  intros D I Hv. destruct (mode_independent_vertex v s D I Hv) as ((Rf & Rs & _) & _). destruct (closure_vertex_ok v s I Hv) as (_ & C & C4).
  destruct (fast s) eqn:F.
  - rewrite (set_fast_true_self s F) in Rf. exact (cells_from_renumbered _ _ _ _ _ _ _ _ _ _ Rf C C4 (no_cflags_of_shift_inv2 s I)).
  - rewrite (set_fast_false_self s F) in Rs. exact (cells_from_renumbered _ _ _ _ _ _ _ _ _ _ Rs C C4 (no_cflags_of_shift_inv2 s I)).
Qed.

Theorem cells_from_delete_edge_imm e s : deferred s = false -> shift_inv2 s -> e < ne s -> cells_from s (delete_edge e s).
Proof.
  intros D I He. destruct (mode_independent_edge e s D I He) as ((Rf & Rs & _) & _). destruct (closure_edge_ok e s I He) as (_ & C & C4).
  destruct (fast s) eqn:F.
  - rewrite (set_fast_true_self s F) in Rf. exact (cells_from_renumbered _ _ _ _ _ _ _ _ _ _ Rf C C4 (no_cflags_of_shift_inv2 s I)).
  - rewrite (set_fast_false_self s F) in Rs. exact (cells_from_renumbered _ _ _ _ _ _ _ _ _ _ Rs C C4 (no_cflags_of_shift_inv2 s I)).
Qed.

Theorem cells_from_delete_face_imm f s : deferred s = false -> shift_inv2 s -> f < nf s -> cells_from s (delete_face f s).
Proof.
  intros D I Hf. destruct (mode_independent_face f s D I Hf) as ((Rf & Rs & _) & _). destruct (closure_face_ok f s I Hf) as (_ & C & C4).
  destruct (fast s) eqn:F.
  - rewrite (set_fast_true_self s F) in Rf. exact (cells_from_renumbered _ _ _ _ _ _ _ _ _ _ Rf C C4 (no_cflags_of_shift_inv2 s I)).
  - rewrite (set_fast_false_self s F) in Rs. exact (cells_from_renumbered _ _ _ _ _ _ _ _ _ _ Rs C C4 (no_cflags_of_shift_inv2 s I)).
Qed.

Theorem cells_from_delete_cell_imm c s : deferred s = false -> shift_inv2 s -> c < nc s -> cells_from s (delete_cell c s).
Proof.
  intros D I Hc. destruct (mode_independent_cell c s D I Hc) as ((Rf & Rs & _) & _). destruct (closure_cell_ok c s I Hc) as (_ & C & C4).
  destruct (fast s) eqn:F.
  - rewrite (set_fast_true_self s F) in Rf. exact (cells_from_renumbered _ _ _ _ _ _ _ _ _ _ Rf C C4 (no_cflags_of_shift_inv2 s I)).
  - rewrite (set_fast_false_self s F) in Rs. exact (cells_from_renumbered _ _ _ _ _ _ _ _ _ _ Rs C C4 (no_cflags_of_shift_inv2 s I)).
Qed.

(* ================================================================== deferred deletions *)

Theorem cells_from_dstep s t dv de df dc : dstep s t dv de df dc -> length (cdel s) = nc s -> cells_from s t.
Proof.
  intros (_ & _ & x3 & x4 & _ & _ & _ & x8 & _) L. apply cells_from_same; [exact x4| |].
  - intros c Hc Hd. unfold c_deleted in Hd. rewrite x8 in Hd. apply flag_read in Hd; [|rewrite L; exact Hc]. exact (proj1 Hd).
  - intros c hf _ _. unfold face_at. rewrite x3. reflexivity.
Qed.

(* ================================================================== collect_garbage, index-shifting mode *)

Theorem cells_from_gc_nonfast d : gc_ready d -> fast d = false -> cells_from d (collect_garbage d).
Proof.
  intros R F. destruct (col_up d R) as ((_ & U2 & U3) & (_ & R2 & R3)). destruct (col_counts d R F) as (_ & _ & _ & Nc).
  exists (rank (edel d)), (rank (fdel d)), (fun c c' => live_cell d c /\ rank (cdel d) c = c'). split; [|split; [|split; [|split]]].
  - intros c' [Hc' _]. rewrite Nc in Hc'. destruct (unrank_spec (cdel d) (nc d) c' Hc') as (A & B & E).
    exists (unrank (cdel d) (nc d) c'). exact (conj (conj A B) E).
  - intros c c' ([A B] & <-). split; [exact (conj A B)|]. split; [exact (col_cell d R F c A B)|].
    intros hf Hhf. pose proof (R3 c A B hf Hhf). exact (col_face d R F (hf / 2) ltac:(lia) (U3 c A B hf Hhf)).
  - intros c c1 c2 (_ & <-) (_ & <-). reflexivity.
  - intros c1 c1' c2 c2' hf1 hf2 ([A1 B1] & _) ([A2 B2] & _) I1 I2 E.
    exact (rank_inj_live (fdel d) _ _ (U3 c1 A1 B1 hf1 I1) (U3 c2 A2 B2 hf2 I2) E).
  - intros c c' hf1 hf2 h1 h2 ([A B] & _) I1 I2 J1 J2 E.
    pose proof (R3 c A B hf1 I1). pose proof (R3 c A B hf2 I2).
    exact (rank_inj_live (edel d) _ _ (U2 (hf1 / 2) ltac:(lia) (U3 c A B hf1 I1) h1 J1) (U2 (hf2 / 2) ltac:(lia) (U3 c A B hf2 I2) h2 J2) E).
Qed.

(* ================================================================== collect_garbage, fast mode *)

Lemma live_c_iff s c : live_c s c = true <-> c < nc s /\ c_deleted s c = false.
Proof. unfold live_c. rewrite andb_true_iff, Nat.ltb_lt, negb_true_iff. tauto. Qed.

Theorem cells_from_gc_fast_post s t rv re rf rc : gc_fast_post s t rv re rf rc -> refs_ok s -> up_closed s -> cells_from s t.
Proof.
  intros (_ & _ & _ & Nc & _ & (_ & Ie) & (_ & If) & (Rc & Ic) & _ & DF & DC & _) (_ & R2 & R3) (_ & U2 & U3).
  assert (LF : forall c hf, c < nc s -> c_deleted s c = false -> In hf (cell_at s c) -> live_f s (hf / 2) = true).
  { intros c hf A B Hhf. apply live_f_iff. pose proof (R3 c A B hf Hhf). split; [lia|exact (U3 c A B hf Hhf)]. }
  assert (LE : forall f h, live_f s f = true -> In h (face_at s f) -> live_e s (h / 2) = true).
  { intros f h Lf Hh. apply live_f_iff in Lf. destruct Lf as [A B]. apply live_e_iff. pose proof (R2 f A B h Hh). split; [lia|exact (U2 f A B h Hh)]. }
  exists re, rf, (fun c c' => live_c s c = true /\ rc c = c'). split; [|split; [|split; [|split]]].
  - intros c' [Hc' _]. rewrite Nc in Hc'.
    destruct (inj_onto rc (live_cells s) (NoDup_live_cells s)) with (k := c') as (c & Lc & E).
    + intros i Hi. rewrite <- Nc. apply Rc. apply live_c_iff. apply In_live_cells. exact Hi.
    + intros i j Hi Hj. apply Ic; apply live_c_iff; apply In_live_cells; assumption.
    + exact Hc'.
    + exists c. split; [apply live_c_iff; apply In_live_cells; exact Lc|exact E].
  - intros c c' (Lc & <-). pose proof (proj1 (live_c_iff s c) Lc) as [A B]. split; [exact (conj A B)|]. split; [exact (DC c Lc)|].
    intros hf Hhf. exact (DF (hf / 2) (LF c hf A B Hhf)).
  - intros c c1 c2 (_ & <-) (_ & <-). reflexivity.
  - intros c1 c1' c2 c2' hf1 hf2 (L1 & _) (L2 & _) I1 I2 E. apply live_c_iff in L1, L2. destruct L1 as [A1 B1]. destruct L2 as [A2 B2].
    exact (If _ _ (LF c1 hf1 A1 B1 I1) (LF c2 hf2 A2 B2 I2) E).
  - intros c c' hf1 hf2 h1 h2 (Lc & _) I1 I2 J1 J2 E. apply live_c_iff in Lc. destruct Lc as [A B].
    exact (Ie _ _ (LE _ h1 (LF c hf1 A B I1) J1) (LE _ h2 (LF c hf2 A B I2) J2) E).
Qed.

(* ================================================================== swaps *)

(* cell slots exchanged *)
Theorem cells_from_cell_swap s t a b : a < nc s -> b < nc s -> length (cdel s) = nc s ->
  faces t = faces s -> cells t = swap_nth a b [] (cells s) -> cdel t = swap_nth a b false (cdel s) -> cells_from s t.
Proof.
  intros Ha Hb L Fa Ce D. exists (fun e => e), (fun f => f), (fun c c' => live_cell s c /\ c' = tr a b c).
  split; [|split; [|split; [|split]]].
  - intros c' [Hc' Hd']. unfold nc in Hc'. rewrite Ce, swap_nth_length in Hc'. fold (nc s) in Hc'. exists (tr a b c'). split.
    + split; [apply (tr_lt a b (nc s)); assumption|]. unfold c_deleted in *. rewrite D in Hd'. rewrite nth_swap_tr in Hd' by (rewrite L; assumption). exact Hd'.
    + symmetry. apply tr_involutive.
  - intros c c' ([Hc Hd] & ->). split; [exact (conj Hc Hd)|]. split.
    + unfold cell_at. rewrite Ce, nth_swap_tr by assumption. rewrite tr_involutive, map_r2_id. reflexivity.
    + intros hf _. unfold face_at. rewrite Fa, map_r2_id. reflexivity.
  - intros c c1 c2 (_ & ->) (_ & ->). reflexivity.
  - intros c1 c1' c2 c2' hf1 hf2 _ _ _ _ E. exact E.
  - intros c c' hf1 hf2 h1 h2 _ _ _ _ _ E. exact E.
Qed.

(* face slots exchanged, halffaces of the live cells renamed *)
Theorem cells_from_face_swap s t a b : a < nf s -> b < nf s ->
  (forall c, c < nc s -> c_deleted s c = false -> forall hf, In hf (cell_at s c) -> hf < 2 * nf s) ->
  faces t = swap_nth a b [] (faces s) -> nc t = nc s -> cdel t = cdel s ->
  (forall c, c < nc s -> c_deleted s c = false -> cell_at t c = map (swap_half a b) (cell_at s c)) -> cells_from s t.
Proof.
  intros Ha Hb R Fa N D Ce. exists (fun e => e), (tr a b), (fun c c' => live_cell s c /\ c' = c).
  split; [|split; [|split; [|split]]].
  - intros c' [Hc' Hd']. rewrite N in Hc'. unfold c_deleted in Hd'. rewrite D in Hd'. exists c'. split; [exact (conj Hc' Hd')|reflexivity].
  - intros c c' ([Hc Hd] & ->). split; [exact (conj Hc Hd)|]. split.
    + rewrite (Ce c Hc Hd). apply map_ext. intros x. apply swap_half_is_r2.
    + intros hf Hhf. pose proof (R c Hc Hd hf Hhf). unfold face_at. rewrite Fa, nth_swap_tr by assumption. rewrite tr_involutive, map_r2_id. reflexivity.
  - intros c c1 c2 (_ & ->) (_ & ->). reflexivity.
  - intros c1 c1' c2 c2' hf1 hf2 _ _ _ _ E. exact (tr_inj a b _ _ E).
  - intros c c' hf1 hf2 h1 h2 _ _ _ _ _ E. exact E.
Qed.

(* halfedges of the live faces renamed *)
Theorem cells_from_edge_swap s t a b :
  (forall c, c < nc s -> c_deleted s c = false -> forall hf, In hf (cell_at s c) -> hf / 2 < nf s /\ f_deleted s (hf / 2) = false) ->
  cells t = cells s -> cdel t = cdel s ->
  (forall f, f < nf s -> f_deleted s f = false -> face_at t f = map (swap_half a b) (face_at s f)) -> cells_from s t.
Proof.
  intros R Ce D Fa. exists (tr a b), (fun f => f), (fun c c' => live_cell s c /\ c' = c).
  split; [|split; [|split; [|split]]].
  - intros c' [Hc' Hd']. unfold nc in Hc'. rewrite Ce in Hc'. unfold c_deleted in Hd'. rewrite D in Hd'. exists c'. split; [exact (conj Hc' Hd')|reflexivity].
  - intros c c' ([Hc Hd] & ->). split; [exact (conj Hc Hd)|]. split; [unfold cell_at; rewrite Ce, map_r2_id; reflexivity|].
    intros hf Hhf. destruct (R c Hc Hd hf Hhf) as [A B]. rewrite (Fa _ A B). apply map_ext. intros x. apply swap_half_is_r2.
  - intros c c1 c2 (_ & ->) (_ & ->). reflexivity.
  - intros c1 c1' c2 c2' hf1 hf2 _ _ _ _ E. exact E.
  - intros c c' hf1 hf2 h1 h2 _ _ _ _ _ E. exact (tr_inj a b _ _ E).
Qed.
