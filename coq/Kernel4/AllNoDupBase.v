(* Kernel4/AllNoDupBase.v -- duplicate-freeness of the cache LISTS (vertex -> outgoing halfedges, halfedge -> incident halffaces) as
   an invariant of its own: with the face incidences off nothing re-orders the halfedge->halfface lists and no existing theorem says
   they stay duplicate-free; the vertex lists are covered by no history theorem at all.  all_nd ll: every slot of ll (a missing
   slot reads []) is duplicate-free.  This file: all_nd through the list primitives the kernel uses, and through the four swaps. *)
From Coq Require Import ZArith Lia Bool Arith List ZifyNat ZifyBool.
From OVM Require Import Base.ListX Base.ListLemmas Base.ListLemmas2 Kernel.State Kernel.Ops Kernel.Mirror Kernel.Recompute Kernel.Closure Kernel.ExactInv Kernel.ExactDelete
                        Kernel.SwapEffects Kernel.InvB Kernel.ShiftFace Kernel2.ReorderExact Kernel2.ExactBase Kernel3.GcDefs
                        Kernel4.AllDefs Kernel4.AllStaleFace Kernel4.AllStaleEdge Kernel4.AllStaleVertex.
Import ListNotations.
Ltac Zify.zify_post_hook ::= Z.div_mod_to_equations.
Local Open Scope nat_scope.

(* ================================================================== all slots duplicate-free *)

Lemma all_nd_nil : all_nd [].
Proof. intros [|k]; constructor. Qed.

Lemma all_nd_upd i l ll : NoDup l -> all_nd ll -> all_nd (upd i l ll).
Proof. intros Nl A k. rewrite nth_upd. destruct ((i =? k) && (i <? length ll)); [exact Nl|exact (A k)]. Qed.

Lemma NoDup_remove_val x l : NoDup l -> NoDup (remove_val x l).
Proof. intros N. unfold remove_val. apply NoDup_filter. exact N. Qed.

Lemma all_nd_remove_at i x ll : all_nd ll -> all_nd (remove_at i x ll).
Proof. intros A. unfold remove_at. apply all_nd_upd; [apply NoDup_remove_val; exact (A i)|exact A]. Qed.

Lemma all_nd_push_at i x ll : ~ In x (nth i ll []) -> all_nd ll -> all_nd (push_at i x ll).
Proof.
  intros Nin A. unfold push_at. apply all_nd_upd; [|exact A]. apply NoDup_app_intro; [exact (A i)|repeat constructor; simpl; tauto|].
  intros y Hy [<-|[]]. exact (Nin Hy).
Qed.

Lemma all_nd_remove_nth i ll : all_nd ll -> all_nd (remove_nth i ll).
Proof. intros A k. rewrite nth_remove_nth. destruct (k <? i); apply A. Qed.

Lemma all_nd_swap_nth i j ll : all_nd ll -> all_nd (swap_nth i j [] ll).
Proof. intros A. unfold swap_nth. cbv zeta. apply all_nd_upd; [apply A|]. apply all_nd_upd; [apply A|exact A]. Qed.

Lemma all_nd_resize n ll : all_nd ll -> all_nd (resize n [] ll).
Proof.
  intros A k. destruct (Nat.lt_ge_cases k n) as [H|H].
  - rewrite nth_resize by exact H. destruct (k <? length ll); [apply A|constructor].
  - rewrite nth_overflow by (rewrite resize_length; exact H). constructor.
Qed.

Lemma all_nd_map (g : nat -> nat) ll : (forall k x y, In x (nth k ll []) -> In y (nth k ll []) -> g x = g y -> x = y) -> all_nd ll -> all_nd (map (map g) ll).
Proof.
  intros Inj A k. change (@nil nat) with (map g []). rewrite map_nth. apply NoDup_map_inj_on; [apply A|]. intros x y. apply Inj.
Qed.

Lemma all_nd_map_at i (g : nat -> nat) ll : (forall x y, g x = g y -> x = y) -> all_nd ll -> all_nd (map_at i g ll).
Proof. intros Inj A. unfold map_at. apply all_nd_upd; [|exact A]. apply NoDup_map_inj_on; [apply A|]. intros x y _ _. apply Inj. Qed.

Lemma all_nd_repeat n : all_nd (repeat [] n).
Proof. intros k. rewrite nth_repeat. constructor. Qed.

(* a loop that maps each slot it walks once through an injective renaming *)
Lemma all_nd_fold_map_at (g : nat -> nat) l : (forall x y, g x = g y -> x = y) -> forall ll done, all_nd ll ->
  all_nd (fst (fold_left (fun (acc : list (list nat) * list nat) (k : nat) =>
                            let '(ll, done) := acc in if memb k done then acc else (map_at k g ll, k :: done)) l (ll, done))).
Proof.
  intros Inj. induction l as [|k l IH]; intros ll done A; [exact A|]. cbn [fold_left]. destruct (memb k done); [apply IH; exact A|].
  apply IH. apply all_nd_map_at; assumption.
Qed.

Lemma swap_half_inj' a b x y : swap_half a b x = swap_half a b y -> x = y.
Proof. intros E. rewrite <- (swap_half_involutive a b x), <- (swap_half_involutive a b y), E. reflexivity. Qed.

Lemma cor2_inj_all h ll : (forall k x, In x (nth k ll []) -> x / 2 <> h) -> all_nd ll -> all_nd (map (map (cor2 (2 * h + 1))) ll).
Proof. intros Ab A. apply all_nd_map; [|exact A]. intros k x y Hx Hy. exact (cor2_inj_on h x y (Ab k x Hx) (Ab k y Hy)). Qed.

(* ================================================================== the invariant *)

(* what is tracked step by step: the vertex lists always, the halfedge lists while nothing re-orders them (with both kinds on
   the second part of lists_nodup - Kernel4/AllDefs.v - is in ginv already) *)
Definition lists_nd (s : mesh) : Prop := outs_nd s /\ (fbu s = false -> hfs_nd s).

Lemma slots_nodup_all_nd s : slots_nodup s -> length (inc_hfs s) = 2 * ne s -> all_nd (inc_hfs s).
Proof.
  intros SN L k. destruct (Nat.lt_ge_cases k (2 * ne s)) as [H|H]; [exact (SN k H)|]. rewrite nth_overflow by (rewrite L; exact H). constructor.
Qed.

Lemma all_nd_slots_nodup s : all_nd (inc_hfs s) -> slots_nodup s.
Proof. intros A k _. exact (A k). Qed.

Theorem lists_nodup_of s : ginv s -> lists_nd s -> lists_nodup s.
Proof.
  intros ((_ & _ & _ & _ & (_ & L2 & _)) & _ & _ & X) [O Hf]. split; [exact O|]. intros E. destruct (fbu s) eqn:Fb; [|exact (Hf eq_refl E)].
  exact (slots_nodup_all_nd s (proj1 (X E Fb)) (L2 E)).
Qed.

Lemma lists_nd_of s : lists_nodup s -> lists_nd s.
Proof. intros [O Hf]. split; [exact O|intros _; exact Hf]. Qed.

(* ================================================================== the four swaps: unconditional *)

Lemma out_hes_sf_rest a b X s : out_hes (sf_rest a b X s) = out_hes s.
Proof. unfold sf_rest. cbv zeta. rsf. destruct (ebu s); destruct (fbu s); reflexivity. Qed.

Lemma flags_sf_rest a b X s : vbu (sf_rest a b X s) = vbu s /\ ebu (sf_rest a b X s) = ebu s /\ fbu (sf_rest a b X s) = fbu s.
Proof. unfold sf_rest. cbv zeta. rsf. destruct (ebu s) eqn:E; destruct (fbu s) eqn:F; rsf; rewrite ?E, ?F; repeat split; reflexivity. Qed.

Lemma inc_hfs_sf_rest_nd a b X s : all_nd (inc_hfs s) -> all_nd (inc_hfs (sf_rest a b X s)).
Proof.
  intros A. unfold sf_rest. cbv zeta. rsf. destruct (ebu s) eqn:E; destruct (fbu s); rsf; try exact A.
  all: apply all_nd_fold_map_at; [apply swap_half_inj'|exact A].
Qed.

Theorem lists_nd_swap_face a b s : lists_nd s -> lists_nd (swap_face_indices a b s).
Proof.
  intros [O Hf]. destruct (Nat.eq_dec a b) as [->|N]; [rewrite swap_face_self; exact (conj O Hf)|].
  rewrite (swap_face_split a b s N). destruct (flags_sf_rest a b (sf_cells1 a b s) s) as (f1 & f2 & f3). split.
  - intros V. rewrite f1 in V. rewrite out_hes_sf_rest. exact (O V).
  - intros Fb E. rewrite f3 in Fb. rewrite f2 in E. apply inc_hfs_sf_rest_nd. exact (Hf Fb E).
Qed.

Lemma flags_se_rest a b X s : vbu (se_rest a b X s) = vbu s /\ ebu (se_rest a b X s) = ebu s /\ fbu (se_rest a b X s) = fbu s.
Proof.
  unfold se_rest. cbv zeta. rsf. change (edge_at (set_faces X s)) with (edge_at s).
  destruct (vbu s) eqn:V; destruct (ebu s) eqn:E; destruct (edge_at s a); destruct (edge_at s b); rsf; rewrite ?V, ?E; repeat split; reflexivity.
Qed.

Lemma out_hes_se_rest_nd a b X s : all_nd (out_hes s) -> all_nd (out_hes (se_rest a b X s)).
Proof.
  intros A. unfold se_rest. cbv zeta. rsf. change (edge_at (set_faces X s)) with (edge_at s).
  destruct (vbu s); destruct (ebu s); destruct (edge_at s a) as [a0 a1]; destruct (edge_at s b) as [b0 b1]; rsf; try exact A.
  all: apply all_nd_fold_map_at; [apply swap_half_inj'|exact A].
Qed.

Lemma inc_hfs_se_rest_nd a b X s : all_nd (inc_hfs s) -> all_nd (inc_hfs (se_rest a b X s)).
Proof.
  intros A. unfold se_rest. cbv zeta. rsf. change (edge_at (set_faces X s)) with (edge_at s).
  destruct (vbu s); destruct (ebu s); destruct (edge_at s a) as [a0 a1]; destruct (edge_at s b) as [b0 b1]; rsf; try exact A.
  all: apply all_nd_swap_nth; apply all_nd_swap_nth; exact A.
Qed.

Theorem lists_nd_swap_edge a b s : lists_nd s -> lists_nd (swap_edge_indices a b s).
Proof.
  intros [O Hf]. destruct (Nat.eq_dec a b) as [->|N]; [rewrite swap_edge_self; exact (conj O Hf)|].
  rewrite (swap_edge_split a b s N). destruct (flags_se_rest a b (se_faces1 a b s) s) as (f1 & f2 & f3). split.
  - intros V. rewrite f1 in V. apply out_hes_se_rest_nd. exact (O V).
  - intros Fb E. rewrite f3 in Fb. rewrite f2 in E. apply inc_hfs_se_rest_nd. exact (Hf Fb E).
Qed.

Lemma flags_sv_rest a b X s : vbu (sv_rest a b X s) = vbu s /\ ebu (sv_rest a b X s) = ebu s /\ fbu (sv_rest a b X s) = fbu s.
Proof. unfold sv_rest. cbv zeta. rsf. destruct (vbu s) eqn:V; rsf; rewrite ?V; repeat split; reflexivity. Qed.

Theorem lists_nd_swap_vertex a b s : lists_nd s -> lists_nd (swap_vertex_indices a b s).
Proof.
  intros [O Hf]. destruct (Nat.eq_dec a b) as [->|N]; [rewrite swap_vertex_self; exact (conj O Hf)|].
  rewrite (swap_vertex_split a b s N). destruct (flags_sv_rest a b (sv_edges1 a b s) s) as (f1 & f2 & f3). split.
  - intros V. rewrite f1 in V. unfold sv_rest. cbv zeta. rsf. rewrite V. rsf. apply all_nd_swap_nth. exact (O V).
  - intros Fb E. rewrite f3 in Fb. rewrite f2 in E. unfold sv_rest. cbv zeta. rsf. destruct (vbu s); exact (Hf Fb E).
Qed.

Theorem lists_nd_swap_cell a b s : lists_nd s -> lists_nd (swap_cell_indices a b s).
Proof.
  intros [O Hf]. destruct (Nat.eq_dec a b) as [->|N]; [rewrite swap_cell_self; exact (conj O Hf)|].
  pose proof (swap_cell_effect a b s N) as E. cbv zeta in E. destruct E as (_&_&_&_&_&_&_&_&_&e10&e11&_&_&_&_&_&_&_&(f1&f2&f3&_)&_).
  split; [intros V; rewrite e10; apply O; congruence|]. intros Fb Eb. rewrite e11. apply Hf; congruence.
Qed.

(* ================================================================== the checker is sound *)

Lemma all_nd_b_sound ll : all_nd_b ll = true -> all_nd ll.
Proof.
  unfold all_nd_b. rewrite forallb_forall. intros H k. destruct (Nat.lt_ge_cases k (length ll)) as [Hk|Hk].
  - apply InvB.nodup_b_spec. apply H. apply nth_In. exact Hk.
  - rewrite nth_overflow by exact Hk. constructor.
Qed.

Theorem lists_nodup_b_sound s : lists_nodup_b s = true -> lists_nodup s.
Proof.
  unfold lists_nodup_b. rewrite andb_true_iff. intros [A B]. split; intros X; rewrite X in *; cbn [negb orb] in *; apply all_nd_b_sound; assumption.
Qed.
