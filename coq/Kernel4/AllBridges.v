(* Kernel4/AllBridges.v -- the unified invariant all_inv (Kernel4/AllDefs.v): soundness of its checker, and the bridges to the
   invariants of the three existing history theorems:
     all_inv + deferred mode                    -> gc_ready            (the hypothesis of the collection theorems, Kernel3/Gc*.v)
     all_inv + deferred mode + both incidences  <-> Hinv               (Kernel3/GcHist.v: bu_inv2 + up_closed + counters + sizes)
     all_inv + nothing flagged                  -> shift_inv2          (the invariant of the immediate modes, Kernel/Shift*.v)
     all_inv + immediate mode                   -> fast_inv            (Kernel3/FastHistory.v: shift_inv2 + nothing pending)
     shift_inv2 + szd + faces_simple + nothing pending -> all_inv. *)
From Coq Require Import ZArith Lia Bool Arith List ZifyNat ZifyBool.
From OVM Require Import Base.ListX Base.ListLemmas Kernel.State Kernel.Ops Kernel.Mirror Kernel.Closure Kernel.ExactInv Kernel.InvB Kernel.Sizes
                        Kernel.DeferredDelete Kernel.SwapInvol Kernel.ShiftFace Kernel.ShiftCompose
                        Kernel2.LookupModel Kernel2.ReorderExact Kernel2.ExactBase Kernel2.ExactHistory
                        Kernel3.FastDeferred Kernel3.FastHistory Kernel3.GcDefs Kernel3.GcInv Kernel3.GcMain Kernel3.GcDeferred Kernel3.GcHist
                        Kernel4.AllDefs.
Import ListNotations.
Local Open Scope nat_scope.

(* ================================================================== the checker is sound *)

Lemma psized_b_sound n l : psized_b n l = true -> psized n l.
Proof. unfold psized_b. rewrite forallb_forall. intros H p Hp. apply Nat.eqb_eq. exact (H p Hp). Qed.

Lemma szd_b_sound s : szd_b s = true -> szd s.
Proof.
  unfold szd_b. rewrite !andb_true_iff, !Nat.eqb_eq. intros [[[[[[[[[[a b] c] d] e] f] g] h] i] j] k].
  unfold szd. repeat (split; [first [assumption | apply psized_b_sound; assumption]|]). apply psized_b_sound. exact k.
Qed.

Lemma faces_simple_live_b_sound s : faces_simple_live_b s = true -> faces_simple s.
Proof.
  unfold faces_simple_live_b. rewrite forallb_forall. intros H f Hf Hd. specialize (H f ltac:(apply in_seq; lia)).
  rewrite Hd in H. cbn [orb] in H. unfold simple_hes_b in H. apply andb_true_iff in H. destruct H as [A B]. rewrite forallb_forall in B.
  split; [apply nodup_b_spec; exact A|]. intros h Hh Hin. specialize (B h Hh). apply memb_In in Hin. rewrite Hin in B. discriminate.
Qed.

Lemma cnt_inv_b_sound s : cnt_inv_b s = true -> cnt_inv s.
Proof. unfold cnt_inv_b, cnt_inv. rewrite !andb_true_iff, !Nat.leb_le. tauto. Qed.

Lemma no_pending_b_sound s : no_pending_b s = true -> no_pending s.
Proof. unfold no_pending_b, no_pending. rewrite !andb_true_iff, !Nat.eqb_eq. tauto. Qed.

Theorem all_inv_b_sound s : all_inv_b s = true -> all_inv s.
Proof.
  unfold all_inv_b. rewrite !andb_true_iff. intros [[[[A B] C] D] E].
  split; [apply ginv_b_sound; exact A|]. split; [apply szd_b_sound; exact B|]. split; [apply faces_simple_live_b_sound; exact C|].
  split; [apply cnt_inv_b_sound; exact D|]. intros Df. rewrite Df in E. cbn [orb] in E. apply andb_true_iff in E. destruct E as [E1 E2].
  split; [apply no_flags_b_sound; exact E1|apply no_pending_b_sound; exact E2].
Qed.

(* ================================================================== counters *)

Lemma ntrue_all_false l : (forall i, nth i l false = false) -> ntrue l = 0.
Proof.
  induction l as [|b l IH]; intros H; [reflexivity|]. unfold ntrue in *. cbn [filter].
  pose proof (H 0) as H0. cbn [nth] in H0. subst b. apply IH. intros i. exact (H (S i)).
Qed.

Lemma cnt_inv_no_flags s : no_flags s -> cnt_inv s.
Proof.
  intros (a & b & c & d). unfold cnt_inv. rewrite (ntrue_all_false _ a), (ntrue_all_false _ b), (ntrue_all_false _ c), (ntrue_all_false _ d). lia.
Qed.

Lemma no_pending_needs_gc s : needs_gc s = false <-> no_pending s.
Proof. unfold needs_gc, no_pending. rewrite !orb_false_iff, !Nat.ltb_ge. lia. Qed.

(* ================================================================== projections *)

Lemma all_inv_ginv s : all_inv s -> ginv s.                 Proof. intros H. exact (proj1 H). Qed.
Lemma all_inv_szd s : all_inv s -> szd s.                   Proof. intros H. exact (proj1 (proj2 H)). Qed.
Lemma all_inv_sized s : all_inv s -> sized s.               Proof. intros H. apply szd_sized. exact (all_inv_szd s H). Qed.
Lemma all_inv_faces_simple s : all_inv s -> faces_simple s. Proof. intros H. exact (proj1 (proj2 (proj2 H))). Qed.
Lemma all_inv_cnt s : all_inv s -> cnt_inv s.               Proof. intros H. exact (proj1 (proj2 (proj2 (proj2 H)))). Qed.
Lemma all_inv_quiet s : all_inv s -> deferred s = false -> no_flags s /\ no_pending s.
Proof. intros H. exact (proj2 (proj2 (proj2 (proj2 H)))). Qed.
Lemma all_inv_bu_inv s : all_inv s -> bu_inv s.             Proof. intros H. exact (proj1 (proj1 H)). Qed.
Lemma all_inv_up_closed s : all_inv s -> up_closed s.       Proof. intros H. exact (proj1 (proj2 (proj2 (proj1 H)))). Qed.
Lemma all_inv_K s : all_inv s -> K s.                       Proof. intros H. exact (conj (all_inv_up_closed s H) (all_inv_cnt s H)). Qed.

(* ================================================================== bridges *)

Theorem all_inv_gc_ready s : all_inv s -> deferred s = true -> gc_ready s.
Proof. intros H D. split; [exact D|]. split; [apply cnt_inv_pending; exact (all_inv_cnt s H)|exact (all_inv_ginv s H)]. Qed.

Theorem all_inv_shift_inv2 s : all_inv s -> no_flags s -> shift_inv2 s.
Proof. intros H NF. apply ginv_shift_inv2; [exact (all_inv_ginv s H)|exact NF|exact (all_inv_faces_simple s H)]. Qed.

Theorem all_inv_fast_inv s : all_inv s -> deferred s = false -> fast_inv s.
Proof. intros H D. destruct (all_inv_quiet s H D) as [NF NP]. split; [apply all_inv_shift_inv2; assumption|exact NP]. Qed.

Theorem all_inv_of_shift_inv2 s : shift_inv2 s -> szd s -> faces_simple s -> no_pending s -> all_inv s.
Proof.
  intros I Z FS NP. pose proof I as [(NF & _) _].
  split; [apply shift_inv2_ginv; [exact I|exact (proj1 Z)]|]. split; [exact Z|]. split; [exact FS|].
  split; [apply cnt_inv_no_flags; exact NF|]. intros _. exact (conj NF NP).
Qed.

Theorem all_inv_of_fast_inv s : fast_inv s -> szd s -> faces_simple s -> all_inv s.
Proof. intros [I NP] Z FS. apply all_inv_of_shift_inv2; assumption. Qed.

Theorem all_inv_Hinv s : all_inv s -> deferred s = true -> ebu s = true -> fbu s = true -> Hinv s.
Proof.
  intros H D E Fb. pose proof (all_inv_ginv s H) as I. pose proof (ginv_cells_ref_live s I) as CL.
  destruct I as (B & LV & U & X). destruct (X E Fb) as [SN LC].
  split; [|exact (conj (all_inv_K s H) (all_inv_szd s H))].
  split; [exact B|]. split; [exact E|]. split; [exact Fb|]. split; [exact D|]. split; [exact SN|]. split; [exact CL|].
  exact (conj LC (all_inv_faces_simple s H)).
Qed.

Theorem Hinv_all_inv s : Hinv s -> all_inv s.
Proof.
  intros H. pose proof (Hinv_hinv s H) as Hh. destruct H as (B2 & (U & Cn) & Z).
  split; [apply hinv_ginv; exact Hh|]. split; [exact Z|].
  split; [exact (proj2 (proj2 (proj2 (proj2 (proj2 (proj2 (proj2 B2)))))))|]. split; [exact Cn|].
  intros D. destruct B2 as (_ & _ & _ & D' & _). congruence.
Qed.

(* the invariant reads the two deletion modes only through its last part *)
Lemma all_inv_set_modes d f s : all_inv s -> (d = false -> no_flags s /\ no_pending s) ->
  all_inv (set_flags (vbu s) (ebu s) (fbu s) d f s).
Proof.
  intros (I & Z & FS & Cn & Q) Hd. split; [exact I|]. split; [apply szd_set_flags; exact Z|]. split; [exact FS|]. split; [exact Cn|].
  intros D. cbn [deferred set_flags] in D. exact (Hd D).
Qed.

Lemma all_inv_empty : all_inv empty_mesh.
Proof. apply all_inv_b_sound. vm_compute. reflexivity. Qed.
